(* C02 (a): on a forest no command of the model diverges or panics. *)
From LC Require Import Lib.Bytes Lib.Lex Lib.Fields Lib.PathM Gen.Consts
  Model.MountInfo Model.FsTree Model.Kernel Model.Layers
  Cases.Verdict Cases.LC Proofs.MountInfoP Proofs.C02MonadP Proofs.C02ForestP Proofs.C02KernelP Proofs.C02LayersP.
Local Open Scope nat_scope.

(* what is known about every map with the skeleton read from disk *)
Definition SKF (sk : list (bytes * bytes)) : Prop :=
  forall m, skel m = sk -> allreach m /\ NoDup (map l_name m).
Definition sk_has (sk : list (bytes * bytes)) (n : bytes) : Prop :=
  forall m, skel m = sk -> lm_get m n <> None.

Lemma skel_names m : map fst (skel m) = map l_name m.
Proof. unfold skel. rewrite map_map. apply map_ext. reflexivity. Qed.
Lemma SKF_of m0 : allreach m0 -> NoDup (map l_name m0) -> SKF (skel m0).
Proof.
  intros HA ND m Hs. split; [eapply allreach_skel; [symmetry; exact Hs|exact HA]|].
  rewrite <- skel_names, Hs, skel_names. exact ND.
Qed.
Lemma sk_has_of m0 n : lm_get m0 n <> None -> sk_has (skel m0) n.
Proof.
  intros H m Hs E. apply H. apply g_of_none. rewrite <- (skel_g _ _ Hs). now apply g_of_none.
Qed.
Lemma sk_has_in sk m l : skel m = sk -> In l m -> sk_has sk (l_name l).
Proof.
  intros Hs Hl. subst sk. apply sk_has_of. destruct (lm_get_of_in _ _ Hl) as (l' & E). congruence.
Qed.

(* ------------------------------------------------------------------ primitives *)
(* Everything up to the single invocation is generic in the state invariant: it is used for
   "the kernel table stays well-formed" (no panic), "pretend changes nothing", "mounting does not
   touch files". *)
Definition fsopP (o : op) : Prop := match o with OMount _ _ _ _ _ | OUmount _ _ => False | _ => True end.
Definition mntopP (o : op) : Prop :=
  match o with OMount _ _ ty _ _ => nospace ty = true | OUmount _ _ => True | _ => False end.

Section Gen.
Variable Iv : wpred.
Variable bad : bool.
Variable e : env.
Hypothesis Hfsop : forall o, fsopP o -> hoare Iv bad ptrue (do_op e o) (fun _ => ptrue).
Hypothesis Hmntop : forall o, mntopP o -> hoare Iv bad ptrue (do_op e o) (fun _ => ptrue).
Hypothesis Hwt : forall p c0, hoare Iv bad ptrue (fs_write_text e p c0) (fun _ => ptrue).
Hypothesis Hwa : forall p ch, hoare Iv bad ptrue (write_file_atomically e p ch) (fun _ => ptrue).
Hypothesis Hrf : forall c sk ld, LDI sk ld ->
  hs Iv bad (refresh_mounts c ld) (fun ld' => LDI sk ld' /\ ld_order ld' = ld_order ld).

Lemma fs_mkdir_hs p : hs Iv bad (fs_mkdir e p) (fun _ => True).
Proof. unfold fs_mkdir. apply hs_true, Hfsop. exact I. Qed.
Lemma fs_rename_hs a b : hs Iv bad (fs_rename e a b) (fun _ => True).
Proof. unfold fs_rename. apply hs_true, Hfsop. exact I. Qed.
Lemma fs_remove_hs p : hs Iv bad (fs_remove e p) (fun _ => True).
Proof. unfold fs_remove. apply hs_true, Hfsop. exact I. Qed.
Lemma fs_symlink_hs a b : hs Iv bad (fs_symlink e a b) (fun _ => True).
Proof. unfold fs_symlink. apply hs_true, Hfsop. exact I. Qed.
Lemma fs_write_text_hs p c : hs Iv bad (fs_write_text e p c) (fun _ => True).
Proof. apply hs_true, Hwt. Qed.
Lemma write_layerfile_hs l : hs Iv bad (write_layerfile e l) (fun _ => True).
Proof. unfold write_layerfile. apply hs_true, Hwa. Qed.
Lemma fs_unmount_hs t : hs Iv bad (fs_unmount e t) (fun _ => True).
Proof. unfold fs_unmount. apply hs_true, Hmntop. exact I. Qed.
Lemma fs_mount_hs src tgt ty data : nospace ty = true -> hs Iv bad (fs_mount e src tgt ty data) (fun _ => True).
Proof.
  intros H. unfold fs_mount. apply hs_seq; [apply hs_true, Hmntop; exact H|].
  destruct (memb src propagation_sources); [apply hs_true, Hmntop; reflexivity|now apply hs_ret].
Qed.

Lemma make_symlink_hs src tgt : hs Iv bad (make_symlink_in_dir e src tgt) (fun _ => True).
Proof.
  unfold make_symlink_in_dir. apply hs_get_fs_k. intros f. cbv zeta.
  assert (F : hs Iv bad (f1 <- get_fs ;;
              (if is_dir f1 (pathdir tgt) then ret tt else fs_mkdir e (pathdir tgt)) ;;; fs_symlink e tgt src)
              (fun _ => True)).
  { apply hs_get_fs_k. intros f1. apply hs_seq; [|apply fs_symlink_hs].
    destruct (is_dir f1 (pathdir tgt)); [now apply hs_ret|apply fs_mkdir_hs]. }
  destruct (is_symlink f tgt); [|exact F].
  destruct (readlink f tgt) as [t|]; [destruct (beq t src); [now apply hs_ret|]|];
    (apply hs_seq; [apply fs_remove_hs|exact F]).
Qed.

Lemma make_export_symlinks_hs c l : hs Iv bad (make_export_symlinks e c l) (fun _ => True).
Proof.
  unfold make_export_symlinks. destruct (expand_config_exports c l) as [es|]; [|apply hs_fail].
  apply hs_seq; [apply hs_mapM_; intros x _; apply make_symlink_hs|].
  apply hs_mapM_. intros lt _. destruct (memb (fst lt) (map x_mount es)); [now apply hs_ret|].
  apply hs_get_fs_k. intros f. destruct (exists_ f (snd lt)); [apply make_symlink_hs|].
  destruct (is_symlink f (fst lt)); [apply fs_remove_hs|now apply hs_ret].
Qed.

Lemma remove_export_links_hs c l : hs Iv bad (remove_export_links e c l) (fun _ => True).
Proof.
  unfold remove_export_links. apply hs_mapM_. intros lt _. apply hs_get_fs_k. intros f.
  destruct (negb (exists_ f (fst lt))); [now apply hs_ret|].
  destruct (negb (is_symlink f (fst lt))); [apply hs_fail|apply fs_remove_hs].
Qed.

Lemma renormalize_hs ld : allreach (ld_map ld) -> hs Iv bad (renormalize ld) (fun _ => True).
Proof.
  intros H. unfold renormalize. destruct (normalize_order (ld_map ld)) eqn:E; [now apply hs_ret|].
  exfalso. exact (normalize_some _ H E).
Qed.

(* ------------------------------------------------------------------ structural commands *)
Lemma add_layer_hs c sk ld name base cf : LDI sk ld -> SKF sk ->
  hs Iv bad (add_layer e c ld name base cf) (fun _ => True).
Proof.
  intros [Hs HW] HF. destruct (HF _ Hs) as [HA ND]. unfold add_layer.
  apply hs_guard_k. intros G. apply andb_true_iff in G as [G1 G2].
  apply test_name_free in G1 as (Hn & _ & Hfree). apply test_name_opt in G2.
  apply hs_guard_k. intros _. apply hs_get_fs_k. intros f. cbv zeta.
  match goal with |- hs _ _ (match ?b with _ => _ end) _ => destruct b as [[ms es]|] end; [|apply hs_fail].
  apply hs_seq; [apply fs_mkdir_hs|]. apply hs_seq; [apply write_layerfile_hs|].
  apply hs_seq; [apply fs_mkdir_hs|].
  apply hs_seq.
  { destruct base; (apply hs_seq; [apply fs_mkdir_hs|]); [apply fs_write_text_hs|apply fs_mkdir_hs]. }
  apply renormalize_hs. cbn [set_layer ld_map]. apply allreach_add; cbn [l_name l_base]; [exact HA|exact Hfree|].
  destruct G2 as [->|(_ & l0 & E)]; [now left|right; congruence].
Qed.

Lemma remove_layer_hs c sk ld name files : LDI sk ld -> SKF sk ->
  hs Iv bad (remove_layer e c ld name files) (fun _ => True).
Proof.
  intros [Hs HW] HF. destruct (HF _ Hs) as [HA ND]. unfold remove_layer.
  apply hs_guard_k. intros G. apply test_name_need in G as (Hn & _ & l & El). rewrite El.
  apply hs_guard_k. intros _. apply hs_guard_k. intros G. apply negb_true_iff in G.
  apply hs_guard_k. intros _. apply hs_seq; [apply remove_export_links_hs|].
  apply hs_get_fs_k. intros f. apply hs_seq.
  { destruct (files || pristine_tree c f l); [apply fs_remove_hs|]. cbv zeta.
    destruct (exists_ f _); [apply hs_fail|apply fs_rename_hs]. }
  apply renormalize_hs. cbn [ld_map]. now apply allreach_del.
Qed.

Lemma rename_layer_hs c sk ld old new : LDI sk ld -> SKF sk ->
  hs Iv bad (rename_layer e c ld old new) (fun _ => True).
Proof.
  intros [Hs HW] HF. destruct (HF _ Hs) as [HA ND]. unfold rename_layer.
  apply hs_guard_k. intros G. apply andb_true_iff in G as [G1 G2].
  apply test_name_need in G1 as (Ho & _ & l & El). apply test_name_free in G2 as (Hn & _ & Hfree). rewrite El.
  apply hs_guard_k. intros _. apply hs_guard_k. intros _. cbv zeta. apply hs_guard_k. intros _.
  apply hs_seq; [apply remove_export_links_hs|]. apply hs_seq; [apply fs_rename_hs|].
  apply hs_seq; [apply hs_mapM_; intros k _; apply write_layerfile_hs|].
  eapply hs_bind.
  - apply renormalize_hs. cbn [ld_map].
    exact (allreach_renamed e (ld_map ld) l old new (layer_path c new) HA ND El Ho Hn Hfree).
  - intros ld' _. apply hs_seq; [apply write_layerfile_hs|now apply hs_ret].
Qed.

Lemma rebase_layer_hs c sk ld name newbase : LDI sk ld -> SKF sk ->
  hs Iv bad (rebase_layer e c ld name newbase) (fun _ => True).
Proof.
  intros [Hs HW] HF. unfold rebase_layer.
  apply hs_guard_k. intros G. apply andb_true_iff in G as [G1 _].
  apply test_name_need in G1 as (Ho & _ & l & El). rewrite El.
  apply hs_guard_k. intros _. apply hs_guard_k. intros _. cbv zeta. apply hs_guard_k. intros G.
  apply hs_guard_k. intros _. eapply hs_bind.
  - apply renormalize_hs. cbn [ld_map]. now apply check_inh_allreach.
  - intros ld' _. apply hs_seq; [apply write_layerfile_hs|now apply hs_ret].
Qed.

(* ------------------------------------------------------------------ mkdirs / mount / umount *)
Lemma makedirs_hs c sk ld name : LDI sk ld -> hs Iv bad (makedirs e c ld name) (LDI sk).
Proof.
  intros H. unfold makedirs.
  apply hs_guard_k. intros G. apply test_name_need in G as (Ho & _ & l & El). rewrite El.
  apply hs_guard_k. intros _. destruct (l_state l <? st_complete)%N; [|now apply hs_ret].
  apply hs_get_fs_k. intros f. cbv zeta.
  apply hs_seq; [apply hs_mapM_; intros p _; apply fs_mkdir_hs|].
  apply hs_get_fs_k. intros f'. apply hs_ret.
  apply (LDI_set_layer sk ld _ l H); [now rewrite (lm_get_name _ _ _ El)|].
  rewrite find_layerstate_core. destruct (_ && _); reflexivity.
Qed.

Lemma map_opt_in {A B} (f : A -> option B) : forall l ys, map_opt f l = Some ys ->
  forall y, In y ys -> exists x, In x l /\ f x = Some y.
Proof.
  induction l as [|x r IH]; cbn [map_opt]; intros ys H y Hy.
  - injection H as <-. destruct Hy.
  - destruct (f x) as [y0|] eqn:Ex; [|discriminate]. destruct (map_opt f r) as [ys0|]; [|discriminate].
    injection H as <-. destruct Hy as [<-|Hy].
    + exists x. split; [now left|exact Ex].
    + destruct (IH _ eq_refl _ Hy) as (x' & H1 & H2). exists x'. split; [now right|exact H2].
Qed.
Lemma expand_mounts_fstype c m l xs : expand_config_mounts c m l = Some xs -> mounts_ok l ->
  forall x, In x xs -> nospace (x_fstype x) = true.
Proof.
  unfold expand_config_mounts. intros H Hl x Hx.
  destruct (map_opt_in _ _ _ H _ Hx) as (nm & Hnm & E).
  destruct (adjust_prefixed _ _); [|discriminate]. injection E as <-. cbn [x_fstype]. now apply (mounts_ok_nospace l).
Qed.

Lemma mount_one_hs c sk ld name : LDI sk ld -> SKF sk -> sk_has sk name ->
  hs Iv bad (mount_one e c ld name) (LDI sk).
Proof.
  intros H HF Hn. pose proof H as [Hs HW]. destruct (HF _ Hs) as [HA _]. unfold mount_one.
  destruct (lm_get (ld_map ld) name) as [l|] eqn:El; [|exfalso; exact (Hn _ Hs El)].
  apply hs_guard_k. intros _. cbv zeta.
  assert (Hml : mounts_ok l) by (apply HW; eapply lm_get_in; eauto).
  eapply hs_bind with (Q := LDI sk).
  { destruct (l_base l) as [|b0 br] eqn:Eb; [now apply hs_ret|].
    destruct (get_mount _ _); [now apply hs_ret|].
    destruct (lm_get (ld_map ld) (b0 :: br)) as [bl|] eqn:Ebl.
    - apply hs_seq; [apply fs_mount_hs; reflexivity|].
      eapply hs_weaken; [apply (Hrf c sk ld H)|]. intros ld' [H' _]. exact H'.
    - exfalso. apply (allreach_bres _ HA l); [eapply lm_get_in; eauto|rewrite Eb; discriminate|].
      rewrite Eb. now apply g_of_none. }
  intros ldA HA'. clear H Hs HW HA El. 
  destruct (expand_config_mounts c (ld_map ldA) l) as [xs|] eqn:Ex; [|apply hs_fail].
  assert (Hxs : forall x, In x xs -> nospace (x_fstype x) = true).
  { eapply expand_mounts_fstype; [exact Ex|exact Hml]. }
  eapply hs_bind with (Q := LDI sk).
  { clear - HA' Hxs Hfsop Hmntop Hrf. revert ldA HA'. induction xs as [|x r IH]; intros ld H.
    - now apply hs_ret.
    - cbv beta iota fix.
      destruct (get_mount (pr_mounts (ld_probe ld)) (x_mount x)) as [mnt|].
      + destruct (source_is_expected _ mnt _); [|apply hs_fail].
        apply IH; [intros y Hy; apply Hxs; now right|exact H].
      + apply hs_get_fs_k. intros f. apply hs_seq.
        { destruct (exists_ f (x_source x)); [now apply hs_ret|].
          destruct (in_any_layer_dir 64 (c_layers c) (x_source x)); [apply fs_mkdir_hs|apply hs_fail]. }
        apply hs_seq; [apply fs_mount_hs, Hxs; now left|].
        eapply hs_bind; [apply (Hrf c sk ld H)|]. intros ld' [H' _].
        apply IH; [intros y Hy; apply Hxs; now right|exact H']. }
  intros ld0 H0. eapply hs_bind; [apply (Hrf c sk ld0 H0)|]. intros ld1 [H1 _].
  apply hs_get_fs_k. intros f.
  destruct (lm_get (ld_map ld1) name) as [l1|] eqn:El1; [|exfalso; exact (Hn _ (proj1 H1) El1)].
  cbv zeta. apply hs_guard_k. intros _. apply hs_ret.
  apply (LDI_set_layer sk ld1 _ l1 H1); [now rewrite (lm_get_name _ _ _ El1)|apply find_layerstate_core].
Qed.

Lemma mount_layer_hs c sk ld name : LDI sk ld -> SKF sk -> hs Iv bad (mount_layer e c ld name) (LDI sk).
Proof.
  intros H HF. pose proof H as [Hs HW]. destruct (HF _ Hs) as [HA _]. unfold mount_layer.
  apply hs_guard_k. intros G. apply test_name_need in G as (Ho & _ & l & El). rewrite El.
  apply hs_guard_k. intros _.
  destruct (ancestors_and_self (S (length (ld_map ld))) (ld_map ld) name []) as [chain|] eqn:Ea.
  2:{ exfalso. destruct (HA l (lm_get_in _ _ _ El)) as (k & Hk).
      assert (Hr : greach (g_of (ld_map ld)) name (S k)).
      { econstructor; [exact Ho| |exact Hk]. apply g_of_some. eauto. }
      pose proof (greach_bound _ _ _ Hr) as B.
      destruct (ancestors_some _ _ _ Hr (S (length (ld_map ld))) []) as (ch & E & _); [lia|]. congruence. }
  assert (Hch : forall x, In x chain -> sk_has sk (l_name x)).
  { destruct (HA l (lm_get_in _ _ _ El)) as (k & Hk).
    assert (Hr : greach (g_of (ld_map ld)) name (S k)).
    { econstructor; [exact Ho| |exact Hk]. apply g_of_some. eauto. }
    pose proof (greach_bound _ _ _ Hr) as B.
    destruct (ancestors_some _ _ _ Hr (S (length (ld_map ld))) []) as (ch & E & Hin); [lia|].
    rewrite Ea in E. injection E as <-. intros x Hx. destruct (Hin x Hx) as [[]|Hx'].
    eapply sk_has_in; eauto. }
  eapply hs_bind with (Q := LDI sk).
  { apply (hs_foldM Iv bad (LDI sk)); [|exact H]. intros ld' x Hx H'. now apply makedirs_hs. }
  intros ld1 H1. eapply hs_bind with (Q := LDI sk).
  { apply (hs_foldM Iv bad (LDI sk)); [|exact H1]. intros ld' x Hx H'. apply mount_one_hs; auto. }
  intros ld2 H2. apply hs_seq; [apply hs_mapM_; intros x _; apply make_export_symlinks_hs|now apply hs_ret].
Qed.

Lemma unmount_layer_hs c sk ld name : LDI sk ld -> sk_has sk name ->
  hs Iv bad (unmount_layer e c ld name) (fun r => LDI sk (snd r)).
Proof.
  intros H Hn. pose proof H as [Hs HW]. unfold unmount_layer.
  destruct (lm_get (ld_map ld) name) as [l|] eqn:El; [|exfalso; exact (Hn _ Hs El)].
  destruct (error_if_busy l false); [now apply hs_ret|].
  destruct (l_kmounts l) as [|k0 kr]; [now apply hs_ret|].
  apply hs_seq; [apply hs_mapM_; intros t _; apply fs_unmount_hs|].
  eapply hs_bind; [apply (Hrf c sk ld H)|]. intros ld1 [H1 _].
  apply hs_get_fs_k. intros f.
  destruct (lm_get (ld_map ld1) name) as [l1|] eqn:El1; [|exfalso; exact (Hn _ (proj1 H1) El1)].
  apply hs_ret. cbn [snd].
  apply (LDI_set_layer sk ld1 _ l1 H1); [now rewrite (lm_get_name _ _ _ El1)|apply find_layerstate_core].
Qed.

Lemma unmount_hs c sk ld name all : LDI sk ld -> (forall n, In n (ld_order ld) -> sk_has sk n) ->
  hs Iv bad (unmount e c ld name all) (fun _ => True).
Proof.
  intros H Ho. pose proof H as [Hs HW]. unfold unmount. destruct name as [|a name'].
  - destruct (negb all); [apply hs_fail|].
    eapply hs_bind with (Q := fun r => LDI sk (snd r)).
    + assert (Hnames : forall n, In n (rev (ld_order ld)) -> sk_has sk n).
      { intros n Hn. apply Ho. now apply in_rev. }
      match goal with |- hs _ _ (?go _ _ _) _ =>
        assert (L : forall names ld0 busy, LDI sk ld0 -> (forall n, In n names -> sk_has sk n) ->
                    hs Iv bad (go names ld0 busy) (fun r => LDI sk (snd r))) end.
      { induction names as [|n rest IH]; intros ld0 busy H0 Hn0.
        - now apply hs_ret.
        - cbv beta iota fix. eapply hs_bind; [apply (unmount_layer_hs c sk ld0 n H0); apply Hn0; now left|].
          intros r Hr. apply IH; [exact Hr|intros n' Hn'; apply Hn0; now right]. }
      apply L; assumption.
    + intros r _. destruct (fst r); [apply hs_fail|now apply hs_ret].
  - destruct all; [apply hs_fail|].
    apply hs_guard_k. intros G. apply test_name_need in G as (_ & _ & l & El).
    eapply hs_bind; [apply (unmount_layer_hs c sk ld _ H)|].
    + rewrite <- (lm_get_name _ _ _ El). apply (sk_has_in sk (ld_map ld) l Hs). eapply lm_get_in; eauto.
    + intros r _. destruct (fst r); [now apply hs_ret|apply hs_fail|apply hs_fail].
Qed.

Lemma shake_hs c ld : hs Iv bad (shake e c ld) (fun _ => True).
Proof.
  unfold shake. apply hs_seq; [|now apply hs_ret]. apply hs_mapM_. intros n _.
  destruct (lm_get (ld_map ld) n) as [l|]; [|now apply hs_ret].
  destruct (l_base l); [now apply hs_ret|].
  destruct (st_mounted <=? l_state l)%N; [|now apply hs_ret]. apply fs_mount_hs. reflexivity.
Qed.

Lemma chroot_hs c sk ld name : LDI sk ld -> SKF sk -> hs Iv bad (chroot_prepare e c ld name) (fun _ => True).
Proof.
  intros H HF. unfold chroot_prepare.
  apply hs_guard_k. intros G. apply test_name_need in G as (_ & _ & l & El). rewrite El.
  destruct (l_state l <? st_mounted)%N; [|now apply hs_ret].
  eapply hs_weaken; [now apply (mount_layer_hs c sk ld name)|auto].
Qed.

Lemma init_base_hs c : hs Iv bad (init_base e c) (fun _ => True).
Proof.
  unfold init_base. apply hs_get_fs_k. intros f. cbv zeta.
  apply hs_seq.
  { destruct (filter _ _); [now apply hs_ret|]. destruct (_ || _); [apply hs_fail|now apply hs_ret]. }
  apply hs_seq; [apply hs_mapM_; intros p _; apply fs_mkdir_hs|].
  apply hs_seq; [apply hs_mapM_; intros p _; apply fs_write_text_hs|].
  destruct (filter (fun pc => is_file f (fst pc)) _); [|apply hs_fail].
  destruct (filter (fun p => negb (is_dir f p)) _); [|now apply hs_ret].
  destruct (filter (fun pc => negb (is_file f (fst pc))) _); [apply hs_fail|now apply hs_ret].
Qed.

End Gen.

(* ------------------------------------------------------------------ instance: no invariant at all *)
(* ProbeMounts cannot panic on a table the kernel model renders (C02KernelP.probe_of_total), so
   "never Diverged / Panicked" needs no invariant on the state. *)
Definition TT : wpred := fun _ => True.
Lemma TT_op bad e o : hoare TT bad ptrue (do_op e o) (fun _ => ptrue).
Proof. apply hoare_do_op. intros; exact I. Qed.
Lemma TT_fsop bad e o : fsopP o -> hoare TT bad ptrue (do_op e o) (fun _ => ptrue).
Proof. intros _. apply TT_op. Qed.
Lemma TT_mntop bad e o : mntopP o -> hoare TT bad ptrue (do_op e o) (fun _ => ptrue).
Proof. intros _. apply TT_op. Qed.
Lemma TT_wt bad e p c0 : hoare TT bad ptrue (fs_write_text e p c0) (fun _ => ptrue).
Proof. apply hoare_write_text. intros; exact I. Qed.
Lemma TT_wa bad e p ch : hoare TT bad ptrue (write_file_atomically e p ch) (fun _ => ptrue).
Proof. apply hoare_write_atomically; intros; exact I. Qed.
Lemma TT_rf bad c sk ld : LDI sk ld ->
  hs TT bad (refresh_mounts c ld) (fun ld' => LDI sk ld' /\ ld_order ld' = ld_order ld).
Proof.
  intros H s _ _. rewrite refresh_eq. destruct (probe_of_total (w_ks (s_w s))) as (ms & ds & ->).
  split; [exact I|]. split; [now apply refresh_LDI|reflexivity].
Qed.
#[export] Hint Resolve TT_fsop TT_mntop TT_wt TT_wa TT_rf : ttinst.

(* ------------------------------------------------------------------ one invocation *)
Definition no_bad {A} (o : outcome A) : Prop := match o with Diverged | Panicked => False | _ => True end.

Definition with_layers (c : cfgT) (um : users_map) (body : ldefs -> M ldefs) : M (option ldefs) :=
  f <- get_fs ;; guard (base_set_up c f) ;;; ld <- get_layers c um ;; ld' <- body ld ;; ret (Some ld').

Lemma with_layers_nd c um body s :
  check_inheritance (read_layer_files c (w_fs (s_w s))) = true ->
  NoDup (children (w_fs (s_w s)) (c_layers c)) ->
  (forall sk ld, LDI sk ld -> SKF sk -> (forall n, In n (ld_order ld) -> sk_has sk n) ->
     hs TT true (body ld) (fun _ => True)) ->
  no_bad (fst (with_layers c um body s)).
Proof.
  intros HC ND Hbody. unfold with_layers, bind at 1, get_fs. cbv beta iota.
  unfold bind at 1. destruct (base_set_up c (w_fs (s_w s))); cbn [guard]; [|exact I].
  unfold ret at 1. cbv beta iota. unfold bind at 1.
  destruct (get_layers_spec c um s) as (o & E & Ho). rewrite E.
  destruct o as [ld| | | |]; cbn [fst no_bad]; auto.
  - destruct Ho as (HL & _ & HN). set (m0 := read_layer_files c (w_fs (s_w s))) in *.
    pose proof (check_inh_allreach _ HC) as HA.
    assert (HF : SKF (skel m0)) by (apply SKF_of; [exact HA|now apply rlf_nodup]).
    assert (Hord : forall n, In n (ld_order ld) -> sk_has (skel m0) n).
    { intros n Hn. destruct (normalize_names _ _ HN n Hn) as (l & Hl & <-). eapply sk_has_in; eauto. }
    pose proof (Hbody _ _ HL HF Hord s I I) as Hb. unfold bind.
    destruct (body ld s) as [[ld'| | | |] s']; cbn; auto.
  - destruct Ho as [_ Ho]. pose proof (normalize_some _ (check_inh_allreach _ HC)). contradiction.
Qed.

Lemma apply_op_nd o s : no_bad (fst ((apply_op o ;;; ret (@None ldefs)) s)).
Proof.
  unfold bind. rewrite apply_op_eq. unfold wact. destruct (op_result o (s_w s)); cbn; exact I.
Qed.

Theorem run_command_no_bad e c um cmd s :
  check_inheritance (read_layer_files c (w_fs (s_w s))) = true ->
  NoDup (children (w_fs (s_w s)) (c_layers c)) ->
  no_bad (fst (run_command e c um cmd s)).
Proof.
  intros HC ND.
  assert (W : forall body, (forall sk ld, LDI sk ld -> SKF sk -> (forall n, In n (ld_order ld) -> sk_has sk n) ->
     hs TT true (body ld) (fun _ => True)) -> no_bad (fst (with_layers c um body s))).
  { intros body Hb. now apply with_layers_nd. }
  destruct cmd; cbn [run_command]; try apply apply_op_nd.
  - (* init *) pose proof (init_base_hs TT true e (TT_fsop true e) (TT_wt true e) c s I I) as H. unfold bind.
    destruct (init_base e c s) as [[u| | | |] s']; cbn; auto.
  - apply (W (fun ld => add_layer e c ld name base configfile)). intros. eapply add_layer_hs with (sk := sk); eauto with ttinst.
  - apply (W (fun ld => remove_layer e c ld name files)). intros. eapply remove_layer_hs with (sk := sk); eauto with ttinst.
  - apply (W (fun ld => rename_layer e c ld a b0)). intros. eapply rename_layer_hs with (sk := sk); eauto with ttinst.
  - apply (W (fun ld => rebase_layer e c ld a b0)). intros. eapply rebase_layer_hs with (sk := sk); eauto with ttinst.
  - apply (W (fun ld => makedirs e c ld a)). intros. eapply hs_weaken; [eapply makedirs_hs with (sk := sk); eauto with ttinst|auto].
  - apply (W (fun ld => mount_layer e c ld a)). intros. eapply hs_weaken; [eapply mount_layer_hs with (sk := sk); eauto with ttinst|auto].
  - apply (W (fun ld => unmount e c ld a all)). intros. eapply unmount_hs with (sk := sk); eauto with ttinst.
  - apply (W (fun ld => shake e c ld)). intros. eapply shake_hs; eauto with ttinst.
  - apply (W (fun ld => chroot_prepare e c ld a)). intros. eapply chroot_hs with (sk := sk); eauto with ttinst.
  - apply (W (fun ld => ret ld)). intros. now apply hs_ret.
  - unfold bind, get_fs. destruct (open_trunc (w_fs (s_w s)) p); cbn; exact I.
Qed.
