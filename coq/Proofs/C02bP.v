(* C02 (b): requests that would break the forest are refused before anything is changed. *)
From LC Require Import Lib.Bytes Lib.Lex Lib.Fields Lib.PathM Gen.Consts
  Model.MountInfo Model.FsTree Model.Kernel Model.Layers
  Cases.Verdict Cases.LC Cases.C02
  Proofs.MountInfoP Proofs.C02MonadP Proofs.C02ForestP Proofs.C02KernelP Proofs.C02LayersP Proofs.C02aP.
Import LC LCS.
Local Open Scope nat_scope.

Lemma guard_k {B} (b : bool) (k : M B) s : (guard b ;;; k) s = if b then k s else (Fail, s).
Proof. unfold bind, guard. destruct b; reflexivity. Qed.

Lemma exists_layer_skel m m' n : skel m = skel m' -> C02.exists_layer m n = C02.exists_layer m' n.
Proof.
  intros H. unfold C02.exists_layer. pose proof (skel_g _ _ H n) as G. unfold g_of in G.
  destruct (lm_get m n), (lm_get m' n); cbn in G; congruence.
Qed.
Lemma exists_layer_get m n : C02.exists_layer m n = true <-> exists l, lm_get m n = Some l.
Proof. unfold C02.exists_layer. destruct (lm_get m n); split; eauto; [discriminate|intros (? & ?); discriminate]. Qed.
Lemma has_child_skel m m' n : skel m = skel m' -> has_child m n = has_child m' n.
Proof.
  intros H. unfold has_child.
  assert (G : forall m0, existsb (fun l => beq (l_base l) n) m0 = existsb (fun p => beq (snd p) n) (skel m0)).
  { induction m0 as [|x r IH]; cbn; [reflexivity|]. now rewrite IH. }
  now rewrite !G, H.
Qed.

Lemma test_free_false m n : C02.usable_name n = false \/ C02.exists_layer m n = true -> test_name m n NFree = false.
Proof.
  unfold C02.usable_name, C02.exists_layer, test_name. destruct n as [|a n']; [reflexivity|].
  cbn [beq negb andb]. intros [H|H]; [now rewrite H|]. destruct (lm_get m (a :: n')); [apply andb_false_r|discriminate].
Qed.
Lemma test_need_false m n : C02.usable_name n = false \/ C02.exists_layer m n = false -> test_name m n NNeed = false.
Proof.
  unfold C02.usable_name, C02.exists_layer, test_name. destruct n as [|a n']; [reflexivity|].
  cbn [beq negb andb]. intros [H|H]; [now rewrite H|]. destruct (lm_get m (a :: n')); [discriminate|apply andb_false_r].
Qed.
Lemma test_opt_false m n : n <> [] -> C02.usable_name n = false \/ C02.exists_layer m n = false ->
  test_name m n NOptNeed = false.
Proof.
  unfold C02.usable_name, C02.exists_layer, test_name. destruct n as [|a n']; [congruence|]. intros _.
  cbn [beq negb andb]. intros [H|H]; [now rewrite H|]. destruct (lm_get m (a :: n')); [discriminate|apply andb_false_r].
Qed.

(* ------------------------------------------------------------------ rebase onto a descendant *)
Lemma descends_cycle m0 m a l b0 : skel m = skel m0 -> lm_get m a = Some l ->
  forall F d k, d <> [] -> descends F m0 a d = true ->
  greach (g_of (lm_set m (set_base l b0))) d k -> exists j, j <= k /\ greach (g_of (lm_set m (set_base l b0))) a j.
Proof.
  intros Hs El. induction F as [|F IH]; intros d k Hd HD Hk; cbn [descends] in HD.
  - rewrite orb_false_r in HD. apply beq_true in HD. subst d. exists k. split; [lia|exact Hk].
  - apply orb_true_iff in HD as [HD|HD].
    { apply beq_true in HD. subst d. exists k. split; [lia|exact Hk]. }
    destruct (beq a d) eqn:Ead.
    { apply beq_true in Ead. subst d. exists k. split; [lia|exact Hk]. }
    destruct (lm_get m0 d) as [x|] eqn:Ex; [|discriminate].
    destruct (l_base x) as [|c0 bx] eqn:Eb; [discriminate|].
    inversion Hk as [|d' b k' Hd' Hg Hr]; subst; [congruence|].
    rewrite g_of_set in Hg. cbn [set_base l_name] in Hg. rewrite (lm_get_name _ _ _ El), Ead in Hg.
    rewrite (skel_g _ _ Hs) in Hg. unfold g_of in Hg. rewrite Ex in Hg. cbn in Hg. rewrite Eb in Hg.
    injection Hg as <-. destruct (IH (c0 :: bx) k') as (j & J1 & J2); [discriminate|exact HD|exact Hr|].
    exists j. split; [lia|exact J2].
Qed.

Lemma rebase_descendant_refused m0 m a l b0 : skel m = skel m0 -> lm_get m a = Some l -> a <> [] -> b0 <> [] ->
  descends (S (length m0)) m0 a b0 = true -> check_inheritance (lm_set m (set_base l b0)) = false.
Proof.
  intros Hs El Ha Hb HD. destruct (check_inheritance _) eqn:E; [|reflexivity]. exfalso.
  apply check_inh_allreach in E. destruct (E _ (lm_set_has m (set_base l b0))) as (k & Hk).
  cbn [set_base l_base] in Hk.
  destruct (descends_cycle m0 m a l b0 Hs El _ _ _ Hb HD Hk) as (j & J1 & J2).
  assert (greach (g_of (lm_set m (set_base l b0))) a (S k)).
  { econstructor; [exact Ha| |exact Hk]. rewrite g_of_set. cbn [set_base l_name l_base].
    now rewrite (lm_get_name _ _ _ El), beq_refl. }
  pose proof (greach_det _ _ _ J2 _ H). lia.
Qed.

(* ------------------------------------------------------------------ each breaking request fails at once *)
Section Refuse.
Variables (e : env) (c : cfgT) (m0 : lmap) (ld : ldefs).
Hypothesis Hs : skel (ld_map ld) = skel m0.

Lemma add_refused n b0 cf s :
  (negb (C02.usable_name n) || C02.exists_layer m0 n
   || (negb (beq b0 []) && (negb (C02.usable_name b0) || negb (C02.exists_layer m0 b0) || beq b0 n))) = true ->
  add_layer e c ld n b0 cf s = (Fail, s).
Proof.
  intros H. unfold add_layer. rewrite guard_k.
  destruct (test_name (ld_map ld) n NFree && test_name (ld_map ld) b0 NOptNeed) eqn:G; [|reflexivity].
  apply andb_true_iff in G as [G1 G2]. rewrite guard_k.
  apply orb_true_iff in H as [H|H].
  - exfalso. rewrite test_free_false in G1; [discriminate|].
    apply orb_true_iff in H as [H|H]; [left; now apply negb_true_iff|right].
    now rewrite (exists_layer_skel _ _ _ Hs).
  - apply andb_true_iff in H as [Hb H]. apply negb_true_iff, beq_false in Hb.
    apply orb_true_iff in H as [H|H].
    + exfalso. rewrite test_opt_false in G2; [discriminate|exact Hb|].
      apply orb_true_iff in H as [H|H]; [left; now apply negb_true_iff|right].
      rewrite (exists_layer_skel _ _ _ Hs). now apply negb_true_iff.
    + rewrite H. assert (beq b0 [] = false) as -> by now apply beq_false. reflexivity.
Qed.

Lemma rename_refused a n s :
  (negb (C02.usable_name a) || negb (C02.exists_layer m0 a) || negb (C02.usable_name n) || C02.exists_layer m0 n) = true ->
  rename_layer e c ld a n s = (Fail, s).
Proof.
  intros H. unfold rename_layer. rewrite guard_k.
  assert (G : test_name (ld_map ld) a NNeed && test_name (ld_map ld) n NFree = false); [|now rewrite G].
  rewrite <- !(exists_layer_skel _ _ _ Hs) in H.
  repeat (apply orb_true_iff in H as [H|H]).
  - rewrite test_need_false; [reflexivity|left; now apply negb_true_iff].
  - rewrite test_need_false; [reflexivity|right; now apply negb_true_iff].
  - rewrite (test_free_false _ n); [apply andb_false_r|left; now apply negb_true_iff].
  - rewrite (test_free_false _ n); [apply andb_false_r|now right].
Qed.

Lemma rebase_refused a b0 s :
  (negb (C02.usable_name a) || negb (C02.exists_layer m0 a)
   || (negb (beq b0 []) && (negb (C02.usable_name b0) || negb (C02.exists_layer m0 b0)
                             || descends (S (length m0)) m0 a b0))) = true ->
  rebase_layer e c ld a b0 s = (Fail, s).
Proof.
  intros H. unfold rebase_layer. rewrite guard_k.
  destruct (test_name (ld_map ld) a NNeed && test_name (ld_map ld) b0 NOptNeed) eqn:G; [|reflexivity].
  apply andb_true_iff in G as [G1 G2].
  rewrite <- !(exists_layer_skel _ _ _ Hs) in H.
  apply orb_true_iff in H as [H|H].
  { exfalso. rewrite test_need_false in G1; [discriminate|].
    apply orb_true_iff in H as [H|H]; [left|right]; now apply negb_true_iff. }
  apply andb_true_iff in H as [Hb H]. apply negb_true_iff, beq_false in Hb.
  apply orb_true_iff in H as [H|H].
  { exfalso. rewrite test_opt_false in G2; [discriminate|exact Hb|].
    apply orb_true_iff in H as [H|H]; [left|right]; now apply negb_true_iff. }
  apply test_name_need in G1 as (Ha & _ & l & El). rewrite El.
  rewrite guard_k. destruct (negb (l_state l =? st_error)%N); [|reflexivity].
  rewrite guard_k. destruct (negb (error_if_busy l true)); [|reflexivity].
  cbv zeta. rewrite guard_k.
  now rewrite (rebase_descendant_refused m0 (ld_map ld) a l b0 Hs El Ha Hb H).
Qed.

Lemma remove_refused a files s :
  (negb (C02.usable_name a) || negb (C02.exists_layer m0 a) || has_child m0 a) = true ->
  remove_layer e c ld a files s = (Fail, s).
Proof.
  intros H. unfold remove_layer. rewrite guard_k.
  destruct (test_name (ld_map ld) a NNeed) eqn:G1; [|reflexivity].
  rewrite <- !(exists_layer_skel _ _ _ Hs), <- (has_child_skel _ _ _ Hs) in H.
  apply orb_true_iff in H as [H|H].
  { exfalso. rewrite test_need_false in G1; [discriminate|].
    apply orb_true_iff in H as [H|H]; [left|right]; now apply negb_true_iff. }
  apply test_name_need in G1 as (_ & _ & l & El). rewrite El.
  rewrite guard_k. destruct (negb (l_state l =? st_error)%N); [|reflexivity].
  rewrite guard_k. now rewrite H.
Qed.
End Refuse.

(* ------------------------------------------------------------------ one invocation *)
Lemma with_layers_fail c um body s :
  check_inheritance (read_layer_files c (w_fs (s_w s))) = true ->
  (forall ld, skel (ld_map ld) = skel (read_layer_files c (w_fs (s_w s))) -> body ld s = (Fail, s)) ->
  with_layers c um body s = (Fail, s).
Proof.
  intros HC Hb. unfold with_layers, bind at 1, get_fs. cbv beta iota.
  rewrite guard_k. destruct (base_set_up c (w_fs (s_w s))); [|reflexivity].
  unfold bind at 1. destruct (get_layers_spec c um s) as (o & E & Ho). rewrite E.
  destruct o as [ld| | | |]; try reflexivity.
  - destruct Ho as ((HL & _) & _). unfold bind. now rewrite (Hb ld HL).
  - destruct Ho.
  - destruct Ho as [_ Ho]. pose proof (normalize_some _ (check_inh_allreach _ HC)). contradiction.
  - contradiction.
Qed.

Theorem breaking_refused e c um cmd s :
  C02.forest_ok c (w_fs (s_w s)) = true -> C02.breaking c (w_fs (s_w s)) cmd = true ->
  run_command e c um cmd s = (Fail, s).
Proof.
  intros HF HB. unfold C02.forest_ok in HF. apply forest_ok_parts in HF as [HC _].
  unfold C02.breaking, C02.layers_of in HB.
  destruct cmd; try discriminate; cbn [run_command].
  - apply (with_layers_fail c um (fun ld => add_layer e c ld name base configfile)); auto.
    intros ld Hs. now apply (add_refused e c _ ld Hs).
  - apply (with_layers_fail c um (fun ld => remove_layer e c ld name files)); auto.
    intros ld Hs. now apply (remove_refused e c _ ld Hs).
  - apply (with_layers_fail c um (fun ld => rename_layer e c ld a b0)); auto.
    intros ld Hs. now apply (rename_refused e c _ ld Hs).
  - apply (with_layers_fail c um (fun ld => rebase_layer e c ld a b0)); auto.
    intros ld Hs. now apply (rebase_refused e c _ ld Hs).
Qed.

(* the spec's "unchanged" on an unchanged state *)
Lemma list_beq_refl' {A} (eq : A -> A -> bool) : (forall x, eq x x = true) -> forall l, list_beq eq l l = true.
Proof. intros H. induction l; cbn; auto. now rewrite H, IHl. Qed.
Lemma node_beq_refl n : node_beq n n = true.
Proof. destruct n; cbn; auto using beq_refl. Qed.
Lemma fs_beq_refl f : fs_beq f f = true.
Proof. unfold fs_beq. apply list_beq_refl'. intros [p n]. unfold entry_beq. cbn. now rewrite beq_refl, node_beq_refl. Qed.
Lemma kline_beq_refl k : kline_beq k k = true.
Proof.
  unfold kline_beq. rewrite !beq_refl. cbn. rewrite (list_beq_refl' beq beq_refl). cbn.
  apply list_beq_refl'. intros [a [b|]]; cbn; now rewrite !beq_refl.
Qed.
Lemma ktab_beq_refl t : ktab_beq t t = true.
Proof. apply list_beq_refl', kline_beq_refl. Qed.
