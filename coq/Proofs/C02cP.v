(* C02 (c): the forest read back from disk stays a forest.  The layers a fresh FindLayers sees are
   a function G : name -> option base of the file tree; each structural command changes G at the
   names it works on only, and to values that keep the forest. *)
From LC Require Import Lib.Bytes Lib.Lex Lib.Fields Lib.PathM Model.Config Gen.Consts
  Model.MountInfo Model.FsTree Model.Kernel Model.Layers Cases.Verdict Cases.LC Cases.C02
  Proofs.PathP Proofs.PathCP Proofs.C02FsP Proofs.MountInfoP Proofs.C02MonadP Proofs.C02ForestP Proofs.C02KernelP
  Proofs.RoundtripP Proofs.C02LayersP Proofs.C02aP Proofs.C02bP Proofs.LegalNameP.
Local Open Scope nat_scope.

(* ------------------------------------------------------------------ legal names are plain components *)
Lemma legal_plain n : legal_name n = true -> n <> [] -> plain n.
Proof.
  intros H Hne. pose proof (legal_name_bytes n H) as Hc. rewrite Forall_forall in Hc.
  unfold plain. split; [exact Hne|]. split; [|split].
  - intros ->. specialize (Hc (nb 46) (or_introl eq_refl)). rewrite name_byte_dot in Hc. discriminate.
  - intros ->. specialize (Hc (nb 46) (or_introl eq_refl)). rewrite name_byte_dot in Hc. discriminate.
  - intros Hin. specialize (Hc sl Hin). change sl with (nb 47) in Hc. rewrite name_byte_sl in Hc. discriminate.
Qed.
Lemma legal_tok n : legal_name n = true -> n <> [] -> tok_ok n.
Proof.
  intros H Hn. split; [exact Hn|]. apply nsp_intro. intros x Hx.
  pose proof (legal_name_in n x H Hx) as Hb. now destruct (name_byte_facts x Hb) as (_ & _ & _ & Hsp).
Qed.

Lemma stat_nolink f p : (forall t, fs_get f p <> Some (Link t)) -> stat f p = fs_get f p.
Proof.
  intros H. unfold stat.
  change (stat_fuel 8 f p) with (match fs_get f p with
                                 | Some (Link t) => stat_fuel 7 f (link_target p t) | x => x end).
  destruct (fs_get f p) as [[| |t]|]; try reflexivity. exfalso. eapply H; eauto.
Qed.

Section WithCfg.
Variable c : cfgT.
Variable Lc : list bytes.
Hypothesis HLc : plains Lc.
Hypothesis HL : c_layers c = pa Lc.

Definition lcf : bytes := D_LayerconfigFile.
Lemma plain_lcf : plain lcf.
Proof. apply plainb_spec. reflexivity. Qed.
Definition cfgp (n : bytes) : bytes := pa (Lc ++ [n; lcf]).

Lemma layer_path_eq n : plain n -> layer_path c n = lp Lc n.
Proof. intros Pn. unfold layer_path, lp. rewrite HL. now apply pathjoin_pa1. Qed.
Lemma plains_lp n : plain n -> plains (Lc ++ [n]).
Proof. intros Pn. apply plains_app. split; [exact HLc|constructor; [exact Pn|constructor]]. Qed.
Lemma cfg_path_eq n : plain n -> pathjoin [layer_path c n; lcf] = cfgp n.
Proof.
  intros Pn. rewrite layer_path_eq by exact Pn. unfold lp, cfgp.
  rewrite pathjoin_pa1; [now rewrite <- app_assoc|now apply plains_lp|apply plain_lcf].
Qed.

Definition G (f : fsT) : gmap := g_of (read_layer_files c f).
Definition cfgbase (f : fsT) (n : bytes) : option bytes :=
  match fs_get f (cfgp n) with Some (File x) => Some (lf_base (read_layerfile x)) | _ => None end.
Definition nolink (f : fsT) : Prop := forall x t, plain x -> fs_get f (cfgp x) <> Some (Link t).

Lemma load_base f n : plain n -> nolink f -> option_map l_base (load_layer c f n) = cfgbase f n.
Proof.
  intros Pn Hnl. unfold load_layer, cfgbase. fold lcf. rewrite cfg_path_eq by exact Pn.
  unfold is_file, read_file. rewrite stat_nolink by (intros t; now apply Hnl).
  destruct (fs_get f (cfgp n)) as [[| |]|]; reflexivity.
Qed.
Lemma G_eq f n : G f n = if memb n (children f (pa Lc)) && legal_name n
                         then option_map l_base (load_layer c f n) else None.
Proof. unfold G, g_of. rewrite rlf_get, HL. destruct (_ && _); reflexivity. Qed.

Lemma G_cases f n : fs_clean f -> nolink f ->
  G f n = None \/ (plain n /\ legal_name n = true /\ memb n (children f (pa Lc)) = true /\ G f n = cfgbase f n).
Proof.
  intros Hc Hnl. rewrite G_eq. destruct (memb n (children f (pa Lc))) eqn:E1; [|now left].
  destruct (legal_name n) eqn:E2; [|now left]. cbn [andb]. right.
  destruct (child_lp Lc HLc f n Hc E1) as (m & _ & Pn).
  split; [exact Pn|]. split; [reflexivity|]. split; [reflexivity|]. now apply load_base.
Qed.
Lemma G_some_child f n b : fs_clean f -> nolink f -> G f n = Some b ->
  plain n /\ legal_name n = true /\ (exists m, In (lp Lc n, m) f) /\ cfgbase f n = Some b.
Proof.
  intros Hc Hnl Hg. destruct (G_cases f n Hc Hnl) as [E|(Pn & Ln & Hm & E)]; [congruence|].
  destruct (child_lp Lc HLc f n Hc Hm) as (m & Hin & _).
  split; [exact Pn|]. split; [exact Ln|]. split; [eauto|congruence].
Qed.
Lemma G_of_cfgbase f n m : fs_clean f -> nolink f -> plain n -> legal_name n = true -> In (lp Lc n, m) f ->
  G f n = cfgbase f n.
Proof.
  intros Hc Hnl Pn Ln Hin. rewrite G_eq, (lp_child Lc HLc f n m Pn Hin), Ln. cbn [andb]. now apply load_base.
Qed.

Lemma G_out S f f' x : fs_clean f -> fs_clean f' -> nolink f -> nolink f' ->
  Lpart Lc S f = Lpart Lc S f' -> (forall n, In n S -> plain n) -> ~ In x S -> G f x = G f' x.
Proof.
  intros Hc Hc' Hn Hn' E PS Hx. rewrite !G_eq. destruct (legal_name x) eqn:Lx; [|now rewrite !andb_false_r].
  rewrite !andb_true_r. destruct x as [|ch x'].
  - assert (N : forall g, fs_clean g -> memb [] (children g (pa Lc)) = false).
    { intros g Hg. destruct (memb [] (children g (pa Lc))) eqn:Em; [|reflexivity].
      destruct (child_lp Lc HLc g [] Hg Em) as (m & _ & (P1 & _)). congruence. }
    now rewrite !N.
  - assert (Px : plain (ch :: x')) by (apply legal_plain; [exact Lx|discriminate]).
    rewrite (children_local Lc HLc S f f' (ch :: x') Hc Hc' E Px PS Hx).
    destruct (memb (ch :: x') (children f' (pa Lc))); [|reflexivity].
    rewrite !load_base by assumption. unfold cfgbase, cfgp.
    rewrite (fs_get_local Lc HLc S f f' (ch :: x') [lcf] E Px PS Hx); [reflexivity|].
    constructor; [apply plain_lcf|constructor].
Qed.

(* ------------------------------------------------------------------ forest_ok through G *)
Lemma rlf_bcons f : bcons (read_layer_files c f).
Proof.
  intros l Hl. apply rlf_in in Hl as (n & Hn & Ln & E). pose proof (load_layer_props _ _ _ _ E) as (En & _).
  apply g_of_some. exists l. split; [|reflexivity]. rewrite En, rlf_get.
  assert (memb n (children f (c_layers c)) = true) as -> by now apply memb_In. now rewrite Ln.
Qed.
Lemma forest_ok_iff f : C02.forest_ok c f = true <-> gforest (G f).
Proof.
  unfold C02.forest_ok, G. split.
  - intros H. apply forest_ok_parts in H as [H _]. now apply allreach_gforest, check_inh_allreach.
  - intros H. set (m := read_layer_files c f) in *.
    assert (HB : bres m).
    { intros l Hl Hb. pose proof (rlf_bcons f l Hl) as Hg. fold m in Hg. destruct (H _ _ Hg) as (k & Hk).
      inversion Hk; subst; congruence. }
    pose proof (gforest_allreach m H HB) as HA.
    rewrite (allreach_check_inh m HA (rlf_bcons f)). cbn [andb].
    destruct (normalize_order m) eqn:E; [reflexivity|]. exfalso. exact (normalize_some m HA E).
Qed.

(* ------------------------------------------------------------------ the part of the tree a command leaves alone *)
Record IB (S : list bytes) (f0 f : fsT) : Prop := mkIB {
  ib_clean : fs_clean f; ib_nolink : nolink f; ib_part : Lpart Lc S f = Lpart Lc S f0 }.

Lemma IB_refl S f : fs_clean f -> nolink f -> IB S f f.
Proof. intros H1 H2. now constructor. Qed.

Lemma plains_dirty n r : plain n -> plains r -> plains (Lc ++ n :: r).
Proof. intros Pn Pr. apply plains_app. split; [exact HLc|constructor; assumption]. Qed.
Lemma clean_dirty n r : plain n -> plains r -> is_clean_abs (pa (Lc ++ n :: r)) = true.
Proof. intros Pn Pr. apply clean_abs_repr. exists (Lc ++ n :: r). split; [now apply plains_dirty|reflexivity]. Qed.

Lemma cfgp_inj x y : plain x -> plain y -> cfgp x = cfgp y -> x = y.
Proof.
  intros Px Py E. unfold cfgp in E. apply pa_inj in E.
  - apply app_inv_head in E. now injection E.
  - apply plains_dirty; [exact Px|constructor; [apply plain_lcf|constructor]].
  - apply plains_dirty; [exact Py|constructor; [apply plain_lcf|constructor]].
Qed.

Lemma IB_mkdir S f0 f n r f' : IB S f0 f -> In n S -> plain n -> plains r ->
  mkdir_all f (pa (Lc ++ n :: r)) = FOk f' ->
  IB S f0 f' /\
  (forall q, fs_get f' q = fs_get f q \/ (fs_get f q = None /\ fs_get f' q = Some Dir)) /\
  (forall q m, In (q, m) f -> In (q, m) f').
Proof.
  intros [H1 H2 H3] Hn Pn Pr E.
  destruct (mkdir_Lpart Lc HLc S f n r f' Hn Pn Pr H1 E) as (E1 & E2 & E3 & E4 & _).
  split; [|split; assumption]. constructor; [exact E2| |congruence].
  intros x t Px Ex. destruct (E3 (cfgp x)) as [E5|[_ E5]]; [|congruence]. rewrite E5 in Ex. now apply (H2 x t).
Qed.

Lemma IB_app_file S f0 f n r x : IB S f0 f -> In n S -> plain n -> plains r ->
  IB S f0 (f ++ [(pa (Lc ++ n :: r), File x)]).
Proof.
  intros [H1 H2 H3] Hn Pn Pr. constructor.
  - intros p m Hin. apply in_app_or in Hin as [Hin|[Hin|[]]]; [eapply H1; eauto|]. injection Hin as <- _. now apply clean_dirty.
  - intros y t Py. rewrite fs_get_app. destruct (fs_get f (cfgp y)) eqn:E; [rewrite <- E; now apply H2|].
    cbn [fs_get]. destruct (beq _ _); discriminate.
  - rewrite <- H3. apply Lpart_app. intros e [<-|[]]. now apply Lpred_dirty.
Qed.
Lemma IB_set_file S f0 f n r x : IB S f0 f -> In n S -> plain n -> plains r ->
  IB S f0 (fs_set f (pa (Lc ++ n :: r)) (File x)).
Proof.
  intros [H1 H2 H3] Hn Pn Pr. constructor.
  - intros p m Hin. apply fs_set_In in Hin as [[-> _]|Hin]; [now apply clean_dirty|eapply H1; eauto].
  - intros y t Py. rewrite fs_get_set. destruct (beq _ _); [discriminate|now apply H2].
  - rewrite <- H3. apply Lpart_set. now apply Lpred_dirty.
Qed.

Definition pfilter (Qp : bytes -> bool) (f : fsT) : fsT := filter (fun e => Qp (fst e)) f.
Lemma fs_get_pfilter Qp f q : fs_get (pfilter Qp f) q = if Qp q then fs_get f q else None.
Proof.
  unfold pfilter. destruct (Qp q) eqn:E.
  - apply fs_get_filter. intros m. exact E.
  - apply fs_get_filter_none. intros m. exact E.
Qed.
Lemma IB_pfilter S f0 f Qp : IB S f0 f -> (forall e, In e f -> Lpred Lc S e = true -> Qp (fst e) = true) ->
  IB S f0 (pfilter Qp f).
Proof.
  intros [H1 H2 H3] HQ. constructor.
  - intros p m Hin. apply filter_In in Hin as [Hin _]. eapply H1; eauto.
  - intros y t Py. rewrite fs_get_pfilter. destruct (Qp (cfgp y)); [now apply H2|discriminate].
  - rewrite <- H3. now apply Lpart_filter.
Qed.

(* lookups after [map move_entry]: the node comes from the same path or from the moved source *)
Lemma fs_get_move_cases F a b q nd : fs_get (map (move_entry a b) F) q = Some nd ->
  (at_or_under a q = false /\ fs_get F q = Some nd) \/
  (exists p, at_or_under a p = true /\ b ++ rel_suffix a p = q /\ fs_get F p = Some nd).
Proof.
  induction F as [|[p' m] r IH]; cbn [map fs_get]; [discriminate|].
  unfold move_entry at 1. cbn [fst snd]. destruct (at_or_under a p') eqn:Ea; cbn [fs_get].
  - destruct (beq (b ++ rel_suffix a p') q) eqn:E.
    + intros H. injection H as <-. apply beq_true in E. right. exists p'. now rewrite beq_refl.
    + intros H. destruct (IH H) as [[H1 H2]|(p & H1 & H2 & H3)].
      * left. split; [exact H1|]. destruct (beq p' q) eqn:E2; [apply beq_true in E2; congruence|exact H2].
      * right. exists p. split; [exact H1|]. split; [exact H2|].
        destruct (beq p' p) eqn:E2; [apply beq_true in E2; subst p'; rewrite H2, beq_refl in E; discriminate|exact H3].
  - destruct (beq p' q) eqn:E.
    + intros H. injection H as <-. apply beq_true in E. subst p'. left. split; [exact Ea|reflexivity].
    + intros H. destruct (IH H) as [[H1 H2]|(p & H1 & H2 & H3)].
      * left. split; [exact H1|exact H2].
      * right. exists p. split; [exact H1|]. split; [exact H2|].
        destruct (beq p' p) eqn:E2; [apply beq_true in E2; congruence|exact H3].
Qed.

Lemma Lpart_rename S f na ra nb rb : fs_clean f -> In na S -> In nb S -> plain na -> plain nb ->
  plains ra -> plains rb ->
  Lpart Lc S (map (move_entry (pa (Lc ++ na :: ra)) (pa (Lc ++ nb :: rb))) (filter (not_at (pa (Lc ++ nb :: rb))) f))
  = Lpart Lc S f.
Proof.
  intros Hc Hna Hnb Pna Pnb Pra Prb. apply filter_map_filter.
  - intros [p m] Hin HP. unfold not_at, move_entry. cbn [fst snd].
    assert (Hns : inS Lc S p = false).
    { unfold Lpred in HP. cbn [fst] in HP. apply andb_true_iff in HP as [_ HP]. now apply negb_true_iff. }
    split.
    + apply negb_true_iff, beq_false. intros ->. rewrite inS_intro in Hns; auto; discriminate.
    + destruct (at_or_under (pa (Lc ++ na :: ra)) p) eqn:Ea; [|reflexivity]. exfalso.
      pose proof (Hc _ _ Hin) as Hp. apply clean_abs_repr in Hp as (ps & Pp & ->).
      apply at_or_under_pa in Ea as (r & ->); [|now apply plains_dirty|exact Pp].
      rewrite <- app_assoc in Hns, Pp. cbn [app] in Hns, Pp. rewrite inS_intro in Hns; auto; [discriminate|].
      apply plains_app in Pp as [_ Pp]. now inversion Pp.
  - intros [p m] Hin HP _. unfold move_entry. cbn [fst snd].
    destruct (at_or_under (pa (Lc ++ na :: ra)) p) eqn:Ea; [|exact HP].
    pose proof (Hc _ _ Hin) as Hp. apply clean_abs_repr in Hp as (ps & Pp & ->).
    apply at_or_under_pa in Ea as (r & ->); [|now apply plains_dirty|exact Pp].
    assert (Pr : plains r) by (apply plains_app in Pp; tauto).
    rewrite move_target; [|now apply plains_dirty|exact Pr|destruct Lc; discriminate].
    rewrite <- app_assoc. cbn [app]. apply Lpred_dirty; auto. apply plains_app. now split.
Qed.

(* ------------------------------------------------------------------ paths of one layer *)
Variables bsr wsr usr : list bytes.
Hypothesis Hbsr : plains bsr /\ bsr <> [] /\ c_buildroot c = pjoin bsr.
Hypothesis Hwsr : plains wsr /\ wsr <> [] /\ c_work c = pjoin wsr.
Hypothesis Husr : plains usr /\ usr <> [] /\ c_upper c = pjoin usr.

Definition tmpp (n : bytes) : bytes := pa (Lc ++ [n; lcf ++ tmp_suffix]).
Lemma plain_lcf_tmp : plain (lcf ++ tmp_suffix).
Proof. apply plainb_spec. reflexivity. Qed.
Lemma pa_last_app cs x t : pa (cs ++ [x]) ++ t = pa (cs ++ [x ++ t]).
Proof. rewrite !pa_snoc. now rewrite <- !app_assoc. Qed.
Lemma tmp_path_eq n : cfgp n ++ tmp_suffix = tmpp n.
Proof.
  unfold cfgp, tmpp. change (Lc ++ [n; lcf]) with (Lc ++ [n] ++ [lcf]). rewrite app_assoc, pa_last_app.
  now rewrite <- app_assoc.
Qed.
Lemma layerconfig_path_eq l n : l_path l = layer_path c n -> plain n -> layerconfig_path l = cfgp n.
Proof. intros E Pn. unfold layerconfig_path. rewrite E. now apply cfg_path_eq. Qed.
Lemma sub_path_eq l n rs v : l_path l = layer_path c n -> plain n -> plains rs -> rs <> [] -> v = pjoin rs ->
  pathjoin [l_path l; v] = pa (Lc ++ n :: rs).
Proof.
  intros E Pn Pr Hne ->. rewrite E, layer_path_eq by exact Pn. unfold lp.
  rewrite pathjoin_pa; [now rewrite <- app_assoc|now apply plains_lp|exact Pr|exact Hne].
Qed.
Lemma build_path_eq l n : l_path l = layer_path c n -> plain n -> build_path c l = pa (Lc ++ n :: bsr).
Proof. intros E Pn. destruct Hbsr as (H1 & H2 & H3). now apply sub_path_eq. Qed.
Lemma work_path_eq l n : l_path l = layer_path c n -> plain n -> work_path c l = pa (Lc ++ n :: wsr).
Proof. intros E Pn. destruct Hwsr as (H1 & H2 & H3). now apply sub_path_eq. Qed.
Lemma upper_path_eq l n : l_path l = layer_path c n -> plain n -> upper_path c l = pa (Lc ++ n :: usr).
Proof. intros E Pn. destruct Husr as (H1 & H2 & H3). now apply sub_path_eq. Qed.

(* ------------------------------------------------------------------ one dirty layer directory *)
Section OneDirty.
Variables (S : list bytes) (f0 f1 : fsT) (n : bytes) (P : option bytes -> Prop).
Hypothesis Pn : plain n.
Hypothesis HnS : In n S.

Definition hasdir (j : bytes) (f : fsT) : Prop := exists m0, In (lp Lc j, m0) f.
(* what happens inside the directory of n leaves the other layers' layerconfigs and directories alone *)
Definition frame (f : fsT) : Prop :=
  forall j, plain j -> j <> n -> fs_get f (cfgp j) = fs_get f1 (cfgp j) /\ (hasdir j f1 -> hasdir j f).
Definition Inv1 (w : world) : Prop :=
  IB S f0 (w_fs w) /\ P (cfgbase (w_fs w) n) /\ (hasdir n f1 -> hasdir n (w_fs w)) /\ frame (w_fs w).
Definition Tv1 (x : bytes) (w : world) : Prop :=
  Inv1 w /\ fs_get (w_fs w) (tmpp n) = Some (File x).

Lemma tmpp_dirty : tmpp n = pa (Lc ++ n :: [lcf ++ tmp_suffix]).
Proof. reflexivity. Qed.
Lemma cfgp_dirty : cfgp n = pa (Lc ++ n :: [lcf]).
Proof. reflexivity. Qed.
Lemma tmpp_ne_cfgp : tmpp n <> cfgp n.
Proof.
  unfold tmpp, cfgp. intros E. apply pa_inj in E.
  - apply app_inv_head in E. injection E as E. apply (f_equal (@length _)) in E. vm_compute in E. discriminate.
  - apply plains_dirty; [exact Pn|constructor; [apply plain_lcf_tmp|constructor]].
  - apply plains_dirty; [exact Pn|constructor; [apply plain_lcf|constructor]].
Qed.
Lemma lp_ne_sub j r : r <> [] -> plain j -> plains r -> lp Lc j <> pa (Lc ++ n :: r).
Proof.
  intros Hr Pj Pr E. unfold lp in E. apply pa_inj in E; [|now apply plains_lp|now apply plains_dirty].
  apply app_inv_head in E. injection E as _ E. now symmetry in E.
Qed.
Lemma sub_ne_cfgp j r : plain j -> j <> n -> plains r -> pa (Lc ++ n :: r) <> cfgp j.
Proof.
  intros Pj Hj Pr E. unfold cfgp in E. apply pa_inj in E.
  - apply app_inv_head in E. injection E as E _. congruence.
  - now apply plains_dirty.
  - apply plains_dirty; [exact Pj|constructor; [apply plain_lcf|constructor]].
Qed.
Lemma sub_ne_lp j r : plain j -> j <> n -> plains r -> pa (Lc ++ n :: r) <> lp Lc j.
Proof.
  intros Pj Hj Pr E. unfold lp in E. apply pa_inj in E.
  - apply app_inv_head in E. injection E as E _. congruence.
  - now apply plains_dirty.
  - now apply plains_lp.
Qed.

Lemma cfgbase_ext f f' : fs_get f' (cfgp n) = fs_get f (cfgp n) -> cfgbase f' n = cfgbase f n.
Proof. intros E. unfold cfgbase. now rewrite E. Qed.

Lemma frame_app f r nd : frame f -> plains r -> frame (f ++ [(pa (Lc ++ n :: r), nd)]).
Proof.
  intros HF Pr j Pj Hj. destruct (HF j Pj Hj) as [H1 H2]. split.
  - rewrite <- H1, fs_get_app. destruct (fs_get f (cfgp j)); [reflexivity|]. cbn [fs_get].
    destruct (beq _ _) eqn:E; [apply beq_true in E; now apply sub_ne_cfgp in E|reflexivity].
  - intros H. destruct (H2 H) as (m0 & Hm). exists m0. apply in_or_app. now left.
Qed.
Lemma frame_set f r nd : frame f -> plains r -> frame (fs_set f (pa (Lc ++ n :: r)) nd).
Proof.
  intros HF Pr j Pj Hj. destruct (HF j Pj Hj) as [H1 H2]. split.
  - rewrite <- H1, fs_get_set. destruct (beq _ _) eqn:E; [apply beq_true in E; now apply sub_ne_cfgp in E|reflexivity].
  - intros H. destruct (H2 H) as (m0 & Hm). exists m0. apply fs_set_In_other; [|exact Hm].
    intros E. symmetry in E. now apply sub_ne_lp in E.
Qed.

Lemma inv_mkdir w w' r : Inv1 w -> plains r ->
  op_result (OMkdir (pa (Lc ++ n :: r))) w = Some w' -> Inv1 w'.
Proof.
  intros (HI & HP & HD & HFr) Pr E. cbn [op_result] in E. unfold on_fres in E.
  destruct (mkdir_all (w_fs w) _) as [f'|] eqn:Em; [|discriminate]. injection E as <-. unfold Inv1. cbn [set_fs w_fs].
  destruct (IB_mkdir S f0 _ n r f' HI HnS Pn Pr Em) as (H1 & H2 & H3). split; [exact H1|]. split; [|split].
  - unfold cfgbase in *. destruct (H2 (cfgp n)) as [E|[E0 E]]; rewrite E; [exact HP|]. now rewrite E0 in HP.
  - intros H. destruct (HD H) as (m0 & Hm). exists m0. now apply H3.
  - intros j Pj Hj. destruct (HFr j Pj Hj) as [F1 F2]. split.
    + rewrite <- F1. destruct (H2 (cfgp j)) as [E|[E0 E]]; [exact E|]. exfalso.
      apply mkdir_all_shape in Em as (new & -> & Hnew). rewrite fs_get_app, E0 in E.
      apply fs_get_In in E. unfold dirs in E. apply in_map_iff in E as (q & Eq & Hq). injection Eq as ->.
      destruct (Hnew _ Hq) as [Hq' _]. apply prefixes_pa_in in Hq' as (i & t & Hi & Ei & Ep); [|now apply plains_dirty].
      unfold cfgp in Ep. apply pa_inj in Ep.
      * subst i. rewrite <- app_assoc in Ei. apply app_inv_head in Ei. cbn in Ei. injection Ei as Ei _. congruence.
      * apply plains_dirty; [exact Pj|constructor; [apply plain_lcf|constructor]].
      * destruct (plains_prefix i t _ (plains_dirty n r Pn Pr) Ei) as [Pi _]. exact Pi.
    + intros H. destruct (F2 H) as (m0 & Hm). exists m0. now apply H3.
Qed.

(* creating or overwriting a file below the layer directory, other than its layerconfig *)
Lemma inv_put w r x : Inv1 w -> plains r -> r <> [] -> pa (Lc ++ n :: r) <> cfgp n ->
  Inv1 (set_fs w (w_fs w ++ [(pa (Lc ++ n :: r), File x)])) /\
  Inv1 (set_fs w (fs_set (w_fs w) (pa (Lc ++ n :: r)) (File x))).
Proof.
  intros (HI & HP & HD & HFr) Pr Hr Hne. unfold Inv1. cbn [set_fs w_fs]. split; (split; [|split; [|split]]).
  - apply IB_app_file; auto.
  - rewrite (cfgbase_ext (w_fs w)); [exact HP|]. rewrite fs_get_app.
    destruct (fs_get (w_fs w) (cfgp n)); [reflexivity|]. cbn [fs_get].
    destruct (beq _ _) eqn:E; [apply beq_true in E; congruence|reflexivity].
  - intros H. destruct (HD H) as (m0 & Hm). exists m0. apply in_or_app. now left.
  - now apply frame_app.
  - apply IB_set_file; auto.
  - rewrite (cfgbase_ext (w_fs w)); [exact HP|]. rewrite fs_get_set.
    destruct (beq _ _) eqn:E; [apply beq_true in E; congruence|reflexivity].
  - intros H. destruct (HD H) as (m0 & Hm). exists m0. apply fs_set_In_other; [now apply lp_ne_sub|exact Hm].
  - now apply frame_set.
Qed.

Lemma inv_write_text w w' r x : Inv1 w -> plains r -> r <> [] -> pa (Lc ++ n :: r) <> cfgp n ->
  write_result (pa (Lc ++ n :: r)) x w = Some w' -> Inv1 w'.
Proof.
  intros HI Pr Hr Hne E. unfold write_result, on_fres in E.
  destruct (write_text (w_fs w) _ x) as [f'|] eqn:Ew; [|discriminate]. injection E as <-.
  apply write_text_shape in Ew as [[_ ->]|(o & _ & ->)]; now apply inv_put.
Qed.

Lemma tv_open w w' : Inv1 w -> op_result (OOpen (tmpp n)) w = Some w' -> Tv1 [] w'.
Proof.
  intros HI E. cbn [op_result] in E. unfold on_fres in E.
  destruct (open_trunc (w_fs w) (tmpp n)) as [f'|] eqn:Eo; [|discriminate]. injection E as <-.
  assert (Pr : plains [lcf ++ tmp_suffix]) by (constructor; [apply plain_lcf_tmp|constructor]).
  apply open_trunc_shape in Eo as [[Eg ->]|(o & Eg & ->)]; split.
  - apply (inv_put w [lcf ++ tmp_suffix] []); auto; [discriminate|apply tmpp_ne_cfgp].
  - cbn [set_fs w_fs]. rewrite fs_get_app, Eg. cbn [fs_get]. now rewrite beq_refl.
  - apply (inv_put w [lcf ++ tmp_suffix] []); auto; [discriminate|apply tmpp_ne_cfgp].
  - cbn [set_fs w_fs]. rewrite fs_get_set. now rewrite beq_refl.
Qed.
Lemma tv_append x ch w : Tv1 x w -> Tv1 (x ++ ch) (set_fs w (append_file (w_fs w) (tmpp n) ch)).
Proof.
  intros [HI Eg]. unfold append_file, lstat. rewrite Eg.
  assert (Pr : plains [lcf ++ tmp_suffix]) by (constructor; [apply plain_lcf_tmp|constructor]). split.
  - apply (inv_put w [lcf ++ tmp_suffix] (x ++ ch)); auto; [discriminate|apply tmpp_ne_cfgp].
  - cbn [set_fs w_fs]. rewrite fs_get_set. now rewrite beq_refl.
Qed.
Lemma tv_drop x w : Tv1 x w -> Inv1 (drop_result (tmpp n) w).
Proof.
  intros [(HI & HP & HD & HFr) _]. unfold drop_result, Inv1. cbn [set_fs w_fs].
  change (filter (fun x0 => negb (beq (fst x0) (tmpp n))) (w_fs w)) with (pfilter (fun q => negb (beq q (tmpp n))) (w_fs w)).
  assert (PT : plains [lcf ++ tmp_suffix]) by (constructor; [apply plain_lcf_tmp|constructor]).
  split; [|split; [|split]].
  - apply IB_pfilter; [exact HI|]. intros [q m] Hin HLp. cbn [fst]. apply negb_true_iff, beq_false. intros ->.
    rewrite tmpp_dirty, Lpred_dirty in HLp; auto; discriminate.
  - rewrite (cfgbase_ext (w_fs w)); [exact HP|]. rewrite fs_get_pfilter.
    destruct (beq (cfgp n) (tmpp n)) eqn:E; [apply beq_true in E; symmetry in E; now apply tmpp_ne_cfgp in E|reflexivity].
  - intros H. destruct (HD H) as (m0 & Hm). exists m0. apply filter_In. split; [exact Hm|]. cbn [fst].
    apply negb_true_iff, beq_false. rewrite tmpp_dirty. apply lp_ne_sub; [discriminate|exact Pn|exact PT].
  - intros j Pj Hj. destruct (HFr j Pj Hj) as [F1 F2]. split.
    + rewrite <- F1, fs_get_pfilter.
      destruct (beq (cfgp j) (tmpp n)) eqn:E; [|reflexivity]. apply beq_true in E. symmetry in E.
      rewrite tmpp_dirty in E. now apply sub_ne_cfgp in E.
    + intros H. destruct (F2 H) as (m0 & Hm). exists m0. apply filter_In. split; [exact Hm|]. cbn [fst].
      apply negb_true_iff, beq_false. intros E. symmetry in E. rewrite tmpp_dirty in E. now apply sub_ne_lp in E.
Qed.

(* the rename into place *)
Lemma tv_rename x w w' : Tv1 x w -> op_result (ORename (tmpp n) (cfgp n)) w = Some w' ->
  IB S f0 (w_fs w') /\ cfgbase (w_fs w') n = Some (lf_base (read_layerfile x)) /\
  fs_get (w_fs w') (cfgp n) = Some (File x) /\
  (hasdir n f1 -> hasdir n (w_fs w')) /\ frame (w_fs w').
Proof.
  intros [(HI & HP & HD & HFr) Eg] E. cbn [op_result] in E. unfold on_fres in E.
  destruct (rename (w_fs w) (tmpp n) (cfgp n)) as [f'|] eqn:Er; [|discriminate]. injection E as <-. cbn [set_fs w_fs].
  apply rename_shape in Er as [[E _]|(na & Ea & Eu & -> & _)]; [now apply tmpp_ne_cfgp in E|].
  set (F := filter (not_at (cfgp n)) (w_fs w)).
  assert (PT : plains (Lc ++ [n; lcf ++ tmp_suffix])).
  { apply plains_dirty; [exact Pn|constructor; [apply plain_lcf_tmp|constructor]]. }
  assert (PC : plains (Lc ++ [n; lcf])).
  { apply plains_dirty; [exact Pn|constructor; [apply plain_lcf|constructor]]. }
  assert (NE : Lc ++ [n; lcf] <> []) by (destruct Lc; discriminate).
  assert (HF : fs_clean F).
  { intros p m Hin. apply filter_In in Hin as [Hin _]. eapply (ib_clean _ _ _ HI); eauto. }
  assert (HFg : forall q, q <> cfgp n -> fs_get F q = fs_get (w_fs w) q).
  { intros q Hq. apply fs_get_filter. intros m. unfold not_at. cbn [fst]. now apply negb_true_iff, beq_false. }
  assert (Etgt : fs_get (map (move_entry (tmpp n) (cfgp n)) F) (cfgp n) = Some (File x)).
  { unfold tmpp, cfgp.
    pose proof (rename_get_target (Lc ++ [n; lcf ++ tmp_suffix]) (Lc ++ [n; lcf]) PT PC NE F [] HF) as R.
    rewrite !app_nil_r in R. rewrite R.
    - fold (tmpp n). rewrite HFg by apply tmpp_ne_cfgp. exact Eg.
    - constructor.
    - intros [q m] Hin. apply filter_In in Hin as [_ Hin]. unfold not_at in Hin. cbn [fst] in *.
      now apply negb_true_iff, beq_false in Hin. }
  assert (Hoth : forall q, at_or_under (tmpp n) q = false -> at_or_under (cfgp n) q = false ->
                 fs_get (map (move_entry (tmpp n) (cfgp n)) F) q = fs_get (w_fs w) q).
  { intros q H1 H2. unfold tmpp, cfgp in *.
    rewrite (rename_get_other (Lc ++ [n; lcf ++ tmp_suffix]) (Lc ++ [n; lcf]) PT PC NE F q HF H1 H2).
    apply HFg. intros ->. unfold at_or_under in H2. now rewrite beq_refl in H2. }
  assert (Hnot : forall j r0 x0, plain j -> j <> n -> plains r0 -> plain x0 ->
                 at_or_under (pa (Lc ++ [n; x0])) (pa (Lc ++ j :: r0)) = false).
  { intros j r0 x0 Pj Hj Pr0 Px0.
    destruct (at_or_under (pa (Lc ++ [n; x0])) (pa (Lc ++ j :: r0))) eqn:Ea2; [|reflexivity]. exfalso.
    apply at_or_under_pa in Ea2 as (r & Er);
      [|apply plains_dirty; [exact Pn|constructor; [exact Px0|constructor]]|now apply plains_dirty].
    rewrite <- app_assoc in Er. apply app_inv_head in Er. cbn in Er. injection Er as Er _. congruence. }
  split; [constructor|split; [|split; [|split]]].
  - apply (move_clean (Lc ++ [n; lcf ++ tmp_suffix]) (Lc ++ [n; lcf]) PT PC NE F HF).
  - intros y t Py Ey. apply fs_get_move_cases in Ey as [[_ Ey]|(p & Hp1 & Hp2 & Hp3)].
    + destruct (beq (cfgp y) (cfgp n)) eqn:E.
      * apply beq_true in E. unfold F in Ey. rewrite E in Ey. rewrite fs_get_filter_none in Ey; [discriminate|].
        intros m. unfold not_at. cbn [fst]. now rewrite beq_refl.
      * apply beq_false in E. rewrite HFg in Ey by exact E. now apply (ib_nolink _ _ _ HI y t).
    + pose proof (fs_get_In _ _ _ Hp3) as Hin. pose proof (HF _ _ Hin) as Hc.
      apply clean_abs_repr in Hc as (ps & Pp & ->). unfold tmpp in Hp1.
      apply at_or_under_pa in Hp1 as (r & ->); [|exact PT|exact Pp].
      assert (Pr : plains r) by (apply plains_app in Pp; tauto).
      unfold tmpp, cfgp in Hp2. rewrite move_target in Hp2 by assumption.
      apply pa_inj in Hp2; [|apply plains_app; now split|apply plains_dirty; [exact Py|constructor; [apply plain_lcf|constructor]]].
      rewrite <- app_assoc in Hp2. apply app_inv_head in Hp2. cbn in Hp2. injection Hp2 as <- Hr.
      destruct r; [|discriminate]. rewrite app_nil_r in Hp3. fold (tmpp n) in Hp3.
      rewrite HFg in Hp3 by apply tmpp_ne_cfgp. congruence.
  - unfold F, tmpp, cfgp.
    rewrite (Lpart_rename S (w_fs w) n [lcf ++ tmp_suffix] n [lcf]); auto.
    + apply (ib_part _ _ _ HI).
    + apply (ib_clean _ _ _ HI).
    + constructor; [apply plain_lcf_tmp|constructor].
    + constructor; [apply plain_lcf|constructor].
  - unfold cfgbase. now rewrite Etgt.
  - exact Etgt.
  - intros H. destruct (HD H) as (m0 & Hm). exists m0. apply in_map_iff. exists (lp Lc n, m0). split.
    + unfold move_entry. cbn [fst snd].
      destruct (at_or_under (tmpp n) (lp Lc n)) eqn:Ea2; [|reflexivity]. exfalso. unfold tmpp, lp in Ea2.
      apply at_or_under_pa in Ea2 as (r & Er); [|exact PT|now apply plains_lp].
      apply (f_equal (@length _)) in Er. rewrite !app_length in Er. cbn in Er. lia.
    + apply filter_In. split; [exact Hm|]. unfold not_at. cbn [fst]. apply negb_true_iff, beq_false.
      rewrite cfgp_dirty. apply lp_ne_sub; [discriminate|exact Pn|constructor; [apply plain_lcf|constructor]].
  - intros j Pj Hj. destruct (HFr j Pj Hj) as [F1 F2]. split.
    + rewrite <- F1. apply Hoth.
      * unfold tmpp, cfgp. apply (Hnot j [lcf] (lcf ++ tmp_suffix) Pj Hj); [constructor; [apply plain_lcf|constructor]|apply plain_lcf_tmp].
      * unfold cfgp. apply (Hnot j [lcf] lcf Pj Hj); [constructor; [apply plain_lcf|constructor]|apply plain_lcf].
    + intros H. destruct (F2 H) as (m0 & Hm). exists m0. apply in_map_iff. exists (lp Lc j, m0). split.
      * unfold move_entry. cbn [fst snd]. unfold tmpp, lp. change (Lc ++ [j]) with (Lc ++ j :: []).
        rewrite (Hnot j [] (lcf ++ tmp_suffix) Pj Hj); [reflexivity|constructor|apply plain_lcf_tmp].
      * apply filter_In. split; [exact Hm|]. unfold not_at. cbn [fst]. apply negb_true_iff, beq_false.
        intros E. symmetry in E. rewrite cfgp_dirty in E. apply sub_ne_lp in E; auto.
        constructor; [apply plain_lcf|constructor].
Qed.
End OneDirty.

(* ------------------------------------------------------------------ running a command body after FindLayers *)
Lemma hs_state {A} (Iv : wpred) (m : M A) (Q : A -> Prop) s :
  hs Iv false m Q -> Iv (s_w s) -> Iv (s_w (snd (m s))).
Proof.
  intros H HI. specialize (H s HI I). destruct (m s) as [[a| | | |] s']; cbn [snd]; try exact H. exact (proj1 H).
Qed.

Lemma with_layers_keeps (Iv : wpred) um body s :
  Iv (s_w s) ->
  (forall ld, LDI (skel (read_layer_files c (w_fs (s_w s)))) ld ->
     check_inheritance (read_layer_files c (w_fs (s_w s))) = true -> paths_ok c (ld_map ld) ->
     normalize_order (read_layer_files c (w_fs (s_w s))) = Some (ld_order ld) ->
     hs Iv false (body ld) (fun _ => True)) ->
  Iv (s_w (snd (with_layers c um body s))).
Proof.
  intros HI Hb. unfold with_layers, bind at 1, get_fs. cbv beta iota.
  rewrite guard_k. destruct (base_set_up c (w_fs (s_w s))); [|exact HI].
  unfold bind at 1. destruct (get_layers_spec c um s) as (o & E & Ho). rewrite E.
  destruct o as [ld| | | |]; try exact HI.
  destruct Ho as (HLD & HC & HN). pose proof (hs_state Iv (body ld) _ s (Hb ld HLD HC (get_layers_paths _ _ _ _ _ E) HN) HI) as H.
  unfold bind. destruct (body ld s) as [[ld'| | | |] s']; exact H.
Qed.

Lemma renormalize_keeps (Iv : wpred) ld : hs Iv false (renormalize ld) (fun _ => True).
Proof.
  unfold renormalize. destruct (normalize_order (ld_map ld)); [now apply hs_ret|].
  intros s HI _. exact HI.
Qed.

(* ------------------------------------------------------------------ add *)
Section AddCmd.
Variables (f0 : fsT) (n b : bytes).
Hypothesis Hc0 : fs_clean f0.
Hypothesis Hn0 : nolink f0.

Definition PAdd (v : option bytes) : Prop := v = None \/ v = Some b.
Definition AddFacts : Prop :=
  plain n /\ legal_name n = true /\ G f0 n = None /\ cfgbase f0 n = None /\ (b = [] \/ G f0 b <> None).
Definition IvAdd (w : world) : Prop := w_fs w = f0 \/ (AddFacts /\ Inv1 [n] f0 f0 n PAdd w).

Lemma add_start w : AddFacts -> w_fs w = f0 -> Inv1 [n] f0 f0 n PAdd w.
Proof.
  intros (_ & _ & _ & Hcb & _) E. unfold Inv1. rewrite E. split; [now apply IB_refl|]. split; [now left|].
  split; [auto|]. intros j _ _. split; auto.
Qed.
Lemma add_inv_of w : AddFacts -> IvAdd w -> Inv1 [n] f0 f0 n PAdd w.
Proof. intros HF [E|[_ H]]; [now apply add_start|exact H]. Qed.

Lemma add_mkdir_step e p r : AddFacts -> p = pa (Lc ++ n :: r) -> plains r ->
  hs IvAdd false (fs_mkdir e p) (fun _ => True).
Proof.
  intros HF -> Pr. unfold fs_mkdir. apply hs_true, hoare_do_op. intros w w' HI _ E. right. split; [exact HF|].
  destruct HF as (Pn & HF'). eapply (inv_mkdir [n] f0 f0 n PAdd Pn (or_introl eq_refl) w w' r); eauto.
  apply add_inv_of; [|exact HI]. now split.
Qed.
Lemma add_write_text_step e p r x : AddFacts -> p = pa (Lc ++ n :: r) -> plains r -> r <> [] -> p <> cfgp n ->
  hs IvAdd false (fs_write_text e p x) (fun _ => True).
Proof.
  intros HF -> Pr Hr Hne. apply hs_true, hoare_write_text. intros w w' HI _ E. right. split; [exact HF|].
  pose proof HF as (Pn & _). eapply (inv_write_text [n] f0 f0 n PAdd Pn (or_introl eq_refl) w w' r x); eauto. now apply add_inv_of.
Qed.
Lemma add_write_cfg_step e l : AddFacts -> l_path l = layer_path c n -> l_base l = b -> mounts_ok l ->
  hs IvAdd false (write_layerfile e l) (fun _ => True).
Proof.
  intros HF Ep Eb (Hb & Hm & He). pose proof HF as (Pn & _). unfold write_layerfile.
  rewrite (layerconfig_path_eq l n Ep Pn). apply hs_true.
  apply (write_atomically_rule IvAdd (fun x w => Tv1 [n] f0 f0 n PAdd x w)); rewrite ?tmp_path_eq.
  - intros w w' HI E. apply (tv_open [n] f0 f0 n PAdd Pn (or_introl eq_refl) w w'); [now apply add_inv_of|exact E].
  - intros x ch w HT. now apply (tv_append [n] f0 f0 n PAdd Pn (or_introl eq_refl)).
  - intros x w HT. right. split; [exact HF|]. now apply (tv_drop [n] f0 f0 n PAdd Pn (or_introl eq_refl) x).
  - intros w w' HT E. right. split; [exact HF|].
    destruct (tv_rename [n] f0 f0 n PAdd Pn (or_introl eq_refl) _ w w' HT E) as (H1 & H2 & _ & H3 & H4).
    split; [exact H1|]. split; [|now split].
    right. rewrite H2, layerfile_roundtrip by assumption. cbn [lf_base]. now rewrite Eb.
  - intros x w [HT _]. right. now split.
Qed.

Lemma add_final w : IvAdd w -> gforest (G f0) -> gforest (G (w_fs w)).
Proof.
  intros [->|((Pn & Ln & Hg & Hcb & Hb) & (HI & HP & _))] HG; [exact HG|].
  assert (Hout : forall x, x <> n -> G (w_fs w) x = G f0 x).
  { intros x Hx. apply (G_out [n]); auto.
    - apply (ib_clean _ _ _ HI).
    - apply (ib_nolink _ _ _ HI).
    - apply (ib_part _ _ _ HI).
    - intros y [<-|[]]. exact Pn.
    - intros [E|[]]. congruence. }
  destruct (G_cases (w_fs w) n (ib_clean _ _ _ HI) (ib_nolink _ _ _ HI)) as [E|(_ & _ & _ & E)].
  - apply (gforest_ext (G f0)); [|exact HG]. intros x. destruct (beq n x) eqn:Ex.
    + apply beq_true in Ex. subst x. congruence.
    + apply beq_false in Ex. symmetry. apply Hout. congruence.
  - destruct HP as [HP|HP].
    + apply (gforest_ext (G f0)); [|exact HG]. intros x. destruct (beq n x) eqn:Ex.
      * apply beq_true in Ex. subst x. congruence.
      * apply beq_false in Ex. symmetry. apply Hout. congruence.
    + apply (gforest_ext (g_add (G f0) n b)); [|now apply gforest_add].
      intros x. unfold g_add. destruct (beq n x) eqn:Ex.
      * apply beq_true in Ex. subst x. congruence.
      * apply beq_false in Ex. symmetry. apply Hout. congruence.
Qed.

Hypothesis Hcl0 : closed f0.

Lemma plain_root : plain (bs "root"). Proof. apply plainb_spec. reflexivity. Qed.
Lemma plain_bashrc : plain (bs ".bashrc"). Proof. apply plainb_spec. reflexivity. Qed.

Lemma add_layer_keeps e ld cf :
  LDI (skel (read_layer_files c f0)) ld ->
  hs IvAdd false (add_layer e c ld n b cf) (fun _ => True).
Proof.
  intros [Hs HW]. unfold add_layer.
  apply hs_guard_k. intros G0. apply andb_true_iff in G0 as [G1 G2].
  apply test_name_free in G1 as (Hn & Ln & Hfree). apply test_name_opt in G2.
  apply hs_guard_k. intros _. apply hs_get_fs_k. intros f. cbv zeta.
  assert (Pn : plain n) by now apply legal_plain.
  assert (Hg : forall x, g_of (ld_map ld) x = G f0 x) by (intros x; now apply skel_g).
  assert (Hgn : G f0 n = None) by (rewrite <- Hg; now apply g_of_none).
  assert (HF : AddFacts).
  { split; [exact Pn|]. split; [exact Ln|]. split; [exact Hgn|]. split.
    - destruct (G_cases f0 n Hc0 Hn0) as [_|(_ & _ & Hm & E)].
      + (* not listed, or no readable layerconfig *)
        rewrite G_eq in Hgn. rewrite Ln, andb_true_r in Hgn.
        destruct (memb n (children f0 (pa Lc))) eqn:Em.
        * rewrite load_base in Hgn by assumption. exact Hgn.
        * unfold cfgbase. assert (fs_get f0 (pa (Lc ++ [n])) = None) as Ed.
          { destruct (fs_get f0 (pa (Lc ++ [n]))) as [m0|] eqn:Ed; [|reflexivity].
            apply fs_get_In in Ed. rewrite (lp_child Lc HLc f0 n m0 Pn Ed) in Em. discriminate. }
          unfold cfgp. change (Lc ++ [n; lcf]) with (Lc ++ [n] ++ [lcf]). rewrite app_assoc.
          rewrite (closed_none f0 (Lc ++ [n]) Hcl0 (plains_lp n Pn) Ed [lcf]); [reflexivity|].
          constructor; [apply plain_lcf|constructor].
      + congruence.
    - destruct G2 as [->|(_ & l0 & E0)]; [now left|right]. rewrite <- Hg. intros E1. apply g_of_none in E1. congruence. }
  match goal with |- hs _ _ (match ?bb with _ => _ end) _ => destruct bb as [[ms es]|] eqn:Ebasis end; [|apply hs_fail].
  set (l := MkL n b ms es (layer_path c n) st_empty false false false false []).
  assert (Hl : mounts_ok l).
  { unfold mounts_ok. cbn [l l_base l_mounts l_exports]. split.
    - destruct b as [|b0 br]; [now left|right]. destruct G2 as [G2|(Lb & _)]; [discriminate|].
      apply legal_tok; [exact Lb|discriminate].
    - destruct (negb (beq cf []) || beq b []).
      + destruct (default_layerinfo c f cf) as [lf|] eqn:Ed; [|discriminate]. injection Ebasis as <- <-.
        unfold default_layerinfo in Ed. destruct (if is_file f _ then read_file f _ else None) as [content|]; [|discriminate].
        destruct (lf_errors (read_layerfile content)); [|discriminate]. injection Ed as <-.
        destruct (read_layerfile_canon content) as (_ & H1 & H2). now split.
      + destruct b as [|b0 br]; [discriminate|]. destruct (lm_get (ld_map ld) (b0 :: br)) as [pl|] eqn:Epl; [|discriminate].
        injection Ebasis as <- <-. destruct (HW pl (lm_get_in _ _ _ Epl)) as (_ & H1 & H2). now split. }
  fold l.
  apply hs_seq.
  { apply (add_mkdir_step e _ []); [exact HF| |constructor]. cbn [l l_path]. now rewrite layer_path_eq. }
  apply hs_seq; [apply add_write_cfg_step; auto|].
  apply hs_seq.
  { destruct Hbsr as (H1 & _). apply (add_mkdir_step e _ bsr); [exact HF| |exact H1]. now apply build_path_eq. }
  apply hs_seq.
  { destruct Hbsr as (H1 & H2 & _). destruct b as [|b0 br].
    - assert (Er : pathjoin [build_path c l; bs "root"] = pa (Lc ++ n :: bsr ++ [bs "root"])).
      { rewrite (build_path_eq l n) by auto. rewrite pathjoin_pa1; [now rewrite <- app_assoc|now apply plains_dirty|apply plain_root]. }
      assert (Pr1 : plains (bsr ++ [bs "root"])) by (apply plains_app; split; [exact H1|constructor; [apply plain_root|constructor]]).
      apply hs_seq; [apply (add_mkdir_step e _ (bsr ++ [bs "root"])); auto|].
      rewrite Er. rewrite pathjoin_pa1; [|now apply plains_dirty|apply plain_bashrc].
      rewrite <- app_assoc. cbn [app]. rewrite <- app_assoc. cbn [app].
      apply (add_write_text_step e _ (bsr ++ [bs "root"; bs ".bashrc"])); auto.
      + apply plains_app. split; [exact H1|constructor; [apply plain_root|constructor; [apply plain_bashrc|constructor]]].
      + destruct bsr; discriminate.
      + unfold cfgp. intros E. apply pa_inj in E.
        * apply app_inv_head in E. injection E as E. apply (f_equal (@length _)) in E. rewrite app_length in E. cbn in E. lia.
        * apply plains_dirty; [exact Pn|]. apply plains_app. split; [exact H1|constructor; [apply plain_root|constructor; [apply plain_bashrc|constructor]]].
        * apply plains_dirty; [exact Pn|constructor; [apply plain_lcf|constructor]].
    - apply hs_seq.
      + destruct Hwsr as (W1 & _). apply (add_mkdir_step e _ wsr); [exact HF| |exact W1]. now apply work_path_eq.
      + destruct Husr as (U1 & _). apply (add_mkdir_step e _ usr); [exact HF| |exact U1]. now apply upper_path_eq. }
  apply renormalize_keeps.
Qed.
End AddCmd.

(* ------------------------------------------------------------------ rebase *)
Section RebaseCmd.
Variables (f0 : fsT) (a b : bytes).
Hypothesis Hc0 : fs_clean f0.
Hypothesis Hn0 : nolink f0.

Definition PReb (v : option bytes) : Prop := v = cfgbase f0 a \/ v = Some b.
Definition RebFacts : Prop :=
  plain a /\ legal_name a = true /\ hasdir a f0 /\ G f0 a = cfgbase f0 a /\ gforest (g_add (G f0) a b).
Definition IvReb (w : world) : Prop := w_fs w = f0 \/ (RebFacts /\ Inv1 [a] f0 f0 a PReb w).

Lemma reb_inv_of w : RebFacts -> IvReb w -> Inv1 [a] f0 f0 a PReb w.
Proof.
  intros HF [E|[_ H]]; [|exact H]. unfold Inv1. rewrite E. split; [now apply IB_refl|]. split; [now left|].
  split; [auto|]. intros j _ _. split; auto.
Qed.

Lemma reb_write_cfg_step e l : RebFacts -> l_path l = layer_path c a -> l_base l = b -> mounts_ok l ->
  hs IvReb false (write_layerfile e l) (fun _ => True).
Proof.
  intros HF Ep Eb (Hb & Hm & He). pose proof HF as (Pn & _). unfold write_layerfile.
  rewrite (layerconfig_path_eq l a Ep Pn). apply hs_true.
  apply (write_atomically_rule IvReb (fun x w => Tv1 [a] f0 f0 a PReb x w)); rewrite ?tmp_path_eq.
  - intros w w' HI E. apply (tv_open [a] f0 f0 a PReb Pn (or_introl eq_refl) w w'); [now apply reb_inv_of|exact E].
  - intros x ch w HT. now apply (tv_append [a] f0 f0 a PReb Pn (or_introl eq_refl)).
  - intros x w HT. right. split; [exact HF|]. now apply (tv_drop [a] f0 f0 a PReb Pn (or_introl eq_refl) x).
  - intros w w' HT E. right. split; [exact HF|].
    destruct (tv_rename [a] f0 f0 a PReb Pn (or_introl eq_refl) _ w w' HT E) as (H1 & H2 & _ & H3 & H4).
    split; [exact H1|]. split; [|now split].
    right. rewrite H2, layerfile_roundtrip by assumption. cbn [lf_base]. now rewrite Eb.
  - intros x w [HT _]. right. now split.
Qed.

Lemma reb_final w : IvReb w -> gforest (G f0) -> gforest (G (w_fs w)).
Proof.
  intros [->|((Pn & Ln & Hd & Hg & HGa) & (HI & HP & HD & _))] HG; [exact HG|].
  assert (Hout : forall x, x <> a -> G (w_fs w) x = G f0 x).
  { intros x Hx. apply (G_out [a]); auto.
    - apply (ib_clean _ _ _ HI).
    - apply (ib_nolink _ _ _ HI).
    - apply (ib_part _ _ _ HI).
    - intros y [<-|[]]. exact Pn.
    - intros [E|[]]. congruence. }
  destruct (HD Hd) as (m0 & Hm0).
  pose proof (G_of_cfgbase (w_fs w) a m0 (ib_clean _ _ _ HI) (ib_nolink _ _ _ HI) Pn Ln Hm0) as Ega.
  destruct HP as [HP|HP].
  - apply (gforest_ext (G f0)); [|exact HG]. intros x. destruct (beq a x) eqn:Ex.
    + apply beq_true in Ex. subst x. congruence.
    + apply beq_false in Ex. symmetry. apply Hout. congruence.
  - apply (gforest_ext (g_add (G f0) a b)); [|exact HGa].
    intros x. unfold g_add. destruct (beq a x) eqn:Ex.
    + apply beq_true in Ex. subst x. congruence.
    + apply beq_false in Ex. symmetry. apply Hout. congruence.
Qed.

Lemma rebase_layer_keeps e ld :
  LDI (skel (read_layer_files c f0)) ld -> paths_ok c (ld_map ld) ->
  hs IvReb false (rebase_layer e c ld a b) (fun _ => True).
Proof.
  intros [Hs HW] HPa. unfold rebase_layer.
  apply hs_guard_k. intros G0. apply andb_true_iff in G0 as [G1 G2].
  apply test_name_need in G1 as (Ha & La & l & El). apply test_name_opt in G2. rewrite El.
  apply hs_guard_k. intros _. apply hs_guard_k. intros _. cbv zeta. apply hs_guard_k. intros Gc.
  apply hs_guard_k. intros _.
  assert (Hg : forall x, g_of (ld_map ld) x = G f0 x) by (intros x; now apply skel_g).
  pose proof (lm_get_name _ _ _ El) as Ena. pose proof (lm_get_in _ _ _ El) as Hin.
  assert (Hga : G f0 a = Some (l_base l)) by (rewrite <- Hg; apply g_of_some; eauto).
  destruct (G_some_child f0 a _ Hc0 Hn0 Hga) as (Pa & _ & Hd & Hcb).
  assert (HF : RebFacts).
  { split; [exact Pa|]. split; [exact La|]. split; [exact Hd|]. split; [congruence|].
    apply (gforest_ext (g_of (lm_set (ld_map ld) (set_base l b)))).
    - intros x. rewrite g_of_set. cbn [set_base l_name l_base]. unfold g_add. rewrite Ena. now rewrite Hg.
    - now apply allreach_gforest, check_inh_allreach. }
  eapply hs_bind; [apply renormalize_keeps|]. intros ld' _.
  apply hs_seq; [|now apply hs_ret].
  apply reb_write_cfg_step; auto.
  - cbn [set_base l_path]. rewrite (HPa l Hin). now rewrite Ena.
  - destruct (HW l Hin) as (_ & H1 & H2). split; [|now split]. cbn [set_base l_base].
    destruct b as [|b0 br]; [now left|right]. destruct G2 as [G2|(Lb & _)]; [discriminate|].
    apply legal_tok; [exact Lb|discriminate].
Qed.
End RebaseCmd.

(* ------------------------------------------------------------------ export links live outside the layers directory *)
Variables Ec bpr gpr : list bytes.
Hypothesis HEc : plains Ec /\ c_exports c = pa Ec /\ (forall r1 r2, Lc ++ r1 <> Ec ++ r2).
Hypothesis Hbpr : plains bpr /\ bpr <> [] /\ c_exp_binpkg c = pjoin bpr.
Hypothesis Hgpr : plains gpr /\ gpr <> [] /\ c_exp_gen c = pjoin gpr.

Lemma pjoin_nonempty rs : plains rs -> rs <> [] -> pjoin rs <> [].
Proof.
  intros Hr Hne. destruct rs as [|r rs']; [congruence|]. inversion Hr as [|? ? (H1 & _) _]; subst.
  destruct rs'; cbn; [exact H1|]. destruct r; [congruence|discriminate].
Qed.
Lemma pathjoin3 cs rs x : plains cs -> plains rs -> rs <> [] -> plain x ->
  pathjoin [pa cs; pjoin rs; x] = pa (cs ++ rs ++ [x]).
Proof.
  intros Hc Hr Hne Px.
  assert (E : pathjoin [pa cs; pjoin rs; x] = pathjoin [pa cs; pjoin (rs ++ [x])]).
  { unfold pathjoin. cbn [filter].
    assert (beq (pa cs) [] = false) as -> by (apply beq_false, pa_nonempty).
    assert (beq (pjoin rs) [] = false) as -> by (apply beq_false; now apply pjoin_nonempty).
    assert (beq x [] = false) as -> by (apply beq_false; apply Px).
    assert (beq (pjoin (rs ++ [x])) [] = false) as ->.
    { apply beq_false, pjoin_nonempty; [|destruct rs; discriminate]. apply plains_app. split; [exact Hr|constructor; [exact Px|constructor]]. }
    cbn [negb]. f_equal. rewrite pjoin_app by (try exact Hne; discriminate).
    change (pjoin [pa cs; pjoin rs; x]) with (pa cs ++ sl :: pjoin rs ++ sl :: x).
    change (pjoin [pa cs; pjoin rs ++ sl :: pjoin [x]]) with (pa cs ++ sl :: pjoin rs ++ sl :: pjoin [x]). reflexivity. }
  rewrite E. apply pathjoin_pa; [exact Hc| |destruct rs; discriminate].
  apply plains_app. split; [exact Hr|constructor; [exact Px|constructor]].
Qed.

Lemma export_links_eq l a : l_name l = a -> plain a ->
  map fst (automated_exports c l) = [pa (Ec ++ bpr ++ [a]); pa (Ec ++ gpr ++ [a])].
Proof.
  intros <- Pa. unfold automated_exports. cbn [map fst].
  destruct HEc as (E1 & E2 & _). destruct Hbpr as (B1 & B2 & B3). destruct Hgpr as (G1 & G2 & G3).
  rewrite E2, B3, G3. now rewrite !pathjoin3.
Qed.

Definition out_of (X : bytes) (q : bytes) : bool := negb (at_or_under X q).
Lemma IB_remove_outside S f0 f r : IB S f0 f -> plains r -> IB S f0 (pfilter (out_of (pa (Ec ++ r))) f).
Proof.
  intros HI Pr. destruct HEc as (E1 & _ & E3). apply IB_pfilter; [exact HI|].
  intros [q m] Hin HLp. cbn [fst]. unfold out_of. apply negb_true_iff.
  destruct (at_or_under (pa (Ec ++ r)) q) eqn:Ea; [|reflexivity]. exfalso.
  unfold Lpred in HLp. cbn [fst] in HLp. apply andb_true_iff in HLp as [Hu _].
  pose proof (ib_clean _ _ _ HI _ _ Hin) as Hq. apply clean_abs_repr in Hq as (qs & Pq & ->).
  apply under_pa in Hu as (r1 & _ & ->); [|exact HLc|exact Pq].
  apply at_or_under_pa in Ea as (r2 & Er); [|apply plains_app; now split|exact Pq].
  rewrite <- app_assoc in Er. now apply E3 in Er.
Qed.
Lemma cfgp_outside r x : plains r -> plain x -> out_of (pa (Ec ++ r)) (cfgp x) = true.
Proof.
  intros Pr Px. destruct HEc as (E1 & _ & E3). unfold out_of. apply negb_true_iff.
  destruct (at_or_under (pa (Ec ++ r)) (cfgp x)) eqn:Ea; [|reflexivity]. exfalso. unfold cfgp in Ea.
  apply at_or_under_pa in Ea as (r2 & Er); [|apply plains_app; now split|].
  - rewrite <- app_assoc in Er. now apply E3 in Er.
  - apply plains_dirty; [exact Px|constructor; [apply plain_lcf|constructor]].
Qed.

Lemma filter_andb {A} (P Q : A -> bool) l : filter (fun x => P x && Q x) l = filter Q (filter P l).
Proof.
  induction l as [|x r IH]; cbn [filter]; [reflexivity|]. destruct (P x); cbn [andb filter]; [|exact IH].
  destruct (Q x); now rewrite IH.
Qed.
Lemma Lpart_mono S f f' : Lpart Lc [] f = Lpart Lc [] f' -> Lpart Lc S f = Lpart Lc S f'.
Proof.
  intros E. assert (G0 : forall g, Lpart Lc S g = filter (fun e => negb (inS Lc S (fst e))) (Lpart Lc [] g)).
  { intros g. unfold Lpart. rewrite <- filter_andb. apply filter_ext. intros e. unfold Lpred. cbn [inS existsb negb].
    now rewrite andb_true_r. }
  now rewrite !G0, E.
Qed.
Lemma IB_mono S f0 f : IB [] f0 f -> IB S f0 f.
Proof. intros [H1 H2 H3]. constructor; auto. now apply Lpart_mono. Qed.

(* ------------------------------------------------------------------ remove *)
Definition rsfx : bytes := D_RemovedLayerSuffix.
Lemma plain_removed a : plain a -> plain (a ++ rsfx).
Proof.
  intros (H1 & H2 & H3 & H4). repeat split.
  - destruct a; [congruence|discriminate].
  - intros E. apply (f_equal (@length _)) in E. rewrite app_length in E. cbn in E. lia.
  - intros E. apply (f_equal (@length _)) in E. rewrite app_length in E. cbn in E. lia.
  - intros Hin. apply in_app_or in Hin as [Hin|Hin]; [now apply H4|].
    vm_compute in Hin. repeat (destruct Hin as [Hin|Hin]; [discriminate|]). destruct Hin.
Qed.
Lemma illegal_removed a : legal_name (a ++ rsfx) = false.
Proof.
  apply (illegal_with (nb 126)); [exact name_byte_tilde|]. apply in_or_app. right.
  vm_compute. now left.
Qed.
Lemma removed_ne a : a <> a ++ rsfx.
Proof. intros E. apply (f_equal (@length _)) in E. rewrite app_length in E. cbn in E. lia. Qed.
Lemma lp_removed a : lp Lc a ++ rsfx = lp Lc (a ++ rsfx).
Proof. unfold lp. apply pa_last_app. Qed.

Section RemoveCmd.
Variables (f0 : fsT) (a : bytes).
Hypothesis Hc0 : fs_clean f0.
Hypothesis Hn0 : nolink f0.

Definition Srem : list bytes := [a; a ++ rsfx].
Definition RemFacts : Prop := plain a /\ (forall x y, G f0 x = Some y -> y <> a).
Definition RemSt (f : fsT) : Prop := IB [] f0 f \/ (IB Srem f0 f /\ cfgbase f a = None).
Definition IvRem (w : world) : Prop := w_fs w = f0 \/ (RemFacts /\ RemSt (w_fs w)).

Lemma rem_st_of w : IvRem w -> RemSt (w_fs w).
Proof. intros [E|[_ H]]; [|exact H]. left. rewrite E. now apply IB_refl. Qed.

Lemma rem_outside_step e r : RemFacts -> plains r ->
  hs IvRem false (fs_remove e (pa (Ec ++ r))) (fun _ => True).
Proof.
  intros HF Pr. unfold fs_remove. apply hs_true, hoare_do_op. intros w w' HI _ E. right. split; [exact HF|].
  apply rem_st_of in HI. cbn [op_result] in E. unfold on_fres in E.
  destruct (remove_all (w_fs w) _) as [f'|] eqn:Er; [|discriminate]. injection E as <-. cbn [set_fs w_fs].
  apply remove_all_shape in Er. subst f'.
  change (filter _ (w_fs w)) with (pfilter (out_of (pa (Ec ++ r))) (w_fs w)).
  destruct HI as [HI|[HI Hcb]]; [left|right; split]; try (now apply IB_remove_outside).
  rewrite <- Hcb. apply cfgbase_ext. rewrite fs_get_pfilter, cfgp_outside; [reflexivity|exact Pr|apply HF].
Qed.

Lemma rem_links_step e l : RemFacts -> l_name l = a -> hs IvRem false (remove_export_links e c l) (fun _ => True).
Proof.
  intros HF El. pose proof HF as (Pa & _). unfold remove_export_links. apply hs_mapM_. intros lt Hlt.
  assert (Hp : exists r, plains r /\ fst lt = pa (Ec ++ r)).
  { apply (in_map fst) in Hlt. rewrite (export_links_eq l a El Pa) in Hlt.
    destruct Hbpr as (B1 & _). destruct Hgpr as (G1 & _).
    destruct Hlt as [<-|[<-|[]]]; eexists; (split; [|reflexivity]); apply plains_app; (split; [assumption|]);
      constructor; (exact Pa || constructor). }
  destruct Hp as (r & Pr & ->). apply hs_get_fs_k. intros f.
  destruct (negb (exists_ f _)); [now apply hs_ret|]. destruct (negb (is_symlink f _)); [apply hs_fail|].
  now apply rem_outside_step.
Qed.

Lemma In_a_S : In a Srem. Proof. now left. Qed.
Lemma In_ar_S : In (a ++ rsfx) Srem. Proof. right; now left. Qed.

Lemma rem_dir_step e : RemFacts -> hs IvRem false (fs_remove e (lp Lc a)) (fun _ => True).
Proof.
  intros HF. pose proof HF as (Pa & _). unfold fs_remove. apply hs_true, hoare_do_op. intros w w' HI _ E.
  right. split; [exact HF|]. apply rem_st_of in HI. cbn [op_result] in E. unfold on_fres in E.
  destruct (remove_all (w_fs w) _) as [f'|] eqn:Er; [|discriminate]. injection E as <-. cbn [set_fs w_fs].
  apply remove_all_shape in Er. subst f'.
  change (filter _ (w_fs w)) with (pfilter (out_of (lp Lc a)) (w_fs w)).
  assert (HI' : IB Srem f0 (w_fs w)) by (destruct HI as [HI|[HI _]]; [now apply IB_mono|exact HI]).
  right. split.
  - apply IB_pfilter; [exact HI'|]. intros [q m] Hin HLp. cbn [fst]. unfold out_of.
    unfold Lpred in HLp. cbn [fst] in HLp. apply andb_true_iff in HLp as [_ HLp]. apply negb_true_iff in HLp.
    unfold inS in HLp. cbn [Srem existsb] in HLp. apply orb_false_iff in HLp as [HLp _]. now rewrite HLp.
  - unfold cfgbase. rewrite fs_get_pfilter.
    assert (out_of (lp Lc a) (cfgp a) = false) as ->; [|reflexivity].
    unfold out_of. apply negb_false_iff. unfold lp, cfgp. apply at_or_under_pa.
    + now apply plains_lp.
    + apply plains_dirty; [exact Pa|constructor; [apply plain_lcf|constructor]].
    + exists [lcf]. now rewrite <- app_assoc.
Qed.

Lemma rem_rename_step e : RemFacts -> hs IvRem false (fs_rename e (lp Lc a) (lp Lc a ++ rsfx)) (fun _ => True).
Proof.
  intros HF. pose proof HF as (Pa & _). pose proof (plain_removed a Pa) as Par.
  unfold fs_rename. apply hs_true, hoare_do_op. intros w w' HI _ E.
  right. split; [exact HF|]. apply rem_st_of in HI. cbn [op_result] in E. unfold on_fres in E.
  rewrite lp_removed in E.
  destruct (rename (w_fs w) _ _) as [f'|] eqn:Er; [|discriminate]. injection E as <-. cbn [set_fs w_fs].
  assert (HI' : IB Srem f0 (w_fs w)) by (destruct HI as [HI|[HI _]]; [now apply IB_mono|exact HI]).
  apply rename_shape in Er as [[E _]|(na & Ea & Eu & -> & _)].
  { exfalso. unfold lp in E. apply pa_inj in E; [|now apply plains_lp|now apply plains_lp].
    apply app_inv_head in E. injection E as E. now apply removed_ne in E. }
  set (F := filter (not_at (lp Lc (a ++ rsfx))) (w_fs w)).
  assert (PA : plains (Lc ++ [a])) by now apply plains_lp.
  assert (PR : plains (Lc ++ [a ++ rsfx])) by now apply plains_lp.
  assert (NE : Lc ++ [a ++ rsfx] <> []) by (destruct Lc; discriminate).
  assert (HF' : fs_clean F).
  { intros p m Hin. apply filter_In in Hin as [Hin _]. eapply (ib_clean _ _ _ HI'); eauto. }
  assert (Hdis : forall r, plains r -> at_or_under (pa (Lc ++ [a])) (pa ((Lc ++ [a ++ rsfx]) ++ r)) = false).
  { intros r Pr. destruct (at_or_under (pa (Lc ++ [a])) (pa ((Lc ++ [a ++ rsfx]) ++ r))) eqn:Ea2; [|reflexivity]. exfalso.
    apply at_or_under_pa in Ea2 as (r2 & Er2); [|exact PA|apply plains_app; now split].
    rewrite <- !app_assoc in Er2. apply app_inv_head in Er2. cbn in Er2. injection Er2 as Er2 _.
    symmetry in Er2. now apply removed_ne in Er2. }
  right. split; [constructor|].
  - apply (move_clean (Lc ++ [a]) (Lc ++ [a ++ rsfx]) PA PR NE F HF').
  - intros y t Py Ey. apply fs_get_move_cases in Ey as [[_ Ey]|(p & Hp1 & Hp2 & Hp3)].
    + unfold F in Ey. destruct (beq (cfgp y) (lp Lc (a ++ rsfx))) eqn:E.
      * apply beq_true in E. rewrite E, fs_get_filter_none in Ey; [discriminate|].
        intros m. unfold not_at. cbn [fst]. now rewrite beq_refl.
      * rewrite fs_get_filter in Ey; [now apply (ib_nolink _ _ _ HI' y t)|].
        intros m. unfold not_at. cbn [fst]. now rewrite E.
    + pose proof (fs_get_In _ _ _ Hp3) as Hin. pose proof (HF' _ _ Hin) as Hc.
      apply clean_abs_repr in Hc as (ps & Pp & ->). unfold lp in Hp1.
      apply at_or_under_pa in Hp1 as (r & ->); [|exact PA|exact Pp].
      assert (Pr : plains r) by (apply plains_app in Pp; tauto).
      unfold lp, cfgp in Hp2. rewrite move_target in Hp2 by assumption.
      apply pa_inj in Hp2; [|apply plains_app; now split|apply plains_dirty; [exact Py|constructor; [apply plain_lcf|constructor]]].
      rewrite <- app_assoc in Hp2. apply app_inv_head in Hp2. cbn in Hp2. injection Hp2 as <- ->.
      unfold F in Hp3. rewrite fs_get_filter in Hp3.
      * rewrite <- app_assoc in Hp3. apply (ib_nolink _ _ _ HI' a t Pa Hp3).
      * intros m. unfold not_at. cbn [fst]. apply negb_true_iff, beq_false. unfold lp. intros E. apply pa_inj in E.
        -- rewrite <- app_assoc in E. apply app_inv_head in E. discriminate.
        -- exact Pp.
        -- exact PR.
  - unfold F, lp. change (Lc ++ [a]) with (Lc ++ a :: []). change (Lc ++ [a ++ rsfx]) with (Lc ++ (a ++ rsfx) :: []).
    rewrite (Lpart_rename Srem (w_fs w) a [] (a ++ rsfx) []); auto using In_a_S, In_ar_S.
    + apply (ib_part _ _ _ HI').
    + apply (ib_clean _ _ _ HI').
    + constructor.
    + constructor.
  - unfold cfgbase, lp.
    rewrite (rename_get_source (Lc ++ [a]) (Lc ++ [a ++ rsfx]) PA NE F (cfgp a) HF'); [reflexivity| |exact Hdis].
    unfold cfgp. apply at_or_under_pa; [exact PA|apply plains_dirty; [exact Pa|constructor; [apply plain_lcf|constructor]]|].
    exists [lcf]. now rewrite <- app_assoc.
Qed.

Lemma rem_final w : IvRem w -> gforest (G f0) -> gforest (G (w_fs w)).
Proof.
  intros [->|((Pa & Hnc) & [HI|[HI Hcb]])] HG; [exact HG| |].
  - apply (gforest_ext (G f0)); [|exact HG]. intros x. symmetry. apply (G_out []); auto.
    + apply (ib_clean _ _ _ HI).
    + apply (ib_nolink _ _ _ HI).
    + apply (ib_part _ _ _ HI).
    + intros y [].
  - pose proof (plain_removed a Pa) as Par.
    apply (gforest_ext (g_del (G f0) a)); [|now apply gforest_del].
    intros x. unfold g_del. destruct (beq a x) eqn:Ex.
    + apply beq_true in Ex. subst x.
      destruct (G_cases (w_fs w) a (ib_clean _ _ _ HI) (ib_nolink _ _ _ HI)) as [E|(_ & _ & _ & E)]; congruence.
    + apply beq_false in Ex. destruct (beq (a ++ rsfx) x) eqn:Ex2.
      * apply beq_true in Ex2. subst x. rewrite !G_eq, illegal_removed. now rewrite !andb_false_r.
      * apply beq_false in Ex2. symmetry. apply (G_out Srem); auto.
        -- apply (ib_clean _ _ _ HI).
        -- apply (ib_nolink _ _ _ HI).
        -- apply (ib_part _ _ _ HI).
        -- intros y [<-|[<-|[]]]; assumption.
        -- intros [E|[E|[]]]; congruence.
Qed.

Lemma remove_layer_keeps e ld files :
  LDI (skel (read_layer_files c f0)) ld -> paths_ok c (ld_map ld) ->
  hs IvRem false (remove_layer e c ld a files) (fun _ => True).
Proof.
  intros [Hs HW] HPa. unfold remove_layer.
  apply hs_guard_k. intros G1. apply test_name_need in G1 as (Ha & La & l & El). rewrite El.
  apply hs_guard_k. intros _. apply hs_guard_k. intros Gc. apply negb_true_iff in Gc.
  apply hs_guard_k. intros _.
  assert (Hg : forall x, g_of (ld_map ld) x = G f0 x) by (intros x; now apply skel_g).
  pose proof (lm_get_name _ _ _ El) as Ena. pose proof (lm_get_in _ _ _ El) as Hin.
  assert (Pa : plain a) by now apply legal_plain.
  assert (HF : RemFacts).
  { split; [exact Pa|]. intros x y Hxy. rewrite <- Hg in Hxy. apply g_of_some in Hxy as (l' & El' & <-).
    apply (has_child_false _ _ Gc). eapply lm_get_in; eauto. }
  apply hs_seq; [now apply rem_links_step|].
  apply hs_get_fs_k. intros f. apply hs_seq; [|apply renormalize_keeps].
  rewrite (HPa l Hin), Ena, (layer_path_eq a Pa).
  destruct (files || pristine_tree c f l); [now apply rem_dir_step|]. cbv zeta.
  destruct (exists_ f _); [apply hs_fail|now apply rem_rename_step].
Qed.
End RemoveCmd.

(* ------------------------------------------------------------------ mkdirs *)
Section MkdirsCmd.
Variables (f0 : fsT) (a : bytes).
Hypothesis Hc0 : fs_clean f0.
Hypothesis Hn0 : nolink f0.

Definition PMk (v : option bytes) : Prop := v = cfgbase f0 a.
Definition MkFacts : Prop := plain a /\ legal_name a = true /\ hasdir a f0 /\ G f0 a = cfgbase f0 a.
Definition IvMk (w : world) : Prop := w_fs w = f0 \/ (MkFacts /\ Inv1 [a] f0 f0 a PMk w).

Lemma mk_inv_of w : MkFacts -> IvMk w -> Inv1 [a] f0 f0 a PMk w.
Proof.
  intros HF [E|[_ H]]; [|exact H]. unfold Inv1. rewrite E. split; [now apply IB_refl|]. split; [reflexivity|].
  split; [auto|]. intros j _ _. split; auto.
Qed.
Lemma mk_mkdir_step e p r : MkFacts -> p = pa (Lc ++ a :: r) -> plains r ->
  hs IvMk false (fs_mkdir e p) (fun _ => True).
Proof.
  intros HF -> Pr. unfold fs_mkdir. apply hs_true, hoare_do_op. intros w w' HI _ E. right. split; [exact HF|].
  pose proof HF as (Pn & _). eapply (inv_mkdir [a] f0 f0 a PMk Pn (or_introl eq_refl) w w' r); eauto.
  now apply mk_inv_of.
Qed.
Lemma mk_final w : IvMk w -> gforest (G f0) -> gforest (G (w_fs w)).
Proof.
  intros [->|((Pn & Ln & Hd & Hg) & (HI & HP & HD & _))] HG; [exact HG|].
  apply (gforest_ext (G f0)); [|exact HG]. intros x. destruct (beq a x) eqn:Ex.
  - apply beq_true in Ex. subst x. destruct (HD Hd) as (m0 & Hm0).
    rewrite (G_of_cfgbase (w_fs w) a m0 (ib_clean _ _ _ HI) (ib_nolink _ _ _ HI) Pn Ln Hm0). congruence.
  - apply beq_false in Ex. symmetry. apply (G_out [a]); auto.
    + apply (ib_clean _ _ _ HI).
    + apply (ib_nolink _ _ _ HI).
    + apply (ib_part _ _ _ HI).
    + intros y [<-|[]]. exact Pn.
    + intros [E|[]]. congruence.
Qed.
Lemma makedirs_keeps e ld :
  LDI (skel (read_layer_files c f0)) ld -> paths_ok c (ld_map ld) ->
  hs IvMk false (makedirs e c ld a) (fun _ => True).
Proof.
  intros [Hs HW] HPa. unfold makedirs.
  apply hs_guard_k. intros G1. apply test_name_need in G1 as (Ha & La & l & El). rewrite El.
  apply hs_guard_k. intros _. destruct (l_state l <? st_complete)%N; [|now apply hs_ret].
  assert (Hg : forall x, g_of (ld_map ld) x = G f0 x) by (intros x; now apply skel_g).
  pose proof (lm_get_name _ _ _ El) as Ena. pose proof (lm_get_in _ _ _ El) as Hin.
  assert (Hga : G f0 a = Some (l_base l)) by (rewrite <- Hg; apply g_of_some; eauto).
  destruct (G_some_child f0 a _ Hc0 Hn0 Hga) as (Pa & _ & Hd & Hcb).
  assert (HF : MkFacts) by (split; [exact Pa|split; [exact La|split; [exact Hd|congruence]]]).
  assert (Ep : l_path l = layer_path c a) by (rewrite (HPa l Hin); now rewrite Ena).
  apply hs_get_fs_k. intros f. cbv zeta. apply hs_seq; [|apply hs_get_fs_k; intros f'; now apply hs_ret].
  apply hs_mapM_. intros p Hp. apply filter_In in Hp as [Hp _].
  destruct Hbsr as (B1 & _). destruct Hwsr as (W1 & _). destruct Husr as (U1 & _).
  apply in_app_or in Hp as [[<-|[]]|Hp].
  - apply (mk_mkdir_step e _ bsr); [exact HF|now apply build_path_eq|exact B1].
  - destruct (l_base l); [destruct Hp|]. destruct Hp as [<-|[<-|[]]].
    + apply (mk_mkdir_step e _ wsr); [exact HF|now apply work_path_eq|exact W1].
    + apply (mk_mkdir_step e _ usr); [exact HF|now apply upper_path_eq|exact U1].
Qed.
End MkdirsCmd.

(* ------------------------------------------------------------------ commands that leave the file tree alone *)
Definition SameFs (f0 : fsT) : wpred := fun w => w_fs w = f0.

Lemma refresh_any (Iv : wpred) cc sk ld : LDI sk ld ->
  hs Iv false (refresh_mounts cc ld) (fun ld' => LDI sk ld' /\ ld_order ld' = ld_order ld).
Proof.
  intros H s HI _. rewrite refresh_eq. destruct (probe_of (w_ks (s_w s))) as [|ms ds]; [exact HI|].
  split; [exact HI|]. split; [now apply refresh_LDI|reflexivity].
Qed.
Lemma mntop_samefs f0 e o : mntopP o -> hoare (SameFs f0) false ptrue (do_op e o) (fun _ => ptrue).
Proof.
  intros H. apply hoare_do_op. intros w w' HI _ E. unfold SameFs in *.
  destruct o; cbn in H; try contradiction; cbn [op_result] in E.
  - destruct (kmount _ _ _ _ _ _ _); [|discriminate]. injection E as <-. exact HI.
  - destruct (kumount _ _ _); [|discriminate]. injection E as <-. exact HI.
Qed.

(* pretend mode: no operation is carried out *)
Section Pretend.
Variables (f0 : fsT) (e : env).
Hypothesis Hp : e_pretend e = true.
Lemma pretend_op o : hoare (SameFs f0) false ptrue (do_op e o) (fun _ => ptrue).
Proof. intros s HI _. unfold do_op. rewrite mutate_pretend by exact Hp. split; [exact HI|exact I]. Qed.
Lemma pretend_wt p x : hoare (SameFs f0) false ptrue (fs_write_text e p x) (fun _ => ptrue).
Proof. intros s HI _. unfold fs_write_text. rewrite mutate_pretend by exact Hp. split; [exact HI|exact I]. Qed.
Lemma pretend_wa p ch : hoare (SameFs f0) false ptrue (write_file_atomically e p ch) (fun _ => ptrue).
Proof. intros s HI _. rewrite write_atomically_pretend by exact Hp. split; [exact HI|exact I]. Qed.
End Pretend.

(* ------------------------------------------------------------------ rename (successful runs) *)
Lemma at_under_same x r : plain x -> plains r -> at_or_under (lp Lc x) (pa (Lc ++ x :: r)) = true.
Proof.
  intros Px Pr. unfold lp. apply at_or_under_pa; [now apply plains_lp|now apply plains_dirty|].
  exists r. now rewrite <- app_assoc.
Qed.
Lemma not_under_other x j r : plain x -> plain j -> plains r -> j <> x ->
  at_or_under (lp Lc x) (pa (Lc ++ j :: r)) = false.
Proof.
  intros Px Pj Pr Hj. destruct (at_or_under (lp Lc x) (pa (Lc ++ j :: r))) eqn:E; [|reflexivity]. exfalso.
  unfold lp in E. apply at_or_under_pa in E as (t & Et); [|now apply plains_lp|now apply plains_dirty].
  rewrite <- app_assoc in Et. apply app_inv_head in Et. cbn in Et. injection Et as Et _. congruence.
Qed.
Lemma IB0_get f0 f x r : IB [] f0 f -> plain x -> plains r ->
  fs_get f (pa (Lc ++ x :: r)) = fs_get f0 (pa (Lc ++ x :: r)).
Proof.
  intros HI Px Pr. apply (fs_get_local Lc HLc [] f f0 x r (ib_part _ _ _ HI) Px); auto. intros ? [].
Qed.
Lemma IB0_in f0 f x r m : IB [] f0 f -> plain x -> plains r ->
  In (pa (Lc ++ x :: r), m) f0 -> In (pa (Lc ++ x :: r), m) f.
Proof.
  intros HI Px Pr Hin.
  assert (In (pa (Lc ++ x :: r), m) (Lpart Lc [] f0)).
  { apply filter_In. split; [exact Hin|]. apply Lpred_clean_path; auto. intros ? []. }
  rewrite <- (ib_part _ _ _ HI) in H. now apply filter_In in H.
Qed.
Lemma IB0_hasdir f0 f j : IB [] f0 f -> plain j -> hasdir j f0 -> hasdir j f.
Proof. intros HI Pj (m & Hm). exists m. unfold lp in *. apply (IB0_in f0 f j [] m HI Pj); [constructor|exact Hm]. Qed.

Lemma Lpart_sub S S' f f' : (forall x, In x S -> In x S') -> Lpart Lc S f = Lpart Lc S f' -> Lpart Lc S' f = Lpart Lc S' f'.
Proof.
  intros Hsub E.
  assert (G0 : forall g, Lpart Lc S' g = filter (fun e => negb (inS Lc S' (fst e))) (Lpart Lc S g)).
  { intros g. unfold Lpart. rewrite <- filter_andb. apply filter_ext. intros e. unfold Lpred.
    destruct (inS Lc S' (fst e)) eqn:E1; [now rewrite !andb_false_r|]. rewrite !andb_true_r.
    destruct (inS Lc S (fst e)) eqn:E2; [|now rewrite andb_true_r]. exfalso.
    unfold inS in *. apply existsb_exists in E2 as (x & Hx & Hau).
    assert (existsb (fun n => at_or_under (lp Lc n) (fst e)) S' = true); [|congruence].
    apply existsb_exists. exists x. split; [now apply Hsub|exact Hau]. }
  now rewrite !G0, E.
Qed.
Lemma IB_sub S S' f0 f : (forall x, In x S -> In x S') -> IB S f0 f -> IB S' f0 f.
Proof. intros Hsub [H1 H2 H3]. constructor; auto. now apply (Lpart_sub S S'). Qed.

Lemma with_layers_post um body s (Q : wpred) :
  (forall ld, LDI (skel (read_layer_files c (w_fs (s_w s)))) ld ->
     check_inheritance (read_layer_files c (w_fs (s_w s))) = true -> paths_ok c (ld_map ld) ->
     cores_ok c (w_fs (s_w s)) (ld_map ld) ->
     post (fun w => w = s_w s) (body ld) (fun _ => Q)) ->
  match with_layers c um body s with (Ret _, s') => Q (s_w s') | _ => True end.
Proof.
  intros Hb. unfold with_layers, bind at 1, get_fs. cbv beta iota.
  rewrite guard_k. destruct (base_set_up c (w_fs (s_w s))); [|exact I].
  unfold bind at 1. destruct (get_layers_spec c um s) as (o & E & Ho). rewrite E.
  destruct o as [ld| | | |]; try exact I.
  destruct Ho as (HLD & HC & _). pose proof (Hb ld HLD HC (get_layers_paths _ _ _ _ _ E) (get_layers_cores _ _ _ _ _ E) s I eq_refl) as H.
  unfold bind. destruct (body ld s) as [[ld'| | | |] s']; try exact I. cbn. apply H.
Qed.

Section RenameCmd.
Variables (f0 : fsT) (old new : bytes) (e : env).
Hypothesis Hc0 : fs_clean f0.
Hypothesis Hn0 : nolink f0.
Hypothesis Hcl0 : closed f0.
Hypothesis Hnp : e_pretend e = false.
Hypothesis Po : plain old.
Hypothesis Pnw : plain new.
Hypothesis Hon : old <> new.

Definition Sren (K : list bytes) : list bytes := old :: new :: K.
Definition Ptrue : option bytes -> Prop := fun _ => True.

(* removing the export links *)
Lemma ren_links_step l : l_name l = old ->
  hs (fun w => IB [] f0 (w_fs w)) false (remove_export_links e c l) (fun _ => True).
Proof.
  intros El. unfold remove_export_links. apply hs_mapM_. intros lt Hlt.
  assert (Hp : exists r, plains r /\ fst lt = pa (Ec ++ r)).
  { apply (in_map fst) in Hlt. rewrite (export_links_eq l old El Po) in Hlt.
    destruct Hbpr as (B1 & _). destruct Hgpr as (G1 & _).
    destruct Hlt as [<-|[<-|[]]]; eexists; (split; [|reflexivity]); apply plains_app; (split; [assumption|]);
      constructor; (exact Po || constructor). }
  destruct Hp as (r & Pr & ->). apply hs_get_fs_k. intros f.
  destruct (negb (exists_ f _)); [now apply hs_ret|]. destruct (negb (is_symlink f _)); [apply hs_fail|].
  unfold fs_remove. apply hs_true, hoare_do_op. intros w w' HI _ E. cbn [op_result] in E. unfold on_fres in E.
  destruct (remove_all (w_fs w) _) as [f'|] eqn:Er; [|discriminate]. injection E as <-. cbn [set_fs w_fs].
  apply remove_all_shape in Er. subst f'.
  change (filter _ (w_fs w)) with (pfilter (out_of (pa (Ec ++ r))) (w_fs w)). now apply IB_remove_outside.
Qed.

(* the state after the directory has been renamed, relative to the state before *)
Definition RenSt (K : list bytes) (f1 f : fsT) : Prop :=
  IB (Sren K) f0 f /\ fs_get f (cfgp old) = None /\ fs_get f (cfgp new) = fs_get f1 (cfgp old) /\
  (hasdir old f1 -> hasdir new f) /\
  forall j, plain j -> j <> old -> j <> new ->
    fs_get f (cfgp j) = fs_get f1 (cfgp j) /\ (hasdir j f1 -> hasdir j f).

Lemma ren_dir_post K f1 : IB [] f0 f1 -> fs_get f0 (cfgp old) <> None -> (forall k, In k K -> plain k) ->
  post (fun w => w_fs w = f1) (fs_rename e (lp Lc old) (lp Lc new)) (fun _ w' => RenSt K f1 (w_fs w')).
Proof.
  intros HI1 Hcfg PK. unfold fs_rename. apply post_do_op; [exact Hnp|]. intros w w' Ew E. cbn [op_result] in E.
  unfold on_fres in E. rewrite Ew in E.
  destruct (rename f1 _ _) as [f'|] eqn:Er; [|discriminate]. injection E as <-. cbn [set_fs w_fs].
  assert (PO : plains (Lc ++ [old])) by now apply plains_lp.
  assert (PN : plains (Lc ++ [new])) by now apply plains_lp.
  assert (NE : Lc ++ [new] <> []) by (destruct Lc; discriminate).
  assert (Plc : plains [lcf]) by (constructor; [apply plain_lcf|constructor]).
  apply rename_shape in Er as [[E _]|(na & Ea & Eu & -> & Hside)].
  { exfalso. unfold lp in E. apply pa_inj in E; auto. apply app_inv_head in E. injection E as E. congruence. }
  set (F := filter (not_at (lp Lc new)) f1).
  assert (HF' : fs_clean F).
  { intros p m Hin. apply filter_In in Hin as [Hin _]. eapply (ib_clean _ _ _ HI1); eauto. }
  assert (HFg : forall q, q <> lp Lc new -> fs_get F q = fs_get f1 q).
  { intros q Hq. apply fs_get_filter. intros m. unfold not_at. cbn [fst]. now apply negb_true_iff, beq_false. }
  (* the directory being renamed is a directory *)
  assert (Hold_dir : fs_get f1 (lp Lc old) = Some Dir).
  { unfold lp. change (Lc ++ [old]) with (Lc ++ old :: []). rewrite (IB0_get f0 f1 old [] HI1 Po); [|constructor].
    destruct (fs_get f0 (cfgp old)) as [m|] eqn:Em; [|congruence]. apply fs_get_In in Em.
    assert (Hnr : cfgp old <> root).
    { unfold cfgp. intros E. apply (pa_root_iff (Lc ++ [old; lcf])) in E; [destruct Lc; discriminate|].
      apply plains_dirty; [exact Po|exact Plc]. }
    pose proof (Hcl0 _ _ Em Hnr) as Hd. unfold cfgp in Hd. change (Lc ++ [old; lcf]) with (Lc ++ [old] ++ [lcf]) in Hd.
    rewrite app_assoc, pathdir_pa in Hd; [exact Hd|exact PO|apply plain_lcf]. }
  assert (Hna : na = Dir) by congruence.
  (* nothing of the target directory is in the way *)
  assert (Hfree : forall r m, plains r -> r <> [] -> ~ In (pa (Lc ++ new :: r), m) f1).
  { intros r m Pr Hr Hin. unfold lp in Hside. change (Lc ++ [new]) with (Lc ++ new :: []) in Hside.
    rewrite (IB0_get f0 f1 new [] HI1 Pnw) in Hside by constructor.
    assert (Hin0 : fs_get f0 (pa (Lc ++ new :: r)) <> None).
    { rewrite <- (IB0_get f0 f1 new r HI1 Pnw Pr). intros E. apply (proj1 (fs_get_None _ _) E m Hin). }
    destruct (fs_get f0 (pa (Lc ++ new :: [])) ) as [[| |]|] eqn:En.
    - destruct Hside as [_ Hh]. unfold has_children in Hh.
      assert (existsb (fun e0 => under (pa (Lc ++ [new])) (fst e0)) f1 = true); [|congruence].
      apply existsb_exists. exists (pa (Lc ++ new :: r), m). split; [exact Hin|]. cbn [fst].
      apply under_pa; [exact PN|now apply plains_dirty|]. exists r. split; [exact Hr|now rewrite <- app_assoc].
    - subst na. now apply Hside.
    - subst na. now apply Hside.
    - apply Hin0. change (Lc ++ new :: r) with (Lc ++ [new] ++ r). rewrite app_assoc.
      apply (closed_none f0 (Lc ++ [new]) Hcl0 PN); [exact En|exact Pr]. }
  assert (Hdis : forall r, plains r -> at_or_under (pa (Lc ++ [old])) (pa ((Lc ++ [new]) ++ r)) = false).
  { intros r Pr. rewrite <- app_assoc. apply (not_under_other old new r Po Pnw Pr). congruence. }
  split; [|split; [|split; [|split]]].
  - assert (HI1' : IB (Sren K) f0 f1) by (apply (IB_sub [] (Sren K)); [intros ? []|exact HI1]).
    constructor.
    + apply (move_clean (Lc ++ [old]) (Lc ++ [new]) PO PN NE F HF').
    + intros y t Py Ey. apply fs_get_move_cases in Ey as [[_ Ey]|(p & Hp1 & Hp2 & Hp3)].
      * unfold F in Ey. destruct (beq (cfgp y) (lp Lc new)) eqn:E.
        -- apply beq_true in E. rewrite E, fs_get_filter_none in Ey; [discriminate|].
           intros m. unfold not_at. cbn [fst]. now rewrite beq_refl.
        -- rewrite fs_get_filter in Ey; [now apply (ib_nolink _ _ _ HI1 y t)|].
           intros m. unfold not_at. cbn [fst]. now rewrite E.
      * pose proof (fs_get_In _ _ _ Hp3) as Hin. pose proof (HF' _ _ Hin) as Hc.
        apply clean_abs_repr in Hc as (ps & Pp & ->). unfold lp in Hp1.
        apply at_or_under_pa in Hp1 as (r & ->); [|exact PO|exact Pp].
        assert (Pr : plains r) by (apply plains_app in Pp; tauto).
        unfold lp, cfgp in Hp2. rewrite move_target in Hp2 by assumption.
        apply pa_inj in Hp2; [|apply plains_app; now split|apply plains_dirty; [exact Py|exact Plc]].
        rewrite <- app_assoc in Hp2. apply app_inv_head in Hp2. cbn in Hp2. injection Hp2 as <- ->.
        unfold F in Hp3. rewrite fs_get_filter in Hp3.
        -- rewrite <- app_assoc in Hp3. apply (ib_nolink _ _ _ HI1 old t Po Hp3).
        -- intros m. unfold not_at. cbn [fst]. apply negb_true_iff, beq_false. unfold lp. intros E. apply pa_inj in E; auto.
           rewrite <- app_assoc in E. apply app_inv_head in E. discriminate.
    + unfold F, lp. change (Lc ++ [old]) with (Lc ++ old :: []). change (Lc ++ [new]) with (Lc ++ new :: []).
      rewrite (Lpart_rename (Sren K) f1 old [] new []); auto.
      * apply (ib_part _ _ _ HI1').
      * apply (ib_clean _ _ _ HI1).
      * now left.
      * right; now left.
      * constructor.
      * constructor.
  - unfold lp. apply (rename_get_source (Lc ++ [old]) (Lc ++ [new]) PO NE F (cfgp old) HF'); [|exact Hdis].
    unfold cfgp. apply (at_under_same old [lcf] Po Plc).
  - unfold lp, cfgp. change (Lc ++ [new; lcf]) with (Lc ++ [new] ++ [lcf]). change (Lc ++ [old; lcf]) with (Lc ++ [old] ++ [lcf]).
    rewrite !app_assoc. rewrite (rename_get_target (Lc ++ [old]) (Lc ++ [new]) PO PN NE F [lcf] HF' Plc).
    + rewrite <- app_assoc. apply HFg. unfold lp. intros E. apply pa_inj in E; auto.
      * apply app_inv_head in E. discriminate.
      * apply plains_dirty; [exact Po|exact Plc].
    + intros [q m] Hin. apply filter_In in Hin as [Hin _]. cbn [fst]. intros ->.
      rewrite <- app_assoc in Hin. apply (Hfree [lcf] m Plc); [discriminate|exact Hin].
  - intros _. exists Dir. apply in_map_iff. exists (lp Lc old, Dir). split.
    + unfold move_entry. cbn [fst snd].
      assert (Hs : at_or_under (lp Lc old) (lp Lc old) = true) by (unfold at_or_under; now rewrite beq_refl).
      rewrite Hs. f_equal. unfold lp.
      pose proof (move_target (Lc ++ [old]) (Lc ++ [new]) [] PO) as MT. rewrite !app_nil_r in MT.
      apply MT; [constructor|exact NE].
    + apply filter_In. split; [now apply fs_get_In|]. unfold not_at. cbn [fst]. apply negb_true_iff, beq_false.
      unfold lp. intros E. apply pa_inj in E; auto. apply app_inv_head in E. injection E as E. congruence.
  - intros j Pj Hjo Hjn. split.
    + unfold lp. rewrite (rename_get_other (Lc ++ [old]) (Lc ++ [new]) PO PN NE F (cfgp j) HF').
      * apply HFg. unfold cfgp, lp. intros E. apply pa_inj in E; auto.
        -- apply app_inv_head in E. discriminate.
        -- apply plains_dirty; [exact Pj|exact Plc].
      * apply (not_under_other old j [lcf] Po Pj Plc Hjo).
      * apply (not_under_other new j [lcf] Pnw Pj Plc Hjn).
    + intros (m & Hm). exists m. apply in_map_iff. exists (lp Lc j, m). split.
      * unfold move_entry. cbn [fst snd]. unfold lp at 2. change (Lc ++ [j]) with (Lc ++ j :: []).
        rewrite (not_under_other old j [] Po Pj); [reflexivity|constructor|exact Hjo].
      * apply filter_In. split; [exact Hm|]. unfold not_at. cbn [fst]. apply negb_true_iff, beq_false.
        unfold lp. intros E. apply pa_inj in E; auto; [|now apply plains_lp].
        apply app_inv_head in E. injection E as E. congruence.
Qed.

(* state while the children (names [done]) have been retargeted *)
Definition KidSt (K done : list bytes) (f : fsT) : Prop :=
  IB (Sren K) f0 f /\ fs_get f (cfgp old) = None /\ fs_get f (cfgp new) = fs_get f0 (cfgp old) /\
  hasdir new f /\
  forall j, plain j -> j <> old -> j <> new ->
    (hasdir j f0 -> hasdir j f) /\
    (if memb j done then cfgbase f j = Some new else fs_get f (cfgp j) = fs_get f0 (cfgp j)).

(* rewriting one layerconfig inside a dirty directory, on return *)
Lemma write_cfg_post K g l k : IB (Sren K) f0 g -> plain k -> In k (Sren K) ->
  l_path l = layer_path c k -> mounts_ok l ->
  post (fun w => w_fs w = g) (write_layerfile e l)
    (fun _ w' => IB (Sren K) f0 (w_fs w') /\ cfgbase (w_fs w') k = Some (l_base l) /\
                 (hasdir k g -> hasdir k (w_fs w')) /\ frame g k (w_fs w')).
Proof.
  intros HI Pk Hk Ep (Hb & Hm & He). unfold write_layerfile. rewrite (layerconfig_path_eq l k Ep Pk).
  apply (post_write_atomically _ _ (fun x w => Tv1 (Sren K) f0 g k Ptrue x w)); [exact Hnp| | |]; rewrite ?tmp_path_eq.
  - intros w w' Ew E. apply (tv_open (Sren K) f0 g k Ptrue Pk Hk w w'); [|exact E].
    unfold Inv1. rewrite Ew. split; [exact HI|]. split; [exact I|]. split; [auto|]. intros j _ _. split; auto.
  - intros x ch w HT. now apply (tv_append (Sren K) f0 g k Ptrue Pk Hk).
  - intros w w' HT E. destruct (tv_rename (Sren K) f0 g k Ptrue Pk Hk _ w w' HT E) as (H1 & H2 & _ & H3 & H4).
    split; [exact H1|]. split; [|split; assumption]. rewrite H2, layerfile_roundtrip by assumption. reflexivity.
Qed.

Lemma kid_step K done g l k : KidSt K done g -> plain k -> In k K -> k <> old -> k <> new -> l_base l = new ->
  l_path l = layer_path c k -> mounts_ok l ->
  post (fun w => w_fs w = g) (write_layerfile e l) (fun _ w' => KidSt K (done ++ [k]) (w_fs w')).
Proof.
  intros (HI & H1 & H2 & H3 & H4) Pk Hk Hko Hkn Eb Ep Hl.
  eapply post_conseq; [apply (write_cfg_post K g l k HI Pk)| |]; auto.
  { right; now right. }
  intros _ w' (A1 & A2 & A3 & A4). cbv beta.
  destruct (A4 old Po (not_eq_sym Hko)) as [B1 _]. destruct (A4 new Pnw (not_eq_sym Hkn)) as [B2 B3].
  split; [exact A1|]. split; [congruence|]. split; [congruence|]. split; [now apply B3|].
  intros j Pj Hjo Hjn. destruct (H4 j Pj Hjo Hjn) as [C1 C2].
  assert (Em : memb j (done ++ [k]) = memb j done || beq j k).
  { unfold memb. rewrite existsb_app. cbn [existsb]. now rewrite orb_false_r. }
  rewrite Em. destruct (beq j k) eqn:Ejk.
  - apply beq_true in Ejk. subst j. rewrite orb_true_r. split; [intros H; apply A3; now apply C1|].
    now rewrite A2, Eb.
  - apply beq_false in Ejk. rewrite orb_false_r. destruct (A4 j Pj Ejk) as [D1 D2]. split; [intros H; apply D2; now apply C1|].
    destruct (memb j done); [unfold cfgbase in *; now rewrite D1|congruence].
Qed.

Definition FinSt (K : list bytes) (lb : bytes) (f : fsT) : Prop :=
  IB (Sren K) f0 f /\ fs_get f (cfgp old) = None /\ cfgbase f new = Some lb /\ hasdir new f /\
  forall j, plain j -> j <> old -> j <> new ->
    (hasdir j f0 -> hasdir j f) /\
    (if memb j K then cfgbase f j = Some new else fs_get f (cfgp j) = fs_get f0 (cfgp j)).

Lemma self_step K g l : KidSt K K g -> l_path l = layer_path c new -> mounts_ok l ->
  post (fun w => w_fs w = g) (write_layerfile e l) (fun _ w' => FinSt K (l_base l) (w_fs w')).
Proof.
  intros (HI & H1 & H2 & H3 & H4) Ep Hl.
  eapply post_conseq; [apply (write_cfg_post K g l new HI Pnw)| |]; auto.
  { right; now left. }
  intros _ w' (A1 & A2 & A3 & A4). cbv beta.
  destruct (A4 old Po Hon) as [B1 _].
  split; [exact A1|]. split; [congruence|]. split; [exact A2|]. split; [now apply A3|].
  intros j Pj Hjo Hjn. destruct (H4 j Pj Hjo Hjn) as [C1 C2]. destruct (A4 j Pj Hjn) as [D1 D2].
  split; [intros H; apply D2; now apply C1|].
  destruct (memb j K); [unfold cfgbase in *; now rewrite D1|congruence].
Qed.

(* the renamed forest *)
Lemma ren_final K lb f : FinSt K lb f -> gforest (G f0) -> G f0 new = None -> new <> [] -> old <> [] ->
  G f0 old = Some lb -> legal_name new = true ->
  (forall x, memb x K = true <-> G f0 x = Some old) -> (forall k, In k K -> plain k) ->
  gforest (G f).
Proof.
  intros (HI & H1 & H2 & H3 & H4) HG Hfree Hn0' Ho0 Hgo Lnw HK PK.
  clear Hnp Hcl0.     (* boolean facts about e: keep them out of lia's reach, the lemma does not depend on e *)
  apply (gforest_ext (g_ren (G f0) old new)); [|now apply gforest_ren].
  assert (Hloop : G f0 old <> Some old).
  { intros E. destruct (HG _ _ E) as (k & Hk). assert (greach (G f0) old (S k)) by (econstructor; eauto).
    pose proof (greach_det _ _ _ Hk _ H). lia. }
  assert (PS : forall y, In y (Sren K) -> plain y) by (intros y [<-|[<-|Hy]]; auto).
  intros x. unfold g_ren. destruct (beq x new) eqn:E1.
  - apply beq_true in E1. subst x. destruct H3 as (m & Hm).
    rewrite (G_of_cfgbase f new m (ib_clean _ _ _ HI) (ib_nolink _ _ _ HI) Pnw Lnw Hm). congruence.
  - apply beq_false in E1. destruct (beq x old) eqn:E2.
    + apply beq_true in E2. subst x.
      destruct (G_cases f old (ib_clean _ _ _ HI) (ib_nolink _ _ _ HI)) as [E|(_ & _ & _ & E)]; [now rewrite E|].
      rewrite E. unfold cfgbase. now rewrite H1.
    + apply beq_false in E2. destruct (memb x K) eqn:EK.
      * pose proof (proj1 (HK x) EK) as Egx. rewrite Egx. unfold ren. rewrite beq_refl.
        destruct (G_some_child f0 x _ Hc0 Hn0 Egx) as (Px & Lx & Hd & _).
        destruct (H4 x Px E2 E1) as [C1 C2]. rewrite EK in C2. destruct (C1 Hd) as (m & Hm).
        rewrite (G_of_cfgbase f x m (ib_clean _ _ _ HI) (ib_nolink _ _ _ HI) Px Lx Hm). now symmetry.
      * assert (Hx : ~ In x (Sren K)).
        { intros [E|[E|E]]; [congruence|congruence|]. apply memb_In in E. congruence. }
        rewrite (G_out (Sren K) f f0 x (ib_clean _ _ _ HI) Hc0 (ib_nolink _ _ _ HI) Hn0 (ib_part _ _ _ HI) PS Hx).
        destruct (G f0 x) as [bx|] eqn:Egx; [|reflexivity]. f_equal. unfold ren.
        destruct (beq bx old) eqn:E3; [|reflexivity]. apply beq_true in E3. subst bx.
        apply HK in Egx. congruence.
Qed.
End RenameCmd.

Lemma post_renormalize (P : wpred) ld : post P (renormalize ld) (fun _ => P).
Proof.
  unfold renormalize. destruct (normalize_order (ld_map ld)); [apply post_ret; auto|].
  intros s _ HP. exact I.
Qed.

Lemma rename_layer_post f0 e ld old new :
  fs_clean f0 -> nolink f0 -> closed f0 -> e_pretend e = false ->
  LDI (skel (read_layer_files c f0)) ld -> paths_ok c (ld_map ld) -> gforest (G f0) ->
  post (fun w => w_fs w = f0) (rename_layer e c ld old new) (fun _ w' => gforest (G (w_fs w'))).
Proof.
  intros Hc0 Hn0 Hcl0 Hnp [Hs HW] HPa HG. unfold rename_layer.
  apply post_guard_k. intros G0. apply andb_true_iff in G0 as [G1 G2].
  apply test_name_need in G1 as (Ho & Lo & l & El). apply test_name_free in G2 as (Hn & Ln & Hfree). rewrite El.
  apply post_guard_k. intros _. apply post_guard_k. intros _. cbv zeta. apply post_guard_k. intros _.
  set (kids := children_in_order e (ld_map ld) old). set (K := map l_name kids).
  assert (Po : plain old) by now apply legal_plain.
  assert (Pnw : plain new) by now apply legal_plain.
  assert (Hon : old <> new) by (intros <-; congruence).
  assert (Hg : forall x, g_of (ld_map ld) x = G f0 x) by (intros x; now apply skel_g).
  pose proof (lm_get_name _ _ _ El) as Eno. pose proof (lm_get_in _ _ _ El) as Hin.
  assert (Hgo : G f0 old = Some (l_base l)) by (rewrite <- Hg; apply g_of_some; eauto).
  assert (Hgn : G f0 new = None) by (rewrite <- Hg; now apply g_of_none).
  destruct (G_some_child f0 old _ Hc0 Hn0 Hgo) as (_ & _ & Hdo & Hcbo).
  assert (Hcfg : fs_get f0 (cfgp old) <> None).
  { unfold cfgbase in Hcbo. destruct (fs_get f0 (cfgp old)); [discriminate|discriminate]. }
  assert (HBC : bcons (ld_map ld)) by (apply (bcons_skel (read_layer_files c f0)); [now symmetry|apply rlf_bcons]).
  assert (Hloop : G f0 old <> Some old).
  { intros E. destruct (HG _ _ E) as (k & Hk). assert (greach (G f0) old (S k)) by (econstructor; eauto).
    pose proof (greach_det _ _ _ Hk _ H). lia. }
  assert (HK : forall x, memb x K = true <-> G f0 x = Some old).
  { intros x. unfold K. rewrite memb_In, <- Hg. split.
    - intros H. apply in_map_iff in H as (k & <- & Hk). apply kids_sound in Hk as [H1 H2].
      rewrite (HBC k H1). now rewrite H2.
    - intros H. apply g_of_some in H as (k & Ek & Eb). rewrite <- (lm_get_name _ _ _ Ek).
      apply kids_complete; [eapply lm_get_in; eauto|exact Eb]. }
  assert (PK : forall k, In k K -> plain k).
  { intros k Hk. apply memb_In, HK in Hk. now destruct (G_some_child f0 k _ Hc0 Hn0 Hk). }
  assert (Kne : forall k, In k K -> k <> old /\ k <> new).
  { intros k Hk. apply memb_In, HK in Hk. split; intros ->; congruence. }
  (* 1. export links *)
  eapply post_bind with (Q := fun _ w => IB [] f0 (w_fs w)).
  { eapply post_conseq; [apply post_of_hs, (ren_links_step f0 old e Po l Eno)| |]; cbv beta; auto.
    intros w ->. now apply IB_refl. }
  intros _.
  (* 2. the directory *)
  rewrite (HPa l Hin), Eno, (layer_path_eq old Po), (layer_path_eq new Pnw).
  eapply post_bind with (Q := fun _ w => KidSt f0 old new K [] (w_fs w)).
  { apply post_fix_world. intros w1 HI1.
    eapply post_conseq; [apply (ren_dir_post f0 old new e Hcl0 Hnp Po Pnw Hon K (w_fs w1) HI1 Hcfg PK)| |]; cbv beta.
    - intros w ->. reflexivity.
    - intros _ w (A1 & A2 & A3 & A4 & A5). split; [exact A1|]. split; [exact A2|]. split.
      { rewrite A3. unfold cfgp. apply (IB0_get f0 (w_fs w1) old [lcf] HI1 Po). constructor; [apply plain_lcf|constructor]. }
      split; [apply A4; now apply (IB0_hasdir f0)|].
      intros j Pj Hjo Hjn. destruct (A5 j Pj Hjo Hjn) as [B1 B2]. split.
      + intros H. apply B2. now apply (IB0_hasdir f0).
      + cbn [memb existsb]. rewrite B1. unfold cfgp. apply (IB0_get f0 (w_fs w1) j [lcf] HI1 Pj).
        constructor; [apply plain_lcf|constructor]. }
  intros _.
  (* 3. the children *)
  eapply post_bind with (Q := fun _ w => KidSt f0 old new K K (w_fs w)).
  { eapply post_conseq;
      [apply (post_mapM_ (fun done w => KidSt f0 old new K (map l_name done) (w_fs w))
                (fun k => write_layerfile e (set_base k new)) kids)| |]; cbv beta; auto.
    intros done x rest Ek. apply post_fix_world. intros w1 HS1.
    assert (Hxk : In x kids) by (rewrite Ek; apply in_or_app; right; now left).
    assert (HxK : In (l_name x) K) by (unfold K; now apply in_map).
    destruct (Kne _ HxK) as [N1 N2]. destruct (kids_sound _ _ _ _ Hxk) as [Hxm _].
    eapply post_conseq; [apply (kid_step f0 old new e Hnp Po Pnw K (map l_name done) (w_fs w1) (set_base x new) (l_name x) HS1 (PK _ HxK) HxK N1 N2)| |]; cbv beta.
    - reflexivity.
    - cbn [set_base l_path]. apply (HPa x Hxm).
    - destruct (HW x Hxm) as (_ & M1 & M2). split; [|now split]. cbn [set_base l_base]. right. now apply legal_tok.
    - intros w ->. reflexivity.
    - intros _ w H. now rewrite map_app. }
  intros _.
  (* 4. the renamed layer itself *)
  eapply post_bind; [apply post_renormalize|]. intros ld'. cbv beta.
  eapply post_bind with (Q := fun _ w => FinSt f0 old new K (l_base l) (w_fs w)).
  { apply post_fix_world. intros w1 HS1.
    eapply post_conseq; [apply (self_step f0 old new e Hnp Po Pnw Hon K (w_fs w1) (set_name_path l new (lp Lc new)) HS1)| |]; cbv beta.
    - cbn [set_name_path l_path]. now rewrite layer_path_eq.
    - exact (HW l Hin).
    - intros w ->. reflexivity.
    - intros _ w H. exact H. }
  intros _. apply post_ret. intros w HFin.
  now apply (ren_final f0 old new Hc0 Hn0 Po Pnw Hon K (l_base l) (w_fs w) HFin HG Hgn Hn Ho Hgo Ln HK PK).
Qed.

(* ------------------------------------------------------------------ one invocation *)
Definition covered (cmd : command) : bool :=
  match cmd with CInit | CMount _ | CChroot _ | CRename _ _ | CEdit _ _ => false | _ => true end.
(* somebody editing a file by hand is not subject to pretend mode *)
Definition is_edit (cmd : command) : bool := match cmd with CEdit _ _ => true | _ => false end.

Section Invocation.
Variables (e : env) (um : users_map) (s : mst).
Let f0 := w_fs (s_w s).
Hypothesis Hc0 : fs_clean f0.
Hypothesis Hn0 : nolink f0.
Hypothesis Hcl0 : closed f0.
Hypothesis HG : gforest (G f0).

Lemma kmount_same o : match o with OMount _ _ _ _ _ | OUmount _ _ => True | _ => False end ->
  w_fs (s_w (snd ((apply_op o ;;; ret (@None ldefs)) s))) = f0.
Proof.
  intros Ho. unfold bind. rewrite apply_op_eq. unfold wact.
  destruct (op_result o (s_w s)) as [w'|] eqn:E; [|reflexivity]. cbn [snd with_w s_w ret].
  destruct o; try contradiction; cbn [op_result] in E.
  - destruct (kmount _ _ _ _ _ _ _); [|discriminate]. now injection E as <-.
  - destruct (kumount _ _ _); [|discriminate]. now injection E as <-.
Qed.

Lemma sk_has_order ld : normalize_order (read_layer_files c f0) = Some (ld_order ld) ->
  forall n, In n (ld_order ld) -> sk_has (skel (read_layer_files c f0)) n.
Proof. intros HN n Hn. destruct (normalize_names _ _ HN n Hn) as (l & Hl & <-). eapply sk_has_in; eauto. Qed.

Theorem forest_kept_covered cmd : covered cmd = true ->
  gforest (G (w_fs (s_w (snd (run_command e c um cmd s))))).
Proof.
  intros Hcov. destruct cmd; try discriminate; cbn [run_command].
  - (* add *)
    apply (add_final f0 name base Hc0 Hn0); [|exact HG].
    apply (with_layers_keeps (IvAdd f0 name base) um (fun ld => add_layer e c ld name base configfile) s); [now left|].
    intros ld HLD _ _ _. now apply add_layer_keeps.
  - (* remove *)
    apply (rem_final f0 name Hc0 Hn0); [|exact HG].
    apply (with_layers_keeps (IvRem f0 name) um (fun ld => remove_layer e c ld name files) s); [now left|].
    intros ld HLD _ HP _. now apply remove_layer_keeps.
  - (* rebase *)
    apply (reb_final f0 a b0 Hc0 Hn0); [|exact HG].
    apply (with_layers_keeps (IvReb f0 a b0) um (fun ld => rebase_layer e c ld a b0) s); [now left|].
    intros ld HLD _ HP _. now apply rebase_layer_keeps.
  - (* mkdirs *)
    apply (mk_final f0 a Hc0 Hn0); [|exact HG].
    apply (with_layers_keeps (IvMk f0 a) um (fun ld => makedirs e c ld a) s); [now left|].
    intros ld HLD _ HP _. now apply makedirs_keeps.
  - (* umount *)
    assert (H : SameFs f0 (s_w (snd (with_layers c um (fun ld => unmount e c ld a all) s)))).
    { apply with_layers_keeps; [reflexivity|]. intros ld HLD _ _ HN.
      eapply (unmount_hs (SameFs f0) false e); eauto using mntop_samefs, refresh_any, sk_has_order. }
    exact (eq_ind_r (fun f => gforest (G f)) HG H).
  - (* shake *)
    assert (H : SameFs f0 (s_w (snd (with_layers c um (fun ld => shake e c ld) s)))).
    { apply with_layers_keeps; [reflexivity|]. intros ld HLD _ _ HN.
      eapply (shake_hs (SameFs f0) false e); eauto using mntop_samefs. }
    exact (eq_ind_r (fun f => gforest (G f)) HG H).
  - (* probe *)
    assert (H : SameFs f0 (s_w (snd (with_layers c um (fun ld => ret ld) s)))).
    { apply with_layers_keeps; [reflexivity|]. intros ld HLD _ _ HN. now apply hs_ret. }
    exact (eq_ind_r (fun f => gforest (G f)) HG H).
  - rewrite kmount_same; [exact HG|exact I].
  - rewrite kmount_same; [exact HG|exact I].
Qed.

(* a successful rename, operations carried out *)
Theorem forest_kept_rename a b0 : e_pretend e = false ->
  match run_command e c um (CRename a b0) s with
  | (Ret _, s') => gforest (G (w_fs (s_w s')))
  | _ => True
  end.
Proof.
  intros Hnp. cbn [run_command].
  apply (with_layers_post um (fun ld => rename_layer e c ld a b0) s (fun w => gforest (G (w_fs w)))).
  intros ld HLD _ HP _.
  eapply post_conseq; [apply (rename_layer_post f0 e ld a b0 Hc0 Hn0 Hcl0 Hnp HLD HP HG)| |]; cbv beta; auto.
  intros w ->. reflexivity.
Qed.

(* pretend mode: every command leaves the file tree as it is *)
Hypothesis Hnd : NoDup (children f0 (c_layers c)).
Theorem pretend_same cmd : e_pretend e = true -> is_edit cmd = false ->
  w_fs (s_w (snd (run_command e c um cmd s))) = f0.
Proof.
  intros Hp Hne.
  assert (W : forall body,
    (forall sk ld, LDI sk ld -> SKF sk -> (forall n, In n (ld_order ld) -> sk_has sk n) ->
       hs (SameFs f0) false (body ld) (fun _ => True)) ->
    w_fs (s_w (snd (with_layers c um body s))) = f0).
  { intros body Hb. apply (with_layers_keeps (SameFs f0)); [reflexivity|]. intros ld HLD HC _ HN.
    apply (Hb _ ld HLD).
    - apply SKF_of; [now apply check_inh_allreach|now apply rlf_nodup].
    - now apply sk_has_order. }
  pose proof (pretend_op f0 e Hp) as P1. pose proof (pretend_wt f0 e Hp) as P2. pose proof (pretend_wa f0 e Hp) as P3.
  assert (P4 : forall cc sk ld, LDI sk ld ->
            hs (SameFs f0) false (refresh_mounts cc ld) (fun ld' => LDI sk ld' /\ ld_order ld' = ld_order ld))
    by (intros; now apply refresh_any).
  destruct cmd; cbn [run_command].
  - pose proof (hs_state (SameFs f0) (init_base e c) _ s
                 (init_base_hs (SameFs f0) false e (fun o _ => P1 o) P2 c) eq_refl) as H.
    unfold bind. destruct (init_base e c s) as [[u| | | |] s']; exact H.
  - apply W. intros. eapply (add_layer_hs (SameFs f0) false e); eauto.
  - apply W. intros. eapply (remove_layer_hs (SameFs f0) false e); eauto.
  - apply W. intros. eapply (rename_layer_hs (SameFs f0) false e); eauto.
  - apply W. intros. eapply (rebase_layer_hs (SameFs f0) false e); eauto.
  - apply W. intros. eapply hs_weaken; [eapply (makedirs_hs (SameFs f0) false e); eauto|auto].
  - apply W. intros. eapply hs_weaken; [eapply (mount_layer_hs (SameFs f0) false e); eauto|auto].
  - apply W. intros. eapply (unmount_hs (SameFs f0) false e); eauto.
  - apply W. intros. eapply (shake_hs (SameFs f0) false e); eauto.
  - apply W. intros. eapply (chroot_hs (SameFs f0) false e); eauto.
  - apply W. intros. now apply hs_ret.
  - apply kmount_same. exact I.
  - apply kmount_same. exact I.
  - discriminate.
Qed.
End Invocation.

End WithCfg.

(* ------------------------------------------------------------------ init *)
Section InitCmd.
Variables (c : cfgT) (Lc Ec Bc : list bytes).
Hypothesis HLc : plains Lc.
Hypothesis HL : c_layers c = pa Lc.
Hypothesis HEc : plains Ec /\ c_exports c = pa Ec /\ (forall r1 r2, Lc ++ r1 <> Ec ++ r2).
Hypothesis HBc : plains Bc /\ c_base c = pa Bc /\ (forall r, Bc <> Lc ++ r).

Lemma not_under_L ps : plains ps -> (forall r, r <> [] -> ps <> Lc ++ r) -> under (pa Lc) (pa ps) = false.
Proof. intros Pp H. now apply under_L_not. Qed.

Lemma IB_mkdir_outside S f0 f ps f' : IB Lc S f0 f -> plains ps ->
  (forall r t, r <> [] -> ps <> Lc ++ r ++ t) -> mkdir_all f (pa ps) = FOk f' -> IB Lc S f0 f'.
Proof.
  intros [H1 H2 H3] Pp Hout E. apply mkdir_all_shape in E as (new & -> & Hnew).
  assert (Hd : forall q m, In (q, m) (dirs new) -> m = Dir /\ is_clean_abs q = true /\ under (pa Lc) q = false).
  { intros q m Hin. unfold dirs in Hin. apply in_map_iff in Hin as (q' & Eq & Hq'). injection Eq as -> <-.
    split; [reflexivity|]. destruct (Hnew _ Hq') as [Hp _].
    apply prefixes_pa_in in Hp as (i & t & Hi & Ei & ->); [|exact Pp].
    destruct (plains_prefix i t _ Pp Ei) as [Pi _]. split; [apply clean_abs_repr; eauto|].
    apply not_under_L; [exact Pi|]. intros r Hr Eir. apply (Hout r t Hr). now rewrite Ei, Eir, <- app_assoc. }
  constructor.
  - intros q m Hin. apply in_app_or in Hin as [Hin|Hin]; [eapply H1; eauto|]. now apply (Hd q m).
  - intros x t Px. rewrite fs_get_app. destruct (fs_get f (cfgp Lc x)) eqn:E; [rewrite <- E; now apply H2|].
    intros E2. apply fs_get_In in E2. apply Hd in E2 as [E2 _]. discriminate.
  - rewrite <- H3. apply Lpart_app. intros [q m] Hin. unfold Lpred. cbn [fst]. destruct (Hd q m Hin) as (_ & _ & ->). reflexivity.
Qed.
Lemma IB_put_outside S f0 f ps x : IB Lc S f0 f -> plains ps -> under (pa Lc) (pa ps) = false ->
  IB Lc S f0 (f ++ [(pa ps, File x)]) /\ IB Lc S f0 (fs_set f (pa ps) (File x)).
Proof.
  intros [H1 H2 H3] Pp Hu.
  assert (Hcfg : forall y, plain y -> pa ps <> cfgp Lc y).
  { intros y Py E. rewrite E in Hu. unfold cfgp in Hu.
    assert (under (pa Lc) (pa (Lc ++ [y; lcf])) = true); [|congruence].
    apply under_pa; [exact HLc|apply plains_app; split; [exact HLc|constructor; [exact Py|constructor; [apply plain_lcf|constructor]]]|].
    exists [y; lcf]. split; [discriminate|reflexivity]. }
  split; constructor.
  - intros p m Hin. apply in_app_or in Hin as [Hin|[Hin|[]]]; [eapply H1; eauto|]. injection Hin as <- _. apply clean_abs_repr; eauto.
  - intros y t Py. rewrite fs_get_app. destruct (fs_get f (cfgp Lc y)) eqn:E; [rewrite <- E; now apply H2|].
    cbn [fs_get]. destruct (beq _ _); discriminate.
  - rewrite <- H3. apply Lpart_app. intros e [<-|[]]. unfold Lpred. cbn [fst]. now rewrite Hu.
  - intros p m Hin. apply fs_set_In in Hin as [[-> _]|Hin]; [apply clean_abs_repr; eauto|eapply H1; eauto].
  - intros y t Py. rewrite fs_get_set. destruct (beq (pa ps) (cfgp Lc y)) eqn:E; [discriminate|now apply H2].
  - rewrite <- H3. apply Lpart_set. unfold Lpred. cbn [fst]. now rewrite Hu.
Qed.

Lemma plain_skel : plain D_SkeletonLayerconfigFile. Proof. apply plainb_spec. reflexivity. Qed.
Lemma plain_index : plain D_ExportIndexHtmlName. Proof. apply plainb_spec. reflexivity. Qed.

Lemma init_keeps e f0 : hs (fun w => IB Lc [] f0 (w_fs w)) false (init_base e c) (fun _ => True).
Proof.
  destruct HEc as (PE & EE & DE). destruct HBc as (PB & EB & DB).
  unfold init_base. apply hs_get_fs_k. intros f. cbv zeta.
  apply hs_seq.
  { destruct (filter _ _); [now apply hs_ret|]. destruct (_ || _); [apply hs_fail|now apply hs_ret]. }
  apply hs_seq.
  { apply hs_mapM_. intros p Hp. apply filter_In in Hp as [Hp _].
    unfold fs_mkdir. apply hs_true, hoare_do_op. intros w w' HI _ E. cbn [op_result] in E. unfold on_fres in E.
    destruct (mkdir_all (w_fs w) p) as [f'|] eqn:Em; [|discriminate]. injection E as <-. cbn [set_fs w_fs].
    destruct Hp as [<-|[<-|[<-|[]]]].
    - rewrite EB in Em. apply (IB_mkdir_outside [] f0 (w_fs w) Bc f' HI PB); [|exact Em].
      intros r t _ E. apply (DB (r ++ t)). exact E.
    - rewrite HL in Em. apply (IB_mkdir_outside [] f0 (w_fs w) Lc f' HI HLc); [|exact Em].
      intros r t Hr E. apply (f_equal (@length _)) in E. rewrite !app_length in E. destruct r; [congruence|cbn in E; lia].
    - rewrite EE in Em. apply (IB_mkdir_outside [] f0 (w_fs w) Ec f' HI PE); [|exact Em].
      intros r t _ E. apply (DE (r ++ t) []). now rewrite app_nil_r. }
  apply hs_seq.
  { apply hs_mapM_. intros pc Hpc. apply filter_In in Hpc as [Hpc _].
    apply hs_true, hoare_write_text. intros w w' HI _ E. unfold write_result, on_fres in E.
    destruct (write_text (w_fs w) (fst pc) (snd pc)) as [f'|] eqn:Ew; [|discriminate]. injection E as <-. cbn [set_fs w_fs].
    assert (Hp : exists ps, plains ps /\ fst pc = pa ps /\ under (pa Lc) (pa ps) = false).
    { destruct Hpc as [<-|[<-|[]]]; cbn [fst].
      - exists (Bc ++ [D_SkeletonLayerconfigFile]). rewrite EB, pathjoin_pa1; auto using plain_skel.
        split; [apply plains_app; split; [exact PB|constructor; [apply plain_skel|constructor]]|]. split; [reflexivity|].
        apply not_under_L; [apply plains_app; split; [exact PB|constructor; [apply plain_skel|constructor]]|].
        intros r Hr E. destruct r as [|x r'] using rev_ind; [congruence|]. rewrite app_assoc in E.
        apply app_inj_tail in E as [E _]. now apply DB in E.
      - exists (Ec ++ [D_ExportIndexHtmlName]). rewrite EE, pathjoin_pa1; auto using plain_index.
        split; [apply plains_app; split; [exact PE|constructor; [apply plain_index|constructor]]|]. split; [reflexivity|].
        apply not_under_L; [apply plains_app; split; [exact PE|constructor; [apply plain_index|constructor]]|].
        intros r Hr E. destruct r as [|x r'] using rev_ind; [congruence|]. rewrite app_assoc in E.
        apply app_inj_tail in E as [E _]. apply (DE r' []). now rewrite app_nil_r. }
    destruct Hp as (ps & Pp & Ep & Hu). rewrite Ep in Ew.
    apply write_text_shape in Ew as [[_ ->]|(o & _ & ->)]; now apply IB_put_outside. }
  destruct (filter (fun pc => is_file f (fst pc)) _); [|apply hs_fail].
  destruct (filter (fun p => negb (is_dir f p)) _); [|now apply hs_ret].
  destruct (filter (fun pc => negb (is_file f (fst pc))) _); [apply hs_fail|now apply hs_ret].
Qed.

Lemma init_kept e um s : fs_clean (w_fs (s_w s)) -> nolink Lc (w_fs (s_w s)) -> gforest (G c (w_fs (s_w s))) ->
  gforest (G c (w_fs (s_w (snd (run_command e c um CInit s))))).
Proof.
  intros Hc0 Hn0 HG. cbn [run_command].
  assert (H : IB Lc [] (w_fs (s_w s)) (w_fs (s_w (snd ((init_base e c ;;; ret (@None ldefs)) s))))).
  { pose proof (hs_state (fun w => IB Lc [] (w_fs (s_w s)) (w_fs w)) (init_base e c) _ s (init_keeps e _) (IB_refl Lc [] _ Hc0 Hn0)) as H.
    unfold bind. destruct (init_base e c s) as [[u| | | |] s']; exact H. }
  apply (gforest_ext (G c (w_fs (s_w s)))); [|exact HG]. intros x. symmetry.
  apply (G_out c Lc HLc HL []); auto.
  - apply (ib_clean _ _ _ _ H).
  - apply (ib_nolink _ _ _ _ H).
  - apply (ib_part _ _ _ _ H).
  - intros y [].
Qed.
End InitCmd.

(* ------------------------------------------------------------------ the decidable hypotheses *)
Definition relokb (r : bytes) : bool := forallb plainb (psplit r).
Definition cfg_ok (c : cfgT) : bool :=
  is_clean_abs (c_layers c) && is_clean_abs (c_exports c)
  && negb (at_or_under (c_layers c) (c_exports c)) && negb (at_or_under (c_exports c) (c_layers c))
  && relokb (c_buildroot c) && relokb (c_work c) && relokb (c_upper c)
  && relokb (c_exp_binpkg c) && relokb (c_exp_gen c)
  && is_clean_abs (c_base c) && negb (at_or_under (c_layers c) (c_base c)).
Definition is_cfg_path (c : cfgT) (p : bytes) : bool :=
  beq (pathdir (pathdir p)) (c_layers c) && beq (pathbase p) D_LayerconfigFile.
Definition fs_ok (c : cfgT) (f : fsT) : bool :=
  forallb (fun e => is_clean_abs (fst e)) f
  && forallb (fun e => match snd e with Link _ => negb (is_cfg_path c (fst e)) | _ => true end) f
  && forallb (fun e => beq (fst e) root || match fs_get f (pathdir (fst e)) with Some Dir => true | _ => false end) f.

Lemma relokb_spec r : relokb r = true -> exists rs, plains rs /\ rs <> [] /\ r = pjoin rs.
Proof.
  intros H. exists (psplit r). split; [|split].
  - apply Forall_forall. intros x Hx. apply plainb_spec. unfold relokb in H. rewrite forallb_forall in H. auto.
  - apply split_acc_nonempty.
  - unfold pjoin, psplit. now rewrite join_split.
Qed.

Lemma cfg_ok_spec c : cfg_ok c = true ->
  exists Lc bsr wsr usr Ec bpr gpr Bc,
    plains Lc /\ c_layers c = pa Lc /\
    (plains bsr /\ bsr <> [] /\ c_buildroot c = pjoin bsr) /\
    (plains wsr /\ wsr <> [] /\ c_work c = pjoin wsr) /\
    (plains usr /\ usr <> [] /\ c_upper c = pjoin usr) /\
    (plains Ec /\ c_exports c = pa Ec /\ (forall r1 r2, Lc ++ r1 <> Ec ++ r2)) /\
    (plains bpr /\ bpr <> [] /\ c_exp_binpkg c = pjoin bpr) /\
    (plains gpr /\ gpr <> [] /\ c_exp_gen c = pjoin gpr) /\
    (plains Bc /\ c_base c = pa Bc /\ (forall r, Bc <> Lc ++ r)).
Proof.
  unfold cfg_ok. rewrite !andb_true_iff.
  intros ((((((((((H1 & H2) & H3) & H4) & H5) & H6) & H7) & H8) & H9) & H10) & H11).
  apply clean_abs_repr in H1 as (Lc & PL & EL). apply clean_abs_repr in H2 as (Ec & PE & EE).
  apply clean_abs_repr in H10 as (Bc & PB & EB).
  destruct (relokb_spec _ H5) as (bsr & B). destruct (relokb_spec _ H6) as (wsr & W).
  destruct (relokb_spec _ H7) as (usr & U). destruct (relokb_spec _ H8) as (bpr & BP). destruct (relokb_spec _ H9) as (gpr & GP).
  exists Lc, bsr, wsr, usr, Ec, bpr, gpr, Bc. repeat (split; [assumption|]). split; [|split; [assumption|split; [assumption|]]].
  - split; [exact PE|]. split; [exact EE|]. intros r1 r2 E.
    apply negb_true_iff in H3, H4. rewrite EL, EE in H3, H4.
    destruct (list_prefix_comparable _ _ _ _ E) as [(r & Er)|(r & Er)].
    + assert (at_or_under (pa Lc) (pa Ec) = true); [|congruence]. apply at_or_under_pa; auto. now exists r.
    + assert (at_or_under (pa Ec) (pa Lc) = true); [|congruence]. apply at_or_under_pa; auto. now exists r.
  - split; [exact PB|]. split; [exact EB|]. intros r E. apply negb_true_iff in H11. rewrite EL, EB in H11.
    assert (at_or_under (pa Lc) (pa Bc) = true); [|congruence]. apply at_or_under_pa; auto. now exists r.
Qed.

Lemma fs_ok_spec c Lc f : plains Lc -> c_layers c = pa Lc -> fs_ok c f = true ->
  fs_clean f /\ nolink Lc f /\ closed f.
Proof.
  intros PL EL. unfold fs_ok. rewrite !andb_true_iff, !forallb_forall. intros ((H1 & H2) & H3). split; [|split].
  - intros p n Hin. exact (H1 _ Hin).
  - intros x t Px Eg. apply fs_get_In in Eg. specialize (H2 _ Eg). cbn [fst snd] in H2.
    apply negb_true_iff in H2. unfold is_cfg_path, cfgp in H2.
    change (Lc ++ [x; lcf]) with (Lc ++ [x] ++ [lcf]) in H2. rewrite app_assoc in H2.
    assert (PX : plains (Lc ++ [x])) by (apply plains_app; split; [exact PL|constructor; [exact Px|constructor]]).
    rewrite pathdir_pa, pathdir_pa, pathbase_pa, EL, !beq_refl in H2; auto using plain_lcf. discriminate.
  - intros p n Hin Hr. specialize (H3 _ Hin). cbn [fst] in H3. apply orb_true_iff in H3 as [H3|H3].
    + apply beq_true in H3. contradiction.
    + destruct (fs_get f (pathdir p)) as [[| |]|]; try discriminate. reflexivity.
Qed.

Definition in_scope (e : env) (cmd : command) (res : rclass) : bool :=
  covered cmd || (e_pretend e && negb (is_edit cmd))
  || match cmd, res with CRename _ _, ROk => true | CInit, _ => true | _, _ => false end.

Theorem forest_preserved_run e c um cmd s :
  cfg_ok c = true -> fs_ok c (w_fs (s_w s)) = true ->
  LC.nodup_paths (children (w_fs (s_w s)) (c_layers c)) = true ->
  in_scope e cmd (rclass_of (fst (run_command e c um cmd s))) = true ->
  C02.forest_ok c (w_fs (s_w s)) = true ->
  C02.forest_ok c (w_fs (s_w (snd (run_command e c um cmd s)))) = true.
Proof.
  intros Hcfg Hfs Hnd Hsc HF.
  destruct (cfg_ok_spec c Hcfg) as (Lc & bsr & wsr & usr & Ec & bpr & gpr & Bc & PL & EL & HB & HW & HU & HE & HBP & HGP & HBC).
  destruct (fs_ok_spec c Lc _ PL EL Hfs) as (Hc0 & Hn0 & Hcl0).
  apply (forest_ok_iff c) in HF. apply (forest_ok_iff c).
  unfold in_scope in Hsc. apply orb_true_iff in Hsc as [Hsc|Hsc]; [apply orb_true_iff in Hsc as [Hsc|Hsc]|].
  - now apply (forest_kept_covered c Lc PL EL bsr wsr usr HB HW HU Ec bpr gpr HE HBP HGP e um s Hc0 Hn0 Hcl0 HF cmd).
  - apply andb_true_iff in Hsc as [Hsc Hne]. apply negb_true_iff in Hne.
    rewrite (pretend_same c e um s (nodup_paths_NoDup _ Hnd) cmd Hsc Hne). exact HF.
  - destruct cmd; try discriminate.
    { now apply (init_kept c Lc Ec Bc PL EL HE HBC e um s Hc0 Hn0 HF). }
    destruct (e_pretend e) eqn:Hp.
    + rewrite (pretend_same c e um s (nodup_paths_NoDup _ Hnd) (CRename a b0) Hp eq_refl). exact HF.
    + pose proof (forest_kept_rename c Lc PL EL bsr wsr usr HB HW HU Ec bpr gpr HE HBP HGP e um s Hc0 Hn0 Hcl0 HF a b0 Hp) as H.
      destruct (run_command e c um (CRename a b0) s) as [[r| | | |] s']; try discriminate. exact H.
Qed.

(* ------------------------------------------------------------------ the frame lemma *)
(* A fresh FindLayers depends only on the names directly under the layers directory and on what
   stat / read of their layerconfig files return. *)
Definition cfg_file (c : cfgT) (f : fsT) (n : bytes) : option bytes :=
  let p := pathjoin [layer_path c n; D_LayerconfigFile] in if is_file f p then read_file f p else None.
Lemma load_layer_cfg_file c f f' n : cfg_file c f n = cfg_file c f' n -> load_layer c f n = load_layer c f' n.
Proof. unfold cfg_file, load_layer. cbv zeta. intros ->. reflexivity. Qed.
Theorem frame_lookup c f f' :
  (forall n, memb n (children f (c_layers c)) = memb n (children f' (c_layers c))) ->
  (forall n, legal_name n = true -> cfg_file c f n = cfg_file c f' n) ->
  forall n, lm_get (read_layer_files c f) n = lm_get (read_layer_files c f') n.
Proof.
  intros H1 H2 n. rewrite !rlf_get, H1. destruct (legal_name n) eqn:E; [|now rewrite !andb_false_r].
  rewrite (load_layer_cfg_file c f f' n (H2 n E)). reflexivity.
Qed.
Theorem frame_forest_ok c f f' :
  (forall n, memb n (children f (c_layers c)) = memb n (children f' (c_layers c))) ->
  (forall n, legal_name n = true -> cfg_file c f n = cfg_file c f' n) ->
  C02.forest_ok c f = C02.forest_ok c f'.
Proof.
  intros H1 H2. pose proof (frame_lookup c f f' H1 H2) as HL.
  assert (E : forall x, G c f x = G c f' x) by (intros x; unfold G, g_of; now rewrite HL).
  destruct (C02.forest_ok c f) eqn:A, (C02.forest_ok c f') eqn:B; try reflexivity.
  - apply forest_ok_iff in A. assert (C02.forest_ok c f' = true); [|congruence].
    apply forest_ok_iff. eapply gforest_ext; [exact E|exact A].
  - apply forest_ok_iff in B. assert (C02.forest_ok c f = true); [|congruence].
    apply forest_ok_iff. eapply gforest_ext; [intros x; symmetry; apply E|exact B].
Qed.
