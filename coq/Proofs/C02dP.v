(* C02 (d): the exact effect of a successful rebase (operations carried out). *)
From LC Require Import Lib.Bytes Lib.Lex Lib.Fields Lib.PathM Model.Config Gen.Consts
  Model.MountInfo Model.FsTree Model.Kernel Model.Layers Cases.Verdict Cases.LC Cases.C02
  Proofs.PathP Proofs.PathCP Proofs.C02FsP Proofs.MountInfoP Proofs.C02MonadP Proofs.C02ForestP Proofs.C02KernelP
  Proofs.RoundtripP Proofs.C02LayersP Proofs.C02aP Proofs.C02bP Proofs.C02cP.
Local Open Scope nat_scope.

Lemma fs_set_app_new f p n n' : fs_get f p = None -> fs_set (f ++ [(p, n)]) p n' = f ++ [(p, n')].
Proof.
  induction f as [|[q m] r IH]; cbn [fs_get app fs_set].
  - intros _. now rewrite beq_refl.
  - destruct (beq q p); [discriminate|]. intros H. now rewrite IH.
Qed.
Lemma nodup_fs_get f p nd : NoDup (map fst f) -> In (p, nd) f -> fs_get f p = Some nd.
Proof.
  induction f as [|[q m] r IH]; cbn [map fst fs_get]; [intros _ []|]. intros ND [E|Hin].
  - injection E as -> ->. now rewrite beq_refl.
  - inversion ND as [|? ? Hq Hr]; subst. destruct (beq q p) eqn:E.
    + apply beq_true in E. subst q. exfalso. apply Hq. apply (in_map fst) in Hin. exact Hin.
    + now apply IH.
Qed.
Lemma map_id_on {A} (g : A -> A) l : (forall x, In x l -> g x = x) -> map g l = l.
Proof.
  induction l as [|x r IH]; cbn; [reflexivity|]. intros H. rewrite (H x) by now left. f_equal. apply IH.
  intros y Hy. apply H. now right.
Qed.
Lemma nmount_beq_refl m : nmount_beq m m = true.
Proof. unfold nmount_beq. now rewrite !beq_refl. Qed.
Lemma lf_beq_refl' b ms es e1 e2 : C02.lf_beq (MkLF b ms es e1) (MkLF b ms es e2) = true.
Proof.
  unfold C02.lf_beq. cbn [lf_base lf_mounts lf_exports]. rewrite beq_refl.
  now rewrite !(list_beq_refl' nmount_beq nmount_beq_refl).
Qed.

Lemma read_file_exists f p x : read_file f p = Some x -> fs_get f p <> None.
Proof.
  unfold read_file, stat.
  change (stat_fuel 8 f p) with (match fs_get f p with Some (Link t) => stat_fuel 7 f (link_target p t) | y => y end).
  destruct (fs_get f p); [discriminate|]. intros H. discriminate H.
Qed.

Section D.
Variable c : cfgT.
Variable Lc : list bytes.
Hypothesis HLc : plains Lc.
Hypothesis HL : c_layers c = pa Lc.

Lemma tmpp_not_root n : plain n -> beq (tmpp Lc n) root = false.
Proof.
  intros Pn. apply beq_false. unfold tmpp. intros E. apply (pa_root_iff (Lc ++ [n; lcf ++ tmp_suffix])) in E.
  - destruct Lc; discriminate.
  - apply plains_dirty; [exact HLc|exact Pn|constructor; [apply plain_lcf_tmp|constructor]].
Qed.

(* the temporary-file protocol, exactly *)
Definition wr (p X : bytes) (f : fsT) : fsT := filter (not_at p) f ++ [(p, File X)].
Definition chunks_of (l : layer) : bytes := concat (layerfile_chunks (l_base l) (l_mounts l) (l_exports l)).

Lemma write_cfg_exact_gen e l a f0 : e_pretend e = false -> plain a -> l_path l = layer_path c a ->
  (forall e0, In e0 f0 -> at_or_under (tmpp Lc a) (fst e0) = false) ->
  post (fun w => w_fs w = f0) (write_layerfile e l) (fun _ w' => w_fs w' = wr (cfgp Lc a) (chunks_of l) f0).
Proof.
  intros Hnp Pa Ep Hno.
  assert (Htmp : fs_get f0 (tmpp Lc a) = None).
  { destruct (fs_get f0 (tmpp Lc a)) as [m|] eqn:E; [|reflexivity]. apply fs_get_In in E. apply Hno in E.
    cbn [fst] in E. unfold at_or_under in E. now rewrite beq_refl in E. }
  unfold write_layerfile. rewrite (layerconfig_path_eq c Lc HLc HL l a Ep Pa).
  apply (post_write_atomically _ _ (fun x w => w_fs w = f0 ++ [(tmpp Lc a, File x)])); [exact Hnp| | |];
    rewrite ?tmp_path_eq.
  - intros w w' Ew E. cbn [op_result] in E. unfold on_fres in E. rewrite Ew in E.
    destruct (open_trunc f0 (tmpp Lc a)) as [f'|] eqn:Eo; [|discriminate]. injection E as <-. cbn [set_fs w_fs].
    apply open_trunc_shape in Eo as [[_ ->]|(o & Eg & _)]; [reflexivity|congruence].
  - intros x ch w Ew. cbn [set_fs w_fs]. rewrite Ew. unfold append_file, lstat.
    rewrite fs_get_app, Htmp. cbn [fs_get]. rewrite beq_refl. now apply fs_set_app_new.
  - intros w w' Ew E. cbn [op_result] in E. unfold on_fres in E. rewrite Ew in E.
    destruct (rename _ (tmpp Lc a) (cfgp Lc a)) as [f'|] eqn:Er; [|discriminate]. injection E as <-. cbn [set_fs w_fs].
    apply rename_shape in Er as [[E _]|(na & _ & _ & -> & _)]; [now apply (tmpp_ne_cfgp Lc HLc a Pa) in E|].
    unfold wr, chunks_of. rewrite filter_app, map_app. f_equal.
    + apply map_id_on. intros [p m] Hin. apply filter_In in Hin as [Hin _]. unfold move_entry. cbn [fst snd].
      pose proof (Hno _ Hin) as Hn'. cbn [fst] in Hn'. now rewrite Hn'.
    + cbn [filter]. unfold not_at at 1. cbn [fst]. assert (beq (tmpp Lc a) (cfgp Lc a) = false) as ->.
      { apply beq_false. now apply tmpp_ne_cfgp. }
      cbn [negb map]. unfold move_entry. cbn [fst snd]. unfold at_or_under at 1. rewrite beq_refl. cbn [orb].
      unfold rel_suffix. rewrite (tmpp_not_root a Pa), skipn_all, app_nil_r. reflexivity.
Qed.

(* the same protocol when a temporary file left by an interrupted run may be in the way: it is
   truncated, filled and renamed into place like a fresh one.  What the tree looks like afterwards,
   by lookups and membership. *)
Definition no_under (p : bytes) (f : fsT) : Prop := forall e0, In e0 f -> under p (fst e0) = false.
Definition tmp_ok (a : bytes) (f : fsT) : Prop :=
  fs_get f (tmpp Lc a) = None \/ exists o, fs_get f (tmpp Lc a) = Some (File o).
Record cfg_written (a X : bytes) (f0 f' : fsT) : Prop := mkCW {
  cw_cfg : fs_get f' (cfgp Lc a) = Some (File X);
  cw_other : forall q, q <> cfgp Lc a -> q <> tmpp Lc a -> fs_get f' q = fs_get f0 q;
  cw_in : forall q nd, In (q, nd) f' -> q = cfgp Lc a \/ (q <> tmpp Lc a /\ In (q, nd) f0);
  cw_keep : forall q nd, In (q, nd) f0 -> q <> cfgp Lc a -> q <> tmpp Lc a -> In (q, nd) f';
  cw_nu : no_under (tmpp Lc a) f0;
  cw_tmp : tmp_ok a f0 }.

Lemma closed_file_none f ds x : closed f -> plains ds -> fs_get f (pa ds) = Some (File x) ->
  forall r, plains r -> r <> [] -> fs_get f (pa (ds ++ r)) = None.
Proof.
  intros HC Pd Hn r. induction r as [|y r IH] using rev_ind; intros Pr Hr; [congruence|].
  apply plains_app in Pr as [Pr Py]. inversion Py as [|? ? Py' _]; subst.
  destruct (fs_get f (pa (ds ++ r ++ [y]))) as [m|] eqn:E; [|reflexivity]. exfalso.
  apply fs_get_In in E.
  assert (Hnr : pa (ds ++ r ++ [y]) <> root).
  { intros E2. apply (pa_root_iff (ds ++ r ++ [y])) in E2.
    - destruct ds; [destruct r|]; discriminate.
    - apply plains_app. split; [exact Pd|]. apply plains_app. split; [exact Pr|exact Py]. }
  pose proof (HC _ _ E Hnr) as E3.
  rewrite app_assoc, pathdir_pa in E3; [|apply plains_app; now split|exact Py'].
  destruct r as [|z r']; [rewrite app_nil_r in E3; congruence|].
  rewrite IH in E3; [discriminate|exact Pr|discriminate].
Qed.

Lemma no_under_tmp a f0 : plain a -> fs_clean f0 -> closed f0 ->
  (fs_get f0 (tmpp Lc a) = None \/ exists o, fs_get f0 (tmpp Lc a) = Some (File o)) -> no_under (tmpp Lc a) f0.
Proof.
  intros Pa Hc0 Hcl0 Ht [p m] Hin. cbn [fst]. destruct (under (tmpp Lc a) p) eqn:Eu; [|reflexivity]. exfalso.
  pose proof (Hc0 _ _ Hin) as Hp. apply clean_abs_repr in Hp as (ps & Pp & ->).
  assert (PT : plains (Lc ++ [a; lcf ++ tmp_suffix])).
  { apply plains_dirty; [exact HLc|exact Pa|constructor; [apply plain_lcf_tmp|constructor]]. }
  unfold tmpp in Eu. apply under_pa in Eu as (r & Hr & ->); [|exact PT|exact Pp].
  assert (Pr : plains r) by (apply plains_app in Pp as [_ Pp]; exact Pp).
  assert (En : fs_get f0 (pa ((Lc ++ [a; lcf ++ tmp_suffix]) ++ r)) = None).
  { destruct Ht as [Ht|(o & Ht)]; [now apply closed_none|now apply (closed_file_none f0 _ o)]. }
  apply (proj1 (fs_get_None _ _) En m Hin).
Qed.

Lemma write_cfg_lookup_gen e l a f0 : e_pretend e = false -> plain a -> l_path l = layer_path c a ->
  (tmp_ok a f0 -> no_under (tmpp Lc a) f0) ->
  post (fun w => w_fs w = f0) (write_layerfile e l) (fun _ w' => cfg_written a (chunks_of l) f0 (w_fs w')).
Proof.
  intros Hnp Pa Ep Hnu. unfold write_layerfile. rewrite (layerconfig_path_eq c Lc HLc HL l a Ep Pa).
  assert (Htc : (tmpp Lc a) <> (cfgp Lc a)) by (apply tmpp_ne_cfgp; assumption).
  apply (post_write_atomically _ _ (fun x w =>
           (tmp_ok a f0 /\ no_under (tmpp Lc a) f0) /\ fs_get (w_fs w) (tmpp Lc a) = Some (File x) /\
           (forall q, q <> (tmpp Lc a) -> fs_get (w_fs w) q = fs_get f0 q) /\
           (forall q nd, q <> (tmpp Lc a) -> In (q, nd) (w_fs w) <-> In (q, nd) f0)));
    [exact Hnp| | |]; rewrite ?tmp_path_eq.
  - intros w w' Ew E. cbn [op_result] in E. unfold on_fres in E. rewrite Ew in E.
    destruct (open_trunc f0 (tmpp Lc a)) as [f'|] eqn:Eo; [|discriminate]. injection E as <-. cbn [set_fs w_fs].
    apply open_trunc_shape in Eo as [[Eg ->]|(o & Eg & ->)].
    + assert (Hok : tmp_ok a f0) by now left.
      split; [split; [exact Hok|now apply Hnu]|]. split; [rewrite fs_get_app, Eg; cbn [fs_get]; now rewrite beq_refl|]. split.
      * intros q Hq. rewrite fs_get_app. destruct (fs_get f0 q); [reflexivity|]. cbn [fs_get].
        destruct (beq (tmpp Lc a) q) eqn:E; [apply beq_true in E; congruence|reflexivity].
      * intros q nd Hq. split.
        -- intros Hin. apply in_app_or in Hin as [Hin|[Hin|[]]]; [exact Hin|]. injection Hin as <- _. congruence.
        -- intros Hin. apply in_or_app. now left.
    + assert (Hok : tmp_ok a f0) by (right; eauto).
      split; [split; [exact Hok|now apply Hnu]|]. split; [rewrite fs_get_set; now rewrite beq_refl|]. split.
      * intros q Hq. rewrite fs_get_set. destruct (beq (tmpp Lc a) q) eqn:E; [apply beq_true in E; congruence|reflexivity].
      * intros q nd Hq. split.
        -- intros Hin. apply fs_set_In in Hin as [[-> _]|Hin]; [congruence|exact Hin].
        -- intros Hin. now apply fs_set_In_other.
  - intros x ch w (H0 & H1 & H2 & H3). cbn [set_fs w_fs]. unfold append_file, lstat. rewrite H1.
    split; [exact H0|]. split; [rewrite fs_get_set; now rewrite beq_refl|]. split.
    + intros q Hq. rewrite fs_get_set. destruct (beq (tmpp Lc a) q) eqn:E; [apply beq_true in E; congruence|now apply H2].
    + intros q nd Hq. rewrite <- (H3 q nd Hq). split.
      * intros Hin. apply fs_set_In in Hin as [[-> _]|Hin]; [congruence|exact Hin].
      * intros Hin. now apply fs_set_In_other.
  - intros w w' ((Hok & H0) & H1 & H2 & H3) E. cbn [op_result] in E. unfold on_fres in E.
    destruct (rename (w_fs w) (tmpp Lc a) (cfgp Lc a)) as [f'|] eqn:Er; [|discriminate]. injection E as <-. cbn [set_fs w_fs].
    apply rename_shape in Er as [[E _]|(na & _ & _ & -> & _)]; [contradiction|].
    set (F := filter (not_at (cfgp Lc a)) (w_fs w)).
    assert (HF : forall q, q <> (cfgp Lc a) -> fs_get F q = fs_get (w_fs w) q).
    { intros q Hq. apply fs_get_filter. intros m. unfold not_at. cbn [fst]. now apply negb_true_iff, beq_false. }
    assert (Hau : forall e0, In e0 F -> at_or_under (tmpp Lc a) (fst e0) = true -> fst e0 = (tmpp Lc a)).
    { intros [q m] Hin Ha. cbn [fst] in *. apply filter_In in Hin as [Hin _]. unfold at_or_under in Ha.
      apply orb_true_iff in Ha as [Ha|Ha]; [now apply beq_true in Ha|]. exfalso.
      destruct (beq q (tmpp Lc a)) eqn:Eq; [apply beq_true in Eq; subst q; unfold under in Ha|].
      - rewrite (tmpp_not_root a Pa) in Ha. apply prefixb_spec in Ha as (t & Et).
        apply (f_equal (@length _)) in Et. rewrite !app_length in Et. cbn in Et. lia.
      - apply beq_false in Eq. pose proof (H0 (q, m) (proj1 (H3 q m Eq) Hin)) as Hn. cbn [fst] in Hn. congruence. }
    assert (Hsfx : rel_suffix (tmpp Lc a) (tmpp Lc a) = []).
    { unfold rel_suffix. rewrite (tmpp_not_root a Pa). apply skipn_all. }
    constructor.
    + rewrite <- (app_nil_r (cfgp Lc a)) at 2. rewrite <- Hsfx. rewrite fs_get_move_in.
      * rewrite HF by exact Htc. exact H1.
      * unfold at_or_under. now rewrite beq_refl.
      * intros e0 Hin Ha _. now apply Hau.
      * intros [q m] Hin _. cbn [fst]. rewrite Hsfx, app_nil_r. apply filter_In in Hin as [_ Hin].
        unfold not_at in Hin. cbn [fst] in Hin. now apply negb_true_iff, beq_false in Hin.
    + intros q Hq1 Hq2. destruct (under (tmpp Lc a) q) eqn:Hq3.
      * (* nothing lives below the temporary name, before or after *)
        rewrite fs_get_move_src.
        -- symmetry. apply fs_get_None. intros n Hin. pose proof (H0 _ Hin) as Hn. cbn [fst] in Hn. congruence.
        -- unfold at_or_under. now rewrite Hq3, orb_true_r.
        -- intros e0 Hin Ha. rewrite (Hau e0 Hin Ha), Hsfx, app_nil_r. congruence.
      * rewrite fs_get_move_out.
        -- rewrite HF by exact Hq1. now apply H2.
        -- intros e0 Hin Ha. rewrite (Hau e0 Hin Ha), Hsfx, app_nil_r. congruence.
        -- unfold at_or_under. rewrite Hq3, orb_false_r. now apply beq_false.
    + intros q nd Hin. apply in_map_iff in Hin as ([p m] & E & Hin). unfold move_entry in E. cbn [fst snd] in E.
      destruct (at_or_under (tmpp Lc a) p) eqn:Ea.
      * left. pose proof (Hau (p, m) Hin Ea) as Ep'. cbn [fst] in Ep'. subst p. rewrite Hsfx, app_nil_r in E. now injection E as <- _.
      * injection E as <- <-. right. apply filter_In in Hin as [Hin _].
        assert (p <> (tmpp Lc a)) by (intros ->; unfold at_or_under in Ea; now rewrite beq_refl in Ea).
        split; [assumption|now apply H3].
    + intros q nd Hin Hq1 Hq2. apply in_map_iff. exists (q, nd). split.
      * unfold move_entry. cbn [fst snd]. destruct (at_or_under (tmpp Lc a) q) eqn:Ea; [|reflexivity]. exfalso.
        unfold at_or_under in Ea. apply orb_true_iff in Ea as [Ea|Ea]; [apply beq_true in Ea; congruence|].
        pose proof (H0 _ Hin) as Hn. cbn [fst] in Hn. congruence.
      * apply filter_In. split; [now apply H3|]. unfold not_at. cbn [fst]. now apply negb_true_iff, beq_false.
    + exact H0.
    + exact Hok.
Qed.

Lemma write_cfg_lookup e l a f0 : e_pretend e = false -> plain a -> l_path l = layer_path c a ->
  fs_clean f0 -> closed f0 ->
  post (fun w => w_fs w = f0) (write_layerfile e l) (fun _ w' => cfg_written a (chunks_of l) f0 (w_fs w')).
Proof. intros Hnp Pa Ep Hc0 Hcl0. apply write_cfg_lookup_gen; auto. intros Hok. now apply no_under_tmp. Qed.

Lemma rebase_exact_final f0 f' a b content ms es :
  NoDup (map fst f0) -> plain a -> read_file f0 (cfgp Lc a) = Some content ->
  ms = lf_mounts (read_layerfile content) -> es = lf_exports (read_layerfile content) ->
  (b = [] \/ tok_ok b) -> Forall canon_m ms -> Forall canon_e es ->
  cfg_written a (concat (layerfile_chunks b ms es)) f0 f' ->
  C02.rebase_exact c f0 f' a b = true.
Proof.
  intros ND Pa Hrd Ems Ees Hb Hm He [G1 G2 G3 _ Hnu _]. unfold C02.rebase_exact. fold lcf.
  rewrite (cfg_path_eq c Lc HLc HL a Pa), tmp_path_eq.
  set (cfg := cfgp Lc a) in *. set (X := concat (layerfile_chunks b ms es)) in *.
  assert (Hex : fs_get f0 cfg <> None) by (apply (read_file_exists f0 cfg content); exact Hrd).
  apply andb_true_iff. split; [apply andb_true_iff; split|].
  - apply forallb_forall. intros [p nd] Hin. cbn [fst snd]. destruct (beq p cfg) eqn:E; [reflexivity|].
    destruct (beq p (tmpp Lc a)) eqn:E2; [reflexivity|]. cbn [orb]. apply beq_false in E, E2.
    rewrite G2; [|exact E|exact E2].
    rewrite (nodup_fs_get f0 p nd ND Hin). cbn [opt_beq]. apply node_beq_refl.
  - apply forallb_forall. intros [p nd] Hin. cbn [fst]. unfold exists_, lstat.
    apply G3 in Hin as [->|[_ Hin]].
    + destruct (fs_get f0 cfg); [reflexivity|congruence].
    + destruct (fs_get f0 p) eqn:E; [reflexivity|]. exfalso. apply (proj1 (fs_get_None _ _) E nd Hin).
  - unfold C02.lfile_at. fold cfg in Hrd. rewrite Hrd.
    assert (Hrd' : read_file f' cfg = Some X).
    { unfold read_file. rewrite stat_nolink; [now rewrite G1|]. intros t. rewrite G1. discriminate. }
    rewrite Hrd'. unfold X. rewrite layerfile_roundtrip by assumption. unfold C02.with_base. subst ms es.
    apply lf_beq_refl'.
Qed.

Lemma rebase_exact_post f0 e ld a b :
  fs_clean f0 -> nolink Lc f0 -> closed f0 -> NoDup (map fst f0) -> e_pretend e = false ->
  LDI (skel (read_layer_files c f0)) ld -> paths_ok c (ld_map ld) -> cores_ok c f0 (ld_map ld) ->
  post (fun w => w_fs w = f0) (rebase_layer e c ld a b) (fun _ w' => C02.rebase_exact c f0 (w_fs w') a b = true).
Proof.
  intros Hc0 Hn0 Hcl0 ND Hnp [Hs HW] HPa HCo. unfold rebase_layer.
  apply post_guard_k. intros G0. apply andb_true_iff in G0 as [G1 G2].
  apply test_name_need in G1 as (Ha & La & l & El). apply test_name_opt in G2. rewrite El.
  apply post_guard_k. intros _. apply post_guard_k. intros _. cbv zeta. apply post_guard_k. intros _.
  apply post_guard_k. intros _.
  assert (Pa : plain a) by now apply legal_plain.
  pose proof (lm_get_name _ _ _ El) as Ena. pose proof (lm_get_in _ _ _ El) as Hin.
  destruct (HCo l Hin) as (l0 & Eld & Ecore). rewrite Ena in Eld.
  unfold load_layer in Eld. fold lcf in Eld. rewrite (cfg_path_eq c Lc HLc HL a Pa) in Eld.
  destruct (if is_file f0 (cfgp Lc a) then read_file f0 (cfgp Lc a) else None) as [content|] eqn:Erd; [|discriminate].
  assert (Hrd : read_file f0 (cfgp Lc a) = Some content).
  { destruct (is_file f0 (cfgp Lc a)); [exact Erd|discriminate]. }
  injection Eld as <-. unfold core in Ecore. cbn [l_name l_base l_mounts l_exports l_path] in Ecore.
  injection Ecore as _ _ Em Ee _.
  eapply post_bind; [apply post_renormalize|]. intros ld'. cbv beta.
  eapply post_bind.
  - apply (write_cfg_lookup e (set_base l b) a f0 Hnp Pa); auto. cbn [set_base l_path]. rewrite (HPa l Hin). now rewrite Ena.
  - intros u. cbv beta. apply post_ret. intros w HW'.
    unfold chunks_of in HW'. cbn [set_base l_base l_mounts l_exports] in HW'.
    destruct (HW l Hin) as (_ & M1 & M2).
    apply (rebase_exact_final f0 (w_fs w) a b content (l_mounts l) (l_exports l)); auto.
    + destruct b as [|b0 br]; [now left|right]. destruct G2 as [G2|(Lb & _)]; [discriminate|].
      apply legal_tok; [exact Lb|discriminate].
Qed.
End D.

(* ------------------------------------------------------------------ run level *)
Theorem rebase_exact_run e c um a b0 s :
  cfg_ok c = true -> fs_ok c (w_fs (s_w s)) = true -> LC.nodup_paths (map fst (w_fs (s_w s))) = true ->
  e_pretend e = false ->
  match run_command e c um (CRebase a b0) s with
  | (Ret _, s') => C02.rebase_exact c (w_fs (s_w s)) (w_fs (s_w s')) a b0 = true
  | _ => True
  end.
Proof.
  intros Hcfg Hfs Hnd Hnp.
  destruct (cfg_ok_spec c Hcfg) as (Lc & bsr & wsr & usr & Ec & bpr & gpr & Bc & PL & EL & _).
  destruct (fs_ok_spec c Lc _ PL EL Hfs) as (Hc0 & Hn0 & Hcl0).
  cbn [run_command].
  apply (with_layers_post c um (fun ld => rebase_layer e c ld a b0) s
           (fun w => C02.rebase_exact c (w_fs (s_w s)) (w_fs w) a b0 = true)).
  intros ld HLD _ HP HCo.
  eapply post_conseq; [apply (rebase_exact_post c Lc PL EL (w_fs (s_w s)) e ld a b0 Hc0 Hn0 Hcl0)| |]; cbv beta; auto.
  - now apply nodup_paths_NoDup.
  - intros w ->. reflexivity.
Qed.
