(* C02 (d): the exact effect of a successful rename (operations carried out). *)
From LC Require Import Lib.Bytes Lib.Lex Lib.Fields Lib.PathM Model.Config Gen.Consts
  Model.MountInfo Model.FsTree Model.Kernel Model.Layers Cases.Verdict Cases.LC Cases.C02
  Proofs.PathP Proofs.PathCP Proofs.C02FsP Proofs.MountInfoP Proofs.C02MonadP Proofs.C02ForestP Proofs.C02KernelP
  Proofs.RoundtripP Proofs.C02LayersP Proofs.C02aP Proofs.C02bP Proofs.C02cP Proofs.C02dP.
Local Open Scope nat_scope.

(* ------------------------------------------------------------------ writes *)
Lemma fs_get_wr p X f q : fs_get (wr p X f) q = if beq p q then Some (File X) else fs_get f q.
Proof.
  unfold wr. rewrite fs_get_app. destruct (beq p q) eqn:E.
  - apply beq_true in E. subst q. rewrite fs_get_filter_none; [cbn [fs_get]; now rewrite beq_refl|].
    intros m. unfold not_at. cbn [fst]. now rewrite beq_refl.
  - rewrite fs_get_filter; [|intros m; unfold not_at; cbn [fst]; now rewrite beq_sym, E].
    destruct (fs_get f q); [reflexivity|]. cbn [fs_get]. now rewrite E.
Qed.
Lemma In_wr p X f q nd : In (q, nd) (wr p X f) <-> (q <> p /\ In (q, nd) f) \/ (q = p /\ nd = File X).
Proof.
  unfold wr. rewrite in_app_iff, filter_In. unfold not_at. cbn [fst In]. rewrite negb_true_iff, beq_false. split.
  - intros [[H1 H2]|[H|[]]]; [left; now split|right]. injection H as <- <-. now split.
  - intros [[H1 H2]|[-> ->]]; [left; now split|right; now left].
Qed.
Definition foldwr (L : list (bytes * bytes)) (f : fsT) : fsT := fold_left (fun g pk => wr (fst pk) (snd pk) g) L f.
Lemma foldwr_snoc L pk f : foldwr (L ++ [pk]) f = wr (fst pk) (snd pk) (foldwr L f).
Proof. unfold foldwr. now rewrite fold_left_app. Qed.
Lemma fs_get_foldwr_other L q : (forall p X, In (p, X) L -> p <> q) -> forall f, fs_get (foldwr L f) q = fs_get f q.
Proof.
  induction L as [|[p X] L IH] using rev_ind; intros H f; [reflexivity|]. rewrite foldwr_snoc, fs_get_wr. cbn [fst snd].
  assert (beq p q = false) as ->.
  { apply beq_false. apply (H p X). apply in_or_app. right. now left. }
  apply IH. intros p' X' Hin. apply (H p' X'). apply in_or_app. now left.
Qed.
Lemma fs_get_foldwr_in L q X : In (q, X) L -> (forall X', In (q, X') L -> X' = X) ->
  forall f, fs_get (foldwr L f) q = Some (File X).
Proof.
  induction L as [|[p Y] L IH] using rev_ind; intros Hin Hu f; [destruct Hin|].
  rewrite foldwr_snoc, fs_get_wr. cbn [fst snd]. destruct (beq p q) eqn:E.
  - apply beq_true in E. subst p. rewrite (Hu Y); [reflexivity|]. apply in_or_app. right. now left.
  - apply in_app_or in Hin as [Hin|[Hin|[]]].
    + apply IH; [exact Hin|]. intros X' H'. apply Hu. apply in_or_app. now left.
    + injection Hin as -> _. now rewrite beq_refl in E.
Qed.
Lemma In_foldwr L q nd : forall f, In (q, nd) (foldwr L f) ->
  In (q, nd) f \/ exists X, In (q, X) L /\ nd = File X.
Proof.
  induction L as [|[p Y] L IH] using rev_ind; intros f H; [now left|].
  rewrite foldwr_snoc in H. cbn [fst snd] in H. apply In_wr in H as [[H1 H2]|[-> ->]].
  - destruct (IH f H2) as [H3|(X & H3 & H4)]; [now left|right]. exists X. split; [apply in_or_app; now left|exact H4].
  - right. exists Y. split; [apply in_or_app; right; now left|reflexivity].
Qed.
Lemma In_foldwr_keep L q nd f : In (q, nd) f -> (forall p X, In (p, X) L -> p <> q) -> In (q, nd) (foldwr L f).
Proof.
  revert f. induction L as [|[p Y] L IH] using rev_ind; intros f H Hn; [exact H|].
  rewrite foldwr_snoc. cbn [fst snd]. apply In_wr. left. split.
  - intros E. apply (Hn p Y); [apply in_or_app; right; now left|now symmetry].
  - apply IH; [exact H|]. intros p' X' Hin. apply (Hn p' X'). apply in_or_app. now left.
Qed.

Definition mv (a b : bytes) (f : fsT) : fsT := map (move_entry a b) (filter (not_at b) f).
Lemma In_mv a b f q nd : In (q, nd) (mv a b f) ->
  (at_or_under a q = false /\ q <> b /\ In (q, nd) f) \/
  (exists p, at_or_under a p = true /\ p <> b /\ In (p, nd) f /\ q = b ++ rel_suffix a p).
Proof.
  unfold mv. intros H. apply in_map_iff in H as ([p m] & E & Hin). apply filter_In in Hin as [Hin Hnb].
  unfold not_at in Hnb. cbn [fst] in Hnb. apply negb_true_iff, beq_false in Hnb.
  unfold move_entry in E. cbn [fst snd] in E. destruct (at_or_under a p) eqn:Ea.
  - injection E as <- <-. right. exists p. repeat split; auto.
  - injection E as <- <-. left. repeat split; auto.
Qed.

Section E.
Variable c : cfgT.
Variable Lc : list bytes.
Hypothesis HLc : plains Lc.
Hypothesis HL : c_layers c = pa Lc.
Variables (old new : bytes).
Hypothesis Po : plain old.
Hypothesis Pnw : plain new.
Hypothesis Hon : old <> new.

Lemma PO' : plains (Lc ++ [old]). Proof. apply plains_app. split; [exact HLc|constructor; [exact Po|constructor]]. Qed.
Lemma PN' : plains (Lc ++ [new]). Proof. apply plains_app. split; [exact HLc|constructor; [exact Pnw|constructor]]. Qed.
Lemma NE' : Lc ++ [new] <> []. Proof. destruct Lc; discriminate. Qed.

Section Mv.
Variable f1 : fsT.
Hypothesis Hc1 : fs_clean f1.
Hypothesis Hfree : forall r m, plains r -> r <> [] -> ~ In (pa (Lc ++ new :: r), m) f1.

Let F := filter (not_at (pa (Lc ++ [new]))) f1.
Lemma F_clean : fs_clean F.
Proof. intros p m Hin. apply filter_In in Hin as [Hin _]. eapply Hc1; eauto. Qed.
Lemma F_get q : q <> pa (Lc ++ [new]) -> fs_get F q = fs_get f1 q.
Proof. intros Hq. apply fs_get_filter. intros m. unfold not_at. cbn [fst]. now apply negb_true_iff, beq_false. Qed.

Lemma under_new_old r : plains r -> at_or_under (pa (Lc ++ [old])) (pa ((Lc ++ [new]) ++ r)) = false.
Proof.
  intros Pr. rewrite <- app_assoc. apply (not_under_other Lc HLc old new r Po Pnw Pr). congruence.
Qed.

Lemma mv_get_new r : plains r ->
  fs_get (mv (lp Lc old) (lp Lc new) f1) (pa (Lc ++ new :: r)) = fs_get f1 (pa (Lc ++ old :: r)).
Proof.
  intros Pr. unfold mv, lp. fold F. change (Lc ++ new :: r) with (Lc ++ [new] ++ r). change (Lc ++ old :: r) with (Lc ++ [old] ++ r).
  rewrite !app_assoc. rewrite (rename_get_target (Lc ++ [old]) (Lc ++ [new]) PO' PN' NE' F r F_clean Pr).
  - apply F_get. intros E. apply pa_inj in E.
    + rewrite <- app_assoc in E. apply app_inv_head in E. injection E as E _. congruence.
    + apply plains_app. split; [exact PO'|exact Pr].
    + exact PN'.
  - intros [q m] Hin. apply filter_In in Hin as [Hin Hnb]. cbn [fst]. intros ->. destruct r as [|x r'].
    + rewrite app_nil_r in Hnb. unfold not_at in Hnb. cbn [fst] in Hnb. now rewrite beq_refl in Hnb.
    + rewrite <- app_assoc in Hin. apply (Hfree (x :: r') m Pr); [discriminate|exact Hin].
Qed.
Lemma mv_get_old q : at_or_under (lp Lc old) q = true -> fs_get (mv (lp Lc old) (lp Lc new) f1) q = None.
Proof.
  intros Hq. unfold mv, lp in *. fold F.
  apply (rename_get_source (Lc ++ [old]) (Lc ++ [new]) PO' NE' F q F_clean Hq). intros r Pr. now apply under_new_old.
Qed.
Lemma mv_get_other q : at_or_under (lp Lc old) q = false -> at_or_under (lp Lc new) q = false ->
  fs_get (mv (lp Lc old) (lp Lc new) f1) q = fs_get f1 q.
Proof.
  intros H1 H2. unfold mv, lp in *. fold F.
  rewrite (rename_get_other (Lc ++ [old]) (Lc ++ [new]) PO' PN' NE' F q F_clean H1 H2).
  apply F_get. intros ->. unfold at_or_under in H2. now rewrite beq_refl in H2.
Qed.
Lemma mv_in q nd : In (q, nd) (mv (lp Lc old) (lp Lc new) f1) ->
  (at_or_under (lp Lc old) q = false /\ at_or_under (lp Lc new) q = false /\ In (q, nd) f1) \/
  (exists r, plains r /\ q = pa (Lc ++ new :: r) /\ In (pa (Lc ++ old :: r), nd) f1).
Proof.
  intros H. apply In_mv in H as [(H1 & H2 & H3)|(p & H1 & H2 & H3 & ->)].
  - left. split; [exact H1|]. split; [|exact H3].
    destruct (at_or_under (lp Lc new) q) eqn:E; [|reflexivity]. exfalso.
    pose proof (Hc1 _ _ H3) as Hq. apply clean_abs_repr in Hq as (qs & Pq & ->). unfold lp in E.
    apply at_or_under_pa in E as (r & ->); [|exact PN'|exact Pq].
    destruct r as [|x r']; [rewrite app_nil_r in H2; now apply H2|].
    rewrite <- app_assoc in H3, Pq. apply (Hfree (x :: r') nd); [apply plains_app in Pq as [_ Pq]; now inversion Pq|discriminate|exact H3].
  - right. pose proof (Hc1 _ _ H3) as Hp. apply clean_abs_repr in Hp as (ps & Pp & ->). unfold lp in H1.
    apply at_or_under_pa in H1 as (r & ->); [|exact PO'|exact Pp].
    assert (Pr : plains r) by (apply plains_app in Pp; tauto).
    exists r. split; [exact Pr|]. unfold lp. rewrite (move_target (Lc ++ [old]) (Lc ++ [new]) r PO' Pr NE').
    rewrite <- !app_assoc in *. split; [reflexivity|exact H3].
Qed.
Lemma mv_clean : fs_clean (mv (lp Lc old) (lp Lc new) f1).
Proof. unfold mv, lp. apply (move_clean (Lc ++ [old]) (Lc ++ [new]) PO' PN' NE' F F_clean). Qed.
End Mv.

Lemma read_file_of_get f p : (forall t, fs_get f p <> Some (Link t)) ->
  read_file f p = match fs_get f p with Some (File x) => Some x | _ => None end.
Proof. intros H. unfold read_file. now rewrite stat_nolink. Qed.
Lemma lf_beq_self o e1 : C02.lf_beq (MkLF (lf_base o) (lf_mounts o) (lf_exports o) e1) o = true.
Proof. destruct o as [b ms es er]. apply lf_beq_refl'. Qed.

(* ------------------------------------------------------------------ a sequence of layerconfig rewrites *)
Inductive written : list (bytes * bytes) -> fsT -> fsT -> Prop :=
| wrt_nil g : written [] g g
| wrt_snoc L g g' k X g'' : written L g g' -> plain k -> cfg_written Lc k X g' g'' ->
    written (L ++ [(k, X)]) g g''.

Lemma cfgp_ne_tmpp k j : plain k -> plain j -> cfgp Lc k <> tmpp Lc j.
Proof.
  intros Pk Pj E. unfold cfgp, tmpp in E. apply pa_inj in E.
  - apply app_inv_head in E. pose proof (f_equal (@tl _) E) as E2. cbn [tl] in E2.
    pose proof (f_equal (fun x => length (hd [] x)) E2) as E3. vm_compute in E3. discriminate.
  - apply plains_dirty; [exact HLc|exact Pk|constructor; [apply plain_lcf|constructor]].
  - apply plains_dirty; [exact HLc|exact Pj|constructor; [apply plain_lcf_tmp|constructor]].
Qed.
Lemma tmpp_inj k j : plain k -> plain j -> tmpp Lc k = tmpp Lc j -> k = j.
Proof.
  intros Pk Pj E. unfold tmpp in E. apply pa_inj in E.
  - apply app_inv_head in E. exact (f_equal (hd []) E).
  - apply plains_dirty; [exact HLc|exact Pk|constructor; [apply plain_lcf_tmp|constructor]].
  - apply plains_dirty; [exact HLc|exact Pj|constructor; [apply plain_lcf_tmp|constructor]].
Qed.

Lemma wrt_plain L g g' : written L g g' -> forall k X, In (k, X) L -> plain k.
Proof.
  induction 1 as [g|L g g' k X g'' HW IH Pk HC]; intros k0 X0 Hin; [destruct Hin|].
  apply in_app_or in Hin as [Hin|[Hin|[]]]; [eapply IH; eauto|]. now injection Hin as <- _.
Qed.
Lemma wrt_get_other L g g' q : written L g g' ->
  (forall k X, In (k, X) L -> q <> cfgp Lc k /\ q <> tmpp Lc k) -> fs_get g' q = fs_get g q.
Proof.
  induction 1 as [g|L g g' k X g'' HW IH Pk HC]; intros Hq; [reflexivity|].
  destruct (Hq k X) as [Q1 Q2]; [apply in_or_app; right; now left|].
  rewrite (cw_other _ _ _ _ _ HC q Q1 Q2). apply IH. intros k0 X0 Hin. apply (Hq k0 X0). apply in_or_app. now left.
Qed.
Lemma wrt_get_cfg L g g' k0 X0 : written L g g' -> In (k0, X0) L -> (forall X', In (k0, X') L -> X' = X0) ->
  fs_get g' (cfgp Lc k0) = Some (File X0).
Proof.
  induction 1 as [g|L g g' k X g'' HW IH Pk HC]; intros Hin Hu; [destruct Hin|].
  destruct (beq k k0) eqn:E.
  - apply beq_true in E. subst k0. rewrite <- (Hu X); [apply (cw_cfg _ _ _ _ _ HC)|apply in_or_app; right; now left].
  - apply beq_false in E. apply in_app_or in Hin as [Hin|[Hin|[]]]; [|injection Hin as -> _; congruence].
    pose proof (wrt_plain _ _ _ HW _ _ Hin) as Pk0.
    rewrite (cw_other _ _ _ _ _ HC).
    + apply IH; [exact Hin|]. intros X' H'. apply Hu. apply in_or_app. now left.
    + intros E2. apply E. symmetry. apply (cfgp_inj Lc HLc k0 k Pk0 Pk E2).
    + now apply cfgp_ne_tmpp.
Qed.
Lemma wrt_in L g g' q nd : written L g g' -> In (q, nd) g' ->
  (exists k X, In (k, X) L /\ q = cfgp Lc k) \/ (In (q, nd) g /\ forall k X, In (k, X) L -> q <> tmpp Lc k).
Proof.
  induction 1 as [g|L g g' k X g'' HW IH Pk HC]; intros Hin; [right; split; [exact Hin|intros ? ? []]|].
  apply (cw_in _ _ _ _ _ HC) in Hin as [->|[Hq Hin]].
  - left. exists k, X. split; [apply in_or_app; right; now left|reflexivity].
  - destruct (IH Hin) as [(k0 & X0 & H1 & H2)|[H1 H2]].
    + left. exists k0, X0. split; [apply in_or_app; now left|exact H2].
    + right. split; [exact H1|]. intros k0 X0 H0. apply in_app_or in H0 as [H0|[H0|[]]]; [eapply H2; eauto|].
      now injection H0 as <- _.
Qed.
Lemma wrt_tmp L g g' : written L g g' -> forall k0, plain k0 ->
  ((exists X0, In (k0, X0) L) -> tmp_ok Lc k0 g) /\
  ((forall X0, ~ In (k0, X0) L) -> fs_get g' (tmpp Lc k0) = fs_get g (tmpp Lc k0)).
Proof.
  induction 1 as [g|L g g' k X g'' HW IH Pk HC]; intros k0 Pk0.
  - split; [intros (X0 & [])|reflexivity].
  - destruct (IH k0 Pk0) as [I1 I2]. split.
    + intros (X0 & Hin). apply in_app_or in Hin as [Hin|[Hin|[]]]; [apply I1; eauto|]. injection Hin as -> _.
      (* the first time k0 is written its temporary name is as it was at the start *)
      assert (D : (exists X1, In (k0, X1) L) \/ (forall X1, ~ In (k0, X1) L)).
      { clear. induction L as [|[a b] L IHL]; [right; intros ? []|].
        destruct (beq a k0) eqn:E; [apply beq_true in E; subst a; left; exists b; now left|].
        apply beq_false in E. destruct IHL as [(X1 & H1)|H1]; [left; exists X1; now right|].
        right. intros X1 [H2|H2]; [injection H2 as -> _; congruence|eapply H1; eauto]. }
      destruct D as [D|D]; [now apply I1|].
      pose proof (cw_tmp _ _ _ _ _ HC) as Hok. unfold tmp_ok in *. now rewrite (I2 D) in Hok.
    + intros Hn. rewrite (cw_other _ _ _ _ _ HC).
      * apply I2. intros X0 H0. apply (Hn X0). apply in_or_app. now left.
      * intros E. symmetry in E. now apply (cfgp_ne_tmpp k k0 Pk Pk0) in E.
      * intros E. apply (tmpp_inj k0 k Pk0 Pk) in E. subst k0. apply (Hn X). apply in_or_app. right. now left.
Qed.

Section Final.
Variables (f0 f1 : fsT) (kids : list layer) (l : layer).
Hypothesis ND : NoDup (map fst f0).
Hypothesis Hc0 : fs_clean f0.
Hypothesis Hn0 : nolink Lc f0.
Hypothesis Hsub : forall e, In e f1 -> In e f0.
Hypothesis Hkeep : forall r nd, plains r -> In (pa (Lc ++ r), nd) f0 -> In (pa (Lc ++ r), nd) f1.
Hypothesis Hfree : forall r m, plains r -> r <> [] -> ~ In (pa (Lc ++ new :: r), m) f1.
Hypothesis HAdir : fs_get f1 (lp Lc old) = Some Dir.
Hypothesis HBdir : forall nd, In (lp Lc new, nd) f1 -> nd = Dir.

Let m0 := read_layer_files c f0.
Hypothesis Hnew_free : forall l', In l' m0 -> l_name l' <> new.
Hypothesis Hnew_tok : tok_ok new.
(* the children, as probed in memory, and the layers on disk *)
Hypothesis Hkids : forall k, In k kids ->
  plain (l_name k) /\ l_name k <> old /\ l_name k <> new /\ mounts_ok k /\
  exists l0, In l0 m0 /\ l_name l0 = l_name k /\ l_base l0 = old /\ l_mounts l0 = l_mounts k /\ l_exports l0 = l_exports k.
Hypothesis Hkids_all : forall l0, In l0 m0 -> l_base l0 = old -> In (l_name l0) (map l_name kids).
Hypothesis Hl : mounts_ok l /\ exists l0, In l0 m0 /\ l_name l0 = old /\ l_base l0 = l_base l
                                /\ l_mounts l0 = l_mounts l /\ l_exports l0 = l_exports l.

Lemma Hc1 : fs_clean f1.
Proof. intros p m Hin. eapply Hc0. apply Hsub. exact Hin. Qed.
Lemma f1_get r : plains r -> fs_get f1 (pa (Lc ++ r)) = fs_get f0 (pa (Lc ++ r)).
Proof.
  intros Pr. destruct (fs_get f1 (pa (Lc ++ r))) as [m|] eqn:E1.
  - apply fs_get_In, Hsub in E1. symmetry. now apply nodup_fs_get.
  - destruct (fs_get f0 (pa (Lc ++ r))) as [m|] eqn:E0; [|reflexivity]. exfalso.
    apply fs_get_In in E0. apply (Hkeep r m Pr) in E0. apply (proj1 (fs_get_None _ _) E1 m E0).
Qed.

(* what a layer on disk looks like *)
Lemma m0_layer l0 : In l0 m0 ->
  plain (l_name l0) /\ layerconfig_path l0 = cfgp Lc (l_name l0) /\
  exists content, fs_get f0 (cfgp Lc (l_name l0)) = Some (File content) /\
    l_base l0 = lf_base (read_layerfile content) /\ l_mounts l0 = lf_mounts (read_layerfile content) /\
    l_exports l0 = lf_exports (read_layerfile content).
Proof.
  intros Hin. pose proof Hin as Hin'. apply rlf_in in Hin' as (n & Hn & Ln & Eld).
  pose proof (load_layer_props _ _ _ _ Eld) as (En & _ & Ep). subst n.
  assert (Pn : plain (l_name l0)).
  { assert (Hg : G c f0 (l_name l0) = Some (l_base l0)).
    { unfold G. apply g_of_some. exists l0. split; [|reflexivity]. rewrite rlf_get.
      assert (memb (l_name l0) (children f0 (c_layers c)) = true) as -> by now apply memb_In. now rewrite Ln. }
    now destruct (G_some_child c Lc HLc HL f0 _ _ Hc0 Hn0 Hg). }
  split; [exact Pn|]. split; [now apply (layerconfig_path_eq c Lc HLc HL)|].
  unfold load_layer in Eld. fold lcf in Eld. rewrite (cfg_path_eq c Lc HLc HL _ Pn) in Eld.
  unfold is_file in Eld. rewrite read_file_of_get in Eld by (intros t; now apply Hn0).
  rewrite stat_nolink in Eld by (intros t; now apply Hn0).
  destruct (fs_get f0 (cfgp Lc (l_name l0))) as [[|content|]|]; try discriminate.
  injection Eld as <-. exists content. cbn. repeat split; reflexivity.
Qed.

Definition KLn (ks : list layer) : list (bytes * bytes) := map (fun k => (l_name k, chunks_of (set_base k new))) ks.
Definition Xn : bytes := chunks_of (set_name_path l new (lp Lc new)).
Definition F2 : fsT := mv (lp Lc old) (lp Lc new) f1.
(* the final tree: the children's layerconfigs, then the renamed layer's own, rewritten on top of
   the tree with the directory moved; a left-over temporary file may be consumed by each rewrite *)
Variable F4 : fsT.
Hypothesis HW : written (KLn kids ++ [(new, Xn)]) F2 F4.

Lemma cfgp_not_under x j : plain x -> plain j -> j <> x -> at_or_under (lp Lc x) (cfgp Lc j) = false.
Proof.
  intros Px Pj Hj. unfold cfgp. apply (not_under_other Lc HLc x j [lcf] Px Pj); [|exact Hj].
  constructor; [apply plain_lcf|constructor].
Qed.
Lemma cfgp_ne x j r : plain x -> plain j -> plains r -> j <> x -> cfgp Lc j <> pa (Lc ++ x :: r).
Proof.
  intros Px Pj Pr Hj E. unfold cfgp in E. apply pa_inj in E.
  - apply app_inv_head in E. injection E as E _. congruence.
  - apply plains_dirty; auto. constructor; [apply plain_lcf|constructor].
  - now apply plains_dirty.
Qed.
Lemma tmpp_ne x j r : plain x -> plain j -> plains r -> j <> x -> tmpp Lc j <> pa (Lc ++ x :: r).
Proof.
  intros Px Pj Pr Hj E. unfold tmpp in E. apply pa_inj in E.
  - apply app_inv_head in E. pose proof (f_equal (hd []) E) as E2. cbn [hd] in E2. congruence.
  - apply plains_dirty; auto. constructor; [apply plain_lcf_tmp|constructor].
  - now apply plains_dirty.
Qed.
Lemma Plcf : plains [lcf]. Proof. constructor; [apply plain_lcf|constructor]. Qed.
Lemma lc_tmp_last cs : C02.is_lc_tmp (pa (cs ++ [lcf ++ tmp_suffix])) = true.
Proof. unfold C02.is_lc_tmp. rewrite pathbase_pa by apply plain_lcf_tmp. apply beq_refl. Qed.
Lemma lc_tmp_tmpp k : C02.is_lc_tmp (tmpp Lc k) = true.
Proof. unfold tmpp. change (Lc ++ [k; lcf ++ tmp_suffix]) with (Lc ++ [k] ++ [lcf ++ tmp_suffix]). rewrite app_assoc. apply lc_tmp_last. Qed.

Lemma KLall_in k0 X0 : In (k0, X0) (KLn kids ++ [(new, Xn)]) ->
  (k0 = new /\ X0 = Xn) \/ (exists k, In k kids /\ k0 = l_name k /\ X0 = chunks_of (set_base k new)).
Proof.
  intros H. apply in_app_or in H as [H|[H|[]]].
  - right. unfold KLn in H. apply in_map_iff in H as (k & E & Hk). injection E as <- <-. eauto.
  - left. injection H as <- <-. now split.
Qed.

(* entries of the final tree *)
Lemma F4_in q nd : In (q, nd) F4 ->
  (q = cfgp Lc new) \/
  (exists k, In k kids /\ q = cfgp Lc (l_name k)) \/
  (at_or_under (lp Lc old) q = false /\ at_or_under (lp Lc new) q = false /\ In (q, nd) f1) \/
  (exists r, plains r /\ q = pa (Lc ++ new :: r) /\ In (pa (Lc ++ old :: r), nd) f1).
Proof.
  intros H. apply (wrt_in _ _ _ _ _ HW) in H as [(k0 & X0 & H1 & ->)|[H1 _]].
  - apply KLall_in in H1 as [[-> _]|(k & Hk & -> & _)]; [now left|right; left; eauto].
  - apply (mv_in f1 Hc1 Hfree) in H1 as [H1|(r & Pr & -> & H1)]; [right; right; now left|].
    right; right; right. exists r. auto.
Qed.

(* lookups in the final tree *)
Lemma F4_get_cn : fs_get F4 (cfgp Lc new) = Some (File Xn).
Proof.
  apply (wrt_get_cfg _ _ _ _ _ HW); [apply in_or_app; right; now left|].
  intros X' H. apply KLall_in in H as [[_ ->]|(k & Hk & E & _)]; [reflexivity|].
  destruct (Hkids k Hk) as (_ & _ & Hkn & _). congruence.
Qed.
Lemma F4_get_kid k : In k kids -> fs_get F4 (cfgp Lc (l_name k)) = Some (File (chunks_of (set_base k new))).
Proof.
  intros Hk. apply (wrt_get_cfg _ _ _ _ _ HW).
  - apply in_or_app. left. unfold KLn. apply in_map_iff. exists k. split; [reflexivity|exact Hk].
  - intros X' Hin. apply KLall_in in Hin as [[E _]|(k' & Hk' & E & ->)].
    + destruct (Hkids k Hk) as (_ & _ & Hkn & _). congruence.
    + destruct (Hkids k' Hk') as (Pk' & _ & _ & _ & l0' & H0' & N' & _ & M1' & M2').
      destruct (Hkids k Hk) as (Pk & _ & _ & _ & l1 & H1 & N1 & _ & M3 & M4).
      (* both come from the layer of that name on disk *)
      destruct (m0_layer l1 H1) as (_ & _ & c1 & G1 & _ & A1 & A2).
      destruct (m0_layer l0' H0') as (_ & _ & c2 & G2 & _ & B1 & B2).
      rewrite N1 in G1. rewrite N', <- E in G2. rewrite G1 in G2. injection G2 as <-.
      unfold chunks_of. cbn [set_base l_base l_mounts l_exports]. congruence.
Qed.
Lemma F4_get_F2 q : q <> cfgp Lc new -> q <> tmpp Lc new ->
  (forall k, In k kids -> q <> cfgp Lc (l_name k) /\ q <> tmpp Lc (l_name k)) -> fs_get F4 q = fs_get F2 q.
Proof.
  intros H1 H2 H3. apply (wrt_get_other _ _ _ _ HW). intros k0 X0 Hin.
  apply KLall_in in Hin as [[-> _]|(k & Hk & -> & _)]; [now split|now apply H3].
Qed.

Lemma conj1 : existsb (fun e => at_or_under (lp Lc old) (fst e)) F4 = false.
Proof.
  destruct (existsb _ F4) eqn:E; [|reflexivity]. exfalso. apply existsb_exists in E as ([q nd] & Hin & Hau). cbn [fst] in Hau.
  apply F4_in in Hin as [->|[(k & Hk & ->)|[(H1 & _)|(r & Pr & -> & _)]]].
  - rewrite (cfgp_not_under old new Po Pnw) in Hau; [discriminate|congruence].
  - destruct (Hkids k Hk) as (Pk & Hko & _). rewrite (cfgp_not_under old _ Po Pk Hko) in Hau. discriminate.
  - congruence.
  - rewrite (not_under_other Lc HLc old new r Po Pnw Pr) in Hau; [discriminate|congruence].
Qed.

Lemma old_entry p : is_clean_abs p = true -> at_or_under (lp Lc old) p = true -> exists r, plains r /\ p = pa (Lc ++ old :: r).
Proof.
  intros Hp Hau. apply clean_abs_repr in Hp as (ps & Pp & ->). unfold lp in Hau.
  apply at_or_under_pa in Hau as (r & ->); [|exact PO'|exact Pp]. exists r. rewrite <- app_assoc. split; [|reflexivity].
  apply plains_app in Pp. tauto.
Qed.
Lemma new_entry p : is_clean_abs p = true -> at_or_under (lp Lc new) p = true -> exists r, plains r /\ p = pa (Lc ++ new :: r).
Proof.
  intros Hp Hau. apply clean_abs_repr in Hp as (ps & Pp & ->). unfold lp in Hau.
  apply at_or_under_pa in Hau as (r & ->); [|exact PN'|exact Pp]. exists r. rewrite <- app_assoc. split; [|reflexivity].
  apply plains_app in Pp. tauto.
Qed.
Lemma target_of r : plains r -> lp Lc new ++ rel_suffix (lp Lc old) (pa (Lc ++ old :: r)) = pa (Lc ++ new :: r).
Proof.
  intros Pr. unfold lp. change (Lc ++ old :: r) with (Lc ++ [old] ++ r). rewrite app_assoc.
  rewrite (move_target (Lc ++ [old]) (Lc ++ [new]) r PO' Pr NE'). now rewrite <- app_assoc.
Qed.
Lemma source_of r : plains r -> lp Lc old ++ rel_suffix (lp Lc new) (pa (Lc ++ new :: r)) = pa (Lc ++ old :: r).
Proof.
  intros Pr. unfold lp. change (Lc ++ new :: r) with (Lc ++ [new] ++ r). rewrite app_assoc.
  assert (NEo : Lc ++ [old] <> []) by (destruct Lc; discriminate).
  rewrite (move_target (Lc ++ [new]) (Lc ++ [old]) r PN' Pr NEo). now rewrite <- app_assoc.
Qed.

Lemma conj2 : forallb (fun e => if at_or_under (lp Lc old) (fst e) && negb (beq (fst e) (cfgp Lc old))
                                   && negb (C02.is_lc_tmp (fst e))
                       then opt_beq node_beq (fs_get F4 (lp Lc new ++ rel_suffix (lp Lc old) (fst e))) (Some (snd e))
                       else true) f0 = true.
Proof.
  apply forallb_forall. intros [p nd] Hin. cbn [fst snd].
  destruct (at_or_under (lp Lc old) p) eqn:Hau; [|reflexivity]. destruct (beq p (cfgp Lc old)) eqn:Ecf; [reflexivity|].
  destruct (C02.is_lc_tmp p) eqn:Etmp; [reflexivity|]. cbn [negb andb].
  apply beq_false in Ecf. destruct (old_entry p (Hc0 _ _ Hin) Hau) as (r & Pr & ->). rewrite (target_of r Pr).
  assert (Hr : r <> [lcf]) by (intros ->; now apply Ecf).
  assert (Hr2 : r <> [lcf ++ tmp_suffix]).
  { intros ->. change (Lc ++ [old; lcf ++ tmp_suffix]) with (Lc ++ [old] ++ [lcf ++ tmp_suffix]) in Etmp.
    rewrite app_assoc, lc_tmp_last in Etmp. discriminate. }
  rewrite F4_get_F2.
  - unfold F2. rewrite (mv_get_new f1 Hc1 Hfree r Pr).
    change (Lc ++ old :: r) with (Lc ++ (old :: r)). rewrite f1_get by (constructor; assumption).
    rewrite (nodup_fs_get f0 _ nd ND Hin). cbn [opt_beq]. apply node_beq_refl.
  - unfold cfgp. intros E. apply pa_inj in E.
    + apply app_inv_head in E. injection E as E. congruence.
    + now apply plains_dirty.
    + apply plains_dirty; [exact HLc|exact Pnw|exact Plcf].
  - unfold tmpp. intros E. apply pa_inj in E.
    + apply app_inv_head in E. pose proof (f_equal (@tl _) E) as E2. cbn [tl] in E2. congruence.
    + now apply plains_dirty.
    + apply plains_dirty; [exact HLc|exact Pnw|constructor; [apply plain_lcf_tmp|constructor]].
  - intros k Hk. destruct (Hkids k Hk) as (Pk & _ & Hkn & _). split; intros E; symmetry in E.
    + now apply (cfgp_ne new (l_name k) r Pnw Pk Pr Hkn) in E.
    + now apply (tmpp_ne new (l_name k) r Pnw Pk Pr Hkn) in E.
Qed.

Lemma conj3 : forallb (fun e => if at_or_under (lp Lc new) (fst e) && negb (beq (fst e) (cfgp Lc new))
                       then opt_beq node_beq (fs_get f0 (lp Lc old ++ rel_suffix (lp Lc new) (fst e))) (Some (snd e))
                       else true) F4 = true.
Proof.
  apply forallb_forall. intros [q nd] Hin. cbn [fst snd].
  destruct (at_or_under (lp Lc new) q) eqn:Hau; [|reflexivity]. destruct (beq q (cfgp Lc new)) eqn:Ecf; [reflexivity|]. cbn [negb andb].
  apply beq_false in Ecf. apply F4_in in Hin as [->|[(k & Hk & ->)|[(_ & H2 & _)|(r & Pr & -> & H1)]]].
  - congruence.
  - destruct (Hkids k Hk) as (Pk & _ & Hkn & _). rewrite (cfgp_not_under new _ Pnw Pk Hkn) in Hau. discriminate.
  - congruence.
  - rewrite (source_of r Pr). apply Hsub in H1. rewrite (nodup_fs_get f0 _ nd ND H1). cbn [opt_beq]. apply node_beq_refl.
Qed.
Lemma lfile_at_file f p x : fs_get f p = Some (File x) -> C02.lfile_at f p = Some (read_layerfile x).
Proof.
  intros E. unfold C02.lfile_at. rewrite read_file_of_get; [now rewrite E|]. intros t. rewrite E. discriminate.
Qed.
Lemma same_name_same l1 l2 : In l1 m0 -> In l2 m0 -> l_name l1 = l_name l2 ->
  l_base l1 = l_base l2 /\ l_mounts l1 = l_mounts l2 /\ l_exports l1 = l_exports l2.
Proof.
  intros H1 H2 E. destruct (m0_layer l1 H1) as (_ & _ & c1 & G1 & A1 & A2 & A3).
  destruct (m0_layer l2 H2) as (_ & _ & c2 & G2 & B1 & B2 & B3). rewrite E, G2 in G1. injection G1 as <-.
  repeat split; congruence.
Qed.

Lemma conj4 : opt_beq C02.lf_beq (C02.lfile_at F4 (cfgp Lc new)) (C02.lfile_at f0 (cfgp Lc old)) = true.
Proof.
  destruct Hl as ((Hb & Hm & He) & l0 & H0 & N0 & B0 & M0 & E0).
  destruct (m0_layer l0 H0) as (_ & _ & content & G0 & A1 & A2 & A3). rewrite N0 in G0.
  rewrite (lfile_at_file F4 _ _ F4_get_cn), (lfile_at_file f0 _ _ G0). cbn [opt_beq].
  unfold Xn, chunks_of. cbn [set_name_path l_base l_mounts l_exports]. rewrite layerfile_roundtrip by assumption.
  rewrite <- B0, <- M0, <- E0, A1, A2, A3. apply lf_beq_self.
Qed.

Lemma conj5 : forallb (fun l' =>
    if beq (l_name l') old then true else
    match C02.lfile_at f0 (layerconfig_path l'), C02.lfile_at F4 (layerconfig_path l') with
    | Some o, Some o' => C02.lf_beq o' (if beq (lf_base o) old then C02.with_base o new else o)
    | _, _ => false
    end) m0 = true.
Proof.
  apply forallb_forall. intros l' Hl'. destruct (beq (l_name l') old) eqn:Eno; [reflexivity|]. apply beq_false in Eno.
  destruct (m0_layer l' Hl') as (Pn & -> & content & G0 & A1 & A2 & A3).
  pose proof (Hnew_free l' Hl') as Enn.
  rewrite (lfile_at_file f0 _ _ G0).
  assert (Hcn : cfgp Lc (l_name l') <> cfgp Lc new).
  { intros E. apply cfgp_inj in E; auto. }
  destruct (beq (lf_base (read_layerfile content)) old) eqn:Ebo.
  - apply beq_true in Ebo. rewrite <- A1 in Ebo.
    pose proof (Hkids_all l' Hl' Ebo) as Hk. apply in_map_iff in Hk as (k & Ek & Hk).
    destruct (Hkids k Hk) as (_ & _ & _ & (_ & Mk & Ek') & l0 & H0 & N0 & _ & M1 & M2).
    assert (G4 : fs_get F4 (cfgp Lc (l_name l')) = Some (File (chunks_of (set_base k new)))).
    { rewrite <- Ek. now apply F4_get_kid. }
    rewrite (lfile_at_file F4 _ _ G4). unfold chunks_of. cbn [set_base l_base l_mounts l_exports].
    rewrite layerfile_roundtrip; [|now right|exact Mk|exact Ek'].
    destruct (same_name_same l0 l' H0 Hl') as (_ & S1 & S2); [congruence|].
    unfold C02.with_base. rewrite <- M1, <- M2, S1, S2, A2, A3. apply lf_beq_refl'.
  - apply beq_false in Ebo.
    assert (Hnk : forall k, In k kids -> cfgp Lc (l_name l') <> cfgp Lc (l_name k)).
    { intros k Hk E. destruct (Hkids k Hk) as (Pk & _ & _ & _ & l0 & H0 & N0 & B0 & _).
      apply cfgp_inj in E; auto. destruct (same_name_same l0 l' H0 Hl') as (S0 & _); [congruence|]. congruence. }
    assert (G4 : fs_get F4 (cfgp Lc (l_name l')) = Some (File content)).
    { rewrite F4_get_F2; [|exact Hcn|now apply cfgp_ne_tmpp|].
      2:{ intros k Hk. destruct (Hkids k Hk) as (Pk & _). split; [now apply Hnk|now apply cfgp_ne_tmpp]. }
      unfold F2. rewrite (mv_get_other f1 Hc1); [|now apply cfgp_not_under|now apply cfgp_not_under].
      unfold cfgp. change (Lc ++ [l_name l'; lcf]) with (Lc ++ (l_name l' :: [lcf])).
      rewrite f1_get by (constructor; [exact Pn|exact Plcf]). exact G0. }
    rewrite (lfile_at_file F4 _ _ G4). destruct (read_layerfile content) as [b ms es er]. apply lf_beq_refl'.
Qed.

Lemma conj6 : forallb (fun e =>
    if at_or_under (pa Lc) (fst e) && negb (at_or_under (lp Lc old) (fst e))
       && negb (existsb (fun l' => beq (fst e) (layerconfig_path l')) m0) && negb (C02.is_lc_tmp (fst e))
    then opt_beq node_beq (fs_get F4 (fst e)) (Some (snd e)) else true) f0 = true.
Proof.
  apply forallb_forall. intros [p nd] Hin. cbn [fst snd].
  destruct (at_or_under (pa Lc) p) eqn:HauL; [|reflexivity].
  destruct (at_or_under (lp Lc old) p) eqn:HauA; [reflexivity|].
  destruct (existsb (fun l' => beq p (layerconfig_path l')) m0) eqn:Ecfg; [reflexivity|].
  destruct (C02.is_lc_tmp p) eqn:Etmp; [reflexivity|]. cbn [negb andb].
  assert (Hnt : forall k, p <> tmpp Lc k) by (intros k E; rewrite E, lc_tmp_tmpp in Etmp; discriminate).
  pose proof (Hc0 _ _ Hin) as Hp. apply clean_abs_repr in Hp as (ps & Pp & ->).
  apply at_or_under_pa in HauL as (r & ->); [|exact HLc|exact Pp].
  assert (Pr : plains r) by (apply plains_app in Pp; tauto).
  assert (Hcn : pa (Lc ++ r) <> cfgp Lc new).
  { intros E. rewrite E in Hin. unfold cfgp in Hin. apply (Hkeep [new; lcf] nd) in Hin; [|constructor; [exact Pnw|exact Plcf]].
    apply (Hfree [lcf] nd Plcf); [discriminate|exact Hin]. }
  assert (Hnk : forall k, In k kids -> pa (Lc ++ r) <> cfgp Lc (l_name k)).
  { intros k Hk E. destruct (Hkids k Hk) as (_ & _ & _ & _ & l0 & H0 & N0 & _).
    destruct (m0_layer l0 H0) as (_ & Ecf & _).
    assert (existsb (fun l' => beq (pa (Lc ++ r)) (layerconfig_path l')) m0 = true); [|congruence].
    apply existsb_exists. exists l0. split; [exact H0|]. rewrite Ecf, N0, E. apply beq_refl. }
  rewrite F4_get_F2; [|exact Hcn|apply Hnt|intros k Hk; split; [now apply Hnk|apply Hnt]]. unfold F2.
  destruct (at_or_under (lp Lc new) (pa (Lc ++ r))) eqn:HauB.
  - destruct (new_entry _ (Hc0 _ _ Hin) HauB) as (r' & Pr' & E). rewrite E in *.
    change (Lc ++ new :: r') with (Lc ++ (new :: r')) in Hin.
    pose proof (Hkeep (new :: r') nd (Forall_cons _ Pnw Pr') Hin) as Hin1.
    destruct r' as [|x r''].
    + rewrite (mv_get_new f1 Hc1 Hfree [] (Forall_nil _)). unfold lp in HAdir. rewrite HAdir.
      rewrite (HBdir nd Hin1). reflexivity.
    + exfalso. apply (Hfree (x :: r'') nd Pr'); [discriminate|exact Hin1].
  - rewrite (mv_get_other f1 Hc1 _ HauA HauB). rewrite f1_get by exact Pr.
    rewrite (nodup_fs_get f0 _ nd ND Hin). cbn [opt_beq]. apply node_beq_refl.
Qed.

Lemma conj7 : forallb (fun e =>
    if at_or_under (pa Lc) (fst e) && negb (at_or_under (lp Lc new) (fst e)) then exists_ f0 (fst e) else true) F4 = true.
Proof.
  apply forallb_forall. intros [q nd] Hin. cbn [fst].
  destruct (at_or_under (pa Lc) q) eqn:HauL; [|reflexivity].
  destruct (at_or_under (lp Lc new) q) eqn:HauB; [reflexivity|]. cbn [negb andb].
  assert (Hex : forall m, In (q, m) f0 -> exists_ f0 q = true).
  { intros m Hm. unfold exists_, lstat. destruct (fs_get f0 q) eqn:E; [reflexivity|].
    exfalso. apply (proj1 (fs_get_None _ _) E m Hm). }
  apply F4_in in Hin as [->|[(k & Hk & ->)|[(_ & _ & H1)|(r & Pr & -> & _)]]].
  - unfold cfgp in HauB. rewrite (at_under_same Lc HLc new [lcf] Pnw Plcf) in HauB. discriminate.
  - destruct (Hkids k Hk) as (_ & _ & _ & _ & l0 & H0 & N0 & _).
    destruct (m0_layer l0 H0) as (_ & _ & content & G0 & _). rewrite N0 in G0. unfold exists_, lstat. now rewrite G0.
  - apply (Hex nd). now apply Hsub.
  - rewrite (at_under_same Lc HLc new r Pnw Pr) in HauB. discriminate.
Qed.

Theorem rename_exact_final : C02.rename_exact c f0 F4 old new = true.
Proof.
  unfold C02.rename_exact. fold lcf. cbv zeta.
  rewrite !(cfg_path_eq c Lc HLc HL old Po), !(cfg_path_eq c Lc HLc HL new Pnw).
  rewrite !(layer_path_eq c Lc HLc HL old Po), !(layer_path_eq c Lc HLc HL new Pnw). rewrite !HL.
  unfold C02.layers_of. fold m0.
  rewrite conj1, conj2, conj3, conj4, conj5, conj6, conj7. reflexivity.
Qed.
End Final.

End E.

(* ------------------------------------------------------------------ the run *)
Section E2.
Variable c : cfgT.
Variable Lc : list bytes.
Hypothesis HLc : plains Lc.
Hypothesis HL : c_layers c = pa Lc.
Variables Ec bpr gpr : list bytes.
Hypothesis HEc : plains Ec /\ c_exports c = pa Ec /\ (forall r1 r2, Lc ++ r1 <> Ec ++ r2).
Hypothesis Hbpr : plains bpr /\ bpr <> [] /\ c_exp_binpkg c = pjoin bpr.
Hypothesis Hgpr : plains gpr /\ gpr <> [] /\ c_exp_gen c = pjoin gpr.

Definition Links (f0 f1 : fsT) : Prop :=
  (forall e, In e f1 -> In e f0) /\
  (forall r nd, plains r -> In (pa (Lc ++ r), nd) f0 -> In (pa (Lc ++ r), nd) f1).

Lemma links_keep e l old f0 : plain old -> l_name l = old ->
  hs (fun w => Links f0 (w_fs w)) false (remove_export_links e c l) (fun _ => True).
Proof.
  intros Po El. unfold remove_export_links. apply hs_mapM_. intros lt Hlt.
  assert (Hp : exists r, plains r /\ fst lt = pa (Ec ++ r)).
  { apply (in_map fst) in Hlt. rewrite (export_links_eq c Lc Ec bpr gpr HEc Hbpr Hgpr l old El Po) in Hlt.
    destruct Hbpr as (B1 & _). destruct Hgpr as (G1 & _).
    destruct Hlt as [<-|[<-|[]]]; eexists; (split; [|reflexivity]); apply plains_app; (split; [assumption|]);
      constructor; (exact Po || constructor). }
  destruct Hp as (r & Pr & ->). apply hs_get_fs_k. intros f.
  destruct (negb (exists_ f _)); [now apply hs_ret|]. destruct (negb (is_symlink f _)); [apply hs_fail|].
  unfold fs_remove. apply hs_true, hoare_do_op. intros w w' [H1 H2] _ E. cbn [op_result] in E. unfold on_fres in E.
  destruct (remove_all (w_fs w) _) as [f'|] eqn:Er; [|discriminate]. injection E as <-. cbn [set_fs w_fs].
  apply remove_all_shape in Er. subst f'. split.
  - intros e0 Hin. apply filter_In in Hin as [Hin _]. now apply H1.
  - intros r0 nd Pr0 Hin. apply filter_In. split; [now apply H2|]. cbn [fst]. apply negb_true_iff.
    destruct (at_or_under (pa (Ec ++ r)) (pa (Lc ++ r0))) eqn:Ea; [|reflexivity]. exfalso.
    destruct HEc as (PE & _ & DE).
    apply at_or_under_pa in Ea as (t & Et); [|apply plains_app; now split|apply plains_app; now split].
    rewrite <- app_assoc in Et. now apply DE in Et.
Qed.

Lemma tmpp_vs_cfgp k j : plain k -> plain j -> at_or_under (tmpp Lc k) (cfgp Lc j) = false.
Proof.
  intros Pk Pj. destruct (at_or_under (tmpp Lc k) (cfgp Lc j)) eqn:E; [|reflexivity]. exfalso.
  unfold tmpp, cfgp in E. apply at_or_under_pa in E as (t & Et).
  - rewrite <- app_assoc in Et. apply app_inv_head in Et. cbn [app] in Et. injection Et as _ Et _. apply (f_equal (@length _)) in Et. vm_compute in Et. discriminate.
  - apply plains_dirty; [exact HLc|exact Pk|constructor; [apply plain_lcf_tmp|constructor]].
  - apply plains_dirty; [exact HLc|exact Pj|constructor; [apply plain_lcf|constructor]].
Qed.
Lemma tmpp_under_dir k q : plain k -> is_clean_abs q = true -> at_or_under (tmpp Lc k) q = true ->
  exists r, plains r /\ q = pa (Lc ++ k :: (lcf ++ tmp_suffix) :: r).
Proof.
  intros Pk Hq Hau. apply clean_abs_repr in Hq as (qs & Pq & ->). unfold tmpp in Hau.
  apply at_or_under_pa in Hau as (r & ->); [| |exact Pq].
  - exists r. rewrite <- app_assoc. split; [|reflexivity]. apply plains_app in Pq as [_ Pq]. exact Pq.
  - apply plains_dirty; [exact HLc|exact Pk|constructor; [apply plain_lcf_tmp|constructor]].
Qed.

Lemma assoc_dec (L : list (bytes * bytes)) k0 : (exists X, In (k0, X) L) \/ (forall X, ~ In (k0, X) L).
Proof.
  induction L as [|[a b] L IHL]; [right; intros ? []|].
  destruct (beq a k0) eqn:E; [apply beq_true in E; subst a; left; exists b; now left|].
  apply beq_false in E. destruct IHL as [(X1 & H1)|H1]; [left; exists X1; now right|].
  right. intros X1 [H2|H2]; [injection H2 as -> _; congruence|eapply H1; eauto].
Qed.

Section Run.
Variables (f0 f1 : fsT) (old new : bytes).
Hypothesis Po : plain old.
Hypothesis Pnw : plain new.
Hypothesis Hon : old <> new.
Hypothesis Hc0 : fs_clean f0.
Hypothesis Hcl0 : closed f0.
Hypothesis HLk : Links f0 f1.
Hypothesis Hget : forall r, plains r -> fs_get f1 (pa (Lc ++ r)) = fs_get f0 (pa (Lc ++ r)).
Hypothesis Hfree : forall r m, plains r -> r <> [] -> ~ In (pa (Lc ++ new :: r), m) f1.
Variable K : list bytes.
Hypothesis HKp : forall k, In k K -> plain k /\ k <> old /\ k <> new.

Lemma Hc1' : fs_clean f1.
Proof. intros p m Hin. eapply Hc0. apply (proj1 HLk). exact Hin. Qed.
Let G2 := mv (lp Lc old) (lp Lc new) f1.
Lemma Ptmp : plains [lcf ++ tmp_suffix]. Proof. constructor; [apply plain_lcf_tmp|constructor]. Qed.

Lemma F2_tmp_new : fs_get G2 (tmpp Lc new) = fs_get f0 (tmpp Lc old).
Proof.
  unfold G2, tmpp. change (Lc ++ [new; lcf ++ tmp_suffix]) with (Lc ++ new :: [lcf ++ tmp_suffix]).
  rewrite (mv_get_new c Lc HLc HL old new Po Pnw Hon f1 Hc1' Hfree _ Ptmp).
  change (Lc ++ old :: [lcf ++ tmp_suffix]) with (Lc ++ [old; lcf ++ tmp_suffix]).
  apply Hget. constructor; [exact Po|exact Ptmp].
Qed.
Lemma F2_tmp_kid k : In k K -> fs_get G2 (tmpp Lc k) = fs_get f0 (tmpp Lc k).
Proof.
  intros Hk. destruct (HKp k Hk) as (Pk & Hko & Hkn). unfold G2.
  rewrite (mv_get_other c Lc HLc HL old new Po Pnw f1 Hc1').
  - unfold tmpp. apply Hget. constructor; [exact Pk|exact Ptmp].
  - unfold tmpp. apply (not_under_other Lc HLc old k _ Po Pk Ptmp Hko).
  - unfold tmpp. apply (not_under_other Lc HLc new k _ Pnw Pk Ptmp Hkn).
Qed.

Lemma under_tmp_shape x q : plain x -> is_clean_abs q = true -> under (tmpp Lc x) q = true ->
  exists r, plains r /\ r <> [] /\ q = pa (Lc ++ x :: (lcf ++ tmp_suffix) :: r).
Proof.
  intros Px Hq Hu. apply clean_abs_repr in Hq as (qs & Pq & ->). unfold tmpp in Hu.
  apply under_pa in Hu as (r & Hr & ->); [| |exact Pq].
  - exists r. rewrite <- app_assoc. split; [apply plains_app in Pq as [_ Pq]; exact Pq|]. split; [exact Hr|reflexivity].
  - apply plains_dirty; [exact HLc|exact Px|exact Ptmp].
Qed.
Lemma under_tmp_intro x r : plain x -> plains r -> r <> [] ->
  under (tmpp Lc x) (pa (Lc ++ x :: (lcf ++ tmp_suffix) :: r)) = true.
Proof.
  intros Px Pr Hr. unfold tmpp. apply under_pa.
  - apply plains_dirty; [exact HLc|exact Px|exact Ptmp].
  - apply plains_dirty; [exact HLc|exact Px|constructor; [apply plain_lcf_tmp|exact Pr]].
  - exists r. split; [exact Hr|now rewrite <- app_assoc].
Qed.

Lemma F2_no_under x : (x = new \/ In x K) -> tmp_ok Lc x G2 -> no_under (tmpp Lc x) G2.
Proof.
  intros Hx Hok [q nd] Hin. cbn [fst]. destruct (under (tmpp Lc x) q) eqn:Eu; [|reflexivity]. exfalso.
  assert (Px : plain x) by (destruct Hx as [->|Hx]; [exact Pnw|now apply HKp]).
  pose proof (mv_clean c Lc HLc HL old new Po Pnw f1 Hc1' _ _ Hin) as Hq.
  destruct (under_tmp_shape x q Px Hq Eu) as (r & Pr & Hr & ->).
  apply (mv_in c Lc HLc HL old new Po Pnw f1 Hc1' Hfree) in Hin as [(H1 & H2 & H3)|(r' & Pr' & E & H3)].
  - destruct Hx as [->|Hx].
    + rewrite (at_under_same Lc HLc new _ Pnw) in H2; [discriminate|]. constructor; [apply plain_lcf_tmp|exact Pr].
    + apply (proj1 HLk) in H3. unfold tmp_ok in Hok. rewrite (F2_tmp_kid x Hx) in Hok.
      pose proof (no_under_tmp Lc HLc x f0 Px Hc0 Hcl0 Hok _ H3) as Hn. cbn [fst] in Hn.
      rewrite (under_tmp_intro x r Px Pr Hr) in Hn. discriminate.
  - apply pa_inj in E.
    + apply app_inv_head in E. pose proof (f_equal (hd []) E) as E1. cbn [hd] in E1. subst x.
      pose proof (f_equal (@tl _) E) as E2. cbn [tl] in E2. subst r'.
      apply (proj1 HLk) in H3. unfold tmp_ok in Hok. rewrite F2_tmp_new in Hok.
      pose proof (no_under_tmp Lc HLc old f0 Po Hc0 Hcl0 Hok _ H3) as Hn. cbn [fst] in Hn.
      rewrite (under_tmp_intro old r Po Pr Hr) in Hn. discriminate.
    + apply plains_dirty; [exact HLc|exact Px|constructor; [apply plain_lcf_tmp|exact Pr]].
    + now apply plains_dirty.
Qed.

Lemma chain_nu L g x : written Lc L G2 g -> (x = new \/ In x K) -> tmp_ok Lc x g -> no_under (tmpp Lc x) g.
Proof.
  intros HWr Hx Hok.
  assert (Px : plain x) by (destruct Hx as [->|Hx]; [exact Pnw|now apply HKp]).
  assert (Hok2 : tmp_ok Lc x G2).
  { destruct (wrt_tmp Lc HLc L G2 g HWr x Px) as [T1 T2]. destruct (assoc_dec L x) as [D|D]; [now apply T1|].
    unfold tmp_ok in *. now rewrite <- (T2 D). }
  pose proof (F2_no_under x Hx Hok2) as Hnu.
  intros [q nd] Hin. cbn [fst]. apply (wrt_in Lc _ _ _ _ _ HWr) in Hin as [(k & X & Hk & ->)|[Hin _]].
  - pose proof (wrt_plain Lc _ _ _ HWr _ _ Hk) as Pk. pose proof (tmpp_vs_cfgp x k Px Pk) as Hn.
    unfold at_or_under in Hn. apply orb_false_iff in Hn as [_ Hn]. exact Hn.
  - exact (Hnu _ Hin).
Qed.
End Run.
Lemma rename_exact_post f0 e ld old new :
  fs_clean f0 -> nolink Lc f0 -> closed f0 -> NoDup (map fst f0) -> e_pretend e = false ->
  LDI (skel (read_layer_files c f0)) ld -> check_inheritance (read_layer_files c f0) = true ->
  paths_ok c (ld_map ld) -> cores_ok c f0 (ld_map ld) ->
  post (fun w => w_fs w = f0) (rename_layer e c ld old new)
       (fun _ w' => C02.rename_exact c f0 (w_fs w') old new = true).
Proof.
  intros Hc0 Hn0 Hcl0 ND Hnp [Hs HW] HCI HPa HCo. unfold rename_layer.
  pose proof (allreach_gforest _ (check_inh_allreach _ HCI)) as HG. fold (G c f0) in HG.
  apply post_guard_k. intros G0. apply andb_true_iff in G0 as [G1 G2].
  apply test_name_need in G1 as (Ho & Lo & l & El). apply test_name_free in G2 as (Hn & Ln & Hfree0). rewrite El.
  apply post_guard_k. intros _. apply post_guard_k. intros _. cbv zeta. apply post_guard_k. intros _.
  set (kids := children_in_order e (ld_map ld) old). set (K := map l_name kids).
  assert (Po : plain old) by now apply legal_plain.
  assert (Pnw : plain new) by now apply legal_plain.
  assert (Hon : old <> new) by (intros <-; congruence).
  assert (Hg : forall x, g_of (ld_map ld) x = G c f0 x) by (intros x; now apply skel_g).
  pose proof (lm_get_name _ _ _ El) as Eno. pose proof (lm_get_in _ _ _ El) as Hin.
  assert (Hgo : G c f0 old = Some (l_base l)) by (rewrite <- Hg; apply g_of_some; eauto).
  assert (Hgn : G c f0 new = None) by (rewrite <- Hg; now apply g_of_none).
  destruct (G_some_child c Lc HLc HL f0 old _ Hc0 Hn0 Hgo) as (_ & _ & Hdo & Hcbo).
  assert (HBC : bcons (ld_map ld)) by (apply (bcons_skel (read_layer_files c f0)); [now symmetry|apply rlf_bcons]).
  assert (Hloop : G c f0 old <> Some old).
  { intros E. destruct (HG _ _ E) as (k & Hk). assert (greach (G c f0) old (S k)) by (econstructor; eauto).
    pose proof (greach_det _ _ _ Hk _ H). lia. }
  assert (HK : forall x, In x K <-> G c f0 x = Some old).
  { intros x. unfold K. rewrite <- Hg. split.
    - intros H. apply in_map_iff in H as (k & <- & Hk). apply kids_sound in Hk as [H1 H2].
      rewrite (HBC k H1). now rewrite H2.
    - intros H. apply g_of_some in H as (k & Ek & Eb). rewrite <- (lm_get_name _ _ _ Ek).
      apply kids_complete; [eapply lm_get_in; eauto|exact Eb]. }
  (* a probed layer and the layer on disk *)
  assert (Hdisk : forall k, In k (ld_map ld) -> exists l0, In l0 (read_layer_files c f0) /\ l_name l0 = l_name k /\
            l_base l0 = l_base k /\ l_mounts l0 = l_mounts k /\ l_exports l0 = l_exports k).
  { intros k Hk. destruct (HCo k Hk) as (l0 & Eld & Ecore). exists l0.
    unfold core in Ecore. injection Ecore as C1 C2 C3 C4 _.
    pose proof (load_layer_props _ _ _ _ Eld) as (En & _).
    split; [|repeat split; congruence]. apply rlf_in. exists (l_name k). split; [|split; [|exact Eld]].
    - assert (Hgk : G c f0 (l_name k) = Some (l_base k)) by (rewrite <- Hg; now apply HBC).
      unfold G in Hgk. apply g_of_some in Hgk as (l1 & E1 & _). rewrite rlf_get in E1.
      destruct (memb (l_name k) (children f0 (c_layers c))) eqn:Em; [now apply memb_In|discriminate].
    - assert (Hgk : G c f0 (l_name k) = Some (l_base k)) by (rewrite <- Hg; now apply HBC).
      now destruct (G_some_child c Lc HLc HL f0 _ _ Hc0 Hn0 Hgk). }
  assert (Hkids : forall k, In k kids ->
    plain (l_name k) /\ l_name k <> old /\ l_name k <> new /\ mounts_ok k /\
    exists l0, In l0 (read_layer_files c f0) /\ l_name l0 = l_name k /\ l_base l0 = old
               /\ l_mounts l0 = l_mounts k /\ l_exports l0 = l_exports k).
  { intros k Hk. pose proof Hk as Hk'. apply kids_sound in Hk' as [Hkm Hkb].
    assert (HkK : In (l_name k) K) by (unfold K; now apply in_map).
    pose proof (proj1 (HK _) HkK) as Hgk. destruct (G_some_child c Lc HLc HL f0 _ _ Hc0 Hn0 Hgk) as (Pk & _).
    split; [exact Pk|]. split; [intros E; rewrite E in Hgk; congruence|]. split; [intros E; rewrite E in Hgk; congruence|].
    split; [now apply HW|]. destruct (Hdisk k Hkm) as (l0 & H0 & N0 & B0 & M1 & M2). exists l0. repeat split; congruence. }
  assert (Hkids_all : forall l0, In l0 (read_layer_files c f0) -> l_base l0 = old -> In (l_name l0) K).
  { intros l0 H0 B0. apply HK. unfold G. rewrite (rlf_bcons c f0 l0 H0). now rewrite B0. }
  assert (Hl : mounts_ok l /\ exists l0, In l0 (read_layer_files c f0) /\ l_name l0 = old /\ l_base l0 = l_base l
                                       /\ l_mounts l0 = l_mounts l /\ l_exports l0 = l_exports l).
  { split; [now apply HW|]. destruct (Hdisk l Hin) as (l0 & H0 & N0 & B0 & M1 & M2). exists l0. repeat split; congruence. }
  assert (Hnew_free : forall l', In l' (read_layer_files c f0) -> l_name l' <> new).
  { intros l' Hl' E. pose proof (rlf_bcons c f0 l' Hl') as Hb. fold (G c f0) in Hb. rewrite E in Hb. congruence. }
  assert (HKp : forall k, In k K -> plain k /\ k <> old /\ k <> new).
  { intros k Hk. unfold K in Hk. apply in_map_iff in Hk as (k0 & <- & Hk0). destruct (Hkids k0 Hk0) as (H1 & H2 & H3 & _). auto. }
  (* 1. export links *)
  eapply post_bind with (Q := fun _ w => Links f0 (w_fs w)).
  { eapply post_conseq; [apply post_of_hs, (links_keep e l old f0 Po Eno)| |]; cbv beta; auto.
    intros w ->. split; auto. }
  intros u1. cbv beta.
  (* 2. the directory *)
  rewrite (HPa l Hin), Eno, (layer_path_eq c Lc HLc HL old Po), (layer_path_eq c Lc HLc HL new Pnw).
  eapply post_bind with (Q := fun _ w => exists f1, Links f0 f1 /\
      (forall r m, plains r -> r <> [] -> ~ In (pa (Lc ++ new :: r), m) f1) /\
      fs_get f1 (lp Lc old) = Some Dir /\ (forall nd, In (lp Lc new, nd) f1 -> nd = Dir) /\
      (forall r, plains r -> fs_get f1 (pa (Lc ++ r)) = fs_get f0 (pa (Lc ++ r))) /\
      w_fs w = mv (lp Lc old) (lp Lc new) f1).
  { apply post_fix_world. intros w1 HL1. unfold fs_rename. apply post_do_op; [exact Hnp|].
    intros w w' -> E. cbn [op_result] in E. unfold on_fres in E.
    destruct (rename (w_fs w1) _ _) as [f'|] eqn:Er; [|discriminate]. injection E as <-. cbn [set_fs w_fs].
    set (f1 := w_fs w1) in *. destruct HL1 as [L1 L2].
    assert (PO : plains (Lc ++ [old])) by now apply plains_lp.
    assert (PN : plains (Lc ++ [new])) by now apply plains_lp.
    assert (Hget : forall r, plains r -> fs_get f1 (pa (Lc ++ r)) = fs_get f0 (pa (Lc ++ r))).
    { intros r Pr. destruct (fs_get f1 (pa (Lc ++ r))) as [m|] eqn:E1.
      - apply fs_get_In, L1 in E1. symmetry. now apply nodup_fs_get.
      - destruct (fs_get f0 (pa (Lc ++ r))) as [m|] eqn:E0; [|reflexivity]. exfalso.
        apply fs_get_In in E0. apply (L2 r m Pr) in E0. apply (proj1 (fs_get_None _ _) E1 m E0). }
    apply rename_shape in Er as [[E _]|(na & Ea & Eu & -> & Hside)].
    { exfalso. unfold lp in E. apply pa_inj in E; auto. apply app_inv_head in E. injection E as E. congruence. }
    assert (Hold_dir : fs_get f1 (lp Lc old) = Some Dir).
    { unfold lp. rewrite (Hget [old]) by (constructor; [exact Po|constructor]).
      unfold cfgbase in Hcbo. destruct (fs_get f0 (cfgp Lc old)) as [m|] eqn:Em; [|discriminate]. apply fs_get_In in Em.
      assert (Hnr : cfgp Lc old <> root).
      { unfold cfgp. intros E. apply (pa_root_iff (Lc ++ [old; lcf])) in E; [destruct Lc; discriminate|].
        apply plains_dirty; [exact HLc|exact Po|apply Plcf]. }
      pose proof (Hcl0 _ _ Em Hnr) as Hd. unfold cfgp in Hd. change (Lc ++ [old; lcf]) with (Lc ++ [old] ++ [lcf]) in Hd.
      rewrite app_assoc, pathdir_pa in Hd; [exact Hd|exact PO|apply plain_lcf]. }
    assert (Hna : na = Dir) by congruence.
    exists f1. split; [now split|]. split; [|split; [exact Hold_dir|split; [|split; [exact Hget|reflexivity]]]].
    - intros r m Pr Hr Hin1. unfold lp in Hside. rewrite (Hget [new]) in Hside by (constructor; [exact Pnw|constructor]).
      destruct (fs_get f0 (pa (Lc ++ [new]))) as [[| |]|] eqn:En.
      + destruct Hside as [_ Hh]. unfold has_children in Hh.
        assert (existsb (fun e0 => under (pa (Lc ++ [new])) (fst e0)) f1 = true); [|congruence].
        apply existsb_exists. exists (pa (Lc ++ new :: r), m). split; [exact Hin1|]. cbn [fst].
        apply under_pa; [exact PN|now apply plains_dirty|]. exists r. split; [exact Hr|now rewrite <- app_assoc].
      + subst na. now apply Hside.
      + subst na. now apply Hside.
      + apply L1 in Hin1. change (Lc ++ new :: r) with (Lc ++ [new] ++ r) in Hin1. rewrite app_assoc in Hin1.
        pose proof (closed_none f0 (Lc ++ [new]) Hcl0 PN En r Pr) as Hnone.
        apply (proj1 (fs_get_None _ _) Hnone m Hin1).
    - intros nd Hin1. pose proof Hin1 as Hin0. apply L1 in Hin0.
      unfold lp in Hside, Hin0. rewrite (Hget [new]) in Hside by (constructor; [exact Pnw|constructor]).
      rewrite (nodup_fs_get f0 _ nd ND Hin0) in Hside. destruct nd; [reflexivity| |]; subst na; now destruct Hside. }
  intros u2. cbv beta.
  (* 3. the children *)
  apply post_fix_world. intros w2 (f1 & HLk & Hfr & HAd & HBd & Hget1 & Ew2).
  set (G2 := mv (lp Lc old) (lp Lc new) f1) in *.
  eapply post_bind with (Q := fun _ w => written Lc (KLn new kids) G2 (w_fs w)).
  { eapply post_conseq;
      [apply (post_mapM_ (fun done w => written Lc (KLn new done) G2 (w_fs w))
                (fun k => write_layerfile e (set_base k new)) kids)| |]; cbv beta; auto.
    2:{ intros w ->. rewrite Ew2. constructor. }
    intros done x rest Ek. apply post_fix_world. intros w3 HW3.
    assert (Hxk : In x kids) by (fold kids; rewrite Ek; apply in_or_app; right; now left).
    destruct (Hkids x Hxk) as (Px & Hxo & Hxn & _). destruct (kids_sound _ _ _ _ Hxk) as [Hxm _].
    eapply post_conseq; [apply (write_cfg_lookup_gen c Lc HLc HL e (set_base x new) (l_name x) (w_fs w3) Hnp Px)| |]; cbv beta.
    - cbn [set_base l_path]. apply (HPa x Hxm).
    - apply (chain_nu f0 f1 old new Po Pnw Hon Hc0 Hcl0 HLk Hget1 Hfr K HKp (KLn new done) (w_fs w3) (l_name x) HW3).
      right. unfold K. now apply in_map.
    - intros w ->. reflexivity.
    - intros _ w HC. unfold KLn. rewrite map_app. cbn [map]. now apply (wrt_snoc Lc _ _ (w_fs w3)). }
  intros u3. cbv beta.
  (* 4. the renamed layer itself *)
  eapply post_bind; [apply post_renormalize|]. intros ld'. cbv beta.
  eapply post_bind with (Q := fun _ w => written Lc (KLn new kids ++ [(new, Xn Lc new l)]) G2 (w_fs w)).
  { apply post_fix_world. intros w4 HW4.
    eapply post_conseq; [apply (write_cfg_lookup_gen c Lc HLc HL e (set_name_path l new (lp Lc new)) new (w_fs w4) Hnp Pnw)| |]; cbv beta.
    - cbn [set_name_path l_path]. now rewrite (layer_path_eq c Lc HLc HL new Pnw).
    - apply (chain_nu f0 f1 old new Po Pnw Hon Hc0 Hcl0 HLk Hget1 Hfr K HKp (KLn new kids) (w_fs w4) new HW4). now left.
    - intros w ->. reflexivity.
    - intros _ w HC. now apply (wrt_snoc Lc _ _ (w_fs w4)). }
  intros u4. cbv beta. apply post_ret. intros w HWf.
  destruct HLk as [L1 L2].
  apply (rename_exact_final c Lc HLc HL old new Po Pnw Hon f0 f1 kids l ND Hc0 Hn0 L1 L2 Hfr HAd HBd Hnew_free
           (legal_tok new Ln Hn) Hkids Hkids_all Hl (w_fs w) HWf).
Qed.
End E2.

Theorem rename_exact_run e c um a b0 s :
  cfg_ok c = true -> fs_ok c (w_fs (s_w s)) = true -> LC.nodup_paths (map fst (w_fs (s_w s))) = true ->
  e_pretend e = false ->
  match run_command e c um (CRename a b0) s with
  | (Ret _, s') => C02.rename_exact c (w_fs (s_w s)) (w_fs (s_w s')) a b0 = true
  | _ => True
  end.
Proof.
  intros Hcfg Hfs Hnd Hnp.
  destruct (cfg_ok_spec c Hcfg) as (Lc & bsr & wsr & usr & Ec & bpr & gpr & Bc & PL & EL & _ & _ & _ & HE & HBP & HGP & _).
  destruct (fs_ok_spec c Lc _ PL EL Hfs) as (Hc0 & Hn0 & Hcl0).
  cbn [run_command].
  apply (with_layers_post c um (fun ld => rename_layer e c ld a b0) s
           (fun w => C02.rename_exact c (w_fs (s_w s)) (w_fs w) a b0 = true)).
  intros ld HLD HCI HP HCo.
  eapply post_conseq;
    [apply (rename_exact_post c Lc PL EL Ec bpr gpr HE HBP HGP (w_fs (s_w s)) e ld a b0 Hc0 Hn0 Hcl0)| |]; cbv beta; auto.
  - now apply nodup_paths_NoDup.
  - intros w ->. reflexivity.
Qed.
