(* C03, umount -all: the loop with its full invariant (layer definitions vs. current table,
   kernel well-formedness, build roots apart), owners of the issued calls, assembly. *)
From Coq Require Import Sorting.Sorted Sorting.Permutation.
From LC Require Import Lib.Bytes Lib.Lex Lib.Fields Lib.PathM Gen.Consts
  Model.MountInfo Model.FsTree Model.Kernel Model.Layers
  Proofs.MountInfoP Proofs.KernelP Proofs.KrnMonadP Proofs.ProbeP Proofs.RunP Proofs.UmountP
  Proofs.UmountAllP Proofs.ForestP Proofs.C03P Proofs.C04P Cases.LC Cases.C03.
Import LC LCS.
Open Scope N_scope.

Lemma st_after_app e s k1 i1 k2 i2 : st_after e (st_after e s k1 i1) k2 i2 = st_after e s k2 (i1 ++ i2).
Proof.
  unfold st_after. cbn [s_w w_fs s_n s_log]. f_equal.
  - rewrite app_length. lia.
  - unfold umlog. rewrite map_app, rev_app_distr, app_assoc. reflexivity.
Qed.


Lemma forall2_lm_set_in (R R' : layer -> layer -> Prop) m M n l l' :
  Forall2 R m M -> (forall x y, R x y -> l_name y = l_name x) ->
  NoDup (map l_name m) -> lm_get M n = Some l -> l_name l' = n ->
  (forall x, In x m -> l_name x = n -> R x l -> R' x l') ->
  (forall x y, l_name x <> n -> R x y -> R' x y) ->
  Forall2 R' m (lm_set M l').
Proof.
  intros HF Hn ND Hg Hl' Hnew Hold.
  assert (HF2 : Forall2 (fun x y => In x m /\ R x y) m M).
  { eapply forall2_impl_in; [exact HF|]. intros x y Hx Hr. split; assumption. }
  eapply (forall2_lm_set (fun x y => In x m /\ R x y) R'); eauto.
  - intros x y [_ H]. eauto.
  - intros x Hx [Hin Hr]. eauto.
  - intros x y Hne [_ Hr]. eauto.
Qed.

Lemma sublist_nil {A} (l : list A) : sublist [] l.
Proof. induction l; constructor; auto. Qed.

Section Heavy.
Variables (e : env) (c : cfgT) (um : users_map) (m : lmap) (tab0 : list kline).
Hypothesis Hp : plain e.
Hypothesis NDn : NoDup (map l_name m).
Hypothesis Hgood : forall x, In x m -> good_root (build_path c x) = true.
Hypothesis Hap : roots_apart c m = true.
(* an overlay over layer x that is mounted inside layer z's build root: z descends from x *)
Definition Povl : Prop := forall k x z, In k tab0 -> In x m -> In z m ->
  beq (k_fstype k) overlay = true -> lower_of k = build_path c x ->
  at_or_below (build_path c z) (k_mp k) = true ->
  descends (S (length m)) m (l_name x) (l_name z) = true.

Definition roots : list bytes := map (build_path c) m.
Definition usersb (x : layer) : bool := mb0 c (users_of um (l_name x)).

Lemma in_roots_below x t : In x m -> at_or_below (build_path c x) t = true -> in_roots roots t = true.
Proof.
  intros Hx Ht. unfold in_roots, roots. apply existsb_exists. exists (build_path c x).
  split; [now apply in_map|]. rewrite at_or_under_below by (apply good_root_spec, Hgood, Hx). exact Ht.
Qed.

(* what excludes a failing umount(2): well-formed parent ids (no EBUSY) and no line at or below a
   build root that a later line covers (no hidden mountpoint) *)
Definition uok (T : list kline) : bool := pwf T && nocov (fun k => in_roots roots (k_mp k)) T.

Lemma dels_uok P a b0 : dels P a b0 -> uok a = true -> uok b0 = true.
Proof.
  unfold uok. intros D H. apply andb_true_iff in H as [H1 H2]. apply andb_true_iff.
  split; [eapply dels_pwf; eauto|eapply dels_nocov; eauto].
Qed.

(* ------------------------------------------------------------------ owners *)
Lemma owner_of x t : In x m -> at_or_below (build_path c x) t = true -> C03.owner c m t = l_name x.
Proof.
  intros Hx Ht. unfold C03.owner.
  destruct (filter (fun y => at_or_under (build_path c y) t) m) as [|y r] eqn:E.
  - exfalso. assert (Hin : In x (filter (fun y => at_or_under (build_path c y) t) m)).
    { apply filter_In. split; [exact Hx|]. rewrite at_or_under_below by (apply good_root_spec, Hgood, Hx). exact Ht. }
    rewrite E in Hin. exact Hin.
  - assert (Hin : In y (filter (fun y => at_or_under (build_path c y) t) m)) by (rewrite E; now left).
    apply filter_In in Hin as [Hy Hyt]. rewrite at_or_under_below in Hyt by (apply good_root_spec, Hgood, Hy).
    destruct (list_eq_dec ascii_dec (l_name y) (l_name x)) as [En|En]; [exact En|]. exfalso.
    exact (roots_apart_spec c m y x t Hap Hy Hx En Hyt Ht).
Qed.

Inductive blocks : list bytes -> list bytes -> Prop :=
| bl_nil : blocks [] []
| bl_cons y b0 sub iss : b0 <> [] -> (forall t, In t b0 -> C03.owner c m t = y) -> blocks sub iss ->
    blocks (y :: sub) (b0 ++ iss).

Lemma dedup_adj_same y l : C03.dedup_adj (y :: y :: l) = C03.dedup_adj (y :: l).
Proof. cbn [C03.dedup_adj]. now rewrite beq_refl. Qed.
Lemma dedup_adj_diff y z l : y <> z -> C03.dedup_adj (y :: z :: l) = y :: C03.dedup_adj (z :: l).
Proof. intros H. apply beq_false in H. cbn [C03.dedup_adj]. now rewrite H. Qed.

Lemma blocks_head sub iss : blocks sub iss ->
  match map (C03.owner c m) iss with [] => sub = [] | z :: _ => exists sub', sub = z :: sub' end.
Proof.
  destruct 1 as [|y b0 sub iss Hne Hb _]; [reflexivity|].
  destruct b0 as [|t b0]; [congruence|]. cbn [app map]. rewrite (Hb t (or_introl eq_refl)). eauto.
Qed.

Lemma dedup_blocks sub iss : blocks sub iss -> NoDup sub -> C03.dedup_adj (map (C03.owner c m) iss) = sub.
Proof.
  induction 1 as [|y b0 sub iss Hne Hb Hbl IH]; intros ND; [reflexivity|].
  inversion ND as [|? ? Hny ND']; subst. specialize (IH ND'). pose proof (blocks_head _ _ Hbl) as Hh.
  rewrite map_app. clear Hbl.
  assert (G : forall b1, b1 <> [] -> (forall t, In t b1 -> C03.owner c m t = y) ->
            C03.dedup_adj (map (C03.owner c m) b1 ++ map (C03.owner c m) iss) = y :: sub).
  { induction b1 as [|t b1 IHb]; intros Hne1 Hb1; [congruence|]. cbn [map app].
    rewrite (Hb1 t (or_introl eq_refl)). destruct b1 as [|t2 b1].
    - cbn [map app]. destruct (map (C03.owner c m) iss) as [|z l] eqn:Em.
      + subst sub. reflexivity.
      + destruct Hh as (sub' & ->). rewrite dedup_adj_diff; [now rewrite IH|].
        intros E. apply Hny. rewrite E. now left.
    - cbn [map app]. rewrite (Hb1 t2 (or_intror (or_introl eq_refl))). rewrite dedup_adj_same.
      specialize (IHb ltac:(discriminate) (fun t0 H0 => Hb1 t0 (or_intror H0))).
      cbn [map app] in IHb. rewrite (Hb1 t2 (or_intror (or_introl eq_refl))) in IHb. exact IHb. }
  apply G; assumption.
Qed.


(* ------------------------------------------------------------------ invariants *)
Definition RL (done : list bytes) (T : list kline) (x l : layer) : Prop :=
  same_static x l
  /\ l_overlain l = overlain0 T (build_path c x)
  /\ l_mbusy l = usersb x
  /\ (~ In (l_name x) done -> l_kmounts l = kmounts0 tab0 (build_path c x)).

Definition KI (done : list bytes) (T : list kline) : Prop :=
  wf_table T = true /\ NoDup (kids T)
  /\ (forall k, In k T -> In k tab0)
  /\ (forall y, In y m -> ~ In (l_name y) done ->
        filter (at_or_below (build_path c y)) (map k_mp T) = filter (at_or_below (build_path c y)) (map k_mp tab0)).

Lemma RL_name done T x l : RL done T x l -> l_name l = l_name x.
Proof. intros [[H _] _]. exact H. Qed.

Lemma RL_weaken done T n x l : RL done T x l -> RL (n :: done) T x l.
Proof.
  intros (A & B & C & D). split; [exact A|]. split; [exact B|]. split; [exact C|].
  intros Hn. apply D. intros Hin. apply Hn. now right.
Qed.
Lemma KI_weaken done T n : KI done T -> KI (n :: done) T.
Proof.
  intros (A & B & D & E). repeat split; auto. intros y Hy Hn. apply E; [exact Hy|].
  intros Hin. apply Hn. now right.
Qed.

Definition P_names (names : list bytes) (k : kline) : bool :=
  existsb (fun y => memb (l_name y) names && at_or_below (build_path c y) (k_mp k)) m.

Definition nothing_below (T : list kline) (x : layer) : Prop :=
  forall k, In k T -> at_or_below (build_path c x) (k_mp k) = false.

Lemma nothing_below_dels P T T' x : dels P T T' -> nothing_below T x -> nothing_below T' x.
Proof. intros HD H k Hk. apply H. eapply dels_in; eauto. Qed.

Lemma forall2_find (R : layer -> layer -> Prop) M x : Forall2 R m M -> In x m ->
  (forall a b0, R a b0 -> l_name b0 = l_name a) ->
  exists l, lm_get M (l_name x) = Some l /\ R x l.
Proof.
  intros HF Hx Hn. apply (forall2_get R m M (l_name x) x HF Hn). now apply lm_get_in.
Qed.

(* what one layer of the loop establishes about the calls it issues *)
Definition step_calls (s : mst) (x : layer) (ks' : kstate) (iss : list bytes) : Prop :=
  legal_seq (um_legal (in_roots roots)) (w_ks (s_w s)) iss = true
  /\ ku_replay (w_ks (s_w s)) iss = ks'
  /\ dels (fun k => at_or_below (build_path c x) (k_mp k)) (ks_tab (w_ks (s_w s))) (ks_tab ks')
  /\ (forall t, In t iss -> at_or_below (build_path c x) t = true)
  /\ (iss <> [] -> overlain0 (ks_tab (w_ks (s_w s))) (build_path c x) = false).

(* one layer of the loop: either the loop goes on, or a call failed (impossible with
   well-formed parent ids and no covered line below a build root) *)
Lemma heavy_step n rest done ld busy s x :
  In x m -> l_name x = n -> ~ In n done ->
  Forall2 (RL done (ks_tab (w_ks (s_w s)))) m (ld_map ld) -> KI done (ks_tab (w_ks (s_w s))) ->
  (exists ld' busy' ks' iss,
    um_go e c (n :: rest) ld busy s = um_go e c rest ld' busy' (st_after e s ks' iss)
    /\ Forall2 (RL (n :: done) (ks_tab ks')) m (ld_map ld') /\ KI (n :: done) (ks_tab ks')
    /\ step_calls s x ks' iss
    /\ ((busy' = true /\ iss = [] /\ ks' = w_ks (s_w s)
         /\ (usersb x = true \/ overlain0 (ks_tab (w_ks (s_w s))) (build_path c x) = true))
        \/ (busy' = busy /\ usersb x = false /\ nothing_below (ks_tab ks') x)))
  \/ (exists ks' iss,
        um_go e c (n :: rest) ld busy s = (Fail, st_after e s ks' iss)
        /\ step_calls s x ks' iss /\ iss <> [] /\ uok (ks_tab (w_ks (s_w s))) <> true).
Proof.
  intros Hx Hxn Hnd HF HK. set (T := ks_tab (w_ks (s_w s))) in *.
  destruct HK as (Kwf & Kid & Kin & Kfl).
  destruct (forall2_find _ _ x HF Hx (RL_name done T)) as (l & Hg & (Hs & Ho & Hm & Hk)).
  rewrite Hxn in Hg. specialize (Hk ltac:(now rewrite Hxn)).
  destruct (ku_seq (w_ks (s_w s)) (rev (l_kmounts l))) as [[ok ks'] iss] eqn:Eku.
  rewrite (um_go_cons e c n rest ld busy s l Hp Hg ok ks' iss Eku Kwf).
  assert (Hsame : forall b1, exists ld' busy' ks1 iss1,
            um_go e c rest ld b1 s = um_go e c rest ld' busy' (st_after e s ks1 iss1)
            /\ Forall2 (RL (n :: done) (ks_tab ks1)) m (ld_map ld') /\ KI (n :: done) (ks_tab ks1)
            /\ step_calls s x ks1 iss1
            /\ busy' = b1 /\ iss1 = [] /\ ks1 = w_ks (s_w s)).
  { intros b1. exists ld, b1, (w_ks (s_w s)), []. rewrite st_after_nil. split; [reflexivity|].
    split. { eapply forall2_impl_in; [exact HF|]. intros a b2 _. apply RL_weaken. }
    split. { apply KI_weaken. repeat split; assumption. }
    split. { split; [reflexivity|]. split; [reflexivity|]. split; [constructor|]. split; [intros t []|congruence]. }
    auto. }
  destruct (error_if_busy l false) eqn:Ebusy.
  { left. destruct (Hsame true) as (ld' & busy' & ks1 & iss1 & A1 & A2 & A3 & A4 & A8 & A9 & A10).
    exists ld', busy', ks1, iss1. repeat (split; [assumption|]). left. repeat (split; [assumption|]).
    unfold error_if_busy in Ebusy. rewrite Hm, Ho in Ebusy. now apply orb_true_iff in Ebusy. }
  destruct (l_kmounts l) as [|t0 ts0] eqn:Ekm.
  { left. destruct (Hsame busy) as (ld' & busy' & ks1 & iss1 & A1 & A2 & A3 & A4 & A8 & A9 & A10).
    exists ld', busy', ks1, iss1. repeat (split; [assumption|]). right. split; [exact A8|]. split.
    { unfold error_if_busy in Ebusy. rewrite Hm in Ebusy. now apply orb_false_iff in Ebusy. }
    intros k Hk0. rewrite A10 in Hk0. destruct (at_or_below (build_path c x) (k_mp k)) eqn:Eb; [|reflexivity]. exfalso.
    assert (Hin : In (k_mp k) (kmounts0 tab0 (build_path c x))).
    { unfold kmounts0. apply sort_in. rewrite <- (Kfl x Hx ltac:(now rewrite Hxn)). apply filter_In.
      split; [apply in_map; exact Hk0|exact Eb]. }
    rewrite <- Hk in Hin. exact Hin. }
  (* the layer is unmounted *)
  assert (Hub : usersb x = false).
  { unfold error_if_busy in Ebusy. rewrite Hm in Ebusy. now apply orb_false_iff in Ebusy. }
  assert (Hnov : overlain0 T (build_path c x) = false).
  { unfold error_if_busy in Ebusy. rewrite Ho in Ebusy. now apply orb_false_iff in Ebusy. }
  assert (Hfeq : filter (at_or_below (build_path c x)) (map k_mp T) = filter (at_or_below (build_path c x)) (map k_mp tab0)).
  { apply Kfl; [exact Hx|now rewrite Hxn]. }
  destruct (ku_seq_core (build_path c x) (in_roots roots) (Hgood x Hx)) with
    (ts := rev (t0 :: ts0)) (ks := w_ks (s_w s)) as (ok' & ks'' & iss' & R & L & D & _ & _ & Hok & Hnok & Hpw).
  { intros t Ht. now apply (in_roots_below x). }
  { rewrite Hk. apply rev_sort_desc. }
  { rewrite Hk. fold T. rewrite Hfeq. apply rev_sort_perm. }
  { exact Kid. }
  rewrite Eku in R. injection R as <- <- <-.
  assert (Hcalls : step_calls s x ks' iss).
  { split; [exact L|]. split; [eapply ku_seq_replay_eq; eauto|]. split; [exact D|].
    split; [|intros _; exact Hnov].
    intros t Ht. apply (ku_seq_sub _ _ _ _ _ Eku) in Ht. rewrite <- in_rev in Ht. rewrite Hk in Ht.
    eapply kmounts0_below; eauto. }
  destruct ok.
  2:{ right. exists ks', iss. split; [reflexivity|]. split; [exact Hcalls|]. split; [now apply Hnok|].
      intros Hp0. unfold uok in Hp0. apply andb_true_iff in Hp0 as [Hp0 Hc0].
      assert (Hc1 : nocov (fun k => at_or_below (build_path c x) (k_mp k)) (ks_tab (w_ks (s_w s))) = true).
      { eapply nocov_mono; [|exact Hc0]. intros k Hk0. now apply (in_roots_below x). }
      specialize (Hpw Hp0 Hc1). discriminate. }
  left. destruct (Hok eq_refl) as [Hiss Hrem].
  destruct (after_unmount_some c (w_fs (s_w s)) (ks_tab ks') ld n l Hg) as (r & Ea). rewrite Ea.
  destruct (after_unmount_spec _ _ _ _ _ _ Ea) as (l1 & Hg1 & ->). cbn [snd].
  set (ld1 := refresh_pure c (ks_tab ks') ld) in *.
  exists (set_layer ld1 (find_layerstate c (w_fs (s_w s)) ld1 l1)), busy, ks', iss.
  split; [reflexivity|].
  assert (HK' : KI (n :: done) (ks_tab ks')).
  { split; [eapply wf_table_dels; eauto|]. split; [eapply dels_nodup; eauto|].
    split. { intros k Hk0. apply Kin. eapply dels_in; eauto. }
    intros y Hy Hny. rewrite <- Kfl; [|exact Hy|intros Hin; apply Hny; now right].
    symmetry. eapply dels_filter_mp; [|exact D]. intros k Hk0. cbn beta in Hk0.
    destruct (at_or_below (build_path c y) (k_mp k)) eqn:Ey; [|reflexivity]. exfalso.
    apply (roots_apart_spec c m x y (k_mp k) Hap Hx Hy); auto.
    intros En. apply Hny. left. now rewrite <- En. }
  split.
  { (* layer definitions *)
    unfold set_layer. cbn [ld_map].
    assert (HF1 : Forall2 (RL (n :: done) (ks_tab ks')) m (ld_map ld1)).
    { unfold ld1, refresh_pure. cbn [ld_map]. clear -HF. induction HF as [|a b0 m0 M Hab HF IH]; cbn [map]; constructor; [|exact IH].
      destruct Hab as ((S1 & S2 & S3 & S4 & S5) & B & C & D0). split; [repeat split; assumption|].
      split. { cbn [l_overlain set_overlain]. now rewrite (build_path_static c a b0 S3). }
      split; [exact C|]. intros Hn. apply D0. intros Hin. apply Hn. now right. }
    pose proof (find_layerstate_fields c (w_fs (s_w s)) ld1 l1) as Hf. unfold lfields in Hf.
    injection Hf as F1 F2 F3 F4 F5 F6 F7 F8 F9 F10.
    destruct (lm_get_name _ _ _ Hg1) as [Hn1 _].
    eapply forall2_lm_set_in; [exact HF1|apply RL_name|exact NDn|exact Hg1|now rewrite F1| |auto].
    intros y Hym Hy ((S1 & S2 & S3 & S4 & S5) & B & C & D0).
    assert (Eyx : y = x) by (apply (nodup_names_inj m y x NDn Hym Hx); congruence).
    subst y. split; [|split; [|split]].
    - unfold same_static. rewrite F1, F2, F5, F3, F4. auto.
    - now rewrite F8.
    - now rewrite F6.
    - intros Hn. exfalso. apply Hn. now left. }
  split; [exact HK'|]. split; [exact Hcalls|].
  right. split; [reflexivity|]. split; [exact Hub|exact Hrem].
Qed.

Lemma P_names_mono names names' k : (forall n, In n names -> In n names') ->
  P_names names k = true -> P_names names' k = true.
Proof.
  intros H. unfold P_names. rewrite !existsb_exists. intros (y & Hy & Hb). exists y. split; [exact Hy|].
  apply andb_true_iff in Hb as [Hb1 Hb2]. rewrite Hb2, andb_true_r. apply memb_In. apply H. now apply memb_In.
Qed.

(* what the whole loop establishes about its calls *)
Definition loop_calls (names : list bytes) (s : mst) (ks' : kstate) (iss sub : list bytes) : Prop :=
  legal_seq (um_legal (in_roots roots)) (w_ks (s_w s)) iss = true
  /\ ku_replay (w_ks (s_w s)) iss = ks'
  /\ dels (P_names names) (ks_tab (w_ks (s_w s))) (ks_tab ks')
  /\ blocks sub iss /\ sublist sub names
  /\ (forall t, In t iss -> exists x, In x m /\ at_or_below (build_path c x) t = true
                                  /\ overlain0 (ks_tab ks') (build_path c x) = false).

(* ... and about the layers when it runs to the end *)
Definition loop_end (names : list bytes) (busy b' : bool) (ks' : kstate) : Prop :=
  (b' = false -> busy = false /\ forall x, In x m -> In (l_name x) names ->
                   usersb x = false /\ nothing_below (ks_tab ks') x)
  /\ (Povl -> forall x, In x m -> In (l_name x) names ->
        nothing_below (ks_tab ks') x \/ usersb x = true \/ overlain0 (ks_tab ks') (build_path c x) = true).

Lemma heavy_loop : forall names done ld busy s,
  NoDup names -> StronglySorted (not_anc m) names ->
  (forall n, In n names -> ~ In n done /\ exists x, In x m /\ l_name x = n) ->
  Forall2 (RL done (ks_tab (w_ks (s_w s)))) m (ld_map ld) -> KI done (ks_tab (w_ks (s_w s))) ->
  exists o ks' iss sub,
    um_go e c names ld busy s = (o, st_after e s ks' iss)
    /\ loop_calls names s ks' iss sub
    /\ ((o = Fail /\ uok (ks_tab (w_ks (s_w s))) <> true)
        \/ exists b' ld', o = Ret (b', ld') /\ loop_end names busy b' ks').
Proof.
  induction names as [|n rest IH]; intros done ld busy s ND HS Hnames HF HK.
  - exists (Ret (busy, ld)), (w_ks (s_w s)), [], []. rewrite st_after_nil. split; [reflexivity|].
    split. { split; [reflexivity|]. split; [reflexivity|]. split; [constructor|]. split; [constructor|]. split; [constructor|intros t []]. }
    right. exists busy, ld. split; [reflexivity|]. split.
    + intros ->. split; [reflexivity|intros x _ []].
    + intros _ x _ [].
  - destruct (Hnames n (or_introl eq_refl)) as (Hnd & x & Hx & Hxn).
    inversion ND as [|? ? Hnr ND']; subst. inversion HS as [|? ? HS' HFa]; subst.
    assert (Hmono1 : forall k, at_or_below (build_path c x) (k_mp k) = true -> P_names (l_name x :: rest) k = true).
    { intros k Hk. unfold P_names. apply existsb_exists. exists x.
      split; [exact Hx|]. rewrite Hk, andb_true_r. apply memb_In. now left. }
    assert (Hov_keep : forall iss1, (forall t, In t iss1 -> at_or_below (build_path c x) t = true) ->
              (iss1 <> [] -> overlain0 (ks_tab (w_ks (s_w s))) (build_path c x) = false) ->
              forall T', (forall k, In k T' -> In k (ks_tab (w_ks (s_w s)))) ->
              forall t, In t iss1 -> exists x0, In x0 m /\ at_or_below (build_path c x0) t = true
                                          /\ overlain0 T' (build_path c x0) = false).
    { intros iss1 Ht1 Hov1 T' Hsub t Ht. exists x. split; [exact Hx|]. split; [now apply Ht1|].
      eapply overlain0_incl; [exact Hsub|]. apply Hov1. intros E. rewrite E in Ht. exact Ht. }
    destruct (heavy_step (l_name x) rest done ld busy s x Hx eq_refl Hnd HF HK)
      as [(ld1 & busy1 & ks1 & iss1 & G1 & HF1 & HK1 & (L1 & R1 & D1 & Ht1 & Hov1) & Hst)
         |(ks1 & iss1 & G1 & (L1 & R1 & D1 & Ht1 & Hov1) & Hne1 & Hpw1)].
    2:{ (* a call failed *)
        exists Fail, ks1, iss1, [l_name x]. split; [exact G1|].
        split. { split; [exact L1|]. split; [exact R1|]. split; [eapply dels_mono; [|exact D1]; exact Hmono1|].
                 split. { rewrite <- (app_nil_r iss1). apply bl_cons; [exact Hne1| |constructor].
                          intros t Ht. apply owner_of; [exact Hx|]. now apply Ht1. }
                 split; [apply sl_keep; apply sublist_nil|].
                 apply (Hov_keep iss1 Ht1 Hov1). intros k Hk. eapply dels_in; eauto. }
        left. split; [reflexivity|exact Hpw1]. }
    destruct (IH (l_name x :: done) ld1 busy1 (st_after e s ks1 iss1) ND' HS') as
      (o & ks' & iss2 & sub2 & G2 & (L2 & R2 & D2 & B2 & S2 & O2) & Hout).
    { intros n' Hn'. destruct (Hnames n' (or_intror Hn')) as (A & B). split; [|exact B].
      intros [E|Hin]; [|contradiction]. apply Hnr. now rewrite E. }
    { exact HF1. }
    { exact HK1. }
    cbn [st_after s_w w_ks] in L2, R2, D2, O2, Hout.
    assert (Hdels : dels (P_names (l_name x :: rest)) (ks_tab (w_ks (s_w s))) (ks_tab ks')).
    { eapply dels_trans.
      - eapply dels_mono; [|exact D1]. exact Hmono1.
      - eapply dels_mono; [|exact D2]. intros k. apply P_names_mono. intros n' Hn'. now right. }
    exists o, ks', (iss1 ++ iss2), (match iss1 with [] => sub2 | _ => l_name x :: sub2 end).
    split. { rewrite G1, G2, st_after_app. reflexivity. }
    split.
    { split. { rewrite legal_seq_app, L1, R1. exact L2. }
      split. { rewrite ku_replay_app, R1. exact R2. }
      split; [exact Hdels|].
      split. { destruct iss1 as [|t1 i1] eqn:Ei; [exact B2|]. rewrite <- Ei in *. apply bl_cons; [congruence| |exact B2].
               intros t Ht. apply owner_of; [exact Hx|]. now apply Ht1. }
      split. { destruct iss1; [now apply sl_skip|now apply sl_keep]. }
      intros t Ht. apply in_app_or in Ht as [Ht|Ht]; [|now apply O2].
      apply (Hov_keep iss1 Ht1 Hov1); [|exact Ht]. intros k Hk. eapply dels_in; eauto. }
    destruct Hout as [(Eo & Hpw2)|(b' & ld' & Eo & Ha & Hb)].
    { left. split; [exact Eo|]. intros Hp0. apply Hpw2. eapply dels_uok; eauto. }
    right. exists b', ld'. split; [exact Eo|]. split.
    + intros Eb. destruct (Ha Eb) as [Hb1 Hrest].
      destruct Hst as [(Hb' & _)|(Hb' & Hux)]; [congruence|].
      split; [congruence|]. intros y Hy [Hyn|Hyn].
      * rewrite (nodup_names_inj m y x NDn Hy Hx (eq_sym Hyn)) in *. destruct Hux as [Hu Hnb].
        split; [exact Hu|]. eapply nothing_below_dels; [exact D2|exact Hnb].
      * now apply Hrest.
    + intros Hovl y Hy [Hyn|Hyn]; [|now apply Hb].
      rewrite (nodup_names_inj m y x NDn Hy Hx (eq_sym Hyn)) in *.
      destruct Hst as [(_ & _ & Eks & Hbz)|(_ & Hux)].
      * destruct Hbz as [Hu|Hov]; [right; now left|].
        right. right. rewrite Eks in D2. unfold overlain0 in Hov |- *. apply existsb_exists in Hov as (k & Hk & Hkb).
        apply existsb_exists. exists k. split; [|exact Hkb]. eapply dels_keep; [exact D2|exact Hk|].
        apply andb_true_iff in Hkb as [Hk1 Hk2]. apply beq_true in Hk2.
        unfold P_names. apply existsb_false_forall. intros z Hz.
        destruct (memb (l_name z) rest) eqn:Em; [|reflexivity]. cbn [andb].
        destruct (at_or_below (build_path c z) (k_mp k)) eqn:Ez; [|reflexivity]. exfalso.
        destruct HK as (_ & _ & Kin & _).
        pose proof (Hovl k x z (Kin k Hk) Hx Hz Hk1 Hk2 Ez) as Hd.
        apply memb_In in Em. rewrite Forall_forall in HFa. apply (HFa _ Em). split; [|exact Hd].
        intros E. apply Hnr. now rewrite E.
      * destruct Hux as [_ Hnb]. left. eapply nothing_below_dels; [exact D2|exact Hnb].
Qed.

End Heavy.

(* ------------------------------------------------------------------ the two halves of the predicate *)
Definition all_safe (c : cfgT) (w : wobs) (v : sview) : bool :=
  let m := layers_on_disk c (wo_fs w) in
  let roots := map (build_path c) m in
  let calls := syscalls (v_log v) in
  let tab' := ks_tab (wo_ks (v_after v)) in
  C03.calls_legal (wo_fs w) (wo_ks w) calls roots
  && C03.frame roots (ks_tab (wo_ks w)) tab'
  && C03.descendants_first m (C03.dedup_adj (map (C03.owner c m) (umount_targets calls)))
  && forallb (fun x => negb (overlain_by_mount c tab' x)
                       || negb (existsb (fun t => at_or_under (build_path c x) t) (umount_targets calls))) m.

Definition all_outcome (c : cfgT) (w : wobs) (v : sview) : bool :=
  let m := layers_on_disk c (wo_fs w) in
  let tab := ks_tab (wo_ks w) in
  let tab' := ks_tab (wo_ks (v_after v)) in
  match v_res v with
  | ROk =>
    forallb (fun x => negb (existsb (in_mount_dirs c) (users_of (v_users v) (l_name x)) && has_mounts c tab x)
                      && negb (any_at_or_under tab' (build_path c x))) m
  | RFail =>
    forallb (fun x => negb (any_at_or_under tab' (build_path c x))
                      || C03.busy_for_umount c tab' (v_users v) x) m
  | _ => true
  end.

Lemma step_spec_all c w v : v_cmd v = CUmount [] true -> plain_env (v_env v) = true -> set_up c w = true ->
  C03.step_spec c w v = all_safe c w v && all_outcome c w v.
Proof.
  intros E1 E2 E3. unfold C03.step_spec, all_safe, all_outcome. unfold set_up in E3. rewrite E1, E2, E3. reflexivity.
Qed.

(* ------------------------------------------------------------------ hypotheses (decidable) *)
(* an overlay whose lower directory is layer x's build root and that is mounted inside some
   layer z's build root belongs to a descendant (or x itself) *)
Definition ovl_placed (c : cfgT) (m : lmap) (tab : list kline) : bool :=
  forallb (fun k =>
    negb (beq (k_fstype k) overlay) ||
    forallb (fun x =>
      negb (beq (lower_of k) (build_path c x)) ||
      forallb (fun z => negb (at_or_below (build_path c z) (k_mp k))
                        || descends (S (length m)) m (l_name x) (l_name z)) m) m) tab.

Lemma ovl_placed_spec c m tab : ovl_placed c m tab = true -> Povl c m tab.
Proof.
  unfold ovl_placed, Povl. rewrite forallb_forall. intros H k x z Hk Hx Hz Ho Hl Hb.
  specialize (H k Hk). rewrite Ho in H. cbn [negb orb] in H. rewrite forallb_forall in H.
  specialize (H x Hx). rewrite Hl, beq_refl in H. cbn [negb orb] in H. rewrite forallb_forall in H.
  specialize (H z Hz). rewrite Hb in H. exact H.
Qed.

Definition C03_all_safe_hyp (c : cfgT) (w : wobs) : bool :=
  let m := layers_on_disk c (wo_fs w) in
  wf_kernel (wo_ks w) && wf_layers c m && roots_apart c m.

Definition C03_all_hyp (c : cfgT) (w : wobs) : bool :=
  let m := layers_on_disk c (wo_fs w) in
  let tab := ks_tab (wo_ks w) in
  C03_all_safe_hyp c w && uok c m tab && dirs_noslash c && ovl_placed c m tab.

(* ------------------------------------------------------------------ the loop from the initial world *)
Section FromWorld.
Variables (c : cfgT) (w : wobs) (e : env) (um : users_map).
Hypothesis He : plain_env e = true.
Hypothesis Hsafe : C03_all_safe_hyp c w = true.

Let m := layers_on_disk c (wo_fs w).
Let tab := ks_tab (wo_ks w).
Let s0 := s0_of (world_of w).

Lemma safe_hyp_parts : wf_table tab = true /\ NoDup (kids tab) /\ NoDup (map l_name m)
  /\ (forall x, In x m -> good_root (build_path c x) = true) /\ roots_apart c m = true.
Proof.
  unfold C03_all_safe_hyp in Hsafe. cbv zeta in Hsafe.
  apply andb_true_iff in Hsafe as [Hh Hap]. apply andb_true_iff in Hh as [Hk Hl].
  destruct (wf_kernel_spec _ Hk) as [Hwf NDi]. destruct (wf_layers_spec _ _ Hl) as [NDn Hgood]. auto.
Qed.

Lemma all_loop ord : normalize_order m = Some ord ->
  let ld := probe_pure c um (wo_fs w) tab m ord in
  NoDup (rev ord) /\ StronglySorted (not_anc m) (rev ord) /\ (forall x, In x m -> In (l_name x) (rev ord))
  /\ exists o ks' iss sub,
       um_go e c (rev (ld_order ld)) ld false s0 = (o, st_after e s0 ks' iss)
       /\ loop_calls c m (rev ord) s0 ks' iss sub
       /\ ((o = Fail /\ uok c m tab <> true)
           \/ exists b' ld', o = Ret (b', ld') /\ loop_end c um m tab (rev ord) false b' ks').
Proof.
  intros Hn ld. destruct safe_hyp_parts as (Hwf & NDi & NDn & Hgood & Hap).
  pose proof (plain_env_plain e He) as Hp.
  assert (Hperm : Permutation ord (map l_name m)) by (now apply normalize_perm).
  destruct (probe_pure_inv c um (wo_fs w) tab m ord NDn (read_layer_files_fresh c (wo_fs w))) as (HF & Hord & _).
  { intros y Hy. eapply Permutation_in; [symmetry; exact Hperm|]. now apply in_map. }
  fold ld in HF, Hord.
  assert (ND : NoDup (rev ord)).
  { apply NoDup_rev. eapply Permutation_NoDup; [symmetry; exact Hperm|exact NDn]. }
  assert (HS : StronglySorted (not_anc m) (rev ord)) by (now apply order_descendants_first).
  assert (Hall : forall x, In x m -> In (l_name x) (rev ord)).
  { intros x Hx. rewrite <- in_rev. eapply Permutation_in; [symmetry; exact Hperm|]. now apply in_map. }
  split; [exact ND|]. split; [exact HS|]. split; [exact Hall|].
  rewrite Hord.
  apply (heavy_loop e c um m tab Hp NDn Hgood Hap (rev ord) [] ld false s0 ND HS).
  - intros n Hn0. split; [intros []|]. rewrite <- in_rev in Hn0.
    apply (Permutation_in _ Hperm) in Hn0. apply in_map_iff in Hn0 as (x & E & Hx). eauto.
  - eapply forall2_impl_in; [exact HF|]. intros x l Hx (Hs & Ho & K1 & K2 & _).
    split; [exact Hs|]. split; [exact Ho|]. split; [exact K2|]. intros _. exact K1.
  - split; [exact Hwf|]. split; [exact NDi|]. split; auto.
Qed.

(* the four safety conjuncts from the facts about the calls *)
Lemma safe_of_calls names o ks' iss sub lay : NoDup names -> StronglySorted (not_anc m) names ->
  loop_calls c m names s0 ks' iss sub ->
  all_safe c w (MkV e (CUmount [] true) um o (rev (s_log (st_after e s0 ks' iss)))
                    (MkWO (w_fs (s_w (st_after e s0 ks' iss))) (w_ks (s_w (st_after e s0 ks' iss)))) lay) = true.
Proof.
  intros ND HS (L & _ & D & Bl & Sl & Ov). destruct safe_hyp_parts as (Hwf & NDi & NDn & Hgood & Hap).
  unfold all_safe. cbn [v_log v_after st_after s_log s_w w_ks w_fs s0 s0_of wo_ks wo_fs].
  rewrite app_nil_r, rev_involutive, syscalls_umlog, umount_targets_umlog. fold m. fold tab.
  apply andb_true_iff. split; [apply andb_true_iff; split; [apply andb_true_iff; split|]|].
  - unfold C03.calls_legal. rewrite replay_umlog. exact L.
  - apply frame_dels. eapply dels_mono; [|exact D]. intros k Hk0. unfold P_names in Hk0.
    apply existsb_exists in Hk0 as (y & Hy & Hyb). apply andb_true_iff in Hyb as [_ Hyb].
    exact (in_roots_below c m Hgood y _ Hy Hyb).
  - rewrite (dedup_blocks c m sub iss Bl).
    + apply descendants_first_intro; [eapply sublist_nodup; eauto|eapply sublist_sorted; eauto].
    + eapply sublist_nodup; eauto.
  - (* a layer still overlain at the end was not touched *)
    apply forallb_forall. intros x Hx.
    destruct (existsb (fun t => at_or_under (build_path c x) t) iss) eqn:Et; [|now rewrite orb_true_r].
    apply existsb_exists in Et as (t & Ht & Hxt). destruct (Ov t Ht) as (y & Hy & Hyt & Hyo).
    rewrite at_or_under_below in Hxt by (apply good_root_spec, (Hgood x Hx)).
    assert (Exy : x = y).
    { apply (nodup_names_inj m x y NDn Hx Hy).
      destruct (list_eq_dec ascii_dec (l_name x) (l_name y)) as [E|E]; [exact E|]. exfalso.
      exact (roots_apart_spec c m x y t Hap Hx Hy E Hxt Hyt). }
    subst y. change (overlain_by_mount c (ks_tab ks') x) with (overlain0 (ks_tab ks') (build_path c x)).
    now rewrite Hyo.
Qed.

Theorem C03_all_safety_proof : all_safe c w (view_of_model c w e (CUmount [] true) um) = true.
Proof.
  destruct safe_hyp_parts as (Hwf & NDi & NDn & Hgood & Hap).
  destruct (run_cases e c um (CUmount [] true) (world_of w) eq_refl Hwf) as [R|ord Hb Hci Hn R].
  - rewrite (view_of_run _ _ _ _ _ _ _ R). unfold all_safe. cbn [v_log v_after s0_of s_log rev syscalls filter umount_targets flat_map map].
    rewrite frame_dels by constructor. cbn [C03.calls_legal replay_calls C03.dedup_adj C03.descendants_first andb].
    apply forallb_forall. intros x _. cbn [existsb negb]. apply orb_true_r.
  - cbn [world_of w_fs w_ks cmd_body] in R, Hn. change (read_layer_files c (wo_fs w)) with m in R, Hn. fold tab in R.
    destruct (all_loop ord Hn) as (ND & HS & _ & o & ks' & iss & sub & G & Hcalls & _).
    rewrite unmount_all_eq in R. unfold bind in R. match type of R with _ = omap Some (let (_, _) := ?X in _) =>
      destruct X as [o1 s1] eqn:GX end.
    assert (EX : (o1, s1) = (o, st_after e s0 ks' iss)) by (rewrite <- GX; exact G).
    injection EX as -> ->.
    assert (R' : exists o', run e c um (CUmount [] true) (world_of w) = (o', st_after e s0 ks' iss)).
    { rewrite R. destruct o as [[b0 ld']| | | |]; cbn [omap fst snd]; [destruct b0|..]; eexists; reflexivity. }
    destruct R' as (o' & R'). rewrite (view_of_run _ _ _ _ _ _ _ R').
    eapply safe_of_calls; eauto.
Qed.

End FromWorld.

Theorem C03_all_proof : forall c w e um, plain_env e = true -> C03_all_hyp c w = true ->
  C03.step_spec c w (view_of_model c w e (CUmount [] true) um) = true.
Proof.
  intros c w e um He Hh. unfold C03_all_hyp in Hh. cbv zeta in Hh.
  apply andb_true_iff in Hh as [Hh Hovl]. apply andb_true_iff in Hh as [Hh Hdn].
  apply andb_true_iff in Hh as [Hsafe Hpw].
  destruct (set_up c w) eqn:Epre; [|now apply C03_not_set_up].
  pose proof Epre as Epre2. unfold set_up in Epre2. apply andb_true_iff in Epre2 as [Hb Hci].
  destruct (view_fields c w e (CUmount [] true) um) as (E1 & E2 & _).
  rewrite step_spec_all by (rewrite ?E1, ?E2; auto).
  rewrite (C03_all_safety_proof c w e um He Hsafe). cbn [andb].
  destruct (safe_hyp_parts c w Hsafe) as (Hwf & NDi & NDn & Hgood & Hap).
  set (m := layers_on_disk c (wo_fs w)) in *. set (tab := ks_tab (wo_ks w)) in *.
  destruct (run_go e c um (CUmount [] true) (world_of w) eq_refl Hwf Hb Hci) as (ord & Hn & R).
  cbn [world_of w_fs w_ks cmd_body] in R, Hn. change (read_layer_files c (wo_fs w)) with m in R, Hn. fold tab in R.
  destruct (all_loop c w e um He Hsafe ord Hn) as (ND & HS & Hall & o & ks' & iss & sub & G & (_ & _ & D & _) & Hout).
  destruct Hout as [(_ & Hnp)|(b' & ld' & -> & Ha & Hbz)]; [contradiction|].
  specialize (Hbz (ovl_placed_spec c m tab Hovl)).
  rewrite unmount_all_eq in R. unfold bind in R.
  match type of R with _ = omap Some (let (_, _) := ?X in _) =>
    assert (EX : X = (Ret (b', ld'), st_after e (s0_of (world_of w)) ks' iss)) by exact G; rewrite EX in R end.
  cbn [fst snd] in R.
  assert (R' : run e c um (CUmount [] true) (world_of w)
               = ((if b' then Fail else Ret (Some ld')), st_after e (s0_of (world_of w)) ks' iss)).
  { rewrite R. destruct b'; reflexivity. }
  rewrite (view_of_run _ _ _ _ _ _ _ R'). unfold all_outcome.
  cbn [v_res v_after v_users st_after s_w w_ks wo_ks]. fold m. fold tab.
  assert (Hnb : forall x, In x m -> nothing_below c (ks_tab ks') x -> any_at_or_under (ks_tab ks') (build_path c x) = false).
  { intros x Hx Hnb. unfold any_at_or_under. apply existsb_false_forall. intros k Hk0.
    rewrite at_or_under_below by (apply good_root_spec, Hgood, Hx). now apply Hnb. }
  destruct b'; cbn [rclass_of].
  - apply forallb_forall. intros x Hx.
    destruct (Hbz x Hx (Hall x Hx)) as [H1|[H1|H1]].
    + now rewrite (Hnb x Hx H1).
    + apply orb_true_iff. right. unfold C03.busy_for_umount. apply orb_true_iff. left.
      apply mb0_in_mount_dirs; assumption.
    + apply orb_true_iff. right. unfold C03.busy_for_umount. apply orb_true_iff. right.
      rewrite <- overlain0_spec. exact H1.
  - destruct (Ha eq_refl) as [_ Hok]. apply forallb_forall. intros x Hx.
    destruct (Hok x Hx (Hall x Hx)) as [Hu Hnb0]. rewrite (Hnb x Hx Hnb0). cbn [negb]. rewrite andb_true_r.
    apply negb_true_iff. destruct (existsb (in_mount_dirs c) (users_of um (l_name x))) eqn:Eu; [|reflexivity].
    apply in_mount_dirs_mb0 in Eu. unfold usersb in Hu. congruence.
Qed.

(* ------------------------------------------------------------------ every form of the command *)
Definition C03_hyp (c : cfgT) (w : wobs) (n : bytes) (all : bool) : bool :=
  match n, all with
  | [], false => wf_table (ks_tab (wo_ks w))
  | _ :: _, false => wf_kernel (wo_ks w) && wf_layers c (layers_on_disk c (wo_fs w))
  | [], true => C03_all_hyp c w
  | _ :: _, true => true
  end.

Theorem C03_model_proof : forall c w e um n all, plain_env e = true -> C03_hyp c w n all = true ->
  C03.step_spec c w (view_of_model c w e (CUmount n all) um) = true.
Proof.
  intros c w e um n all He Hh. destruct n as [|a r], all; cbn [C03_hyp] in Hh.
  - now apply C03_all_proof.
  - now apply C03_noargs_proof.
  - destruct (set_up c w) eqn:Epre; [|now apply C03_not_set_up].
    destruct (view_fields c w e (CUmount (a :: r) true) um) as (E1 & E2 & _).
    unfold C03.step_spec. unfold set_up in Epre. rewrite E1, E2, He, Epre. reflexivity.
  - apply andb_true_iff in Hh as [H1 H2]. now apply C03_single_proof.
Qed.

(* the predicate only speaks about plain environments, so the hypothesis can be dropped *)
Theorem C03_model_any_env : forall c w e um n all, C03_hyp c w n all = true ->
  C03.step_spec c w (view_of_model c w e (CUmount n all) um) = true.
Proof.
  intros c w e um n all Hh. destruct (plain_env e) eqn:He; [now apply C03_model_proof|].
  destruct (view_fields c w e (CUmount n all) um) as (E1 & E2 & _).
  unfold C03.step_spec. rewrite E1, E2, He. reflexivity.
Qed.

(* the known-finding class of Cases/C03.v is the negation of the covered-line hypothesis *)
Lemma kf_class : forall c w v, v_cmd v = CUmount [] true -> plain_env (v_env v) = true ->
  v_res v = RFail -> C03.step_kf c w v = 0%N ->
  nocov (fun k => in_roots (roots c (layers_on_disk c (wo_fs w))) (k_mp k)) (ks_tab (wo_ks w)) = true.
Proof.
  intros c w v E1 E2 E3. unfold C03.step_kf, C03.covered_below. rewrite E1, E2, E3. cbn [rclass_beq andb].
  unfold in_roots, roots.
  destruct (nocov _ _); [reflexivity|]. cbn [negb]. discriminate.
Qed.
