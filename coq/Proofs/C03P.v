(* C03: the model's umount step satisfies the property predicate. *)
From Coq Require Import Sorting.Permutation.
From LC Require Import Lib.Bytes Lib.Lex Lib.Fields Lib.PathM Gen.Consts
  Model.MountInfo Model.FsTree Model.Kernel Model.Layers
  Proofs.MountInfoP Proofs.KernelP Proofs.KrnMonadP Proofs.ProbeP Proofs.RunP Proofs.UmountP
  Cases.LC Cases.C03.
Import LC LCS.
Open Scope N_scope.

(* ------------------------------------------------------------------ hypotheses (decidable) *)
(* the kernel table: lines as the kernel writes them, unique mount ids *)
Definition wf_kernel (ks : kstate) : bool :=
  wf_table (ks_tab ks) && nodup_paths (kids (ks_tab ks)).
(* the layers found on disk: unique names, build roots that are neither "" nor "/" *)
Definition wf_layers (c : cfgT) (m : lmap) : bool :=
  nodup_paths (map l_name m) && forallb (fun x => good_root (build_path c x)) m.

Lemma wf_kernel_spec ks : wf_kernel ks = true -> wf_table (ks_tab ks) = true /\ NoDup (kids (ks_tab ks)).
Proof. unfold wf_kernel. rewrite andb_true_iff. intros [H1 H2]. split; [exact H1|now apply nodup_paths_spec]. Qed.
Lemma wf_layers_spec c m : wf_layers c m = true ->
  NoDup (map l_name m) /\ forall x, In x m -> good_root (build_path c x) = true.
Proof.
  unfold wf_layers. rewrite andb_true_iff, forallb_forall. intros [H1 H2]. split; [now apply nodup_paths_spec|exact H2].
Qed.

(* ------------------------------------------------------------------ no installation *)
Definition set_up (c : cfgT) (w : wobs) : bool :=
  base_set_up c (wo_fs w) && check_inheritance (layers_on_disk c (wo_fs w)).

Lemma C03_not_set_up c w e um n all : plain_env e = true -> set_up c w = false ->
  C03.step_spec c w (view_of_model c w e (CUmount n all) um) = true.
Proof.
  intros He Hn.
  pose proof (run_not_set_up e c um (CUmount n all) (world_of w) eq_refl Hn) as R.
  rewrite (view_of_run _ _ _ _ _ _ _ R). unfold C03.step_spec. cbn [v_cmd v_env]. rewrite He. cbn [negb].
  unfold set_up in Hn. rewrite Hn. cbn [negb]. apply unchanged_refl; reflexivity.
Qed.

(* ------------------------------------------------------------------ (a) neither layer nor -all *)
Theorem C03_noargs_proof : forall c w e um, plain_env e = true -> wf_table (ks_tab (wo_ks w)) = true ->
  C03.step_spec c w (view_of_model c w e (CUmount [] false) um) = true.
Proof.
  intros c w e um He Hwf. destruct (set_up c w) eqn:Epre; [|now apply C03_not_set_up].
  assert (R : run e c um (CUmount [] false) (world_of w) = (Fail, s0_of (world_of w))).
  { destruct (run_cases e c um (CUmount [] false) (world_of w) eq_refl Hwf) as [R|o _ _ _ R]; [exact R|].
    rewrite R. reflexivity. }
  rewrite (view_of_run _ _ _ _ _ _ _ R). unfold C03.step_spec. cbn [v_cmd v_env v_res v_log v_after s0_of s_log rev].
  rewrite He. unfold set_up in Epre. rewrite Epre. cbn [negb rclass_of rclass_beq andb syscalls filter].
  rewrite unchanged_refl; reflexivity.
Qed.

(* ------------------------------------------------------------------ (b) umount L *)
Definition single_ok (c : cfgT) (w : wobs) (x : layer) (res : rclass) (log : list op) (ks' : kstate) : bool :=
  let bld := build_path c x in
  C03.calls_legal (wo_fs w) (wo_ks w) (syscalls log) [bld]
  && C03.frame [bld] (ks_tab (wo_ks w)) (ks_tab ks')
  && match res with ROk => negb (any_at_or_under (ks_tab ks') bld) | _ => true end.

Lemma step_spec_single c w e um a r res log f' ks' lay : plain_env e = true -> set_up c w = true ->
  C03.step_spec c w (MkV e (CUmount (a :: r) false) um res log (MkWO f' ks') lay) =
  match lm_get (layers_on_disk c (wo_fs w)) (a :: r) with
  | None => true
  | Some x => single_ok c w x res log ks'
  end.
Proof. intros He Hs. unfold C03.step_spec. cbn [v_cmd v_env]. rewrite He. unfold set_up in Hs. rewrite Hs. reflexivity. Qed.

Lemma st_after_nil e s : st_after e s (w_ks (s_w s)) [] = s.
Proof. destruct s as [[f k] n lg]. reflexivity. Qed.

Lemma frame_dels roots a b0 : dels (fun k => in_roots roots (k_mp k)) a b0 -> C03.frame roots a b0 = true.
Proof.
  intros HD. unfold C03.frame.
  rewrite (dels_filter (fun k => in_roots roots (k_mp k))
             (fun k => negb (existsb (fun d => at_or_under d (k_mp k)) roots)) a b0).
  - apply ktab_beq_refl.
  - intros k Hk. unfold in_roots in Hk. now rewrite Hk.
  - exact HD.
Qed.

(* what `umount L` does from a state in which L's recorded mounts are those of the table *)
Lemma unmount_single_post e c ld a r s x l : plain e ->
  wf_table (ks_tab (w_ks (s_w s))) = true -> NoDup (kids (ks_tab (w_ks (s_w s)))) ->
  lm_get (ld_map ld) (a :: r) = Some l -> good_root (build_path c x) = true ->
  (l_kmounts l = [] \/ l_kmounts l = kmounts0 (ks_tab (w_ks (s_w s))) (build_path c x)) ->
  exists o ks' iss, unmount e c ld (a :: r) false s = (o, st_after e s ks' iss)
    /\ legal_seq (um_legal (in_roots [build_path c x])) (w_ks (s_w s)) iss = true
    /\ dels (fun k => at_or_below (build_path c x) (k_mp k)) (ks_tab (w_ks (s_w s))) (ks_tab ks')
    /\ (rclass_of o = ROk -> forall m, In m (ks_tab ks') -> at_or_below (build_path c x) (k_mp m) = false).
Proof.
  intros Hp Hwf ND Hg Hgood Hkm.
  assert (Hnochange : forall o, rclass_of o <> ROk ->
            exists (o' : outcome ldefs) ks' iss, (o, s) = (o', st_after e s ks' iss)
            /\ legal_seq (um_legal (in_roots [build_path c x])) (w_ks (s_w s)) iss = true
            /\ dels (fun k => at_or_below (build_path c x) (k_mp k)) (ks_tab (w_ks (s_w s))) (ks_tab ks')
            /\ (rclass_of o' = ROk -> forall m, In m (ks_tab ks') -> at_or_below (build_path c x) (k_mp m) = false)).
  { intros o Ho. exists o, (w_ks (s_w s)), []. rewrite st_after_nil. split; [reflexivity|]. split; [reflexivity|].
    split; [constructor|]. intros E. contradiction. }
  unfold unmount. unfold bind at 1. unfold guard.
  destruct (test_name (ld_map ld) (a :: r) NNeed); [|apply Hnochange; discriminate].
  unfold ret at 1. unfold bind at 1.
  destruct (ku_seq (w_ks (s_w s)) (rev (l_kmounts l))) as [[ok ks'] iss] eqn:Eku.
  destruct Hkm as [Hk0|Hk].
  { rewrite (unmount_layer_eq e c ld (a :: r) l s Hp Hg ok ks' iss Eku).
    - rewrite Hk0. destruct (error_if_busy l false); cbn [fst]; apply Hnochange; discriminate.
    - rewrite Hk0 in Eku. cbn in Eku. inversion Eku; subst. intros _. exact Hwf. }
  destruct (ku_seq_core (build_path c x) (in_roots [build_path c x]) Hgood) with
    (ts := rev (l_kmounts l)) (ks := w_ks (s_w s)) as (ok' & ks'' & iss' & R & L & D & _ & _ & Hok & _ & _).
  { intros t Ht. unfold in_roots. cbn [existsb]. rewrite at_or_under_below by (apply good_root_spec, Hgood).
    now rewrite Ht. }
  { rewrite Hk. apply rev_sort_desc. }
  { rewrite Hk. apply rev_sort_perm. }
  { exact ND. }
  rewrite Eku in R. injection R as <- <- <-.
  rewrite (unmount_layer_eq e c ld (a :: r) l s Hp Hg ok ks' iss Eku).
  2:{ intros _. eapply wf_table_dels; eauto. }
  destruct (error_if_busy l false); [cbn [fst]; apply Hnochange; discriminate|].
  destruct (l_kmounts l) as [|t0 ts0] eqn:Ekm; [cbn [fst]; apply Hnochange; discriminate|].
  destruct ok.
  - destruct (after_unmount c (w_fs (s_w s)) (ks_tab ks') ld (a :: r)) as [res|] eqn:Ea.
    + assert (Hres : fst res = UOk).
      { unfold after_unmount in Ea. cbv zeta in Ea.
        destruct (lm_get (ld_map (refresh_pure c (ks_tab ks') ld)) (a :: r)); [|discriminate].
        injection Ea as <-. reflexivity. }
      rewrite Hres.
      eexists _, ks', iss. split; [reflexivity|]. split; [exact L|]. split; [exact D|].
      intros _. apply Hok. reflexivity.
    + eexists _, ks', iss. split; [reflexivity|]. split; [exact L|]. split; [exact D|]. discriminate.
  - eexists _, ks', iss. split; [reflexivity|]. split; [exact L|]. split; [exact D|]. discriminate.
Qed.

Theorem C03_single_proof : forall c w e um a r, plain_env e = true ->
  wf_kernel (wo_ks w) = true -> wf_layers c (layers_on_disk c (wo_fs w)) = true ->
  C03.step_spec c w (view_of_model c w e (CUmount (a :: r) false) um) = true.
Proof.
  intros c w e um a r He Hk Hl.
  destruct (wf_kernel_spec _ Hk) as [Hwf ND]. destruct (wf_layers_spec _ _ Hl) as [NDn Hgood].
  pose proof (plain_env_plain e He) as Hp.
  destruct (set_up c w) eqn:Epre; [|now apply C03_not_set_up].
  destruct (run e c um (CUmount (a :: r) false) (world_of w)) as [o st] eqn:R.
  rewrite (view_of_run _ _ _ _ _ _ _ R). rewrite step_spec_single by assumption.
  destruct (lm_get (layers_on_disk c (wo_fs w)) (a :: r)) as [x|] eqn:Ex; [|reflexivity].
  assert (Hnochange : (o, st) = (Fail, s0_of (world_of w)) ->
            single_ok c w x (rclass_of o) (rev (s_log st)) (w_ks (s_w st)) = true).
  { intros E. injection E as -> ->. unfold single_ok. cbn.
    rewrite frame_dels by constructor. reflexivity. }
  destruct (run_cases e c um (CUmount (a :: r) false) (world_of w) eq_refl Hwf) as [R'|ord Hb Hc Hn R'].
  { apply Hnochange. now rewrite <- R, R'. }
  unfold layers_on_disk in *. cbn [world_of w_fs w_ks] in *.
  set (m := read_layer_files c (wo_fs w)) in *.
  destruct (probe_pure_inv c um (wo_fs w) (ks_tab (wo_ks w)) m ord NDn (read_layer_files_fresh c (wo_fs w)))
    as (HF & _ & _).
  { intros y Hy. eapply Permutation_in; [symmetry; apply normalize_perm; exact Hn|]. now apply in_map. }
  set (ld := probe_pure c um (wo_fs w) (ks_tab (wo_ks w)) m ord) in *.
  destruct (forall2_get _ _ _ _ _ HF (known_name c _ um) Ex) as (l & Hgl & (Hs & Ho & K & _)).
  destruct (lm_get_name _ _ _ Ex) as [_ Hxin].
  destruct (unmount_single_post e c ld a r (s0_of (world_of w)) x l Hp Hwf ND Hgl (Hgood x Hxin))
    as (o1 & ks' & iss & U & L & D & Hok).
  { right. exact K. }
  cbn [cmd_body] in R'. rewrite U in R'. rewrite R' in R.
  assert (Est : st = st_after e (s0_of (world_of w)) ks' iss /\ rclass_of o = rclass_of o1).
  { destruct o1; cbn [omap] in R; injection R as <- <-; split; reflexivity. }
  destruct Est as [-> Eo]. rewrite Eo.
  unfold single_ok, st_after. cbn [s_log s_w w_ks s0_of]. rewrite app_nil_r, rev_involutive.
  rewrite syscalls_umlog. unfold C03.calls_legal. rewrite replay_umlog.
  cbn [world_of w_ks s0_of s_w] in L, D. rewrite L.
  rewrite frame_dels.
  2:{ eapply dels_mono; [|exact D]. intros k Hk0. unfold in_roots. cbn [existsb].
      rewrite at_or_under_below by (apply good_root_spec, (Hgood x Hxin)). now rewrite Hk0. }
  cbn [andb]. destruct (rclass_of o1) eqn:Er; try reflexivity.
  apply negb_true_iff. unfold any_at_or_under. apply existsb_false_forall. intros k Hk0.
  rewrite at_or_under_below by (apply good_root_spec, (Hgood x Hxin)). now apply Hok.
Qed.
