(* C03 -- constants of Gen/Consts.v (rewritten from the source of /repo by tools/genconsts on
   every run) compared with literals.  Used by: the predicate C03.spec / C03.kf (through the helpers of Cases/C02.v and Model/Layers.v).
   A changed constant makes this file fail to build; the check then reports
   "proof obligation no longer checks" for Properties/C03.v (C03_constants_pinned) instead of
   letting model, predicate and code move together unnoticed. *)
From LC Require Import Lib.Bytes Gen.Consts.
Local Open Scope string_scope.

Lemma c03_constants_pinned :
  (* doc/layercake_directories.adoc, manual page LAYER DIRECTORY: "layerconfig" *)
  D_LayerconfigFile = bs "layerconfig" /\
  (* manual page / doc/layercake_layerconfig.adoc: "default_layerconfig.skel" in the base directory *)
  D_SkeletonLayerconfigFile = bs "default_layerconfig.skel".
Proof. repeat split; vm_compute; reflexivity. Qed.
