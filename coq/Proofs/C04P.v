(* C04: busy layers are protected -- the model's step satisfies the property predicate. *)
From Coq Require Import Sorting.Permutation.
From LC Require Import Lib.Bytes Lib.Lex Lib.Fields Lib.PathM Gen.Consts
  Model.MountInfo Model.FsTree Model.Kernel Model.Layers
  Proofs.MountInfoP Proofs.KernelP Proofs.KrnMonadP Proofs.ProbeP Proofs.RunP Proofs.UmountP Proofs.UmountAllP Proofs.C03P
  Cases.LC Cases.C04.
Import LC LCS.
Open Scope N_scope.

(* ------------------------------------------------------------------ monad steps *)
Lemma bind_guard {A} (b0 : bool) (k : M A) s : (guard b0 ;;; k) s = if b0 then k s else (Fail, s).
Proof. unfold bind, guard. destruct b0; reflexivity. Qed.

(* ------------------------------------------------------------------ busy flags vs. the property's vocabulary *)
Lemma in_mount_dirs_sdd p d : (beq p d || prefixb (d ++ [sl]) p) = true -> same_dir_or_desc p d = true.
Proof.
  intros H. unfold same_dir_or_desc. apply orb_true_iff in H as [H|H].
  - apply beq_true in H. subst p. rewrite Nat.eqb_refl, orb_true_r.
    assert (P : prefixb d d = true) by (apply prefixb_spec; exists []; now rewrite app_nil_r).
    now rewrite P.
  - apply below_spec in H as [r ->].
    assert (P : prefixb d (d ++ sl :: r) = true) by (apply prefixb_spec; now exists (sl :: r)).
    rewrite P. cbn [andb]. apply orb_true_iff. right.
    assert (E : skipn (length d) (d ++ sl :: r) = sl :: r).
    { clear. induction d as [|x d IH]; cbn; [reflexivity|exact IH]. }
    rewrite E. apply Ascii.eqb_refl.
Qed.

Lemma in_mount_dirs_mb0 c us : existsb (in_mount_dirs c) us = true -> mb0 c us = true.
Proof.
  unfold mb0. rewrite !existsb_exists. intros (u & Hu & H). exists u. split; [exact Hu|].
  unfold in_mount_dirs in H. apply existsb_exists in H as (d & Hd & H). apply existsb_exists.
  exists d. split; [exact Hd|]. now apply in_mount_dirs_sdd.
Qed.

Lemma users_busy c us : us <> [] -> mb0 c us || nb0 c us = true.
Proof.
  destruct us as [|u us]; [congruence|]. intros _. unfold mb0, nb0, dirs3. cbn [existsb].
  destruct (same_dir_or_desc (u_file u) (c_buildroot c)); cbn [negb orb]; [reflexivity|].
  now rewrite orb_true_r.
Qed.

Lemma has_mounts_kmounts c tab x : good_root (build_path c x) = true ->
  has_mounts c tab x = true -> kmounts0 tab (build_path c x) <> [].
Proof.
  intros Hg H. unfold has_mounts, any_at_or_under in H. apply existsb_exists in H as (k & Hk & H).
  rewrite at_or_under_below in H by (apply good_root_spec, Hg).
  intros E. assert (Hin : In (k_mp k) (kmounts0 tab (build_path c x))).
  { unfold kmounts0. apply sort_in. apply filter_In. split; [now apply in_map|exact H]. }
  rewrite E in Hin. exact Hin.
Qed.

Lemma kmounts_has_mounts c tab x : good_root (build_path c x) = true ->
  kmounts0 tab (build_path c x) <> [] -> has_mounts c tab x = true.
Proof.
  intros Hg H. destruct (kmounts0 tab (build_path c x)) as [|t ts] eqn:E; [congruence|].
  assert (Hin : In t (kmounts0 tab (build_path c x))) by (rewrite E; now left).
  unfold kmounts0 in Hin. apply (proj1 (sort_in _ _)) in Hin. apply filter_In in Hin as [Hin Ht].
  apply in_map_iff in Hin as (k & <- & Hk). unfold has_mounts, any_at_or_under. apply existsb_exists.
  exists k. split; [exact Hk|]. rewrite at_or_under_below by (apply good_root_spec, Hg). exact Ht.
Qed.

Lemma overlain0_spec c tab x : overlain0 tab (build_path c x) = overlain_by_mount c tab x.
Proof. reflexivity. Qed.

(* a layer the property calls protected is refused by errorIfBusy(true), unless it is in error
   state (then the command is refused for that reason when it is the target) *)
Lemma busy_of_protected c tab um x l : known c tab um x l ->
  good_root (build_path c x) = true -> C04.protected c tab um x = true -> error_if_busy l true = true.
Proof.
  intros (Hs & Ho & K1 & K2 & K3) Hg Hp.
  unfold error_if_busy. rewrite K1, K2, K3, Ho, overlain0_spec.
  unfold C04.protected in Hp. apply orb_true_iff in Hp as [Hp|Hp]; [|now rewrite Hp, orb_true_r].
  apply orb_true_iff in Hp as [Hp|Hp].
  - pose proof (has_mounts_kmounts c tab x Hg Hp) as H. destruct (kmounts0 tab (build_path c x)); [congruence|reflexivity].
  - assert (Hu : users_of um (l_name x) <> []) by (destruct (users_of um (l_name x)); [discriminate|discriminate]).
    pose proof (users_busy c _ Hu) as H. apply orb_true_iff in H as [H|H]; rewrite H; now rewrite ?orb_true_r.
Qed.

Lemma target_refusable c tab um x l : known c tab um x l ->
  good_root (build_path c x) = true -> C04.protected c tab um x = true ->
  l_state l = st_error \/ error_if_busy l true = true.
Proof. intros Hk Hg Hp. right. eapply busy_of_protected; eauto. Qed.

(* ------------------------------------------------------------------ the commands refuse *)
Lemma remove_refused e c ld n fl s l : lm_get (ld_map ld) n = Some l ->
  l_state l = st_error \/ error_if_busy l true = true -> remove_layer e c ld n fl s = (Fail, s).
Proof.
  intros Hg H. unfold remove_layer. rewrite bind_guard. destruct (test_name _ _ _); [|reflexivity].
  rewrite Hg. rewrite bind_guard. destruct H as [H|H].
  - rewrite H. reflexivity.
  - destruct (negb (l_state l =? st_error)); [|reflexivity]. rewrite bind_guard.
    destruct (negb (has_child (ld_map ld) n)); [|reflexivity]. rewrite bind_guard. now rewrite H.
Qed.

Lemma rename_refused e c ld n n2 s l : lm_get (ld_map ld) n = Some l ->
  l_state l = st_error \/ error_if_busy l true = true
  \/ existsb (fun k => error_if_busy k true) (children_in_order e (ld_map ld) n) = true ->
  rename_layer e c ld n n2 s = (Fail, s).
Proof.
  intros Hg H. unfold rename_layer. rewrite bind_guard. destruct (_ && _); [|reflexivity].
  rewrite Hg. rewrite bind_guard. destruct H as [H|H].
  - rewrite H. reflexivity.
  - destruct (negb (l_state l =? st_error)); [|reflexivity]. rewrite bind_guard.
    destruct H as [H|H]; [now rewrite H|].
    destruct (negb (error_if_busy l true)); [|reflexivity]. cbv zeta. rewrite bind_guard. now rewrite H.
Qed.

Lemma rebase_refused e c ld n n2 s l : lm_get (ld_map ld) n = Some l ->
  l_state l = st_error \/ error_if_busy l true = true
  \/ existsb (fun k => beq (l_base k) n && error_if_busy k true) (ld_map ld) = true ->
  rebase_layer e c ld n n2 s = (Fail, s).
Proof.
  intros Hg H. unfold rebase_layer. rewrite bind_guard. destruct (_ && _); [|reflexivity].
  rewrite Hg. rewrite bind_guard. destruct H as [H|H].
  - rewrite H. reflexivity.
  - destruct (negb (l_state l =? st_error)); [|reflexivity]. rewrite bind_guard.
    destruct H as [H|H]; [now rewrite H|].
    destruct (negb (error_if_busy l true)); [|reflexivity]. cbv zeta. rewrite bind_guard.
    destruct (check_inheritance _); [|reflexivity]. rewrite bind_guard. now rewrite H.
Qed.

(* ------------------------------------------------------------------ children *)
Lemma forall2_names (R : layer -> layer -> Prop) m M :
  Forall2 R m M -> (forall a b0, R a b0 -> l_name b0 = l_name a) -> map l_name M = map l_name m.
Proof. intros HF Hn. induction HF as [|a b0 m M Hab _ IH]; cbn; [reflexivity|]. now rewrite IH, (Hn _ _ Hab). Qed.

Lemma forall2_in_l {A B} (R : A -> B -> Prop) l1 l2 x : Forall2 R l1 l2 -> In x l1 -> exists y, In y l2 /\ R x y.
Proof.
  induction 1 as [|a b0 l1 l2 Hab _ IH]; [intros []|]. intros [<-|Hx].
  - exists b0. split; [now left|exact Hab].
  - destruct (IH Hx) as (y & Hy & Hr). exists y. split; [now right|exact Hr].
Qed.

Lemma nodup_names_filter (g : layer -> bool) M : NoDup (map l_name M) -> NoDup (map l_name (filter g M)).
Proof.
  induction M as [|y M IH]; cbn; [constructor|]. intros ND. inversion ND as [|? ? Hn ND']; subst.
  destruct (g y); [|auto]. cbn. constructor; [|auto]. intros Hin. apply Hn.
  apply in_map_iff in Hin as (z & Ez & Hz). apply filter_In in Hz as [Hz _]. rewrite <- Ez. now apply in_map.
Qed.

Lemma child_in_order e M n k : NoDup (map l_name M) -> In k M -> beq (l_base k) n = true ->
  In k (children_in_order e M n).
Proof.
  intros ND Hk Hb. unfold children_in_order. set (kids := filter (fun l => beq (l_base l) n) M).
  assert (Hkk : In k kids) by (apply filter_In; auto).
  apply in_or_app. destruct (memb (l_name k) (e_order e)) eqn:Em.
  - left. apply in_flat_map. exists (l_name k). split; [now apply memb_In|].
    rewrite (lm_get_in kids k); [now left| |exact Hkk]. now apply nodup_names_filter.
  - right. apply filter_In. split; [exact Hkk|]. now rewrite Em.
Qed.

Lemma refused_of_fail c w e cmd um : run e c um cmd (world_of w) = (Fail, s0_of (world_of w)) ->
  C04.refused_unchanged w (view_of_model c w e cmd um) = true.
Proof.
  intros R. rewrite (view_of_run _ _ _ _ _ _ _ R). unfold C04.refused_unchanged. cbn.
  rewrite unchanged_refl; reflexivity.
Qed.

Lemma view_fields c w e cmd um :
  v_env (view_of_model c w e cmd um) = e /\ v_cmd (view_of_model c w e cmd um) = cmd
  /\ v_users (view_of_model c w e cmd um) = um.
Proof. unfold view_of_model. destruct (run _ _ _ _ _). auto. Qed.

Section Protect.
Variables (c : cfgT) (w : wobs) (e : env) (um : users_map).
Hypothesis He : plain_env e = true.
Hypothesis Hwf : wf_table (ks_tab (wo_ks w)) = true.
Hypothesis Hl : wf_layers c (layers_on_disk c (wo_fs w)) = true.

Let m := layers_on_disk c (wo_fs w).
Let tab := ks_tab (wo_ks w).

(* common part: either the run has already failed, or the command body runs on layer
   definitions that know every layer on disk *)
Lemma run_known cmd : layer_cmd cmd = true ->
  run e c um cmd (world_of w) = (Fail, s0_of (world_of w))
  \/ exists ld, Forall2 (known c tab um) m (ld_map ld)
       /\ run e c um cmd (world_of w) = omap Some (cmd_body e c ld cmd (s0_of (world_of w))).
Proof.
  intros Hc. destruct (wf_layers_spec _ _ Hl) as [NDn _].
  destruct (run_cases e c um cmd (world_of w) Hc Hwf) as [R|ord Hb Hci Hn R]; [now left|right].
  eexists. split; [|exact R]. cbn [world_of w_fs w_ks].
  apply probe_pure_inv; [exact NDn|apply read_layer_files_fresh|].
  intros y Hy. eapply Permutation_in; [symmetry; apply normalize_perm; exact Hn|]. now apply in_map.
Qed.

Lemma protected_target_known n x ld : lm_get m n = Some x -> Forall2 (known c tab um) m (ld_map ld) ->
  C04.protected c tab um x = true ->
  exists l, lm_get (ld_map ld) n = Some l /\ (l_state l = st_error \/ error_if_busy l true = true).
Proof.
  intros Ex HF Hp. destruct (wf_layers_spec _ _ Hl) as [_ Hgood].
  destruct (forall2_get _ _ _ _ _ HF (known_name c tab um) Ex) as (l & Hgl & Hk).
  exists l. split; [exact Hgl|]. eapply target_refusable; eauto. apply Hgood. now apply (lm_get_name _ _ _ Ex).
Qed.

Lemma protected_child_known n ld : Forall2 (known c tab um) m (ld_map ld) ->
  existsb (fun k => beq (l_base k) n && C04.protected c tab um k) m = true ->
  exists lk, In lk (ld_map ld) /\ beq (l_base lk) n = true /\ error_if_busy lk true = true.
Proof.
  intros HF H. destruct (wf_layers_spec _ _ Hl) as [_ Hgood].
  apply existsb_exists in H as (k & Hk & H). apply andb_true_iff in H as [Hb Hp].
  destruct (forall2_in_l _ _ _ k HF Hk) as (lk & Hlk & Hkn). exists lk. split; [exact Hlk|].
  destruct Hkn as ((S1 & S2 & S3) & Hrest) eqn:Ekn. split; [now rewrite S2|].
  eapply busy_of_protected; eauto.
Qed.

(* the direct statements: the run fails and the state is the initial one (world untouched,
   no operation counted or logged) *)
Theorem remove_protected n fl x : lm_get m n = Some x -> C04.protected c tab um x = true ->
  run e c um (CRemove n fl) (world_of w) = (Fail, s0_of (world_of w)).
Proof.
  intros Ex Hp. destruct (run_known (CRemove n fl) eq_refl) as [R|(ld & HF & R)]; [exact R|].
  rewrite R. cbn [cmd_body]. destruct (protected_target_known n x ld Ex HF Hp) as (l & Hgl & Hb).
  rewrite (remove_refused e c ld n fl _ l Hgl Hb). reflexivity.
Qed.

Theorem rename_protected n n2 x : lm_get m n = Some x ->
  (C04.protected c tab um x || existsb (fun k => beq (l_base k) n && C04.protected c tab um k) m) = true ->
  run e c um (CRename n n2) (world_of w) = (Fail, s0_of (world_of w)).
Proof.
  intros Ex Hp. destruct (run_known (CRename n n2) eq_refl) as [R|(ld & HF & R)]; [exact R|].
  rewrite R. cbn [cmd_body]. destruct (wf_layers_spec _ _ Hl) as [NDn _].
  apply orb_true_iff in Hp as [Hp|Hp].
  - destruct (protected_target_known n x ld Ex HF Hp) as (l & Hgl & Hb).
    rewrite (rename_refused e c ld n n2 _ l Hgl); [reflexivity|]. destruct Hb; auto.
  - destruct (forall2_get _ _ _ _ _ HF (known_name c tab um) Ex) as (l & Hgl & _).
    destruct (protected_child_known n ld HF Hp) as (lk & Hlk & Hb & Hbusy).
    rewrite (rename_refused e c ld n n2 _ l Hgl); [reflexivity|]. right. right.
    apply existsb_exists. exists lk. split; [|exact Hbusy]. apply child_in_order; auto.
    rewrite (forall2_names _ _ _ HF (known_name c tab um)). exact NDn.
Qed.

Theorem rebase_protected n n2 x : lm_get m n = Some x ->
  (C04.protected c tab um x || existsb (fun k => beq (l_base k) n && C04.protected c tab um k) m) = true ->
  run e c um (CRebase n n2) (world_of w) = (Fail, s0_of (world_of w)).
Proof.
  intros Ex Hp. destruct (run_known (CRebase n n2) eq_refl) as [R|(ld & HF & R)]; [exact R|].
  rewrite R. cbn [cmd_body].
  apply orb_true_iff in Hp as [Hp|Hp].
  - destruct (protected_target_known n x ld Ex HF Hp) as (l & Hgl & Hb).
    rewrite (rebase_refused e c ld n n2 _ l Hgl); [reflexivity|]. destruct Hb; auto.
  - destruct (forall2_get _ _ _ _ _ HF (known_name c tab um) Ex) as (l & Hgl & _).
    destruct (protected_child_known n ld HF Hp) as (lk & Hlk & Hb & Hbusy).
    rewrite (rebase_refused e c ld n n2 _ l Hgl); [reflexivity|]. right. right.
    apply existsb_exists. exists lk. split; [exact Hlk|]. now rewrite Hb, Hbusy.
Qed.

Theorem C04_remove_proof n fl : C04.step_spec c w (view_of_model c w e (CRemove n fl) um) = true.
Proof.
  unfold C04.step_spec. destruct (view_fields c w e (CRemove n fl) um) as (E1 & E2 & E3).
  rewrite E1, E2, E3, He. cbn [negb].
  destruct (base_set_up c (wo_fs w) && check_inheritance _) eqn:Epre; [|reflexivity]. cbn [negb]. fold m. fold tab.
  destruct (lm_get m n) as [x|] eqn:Ex; [|reflexivity]. rewrite orb_false_r.
  destruct (C04.protected c tab um x) eqn:Hp; [|reflexivity]. cbn [negb orb].
  apply refused_of_fail. eapply remove_protected; eauto.
Qed.

Theorem C04_rename_proof n n2 : C04.step_spec c w (view_of_model c w e (CRename n n2) um) = true.
Proof.
  unfold C04.step_spec. destruct (view_fields c w e (CRename n n2) um) as (E1 & E2 & E3).
  rewrite E1, E2, E3, He. cbn [negb].
  destruct (base_set_up c (wo_fs w) && check_inheritance _) eqn:Epre; [|reflexivity]. cbn [negb]. fold m. fold tab.
  destruct (lm_get m n) as [x|] eqn:Ex; [|reflexivity]. cbn [andb].
  destruct (C04.protected c tab um x || existsb _ m) eqn:Hp; [|reflexivity]. cbn [negb orb].
  apply refused_of_fail. eapply rename_protected; eauto.
Qed.

Theorem C04_rebase_proof n n2 : C04.step_spec c w (view_of_model c w e (CRebase n n2) um) = true.
Proof.
  unfold C04.step_spec. destruct (view_fields c w e (CRebase n n2) um) as (E1 & E2 & E3).
  rewrite E1, E2, E3, He. cbn [negb].
  destruct (base_set_up c (wo_fs w) && check_inheritance _) eqn:Epre; [|reflexivity]. cbn [negb]. fold m. fold tab.
  destruct (lm_get m n) as [x|] eqn:Ex; [|reflexivity]. cbn [andb].
  destruct (C04.protected c tab um x || existsb _ m) eqn:Hp; [|reflexivity]. cbn [negb orb].
  apply refused_of_fail. eapply rebase_protected; eauto.
Qed.

End Protect.

(* ------------------------------------------------------------------ umount L *)
Definition ends_sl (d : bytes) : bool := match rev d with ch :: _ => Ascii.eqb ch sl | [] => false end.
Definition dirs_noslash (c : cfgT) : bool := forallb (fun d => negb (ends_sl d)) (dirs3 c).

Lemma skipn_app_len {A} (a b0 : list A) : skipn (length a) (a ++ b0) = b0.
Proof. induction a as [|x a IH]; cbn; [reflexivity|exact IH]. Qed.

Lemma sdd_in_mount_dirs p d : ends_sl d = false -> same_dir_or_desc p d = true ->
  (beq p d || prefixb (d ++ [sl]) p) = true.
Proof.
  intros Hd H. unfold same_dir_or_desc in H. apply andb_true_iff in H as [Hp H].
  apply prefixb_spec in Hp as [r ->]. fold (ends_sl d) in H. rewrite Hd in H. cbn [orb] in H.
  rewrite skipn_app_len in H. apply orb_true_iff in H as [H|H].
  - apply Nat.eqb_eq in H. rewrite app_length in H. destruct r; [|cbn in H; lia].
    rewrite app_nil_r, beq_refl. reflexivity.
  - destruct r as [|ch r]; [discriminate|]. apply Ascii.eqb_eq in H. subst ch.
    apply orb_true_iff. right. apply below_spec. now exists r.
Qed.

Lemma mb0_in_mount_dirs c us : dirs_noslash c = true -> mb0 c us = true -> existsb (in_mount_dirs c) us = true.
Proof.
  intros Hn. unfold mb0. rewrite !existsb_exists. intros (u & Hu & H). exists u. split; [exact Hu|].
  apply existsb_exists in H as (d & Hd & H). unfold in_mount_dirs. apply existsb_exists.
  exists d. split; [exact Hd|]. apply sdd_in_mount_dirs; [|exact H].
  unfold dirs_noslash in Hn. rewrite forallb_forall in Hn. apply negb_true_iff. now apply Hn.
Qed.

Section Umount1.
Variables (c : cfgT) (w : wobs) (e : env) (um : users_map).
Hypothesis He : plain_env e = true.
Hypothesis Hwf : wf_table (ks_tab (wo_ks w)) = true.
Hypothesis Hl : wf_layers c (layers_on_disk c (wo_fs w)) = true.

Let m := layers_on_disk c (wo_fs w).
Let tab := ks_tab (wo_ks w).

Theorem C04_umount1_proof n : dirs_noslash c = true ->
  C04.step_spec c w (view_of_model c w e (CUmount n false) um) = true.
Proof.
  intros Hdn. unfold C04.step_spec.
  destruct (view_fields c w e (CUmount n false) um) as (E1 & E2 & E3). rewrite E1, E2, E3, He. cbn [negb].
  destruct (base_set_up c (wo_fs w) && check_inheritance _) eqn:Epre; [|reflexivity]. cbn [negb].
  apply andb_true_iff in Epre as [Hb Hci].
  pose proof (plain_env_plain e He) as Hp.
  destruct (wf_layers_spec _ _ Hl) as [NDn Hgood].
  destruct (run_go e c um (CUmount n false) (world_of w) eq_refl Hwf Hb Hci) as (ord & Hn & R).
  cbn [world_of w_fs w_ks cmd_body] in R, Hn.
  change (read_layer_files c (wo_fs w)) with m in R, Hn. fold tab in R.
  destruct (probe_pure_inv c um (wo_fs w) tab m ord NDn (read_layer_files_fresh c (wo_fs w))) as (HF & _ & _).
  { intros y Hy. eapply Permutation_in; [symmetry; apply normalize_perm; exact Hn|]. now apply in_map. }
  set (ld := probe_pure c um (wo_fs w) tab m ord) in *.
  fold m. fold tab.
  destruct (lm_get m n) as [x|] eqn:Ex; [|destruct n; reflexivity].
  destruct (lm_get_name _ _ _ Ex) as [Hxn Hxin].
  destruct n as [|a r]; [exfalso; exact (layer_name_nonempty c (wo_fs w) x Hxin Hxn)|].
  destruct (forall2_get _ _ _ _ _ HF (known_name c tab um) Ex) as (l & Hgl & (Hs & Ho & K1 & K2 & K3)).
  rewrite Hxn in K2.
  destruct (ku_seq (wo_ks w) (rev (l_kmounts l))) as [[ok ks'] iss] eqn:Eku.
  assert (Hul : unmount_layer e c ld (a :: r) (s0_of (world_of w)) = _) by
    (apply (unmount_layer_eq e c ld (a :: r) l (s0_of (world_of w)) Hp Hgl ok ks' iss Eku); intros _; eapply ku_seq_wf; eauto).
  assert (Hbusy : error_if_busy l false = existsb (in_mount_dirs c) (users_of um (a :: r)) || overlain_by_mount c tab x).
  { unfold error_if_busy. rewrite K2, Ho, overlain0_spec. f_equal.
    destruct (mb0 c (users_of um (a :: r))) eqn:E4.
    - symmetry. now apply mb0_in_mount_dirs.
    - destruct (existsb (in_mount_dirs c) (users_of um (a :: r))) eqn:E5; [|reflexivity].
      apply in_mount_dirs_mb0 in E5. congruence. }
  assert (Htn : test_name (ld_map ld) (a :: r) NNeed = true).
  { unfold test_name. rewrite Hgl.
    pose proof (read_layer_files_fresh c (wo_fs w)) as Hfr. rewrite Forall_forall in Hfr.
    destruct (Hfr x Hxin) as (_ & _ & _ & _ & Hlegal & _). rewrite Hxn in Hlegal. now rewrite Hlegal. }
  assert (Hun : unmount e c ld (a :: r) false (s0_of (world_of w))
                = (r0 <- unmount_layer e c ld (a :: r) ;; match fst r0 with UOk => ret (snd r0) | _ => fail end) (s0_of (world_of w))).
  { unfold unmount. rewrite bind_guard, Htn. reflexivity. }
  rewrite Hun in R. unfold bind in R. rewrite Hul in R. rewrite Hbusy in R.
  destruct (existsb (in_mount_dirs c) (users_of um (a :: r)) || overlain_by_mount c tab x) eqn:Eblk.
  - (* blocked: refused, nothing changed *)
    cbn in R. now apply refused_of_fail.
  - destruct (has_mounts c tab x) eqn:Ehm; [|reflexivity]. cbn [negb orb].
    pose proof (has_mounts_kmounts c tab x (Hgood x Hxin) Ehm) as Hkne. rewrite <- K1 in Hkne.
    destruct (l_kmounts l) as [|t0 ts0] eqn:Ekm; [congruence|].
    assert (Hiss : iss <> []).
    { eapply ku_seq_nonempty; [|exact Eku]. intros E. apply (f_equal (@rev _)) in E. rewrite rev_involutive in E. discriminate. }
    assert (Hlog : exists o, run e c um (CUmount (a :: r) false) (world_of w) = (o, st_after e (s0_of (world_of w)) ks' iss)).
    { destruct ok; [destruct (after_unmount _ _ _ _ _) as [[u ld']|] eqn:Ea|]; cbn in R.
      - destruct u; eexists; exact R.
      - eexists; exact R.
      - eexists; exact R. }
    destruct Hlog as (o & Ro). rewrite (view_of_run _ _ _ _ _ _ _ Ro). cbn [v_res v_log st_after s_log s0_of].
    rewrite app_nil_r, rev_involutive, syscalls_umlog. destruct iss; [congruence|]. cbn. apply orb_true_r.
Qed.

End Umount1.

(* ------------------------------------------------------------------ umount -all *)
Section UmountAll.
Variables (c : cfgT) (w : wobs) (e : env) (um : users_map).
Hypothesis He : plain_env e = true.
Hypothesis Hwf : wf_table (ks_tab (wo_ks w)) = true.
Hypothesis Hl : wf_layers c (layers_on_disk c (wo_fs w)) = true.
Hypothesis Hap : roots_apart c (layers_on_disk c (wo_fs w)) = true.

Let m := layers_on_disk c (wo_fs w).
Let tab := ks_tab (wo_ks w).

Lemma known_RL4 x l : known c tab um x l -> RL4 c um tab x l.
Proof.
  intros (Hs & Ho & K1 & K2 & _). split; [exact Hs|]. split; [exact Ho|]. split.
  - intros t Ht. rewrite K1 in Ht. eapply kmounts0_below; eauto.
  - intros Hb. right. rewrite K2. apply in_mount_dirs_mb0. exact Hb.
Qed.

Theorem C04_umount_all_proof : C04.step_spec c w (view_of_model c w e (CUmount [] true) um) = true.
Proof.
  pose proof (plain_env_plain e He) as Hp. destruct (wf_layers_spec _ _ Hl) as [NDn Hgood].
  assert (Hlog : exists o st iss, run e c um (CUmount [] true) (world_of w) = (o, st)
                  /\ s_log st = rev (umlog e iss) /\ Forall (tgt_ok c um m (ks_tab (w_ks (s_w st)))) iss).
  { destruct (run_known c w e um Hwf Hl (CUmount [] true) eq_refl) as [R|(ld & HF & R)].
    - exists Fail, (s0_of (world_of w)), []. split; [exact R|]. split; [reflexivity|constructor].
    - cbn [cmd_body] in R. rewrite unmount_all_eq in R. unfold bind in R.
      destruct (light_loop e c um m Hp NDn (rev (ld_order ld)) ld false (s0_of (world_of w)))
        as (o & s' & iss & G & Hlg & _ & Htg).
      + eapply forall2_impl_in; [exact HF|]. intros x l _. apply known_RL4.
      + exact Hwf.
      + rewrite G in R. cbn [s0_of s_log] in Hlg. rewrite app_nil_r in Hlg.
        destruct o as [[b0 ld']| | | |]; cbn [omap] in R.
        * destruct b0; cbn [fst snd] in R; eexists _, s', iss; (split; [exact R|]); auto.
        * eexists _, s', iss; (split; [exact R|]); auto.
        * eexists _, s', iss; (split; [exact R|]); auto.
        * eexists _, s', iss; (split; [exact R|]); auto.
        * eexists _, s', iss; (split; [exact R|]); auto. }
  destruct Hlog as (o & st & iss & R & Hlg & Htg).
  rewrite (view_of_run _ _ _ _ _ _ _ R). unfold C04.step_spec. cbn [v_env v_cmd v_users v_log v_after wo_ks]. rewrite He. cbn [negb].
  destruct (base_set_up c (wo_fs w) && check_inheritance _) eqn:Epre; [|reflexivity]. cbn [negb].
  rewrite Hlg, rev_involutive, umount_targets_umlog. fold m. fold tab.
  apply forallb_forall. intros x Hx.
  destruct (existsb (fun t => at_or_under (build_path c x) t) iss) eqn:Et; [|now rewrite orb_true_r].
  (* x is touched: the touching call belongs to x itself, which is neither user-blocked nor overlain at the end *)
  apply existsb_exists in Et as (t & Ht & Hxt). rewrite Forall_forall in Htg.
  destruct (Htg t Ht) as (y & Hy & Hyb & Hyo & Hyt).
  rewrite at_or_under_below in Hxt by (apply good_root_spec, (Hgood x Hx)).
  assert (Exy : x = y).
  { apply (nodup_names_inj m x y NDn Hx Hy).
    destruct (list_eq_dec ascii_dec (l_name x) (l_name y)) as [E|E]; [exact E|]. exfalso.
    exact (roots_apart_spec c m x y t Hap Hx Hy E Hxt Hyt). }
  subst y. unfold ublocked in Hyb. rewrite Hyb. cbn [negb orb andb].
  change (overlain_by_mount c (ks_tab (w_ks (s_w st))) x) with (overlain0 (ks_tab (w_ks (s_w st))) (build_path c x)).
  rewrite Hyo. now rewrite orb_true_r.
Qed.

End UmountAll.

(* ------------------------------------------------------------------ all commands *)
Definition C04_hyp (c : cfgT) (w : wobs) (cmd : command) : bool :=
  let m := layers_on_disk c (wo_fs w) in
  wf_table (ks_tab (wo_ks w)) && wf_layers c m
  && match cmd with
     | CUmount _ false => dirs_noslash c
     | CUmount [] true => roots_apart c m
     | _ => true
     end.


Theorem C04_model_proof : forall c w e cmd um, plain_env e = true -> C04_hyp c w cmd = true ->
  C04.step_spec c w (view_of_model c w e cmd um) = true.
Proof.
  intros c w e cmd um He Hh. unfold C04_hyp in Hh. cbv zeta in Hh.
  apply andb_true_iff in Hh as [Hh Hc]. apply andb_true_iff in Hh as [Hwf Hl].
  assert (Htriv : forall cmd', (forall v, v_cmd v = cmd' -> v_env v = e ->
                     C04.step_spec c w v = true) ->
                   C04.step_spec c w (view_of_model c w e cmd' um) = true).
  { intros cmd' H. destruct (view_fields c w e cmd' um) as (E1 & E2 & _). now apply H. }
  destruct cmd as [ |n b0 cf|n fl|n n2|n n2|n|n|n all| |n| |s t ty fl d|t|p0 x0].
  - apply Htriv. intros v E1 E2. unfold C04.step_spec. rewrite E1, E2, He. now destruct (_ && _).
  - apply Htriv. intros v E1 E2. unfold C04.step_spec. rewrite E1, E2, He. now destruct (_ && _).
  - now apply C04_remove_proof.
  - now apply C04_rename_proof.
  - now apply C04_rebase_proof.
  - apply Htriv. intros v E1 E2. unfold C04.step_spec. rewrite E1, E2, He. now destruct (_ && _).
  - apply Htriv. intros v E1 E2. unfold C04.step_spec. rewrite E1, E2, He. now destruct (_ && _).
  - destruct all.
    + destruct n as [|a r].
      * apply C04_umount_all_proof; [exact He|exact Hwf|exact Hl|exact Hc].
      * apply Htriv. intros v E1 E2. unfold C04.step_spec. rewrite E1, E2, He. now destruct (_ && _).
    + apply C04_umount1_proof; [exact He|exact Hwf|exact Hl|destruct n; exact Hc].
  - apply Htriv. intros v E1 E2. unfold C04.step_spec. rewrite E1, E2, He. now destruct (_ && _).
  - apply Htriv. intros v E1 E2. unfold C04.step_spec. rewrite E1, E2, He. now destruct (_ && _).
  - apply Htriv. intros v E1 E2. unfold C04.step_spec. rewrite E1, E2, He. now destruct (_ && _).
  - apply Htriv. intros v E1 E2. unfold C04.step_spec. rewrite E1, E2, He. now destruct (_ && _).
  - apply Htriv. intros v E1 E2. unfold C04.step_spec. rewrite E1, E2, He. now destruct (_ && _).
  - apply Htriv. intros v E1 E2. unfold C04.step_spec. rewrite E1, E2, He. now destruct (_ && _).
Qed.

Theorem C04_model_any_env : forall c w e cmd um, C04_hyp c w cmd = true ->
  C04.step_spec c w (view_of_model c w e cmd um) = true.
Proof.
  intros c w e cmd um Hh. destruct (plain_env e) eqn:He; [now apply C04_model_proof|].
  destruct (view_fields c w e cmd um) as (E1 & _). unfold C04.step_spec. rewrite E1, He. reflexivity.
Qed.
