(* C04 -- constants of Gen/Consts.v (rewritten from the source of /repo by tools/genconsts on
   every run) compared with literals, one lemma per constant so that the failing line names it.
   Used by: the predicate C04.spec (through the helpers of Cases/C02.v and Model/Layers.v).
   A changed constant makes this file fail to build; the check then reports
   "proof obligation no longer checks" for Properties/C04.v (C04_constants_pinned) instead of
   letting model, predicate and code move together unnoticed.  The literals are repeated, with
   their sources, in the statement of C04_constants_pinned. *)
From LC Require Import Lib.Bytes Gen.Consts.
Local Open Scope string_scope.

Lemma pin_D_LayerconfigFile :
  D_LayerconfigFile = bs "layerconfig".
Proof. (vm_compute; reflexivity) || fail "D_LayerconfigFile of the source tree differs from the reviewed literal (C04_constants_pinned)". Qed.

Lemma pin_D_SkeletonLayerconfigFile :
  D_SkeletonLayerconfigFile = bs "default_layerconfig.skel".
Proof. (vm_compute; reflexivity) || fail "D_SkeletonLayerconfigFile of the source tree differs from the reviewed literal (C04_constants_pinned)". Qed.

Definition c04_constants_pinned := conj pin_D_LayerconfigFile pin_D_SkeletonLayerconfigFile.
