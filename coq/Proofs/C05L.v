(* C05, round 5b: the loader's view of a database is the database.

   1. [loaded_view_db], [listed_db]: for EVERY database without two packages of one name and slot and
      every enumeration order, the AtomSet GetInstalledPackageList builds holds every directory, each
      under its own name and slot key -- the model's side of the clause [spec_loader].
   2. [pf_split_unique]: a directory name has at most one reading as name "-" version with a version
      of the PMS 3.2 syntax, so [name_tied] determines the package name from PF. *)
From LC Require Import Lib.Bytes Lib.Lex Lib.Fields Model.Resolve Cases.C05
  Proofs.ResolveBasics Proofs.AtomSetP Proofs.ResolveInv Proofs.StageP.
From LC Require Model.AtomParse Model.PMSGrammar.
From Coq Require Import Lia.
Import C05.

(* ------------------------------------------------------------------ 1. the loader view *)
Lemma nth_seq_map {A} (l : list A) : forall k,
  map (fun i => nth_error l (i - k)) (seq k (length l)) = map Some l.
Proof.
  induction l as [|x r IH]; intros k; cbn [length seq map]; [reflexivity|].
  rewrite Nat.sub_diag. cbn [nth_error]. f_equal.
  rewrite <- (IH (S k)). apply map_ext_in. intros i Hi. apply in_seq in Hi.
  replace (i - k)%nat with (S (i - S k)) by lia. reflexivity.
Qed.

Lemma ids_pkgs (vdb : list pkg) : map (pkg_at vdb) (ids vdb) = map Some vdb.
Proof.
  unfold ids, pkg_at. rewrite map_map. rewrite <- (nth_seq_map vdb 0).
  apply map_ext. intros i. now rewrite Nat2N.id, Nat.sub_0_r.
Qed.

Lemma flat_map_ids {B} (vdb : list pkg) (f : N -> list B) (g : pkg -> B) :
  (forall i p, pkg_at vdb i = Some p -> f i = [g p]) ->
  flat_map f (ids vdb) = map g vdb.
Proof.
  intros H.
  assert (E : flat_map f (ids vdb)
              = flat_map (fun o => match o with Some p => [g p] | None => [] end) (map (pkg_at vdb) (ids vdb))).
  { rewrite flat_map_concat_map, flat_map_concat_map, map_map. f_equal. apply map_ext_in.
    intros i Hi. apply ids_in in Hi as [p Hp]. now rewrite Hp, (H i p Hp). }
  rewrite E, ids_pkgs. clear. induction vdb as [|p r IH]; cbn; [reflexivity|now rewrite IH].
Qed.

Section Loader.
Variable vdb : list pkg.
Hypothesis keys_nodup : forall i j p q, pkg_at vdb i = Some p -> pkg_at vdb j = Some q ->
  p_pn p = p_pn q -> p_slot p = p_slot q -> i = j.

Lemma entries_in s i nm k :
  In (i, (nm, k)) (aset_entries s) <-> exists sl, In (nm, sl) s /\ In (k, i) sl.
Proof.
  unfold aset_entries. rewrite in_flat_map. split.
  - intros ([nm' sl] & Hin & H). cbn in H. apply in_map_iff in H as ([k' i'] & E & H). cbn in E.
    injection E as -> -> ->. now exists sl.
  - intros (sl & Hin & H). exists (nm, sl). split; auto. cbn. apply in_map_iff. now exists (k, i).
Qed.

(* every directory is held, under its own name and slot key: nothing lost, nothing renamed *)
Theorem loaded_view_db enum : is_perm_ids (length vdb) enum = true ->
  loaded_view vdb (installed vdb enum) = db_view vdb.
Proof.
  intros HP. destruct (installed_ok vdb keys_nodup enum HP) as ((_ & HO) & _ & HM).
  unfold loaded_view, db_view. change (map N.of_nat (seq 0 (length vdb))) with (ids vdb).
  apply flat_map_ids. intros i p Hp. rewrite Hp.
  destruct (find (fun t => (fst t =? i)%N) (aset_entries (installed vdb enum))) as [[i' [nm k]]|] eqn:F.
  - apply find_some in F as [Hin E]. cbn in E. apply N.eqb_eq in E. subst i'.
    apply entries_in in Hin as (sl & H1 & H2). destruct (HO _ _ H1) as [_ SO].
    destruct (SO _ _ H2) as (q & Hq & <- & <-). rewrite Hp in Hq. now injection Hq as <-.
  - exfalso. assert (V : valid_id vdb i) by now exists p.
    apply HM in V as (nm & sl & k & H1 & H2).
    assert (Hin : In (i, (nm, k)) (aset_entries (installed vdb enum))) by (apply entries_in; eauto).
    apply (find_none _ _ F) in Hin. cbn in Hin. now rewrite N.eqb_refl in Hin.
Qed.

Theorem listed_db enum : is_perm_ids (length vdb) enum = true ->
  listing vdb (filter (fun i => memN i enum) (ids vdb)) = map pkg_str vdb.
Proof.
  intros HP. destruct (perm_ids_spec vdb enum HP) as [_ HI].
  assert (E : forall l, (forall i, In i l -> memN i enum = true) -> filter (fun i => memN i enum) l = l).
  { induction l as [|x r IH]; intros H; cbn; [reflexivity|].
    rewrite (H x (or_introl eq_refl)), IH; auto. intros i Hi. apply H. now right. }
  rewrite E by (intros i Hi; apply memN_in, HI; now apply ids_in).
  unfold listing.
  rewrite <- (map_map (pkg_at vdb) (fun o => match o with Some p => pkg_str p | None => [] end)).
  now rewrite ids_pkgs, map_map.
Qed.
End Loader.

(* ------------------------------------------------------------------ 2. PF = name "-" version is read one way *)
Import PMSGrammar.
Local Notation hy := (nb 45).

(* split2: the text before the first separator, and what follows it *)
Lemma split2_acc_spec sep s : forall cur,
  match split2_acc sep cur s with
  | (b, None) => b = rev cur ++ s /\ nosep sep s
  | (b, Some r) => exists a, b = rev cur ++ a /\ s = a ++ sep :: r /\ nosep sep a
  end.
Proof.
  induction s as [|c r IH]; intros cur; cbn.
  - split; [now rewrite app_nil_r|intros []].
  - destruct (Ascii.eqb c sep) eqn:E.
    + apply Ascii.eqb_eq in E. subst c. exists []. rewrite app_nil_r. repeat split; auto. intros [].
    + assert (c <> sep) by (intro; subst; now rewrite Ascii.eqb_refl in E).
      specialize (IH (c :: cur)). destruct (split2_acc sep (c :: cur) r) as [b [r'|]].
      * destruct IH as (a & -> & -> & Hn). exists (c :: a). cbn. rewrite <- app_assoc. repeat split; auto.
        intros [->|Hin]; auto.
      * destruct IH as [-> Hn]. cbn. rewrite <- app_assoc. split; auto. intros [->|Hin]; auto.
Qed.

(* the first piece of a split is a prefix *)
Lemma split_acc_head sep s : forall cur x l, split_acc sep cur s = x :: l -> exists r, rev cur ++ s = x ++ r.
Proof.
  induction s as [|c r IH]; intros cur x l; cbn.
  - intros E. injection E as <- _. exists []. reflexivity.
  - destruct (Ascii.eqb c sep).
    + intros E. injection E as <- _. eauto.
    + intros E. apply IH in E as (r' & E). exists r'. rewrite <- E. cbn. now rewrite <- app_assoc.
Qed.

Definition starts_digit (s : bytes) : Prop := exists c r, s = c :: r /\ AtomParse.is_digit c = true.

Lemma is_last_num_starts c : is_last_num c = true -> starts_digit c.
Proof.
  unfold is_last_num. destruct c as [|x r]; cbn [AtomParse.span].
  - cbn. discriminate.
  - destruct (AtomParse.is_digit x) eqn:D.
    + intros _. now exists x, r.
    + cbn. discriminate.
Qed.
Lemma nonempty_digits_starts c : nonempty_digits c = true -> starts_digit c.
Proof.
  unfold nonempty_digits. destruct c as [|x r]; cbn; [discriminate|].
  intros H. apply andb_true_iff in H as [H _]. now exists x, r.
Qed.
Lemma is_nums_starts cs : is_nums cs = true -> exists c l, cs = c :: l /\ starts_digit c.
Proof.
  destruct cs as [|c [|d l]]; cbn [is_nums]; [discriminate| |].
  - intros H. exists c, []. split; auto. now apply is_last_num_starts.
  - intros H. apply andb_true_iff in H as [H _]. exists c, (d :: l). split; auto. now apply nonempty_digits_starts.
Qed.
Lemma starts_prefix a r : starts_digit a -> starts_digit (a ++ r).
Proof. intros (c & t & -> & D). now exists c, (t ++ r). Qed.

(* a version begins with a digit ... *)
Lemma version_starts_digit v : is_pms_version v = true -> starts_digit v.
Proof.
  unfold is_pms_version. pose proof (split2_acc_spec hy v []) as S. unfold split2.
  destruct (split2_acc hy [] v) as [body r]. intros H. apply andb_true_iff in H as [_ H].
  assert (P : exists t, v = body ++ t).
  { destruct r as [rv|]; [destruct S as (a & -> & -> & _); cbn; eauto|destruct S as [-> _]; exists []; cbn; now rewrite app_nil_r]. }
  destruct P as (t & ->). apply starts_prefix.
  destruct (split (nb 95) body) as [|main chunks] eqn:E1; [discriminate|].
  apply andb_true_iff in H as [H _]. apply is_nums_starts in H as (c & l & E2 & D).
  unfold split in E1, E2. apply split_acc_head in E1 as (r1 & E1). apply split_acc_head in E2 as (r2 & E2).
  cbn in E1, E2. subst body main. rewrite <- app_assoc. now apply starts_prefix.
Qed.

(* ... and what follows a hyphen inside a version does not: it is the revision "r<digits>" *)
Lemma digits_nohy d : nonempty_digits d = true -> nosep hy d.
Proof.
  unfold nonempty_digits. intros H. apply andb_true_iff in H as [_ H]. rewrite forallb_forall in H.
  intros Hin. specialize (H _ Hin). vm_compute in H. discriminate.
Qed.
Lemma version_after_hyphen v a t : is_pms_version v = true -> v = a ++ hy :: t -> ~ starts_digit t.
Proof.
  unfold is_pms_version. pose proof (split2_acc_spec hy v []) as S. unfold split2.
  destruct (split2_acc hy [] v) as [body [rv|]]; intros H E.
  - destruct S as (a0 & Eb & Ev & Hn). cbn in Eb. subst a0. apply andb_true_iff in H as [H _].
    destruct rv as [|c d]; [discriminate|]. apply andb_true_iff in H as [Hc Hd].
    assert (Hr : nosep hy (c :: d)).
    { intros [->|Hin]; [vm_compute in Hc; discriminate|]. now apply (digits_nohy d Hd). }
    rewrite Ev in E.
    (* the first hyphen of v is its only one *)
    assert (K : forall x y x' y', x ++ hy :: y = x' ++ hy :: y' -> nosep hy x -> nosep hy y -> y' = y).
    { clear. induction x as [|c x IH]; intros y [|c' x'] y' E Nx Ny; cbn in E.
      - now injection E as <-.
      - injection E as <- E. exfalso. apply Ny. rewrite E. apply in_or_app. right. now left.
      - injection E as -> _. exfalso. apply Nx. now left.
      - injection E as <- E. apply (IH y x' y' E); auto. intro. apply Nx. now right. }
    apply K in E; auto. subst t. intros (c' & r' & E' & D). injection E' as <- <-.
    unfold AtomParse.is in Hc. apply N.eqb_eq in Hc. apply (f_equal nb) in Hc. rewrite nb_bn in Hc. subst c.
    vm_compute in D. discriminate.
  - destruct S as [_ Hn]. exfalso. apply Hn. rewrite E. apply in_or_app. right. now left.
Qed.

Lemma app_sep_cases (sep : ascii) n1 : forall n2 v1 v2,
  n1 ++ sep :: v1 = n2 ++ sep :: v2 ->
  (n1 = n2 /\ v1 = v2) \/ (exists m, v1 = m ++ sep :: v2) \/ (exists m, v2 = m ++ sep :: v1).
Proof.
  induction n1 as [|c n1 IH]; intros [|c' n2] v1 v2 E; cbn in E.
  - injection E as <-. now left.
  - injection E as <- ->. right. left. now exists n2.
  - injection E as -> <-. right. right. now exists n1.
  - injection E as <- E. destruct (IH n2 v1 v2 E) as [[-> ->]|[H|H]]; auto.
Qed.

Theorem pf_split_unique n1 v1 n2 v2 :
  n1 ++ hy :: v1 = n2 ++ hy :: v2 ->
  is_pms_version v1 = true -> is_pms_version v2 = true -> n1 = n2 /\ v1 = v2.
Proof.
  intros E H1 H2. destruct (app_sep_cases hy n1 n2 v1 v2 E) as [G|[(m & Em)|(m & Em)]]; auto; exfalso.
  - exact (version_after_hyphen v1 m v2 H1 Em (version_starts_digit v2 H2)).
  - exact (version_after_hyphen v2 m v1 H2 Em (version_starts_digit v1 H1)).
Qed.

Lemma skipn_len_app {A} (a b : list A) : skipn (length a) (a ++ b) = b.
Proof. induction a; cbn; auto. Qed.

(* in the vocabulary of the case: two packages with one directory name and [name_tied] have one name *)
Corollary name_tied_unique (p q : pkg) :
  p_pf p = p_pf q -> name_tied p = true -> name_tied q = true -> base_name p = base_name q.
Proof.
  unfold name_tied. intros E Hp Hq.
  apply andb_true_iff in Hp as [Pp Vp]. apply andb_true_iff in Hq as [Pq Vq].
  apply prefixb_spec in Pp as (rp & Ep). apply prefixb_spec in Pq as (rq & Eq).
  rewrite Ep in Vp. rewrite Eq in Vq. rewrite <- app_assoc in Vp, Vq. cbn [app] in Vp, Vq.
  assert (Sp : skipn (S (length (base_name p))) (base_name p ++ c_hy :: rp) = rp).
  { replace (S (length (base_name p))) with (length (base_name p ++ [c_hy])) by (rewrite app_length; cbn; lia).
    change (base_name p ++ c_hy :: rp) with (base_name p ++ [c_hy] ++ rp). rewrite app_assoc. apply skipn_len_app. }
  assert (Sq : skipn (S (length (base_name q))) (base_name q ++ c_hy :: rq) = rq).
  { replace (S (length (base_name q))) with (length (base_name q ++ [c_hy])) by (rewrite app_length; cbn; lia).
    change (base_name q ++ c_hy :: rq) with (base_name q ++ [c_hy] ++ rq). rewrite app_assoc. apply skipn_len_app. }
  rewrite Sp in Vp. rewrite Sq in Vq.
  rewrite Ep, Eq, <- !app_assoc in E. cbn [app] in E.
  now destruct (pf_split_unique _ _ _ _ E Vp Vq).
Qed.
