(* C05: from the well-formedness of a case to the hypotheses of the resolver theorems, and the
   per-case statement [wf c -> kf c = 0 -> spec c (model c) = true]. *)
From LC Require Import Lib.Bytes Lib.Lex Lib.Fields Lib.PathM Model.Resolve Model.Profile Cases.Verdict Cases.C05
  Proofs.ResolveBasics Proofs.AtomSetP Proofs.ResolveInv Proofs.ResolveP Proofs.ClosureP Proofs.StageP Proofs.ProfileP Proofs.C05L.
Import C05.

(* ---- reflection of the boolean well-formedness conditions *)
Lemma nodup_keys_nth {A} (f : A -> bytes * bytes) (l : list A) :
  nodup_keys (map f l) = true ->
  forall i j p q, nth_error l i = Some p -> nth_error l j = Some q -> f p = f q -> i = j.
Proof.
  induction l as [|x r IH]; cbn [map nodup_keys]; intros H i j p q Hi Hj E.
  - destruct i; discriminate.
  - destruct (f x) as [a b] eqn:Fx. apply andb_true_iff in H as [H1 H2]. apply negb_true_iff in H1.
    assert (Hx : forall k y, nth_error r k = Some y -> f y = (a, b) -> False).
    { intros k y Hk Hy. assert (existsb (fun y0 => beq (fst y0) a && beq (snd y0) b) (map f r) = true); [|congruence].
      apply existsb_exists. exists (f y). split; [apply in_map; eapply nth_error_In; eauto|].
      rewrite Hy. cbn. now rewrite !beq_refl. }
    destruct i as [|i], j as [|j]; cbn in Hi, Hj; auto.
    + injection Hi as <-. exfalso. eapply Hx; eauto. congruence.
    + injection Hj as <-. exfalso. eapply Hx; eauto. congruence.
    + f_equal. eapply IH; eauto.
Qed.

Lemma app_sep_inj (sep : ascii) a : forall a' b b',
  a ++ sep :: b = a' ++ sep :: b' -> nosep sep a -> nosep sep a' -> a = a' /\ b = b'.
Proof.
  induction a as [|x a IH]; intros [|y a'] b b' E N N'; cbn in E.
  - injection E as ->. auto.
  - injection E as <- _. exfalso. apply N'. now left.
  - injection E as -> _. exfalso. apply N. now left.
  - injection E as <- E. destruct (IH a' b b' E) as [-> ->]; auto.
    + intro. apply N. now right.
    + intro. apply N'. now right.
Qed.

Section Case.
Variable c : case.
Hypothesis Hwf : wf c = true.
Notation vdb := (c_vdb c).
Notation bdeps := (c_bdeps c).

Lemma wf_parts :
  is_perm_ids (length vdb) (c_enum c) = true /\
  forallb (wf_pkg (length vdb)) vdb = true /\
  nodup_keys (map (fun p => (p_pn p, p_slot p)) vdb) = true /\
  nodup_keys (map (fun p => (p_cat p, p_pf p)) vdb) = true /\
  forallb wf_node (c_fs c) = true /\
  (model_sys c <> RDiverge).
Proof.
  unfold wf in Hwf. apply andb_true_iff in Hwf as [_ Hwf]. unfold wf_base in Hwf.
  repeat (apply andb_true_iff in Hwf as [Hwf ?]).
  repeat split; auto. intro E. rewrite E in H. discriminate.
Qed.

Lemma pkg_wf i p : pkg_at vdb i = Some p -> wf_pkg (length vdb) p = true.
Proof.
  intros Hp. destruct wf_parts as (_ & H & _). rewrite forallb_forall in H. apply H.
  unfold pkg_at in Hp. eapply nth_error_In; eauto.
Qed.

Lemma c_keys_nodup : forall i j p q, pkg_at vdb i = Some p -> pkg_at vdb j = Some q ->
  p_pn p = p_pn q -> p_slot p = p_slot q -> i = j.
Proof.
  intros i j p q Hp Hq E1 E2. destruct wf_parts as (_ & _ & H & _).
  apply N2Nat.inj. eapply (nodup_keys_nth _ _ H); eauto. cbn. congruence.
Qed.

Lemma c_names_ok : forall i p, pkg_at vdb i = Some p ->
  p_pn p = p_cat p ++ c_sl :: base_name p /\ nosep c_sl (p_cat p) /\ nosep c_sl (base_name p).
Proof.
  intros i p Hp. pose proof (pkg_wf i p Hp) as W. unfold wf_pkg in W.
  repeat (apply andb_true_iff in W as [W ?]).
  apply prefixb_spec in W as [r E]. unfold base_name. rewrite E.
  assert (L : S (length (p_cat p)) = length (p_cat p ++ [c_sl])) by (rewrite app_length; cbn; lia).
  rewrite L, skipn_app_exact. rewrite <- app_assoc. cbn. repeat split.
  - apply nosepb_spec. assumption.
  - apply nosepb_spec. unfold base_name in *. rewrite E, L, skipn_app_exact in *. assumption.
Qed.

Lemma c_strs_nodup : forall i j p q, pkg_at vdb i = Some p -> pkg_at vdb j = Some q ->
  pkg_str p = pkg_str q -> i = j.
Proof.
  intros i j p q Hp Hq E. destruct wf_parts as (_ & _ & _ & H & _).
  destruct (c_names_ok i p Hp) as (_ & N1 & _). destruct (c_names_ok j q Hq) as (_ & N2 & _).
  unfold pkg_str in E. destruct (app_sep_inj c_sl _ _ _ _ E N1 N2) as [E1 E2].
  apply N2Nat.inj. eapply (nodup_keys_nth _ _ H); eauto. cbn. congruence.
Qed.

Lemma map_id_on {A} (f : A -> A) l : (forall x, In x l -> f x = x) -> map f l = l.
Proof. induction l; cbn; intros H; auto. rewrite H, IHl; auto. Qed.

Lemma c_use_eq : forall i p, pkg_at vdb i = Some p -> forall f, use_on p f = spec_use p f.
Proof.
  intros i p Hp f. pose proof (pkg_wf i p Hp) as W. unfold wf_pkg in W.
  apply andb_true_iff in W as [_ W]. unfold use_on, use_words, spec_use.
  destruct (p_use p) as [s|]; [|now rewrite andb_false_r].
  rewrite forallb_forall in W.
  assert (E : map strip_sign (fields (trim s)) = fields (trim s)).
  { apply map_id_on. intros w Hw. specialize (W w Hw). apply andb_true_iff in W as [W _].
    apply negb_true_iff in W. destruct w as [|ch w']; auto. cbn in W. cbn. now rewrite W. }
  rewrite E. destruct (memb f (fields (trim s))) eqn:M; [|apply andb_false_r].
  apply memb_in in M. specialize (W f M). apply andb_true_iff in W as [_ W]. now rewrite W.
Qed.

Lemma c_no_fpanic : forall i p, pkg_at vdb i = Some p ->
  forallb (fun f => match f with FPanic => false | _ => true end) (rel_files bdeps p) = true.
Proof.
  intros i p Hp. pose proof (pkg_wf i p Hp) as W. unfold wf_pkg in W.
  repeat (apply andb_true_iff in W as [W ?]).
  match goal with H : forallb _ [p_bdep p; p_dep p; p_rdep p; p_pdep p] = true |- _ => rename H into F end.
  cbn in F. repeat (apply andb_true_iff in F as [? F]).
  unfold rel_files. destruct bdeps; cbn; repeat (apply andb_true_iff; split); auto.
Qed.

(* the lines of the profile chain are well-formed *)
Lemma lookup_in p nd : lookup (c_fs c) p = Some nd -> In (p, nd) (c_fs c).
Proof.
  unfold lookup. destruct (find _ (c_fs c)) as [[k v]|] eqn:E; [|discriminate].
  intros H. injection H as <-. apply find_some in E as [E1 E2]. cbn in E2. apply beq_true in E2. now subst.
Qed.
Lemma packages_wf dir ls : packages_of (c_fs c) dir = Some ls -> Forall (fun l => wf_line l = true) ls.
Proof.
  unfold packages_of, dir_node. destruct (realpath (c_fs c) dir) as [q|]; [|discriminate].
  destruct (lookup (c_fs c) q) as [[pk pa|t]|] eqn:E; try discriminate. intros ->.
  apply lookup_in in E. destruct wf_parts as (_ & _ & _ & _ & H & _). rewrite forallb_forall in H.
  specialize (H _ E). unfold wf_node in H. cbn in H. apply andb_true_iff in H as [H _].
  apply Forall_forall. rewrite forallb_forall in H. exact H.
Qed.
Lemma prof_lines_wf f : forall dir ls, prof_lines (c_fs c) f dir = Some ls -> Forall (fun l => wf_line l = true) ls.
Proof.
  induction f as [|f IH]; intros dir ls; cbn [prof_lines]; [discriminate|].
  destruct (is_dir (c_fs c) dir); cbn [negb]; [|discriminate].
  assert (Own : Forall (fun l => wf_line l = true) (match packages_of (c_fs c) dir with Some ls => ls | None => [] end)).
  { destruct (packages_of (c_fs c) dir) eqn:E; [eapply packages_wf; eauto|constructor]. }
  destruct (parent_of (c_fs c) dir) as [ps|]; [|intros H; injection H as <-; exact Own].
  destruct (realpath (c_fs c) dir) as [q|]; [|discriminate].
  set (go := fix go (ps : list bytes) : option (list bytes) :=
               match ps with
               | [] => Some []
               | l :: r => if isnil l then go r
                           else match prof_lines (c_fs c) f (pathjoin2 q l), go r with
                                | Some a, Some b => Some (a ++ b)
                                | _, _ => None
                                end
               end).
  assert (G : forall inh, go ps = Some inh -> Forall (fun l => wf_line l = true) inh).
  { induction ps as [|l r IHr]; cbn; intros inh H.
    - injection H as <-. constructor.
    - destruct (isnil l); auto. destruct (prof_lines (c_fs c) f (pathjoin2 q l)) as [a|] eqn:E; [|discriminate].
      destruct (go r) as [b|]; [|discriminate]. injection H as <-. apply Forall_app. split; eauto. }
  destruct (go ps) as [inh|]; [|discriminate]. intros H. injection H as <-.
  apply Forall_app. split; auto.
Qed.

(* stacking keeps the entered strings distinct *)
Lemma nodupb_spec l : nodupb l = true <-> NoDup l.
Proof.
  induction l as [|x r IH]; cbn; [split; auto; constructor|].
  rewrite andb_true_iff, negb_true_iff, memb_false, IH. split.
  - intros [H1 H2]. constructor; auto.
  - intros H. inversion H; auto.
Qed.
Lemma add_new_nodup acc a : NoDup acc -> NoDup (add_new acc a).
Proof.
  intros H. unfold add_new. destruct (memb a acc) eqn:E; auto.
  apply memb_false in E. apply nodup_app; auto; [repeat constructor; intros []|].
  intros x Hx [<-|[]]. contradiction.
Qed.
Lemma stack_line_nodup acc l : NoDup acc -> NoDup (stack_line acc l).
Proof.
  intros H. unfold stack_line. destruct l as [|ch a]; auto. destruct (Ascii.eqb ch (nb 42)).
  - apply add_new_nodup. exact H.
  - destruct (Ascii.eqb ch (nb 45)); auto. destruct a as [|c2 a2]; auto.
    destruct (Ascii.eqb c2 (nb 42)); auto. now apply NoDup_filter.
Qed.
Lemma fold_nodup {A} (f : list bytes -> A -> list bytes) ls :
  (forall acc x, NoDup acc -> NoDup (f acc x)) -> forall acc, NoDup acc -> NoDup (fold_left f ls acc).
Proof. intros Hf. induction ls; cbn; auto. Qed.
Lemma subset_refl l : subset l l = true.
Proof. unfold subset. apply forallb_forall. intros x Hx. now apply memb_in. Qed.

Lemma lres_beq_refl r : lres_beq r r = true.
Proof.
  destruct r; cbn; auto. induction a as [|x r IH]; cbn; auto. now rewrite beq_refl, IH.
Qed.

(* ---- the @system set of the model against the reference stacking *)
Lemma no_profile_dir : is_dir (c_fs c) (c_profile c) = false -> entered c = None.
Proof. intros E. unfold entered. cbn [prof_lines]. now rewrite E. Qed.

Lemma all_parse_false_1 : entered c = None -> all_parse c = false.
Proof. intros E. unfold all_parse. now rewrite E. Qed.
Lemma all_parse_spec ls : prof_lines (c_fs c) (S (length (c_fs c))) (c_profile c) = Some ls ->
  all_parse c = forallb (parses (c_dict c)) (star_atoms ls ++ c_atoms c).
Proof.
  intros EL. unfold all_parse, entered. rewrite EL.
  destruct (forallb (parses (c_dict c)) (star_atoms ls ++ c_atoms c)) eqn:E.
  - apply parse_all_parses in E as [us ->]. reflexivity.
  - destruct (parse_all (c_dict c) (star_atoms ls ++ c_atoms c)) eqn:E2; auto.
    assert (forallb (parses (c_dict c)) (star_atoms ls ++ c_atoms c) = true) by (apply parse_all_parses; eauto).
    congruence.
Qed.

Lemma model_sys_unfold : model_sys c =
  if negb (is_dir (c_fs c) (c_profile c)) then RFailed
  else match read_dir (c_fs c) (c_dict c) (S (length (c_fs c))) (c_profile c) [] with
       | ROk u => add_atoms (c_dict c) (c_atoms c) u
       | e => e
       end.
Proof. reflexivity. Qed.

Definition SysCases : Prop :=
  (model_sys c = RFailed /\ all_parse c = false) \/
  (exists u2, model_sys c = ROk u2 /\ ued_ok (c_dict c) u2 /\ all_parse c = true /\
              req_strings c = Some (map fst u2) /\ NoDup (map fst u2)).

Lemma sys_nodir : is_dir (c_fs c) (c_profile c) = false -> SysCases.
Proof.
  intros Edir. left. rewrite model_sys_unfold, Edir. split; [reflexivity|].
  apply all_parse_false_1, no_profile_dir, Edir.
Qed.

Lemma sys_none : is_dir (c_fs c) (c_profile c) = true ->
  prof_lines (c_fs c) (S (length (c_fs c))) (c_profile c) = None -> SysCases.
Proof.
  intros Edir EL. destruct wf_parts as (_ & _ & _ & _ & _ & Hnd).
  pose proof (read_dir_lines (c_fs c) (c_dict c) (S (length (c_fs c))) (c_profile c)) as RL.
  rewrite EL in RL. left. destruct (RL []) as [R|R].
  - rewrite model_sys_unfold, Edir, R. split; [reflexivity|]. apply all_parse_false_1. unfold entered. now rewrite EL.
  - exfalso. apply Hnd. rewrite model_sys_unfold, Edir, R. reflexivity.
Qed.

Lemma sys_some ls : is_dir (c_fs c) (c_profile c) = true ->
  prof_lines (c_fs c) (S (length (c_fs c))) (c_profile c) = Some ls -> SysCases.
Proof.
  intros Edir EL.
  pose proof (read_dir_lines (c_fs c) (c_dict c) (S (length (c_fs c))) (c_profile c)) as RL.
  rewrite EL in RL. unfold SysCases. rewrite model_sys_unfold, Edir, RL. cbn [negb]. clear RL.
  pose proof (read_packages_stack (c_dict c) ls (prof_lines_wf _ _ _ EL) []
                (fun s a (H : In (s, a) []) => match H with end)) as RS.
  rewrite (all_parse_spec ls EL), forallb_app.
  destruct (read_packages (c_dict c) ls []) as [u1| | |]; try contradiction.
  2:{ left. rewrite RS. auto. }
  destruct RS as (U1 & M1 & P1).
  pose proof (add_atoms_stack (c_dict c) (c_atoms c) u1 U1) as AS.
  destruct (add_atoms (c_dict c) (c_atoms c) u1) as [u2| | |]; try contradiction.
  2:{ left. rewrite AS. split; auto. apply andb_false_r. }
  destruct AS as (U2 & M2 & P2). right. exists u2. split; auto. split; auto.
  split; [now rewrite P1, P2|]. cbn [map] in M1. split.
  - unfold req_strings, sys_atoms. rewrite EL. now rewrite M2, M1.
  - rewrite M2, M1. apply fold_nodup; [apply add_new_nodup|].
    apply fold_nodup; [apply stack_line_nodup|constructor].
Qed.

Lemma sys_cases : SysCases.
Proof.
  destruct (is_dir (c_fs c) (c_profile c)) eqn:Edir; [|now apply sys_nodir].
  destruct (prof_lines (c_fs c) (S (length (c_fs c))) (c_profile c)) as [ls|] eqn:EL.
  - eapply sys_some; eauto.
  - now apply sys_none.
Qed.

(* ---- the per-case statement *)
Hypothesis Hkf : kf c = 0%N.

Lemma existsb_false_all {X} (f : X -> bool) l : existsb f l = false -> forall x, In x l -> f x = false.
Proof.
  intros H x Hx. destruct (f x) eqn:E; auto.
  assert (existsb f l = true) by (apply existsb_exists; eauto). congruence.
Qed.

Definition has_compound (i : N) : bool :=
  match pkg_at vdb i with
  | Some p => existsb (compound_alt (spec_use p)) (top_deps bdeps p)
  | None => false
  end.
Lemma kf_unfold rq : spec_request c = Some rq ->
  kf c = if existsb has_compound (maxclosure vdb bdeps rq) then 1%N else 0%N.
Proof. intros SR. unfold kf. rewrite SR. reflexivity. Qed.

Lemma kf_no_compound rq : spec_request c = Some rq -> no_compound vdb bdeps rq.
Proof.
  intros SR j p dd Hj Hp Hd.
  assert (EX : existsb has_compound (maxclosure vdb bdeps rq) = false).
  { pose proof (kf_unfold rq SR) as K. rewrite Hkf in K.
    destruct (existsb has_compound (maxclosure vdb bdeps rq)); [discriminate K|reflexivity]. }
  pose proof (existsb_false_all _ _ EX j Hj) as Hc. unfold has_compound in Hc. rewrite Hp in Hc.
  exact (existsb_false_all _ _ Hc dd Hd).
Qed.

Lemma triple_beq_true x y : triple_beq x y = true <-> x = y.
Proof.
  destruct x as [a [b d]], y as [a' [b' d']]. unfold triple_beq. cbn [fst snd].
  rewrite !andb_true_iff, !beq_true. split; [intros [[-> ->] ->]; reflexivity|intros E; injection E as -> -> ->; auto].
Qed.

Theorem holds : spec c (model c) = true.
Proof.
  destruct wf_parts as (Hperm & _).
  unfold spec. apply andb_true_iff. split; cycle 1.
  { (* the loader's view of the database is the database *)
    unfold spec_loader, model. cbn [o_listed o_loaded].
    change (map N.of_nat (seq 0 (length vdb))) with (ids vdb).
    rewrite (listed_db vdb (c_enum c) Hperm), (loaded_view_db vdb c_keys_nodup (c_enum c) Hperm).
    apply andb_true_iff. split.
    - apply (list_beq_true beq beq_true). reflexivity.
    - apply (list_beq_true triple_beq triple_beq_true). reflexivity. }
  unfold model. cbn [o_sys o_stage o_bin_sys o_bin_stage o_bin_stage2]. rewrite !lres_beq_refl, !andb_true_r.
  match goal with |- ?a && ?a && ?b && ?b = true => assert (G : a = true /\ b = true);
    [|destruct G as [-> ->]; reflexivity] end.
  destruct sys_cases as [[E AP]|(u2 & E & U2 & AP & RQ & ND)]; rewrite E.
  - split.
    + cbn [spec_sys]. now rewrite AP.
    + unfold spec_request. rewrite AP. reflexivity.
  - split.
    + cbn [spec_sys]. rewrite RQ, AP, !subset_refl. cbn. rewrite andb_true_r. now apply nodupb_spec.
    + assert (SR : spec_request c = requested vdb (map snd u2)).
      { unfold spec_request. now rewrite AP, RQ, (parse_all_ok (c_dict c) u2 U2). }
      rewrite SR.
      apply (stage_holds vdb bdeps (c_enum c) c_keys_nodup c_strs_nodup c_use_eq c_no_fpanic c_names_ok Hperm).
      intros rq Erq. apply kf_no_compound. now rewrite SR.
Qed.
End Case.

Theorem C05_holds_proof : forall c, wf c = true -> kf c = 0%N -> spec c (model c) = true.
Proof. intros c H1 H2. now apply holds. Qed.

(* ---- the resolver theorems in closed form *)
Definition wf_vdb (vdb : list pkg) (bdeps : bool) : Prop :=
  (forall i j p q, pkg_at vdb i = Some p -> pkg_at vdb j = Some q -> p_pn p = p_pn q -> p_slot p = p_slot q -> i = j) /\
  (forall i j p q, pkg_at vdb i = Some p -> pkg_at vdb j = Some q -> pkg_str p = pkg_str q -> i = j) /\
  (forall i p, pkg_at vdb i = Some p -> forall f, use_on p f = spec_use p f) /\
  (forall i p, pkg_at vdb i = Some p ->
     forallb (fun f => match f with FPanic => false | _ => true end) (rel_files bdeps p) = true) /\
  (forall i p, pkg_at vdb i = Some p ->
     p_pn p = p_cat p ++ c_sl :: base_name p /\ nosep c_sl (p_cat p) /\ nosep c_sl (base_name p)).

Lemma wf_case_vdb c : wf c = true ->
  wf_vdb (c_vdb c) (c_bdeps c) /\ is_perm_ids (length (c_vdb c)) (c_enum c) = true.
Proof.
  intros H. split.
  - repeat split.
    + apply (c_keys_nodup c H).
    + apply (c_strs_nodup c H).
    + apply (c_use_eq c H).
    + apply (c_no_fpanic c H).
    + apply (c_names_ok c H i p H0).
    + apply (c_names_ok c H i p H0).
    + apply (c_names_ok c H i p H0).
  - apply (wf_parts c H).
Qed.

Section Closed.
Variables (vdb : list pkg) (bdeps : bool) (enum : list N) (us : list uatom).
Hypothesis Hv : wf_vdb vdb bdeps.
Hypothesis Hp : is_perm_ids (length vdb) enum = true.
Hypothesis Hnc : forall rq, requested vdb us = Some rq -> no_compound vdb bdeps rq.

Lemma stage_spec_true : spec_stage vdb bdeps (requested vdb us) (stage_set vdb enum bdeps us) = true.
Proof. destruct Hv as (H1 & H2 & H3 & H4 & H5). now apply stage_holds. Qed.

Theorem resolve_valid L : stage_set vdb enum bdeps us = ROk L ->
  exists rq X, requested vdb us = Some rq /\ ids_of vdb L = Some X /\
    v_roots vdb rq X = true /\ v_closed vdb bdeps X = true /\ v_justified vdb bdeps rq X = true /\
    v_unblocked vdb bdeps rq X = true /\ sorted_by (key_lt vdb) X = true.
Proof.
  intros E. pose proof stage_spec_true as S. rewrite E in S. cbn [spec_stage] in S.
  destruct (requested vdb us) as [rq|]; [|discriminate]. destruct (ids_of vdb L) as [X|]; [|discriminate].
  apply andb_true_iff in S as [S1 S2]. unfold valid in S1.
  apply andb_true_iff in S1 as [S1 S4]. apply andb_true_iff in S1 as [S1 S3]. apply andb_true_iff in S1 as [S1 S2'].
  exists rq, X. repeat split; auto.
Qed.

Theorem failure_has_reason : stage_set vdb enum bdeps us = RFailed ->
  forall rq, requested vdb us = Some rq -> valid vdb bdeps rq (maxclosure vdb bdeps rq) = false.
Proof.
  intros E rq Erq. pose proof stage_spec_true as S. rewrite E, Erq in S. cbn [spec_stage] in S.
  now apply negb_true_iff in S.
Qed.

Theorem no_crash : stage_set vdb enum bdeps us <> RDiverge /\ stage_set vdb enum bdeps us <> RPanic.
Proof.
  pose proof stage_spec_true as S. split; intros E; rewrite E in S; cbn [spec_stage] in S; discriminate.
Qed.

(* fails when it must: when no selection is valid the run cannot succeed *)
Theorem fails_when_it_must :
  (forall rq, requested vdb us = Some rq -> forall X, valid vdb bdeps rq X = false) ->
  forall L, stage_set vdb enum bdeps us <> ROk L.
Proof.
  intros H L E. destruct (resolve_valid L E) as (rq & X & E1 & _ & R1 & R2 & R3 & R4 & _).
  specialize (H rq E1 X). unfold valid in H. rewrite R1, R2, R3, R4 in H. discriminate.
Qed.
End Closed.

(* ---- "fails instead of silently omitting", in plain terms *)
Fixpoint mandatory (use : bytes -> bool) (d : dep) : list atomr :=
  match d with
  | DAtom a => [a]
  | DGrp k l =>
    match k with
    | GAll => flat_map (mandatory use) l
    | GUse f => if use f then flat_map (mandatory use) l else []
    | GNuse f => if use f then [] else flat_map (mandatory use) l
    | _ => []
    end
  end.

Lemma sat_mand_mandatory vdb X use d : sat_mand vdb X use d = true ->
  forall a, In a (mandatory use d) -> if a_blk a then sel vdb X a = false else all_sel vdb X a = true.
Proof.
  induction d as [a|k l IH] using dep_ind'.
  - cbn. intros H b [<-|[]]. destruct (a_blk a); auto. now apply negb_true_iff in H.
  - assert (F : forallb (sat_mand vdb X use) l = true ->
                forall a, In a (flat_map (mandatory use) l) -> if a_blk a then sel vdb X a = false else all_sel vdb X a = true).
    { intros H a Ha. apply in_flat_map in Ha as (c & Hc & Ha). rewrite Forall_forall in IH.
      rewrite forallb_forall in H. eapply IH; eauto. }
    cbn. destruct k; auto; try (intros _ a []).
    + destruct (use f); auto. intros _ a [].
    + destruct (use f); auto. intros _ a [].
Qed.

Section Plain.
Variables (vdb : list pkg) (bdeps : bool) (enum : list N) (us : list uatom).
Hypothesis Hv : wf_vdb vdb bdeps.
Hypothesis Hp : is_perm_ids (length vdb) enum = true.
Hypothesis Hnc : forall rq, requested vdb us = Some rq -> no_compound vdb bdeps rq.

Theorem no_silent_omission L : stage_set vdb enum bdeps us = ROk L ->
  exists rq X, requested vdb us = Some rq /\ ids_of vdb L = Some X /\
    (* every requested atom and every mandatory active atom of a selected package has an installed
       match, and all its installed matches are selected *)
    (forall a, In a rq -> a_blk a = false -> amatch vdb a <> [] /\ incl (amatch vdb a) X) /\
    (forall i p d a, In i X -> pkg_at vdb i = Some p -> In d (top_deps bdeps p) ->
       In a (mandatory (spec_use p) d) -> a_blk a = false -> amatch vdb a <> [] /\ incl (amatch vdb a) X) /\
    (* no selected package is matched by a requested blocker or by a blocker active in a selected package *)
    (forall b q, In b rq -> a_blk b = true -> In q (amatch vdb b) -> ~ In q X) /\
    (forall i p b q, In i X -> pkg_at vdb i = Some p -> In b (active_of bdeps p) -> a_blk b = true ->
       In q (amatch vdb b) -> ~ In q X).
Proof.
  intros E. destruct (resolve_valid vdb bdeps enum us Hv Hp Hnc L E) as (rq & X & E1 & E2 & R1 & R2 & R3 & R4 & _).
  exists rq, X. split; auto. split; auto.
  unfold v_roots in R1. rewrite forallb_forall in R1.
  unfold v_closed in R2. rewrite forallb_forall in R2.
  unfold v_unblocked in R4. apply andb_true_iff in R4 as [R4 R5]. rewrite forallb_forall in R4, R5.
  repeat split.
  - specialize (R1 a H). rewrite H0 in R1. cbn in R1. now apply all_sel_spec in R1.
  - specialize (R1 a H). rewrite H0 in R1. cbn in R1. now apply all_sel_spec in R1.
  - specialize (R2 i H). rewrite H0 in R2. apply andb_true_iff in R2 as [_ R2]. rewrite forallb_forall in R2.
    pose proof (sat_mand_mandatory vdb X (spec_use p) d (R2 d H1) a H2) as S. rewrite H3 in S.
    now apply all_sel_spec in S.
  - specialize (R2 i H). rewrite H0 in R2. apply andb_true_iff in R2 as [_ R2]. rewrite forallb_forall in R2.
    pose proof (sat_mand_mandatory vdb X (spec_use p) d (R2 d H1) a H2) as S. rewrite H3 in S.
    now apply all_sel_spec in S.
  - intros b q Hb Hblk Hq Hx. specialize (R4 b Hb). rewrite Hblk in R4. cbn in R4. apply negb_true_iff in R4.
    assert (sel vdb X b = true) by (apply sel_spec; eauto). congruence.
  - intros i p b q Hi Hpk Hb Hblk Hq Hx. specialize (R5 i Hi). rewrite Hpk in R5. rewrite forallb_forall in R5.
    specialize (R5 b Hb). rewrite Hblk in R5. cbn in R5. apply negb_true_iff in R5.
    assert (sel vdb X b = true) by (apply sel_spec; eauto). congruence.
Qed.
End Plain.
