(* C05, round 5: the tie between the dependency trees of a case and the texts of the dependency
   files (Cases/C05.v: tie, texts_ok), and empty groups.

   1. tie_unique: the PMS grammar of dependency strings is uniquely readable -- two trees whose token
      sequences agree have the same skeleton (group kinds, flags, nesting, number and blocker marks of
      the atoms).  So "the tree of the case is tied to the text" fixes WHICH items stand inside which
      group: the harness (or the decoder under test) cannot hand over a tree that attaches an item to
      another group than the text does.
   2. empty groups contribute nothing to the specification: a selection is valid for a database iff
      it is valid for the database with every empty all-of / USE-conditional / at-most-one-of group
      deleted (valid_strip), and the full closure is the same (maxclosure_strip).
   3. a concrete case with empty groups in the hypotheses of C05_holds. *)
From LC Require Import Lib.Bytes Lib.Lex Lib.Fields Lib.PathM Model.Resolve Model.Profile Cases.Verdict Cases.C05
  Proofs.ResolveBasics Proofs.C05W.
Import C05.
Open Scope list_scope.

(* ------------------------------------------------------------------ 1. unique readability *)
Inductive sk := SA (blk : bool) | SG (k : gkind) (l : list sk).
Fixpoint skel (d : dep) : sk :=
  match d with DAtom a => SA (a_blk a) | DGrp k l => SG k (map skel l) end.

(* first character of a token: alphanumeric? / its code *)
Definition fca (t : bytes) : bool := match t with c :: _ => alnum_c c | [] => false end.
Definition fcn (t : bytes) : N := match t with c :: _ => bn c | [] => 0%N end.

Lemma fca_use f : flag_ok f = true -> fca (t_use f) = true.
Proof.
  unfold flag_ok, t_use. destruct f as [|c f]; [discriminate|]. cbn [app fca].
  intros H. apply andb_true_iff in H as [H _]. exact H.
Qed.

Lemma use_inj f g : t_use f = t_use g -> f = g.
Proof. unfold t_use. intros H. now apply app_inj_tail in H as [H _]. Qed.
Lemma nuse_inj f g : t_nuse f = t_nuse g -> f = g.
Proof. unfold t_nuse. intros H. injection H as H. now apply app_inj_tail in H as [H _]. Qed.

Ltac tok_absurd H :=
  exfalso;
  first [ discriminate H
        | (apply (f_equal fcn) in H; vm_compute in H; discriminate H)
        | (apply (f_equal fca) in H; rewrite ?fca_use in H by assumption; vm_compute in H; discriminate H)
        | (symmetry in H; apply (f_equal fca) in H; rewrite ?fca_use in H by assumption; vm_compute in H; discriminate H) ].

Lemma fca_nuse f : fca (t_nuse f) = false.
Proof. reflexivity. Qed.

Lemma head_inj k1 k2 x1 x2 : kind_ok k1 = true -> kind_ok k2 = true ->
  intro_toks k1 ++ PTok t_open :: x1 = intro_toks k2 ++ PTok t_open :: x2 -> k1 = k2 /\ x1 = x2.
Proof.
  intros O1 O2 H.
  destruct k1 as [| | | |f|f], k2 as [| | | |g|g]; cbn [intro_toks app kind_ok] in *;
    injection H as H; try (split; [reflexivity|]; first [exact H | now injection H]).
  all: try solve [tok_absurd H].
  all: try (rename H into H'; rename H0 into H).
  all: try solve [apply use_inj in H'; subst; split; reflexivity].
  all: try solve [apply nuse_inj in H'; subst; split; reflexivity].
  all: try solve [tok_absurd H'].
  all: try solve [exfalso; apply (f_equal fca) in H'; rewrite fca_use, fca_nuse in H' by assumption; discriminate H'].
  all: try solve [exfalso; apply (f_equal fca) in H'; rewrite fca_use, fca_nuse in H' by assumption; discriminate H'].
  all: try solve [exfalso; symmetry in H'; apply (f_equal fca) in H'; rewrite fca_use, fca_nuse in H' by assumption; discriminate H'].
Qed.

(* the first token of an item is never the closing parenthesis *)
Lemma not_close d r1 r2 : flags_ok d = true -> dep_ptoks d ++ r1 = PTok t_close :: r2 -> False.
Proof.
  destruct d as [a|k l]; cbn [dep_ptoks flags_ok app]; intros O H.
  - discriminate H.
  - apply andb_true_iff in O as [O _].
    destruct k as [| | | |f|f]; cbn [intro_toks app kind_ok] in *; injection H as H _; tok_absurd H.
Qed.

Definition Uniq (d1 : dep) : Prop := forall d2 r1 r2, flags_ok d1 = true -> flags_ok d2 = true ->
  dep_ptoks d1 ++ r1 = dep_ptoks d2 ++ r2 -> skel d1 = skel d2 /\ r1 = r2.

Lemma uniq_list l1 : Forall Uniq l1 -> forall l2 r1 r2,
  forallb flags_ok l1 = true -> forallb flags_ok l2 = true ->
  flat_map dep_ptoks l1 ++ PTok t_close :: r1 = flat_map dep_ptoks l2 ++ PTok t_close :: r2 ->
  map skel l1 = map skel l2 /\ r1 = r2.
Proof.
  induction 1 as [|d1 l1 U _ IH]; intros l2 r1 r2 O1 O2 H.
  - destruct l2 as [|d2 l2]; cbn [flat_map app map] in *.
    + injection H as H. now split.
    + exfalso. cbn [forallb] in O2. apply andb_true_iff in O2 as [O2 _].
      rewrite <- app_assoc in H. symmetry in H. eapply not_close; eauto.
  - destruct l2 as [|d2 l2]; cbn [flat_map app map forallb] in *.
    + exfalso. apply andb_true_iff in O1 as [O1 _]. rewrite <- app_assoc in H. eapply not_close; eauto.
    + apply andb_true_iff in O1 as [O1 O1']. apply andb_true_iff in O2 as [O2 O2'].
      rewrite <- !app_assoc in H. destruct (U d2 _ _ O1 O2 H) as [E H'].
      destruct (IH l2 r1 r2 O1' O2' H') as [E' R]. split; [now rewrite E, E'|exact R].
Qed.

Lemma uniq_dep d : Uniq d.
Proof.
  induction d as [a|k l IH] using dep_ind'; intros d2 r1 r2 O1 O2 H.
  - destruct d2 as [b|k2 l2]; cbn [dep_ptoks app skel] in *.
    + injection H as H1 H2. now rewrite H1.
    + exfalso. destruct k2; cbn in H; discriminate H.
  - destruct d2 as [b|k2 l2]; cbn [dep_ptoks skel flags_ok] in *.
    + exfalso. destruct k; cbn in H; discriminate H.
    + apply andb_true_iff in O1 as [K1 O1]. apply andb_true_iff in O2 as [K2 O2].
      rewrite <- !app_assoc in H. cbn [app] in H.
      destruct (head_inj _ _ _ _ K1 K2 H) as [-> H'].
      rewrite <- !app_assoc in H'. cbn [app] in H'.
      destruct (uniq_list l IH l2 r1 r2 O1 O2 H') as [E R]. now rewrite E.
Qed.

Theorem toks_unique l1 l2 : forallb flags_ok l1 = true -> forallb flags_ok l2 = true ->
  flat_map dep_ptoks l1 = flat_map dep_ptoks l2 -> map skel l1 = map skel l2.
Proof.
  intros O1 O2 H.
  assert (U : Forall Uniq l1) by (apply Forall_forall; intros; apply uniq_dep).
  destruct (uniq_list l1 U l2 [] [] O1 O2) as [E _]; [now rewrite H|exact E].
Qed.

Lemma ptok_beq_eq a b : ptok_beq a b = true -> a = b.
Proof.
  destruct a as [x|x], b as [y|y]; cbn; try discriminate.
  - intros H. apply Bool.eqb_prop in H. now subst.
  - intros H. apply beq_true in H. now subst.
Qed.
Lemma ptoks_beq_eq l1 : forall l2, list_beq ptok_beq l1 l2 = true -> l1 = l2.
Proof.
  induction l1 as [|a l1 IH]; destruct l2 as [|b l2]; cbn; try discriminate; auto.
  intros H. apply andb_true_iff in H as [H1 H2]. apply ptok_beq_eq in H1. apply IH in H2. now subst.
Qed.

(* two trees tied to one text have the same skeleton *)
Theorem tie_unique text l1 l2 : tie text l1 = true -> tie text l2 = true -> map skel l1 = map skel l2.
Proof.
  unfold tie. intros H1 H2.
  apply andb_true_iff in H1 as [O1 H1]. apply andb_true_iff in H2 as [O2 H2].
  apply ptoks_beq_eq in H1. apply ptoks_beq_eq in H2. apply toks_unique; auto. now rewrite <- H1, <- H2.
Qed.

(* ------------------------------------------------------------------ 2. empty groups contribute nothing *)
Definition inert (k : gkind) : bool :=
  match k with GAll | GMost | GUse _ | GNuse _ => true | GAny | GOne => false end.
Definition is_empty_inert (d : dep) : bool :=
  match d with DGrp k [] => inert k | _ => false end.
(* delete every empty all-of / conditional / at-most-one-of group, innermost first *)
Fixpoint strip (d : dep) : dep :=
  match d with
  | DAtom a => d
  | DGrp k l => DGrp k (filter (fun c => negb (is_empty_inert c)) (map strip l))
  end.
Definition strip_list (l : list dep) : list dep := filter (fun c => negb (is_empty_inert c)) (map strip l).

Section Strip.
Variable vdb : list pkg.
Variable X : list N.
Variable use : bytes -> bool.

Lemma filter_forallb {A} (f g : A -> bool) l : (forall x, g x = false -> f x = true) ->
  forallb f (filter g l) = forallb f l.
Proof.
  intros H. induction l as [|x l IH]; cbn; auto. destruct (g x) eqn:E; cbn; rewrite IH; auto.
  now rewrite (H x E).
Qed.
Lemma filter_existsb {A} (f g : A -> bool) l : (forall x, g x = false -> f x = false) ->
  existsb f (filter g l) = existsb f l.
Proof.
  intros H. induction l as [|x l IH]; cbn; auto. destruct (g x) eqn:E; cbn; rewrite IH; auto.
  now rewrite (H x E).
Qed.
Lemma filter_flat_map {A B} (f : A -> list B) (g : A -> bool) l : (forall x, g x = false -> f x = []) ->
  flat_map f (filter g l) = flat_map f l.
Proof.
  intros H. induction l as [|x l IH]; cbn; auto. destruct (g x) eqn:E; cbn; rewrite IH; auto.
  now rewrite (H x E).
Qed.

Lemma empty_inert_inv d : negb (is_empty_inert d) = false -> exists k, d = DGrp k [] /\ inert k = true.
Proof.
  destruct d as [a|k [|c l]]; cbn; try discriminate. intros H. apply negb_false_iff in H. eauto.
Qed.

(* what an empty group is worth *)
Lemma empty_active d : negb (is_empty_inert d) = false -> active use d = [].
Proof. intros H. apply empty_inert_inv in H as (k & -> & I). destruct k; cbn; auto; destruct (use f); auto. Qed.
Lemma empty_sat_mand d : negb (is_empty_inert d) = false -> sat_mand vdb X use d = true.
Proof. intros H. apply empty_inert_inv in H as (k & -> & I). destruct k; cbn in *; auto; try discriminate; destruct (use f); auto. Qed.
Lemma empty_ok_in d : negb (is_empty_inert d) = false -> ok_in vdb X use d = true.
Proof. intros H. apply empty_inert_inv in H as (k & -> & I). destruct k; cbn in *; auto; try discriminate; destruct (use f); auto. Qed.
Lemma empty_provides d : negb (is_empty_inert d) = false -> provides vdb X use d = false.
Proof. intros H. apply empty_inert_inv in H as (k & -> & I). destruct k; cbn in *; auto; apply andb_false_r. Qed.

Lemma map_ext_Forall {A B} (f g : A -> B) l : Forall (fun x => f x = g x) l -> map f l = map g l.
Proof. induction 1; cbn; congruence. Qed.
Lemma forallb_map {A B} (f : B -> bool) (g : A -> B) l : forallb f (map g l) = forallb (fun x => f (g x)) l.
Proof. induction l; cbn; congruence. Qed.
Lemma existsb_map {A B} (f : B -> bool) (g : A -> B) l : existsb f (map g l) = existsb (fun x => f (g x)) l.
Proof. induction l; cbn; congruence. Qed.
Lemma forallb_ext_Forall {A} (f g : A -> bool) l : Forall (fun x => f x = g x) l -> forallb f l = forallb g l.
Proof. induction 1; cbn; congruence. Qed.
Lemma existsb_ext_Forall {A} (f g : A -> bool) l : Forall (fun x => f x = g x) l -> existsb f l = existsb g l.
Proof. induction 1; cbn; congruence. Qed.
Lemma flat_map_map {A B C} (f : B -> list C) (g : A -> B) l : flat_map f (map g l) = flat_map (fun x => f (g x)) l.
Proof. induction l; cbn; congruence. Qed.
Lemma flat_map_ext_Forall {A B} (f g : A -> list B) l : Forall (fun x => f x = g x) l -> flat_map f l = flat_map g l.
Proof. induction 1; cbn; congruence. Qed.

Lemma strip_active d : active use (strip d) = active use d.
Proof.
  induction d as [a|k l IH] using dep_ind'; [reflexivity|].
  assert (E : flat_map (active use) (strip_list l) = flat_map (active use) l).
  { unfold strip_list. rewrite filter_flat_map by apply empty_active.
    rewrite flat_map_map. now apply flat_map_ext_Forall. }
  cbn [strip active]. fold (strip_list l). now rewrite E.
Qed.

Lemma strip_ok_provides d :
  ok_in vdb X use (strip d) = ok_in vdb X use d /\ provides vdb X use (strip d) = provides vdb X use d.
Proof.
  induction d as [a|k l IH] using dep_ind'; [split; reflexivity|].
  assert (IH1 : Forall (fun c => ok_in vdb X use (strip c) = ok_in vdb X use c) l)
    by (eapply Forall_impl; [|exact IH]; intros c [H _]; exact H).
  assert (IH2 : Forall (fun c => provides vdb X use (strip c) = provides vdb X use c) l)
    by (eapply Forall_impl; [|exact IH]; intros c [_ H]; exact H).
  assert (E1 : forallb (ok_in vdb X use) (strip_list l) = forallb (ok_in vdb X use) l).
  { unfold strip_list. rewrite filter_forallb by apply empty_ok_in. rewrite forallb_map.
    now apply forallb_ext_Forall. }
  assert (E2 : existsb (provides vdb X use) (strip_list l) = existsb (provides vdb X use) l).
  { unfold strip_list. rewrite filter_existsb by apply empty_provides. rewrite existsb_map.
    now apply existsb_ext_Forall. }
  assert (E3 : existsb (fun c => ok_in vdb X use c && provides vdb X use c) (strip_list l)
               = existsb (fun c => ok_in vdb X use c && provides vdb X use c) l).
  { unfold strip_list. rewrite filter_existsb.
    - rewrite existsb_map. apply existsb_ext_Forall.
      rewrite Forall_forall in *. intros c Hc. now rewrite (IH1 c Hc), (IH2 c Hc).
    - intros c Hc. rewrite (empty_provides c Hc). apply andb_false_r. }
  cbn [strip ok_in provides]. fold (strip_list l). rewrite E1, E2, E3. split; reflexivity.
Qed.

Lemma strip_sat_mand d : sat_mand vdb X use (strip d) = sat_mand vdb X use d.
Proof.
  induction d as [a|k l IH] using dep_ind'; [reflexivity|].
  assert (E1 : forallb (sat_mand vdb X use) (strip_list l) = forallb (sat_mand vdb X use) l).
  { unfold strip_list. rewrite filter_forallb by apply empty_sat_mand. rewrite forallb_map.
    now apply forallb_ext_Forall. }
  assert (E2 : existsb (sat_alt vdb X use) (strip_list l) = existsb (sat_alt vdb X use) l).
  { unfold strip_list, sat_alt. rewrite filter_existsb.
    - rewrite existsb_map. apply existsb_ext_Forall. apply Forall_forall. intros c _.
      destruct (strip_ok_provides c) as [-> ->]. reflexivity.
    - intros c Hc. rewrite (empty_provides c Hc). apply andb_false_r. }
  cbn [strip sat_mand]. fold (strip_list l). now rewrite E1, E2.
Qed.
End Strip.

(* ---- lifted to databases *)
Definition strip_file (f : dfile) : dfile := match f with FDeps l => FDeps (strip_list l) | _ => f end.
Definition strip_pkg (p : pkg) : pkg :=
  MkPkg (p_cat p) (p_pf p) (p_pn p) (p_slot p) (p_iuse_eff p) (p_iuse p) (p_use p)
        (strip_file (p_bdep p)) (strip_file (p_dep p)) (strip_file (p_rdep p)) (strip_file (p_pdep p)).
Definition strip_vdb (vdb : list pkg) : list pkg := map strip_pkg vdb.

Lemma strip_list_app a b : strip_list (a ++ b) = strip_list a ++ strip_list b.
Proof. unfold strip_list. now rewrite map_app, filter_app. Qed.

Lemma strip_list_active use l : flat_map (active use) (strip_list l) = flat_map (active use) l.
Proof.
  unfold strip_list. rewrite filter_flat_map by apply empty_active.
  rewrite flat_map_map. apply flat_map_ext_Forall, Forall_forall. intros c _. apply strip_active.
Qed.
Lemma strip_list_sat_mand vdb X use l :
  forallb (sat_mand vdb X use) (strip_list l) = forallb (sat_mand vdb X use) l.
Proof.
  unfold strip_list. rewrite filter_forallb by apply empty_sat_mand. rewrite forallb_map.
  apply forallb_ext_Forall, Forall_forall. intros c _. apply strip_sat_mand.
Qed.

Lemma forallb_ext {A} (f g : A -> bool) l : (forall x, f x = g x) -> forallb f l = forallb g l.
Proof. intros H. induction l; cbn; congruence. Qed.

Section Lift.
Variable vdb : list pkg.
Variable bdeps : bool.
Notation vdb' := (strip_vdb vdb).

Lemma pkg_at_strip i : pkg_at vdb' i = option_map strip_pkg (pkg_at vdb i).
Proof.
  unfold pkg_at, strip_vdb. generalize (N.to_nat i). intros n. revert n.
  induction vdb as [|p l IH]; intros [|n]; cbn; auto.
Qed.
Lemma ids_strip : ids vdb' = ids vdb.
Proof. unfold ids, strip_vdb. now rewrite map_length. Qed.

Lemma amatch_strip a : amatch vdb' a = amatch vdb a.
Proof.
  unfold amatch. rewrite ids_strip. apply filter_ext. intros i. rewrite pkg_at_strip.
  destruct (pkg_at vdb i); reflexivity.
Qed.

Lemma rel_files_strip p : rel_files bdeps (strip_pkg p) = map strip_file (rel_files bdeps p).
Proof. unfold rel_files. destruct bdeps; reflexivity. Qed.
Lemma top_deps_strip p : top_deps bdeps (strip_pkg p) = strip_list (top_deps bdeps p).
Proof.
  unfold top_deps. rewrite rel_files_strip. induction (rel_files bdeps p) as [|f fs IH]; [reflexivity|].
  cbn [map flat_map]. rewrite strip_list_app, IH. destruct f; reflexivity.
Qed.
Lemma files_ok_strip p : files_ok bdeps (strip_pkg p) = files_ok bdeps p.
Proof.
  unfold files_ok. rewrite rel_files_strip. induction (rel_files bdeps p) as [|f fs IH]; [reflexivity|].
  cbn [map forallb]. rewrite IH. destruct f; reflexivity.
Qed.
Lemma active_of_strip p : active_of bdeps (strip_pkg p) = active_of bdeps p.
Proof. unfold active_of. rewrite top_deps_strip. apply strip_list_active. Qed.

Lemma sel_strip X a : sel vdb' X a = sel vdb X a.
Proof. unfold sel. now rewrite amatch_strip. Qed.
Lemma all_sel_strip X a : all_sel vdb' X a = all_sel vdb X a.
Proof. unfold all_sel. now rewrite amatch_strip. Qed.

Lemma ok_provides_vdb X use d :
  ok_in vdb' X use d = ok_in vdb X use d /\ provides vdb' X use d = provides vdb X use d.
Proof.
  induction d as [a|k l IH] using dep_ind'.
  - cbn. now rewrite sel_strip.
  - assert (IH1 : Forall (fun c => ok_in vdb' X use c = ok_in vdb X use c) l)
      by (eapply Forall_impl; [|exact IH]; intros c [H _]; exact H).
    assert (IH2 : Forall (fun c => provides vdb' X use c = provides vdb X use c) l)
      by (eapply Forall_impl; [|exact IH]; intros c [_ H]; exact H).
    cbn [ok_in provides].
    rewrite (forallb_ext_Forall _ _ _ IH1), (existsb_ext_Forall _ _ _ IH2).
    assert (E : existsb (fun c => ok_in vdb' X use c && provides vdb' X use c) l
                = existsb (fun c => ok_in vdb X use c && provides vdb X use c) l).
    { apply existsb_ext_Forall. rewrite Forall_forall in *. intros c Hc. now rewrite (IH1 c Hc), (IH2 c Hc). }
    rewrite E. split; reflexivity.
Qed.
Lemma sat_mand_vdb X use d : sat_mand vdb' X use d = sat_mand vdb X use d.
Proof.
  induction d as [a|k l IH] using dep_ind'.
  - cbn. now rewrite sel_strip, all_sel_strip.
  - cbn [sat_mand]. rewrite (forallb_ext_Forall _ _ _ IH).
    assert (E : existsb (sat_alt vdb' X use) l = existsb (sat_alt vdb X use) l).
    { apply existsb_ext_Forall, Forall_forall. intros c _. unfold sat_alt.
      destruct (ok_provides_vdb X use c) as [-> ->]. reflexivity. }
    now rewrite E.
Qed.

Lemma succs_strip i : succs vdb' bdeps i = succs vdb bdeps i.
Proof.
  unfold succs. rewrite pkg_at_strip. destruct (pkg_at vdb i) as [p|]; cbn [option_map]; auto.
  rewrite active_of_strip. apply flat_map_ext. intros a. apply amatch_strip.
Qed.
Lemma grow_strip fuel inS : forall R, grow vdb' bdeps fuel inS R = grow vdb bdeps fuel inS R.
Proof.
  induction fuel as [|f IH]; intros R; cbn [grow]; auto.
  rewrite (flat_map_ext _ _ succs_strip).
  destruct (nodupN _); auto.
Qed.
Lemma root_matches_strip rq : root_matches vdb' rq = root_matches vdb rq.
Proof. unfold root_matches. apply flat_map_ext. intros a. apply amatch_strip. Qed.
Lemma closure_strip inS rq : closure vdb' bdeps inS rq = closure vdb bdeps inS rq.
Proof.
  unfold closure. rewrite root_matches_strip, grow_strip. unfold strip_vdb. now rewrite map_length.
Qed.

(* the full closure is the same with and without the empty groups ... *)
Theorem maxclosure_strip rq : maxclosure vdb' bdeps rq = maxclosure vdb bdeps rq.
Proof. apply closure_strip. Qed.

(* ... and a selection is valid for the one database iff it is valid for the other *)
Theorem valid_strip rq X : valid vdb' bdeps rq X = valid vdb bdeps rq X.
Proof.
  unfold valid. f_equal; [f_equal; [f_equal|]|].
  - unfold v_roots. apply forallb_ext. intros a. now rewrite all_sel_strip.
  - unfold v_closed. apply forallb_ext. intros i. rewrite pkg_at_strip.
    destruct (pkg_at vdb i) as [p|]; cbn [option_map]; auto.
    rewrite files_ok_strip, top_deps_strip. f_equal.
    change (spec_use (strip_pkg p)) with (spec_use p).
    rewrite strip_list_sat_mand. apply forallb_ext. intros d. apply sat_mand_vdb.
  - unfold v_justified, reach. apply forallb_ext. intros i. now rewrite closure_strip.
  - unfold v_unblocked. f_equal.
    + apply forallb_ext. intros a. now rewrite sel_strip.
    + apply forallb_ext. intros i. rewrite pkg_at_strip.
      destruct (pkg_at vdb i) as [p|]; cbn [option_map]; auto.
      rewrite active_of_strip. apply forallb_ext. intros a. now rewrite sel_strip.
Qed.
End Lift.

(* so the verdict of the specification on any observation is the same *)
Lemma ids_of_strip vdb L : ids_of (strip_vdb vdb) L = ids_of vdb L.
Proof.
  induction L as [|s L IH]; cbn [ids_of]; auto. rewrite IH.
  assert (E : id_of (strip_vdb vdb) s = id_of vdb s).
  { unfold id_of. rewrite ids_strip.
    assert (F : forall l, find (fun i => match pkg_at (strip_vdb vdb) i with Some p => beq (pkg_str p) s | None => false end) l
                        = find (fun i => match pkg_at vdb i with Some p => beq (pkg_str p) s | None => false end) l).
    { induction l as [|i l IHl]; cbn [find]; auto. rewrite pkg_at_strip, IHl.
      destruct (pkg_at vdb i); reflexivity. }
    now rewrite F. }
  now rewrite E.
Qed.
Lemma sorted_by_ext lt1 lt2 l : (forall x y, lt1 x y = lt2 x y) -> sorted_by lt1 l = sorted_by lt2 l.
Proof.
  intros H. induction l as [|x [|y r] IH]; cbn [sorted_by]; auto. rewrite H. f_equal. exact IH.
Qed.
Theorem spec_stage_strip vdb bdeps rq o :
  spec_stage (strip_vdb vdb) bdeps rq o = spec_stage vdb bdeps rq o.
Proof.
  unfold spec_stage. destruct o as [L| | |]; auto.
  - destruct rq as [rq|]; auto. rewrite ids_of_strip. destruct (ids_of vdb L) as [X|]; auto.
    rewrite valid_strip. f_equal. apply sorted_by_ext. intros x y. unfold key_lt.
    rewrite !pkg_at_strip. destruct (pkg_at vdb x), (pkg_at vdb y); reflexivity.
  - destruct rq as [rq|]; auto. now rewrite valid_strip, maxclosure_strip.
Qed.

(* ------------------------------------------------------------------ 3. a case with empty groups
   top (IUSE ssl nls, USE nls):  RDEPEND "sys-libs/liba ssl? ( ) sys-libs/libb"   PDEPEND "!nls? ( ( ) ) ?? ( )"
   libb: RDEPEND "sys-libs/libc";  unneeded is installed and needed by nobody.
   ssl is off: the empty conditional group contributes nothing and governs nothing -- libb, which
   stands behind it, is an unconditional dependency, so libb and libc belong to the stage set. *)
Open Scope string_scope.
Definition top_rdep_text : bytes := bs "sys-libs/liba ssl? ( ) sys-libs/libb".
Definition witness_empty (o : obs) : case :=
  MkCase (bs "/r") (simple_fs ["*app-misc/top"]) (bs "/r/etc/portage/make.profile")
    [(bs "app-misc/top", Some (MkU (bs "app-misc") (bs "top") false [0%N]))] []
    [pk "app-misc" "top-1" "app-misc/top" (Some "ssl nls") (Some "nls") FNone FNone
        (FDeps [at_ "sys-libs/liba" false [1%N]; DGrp (GUse (bs "ssl")) []; at_ "sys-libs/libb" false [2%N]])
        (FDeps [DGrp (GNuse (bs "nls")) [DGrp GAll []]; DGrp GMost []]);
     pk "sys-libs" "liba-1" "sys-libs/liba" None None FNone FNone FNone FNone;
     pk "sys-libs" "libb-2" "sys-libs/libb" None None FNone FNone (FDeps [at_ "sys-libs/libc" false [3%N]]) FNone;
     pk "sys-libs" "libc-3" "sys-libs/libc" None None FNone FNone FNone FNone;
     pk "sys-libs" "unneeded-1" "sys-libs/unneeded" None None FNone FNone FNone FNone]
    [0%N; 1%N; 2%N; 3%N; 4%N] true true
    [[None; None; Some top_rdep_text; Some (bs "!nls? ( ( ) ) ?? ( )")]; no_texts;
     [None; None; Some (bs "sys-libs/libc"); None]; no_texts; no_texts] (slots0 5) o.

Example witness_empty_wf : wf (witness_empty no_obs) = true /\ kf (witness_empty no_obs) = 0%N.
Proof. vm_compute. split; reflexivity. Qed.
Example witness_empty_result :
  o_stage (model (witness_empty no_obs))
  = ROk [bs "app-misc/top-1"; bs "sys-libs/liba-1"; bs "sys-libs/libb-2"; bs "sys-libs/libc-3"].
Proof. vm_compute. reflexivity. Qed.
(* the reading that lets the condition swallow the following item is not a reading of that text ... *)
Example misreading_not_tied :
  tie top_rdep_text [at_ "sys-libs/liba" false [1%N]; DGrp (GUse (bs "ssl")) [at_ "sys-libs/libb" false [2%N]]] = false.
Proof. vm_compute. reflexivity. Qed.
(* ... and the stage set it leads to (libb and libc left out) is refused by the specification *)
Example omission_refused :
  let sys := ROk [bs "app-misc/top"] in
  let short := ROk [bs "app-misc/top-1"; bs "sys-libs/liba-1"] in
  let m := model (witness_empty no_obs) in      (* the loader's part of the observation is as it should be *)
  spec (witness_empty no_obs) (MkObs sys short sys short short (o_listed m) (o_loaded m)) = false.
Proof. vm_compute. reflexivity. Qed.
