(* C05: concrete witnesses -- a non-trivial case inside the hypotheses of the theorems, and the
   refutation witness of known finding 1. *)
From LC Require Import Lib.Bytes Lib.Lex Lib.Fields Lib.PathM Model.Resolve Model.Profile Cases.Verdict Cases.C05.
Import C05.
Open Scope string_scope.

Definition at_ (pn : string) (blk : bool) (m : list N) : dep := DAtom (MkAtom (bs pn) blk m).
Definition pk (cat pf pn : string) (iuse use : option string) (b d r p : dfile) : pkg :=
  MkPkg (bs cat) (bs pf) (bs pn) (bs "00000")
        (match iuse with Some s => Some (bs s) | None => None end) None
        (match use with Some s => Some (bs s) | None => None end) b d r p.
Definition no_obs : obs := MkObs RFailed RFailed RFailed RFailed RFailed [] [].
(* every package of the witnesses has SLOT "0" *)
Definition slots0 (n : nat) : list bytes := repeat (bs "0") n.
Definition no_texts : list (option bytes) := [None; None; None; None].
Definition simple_fs (lines : list string) : pfs :=
  [(bs "/r/p/base", PDir (Some (map bs lines)) None);
   (bs "/r/etc/portage/make.profile", PLink (bs "../../p/base"))].

(* a -> b -> c -> a (cycle), c: USE x, x? ( d ); e is installed but not needed *)
Definition witness_ok : case :=
  MkCase (bs "/r") (simple_fs ["*app-misc/a"]) (bs "/r/etc/portage/make.profile")
    [(bs "app-misc/a", Some (MkU (bs "app-misc") (bs "a") false [0%N]))] []
    [pk "app-misc" "a-1" "app-misc/a" None None FNone FNone (FDeps [at_ "app-misc/b" false [1%N]]) FNone;
     pk "app-misc" "b-1" "app-misc/b" None None FNone FNone (FDeps [at_ "app-misc/c" false [2%N]])
                                                          (FDeps [at_ "app-misc/a" false [0%N]]);
     pk "app-misc" "c-1" "app-misc/c" (Some "x") (Some "x") FNone (FDeps [at_ "app-misc/a" false [0%N]])
                                                          (FDeps [DGrp (GUse (bs "x")) [at_ "app-misc/d" false [3%N]]]) FNone;
     pk "app-misc" "d-1" "app-misc/d" None None FNone FNone FNone FNone;
     pk "app-misc" "e-1" "app-misc/e" None None FNone FNone FNone FNone]
    [4%N; 2%N; 0%N; 3%N; 1%N] true true (repeat no_texts 5) (slots0 5) no_obs.

Example witness_ok_wf : wf witness_ok = true /\ kf witness_ok = 0%N.
Proof. vm_compute. split; reflexivity. Qed.
Example witness_ok_result :
  o_stage (model witness_ok) = ROk [bs "app-misc/a-1"; bs "app-misc/b-1"; bs "app-misc/c-1"; bs "app-misc/d-1"].
Proof. vm_compute. reflexivity. Qed.

(* known finding 1: || ( ( a b c ) d ) with everything installed selects a and b only *)
Definition witness_kf1 : case :=
  MkCase (bs "/r") (simple_fs ["*app-misc/top"]) (bs "/r/etc/portage/make.profile")
    [(bs "app-misc/top", Some (MkU (bs "app-misc") (bs "top") false [0%N]))] []
    [pk "app-misc" "top-1" "app-misc/top" None None FNone FNone
        (FDeps [DGrp GAny [DGrp GAll [at_ "dev-libs/a" false [1%N]; at_ "dev-libs/b" false [2%N];
                                      at_ "dev-libs/c" false [3%N]];
                           at_ "dev-libs/d" false [4%N]]]) FNone;
     pk "dev-libs" "a-1" "dev-libs/a" None None FNone FNone FNone FNone;
     pk "dev-libs" "b-1" "dev-libs/b" None None FNone FNone FNone FNone;
     pk "dev-libs" "c-1" "dev-libs/c" None None FNone FNone FNone FNone;
     pk "dev-libs" "d-1" "dev-libs/d" None None FNone FNone FNone FNone]
    [0%N; 1%N; 2%N; 3%N; 4%N] true true (repeat no_texts 5) (slots0 5) no_obs.

Lemma refuted_1_proof : wf witness_kf1 = true /\ kf witness_kf1 = 1%N /\ spec witness_kf1 (model witness_kf1) = false
  /\ o_stage (model witness_kf1) = ROk [bs "app-misc/top-1"; bs "dev-libs/a-1"; bs "dev-libs/b-1"].
Proof. vm_compute. repeat split; reflexivity. Qed.

(* round 5b: the loader's view.  On witness_ok the model's observation satisfies the specification; the same
   observation with one package missing from what the loader returned (e-1, which nobody needs: the stage set is
   unchanged), or with one package held under another slot key, is refused. *)
Definition with_loaded (m : obs) (l : list (bytes * (bytes * bytes))) : obs :=
  MkObs (o_sys m) (o_stage m) (o_bin_sys m) (o_bin_stage m) (o_bin_stage2 m) (o_listed m) l.
Example loader_view_witness :
  let m := model witness_ok in
  spec witness_ok m = true
  /\ o_loaded m = [(bs "app-misc/a-1", (bs "app-misc/a", bs "00000")); (bs "app-misc/b-1", (bs "app-misc/b", bs "00000"));
                   (bs "app-misc/c-1", (bs "app-misc/c", bs "00000")); (bs "app-misc/d-1", (bs "app-misc/d", bs "00000"));
                   (bs "app-misc/e-1", (bs "app-misc/e", bs "00000"))]
  /\ spec witness_ok (with_loaded m (removelast (o_loaded m))) = false
  /\ spec witness_ok (with_loaded m ((bs "app-misc/a-1", (bs "app-misc/a", bs "00001")) :: tl (o_loaded m))) = false.
Proof. vm_compute. repeat split; reflexivity. Qed.
