(* C06: the specification predicate holds of the model on every well-formed input. *)
From Coq Require Import Sorting.Sorted Sorting.Permutation.
From LC Require Import Lib.Bytes Lib.Lex Lib.Fields Lib.PathM Gen.Consts Model.StageList
  Proofs.StageListP Proofs.StagePathP Proofs.StageFinalP Proofs.StagePipeP Proofs.StageGlobP
  Proofs.StageContentP Cases.C06.
Import C06.
Open Scope N_scope.
Open Scope list_scope.

(* ---------------------------------------------------------------- the model never crashes *)
Lemma contents_line_nopanic l : contents_line l <> Panic.
Proof. unfold contents_line. repeat break_match; discriminate. Qed.
Lemma contents_lines_nopanic ls : contents_lines ls <> Panic.
Proof.
  induction ls as [|l r IH]; cbn [contents_lines]; [discriminate|].
  pose proof (contents_line_nopanic l). destruct (contents_line l); try congruence.
  destruct (contents_lines r); congruence.
Qed.
Lemma parse_contents_nopanic b : parse_contents b <> Panic.
Proof. unfold parse_contents. destruct (trim b); [discriminate|apply contents_lines_nopanic]. Qed.
Lemma all_contents_nopanic ps : all_contents ps <> Panic.
Proof.
  induction ps as [|p r IH]; cbn [all_contents]; [discriminate|].
  pose proof (parse_contents_nopanic (p_contents p)). destruct (parse_contents (p_contents p)); try congruence.
  destruct (all_contents r); congruence.
Qed.
Lemma add_single_nopanic t li n m : add_single t li n m <> Panic.
Proof. unfold add_single. repeat break_match; discriminate. Qed.
Lemma add_all_nopanic t li ns : forall m, add_all t li ns m <> Panic.
Proof.
  induction ns as [|n r IH]; intros m; cbn [add_all]; [discriminate|].
  pose proof (add_single_nopanic t li n m). destruct (add_single t li n m); first [congruence|apply IH].
Qed.
Lemma add_files_nopanic t li m : add_files t li m <> Panic.
Proof.
  unfold add_files, add_wild, add_src. destruct (li_src li) as [s|].
  { destruct (li_wild li); [discriminate|]. destruct (src_lstat t s); discriminate. }
  destruct (li_wild li); [|apply add_single_nopanic].
  destruct (targets_wild t li); [discriminate|apply add_all_nopanic].
Qed.
Lemma run_op_nopanic t o m : run_op t o m <> Panic.
Proof.
  destruct o; cbn [run_op]; try discriminate; [apply add_files_nopanic|].
  unfold remove_files. repeat break_match; discriminate.
Qed.
Lemma run_ops_nopanic t ops : forall m, run_ops t ops m <> Panic.
Proof.
  induction ops as [|o r IH]; intros m; cbn [run_ops]; [discriminate|].
  pose proof (run_op_nopanic t o m). destruct (run_op t o m); first [congruence|apply IH].
Qed.
Lemma add_pkgfiles_nopanic t ns : forall m, add_pkgfiles t ns m <> Panic.
Proof.
  induction ns as [|n r IH]; intros m; cbn [add_pkgfiles]; [discriminate|].
  pose proof (add_single_nopanic t (li_pkgfile n) n m). destruct (add_single t (li_pkgfile n) n m); first [congruence|apply IH].
Qed.
Lemma recover_each_nopanic t cs : forall m, recover_each t cs m <> Panic.
Proof.
  induction cs as [|c r IH]; intros m; cbn [recover_each]; [discriminate|].
  destruct (mem c m); [apply IH|]. destruct (ultimate t chain_fuel 1 c) as [tg|]; [|discriminate].
  destruct (mem tg m); [|apply IH].
  pose proof (add_single_nopanic t (li_link c) c m). destruct (add_single t (li_link c) c m); first [congruence|apply IH].
Qed.
Lemma add_vdb_nopanic t ds : forall m, add_vdb t ds m <> Panic.
Proof.
  induction ds as [|d r IH]; intros m; cbn [add_vdb]; [discriminate|].
  pose proof (add_files_nopanic t (li_vdb d) m) as H. unfold add_files in H. cbn [li_wild li_src li_vdb] in H.
  destruct (add_wild t (li_vdb d) m); first [congruence|apply IH].
Qed.
Lemma extend_dev_nopanic t ls : forall m, extend_dev t ls m <> Panic.
Proof.
  induction ls as [|l r IH]; intros m; cbn [extend_dev]; [discriminate|].
  destruct (ext_line l) as [| |tpl nms]; [apply IH|discriminate|]. destruct (find tpl m) as [[]|]; try discriminate.
  pose proof (add_all_nopanic t (li_devcopy tpl) nms m). destruct (add_all t (li_devcopy tpl) nms m); first [congruence|apply IH].
Qed.
Lemma stage_map_nopanic i : stage_map i <> Panic.
Proof.
  unfold stage_map, bind.
  pose proof (all_contents_nopanic (selected (i_pkgs i))). destruct (all_contents (selected (i_pkgs i))) as [sel| |]; try congruence.
  pose proof (add_pkgfiles_nopanic (i_tree i) sel []). destruct (add_pkgfiles (i_tree i) sel []) as [m1| |]; try congruence.
  pose proof (all_contents_nopanic (i_pkgs i)). destruct (all_contents (i_pkgs i)) as [all| |]; try congruence.
  pose proof (recover_each_nopanic (i_tree i) (link_candidates (i_tree i)) m1). unfold recover_links.
  destruct (recover_each (i_tree i) (link_candidates (i_tree i)) m1) as [m2| |]; try congruence.
  assert (H3 : (if i_novdb i then Ok m2 else add_vdb (i_tree i) (map p_dir (selected (i_pkgs i))) m2) <> Panic)
    by (destruct (i_novdb i); [discriminate|apply add_vdb_nopanic]).
  destruct (if i_novdb i then Ok m2 else add_vdb (i_tree i) (map p_dir (selected (i_pkgs i))) m2) as [m3| |]; try congruence.
  assert (H4 : (if i_emptydev i then Ok m3 else static_dev (i_tree i) m3) <> Panic).
  { destruct (i_emptydev i); [discriminate|]. rewrite static_dev_eq. unfold bind.
    pose proof (run_ops_nopanic (i_tree i) devsetup_ops m3). destruct (run_ops (i_tree i) devsetup_ops m3); try congruence.
    apply extend_dev_nopanic. }
  destruct (if i_emptydev i then Ok m3 else static_dev (i_tree i) m3) as [m4| |]; try congruence.
  pose proof (run_ops_nopanic (i_tree i) magic_ops m4). destruct (run_ops (i_tree i) magic_ops m4) as [m5| |]; try congruence.
  pose proof (run_ops_nopanic (i_tree i) stddir_ops (exclude (unstaged all m1) m5)).
  destruct (run_ops (i_tree i) stddir_ops (exclude (unstaged all m1) m5)) as [m7| |]; try congruence.
  pose proof (run_ops_nopanic (i_tree i) (user_script i) (add_missing_dirs m7)).
  destruct (run_ops (i_tree i) (user_script i) (add_missing_dirs m7)); first [congruence|discriminate].
Qed.
Theorem stage_list_nopanic i : stage_list i <> Panic.
Proof. unfold stage_list. pose proof (stage_map_nopanic i). destruct (stage_map i); congruence. Qed.

(* ---------------------------------------------------------------- booleans and lists *)
Lemma nodupb_spec l : nodupb l = true <-> NoDup l.
Proof.
  induction l as [|x r IH]; cbn [nodupb]; [split; [constructor|reflexivity]|].
  destruct (memb x r) eqn:E.
  - split; [discriminate|]. intros H. inversion H as [|? ? Hn _]; subst. apply memb_In in E. contradiction.
  - rewrite IH. split; [intros H; constructor; [now apply memb_false|exact H]|intros H; now inversion H].
Qed.
Lemma list_beq_feq_refl l : list_beq feq l l = true.
Proof. induction l as [|x r IH]; cbn; [reflexivity|]. now rewrite feq_refl, IH. Qed.
Lemma key_tar x : key (tar_member x) = m_name x.
Proof. reflexivity. Qed.
Lemma map_key_tar ms0 : map key (map tar_member ms0) = map m_name ms0.
Proof. rewrite map_map. apply map_ext. intros x. apply key_tar. Qed.
Lemma has_spec ms0 k : has (map tar_member ms0) k = true <-> exists x, In x ms0 /\ m_name x = k.
Proof.
  unfold has. rewrite existsb_exists. split.
  - intros (y & Hy & E). apply in_map_iff in Hy as (x & <- & Hx). exists x. split; [exact Hx|].
    apply feq_true in E. cbn in E. now injection E.
  - intros (x & Hx & <-). exists (tar_member x). split; [now apply in_map|]. cbn. apply feq_refl.
Qed.
Lemma has_byte_In n s : (n < 256)%N -> has_byte n s = false -> ~ In (nb n) s.
Proof.
  intros Hn H Hin. unfold has_byte in H. assert (E : existsb (fun c => bn c =? n) s = true).
  { apply existsb_exists. exists (nb n). split; [exact Hin|]. rewrite bn_nb by exact Hn. apply N.eqb_refl. }
  congruence.
Qed.

(* omit_matches (spec: the root of the archive is never a directory entry) vs omit_hit (model) *)
Lemma omit_matches_hit nm w k : omit_matches nm w k = true -> omit_hit nm w k = true.
Proof. unfold omit_matches, omit_hit. destruct w; [|auto]. destruct (feq k root_path); [discriminate|auto]. Qed.
Lemma omit_hit_matches nm w k : k <> root_path -> omit_hit nm w k = omit_matches nm w k.
Proof.
  intros Hk. unfold omit_matches, omit_hit. destruct w; [|reflexivity].
  assert (feq k root_path = false) as -> by now apply feq_false. reflexivity.
Qed.
Lemma omits_none_of ops k : k <> root_path -> omits ops k = false -> omits_none ops k.
Proof.
  intros Hk H nm w Hin. rewrite omit_hit_matches by exact Hk.
  destruct (omit_matches nm w k) eqn:E; [|reflexivity]. exfalso.
  assert (omits ops k = true); [|congruence]. unfold omits. apply existsb_exists. exists (OOmit nm w). auto.
Qed.
Lemma adds_spec t ops k : adds t ops k = true <-> ops_name t ops k.
Proof.
  unfold adds, ops_name. rewrite existsb_exists. split.
  - intros (o & Ho & H). destruct o as [li| | |]; try discriminate H. exists li. split; [exact Ho|]. now apply memb_In.
  - intros (li & Ho & H). exists (OAdd li). split; [exact Ho|]. now apply memb_In.
Qed.
Lemma good_abs k : good k -> exists r, k = sl :: r.
Proof.
  intros [H| ->]; [|now exists []]. destruct k as [|c r]; [discriminate H|]. cbn in H.
  apply andb_true_iff in H as [H _]. apply Ascii.eqb_eq in H. subst. now exists r.
Qed.
Lemma abs_clean_not_root k : abs_cleanb k = true -> k <> root_path.
Proof. intros H ->. vm_compute in H. discriminate H. Qed.

(* ---------------------------------------------------------------- what wf gives *)
Lemma wf_tree_facts t : wf_tree t = true -> Forall good (keys t) /\ tree_closed t.
Proof.
  unfold wf_tree. intros H. apply andb_true_iff in H as [H H3]. apply andb_true_iff in H as [_ _].
  rewrite forallb_forall in H3. split.
  - apply Forall_forall. intros k Hk. unfold keys in Hk. apply in_map_iff in Hk as ([k' v] & <- & Hin).
    specialize (H3 _ Hin). cbn [fst snd] in H3. apply andb_true_iff in H3 as [H3 _].
    apply orb_true_iff in H3 as [H3|H3]; [right; now apply feq_true|left].
    apply andb_true_iff in H3 as [H3 _]. apply andb_true_iff in H3 as [H3 _]. exact H3.
  - intros k p Hk Hp. unfold keys in Hk. apply in_map_iff in Hk as ([k' v] & <- & Hin).
    specialize (H3 _ Hin). cbn [fst snd] in *. apply andb_true_iff in H3 as [H3 _].
    apply orb_true_iff in H3 as [H3|H3].
    + apply feq_true in H3. subst k'. destruct Hp.
    + apply andb_true_iff in H3 as [_ H3]. rewrite forallb_forall in H3. specialize (H3 _ Hp).
      destruct (assoc p t) as [[]|]; try discriminate H3. reflexivity.
Qed.

Lemma contents_names_ok p l : parse_contents (p_contents p) = Ok l -> contents_names p = l.
Proof. unfold contents_names. now intros ->. Qed.
Lemma all_contents_each ps : forall ns, all_contents ps = Ok ns ->
  forall p, In p ps -> exists l, parse_contents (p_contents p) = Ok l.
Proof.
  induction ps as [|q r IH]; intros ns H p Hp; [destruct Hp|]. cbn [all_contents] in H.
  destruct (parse_contents (p_contents q)) as [l0| |] eqn:E0; [|discriminate H|discriminate H].
  destruct (all_contents r) as [ms| |] eqn:Er; [|discriminate H|discriminate H].
  destruct Hp as [->|Hp]; [eauto|]. eapply IH; eauto.
Qed.
Lemma all_contents_names ps ns : all_contents ps = Ok ns ->
  forall n, In n ns <-> exists p, In p ps /\ In n (contents_names p).
Proof.
  intros H n. split.
  - intros Hn. destruct (all_contents_origin _ _ H n Hn) as (p & l & Hp & Hl & Hin).
    exists p. split; [exact Hp|]. now rewrite (contents_names_ok _ _ Hl).
  - intros (p & Hp & Hin). destruct (all_contents_each _ _ H p Hp) as (l & Hl).
    rewrite (contents_names_ok _ _ Hl) in Hin. eapply all_contents_In; eauto.
Qed.

Record pkg_facts (t : tree) (ps : list pkg) : Prop := MkPF {
  pf_nodup : NoDup (map p_dir ps);
  pf_apart : forall p q, In p ps -> In q ps -> p_dir p = p_dir q \/ under (p_dir p) (p_dir q) = false;
  pf_dir : forall p, In p ps -> abs_cleanb (p_dir p) = true /\ fprefix vdbp (p_dir p) = true
             /\ ~ In c_star (p_dir p) /\ In (p_dir p ++ bs "/CONTENTS") (keys t);
  pf_names : forall p n, In p ps -> In n (contents_names p) ->
             abs_cleanb n = true /\ fprefix vdbp n = false /\ fprefix devp n = false }.
Lemma wf_pkgs_facts t ps : wf_pkgs t ps = true -> pkg_facts t ps.
Proof.
  unfold wf_pkgs. intros H. apply andb_true_iff in H as [H H4]. apply andb_true_iff in H as [H _].
  apply andb_true_iff in H as [H1 H2]. rewrite forallb_forall in H2, H4. constructor.
  - now apply nodupb_spec.
  - intros p q Hp Hq. specialize (H2 _ Hp). rewrite forallb_forall in H2. specialize (H2 _ Hq).
    apply orb_true_iff in H2 as [H2|H2]; [left; now apply feq_true|right; now apply negb_true_iff].
  - intros p Hp. specialize (H4 _ Hp). cbv zeta in H4.
    repeat match type of H4 with (_ && _) = true => let X := fresh "X" in apply andb_true_iff in H4 as [H4 X] end.
    repeat split; auto.
    + apply negb_true_iff in X2. exact (has_byte_In 42 _ eq_refl X2).
    + destruct (assoc (p_dir p ++ bs "/CONTENTS") t) as [[]|] eqn:E; try discriminate X0. eapply assoc_Some_key; eauto.
  - intros p n Hp Hn. specialize (H4 _ Hp). cbv zeta in H4. apply andb_true_iff in H4 as [_ H4].
    rewrite forallb_forall in H4. specialize (H4 _ Hn).
    repeat match type of H4 with (_ && _) = true => let X := fresh "X" in apply andb_true_iff in H4 as [H4 X] end.
    repeat split; auto; now apply negb_true_iff.
Qed.

Record script_facts (ops : list op) : Prop := MkSF {
  sf_add : forall li, In (OAdd li) ops -> li_wild li = false -> abs_cleanb (li_name li) = true;
  sf_omit : forall nm, In (OOmit nm false) ops -> abs_cleanb nm = true }.
Lemma wf_script_facts t lines : forallb (wf_line t) lines = true -> script_facts (script_ops lines).
Proof.
  intros H. rewrite forallb_forall in H.
  assert (G : forall o, In o (script_ops lines) -> op_wild o = false ->
              match o with OAdd _ | OOmit _ _ => abs_cleanb (op_name o) = true | _ => True end).
  { intros o Ho Hw. unfold script_ops in Ho. apply in_map_iff in Ho as (l' & <- & Hl').
    apply filter_In in Hl' as [Hl' Hc]. apply in_map_iff in Hl' as (l & <- & Hl).
    specialize (H _ Hl). unfold wf_line in H. apply andb_true_iff in H as [_ H].
    apply negb_true_iff in Hc. rewrite Hc in H. cbn [orb] in H.
    destruct (parse_line (trim l)) as [li|nm w| |] eqn:E; try exact I.
    - apply andb_true_iff in H as [_ H]. rewrite Hw in H. exact H.
    - apply andb_true_iff in H as [_ H]. rewrite Hw in H. exact H. }
  constructor.
  - intros li Hin Hw. exact (G _ Hin Hw).
  - intros nm Hin. exact (G _ Hin eq_refl).
Qed.

(* looking up the outside sources changes nothing but the src field of a line *)
Lemma resolve_op_add ext o li : resolve_op ext o = OAdd li ->
  exists li0, o = OAdd li0 /\ li_name li = li_name li0 /\ li_wild li = li_wild li0.
Proof.
  destruct o as [li0|nm w| |]; cbn [resolve_op]; try discriminate.
  destruct (li_src li0); intros H; injection H as <-; exists li0; auto.
Qed.
Lemma resolve_op_omit ext o nm w : resolve_op ext o = OOmit nm w -> o = OOmit nm w.
Proof.
  destruct o as [li0|nm0 w0| |]; cbn [resolve_op]; try discriminate; [destruct (li_src li0); discriminate|auto].
Qed.
Lemma resolved_script_facts ext ops : script_facts ops -> script_facts (map (resolve_op ext) ops).
Proof.
  intros [Ha Ho]. constructor.
  - intros li Hin Hw. apply in_map_iff in Hin as (o & E & Hin). apply resolve_op_add in E as (li0 & -> & En & Ew).
    rewrite En. apply Ha; [exact Hin|now rewrite <- Ew].
  - intros nm Hin. apply in_map_iff in Hin as (o & E & Hin). apply resolve_op_omit in E as ->. now apply Ho.
Qed.

Record wf_facts (c : case) : Prop := MkWF {
  wfa_tree : Forall good (keys (i_tree (c_in c)));
  wfa_closed : tree_closed (i_tree (c_in c));
  wfa_pkgs : pkg_facts (i_tree (c_in c)) (i_pkgs (c_in c));
  wfa_script : script_facts (user_script (c_in c)) }.
Lemma wf_wf_facts c : wf c = true -> wf_facts c.
Proof.
  unfold wf. intros H. cbv zeta in H.
  apply andb_true_iff in H as [H _]. apply andb_true_iff in H as [H _]. apply andb_true_iff in H as [H Hs]. apply andb_true_iff in H as [H Hp].
  apply andb_true_iff in H as [_ Ht]. destruct (wf_tree_facts _ Ht). constructor; auto.
  - now apply wf_pkgs_facts.
  - unfold user_script. apply resolved_script_facts. eapply wf_script_facts; eauto.
Qed.

Lemma wf_good_input c : wf_facts c -> good_input (c_in c).
Proof.
  intros [Ht _ Hp Hs]. constructor; [exact Ht| |].
  - intros ns H. apply Forall_forall. intros n Hn. left.
    apply (all_contents_names _ _ H) in Hn as (p & Hp' & Hin).
    unfold selected in Hp'. apply filter_In in Hp' as [Hp' _]. now destruct (pf_names _ _ Hp p n Hp' Hin).
  - intros li Hin Hw. left. now apply (sf_add _ Hs).
Qed.

(* ---------------------------------------------------------------- facts about the constants of Gen/Consts.v *)
Lemma k_stddir_noskip : forallb stddir_op_ok stddir_ops = true.                Proof. vm_compute. reflexivity. Qed.
Lemma k_stddir_plain : forallb (fun o => match o with OAdd li => negb (li_wild li) | _ => true end) stddir_ops = true.
Proof. vm_compute. reflexivity. Qed.
Lemma k_devsetup_plain : forallb (fun o => match o with OAdd li => negb (li_wild li) | _ => true end) devsetup_ops = true.
Proof. vm_compute. reflexivity. Qed.
Lemma k_devsetup_always : forallb always_adds devsetup_ops = true.             Proof. vm_compute. reflexivity. Qed.
Lemma k_static_under_dev : forallb (fprefix (bs "/dev/")) (add_names devsetup_ops ++ ext_names ext_lines) = true.
Proof. vm_compute. reflexivity. Qed.
Lemma k_magic_avoid_dev : forallb (op_avoids devp) magic_ops = true.           Proof. vm_compute. reflexivity. Qed.
Lemma k_stddir_avoid_dev : forallb (op_avoids devp) stddir_ops = true.         Proof. vm_compute. reflexivity. Qed.
Lemma k_magic_avoid_vdb : forallb (op_avoids vdbp) magic_ops = true.           Proof. vm_compute. reflexivity. Qed.
Lemma k_stddir_avoid_vdb : forallb (op_avoids vdbp) stddir_ops = true.         Proof. vm_compute. reflexivity. Qed.
Definition is_dir_line (n : bytes) (o : op) : bool :=
  match o with
  | OAdd li => match li_type li with TDir => negb (li_wild li) && feq (li_name li) n | _ => false end
  | _ => false
  end.
Lemma k_std_dirs_lines : forallb (fun n => existsb (is_dir_line n) stddir_ops) std_dirs = true.
Proof. vm_compute. reflexivity. Qed.
Lemma k_std_dirs_spec : forall n, In n std_dirs ->
  exists li, In (OAdd li) stddir_ops /\ li_type li = TDir /\ li_wild li = false /\ li_name li = n.
Proof.
  intros n H. pose proof k_std_dirs_lines as K. rewrite forallb_forall in K. specialize (K _ H).
  apply existsb_exists in K as (o & Ho & K). destruct o as [li| | |]; try discriminate K.
  exists li. split; [exact Ho|]. unfold is_dir_line in K. destruct (li_type li); try discriminate K.
  apply andb_true_iff in K as [K1 K2]. apply negb_true_iff in K1. apply feq_true in K2. auto.
Qed.
Lemma k_std_not_root : forallb (fun n => negb (feq n root_path)) std_dirs = true.    Proof. vm_compute. reflexivity. Qed.
Lemma k_static_not_root : forallb (fun n => negb (feq n root_path)) static_names = true. Proof. vm_compute. reflexivity. Qed.
Lemma k_static_names : static_names = add_names devsetup_ops ++ ext_names ext_lines.
Proof. vm_compute. reflexivity. Qed.

Lemma nodup_map_inj {A B} (f : A -> B) l : NoDup (map f l) -> forall x y, In x l -> In y l -> f x = f y -> x = y.
Proof.
  induction l as [|a l IH]; intros ND x y Hx Hy E; [destruct Hx|]. cbn in ND. inversion ND as [|? ? Hn ND']; subst.
  destruct Hx as [->|Hx], Hy as [->|Hy]; auto.
  - exfalso. apply Hn. rewrite E. now apply in_map.
  - exfalso. apply Hn. rewrite <- E. now apply in_map.
Qed.

(* ---------------------------------------------------------------- spec_ok on the model's output
   The built-in scripts are section variables (as in StageContentP); the final theorem
   instantiates them with the constants and the k_ facts above. *)
Section Main.
Variable c : case.
Hypothesis F : wf_facts c.
Let i := c_in c.
Let t := i_tree i.
Variables (mops sops dops : list op) (xl : list bytes).
Hypothesis mops_adds : forallb is_add mops = true.
Hypothesis sops_adds : forallb is_add sops = true.
Hypothesis dops_adds : forallb is_add dops = true.
Variables (sel all : list bytes) (m1 m2 m3 m4 m5 m7 m9 : emap).
Hypothesis E_sel : all_contents (selected (i_pkgs i)) = Ok sel.
Hypothesis E1 : add_pkgfiles t sel [] = Ok m1.
Hypothesis E_all : all_contents (i_pkgs i) = Ok all.
Hypothesis E2 : recover_links t m1 = Ok m2.
Hypothesis E3 : (if i_novdb i then Ok m2 else add_vdb t (map p_dir (selected (i_pkgs i))) m2) = Ok m3.
Hypothesis E4 : (if i_emptydev i then Ok m3 else bind (run_ops t dops m3) (extend_dev t xl)) = Ok m4.
Hypothesis E5 : run_ops t mops m4 = Ok m5.
Hypothesis E7 : run_ops t sops (exclude (unstaged all m1) m5) = Ok m7.
Hypothesis E9 : run_ops t (user_script i) (add_missing_dirs m7) = Ok m9.
Hypothesis G7 : Forall good (keys m7).
Hypothesis G9 : Forall good (keys m9).
Let mf := add_missing_dirs m9.
Hypothesis Gf : Forall good (keys mf).
Hypothesis Cf : forall k p, mem k mf = true -> In p (nrparents k) -> mem p mf = true.
Hypothesis If : inv t mf.
Let ms0 := finalize mf.
Let ms := map tar_member ms0.
Let uops := user_script i.
Let pars := member_parents ms.

Lemma has_mem k : has ms k = true <-> mem k mf = true.
Proof.
  unfold ms. rewrite has_spec. split.
  - intros (x & Hx & <-). now apply finalize_mem.
  - intros H. destruct (finalize_has _ _ H) as (x & Hx & E). eauto.
Qed.
Lemma pars_spec k : memb k pars = true <-> exists k0, mem k0 mf = true /\ In k (nrparents k0).
Proof.
  unfold pars, member_parents. rewrite memb_In, in_flat_map. split.
  - intros (x & Hx & Hk). unfold ms in Hx. apply in_map_iff in Hx as (x0 & <- & Hx0). rewrite key_tar in Hk.
    exists (m_name x0). split; [now apply finalize_mem|exact Hk].
  - intros (k0 & Hk0 & Hk). destruct (finalize_has _ _ Hk0) as (x0 & Hx0 & E).
    exists (tar_member x0). split; [unfold ms; now apply in_map|]. rewrite key_tar, E. exact Hk.
Qed.
Lemma all_names n : In n all -> abs_cleanb n = true /\ fprefix vdbp n = false /\ fprefix devp n = false.
Proof.
  intros H. destruct (proj1 (all_contents_names _ _ E_all n) H) as (p & Hp & Hn). exact (pf_names _ _ (wfa_pkgs _ F) p n Hp Hn).
Qed.
Lemma sel_in_all n : In n sel -> In n all.
Proof.
  intros H. destruct (proj1 (all_contents_names _ _ E_sel n) H) as (p & Hp & Hn). apply (proj2 (all_contents_names _ _ E_all n)).
  exists p. split; [|exact Hn]. unfold selected in Hp. now apply filter_In in Hp.
Qed.
Lemma seldirs_ok d : In d (map p_dir (selected (i_pkgs i))) -> abs_cleanb d = true /\ ~ In c_star d /\ fprefix vdbp d = true.
Proof.
  intros H. apply in_map_iff in H as (p & <- & Hp). unfold selected in Hp. apply filter_In in Hp as [Hp _].
  destruct (pf_dir _ _ (wfa_pkgs _ F) p Hp) as (A & B & C & _). auto.
Qed.

Lemma c_relative : s_relative ms = true.
Proof.
  unfold s_relative, ms. apply forallb_forall. intros x Hx. apply in_map_iff in Hx as (x0 & <- & Hx0).
  apply finalize_mem in Hx0. rewrite Forall_forall in Gf. pose proof (Gf _ (proj1 (mem_In _ _) Hx0)) as G.
  destruct (good_abs _ G) as (r & E). rewrite key_tar.
  assert (P : fprefix (bs "./") (m_name (tar_member x0)) = true) by (cbn [tar_member m_name]; rewrite E; reflexivity).
  rewrite P. destruct G as [G|G]; [rewrite G; now destruct (feq (m_name x0) root_path)|rewrite G; now rewrite feq_refl].
Qed.
Lemma c_unique : s_unique ms = true.
Proof.
  unfold s_unique, ms. apply nodupb_spec. rewrite map_map.
  pose proof (finalize_nodup mf (inv_nodup _ _ If)) as ND. fold ms0 in ND.
  change (NoDup (map (fun x => dot :: m_name x) ms0)). rewrite <- (map_map m_name (cons dot)).
  apply FinFun.Injective_map_NoDup; [|exact ND]. intros a b H. now injection H.
Qed.

Lemma s_parents_gen ks : forall seen,
  (forall n k p, nth_error ks n = Some k -> In p (nrparents k) ->
     In p seen \/ exists j, (j < n)%nat /\ nth_error ks j = Some p) ->
  s_parents seen ks = true.
Proof.
  induction ks as [|k r IH]; intros seen H; cbn [s_parents]; [reflexivity|].
  assert (A : forallb (fun p => memb p seen) (nrparents k) = true).
  { apply forallb_forall. intros p Hp. apply memb_In. destruct (H 0%nat k p eq_refl Hp) as [Hs|(j & Hj & _)]; [exact Hs|lia]. }
  rewrite A. apply IH. intros n k' p Hn Hp. destruct (H (S n) k' p Hn Hp) as [Hs|(j & Hj & Hnth)].
  - left. now right.
  - destruct j as [|j]; [left; left; now injection Hnth|right]. exists j. split; [lia|exact Hnth].
Qed.
Lemma nth_error_map_inv' {A B} (f : A -> B) l n y : nth_error (map f l) n = Some y -> exists x, nth_error l n = Some x /\ f x = y.
Proof.
  revert n. induction l as [|a l IH]; intros [|n] H; cbn in H; try discriminate H.
  - injection H as <-. now exists a.
  - now apply IH.
Qed.
Lemma c_parents : s_parents [] (map key ms) = true.
Proof.
  unfold ms. rewrite map_key_tar. apply s_parents_gen. intros n k p Hn Hp. right.
  apply nth_error_map_inv' in Hn. destruct Hn as (x & Hx & <-).
  destruct (finalize_parents_precede mf (inv_nodup _ _ If) Cf n x p Hx Hp) as (j & y & Hj & Hy & E).
  exists j. split; [exact Hj|]. fold ms0 in Hy. rewrite <- E. now apply map_nth_error.
Qed.

(* 4. hard links *)
Lemma s_hardlinks_gen l : forall seen,
  (forall a x b, l = a ++ x :: b ->
     match m_kind x with
     | KLink => exists y, In y (seen ++ a) /\ m_name y = m_link x /\ m_kind y = KReg /\ same_inode t (key x) (key y) = true
     | KOther => False
     | _ => True
     end) ->
  s_hardlinks t seen l = true.
Proof.
  induction l as [|x r IH]; intros seen H; cbn [s_hardlinks]; [reflexivity|].
  assert (A : match m_kind x with
              | KLink => existsb (fun y => if feq (m_name y) (m_link x)
                                           then mkind_beq (m_kind y) KReg && same_inode t (key x) (key y) else false) seen
              | KOther => false | _ => true end = true).
  { specialize (H [] x r eq_refl). destruct (m_kind x); try reflexivity; try (now destruct H).
    destruct H as (y & Hy & Hn & Hk & Hs). rewrite app_nil_r in Hy. apply existsb_exists. exists y. split; [exact Hy|].
    rewrite Hn, feq_refl, Hk, Hs. reflexivity. }
  rewrite A. apply IH. intros a x' b E. specialize (H (x :: a) x' b ltac:(now rewrite E)).
  destruct (m_kind x'); auto. destruct H as (y & Hy & R). exists y. split; [|exact R].
  apply in_app_or in Hy. apply in_or_app. destruct Hy as [Hy|[Hy|Hy]]; [left; now right|left; now left|now right].
Qed.
Lemma c_hardlinks : s_hardlinks t [] ms = true.
Proof.
  apply s_hardlinks_gen. intros a x b E.
  unfold ms in E. apply map_eq_app in E as (a0 & r0 & E0 & <- & Er). destruct r0 as [|x0 b0]; [discriminate Er|].
  cbn [map] in Er. injection Er as <- <-.
  destruct (finalize_kind mf x0 ltac:(fold ms0; rewrite E0; apply in_or_app; right; now left)) as (e & Fe & Ke).
  cbn [tar_member m_kind].
  destruct (m_kind x0) eqn:Kx; auto.
  - fold ms0 in E0. destruct (finalize_hardlinks mf a0 x0 b0 E0 Kx) as (y & g & Hy & Hn & Hk & F1 & F2).
    exists (tar_member y). split; [apply in_map; exact Hy|]. rewrite !key_tar. cbn [tar_member m_name m_kind m_link].
    assert (Gy : good (m_name y)).
    { rewrite Forall_forall in Gf. apply Gf. apply mem_In. unfold mem. now rewrite F2. }
    destruct (good_abs _ Gy) as (r & Er). rewrite Kx. unfold tar_link. rewrite <- Hn, Er. cbn [is_absb].
    change c_sl with sl. rewrite Ascii.eqb_refl. repeat split; auto.
    unfold same_inode. rewrite (inv_ino _ _ If _ _ F1). rewrite <- Er. rewrite (inv_ino _ _ If _ _ F2). apply N.eqb_refl.
  - destruct e; cbn in Ke; try discriminate Ke. destruct Ke; discriminate.
Qed.

(* 4b. src= entries are regular files of their own *)
Lemma c_src_gen post : forall pre, uops = pre ++ post -> s_src t ms post = true.
Proof.
  induction post as [|o r IH]; intros pre E; cbn [s_src]; [reflexivity|].
  rewrite (IH (pre ++ [o])) by (rewrite <- app_assoc; exact E). rewrite andb_true_r.
  destruct o as [li| | |]; auto. destruct (li_src li) as [s|] eqn:Es; [|reflexivity]. cbv zeta.
  destruct (omits r (li_name li)) eqn:Eo; [reflexivity|]. destruct (adds t r (li_name li)) eqn:Ea; [reflexivity|].
  destruct (src_same t s (li_name li)); [reflexivity|].
  assert (Hin : In (OAdd li) uops) by (rewrite E; apply in_or_app; right; now left).
  assert (Hw : li_wild li = false).
  { destruct (li_wild li) eqn:Ew; [|reflexivity]. exfalso.
    fold uops in E9. rewrite E in E9. apply run_ops_app in E9 as (ma & _ & H9). cbn [run_ops run_op] in H9.
    unfold add_files in H9. rewrite Es, Ew in H9. discriminate H9. }
  assert (Hc : abs_cleanb (li_name li) = true) by (apply (sf_add _ (wfa_script _ F)); assumption).
  assert (Hf : find (li_name li) mf = Some (EFile None)).
  { apply (src_final i m7 m9 E9 pre li s r E Es).
    - apply omits_none_of; [now apply abs_clean_not_root|exact Eo].
    - intros H. change (ops_name t r (li_name li)) in H. apply adds_spec in H. rewrite H in Ea. discriminate Ea. }
  unfold src_member_ok. apply forallb_forall. intros x Hx.
  unfold ms in Hx. apply in_map_iff in Hx as (x0 & <- & Hx0). rewrite key_tar. cbn [tar_member m_kind m_link].
  destruct (finalize_nogroup mf _ Hf x0 Hx0) as [K1 K2]. apply andb_true_iff. split.
  - destruct (feq (m_name x0) (li_name li)) eqn:En; [|reflexivity]. apply feq_true in En. now rewrite (K1 En).
  - destruct (m_kind x0) eqn:Kx; try reflexivity. cbn [mkind_beq]. apply negb_true_iff. apply feq_false.
    destruct (K2 eq_refl) as [K2a K2b]. unfold tar_link.
    assert (Gl : good (m_link x0)) by (rewrite Forall_forall in Gf; apply Gf; now apply mem_In).
    destruct (good_abs _ Gl) as (r0 & Er0). rewrite Er0. cbn [is_absb]. change c_sl with sl. rewrite Ascii.eqb_refl.
    intros H. injection H as H. rewrite Er0 in K2a. contradiction.
Qed.
Lemma c_src : s_src t ms uops = true.
Proof. apply (c_src_gen uops []). reflexivity. Qed.

(* 5. package files *)
Lemma c_pkgfiles : s_pkgfiles i uops ms = true.
Proof.
  unfold s_pkgfiles. apply forallb_forall. intros p Hp. apply forallb_forall. intros n Hn.
  destruct (is_fdl (i_tree i) n) eqn:Ef; [|reflexivity]. destruct (omits uops n) eqn:Eo; [reflexivity|]. cbn [negb].
  apply has_mem. unfold selected in Hp. assert (Hp' := Hp). apply filter_In in Hp' as [Hp' _].
  destruct (pf_names _ _ (wfa_pkgs _ F) p n Hp' Hn) as (Hc & _ & _).
  assert (Hs : In n sel) by (apply (proj2 (all_contents_names _ _ E_sel n)); eauto).
  apply (pkgfile_member i mops sops dops xl mops_adds sops_adds dops_adds sel all m1 m2 m3 m4 m5 m7 m9 E1 E2 E3 E4 E5 E7 E9 n Hs).
  - intros E. unfold is_fdl in Ef. fold t in Ef, E. rewrite E in Ef. discriminate Ef.
  - apply omits_none_of; [now apply abs_clean_not_root|exact Eo].
Qed.

(* 6a. VDB entries of the selected packages *)
Lemma under_eq_spec d k : under_eq d k = true <-> k = d \/ under d k = true.
Proof.
  unfold under_eq. destruct (feq d k) eqn:E.
  - apply feq_true in E. subst. tauto.
  - apply feq_false in E. split; [tauto|]. intros [H|H]; [congruence|exact H].
Qed.
Lemma under_not_root d k : under d k = true -> abs_cleanb d = true -> k <> root_path.
Proof.
  intros H Hd ->. apply under_spec in H as (r & H). destruct d as [|x d']; [discriminate Hd|]. destruct d'; discriminate H.
Qed.
Lemma c_vdb_in : s_vdb_in i uops ms = true.
Proof.
  unfold s_vdb_in. apply forallb_forall. intros p Hp.
  destruct (p_sel p && negb (i_novdb i)) eqn:Es; [|reflexivity].
  apply andb_true_iff in Es as [Es Ev]. apply negb_true_iff in Ev.
  apply forallb_forall. intros k Hk. destruct (under_eq (p_dir p) k) eqn:Eu; [|reflexivity].
  destruct (omits uops k) eqn:Eo; [reflexivity|]. cbn [negb]. apply has_mem.
  destruct (pf_dir _ _ (wfa_pkgs _ F) p Hp) as (A & B & C & D).
  assert (Hd : In (p_dir p) (map p_dir (selected (i_pkgs i)))).
  { apply in_map. unfold selected. apply filter_In. auto. }
  apply under_eq_spec in Eu.
  apply (vdb_member i mops sops dops xl mops_adds sops_adds dops_adds all m1 m2 m3 m4 m5 m7 m9 E3 E4 E5 E7 E9
           (wfa_closed _ F) (wfa_tree _ F) (fun n Hn => proj1 (proj2 (all_names n Hn))) G7 (p_dir p) k Ev Hd A C B D Hk Eu).
  apply omits_none_of; [|exact Eo]. destruct Eu as [->|Eu]; [now apply abs_clean_not_root|eapply under_not_root; eauto].
Qed.

(* 7a/7b. standard directories and static /dev nodes (lists given by the caller) *)
Variable stdd : list bytes.
Hypothesis stdd_spec : forall n, In n stdd ->
  exists li, In (OAdd li) sops /\ li_type li = TDir /\ li_wild li = false /\ li_name li = n.
Hypothesis stdd_not_root : forall n, In n stdd -> n <> root_path.
Hypothesis sops_noskip : forallb stddir_op_ok sops = true.
Lemma c_std_dirs : forallb (fun n => if negb (omits uops n) then has ms n else true) stdd = true.
Proof.
  apply forallb_forall. intros n Hn. destruct (omits uops n) eqn:Eo; [reflexivity|]. cbn [negb]. apply has_mem.
  destruct (stdd_spec n Hn) as (li & Hin & Ht & Hw & <-).
  apply (stddir_member i sops sops_adds all m1 m5 m7 m9 E7 E9 sops_noskip li Hin Ht Hw).
  apply omits_none_of; [now apply stdd_not_root|exact Eo].
Qed.
Variable statn : list bytes.
Hypothesis statn_eq : statn = add_names dops ++ ext_names xl.
Hypothesis statn_not_root : forall n, In n statn -> n <> root_path.
Hypothesis dops_always : forallb always_adds dops = true.
Hypothesis static_under_dev : forallb (fprefix (bs "/dev/")) (add_names dops ++ ext_names xl) = true.
Lemma c_static_in : i_emptydev i = false ->
  forallb (fun n => if negb (omits uops n) then has ms n else true) statn = true.
Proof.
  intros He. apply forallb_forall. intros n Hn. destruct (omits uops n) eqn:Eo; [reflexivity|]. cbn [negb]. apply has_mem.
  assert (Hn' : In n (add_names dops ++ ext_names xl)) by (rewrite <- statn_eq; exact Hn).
  apply (static_member i mops sops dops xl mops_adds sops_adds dops_adds all m1 m3 m4 m5 m7 m9 E4 E5 E7 E9
           (fun x Hx => proj2 (proj2 (all_names x Hx))) dops_always static_under_dev n He Hn').
  apply omits_none_of; [now apply statn_not_root|exact Eo].
Qed.

(* 8. the user's entries *)
Lemma targets_not_root li n : In (OAdd li) uops -> In n (targets t li) -> n <> root_path.
Proof.
  intros Hin Hn. unfold targets in Hn. destruct (li_wild li) eqn:Ew.
  - intros ->. unfold targets_wild in Hn.
    assert (G : ~ In root_path (glob t (li_name li))).
    { unfold glob. intros H. apply filter_In in H as [_ H]. now rewrite feq_refl in H. }
    destruct (li_type li); try contradiction.
    unfold glob_rec in Hn. apply filter_In in Hn as [_ Hn].
    destruct (memb root_path (glob t (li_name li))) eqn:M; [apply memb_In in M; contradiction|].
    apply existsb_exists in Hn as (m & Hm & Hu). apply under_spec in Hu as (r & Hu).
    apply filter_In in Hm as [Hm _]. unfold glob in Hm. apply filter_In in Hm as [Hm _].
    pose proof (wfa_tree _ F) as TG. rewrite Forall_forall in TG. destruct (good_abs _ (TG _ Hm)) as (m' & ->).
    unfold root_path in Hu. cbn in Hu. injection Hu as Hu. destruct m'; discriminate Hu.
  - destruct Hn as [<-|[]]. apply abs_clean_not_root. now apply (sf_add _ (wfa_script _ F)).
Qed.
Lemma c_user_gen post : forall pre, uops = pre ++ post -> s_user t ms post = true.
Proof.
  induction post as [|o r IH]; intros pre E; cbn [s_user]; [reflexivity|].
  rewrite (IH (pre ++ [o])) by (rewrite <- app_assoc; exact E). rewrite andb_true_r.
  destruct o as [li| | |]; auto. apply forallb_forall. intros n Hn.
  destruct (li_skip li && absent t n) eqn:Ea; [reflexivity|]. cbn [negb].
  destruct (omits r n) eqn:Eo; [reflexivity|]. cbn [negb]. apply has_mem.
  assert (Hin : In (OAdd li) uops) by (rewrite E; apply in_or_app; right; now left).
  apply (user_member i m7 m9 E9 pre li r n E Hn).
  - intros Hs Hl. rewrite Hs in Ea. unfold absent in Ea. fold t in Hl, Ea. rewrite Hl in Ea. discriminate Ea.
  - apply omits_none_of; [eapply targets_not_root; eauto|exact Eo].
Qed.
Lemma c_user : s_user t ms uops = true.
Proof. apply (c_user_gen uops []). reflexivity. Qed.

(* 10. omit lines *)
Lemma c_omit_gen post : forall pre, uops = pre ++ post -> s_omit t pars ms post = true.
Proof.
  induction post as [|o r IH]; intros pre E; cbn [s_omit]; [reflexivity|].
  rewrite (IH (pre ++ [o])) by (rewrite <- app_assoc; exact E). rewrite andb_true_r.
  destruct o as [|nm w| |]; auto. apply forallb_forall. intros x Hx.
  destruct (omit_matches nm w (key x)) eqn:Em; [|reflexivity].
  unfold ms in Hx. apply in_map_iff in Hx as (x0 & <- & Hx0). rewrite key_tar in *.
  pose proof (finalize_mem _ _ Hx0) as Hm.
  destruct (omit_final i m7 m9 E9 G9 pre nm w r (m_name x0) E (omit_matches_hit _ _ _ Em) Hm) as [H|[H| H]].
  - assert (A : adds t r (m_name x0) = true) by now apply adds_spec. now rewrite A.
  - destruct (adds t r (m_name x0)); [reflexivity|]. now apply pars_spec.
  - exfalso. rewrite H in Em. unfold omit_matches in Em. destruct w; [now rewrite feq_refl in Em|].
    apply feq_true in Em. subst nm.
    assert (Hin : In (OOmit root_path false) uops) by (rewrite E; apply in_or_app; right; now left).
    pose proof (sf_omit _ (wfa_script _ F) _ Hin) as A. vm_compute in A. discriminate A.
Qed.
Lemma c_omit : s_omit t pars ms uops = true.
Proof. apply (c_omit_gen uops []). reflexivity. Qed.

(* 9. nothing recorded only for packages outside the selection *)
Variable stdn : list bytes.
Hypothesis stdn_eq : stdn = add_names sops.
Hypothesis sops_plain : forallb (fun o => match o with OAdd li => negb (li_wild li) | _ => true end) sops = true.
Lemma c_unselected_member x :
  In x ms -> (m_kind x = KReg \/ m_kind x = KSym \/ m_kind x = KLink) ->
  memb (key x) (flat_map contents_names (filter (fun p => negb (p_sel p)) (i_pkgs i))) = true ->
  memb (key x) (flat_map contents_names (selected (i_pkgs i))) = false ->
  (if adds t uops (key x) then true else memb (key x) stdn) = true.
Proof.
  intros Hx Hk Hu Hs. unfold ms in Hx. apply in_map_iff in Hx as (x0 & <- & Hx0). rewrite key_tar in *.
  cbn [tar_member m_kind] in Hk.
  destruct (adds t uops (m_name x0)) eqn:Ea; [reflexivity|]. destruct (memb (m_name x0) stdn) eqn:Es; [reflexivity|]. exfalso.
  assert (Hall : In (m_name x0) all).
  { apply memb_In, in_flat_map in Hu as (p & Hp & Hn). apply filter_In in Hp as [Hp _].
    apply (proj2 (all_contents_names _ _ E_all _)). eauto. }
  assert (Hsel : ~ In (m_name x0) sel).
  { intros H. destruct (proj1 (all_contents_names _ _ E_sel _) H) as (p & Hp & Hn).
    apply memb_false in Hs. apply Hs. apply in_flat_map. eauto. }
  assert (Hops : ~ ops_name t uops (m_name x0)).
  { intros H. apply adds_spec in H. congruence. }
  assert (Hstd : ~ In (m_name x0) (add_names sops)).
  { rewrite <- stdn_eq. now apply memb_false. }
  pose proof (unselected_final i sops sops_adds sel all m1 m5 m7 m9 E1 E7 E9 sops_plain _ Hall Hsel Hops Hstd) as U.
  destruct (finalize_kind mf x0 Hx0) as (e & Fe & Ke). fold mf in U. rewrite Fe in U.
  destruct U as [U|U]; [discriminate U|]. injection U as ->. cbn in Ke. rewrite Ke in Hk.
  destruct Hk as [H|[H|H]]; discriminate H.
Qed.

(* 6b. nothing of the other packages' VDB entries *)
Hypothesis dops_plain : forallb (fun o => match o with OAdd li => negb (li_wild li) | _ => true end) dops = true.
Hypothesis mops_avoid_vdb : forallb (op_avoids vdbp) mops = true.
Hypothesis sops_avoid_vdb : forallb (op_avoids vdbp) sops = true.
Lemma c_vdb_out : s_vdb_out i uops pars ms = true.
Proof.
  unfold s_vdb_out. apply forallb_forall. intros p Hp.
  destruct (p_sel p && negb (i_novdb i)) eqn:Es; [reflexivity|].
  apply forallb_forall. intros x Hx. destruct (under_eq (p_dir p) (key x)) eqn:Eu; [|reflexivity].
  unfold ms in Hx. apply in_map_iff in Hx as (x0 & <- & Hx0). rewrite key_tar in *.
  pose proof (finalize_mem _ _ Hx0) as Hm. apply under_eq_spec in Eu.
  destruct (pf_dir _ _ (wfa_pkgs _ F) p Hp) as (A & B & C & D).
  assert (Hsep : i_novdb i = false -> forall d, In d (map p_dir (selected (i_pkgs i))) ->
            d <> p_dir p /\ under d (p_dir p) = false /\ under (p_dir p) d = false).
  { intros Hv d Hd. rewrite Hv in Es. cbn [negb] in Es. rewrite andb_true_r in Es.
    apply in_map_iff in Hd as (q & <- & Hq). unfold selected in Hq. apply filter_In in Hq as [Hq Hqs].
    assert (Hne : p_dir q <> p_dir p).
    { intros E. pose proof (pf_nodup _ _ (wfa_pkgs _ F)) as ND.
      assert (q = p) by (eapply nodup_map_inj; eauto). subst q. congruence. }
    split; [exact Hne|]. split.
    - destruct (pf_apart _ _ (wfa_pkgs _ F) q p Hq Hp) as [H|H]; [contradiction|exact H].
    - destruct (pf_apart _ _ (wfa_pkgs _ F) p q Hp Hq) as [H|H]; [symmetry in H; contradiction|exact H]. }
  fold t. destruct (vdb_out i mops sops dops xl mops_adds sops_adds dops_adds sel all m1 m2 m3 m4 m5 m7 m9 E1 E2 E3 E4 E5 E7 E9
              static_under_dev G9 (fun n Hn => proj1 (proj2 (all_names n Hn))) G7 sel_in_all seldirs_ok dops_plain
              mops_avoid_vdb sops_avoid_vdb (p_dir p) (m_name x0) A B Hsep Eu Hm) as [H|H].
  - assert (Ha : adds t uops (m_name x0) = true) by now apply adds_spec. now rewrite Ha.
  - destruct (adds t uops (m_name x0)); [reflexivity|]. now apply pars_spec.
Qed.

(* 7c. with -emptydev none of the static nodes *)
Hypothesis mops_avoid_dev : forallb (op_avoids devp) mops = true.
Hypothesis sops_avoid_dev : forallb (op_avoids devp) sops = true.
Lemma c_static_out : i_emptydev i = true ->
  forallb (fun n => if has ms n then (if adds t uops n then true else memb n pars) else true) statn = true.
Proof.
  intros He. apply forallb_forall. intros n Hn. destruct (has ms n) eqn:Eh; [|reflexivity].
  apply has_mem in Eh.
  assert (Hp : fprefix devp n = true).
  { rewrite forallb_forall in static_under_dev. apply static_under_dev. rewrite <- statn_eq. exact Hn. }
  destruct (dev_out i mops sops dops xl mops_adds sops_adds dops_adds sel all m1 m2 m3 m4 m5 m7 m9 E1 E2 E3 E4 E5 E7 E9
              (fun x Hx => proj2 (proj2 (all_names x Hx))) G9 G7 sel_in_all seldirs_ok mops_avoid_dev sops_avoid_dev
              n He Hp Eh) as [H|H].
  - assert (Ha : adds t uops n = true) by now apply adds_spec. now rewrite Ha.
  - destruct (adds t uops n); [reflexivity|]. now apply pars_spec.
Qed.

(* 11. every member has a source *)
Lemma ops_name_targets ops k : ops_name t ops k -> In k (flat_map (op_all_targets t) ops).
Proof. intros (li & Hin & Hk). apply in_flat_map. exists (OAdd li). split; [exact Hin|exact Hk]. Qed.
Lemma sourced_in_sources k :
  sourced i mops sops dops xl sel k -> In k (sources_gen mops sops statn i uops).
Proof.
  unfold sourced, sources_gen. cbv zeta. intros H. rewrite !in_app_iff.
  destruct H as [H|[H|[[Hv H]|[[He H]|[H|[H|H]]]]]].
  - left. destruct (proj1 (all_contents_names _ _ E_sel k) H) as (p & Hp & Hn). apply in_flat_map. eauto.
  - right; left. exact H.
  - right; right; left. rewrite Hv. destruct H as (d & Hd & Hk). apply in_map_iff in Hd as (p & <- & Hp).
    apply in_flat_map. exists p. split; [exact Hp|exact Hk].
  - right; right; right; left. rewrite He. rewrite statn_eq. apply in_or_app. destruct H as [(li & Hin & Hk)|H]; [left|now right].
    unfold add_names. apply in_flat_map. exists (OAdd li). split; [exact Hin|].
    rewrite forallb_forall in dops_plain. specialize (dops_plain _ Hin). cbn in dops_plain. apply negb_true_iff in dops_plain.
    unfold op_targets in Hk. rewrite dops_plain in Hk. exact Hk.
  - right; right; right; right; left. now apply ops_name_targets.
  - right; right; right; right; right; left. now apply ops_name_targets.
  - right; right; right; right; right; right. now apply ops_name_targets.
Qed.
Lemma c_sourced : s_sourced_gen (sources_gen mops sops statn i uops) ms = true.
Proof.
  unfold s_sourced_gen. cbv zeta. apply forallb_forall. intros x Hx.
  unfold ms in Hx. apply in_map_iff in Hx as (x0 & <- & Hx0). rewrite key_tar.
  pose proof (finalize_mem _ _ Hx0) as Hm.
  destruct (mf_sourced i mops sops dops xl mops_adds sops_adds dops_adds sel all m1 m2 m3 m4 m5 m7 m9
              E1 E2 E3 E4 E5 E7 E9 G9 G7 (m_name x0) Hm) as [H|[H|(k0 & H & Hin)]].
  - apply sourced_in_sources, memb_In in H. now rewrite H.
  - destruct (memb (m_name x0) _); [reflexivity|]. rewrite H. now rewrite feq_refl.
  - destruct (memb (m_name x0) _); [reflexivity|]. destruct (feq (m_name x0) root_path); [reflexivity|].
    apply memb_In. apply in_flat_map. exists k0. split; [now apply sourced_in_sources|exact Hin].
Qed.

(* everything together *)
Lemma c_all :
  s_relative ms = true /\ s_unique ms = true /\ s_parents [] (map key ms) = true /\ s_hardlinks t [] ms = true
  /\ s_src t ms uops = true
  /\ list_beq feq (map m_name ms0) (map key ms) = true
  /\ s_pkgfiles i uops ms = true /\ s_vdb_in i uops ms = true
  /\ forallb (fun n => if negb (omits uops n) then has ms n else true) stdd = true
  /\ (i_emptydev i = false -> forallb (fun n => if negb (omits uops n) then has ms n else true) statn = true)
  /\ s_user t ms uops = true
  /\ (forall x, In x ms -> (m_kind x = KReg \/ m_kind x = KSym \/ m_kind x = KLink) ->
        memb (key x) (flat_map contents_names (filter (fun p => negb (p_sel p)) (i_pkgs i))) = true ->
        memb (key x) (flat_map contents_names (selected (i_pkgs i))) = false ->
        (if adds t uops (key x) then true else memb (key x) stdn) = true)
  /\ s_omit t pars ms uops = true /\ s_vdb_out i uops pars ms = true
  /\ (i_emptydev i = true ->
        forallb (fun n => if has ms n then (if adds t uops n then true else memb n pars) else true) statn = true)
  /\ s_sourced_gen (sources_gen mops sops statn i uops) ms = true.
Proof.
  repeat split.
  - exact c_relative. - exact c_unique. - exact c_parents. - exact c_hardlinks. - exact c_src.
  - unfold ms. rewrite map_key_tar. apply list_beq_feq_refl.
  - exact c_pkgfiles. - exact c_vdb_in. - exact c_std_dirs. - exact c_static_in. - exact c_user.
  - exact c_unselected_member. - exact c_omit. - exact c_vdb_out. - exact c_static_out. - exact c_sourced.
Qed.
End Main.

Lemma forall_neq_root l : forallb (fun n => negb (feq n root_path)) l = true -> forall n, In n l -> n <> root_path.
Proof. intros H n Hn. rewrite forallb_forall in H. specialize (H n Hn). apply negb_true_iff in H. now apply feq_false. Qed.

(* ---------------------------------------------------------------- the theorem *)
Theorem C06_holds_proof : forall c, wf c = true -> kf c = 0%N -> spec c (model c) = true.
Proof.
  intros c Hwf _. pose proof (wf_wf_facts c Hwf) as F.
  unfold spec, model. cbn [o_list o_tar o_extract].
  destruct (stage_list (c_in c)) as [ms0| |] eqn:E; cbn [map_res];
    [|reflexivity|exfalso; exact (stage_list_nopanic _ E)].
  apply stage_list_inv in E as (mf & Hm & ->).
  pose proof (stage_map_stages _ _ Hm) as ST.
  pose proof (stages_inv _ _ ST) as If.
  destruct (stages_good _ _ ST (wf_good_input c F)) as [Gf Cf].
  destruct ST as [sel all m1 m2 m3 m4 m5 m7 m9 E_sel E1 E_all E2 E3 E4 E5 E7 E9 Ef]. subst mf.
  destruct (stages_good9 (c_in c) (wf_good_input c F) _ _ _ _ _ _ _ _ _ E_sel E1 E2 E3 E4 E5 E7 E9) as [G7 G9].
  rewrite static_dev_eq in E4.
  pose proof (c_all c F magic_ops stddir_ops devsetup_ops ext_lines magic_adds stddir_adds devsetup_adds
     sel all m1 m2 m3 m4 m5 m7 m9 E_sel E1 E_all E2 E3 E4 E5 E7 E9 G7 G9 Gf Cf If
     std_dirs k_std_dirs_spec (forall_neq_root _ k_std_not_root) k_stddir_noskip
     static_names k_static_names (forall_neq_root _ k_static_not_root) k_devsetup_always k_static_under_dev
     (op_names stddir_ops) eq_refl k_stddir_plain k_devsetup_plain
     k_magic_avoid_vdb k_stddir_avoid_vdb k_magic_avoid_dev k_stddir_avoid_dev) as ALL.
  clear - ALL.
  destruct ALL as (A1 & A2 & A3 & A4 & A4b & A5 & A6 & A7 & A8 & A9 & A10 & A11 & A12 & A13 & A14 & A15).
  unfold spec_ok. cbv zeta. unfold user_ops.
  rewrite A1, A2, A3, A4, A4b, A5, A6, A7. cbn [andb].
  unfold s_std_dirs. rewrite A8. cbn [andb].
  assert (B9 : s_static_in (c_in c) (user_script (c_in c)) (map tar_member (finalize (add_missing_dirs m9))) = true).
  { unfold s_static_in. destruct (i_emptydev (c_in c)); [reflexivity|]. now apply A9. }
  rewrite B9, A10. cbn [andb].
  assert (B11 : s_unselected (c_in c) (user_script (c_in c)) (map tar_member (finalize (add_missing_dirs m9))) = true).
  { unfold s_unselected. cbv zeta. apply forallb_forall. intros x Hx.
    destruct (m_kind x) eqn:Kx; try reflexivity.
    - destruct (memb (key x) _) eqn:M1; [|reflexivity]. destruct (memb (key x) (flat_map contents_names (selected _))) eqn:M2; [reflexivity|].
      cbn [negb]. unfold std_named. apply (A11 x Hx); auto.
    - destruct (memb (key x) _) eqn:M1; [|reflexivity]. destruct (memb (key x) (flat_map contents_names (selected _))) eqn:M2; [reflexivity|].
      cbn [negb]. unfold std_named. apply (A11 x Hx); auto.
    - destruct (memb (key x) _) eqn:M1; [|reflexivity]. destruct (memb (key x) (flat_map contents_names (selected _))) eqn:M2; [reflexivity|].
      cbn [negb]. unfold std_named. apply (A11 x Hx); auto. }
  rewrite B11, A12, A13. cbn [andb].
  assert (B14 : s_static_out (c_in c) (user_script (c_in c)) (member_parents (map tar_member (finalize (add_missing_dirs m9))))
                  (map tar_member (finalize (add_missing_dirs m9))) = true).
  { unfold s_static_out. destruct (i_emptydev (c_in c)); [now apply A14|reflexivity]. }
  rewrite B14. cbn [andb]. exact A15.
Qed.

(* the hypotheses of the theorems are satisfied by a concrete non-trivial input *)
From LC Require Import Proofs.C06Example.
Lemma ex_case_facts : wf ex_case = true /\ kf ex_case = 0%N /\ good_input (c_in ex_case)
  /\ exists ms, stage_list (c_in ex_case) = Ok ms /\ (60 <= length ms)%nat.
Proof.
  assert (W : wf ex_case = true) by (vm_compute; reflexivity).
  split; [exact W|]. split; [reflexivity|]. split; [exact (wf_good_input _ (wf_wf_facts _ W))|].
  destruct (stage_list (c_in ex_case)) as [ms| |] eqn:E.
  - exists ms. split; [reflexivity|].
    assert (L : (60 <=? length (match stage_list (c_in ex_case) with Ok ms => ms | _ => [] end))%nat = true) by (vm_compute; reflexivity).
    rewrite E in L. now apply Nat.leb_le.
  - exfalso. assert (X : match stage_list (c_in ex_case) with Failed => false | _ => true end = true) by (vm_compute; reflexivity).
    rewrite E in X. discriminate X.
  - exfalso. exact (stage_list_nopanic _ E).
Qed.

(* the premises of the omit theorems are met by ordinary lines *)
Lemma ex_omit_facts :
  script_ops [bs "dir /opt/x mod=0755"; bs "# c"; bs "omit ""/usr/bin/ba*"""; bs "tbd /usr/bin/bar absent=skip"]
  = ([OAdd (MkLI TDir (bs "/opt/x") false false false false None)] ++ OOmit (bs "/usr/bin/ba*") true
    :: [OAdd (MkLI TTbd (bs "/usr/bin/bar") false false false true None)])%list
  /\ omit_hit (bs "/usr/bin/ba*") true (bs "/usr/bin/bar") = true
  /\ omit_hit (bs "/usr/bin/ba*") true (bs "/usr/bin/sub/bar") = false.
Proof. vm_compute. auto. Qed.
