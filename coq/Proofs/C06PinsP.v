(* C06 -- constants of Gen/Consts.v (rewritten from the source of /repo by tools/genconsts on
   every run) compared with literals, one lemma per constant so that the failing line names it.
   Used by: the predicate C06.spec (standard stage directories, static /dev names, built-in lines as member sources), C06.wf (symlink chain bound) and Model/StageList.v.
   A changed constant makes this file fail to build; the check then reports
   "proof obligation no longer checks" for Properties/C06.v (C06_constants_pinned) instead of
   letting model, predicate and code move together unnoticed.  The literals are repeated, with
   their sources, in the statement of C06_constants_pinned. *)
From LC Require Import Lib.Bytes Gen.Consts.
Local Open Scope string_scope.

Lemma pin_D_StandardStageDirs :
  D_StandardStageDirs = bs "dir /boot
dir /dev
dir /home
dir /media
dir /mnt
dir /opt
dir /proc
dir /root
dir /run
dir /sys
dir /tmp
dir /usr/src
tbd /usr/tmp absent=skip
dir /var/db/repos
dir /var/empty
dir /var/lock
symlink /var/run
dir /var/spool
dir /var/tmp
".
Proof. (vm_compute; reflexivity) || fail "D_StandardStageDirs of the source tree differs from the reviewed literal (C06_constants_pinned)". Qed.

Lemma pin_D_StageMagic :
  D_StageMagic = bs "file /etc/csh.env
dir /etc/env.d/*
file /etc/fstab
file /etc/group
file /etc/gshadow
file /etc/ld.so.cache
file /etc/ld.so.conf
dir /etc/ld.so.conf.d/*
tbd /etc/localtime
symlink /etc/mtab targ=/proc/self/mounts
file /etc/passwd
dir /etc/portage/*
file /etc/profile.env
file /etc/shadow
file /etc/udev/hwdb.bin
dir /etc/xml/*
file /usr/bin/c89
file /usr/bin/c99
file /usr/lib64/gconv/gconv-modules.cache
dir /usr/local/*
file /usr/sbin/fix_libtool_files.sh absent=skip
dir /usr/share/binutils-data/*
dir /usr/share/gcc-data/*
file /usr/share/info/dir
file /var/cache/*
dir /var/lib/gentoo/*
dir /var/lib/portage/*
".
Proof. (vm_compute; reflexivity) || fail "D_StageMagic of the source tree differs from the reviewed literal (C06_constants_pinned)". Qed.

Lemma pin_D_DoNotTraverse :
  D_DoNotTraverse = bs "/boot /dev /home /media /mnt /proc /run /usr/portage /sys /var/db cache tmp".
Proof. (vm_compute; reflexivity) || fail "D_DoNotTraverse of the source tree differs from the reviewed literal (C06_constants_pinned)". Qed.

Lemma pin_D_DevDirSetup :
  D_DevDirSetup = bs "node /dev/console dev=c5:1 mod=0600
node /dev/core dev=c1:6 mod=0600
symlink /dev/fd targ=../proc/self/fd
node /dev/full dev=c1:7 mod=0666
node /dev/hda dev=b3:0 gid=6 mod=0640
dir /dev/input mod=0755
node /dev/input/event0 dev=c13:64 mod=0600
node /dev/input/js0 dev=c13:0 mod=0600
node /dev/input/keyboard dev=c10:150 mod=0600
node /dev/input/mice dev=c13:63 mod=0600
node /dev/input/mouse dev=c10:149 mod=0600
node /dev/input/mouse0 dev=c13:32 mod=0600
node /dev/input/uinput dev=c10:223 mod=0600
node /dev/mem dev=c1:1 gid=9 mod=0640
node /dev/null dev=c1:3 mod=0666
node /dev/port dev=c1:4 gid=9 mod=0640
node /dev/ptmx dev=c5:2 gid=0 mod=0666
node /dev/random dev=c1:8 mod=0644
node /dev/sda dev=b8:0 gid=6 mod=0640
node /dev/sdb dev=b8:16 gid=6 mod=0640
node /dev/sdc dev=b8:32 gid=6 mod=0640
node /dev/sdd dev=b8:48 gid=6 mod=0640
symlink /dev/stderr targ=../proc/self/fd/2
symlink /dev/stdin targ=../proc/self/fd/0
symlink /dev/stdout targ=../proc/self/fd/1
node /dev/tty dev=c5:0 gid=0 mod=0666
node /dev/tty0 dev=c4:0 gid=5 mod=0620
node /dev/urandom dev=c1:9 mod=0644
node /dev/zero dev=c1:5 mod=0666
".
Proof. (vm_compute; reflexivity) || fail "D_DevDirSetup of the source tree differs from the reviewed literal (C06_constants_pinned)". Qed.

Lemma pin_D_DevDirExtend :
  D_DevDirExtend = bs "/dev/hda 32
/dev/input/event0 31
/dev/input/js0 31
/dev/input/mouse0 30
/dev/sda 15
/dev/sdb 15
/dev/sdc 15
/dev/sdd 15
/dev/tty0 63
".
Proof. (vm_compute; reflexivity) || fail "D_DevDirExtend of the source tree differs from the reviewed literal (C06_constants_pinned)". Qed.

Lemma pin_D_MaxSymlinkChain :
  D_MaxSymlinkChain = 5%N.
Proof. (vm_compute; reflexivity) || fail "D_MaxSymlinkChain of the source tree differs from the reviewed literal (C06_constants_pinned)". Qed.

Definition c06_constants_pinned := conj pin_D_StandardStageDirs (conj pin_D_StageMagic (conj pin_D_DoNotTraverse (conj pin_D_DevDirSetup (conj pin_D_DevDirExtend pin_D_MaxSymlinkChain)))).
