(* Top-level statements about the model (no case record needed), proved from the section lemmas. *)
From LC Require Import Lib.Bytes Lib.Lex Lib.Fields Lib.PathM Gen.Consts Model.StageList
  Proofs.StageListP Proofs.StagePathP Proofs.StageFinalP Proofs.StagePipeP Proofs.StageGlobP
  Proofs.StageContentP.
Open Scope N_scope.
Open Scope list_scope.

Lemma stages_rewrite i mf : stages i mf ->
  exists sel all m1 m2 m3 m4 m5 m7 m9,
    all_contents (selected (i_pkgs i)) = Ok sel /\ add_pkgfiles (i_tree i) sel [] = Ok m1 /\
    all_contents (i_pkgs i) = Ok all /\ recover_links (i_tree i) m1 = Ok m2 /\
    (if i_novdb i then Ok m2 else add_vdb (i_tree i) (map p_dir (selected (i_pkgs i))) m2) = Ok m3 /\
    (if i_emptydev i then Ok m3 else bind (run_ops (i_tree i) devsetup_ops m3) (extend_dev (i_tree i) ext_lines)) = Ok m4 /\
    run_ops (i_tree i) magic_ops m4 = Ok m5 /\
    run_ops (i_tree i) stddir_ops (exclude (unstaged all m1) m5) = Ok m7 /\
    run_ops (i_tree i) (user_script i) (add_missing_dirs m7) = Ok m9 /\ mf = add_missing_dirs m9.
Proof.
  intros [sel all m1 m2 m3 m4 m5 m7 m9 E_sel E1 E_all E2 E3 E4 E5 E7 E9 Ef].
  rewrite static_dev_eq in E4. exists sel, all, m1, m2, m3, m4, m5, m7, m9. repeat split; assumption.
Qed.

(* omit lines, with or without a wildcard, remove the matching members: a member that matches
   an omit line was named again by a later line, or is the parent directory of a member (or is
   the root of the archive) *)
Theorem omit_removes i mf : good_input i -> stage_map i = Ok mf ->
  forall pre nm w post k, user_script i = pre ++ OOmit nm w :: post ->
  omit_hit nm w k = true -> mem k mf = true ->
  ops_name (i_tree i) post k \/ (exists k0, mem k0 mf = true /\ In k (nrparents k0)) \/ k = root_path.
Proof.
  intros GI Hm pre nm w post k Eu Hh Hk. apply stage_map_stages in Hm.
  destruct Hm as [sel all m1 m2 m3 m4 m5 m7 m9 E_sel E1 E_all E2 E3 E4 E5 E7 E9 Ef]. subst mf.
  destruct (stages_good9 i GI _ _ _ _ _ _ _ _ _ E_sel E1 E2 E3 E4 E5 E7 E9) as [_ G9].
  exact (omit_final i m7 m9 E9 G9 pre nm w post k Eu Hh Hk).
Qed.
(* ... and right after an omit line nothing that matches it is a member *)
Theorem omit_removes_now t pre nm w m m' : run_ops t (pre ++ [OOmit nm w]) m = Ok m' ->
  forall k, omit_hit nm w k = true -> mem k m' = false.
Proof.
  intros H k Hh. destruct (mem k m') eqn:E; [|reflexivity].
  destruct (run_ops_omit t _ _ _ H pre nm w [] eq_refl k Hh E) as (li & [] & _).
Qed.

(* membership, "if" parts *)
Theorem member_if_recorded i mf sel : stage_map i = Ok mf ->
  all_contents (selected (i_pkgs i)) = Ok sel ->
  forall n, In n sel -> lstat (i_tree i) n <> None -> omits_none (user_script i) n -> mem n mf = true.
Proof.
  intros Hm Es n Hn Hl Ho. apply stage_map_stages, stages_rewrite in Hm.
  destruct Hm as (sel' & all & m1 & m2 & m3 & m4 & m5 & m7 & m9 & E_sel & E1 & E_all & E2 & E3 & E4 & E5 & E7 & E9 & ->).
  rewrite Es in E_sel. injection E_sel as <-.
  exact (pkgfile_member i magic_ops stddir_ops devsetup_ops ext_lines magic_adds stddir_adds devsetup_adds
           sel all m1 m2 m3 m4 m5 m7 m9 E1 E2 E3 E4 E5 E7 E9 n Hn Hl Ho).
Qed.
Theorem member_if_user i mf : stage_map i = Ok mf ->
  forall pre li post n, user_script i = pre ++ OAdd li :: post ->
  In n (op_targets (i_tree i) li) -> (li_skip li = true -> lstat (i_tree i) n <> None) ->
  omits_none post n -> mem n mf = true.
Proof.
  intros Hm pre li post n Eu Hn Hs Ho. apply stage_map_stages in Hm.
  destruct Hm as [sel all m1 m2 m3 m4 m5 m7 m9 E_sel E1 E_all E2 E3 E4 E5 E7 E9 Ef]. subst mf.
  exact (user_member i m7 m9 E9 pre li post n Eu Hn Hs Ho).
Qed.

(* a src= line that no later line supersedes: its name is a regular-file member of its own --
   neither a hard link nor what a hard link refers to -- however many links the source inode has
   and whichever of them are staged *)
Theorem src_entry_regular i ms : stage_list i = Ok ms ->
  forall pre li s post, user_script i = pre ++ OAdd li :: post -> li_src li = Some s ->
  omits_none post (li_name li) -> ~ ops_name (i_tree i) post (li_name li) ->
  (exists x, In x ms /\ m_name x = li_name li) /\
  forall x, In x ms -> (m_name x = li_name li -> m_kind x = KReg) /\ (m_kind x = KLink -> m_link x <> li_name li).
Proof.
  intros H pre li s post Eu Hs Ho Hn. apply stage_list_inv in H as (mf & Hm & ->). apply stage_map_stages in Hm.
  destruct Hm as [sel all m1 m2 m3 m4 m5 m7 m9 E_sel E1 E_all E2 E3 E4 E5 E7 E9 Ef]. subst mf.
  pose proof (src_final i m7 m9 E9 pre li s post Eu Hs Ho Hn) as Hf. split.
  - apply finalize_has. unfold mem. now rewrite Hf.
  - intros x Hx. destruct (finalize_nogroup _ _ Hf x Hx) as [K1 K2]. split; [exact K1|]. intros Hk. now destruct (K2 Hk).
Qed.
(* the line syntax: what parse_line makes of src= *)
Lemma src_parse_facts :
  map parse_line [bs "file /etc/motd src=$$stageroot/usr/share/skel/motd mod=0600"; bs "file /etc/vimrc src=/etc/vim/vimrc";
                  bs "file /etc/x src=/a src=/b"; bs "file /etc/* src=/a"; bs "symlink /etc/l src=/a"]
  = [OAdd (MkLI TFile (bs "/etc/motd") false false false false (Some (SRoot (bs "/usr/share/skel/motd"))));
     OAdd (MkLI TFile (bs "/etc/vimrc") false false false false (Some (SAbs (bs "/etc/vim/vimrc") None)));
     OErr; OErr; OErr]
  /\ resolve_op [(bs "/etc/vim/vimrc", NFile (Some 3))]
       (OAdd (MkLI TFile (bs "/etc/vimrc") false false false false (Some (SAbs (bs "/etc/vim/vimrc") None))))
     = OAdd (MkLI TFile (bs "/etc/vimrc") false false false false (Some (SAbs (bs "/etc/vim/vimrc") (Some (NFile (Some 3)))))).
Proof. vm_compute. auto. Qed.

(* membership, "only if": every member was recorded for a selected package, or is a symlink of
   the tree that RecoverMissingLinks looks at, or a VDB entry of a selected package, or a static
   /dev name, or named by a built-in or user line -- or it is a parent of such a name, or the root *)
Definition sourced_by (i : input) (sel : list bytes) (k : bytes) : Prop :=
  sourced i magic_ops stddir_ops devsetup_ops ext_lines sel k.
Theorem member_only_if i mf sel : good_input i -> stage_map i = Ok mf ->
  all_contents (selected (i_pkgs i)) = Ok sel ->
  forall k, mem k mf = true ->
  sourced_by i sel k \/ k = root_path \/ exists k0, sourced_by i sel k0 /\ In k (nrparents k0).
Proof.
  intros GI Hm Es k Hk. pose proof (stage_map_stages _ _ Hm) as ST.
  destruct ST as [sel' all m1 m2 m3 m4 m5 m7 m9 E_sel E1 E_all E2 E3 E4 E5 E7 E9 Ef]. subst mf.
  destruct (stages_good9 i GI _ _ _ _ _ _ _ _ _ E_sel E1 E2 E3 E4 E5 E7 E9) as [G7 G9].
  rewrite static_dev_eq in E4. rewrite Es in E_sel. injection E_sel as <-.
  exact (mf_sourced i magic_ops stddir_ops devsetup_ops ext_lines magic_adds stddir_adds devsetup_adds
           sel all m1 m2 m3 m4 m5 m7 m9 E1 E2 E3 E4 E5 E7 E9 G9 G7 k Hk).
Qed.
