(* Proofs of the C07 theorems: what the model computes satisfies the specification predicate. *)
From LC Require Import Lib.Bytes Lib.Lex Lib.Fields Gen.Consts Model.TarMeta Model.OutFile Proofs.TarMetaP Proofs.OutFileP Cases.C07.
From Coq Require Import ZArith Lia Bool.
Import C07.
Open Scope N_scope.

(* ---------- mod=: the and/or masks computed from the rendered clauses act as chmod does ---------- *)
Definition gm (w : N) : N := match w with 1 => 2496 | 2 => 1080 | 3 => 7 | _ => 4095 end.
Definition reset (A Om : N) : mst := MkMst 0%Z 0 0 A Om false.

Lemma small_cases (w : N) : w <= 4 -> w = 0 \/ w = 1 \/ w = 2 \/ w = 3 \/ w = 4.
Proof. lia. Qed.

Lemma clause_mask_model w a p : clause_ok (w, a, p) = true -> N.land (perm_mask p) (gm w) = clause_mask (w, a, p).
Proof.
  unfold clause_ok. intros H. apply andb_true_iff in H as [H H3]. apply andb_true_iff in H as [H1 H2].
  apply N.leb_le in H1, H2.
  destruct (small_cases w H1) as [->|[->|[->|[->| ->]]]];
  destruct (small_cases p H2) as [->|[->|[->|[->| ->]]]]; try reflexivity; discriminate.
Qed.

Lemma clause_fold w a p A Om : w <= 4 -> p <= 4 ->
  fold_left mod_step (render_clause (w, a, p)) (reset A Om) =
  let sm := N.land (perm_mask p) (gm w) in
  if a then MkMst 1%Z (gm w) sm A (N.lor Om sm) false
  else MkMst (-1)%Z (gm w) sm (N.land A (N.lxor PermBits sm)) (N.ldiff Om sm) false.
Proof.
  intros H1 H2.
  destruct (small_cases w H1) as [->|[->|[->|[->| ->]]]];
  destruct (small_cases p H2) as [->|[->|[->|[->| ->]]]]; destruct a; reflexivity.
Qed.

Definition clause_step (st : N * N) (cl : N * bool * N) : N * N :=
  let '(A, Om) := st in
  let sm := clause_mask cl in
  if snd (fst cl) then (A, N.lor Om sm) else (N.land A (N.lxor PermBits sm), N.ldiff Om sm).

Lemma comma_step s : ms_err s = false -> mod_step s c_comma = reset (ms_and s) (ms_or s).
Proof. intros H. unfold mod_step. rewrite H. reflexivity. Qed.

Lemma clauses_fold cs : forallb clause_ok cs = true -> cs <> [] -> forall A Om,
  let r := fold_left mod_step (join (nb 44) (map render_clause cs)) (reset A Om) in
  ms_err r = false /\ (ms_and r, ms_or r) = fold_left clause_step cs (A, Om).
Proof.
  induction cs as [|[[w a] p] cs IH]; intros Hok Hne A Om; [congruence|].
  cbn [forallb] in Hok. apply andb_true_iff in Hok as [Hc Hok].
  pose proof Hc as Hc'. unfold clause_ok in Hc'.
  apply andb_true_iff in Hc' as [Hc' _]. apply andb_true_iff in Hc' as [H1 H2]. apply N.leb_le in H1, H2.
  pose proof (clause_mask_model w a p Hc) as Hm.
  destruct cs as [|cl2 cs'].
  - cbn [map join]. cbv zeta. rewrite clause_fold by assumption. cbv zeta. rewrite Hm.
    cbn [fold_left clause_step fst snd]. destruct a; cbn; auto.
  - change (join (nb 44) (map render_clause ((w, a, p) :: cl2 :: cs')))
      with ((render_clause (w, a, p) ++ nb 44 :: join (nb 44) (map render_clause (cl2 :: cs')))%list).
    cbv zeta. rewrite fold_left_app. rewrite clause_fold by assumption. cbv zeta. rewrite Hm.
    cbn [fold_left]. change (nb 44) with c_comma at 1.
    rewrite comma_step by (destruct a; reflexivity).
    specialize (IH Hok ltac:(discriminate)).
    destruct a; cbn [ms_and ms_or]; cbn [clause_step fst snd];
      match goal with |- context [reset ?X ?Y] => specialize (IH X Y) end; cbv zeta in IH; exact IH.
Qed.

Definition sub12 (x : N) : Prop := N.land x 4095 = x.
Lemma sub12_bits x : sub12 x -> forall i, N.testbit x i = true -> N.testbit 4095 i = true.
Proof. intros H i Hi. rewrite <- H, N.land_spec in Hi. now apply andb_true_iff in Hi. Qed.
Lemma sub12_land_l x y : sub12 x -> sub12 (N.land x y).
Proof.
  unfold sub12. intros H. rewrite <- N.land_assoc, (N.land_comm y), N.land_assoc, H. reflexivity.
Qed.
Lemma sub12_land_r x y : sub12 y -> sub12 (N.land x y).
Proof. rewrite N.land_comm. apply sub12_land_l. Qed.
Lemma sub12_lor x y : sub12 x -> sub12 y -> sub12 (N.lor x y).
Proof. unfold sub12. intros Hx Hy. now rewrite N.land_lor_distr_l, Hx, Hy. Qed.
Lemma sub12_ldiff x y : sub12 x -> sub12 (N.ldiff x y).
Proof.
  unfold sub12. intros H. apply N.bits_inj. intros i.
  rewrite N.land_spec, !N.ldiff_spec.
  destruct (N.testbit x i) eqn:E; [|reflexivity]. rewrite (sub12_bits x H i E). now rewrite andb_true_r.
Qed.

Lemma remove_sem p A Om m : sub12 A ->
  N.lor (N.land p (N.land A (N.lxor PermBits m))) (N.ldiff Om m) = N.ldiff (N.lor (N.land p A) Om) m.
Proof.
  intros HA. apply N.bits_inj. intros i.
  rewrite !N.lor_spec, !N.land_spec, !N.ldiff_spec, N.lor_spec, N.land_spec, N.lxor_spec.
  destruct (N.testbit A i) eqn:EA.
  - change PermBits with 4095. rewrite (sub12_bits A HA i EA).
    destruct (N.testbit p i), (N.testbit m i), (N.testbit Om i); reflexivity.
  - destruct (N.testbit p i), (N.testbit m i), (N.testbit Om i), (N.testbit PermBits i); reflexivity.
Qed.

Lemma clause_mask_sub12 cl : clause_ok cl = true -> sub12 (clause_mask cl).
Proof.
  destruct cl as [[w a] p]. unfold clause_ok. intros H.
  apply andb_true_iff in H as [H _]. apply andb_true_iff in H as [_ H2]. apply N.leb_le in H2.
  unfold clause_mask. apply sub12_land_l.
  destruct (small_cases p H2) as [->|[->|[->|[->| ->]]]]; reflexivity.
Qed.

Lemma clauses_sem cs : forallb clause_ok cs = true -> forall A Om, sub12 A -> sub12 Om ->
  sub12 (fst (fold_left clause_step cs (A, Om))) /\ sub12 (snd (fold_left clause_step cs (A, Om))) /\
  forall p, N.lor (N.land p (fst (fold_left clause_step cs (A, Om)))) (snd (fold_left clause_step cs (A, Om)))
            = chmod_ref cs (N.lor (N.land p A) Om).
Proof.
  induction cs as [|cl cs IH]; intros Hok A Om HA HO.
  - cbn. auto.
  - cbn [forallb] in Hok. apply andb_true_iff in Hok as [Hc Hok].
    pose proof (clause_mask_sub12 cl Hc) as Hm.
    cbn [fold_left]. unfold chmod_ref. cbn [fold_left]. fold (chmod_ref cs).
    assert (Es : clause_step (A, Om) cl = if snd (fst cl) then (A, N.lor Om (clause_mask cl))
                 else (N.land A (N.lxor PermBits (clause_mask cl)), N.ldiff Om (clause_mask cl))) by reflexivity.
    rewrite Es. clear Es. destruct (snd (fst cl)).
    + destruct (IH Hok A (N.lor Om (clause_mask cl)) HA (sub12_lor _ _ HO Hm)) as (I1 & I2 & I3).
      split; [exact I1|]. split; [exact I2|]. intros p. rewrite I3. now rewrite N.lor_assoc.
    + destruct (IH Hok (N.land A (N.lxor PermBits (clause_mask cl))) (N.ldiff Om (clause_mask cl))
                  (sub12_land_l _ _ HA) (sub12_ldiff _ _ HO)) as (I1 & I2 & I3).
      split; [exact I1|]. split; [exact I2|]. intros p. rewrite I3. now rewrite remove_sem.
Qed.

Lemma first_not_octal cs : cs <> [] -> forallb clause_ok cs = true ->
  forallb is_octal_digit (join (nb 44) (map render_clause cs)) = false.
Proof.
  destruct cs as [|[[w a] p] cs]; [congruence|]. intros _ Hok.
  cbn [forallb] in Hok. apply andb_true_iff in Hok as [Hc _].
  unfold clause_ok in Hc. apply andb_true_iff in Hc as [Hc _]. apply andb_true_iff in Hc as [H1 _].
  apply N.leb_le in H1.
  assert (E : exists c r, (join (nb 44) (map render_clause ((w, a, p) :: cs))) = c :: r /\ is_octal_digit c = false).
  { destruct cs as [|cl2 cs'].
    - cbn [map join]. destruct (small_cases w H1) as [->|[->|[->|[->| ->]]]]; destruct a; cbn; eauto.
    - change (join (nb 44) (map render_clause ((w, a, p) :: cl2 :: cs')))
        with ((render_clause (w, a, p) ++ nb 44 :: join (nb 44) (map render_clause (cl2 :: cs')))%list).
      destruct (small_cases w H1) as [->|[->|[->|[->| ->]]]]; destruct a; cbn; eauto. }
  destruct E as (c & r & -> & Hc'). cbn [forallb]. now rewrite Hc'.
Qed.

Theorem parse_mod_chmod cs : cs <> [] -> forallb clause_ok cs = true ->
  exists A Om, parse_mod (join (nb 44) (map render_clause cs)) = Some (A, Om)
    /\ sub12 A /\ sub12 Om /\ forall p, N.lor (N.land p A) Om = chmod_ref cs (N.land p 4095).
Proof.
  intros Hne Hok. unfold parse_mod. rewrite first_not_octal by assumption.
  destruct (clauses_fold cs Hok Hne PermBits 0) as [He Hr]. cbv zeta in He, Hr.
  change (MkMst 0%Z 0 0 PermBits 0 false) with (reset PermBits 0). rewrite He.
  destruct (clauses_sem cs Hok PermBits 0 eq_refl eq_refl) as (I1 & I2 & I3).
  rewrite <- Hr in I1, I2, I3. cbn [fst snd] in I1, I2, I3.
  eexists _, _. split; [reflexivity|]. split; [exact I1|]. split; [exact I2|].
  intros p. rewrite I3. now rewrite N.lor_0_r.
Qed.

(* ---------- octal mod= ---------- *)
Lemma octal_value_ref d : octal_value d = octal_ref d.
Proof.
  unfold octal_value, octal_ref. generalize 0. induction d as [|c d IH]; intros a; cbn [fold_left]; [reflexivity|].
  rewrite (N.mul_comm a 8). apply IH.
Qed.

Lemma le_sub12 x : x <= 4095 -> sub12 x.
Proof.
  intros H. unfold sub12. change 4095 with (N.ones 12). rewrite N.land_ones. apply N.mod_small.
  change (2 ^ 12) with 4096. lia.
Qed.

(* ---------- lstat type bits: classify (model) against obj_type (specification) ---------- *)
Lemma ifmt_arith mode : N.land mode S_IFMT = ((mode / 4096) mod 16) * 4096.
Proof. change S_IFMT with (N.shiftl (N.ones 4) 12). now rewrite land_mask. Qed.

Definition cls (k : N) : option (ltype * bool) :=
  let t := k * 4096 in
  if t =? S_IFSOCK then Some (LNone, true)
  else if t =? S_IFLNK then Some (LSym, false)
  else if t =? S_IFREG then Some (LFile, false)
  else if (t =? S_IFBLK) || (t =? S_IFCHR) then Some (LDev, false)
  else if t =? S_IFDIR then Some (LDir, false)
  else if t =? S_IFIFO then Some (LNone, true)
  else None.
Definition oty (k : N) : N :=
  match k with
  | 8 => TypeReg | 4 => TypeDir | 10 => TypeSymlink | 2 => TypeChar | 6 => TypeBlock | _ => 0
  end.
Lemma classify_k mode : classify mode = cls ((mode / 4096) mod 16).
Proof. unfold classify, cls. now rewrite ifmt_arith. Qed.
Lemma obj_type_k mode : obj_type mode = oty ((mode / 4096) mod 16).
Proof. reflexivity. Qed.

(* the table, one row per value of the four type bits *)
Definition tyrow (k : N) : bool :=
  match cls k with
  | Some (LFile, false) => oty k =? TypeReg
  | Some (LDir, false) => oty k =? TypeDir
  | Some (LSym, false) => oty k =? TypeSymlink
  | Some (LDev, false) => ((oty k =? TypeChar) && (k * 4096 =? S_IFCHR)) || ((oty k =? TypeBlock) && (k * 4096 =? S_IFBLK))
  | Some (LNone, true) => oty k =? 0
  | Some _ => false
  | None => oty k =? 0
  end.
Lemma tyrow_all k : k < 16 -> tyrow k = true.
Proof.
  intros H.
  assert (E : k = 0 \/ k = 1 \/ k = 2 \/ k = 3 \/ k = 4 \/ k = 5 \/ k = 6 \/ k = 7 \/ k = 8 \/ k = 9 \/ k = 10
              \/ k = 11 \/ k = 12 \/ k = 13 \/ k = 14 \/ k = 15) by lia.
  repeat (destruct E as [->|E]; [reflexivity|]). subst. reflexivity.
Qed.
Lemma tyrow_mode mode : tyrow ((mode / 4096) mod 16) = true.
Proof. apply tyrow_all. apply N.mod_lt. discriminate. Qed.

(* ---------- boolean well-formedness to propositions ---------- *)
Lemma nodupb_NoDup l : nodupb l = true -> NoDup l.
Proof.
  induction l as [|a r IH]; intros H; [constructor|].
  cbn [nodupb] in H. apply andb_true_iff in H as [H1 H2]. constructor; [|now apply IH].
  intros Hin. apply negb_true_iff in H1.
  assert (existsb (beq a) r = true) by (apply existsb_exists; exists a; split; [assumption|apply beq_refl]).
  congruence.
Qed.

Lemma xattrs_wf_of_bool xs :
  nodupb (map fst xs) = true ->
  forallb (fun x : xattr => negb (is_nil (fst x)) && no_nul (fst x)) xs = true -> xattrs_wf xs.
Proof.
  intros H1 H2. split; [|now apply nodupb_NoDup].
  apply Forall_forall. intros x Hx. rewrite forallb_forall in H2. specialize (H2 x Hx).
  apply andb_true_iff in H2 as [Ha Hb]. split.
  - destruct (fst x); [discriminate|discriminate].
  - now apply nosepb_spec.
Qed.

(* ---------- the mod= option: what perms_of computes is what the specification expects ---------- *)
Lemma opt_beq_bytes_true a b : opt_bytes_beq a b = true -> a = b.
Proof.
  destruct a, b; cbn; intros H; try discriminate; [|reflexivity]. apply beq_true in H. now subst.
Qed.

Lemma mod_facts (ms : modspec) (p : opts) :
  modspec_ok ms = true -> opt_bytes_beq (render_mod ms) (p_mod p) = true ->
  (has (p_mod p) = true -> has (opt_masks p) = true) /\
  forall ex mode t,
    N.land (perms_of p ex mode t) 4095
    = apply_mod ms (N.land (if ex then mode else default_perms t) 4095).
Proof.
  intros Hok Hr. apply opt_beq_bytes_true in Hr. unfold opt_masks, perms_of, opt_masks. rewrite <- Hr.
  destruct ms as [|d|cs]; cbn [render_mod apply_mod].
  - split; [discriminate|]. reflexivity.
  - cbn [modspec_ok] in Hok. apply andb_true_iff in Hok as [Hok H4]. apply andb_true_iff in Hok as [Hok H3].
    apply andb_true_iff in Hok as [H1 H2]. apply N.leb_le in H3.
    assert (E : parse_mod d = Some (0, octal_ref d)).
    { unfold parse_mod. rewrite H2. destruct d; [discriminate|]. cbn [is_nil].
      rewrite octal_value_ref. assert (L : octal_ref (a :: d) <? 2147483648 = true) by (apply N.ltb_lt; lia).
      now rewrite L. }
    rewrite E. split; [reflexivity|]. intros ex mode t. cbn. apply le_sub12. assumption.
  - cbn [modspec_ok] in Hok. apply andb_true_iff in Hok as [H1 H2].
    destruct (parse_mod_chmod cs) as (A & Om & E & HA & HO & Hs); [now destruct cs|assumption|].
    rewrite E. split; [reflexivity|]. intros ex mode t.
    set (q := if ex then mode else default_perms t).
    assert (Eq : (if 0 <? A then N.lor (N.land q A) Om else Om) = N.lor (N.land q A) Om).
    { destruct (0 <? A) eqn:E0; [reflexivity|]. apply N.ltb_ge in E0. assert (A = 0) by lia. subst A.
      now rewrite N.land_0_r, N.lor_0_l. }
    rewrite Eq. rewrite <- Hs. apply sub12_lor; [now apply sub12_land_r|assumption].
Qed.

(* ---------- a member whose source object exists ---------- *)
Lemma xattr_list_refl xs : list_beq xattr_beq xs xs = true.
Proof.
  induction xs as [|x r IH]; [reflexivity|]. cbn [list_beq]. unfold xattr_beq at 1. now rewrite !beq_refl, IH.
Qed.

Lemma xattr_beq_true a b : xattr_beq a b = true <-> a = b.
Proof.
  unfold xattr_beq. destruct a as [a1 a2], b as [b1 b2]. cbn. rewrite andb_true_iff, !beq_true.
  split; [intros [-> ->]; reflexivity|intros H; injection H as -> ->; auto].
Qed.

Lemma common_ok m o h t :
  modspec_ok (mc_mod m) = true ->
  opt_bytes_beq (render_mod (mc_mod m)) (p_mod (m_opts (mc_member m))) = true ->
  h_mode h = perms_of (m_opts (mc_member m)) true (st_mode (o_st o)) t ->
  h_uid h = uid_of (m_opts (mc_member m)) true (o_st o) ->
  h_gid h = gid_of (m_opts (mc_member m)) true (o_st o) ->
  h_mtime h = st_mtime (o_st o) -> h_xattrs h = o_xattrs o ->
  common_fields_ok m o h = true.
Proof.
  intros Hok Hr Hm Hu Hg Ht Hx. unfold common_fields_ok. rewrite Hm, Hu, Hg, Ht, Hx.
  destruct (mod_facts _ _ Hok Hr) as [_ Hp]. rewrite (Hp true (st_mode (o_st o)) t). cbn [andb].
  rewrite N.eqb_refl, Z.eqb_refl, xattr_list_refl.
  unfold uid_of, gid_of, optN.
  destruct (p_uid (m_opts (mc_member m))), (p_gid (m_opts (mc_member m))); now rewrite !N.eqb_refl.
Qed.

(* what the classification of the lstat mode says about the specification's obj_type *)
Lemma classify_obj mode actual pending :
  classify mode = Some (actual, pending) ->
  match actual, pending with
  | LFile, false => obj_type mode = TypeReg
  | LDir, false => obj_type mode = TypeDir
  | LSym, false => obj_type mode = TypeSymlink
  | LDev, false => (obj_type mode = TypeChar /\ N.land mode S_IFMT = S_IFCHR)
                   \/ (obj_type mode = TypeBlock /\ N.land mode S_IFMT = S_IFBLK)
  | LNone, true => obj_type mode = 0
  | _, _ => False
  end.
Proof.
  rewrite classify_k, obj_type_k, ifmt_arith. pose proof (tyrow_mode mode) as T. unfold tyrow in T.
  intros E. rewrite E in T.
  destruct actual, pending; try discriminate; try (now apply N.eqb_eq in T).
  apply orb_true_iff in T as [T|T]; apply andb_true_iff in T as [T1 T2]; apply N.eqb_eq in T1, T2; auto.
Qed.

Lemma mk_header_fields e h : mk_header e = TOk h ->
  h_name h = dot :: e_name e /\ h_mode h = e_perms e /\ h_uid h = e_uid e /\ h_gid h = e_gid e
  /\ h_mtime h = e_mtime e /\ h_xattrs h = (match e_xattrs e with Some l => l | None => [] end)
  /\ h_size h = e_fsize e.
Proof.
  unfold mk_header. destruct (e_ltype e); try (intros H; injection H as <-; cbn; tauto).
  destruct (0 <? e_fsize e); [destruct (e_dlen e =? e_fsize e)|]; intros H; try discriminate;
    injection H as <-; cbn; tauto.
Qed.

Lemma common_ok_ext m o h h' :
  h_mode h' = h_mode h -> h_uid h' = h_uid h -> h_gid h' = h_gid h -> h_mtime h' = h_mtime h ->
  h_xattrs h' = h_xattrs h -> common_fields_ok m o h' = common_fields_ok m o h.
Proof. intros H1 H2 H3 H4 H5. unfold common_fields_ok. now rewrite H1, H2, H3, H4, H5. Qed.

Lemma kind_ok_link p o h : h_type h = TypeLink -> kind_fields_ok p o h = true.
Proof. intros H. unfold kind_fields_ok. rewrite H. reflexivity. Qed.

Ltac split_and H :=
  repeat match type of H with
         | (_ && _) = true => let H' := fresh H in apply andb_true_iff in H as [H H']
         end.

Lemma present_member m o now e :
  member_wf m = true -> m_src (mc_member m) = SPresent o ->
  add_single (m_opts (mc_member m)) (SPresent o) now = ROk e ->
  exists h, mk_header e = TOk h
    /\ e_name e = p_name (m_opts (mc_member m))
    /\ h_type h = expected_type (m_opts (mc_member m)) (st_mode (o_st o))
    /\ common_fields_ok m o h = true
    /\ kind_fields_ok (m_opts (mc_member m)) o h = true
    /\ e_ltype e <> LHard
    /\ (forall g, e_devino e = Some g ->
          g = st_id (o_st o) /\ (1 <? st_nlink (o_st o)) = true /\ h_type h = TypeReg
          /\ p_hassrc (m_opts (mc_member m)) = false).
Proof.
  intros Hwf Hsrc Hadd. set (p := m_opts (mc_member m)) in *.
  unfold member_wf in Hwf. fold p in Hwf. rewrite Hsrc in Hwf.
  apply andb_true_iff in Hwf as [Hwf Hobj]. apply andb_true_iff in Hwf as [Hwf Hdevr].
  apply andb_true_iff in Hwf as [Hwf Hlegal].
  apply andb_true_iff in Hwf as [Hwf Hnt]. apply andb_true_iff in Hwf as [Hwf Hsl].
  apply andb_true_iff in Hwf as [Hwf Hnn]. apply andb_true_iff in Hwf as [Hmok Hmr].
  apply andb_true_iff in Hobj as [Hobj Hagree].
  unfold object_ok in Hobj.
  apply andb_true_iff in Hobj as [Hobj Hlk]. apply andb_true_iff in Hobj as [Hobj Hd0].
  apply andb_true_iff in Hobj as [Hobj Hdl]. apply andb_true_iff in Hobj as [Hobj Hxn].
  apply andb_true_iff in Hobj as [Hobj Hxd]. apply andb_true_iff in Hobj as [Hobj Hxs].
  pose proof (xattrs_complete _ (xattrs_wf_of_bool _ Hxd Hxn)) as Hxa.
  unfold add_single in Hadd.
  destruct (negb (line_ok p)); [discriminate|].
  destruct (classify (st_mode (o_st o))) as [[actual pending]|] eqn:Ecl; [|discriminate].
  apply classify_obj in Ecl.
  destruct (type_decision p true actual pending) as [t|] eqn:Etd; [|discriminate].
  rewrite Hxa in Hadd.
  assert (Hcommon : forall h, h_mode h = perms_of p true (st_mode (o_st o)) t ->
            h_uid h = uid_of p true (o_st o) -> h_gid h = gid_of p true (o_st o) ->
            h_mtime h = st_mtime (o_st o) -> h_xattrs h = o_xattrs o -> common_fields_ok m o h = true).
  { intros h. apply common_ok; assumption. }
  unfold type_decision in Etd. unfold expected_type. fold p.
  destruct (p_ltype p) eqn:Elt.
  - (* tbd *)
    cbn [negb] in Etd. destruct pending; [discriminate|]. injection Etd as <-.
    apply andb_true_iff in Hlegal as [Hlegal Htarg]. apply andb_true_iff in Hlegal as [Hlegal Hnodev].
    destruct (p_dev p) eqn:Edev; [discriminate|]. rewrite Htarg.
    destruct actual; try contradiction; unfold finish in Hadd; cbn [o_st] in Hadd.
    + (* directory *) injection Hadd as <-. eexists. split; [reflexivity|]. cbn.
      split; [reflexivity|]. split; [now symmetry|]. split; [apply Hcommon; reflexivity|].
      split; [reflexivity|]. split; [discriminate|]. intros g Hg. discriminate.
    + (* regular file *)
      injection Hadd as <-. rewrite Ecl in Hdl. apply N.eqb_eq in Hdl.
      unfold mk_header. cbn [e_ltype e_fsize e_dlen]. rewrite Hdl, N.eqb_refl.
      assert (Hdev : forall g, (if negb (p_hassrc p) && (1 <? st_nlink (o_st o)) then Some (st_id (o_st o)) else None) = Some g ->
                g = st_id (o_st o) /\ (1 <? st_nlink (o_st o)) = true /\ TypeReg = TypeReg /\ p_hassrc p = false).
      { intros g Hg. destruct (p_hassrc p), (1 <? st_nlink (o_st o)); cbn in Hg; try discriminate.
        injection Hg as <-. auto. }
      destruct (0 <? st_size (o_st o)) eqn:Esz.
      * eexists. split; [reflexivity|]. cbn.
        split; [reflexivity|]. split; [now symmetry|]. split; [apply Hcommon; reflexivity|].
        split; [|split; [discriminate|exact Hdev]].
        unfold kind_fields_ok. cbn. now rewrite N.eqb_refl, beq_refl.
      * eexists. split; [reflexivity|]. cbn.
        split; [reflexivity|]. split; [now symmetry|]. split; [apply Hcommon; reflexivity|].
        split; [|split; [discriminate|exact Hdev]].
        unfold kind_fields_ok. cbn. rewrite N.eqb_refl. cbn.
        apply N.ltb_ge in Esz. assert (E0 : st_size (o_st o) = 0) by lia. rewrite E0 in Hd0. cbn in Hd0.
        destruct (o_data o); [reflexivity|discriminate].
    + (* symlink *)
      rewrite Htarg in Hadd. rewrite readlink_complete in Hadd. injection Hadd as <-.
      eexists. split; [reflexivity|]. cbn.
      split; [reflexivity|]. split; [now symmetry|]. split; [apply Hcommon; reflexivity|].
      split; [|split; [discriminate|intros g Hg; discriminate]].
      unfold kind_fields_ok. cbn. fold p. rewrite Htarg. now rewrite beq_refl.
    + (* device *)
      rewrite Edev in Hadd.
      destruct Ecl as [[Eo Ef]|[Eo Ef]]; rewrite Ef in Hadd; cbn in Hadd; injection Hadd as <-;
        (eexists; split; [reflexivity|]); cbn;
        (split; [reflexivity|]); (split; [now symmetry|]); (split; [apply Hcommon; reflexivity|]);
        (split; [|split; [discriminate|intros g Hg; discriminate]]);
        unfold kind_fields_ok; cbn; fold p; rewrite Edev;
        unfold ref_major, ref_minor; now rewrite <- dev_major_arith, <- dev_minor_arith, !N.eqb_refl.
  - (* dir *)
    cbn [need_check] in Etd. unfold need_check in Etd. rewrite Elt in Etd. injection Etd as <-.
    apply andb_true_iff in Hlegal as [Hnodev Htarg].
    destruct (p_dev p) eqn:Edev; [discriminate|]. rewrite Htarg.
    apply N.eqb_eq in Hagree.
    unfold finish in Hadd. injection Hadd as <-. eexists. split; [reflexivity|]. cbn.
    split; [reflexivity|]. split; [now symmetry|]. split; [apply Hcommon; reflexivity|].
    split; [reflexivity|]. split; [discriminate|]. intros g Hg. discriminate.
  - (* file *)
    assert (t = LFile) as ->.
    { unfold need_check in Etd. rewrite Elt in Etd.
      destruct (negb (p_hassrc p)); [|congruence]. destruct pending; [discriminate|].
      destruct (true && negb (ltype_eqb LFile actual)); congruence. }
    apply andb_true_iff in Hlegal as [Hnodev Htarg].
    destruct (p_dev p) eqn:Edev; [discriminate|]. rewrite Htarg.
    apply N.eqb_eq in Hagree. clear Ecl. rename Hagree into Ecl.
    unfold finish in Hadd. cbn [o_st] in Hadd.
    injection Hadd as <-. rewrite Ecl in Hdl. apply N.eqb_eq in Hdl.
    unfold mk_header. cbn [e_ltype e_fsize e_dlen]. rewrite Hdl, N.eqb_refl.
    assert (Hdev : forall g, (if negb (p_hassrc p) && (1 <? st_nlink (o_st o)) then Some (st_id (o_st o)) else None) = Some g ->
              g = st_id (o_st o) /\ (1 <? st_nlink (o_st o)) = true /\ TypeReg = TypeReg /\ p_hassrc p = false).
    { intros g Hg. destruct (p_hassrc p), (1 <? st_nlink (o_st o)); cbn in Hg; try discriminate.
      injection Hg as <-. auto. }
    destruct (0 <? st_size (o_st o)) eqn:Esz.
    + eexists. split; [reflexivity|]. cbn.
      split; [reflexivity|]. split; [now symmetry|]. split; [apply Hcommon; reflexivity|].
      split; [|split; [discriminate|exact Hdev]].
      unfold kind_fields_ok. cbn. now rewrite N.eqb_refl, beq_refl.
    + eexists. split; [reflexivity|]. cbn.
      split; [reflexivity|]. split; [now symmetry|]. split; [apply Hcommon; reflexivity|].
      split; [|split; [discriminate|exact Hdev]].
      unfold kind_fields_ok. cbn. rewrite N.eqb_refl. cbn.
      apply N.ltb_ge in Esz. assert (E0 : st_size (o_st o) = 0) by lia. rewrite E0 in Hd0. cbn in Hd0.
      destruct (o_data o); [reflexivity|discriminate].
  - (* symlink *)
    assert (t = LSym) as ->.
    { unfold need_check in Etd. rewrite Elt in Etd.
      destruct (is_nil (p_target p)); [|congruence]. destruct pending; [discriminate|].
      destruct (true && negb (ltype_eqb LSym actual)); congruence. }
    apply andb_true_iff in Hlegal as [Hlegal Hnodev].
    destruct (p_dev p) eqn:Edev; [discriminate|].
    apply N.eqb_eq in Hagree.
    unfold finish in Hadd. destruct (is_nil (p_target p)) eqn:Htarg.
    + rewrite readlink_complete in Hadd. injection Hadd as <-.
      eexists. split; [reflexivity|]. cbn.
      split; [reflexivity|]. split; [now symmetry|]. split; [apply Hcommon; reflexivity|].
      split; [|split; [discriminate|intros g Hg; discriminate]].
      unfold kind_fields_ok. cbn. fold p. rewrite Htarg. now rewrite beq_refl.
    + injection Hadd as <-.
      eexists. split; [reflexivity|]. cbn.
      split; [reflexivity|]. split; [reflexivity|]. split; [apply Hcommon; reflexivity|].
      split; [|split; [discriminate|intros g Hg; discriminate]].
      unfold kind_fields_ok. cbn. fold p. rewrite Htarg. now rewrite beq_refl.
  - (* hard link: not an entry type *) discriminate.
  - (* node *)
    assert (t = LDev) as ->.
    { unfold need_check in Etd. rewrite Elt in Etd.
      destruct (p_hassrc p || negb (has (p_dev p))); [|congruence]. destruct pending; [discriminate|].
      destruct (true && negb (ltype_eqb LDev actual)); congruence. }
    apply andb_true_iff in Hlegal as [Htarg Hlegal]. rewrite Htarg.
    unfold finish in Hadd. destruct (p_dev p) as [[[isc ma] mi]|] eqn:Edev.
    + injection Hadd as <-. eexists. split; [reflexivity|]. cbn.
      split; [reflexivity|]. split; [now destruct isc|]. split; [apply Hcommon; reflexivity|].
      split; [|split; [discriminate|intros g Hg; discriminate]].
      unfold kind_fields_ok. cbn. fold p. rewrite Edev. destruct isc; cbn; now rewrite !N.eqb_refl.
    + assert (Ef : (obj_type (st_mode (o_st o)) = TypeChar /\ N.land (st_mode (o_st o)) S_IFMT = S_IFCHR)
                   \/ (obj_type (st_mode (o_st o)) = TypeBlock /\ N.land (st_mode (o_st o)) S_IFMT = S_IFBLK)).
      { destruct actual, pending; try contradiction; try assumption;
          rewrite Ecl in Hagree; discriminate. }
      cbn [o_st] in Hadd.
      destruct Ef as [[Eo Ef]|[Eo Ef]]; rewrite Ef in Hadd; cbn in Hadd; injection Hadd as <-;
        (eexists; split; [reflexivity|]); cbn;
        (split; [reflexivity|]); (split; [now symmetry|]); (split; [apply Hcommon; reflexivity|]);
        (split; [|split; [discriminate|intros g Hg; discriminate]]);
        unfold kind_fields_ok; cbn; fold p; rewrite Edev;
        unfold ref_major, ref_minor; now rewrite <- dev_major_arith, <- dev_minor_arith, !N.eqb_refl.
Qed.

(* ---------- symbolic modes on the bits they touch / do not touch ---------- *)
Definition tb (cs : list (N * bool * N)) (i : N) : bool :=
  existsb (fun cl => N.testbit (clause_mask cl) i) cs.

Lemma touched_bits cs : forall a i,
  N.testbit (fold_left (fun (a : N) (cl : N * bool * N) => N.lor a (clause_mask cl)) cs a) i
  = N.testbit a i || tb cs i.
Proof.
  induction cs as [|cl cs IH]; intros a i; cbn [fold_left tb existsb]; [now rewrite orb_false_r|].
  rewrite IH, N.lor_spec. fold (tb cs i). now rewrite orb_assoc.
Qed.

Definition cstep (q : N) (cl : N * bool * N) : N :=
  if snd (fst cl) then N.lor q (clause_mask cl) else N.ldiff q (clause_mask cl).
Lemma chmod_ref_cons cl cs q : chmod_ref (cl :: cs) q = chmod_ref cs (cstep q cl).
Proof. reflexivity. Qed.

Lemma chmod_untouched cs : forall q i, tb cs i = false -> N.testbit (chmod_ref cs q) i = N.testbit q i.
Proof.
  induction cs as [|cl cs IH]; intros q i H; [reflexivity|].
  cbn [tb existsb] in H. apply orb_false_iff in H as [H1 H2]. rewrite chmod_ref_cons, IH by assumption.
  unfold cstep. destruct (snd (fst cl)).
  - now rewrite N.lor_spec, H1, orb_false_r.
  - now rewrite N.ldiff_spec, H1, andb_true_r.
Qed.

Lemma chmod_touched cs : forall q q' i, tb cs i = true ->
  N.testbit (chmod_ref cs q) i = N.testbit (chmod_ref cs q') i.
Proof.
  induction cs as [|cl cs IH]; intros q q' i H; [discriminate|].
  rewrite !chmod_ref_cons. cbn [tb existsb] in H. fold (tb cs i) in H.
  destruct (tb cs i) eqn:E; [now apply IH|].
  rewrite orb_false_r in H. rewrite !chmod_untouched by assumption.
  unfold cstep. destruct (snd (fst cl)).
  - now rewrite !N.lor_spec, H, !orb_true_r.
  - now rewrite !N.ldiff_spec, H, !andb_false_r.
Qed.

Lemma usable_bits tch ty x :
  usable_outside tch ty x = true <->
  (forall i, N.testbit (required_bits ty) i = true -> N.testbit tch i = false -> N.testbit x i = true)
  /\ (forall i, N.testbit (forbidden_bits ty) i = true -> N.testbit tch i = false -> N.testbit x i = false).
Proof.
  unfold usable_outside. rewrite andb_true_iff, !N.eqb_eq. split.
  - intros [H1 H2]. split; intros i Hr Ht.
    + assert (B : N.testbit (N.land (N.ldiff (required_bits ty) tch) x) i
                  = N.testbit (N.ldiff (required_bits ty) tch) i) by now rewrite H1.
      rewrite N.land_spec, N.ldiff_spec, Hr, Ht in B. cbn in B. exact B.
    + assert (B : N.testbit (N.land (N.ldiff (forbidden_bits ty) tch) x) i = false)
        by (rewrite H2; apply N.bits_0).
      rewrite N.land_spec, N.ldiff_spec, Hr, Ht in B. cbn in B. exact B.
  - intros [H1 H2]. split; apply N.bits_inj; intros i.
    + rewrite N.land_spec, N.ldiff_spec.
      destruct (N.testbit (required_bits ty) i) eqn:Er; [|reflexivity].
      destruct (N.testbit tch i) eqn:Et; [reflexivity|]. cbn. rewrite (H1 i Er Et). reflexivity.
    + rewrite N.land_spec, N.ldiff_spec, N.bits_0.
      destruct (N.testbit (forbidden_bits ty) i) eqn:Er; [|reflexivity].
      destruct (N.testbit tch i) eqn:Et; [reflexivity|]. cbn. apply (H2 i Er Et).
Qed.

Lemma ldiff_sub12 c : sub12 c -> N.ldiff c 4095 = 0.
Proof.
  intros H. apply N.bits_inj_0. intros i. rewrite N.ldiff_spec.
  destruct (N.testbit c i) eqn:E; [|reflexivity]. now rewrite (sub12_bits c H i E).
Qed.

Lemma required_sub12 ty : sub12 (required_bits ty).
Proof. unfold required_bits. destruct (ty =? TypeDir); [reflexivity|]. destruct (ty =? TypeSymlink); reflexivity. Qed.
Lemma forbidden_sub12 ty : sub12 (forbidden_bits ty).
Proof. unfold forbidden_bits. destruct (ty =? TypeSymlink); reflexivity. Qed.

(* a mod= value applied to a usable default leaves a usable result outside the touched bits,
   and inside them the result does not depend on the default *)
Lemma absent_perms ms d ty : modspec_ok ms = true -> usable_outside 0 ty d = true ->
  N.land (apply_mod ms d) (mod_touched ms) = N.land (apply_mod ms 0) (mod_touched ms)
  /\ usable_outside (mod_touched ms) ty (apply_mod ms d) = true.
Proof.
  intros Hok Hu. destruct ms as [|dg|cs]; cbn [apply_mod mod_touched].
  - split; [now rewrite !N.land_0_r|exact Hu].
  - split; [reflexivity|]. unfold usable_outside.
    rewrite (ldiff_sub12 _ (required_sub12 ty)), (ldiff_sub12 _ (forbidden_sub12 ty)). reflexivity.
  - assert (Ht : forall i, N.testbit (touched cs) i = tb cs i).
    { intros i. unfold touched. rewrite touched_bits. now rewrite N.bits_0. }
    split.
    + apply N.bits_inj. intros i. rewrite !N.land_spec, Ht.
      destruct (tb cs i) eqn:E; [|now rewrite !andb_false_r].
      now rewrite (chmod_touched cs d 0 i E).
    + apply usable_bits in Hu as [U1 U2]. apply usable_bits. split; intros i Hr Hti; rewrite Ht in Hti.
      * rewrite chmod_untouched by assumption. apply U1; [assumption|apply N.bits_0].
      * rewrite chmod_untouched by assumption. apply U2; [assumption|apply N.bits_0].
Qed.

(* ---------- a member synthesised for an absent path ---------- *)
Lemma absent_member c m now e :
  member_wf m = true -> m_src (mc_member m) = SAbsent ->
  Z.leb (c_t0 c) now = true -> Z.leb now (c_t1 c) = true ->
  add_single (m_opts (mc_member m)) SAbsent now = ROk e ->
  exists h, mk_header e = TOk h
    /\ e_name e = p_name (m_opts (mc_member m))
    /\ absent_ok c m h = true
    /\ e_devino e = None /\ e_ltype e <> LHard
    /\ p_skip (m_opts (mc_member m)) = false.
Proof.
  intros Hwf Hsrc Ht0 Ht1 Hadd. set (p := m_opts (mc_member m)) in *.
  unfold member_wf in Hwf. fold p in Hwf. rewrite Hsrc in Hwf.
  apply andb_true_iff in Hwf as [Hwf _]. apply andb_true_iff in Hwf as [Hwf Hdevr].
  apply andb_true_iff in Hwf as [Hwf Hlegal].
  apply andb_true_iff in Hwf as [Hwf Hnt]. apply andb_true_iff in Hwf as [Hwf Hsl].
  apply andb_true_iff in Hwf as [Hwf Hnn]. apply andb_true_iff in Hwf as [Hmok Hmr].
  destruct (mod_facts _ _ Hmok Hmr) as [_ Hperm].
  unfold add_single in Hadd.
  destruct (negb (line_ok p)); [discriminate|].
  destruct (p_skip p) eqn:Esk; [discriminate|].
  destruct (type_decision p false LNone false) as [t|] eqn:Etd; [|discriminate].
  (* the clauses of absent_ok that do not depend on the entry type *)
  assert (Hfin : forall h ty, absent_type p = ty -> h_type h = ty ->
            usable_outside 0 ty (N.land (default_perms t) 4095) = true ->
            h_mode h = perms_of p false 0 t -> h_uid h = uid_of p false zero_stat ->
            h_gid h = gid_of p false zero_stat -> h_mtime h = now -> h_xattrs h = [] -> h_size h = 0 ->
            h_data h = [] ->
            (if ty =? TypeSymlink then beq (h_link h) (p_target p) else true) = true ->
            match p_dev p with
            | Some (_, ma, mi) => if (ty =? TypeChar) || (ty =? TypeBlock)
                                  then (h_major h =? ma) && (h_minor h =? mi) else true
            | None => true
            end = true ->
            absent_ok c m h = true).
  { intros h ty Ety Hty Hus Hm Hu Hg Hmt Hx Hs Hd Hl Hdv. unfold absent_ok. fold p.
    rewrite Ety, Hty, Hm, Hu, Hg, Hmt, Hx, Hs, Hd, Hl, Hdv, Ht0, Ht1, N.eqb_refl.
    rewrite (Hperm false 0 t). cbn [is_nil andb].
    destruct (absent_perms (mc_mod m) _ ty Hmok Hus) as [P1 P2]. rewrite P1, P2, N.eqb_refl.
    unfold uid_of, gid_of, optN. change D_StageFileUID with 0. change D_StageFileGID with 0.
    destruct (p_uid p), (p_gid p); now rewrite !N.eqb_refl. }
  unfold type_decision, need_check in Etd. unfold finish in Hadd.
  destruct (p_ltype p) eqn:Elt.
  - discriminate.
  - (* dir *) injection Etd as <-. injection Hadd as <-. eexists. split; [reflexivity|]. cbn.
    split; [reflexivity|]. split; [|auto using eq_refl]. 2: { repeat split; discriminate. }
    apply (Hfin _ TypeDir); try reflexivity.
    + unfold absent_type. now rewrite Elt.
    + destruct (p_dev p) as [[[? ?] ?]|]; reflexivity.
  - (* file: there must be one *)
    assert (t = LFile) as -> by (destruct (negb (p_hassrc p)); cbn in Etd; congruence).
    discriminate.
  - (* symlink with targ= *)
    assert (t = LSym) as -> by (destruct (is_nil (p_target p)); cbn in Etd; congruence).
    destruct (is_nil (p_target p)) eqn:Htg; [discriminate|]. injection Hadd as <-.
    eexists. split; [reflexivity|]. cbn.
    split; [reflexivity|]. split; [|repeat split; discriminate].
    apply (Hfin _ TypeSymlink); try reflexivity.
    + unfold absent_type. now rewrite Elt.
    + cbn. apply beq_refl.
    + destruct (p_dev p) as [[[? ?] ?]|]; reflexivity.
  - discriminate.
  - (* node with dev= *)
    assert (t = LDev) as -> by (destruct (p_hassrc p || negb (has (p_dev p))); cbn in Etd; congruence).
    destruct (p_dev p) as [[[isc ma] mi]|] eqn:Edev; [|discriminate]. injection Hadd as <-.
    eexists. split; [reflexivity|]. cbn.
    split; [reflexivity|]. split; [|repeat split; discriminate].
    apply (Hfin _ (if isc then TypeChar else TypeBlock)); try reflexivity.
    + unfold absent_type. now rewrite Elt, Edev.
    + now destruct isc.
    + now destruct isc.
    + destruct isc; cbn; now rewrite !N.eqb_refl.
Qed.

(* ---------- an acceptable entry is not refused ---------- *)
Lemma classify_none mode : classify mode = None -> obj_type mode = 0.
Proof.
  rewrite classify_k, obj_type_k. pose proof (tyrow_mode mode) as T. unfold tyrow in T.
  intros E. rewrite E in T. now apply N.eqb_eq in T.
Qed.

Lemma accept_ok m now :
  member_wf m = true -> acceptable m = true ->
  (exists e, add_single (m_opts (mc_member m)) (m_src (mc_member m)) now = ROk e)
  \/ add_single (m_opts (mc_member m)) (m_src (mc_member m)) now = RSkip.
Proof.
  intros Hwf Hacc. set (p := m_opts (mc_member m)) in *.
  unfold member_wf in Hwf. fold p in Hwf.
  apply andb_true_iff in Hwf as [Hwf Hobj]. apply andb_true_iff in Hwf as [Hwf Hdevr].
  apply andb_true_iff in Hwf as [Hwf Hlegal].
  apply andb_true_iff in Hwf as [Hwf Hnt]. apply andb_true_iff in Hwf as [Hwf Hsl].
  apply andb_true_iff in Hwf as [Hwf Hnn]. apply andb_true_iff in Hwf as [Hmok Hmr].
  destruct (mod_facts _ _ Hmok Hmr) as [Hmask _].
  unfold acceptable in Hacc. fold p in Hacc.
  apply andb_true_iff in Hacc as [Hacc Hsrc]. apply andb_true_iff in Hacc as [Hacc Hdv].
  apply andb_true_iff in Hacc as [Hu Hg].
  assert (Hline : line_ok p = true).
  { unfold line_ok. apply andb_true_iff. split; [apply andb_true_iff; split; [apply andb_true_iff; split|]|].
    - destruct (has (p_mod p)) eqn:E; [|reflexivity]. now rewrite (Hmask eq_refl).
    - unfold uid_ok. destruct (p_uid p); assumption.
    - unfold uid_ok. destruct (p_gid p); assumption.
    - unfold dev_ok. destruct (p_dev p) as [[[? ma] mi]|]; [|reflexivity].
      apply andb_true_iff in Hdv as [H1 H2]. apply N.ltb_lt in H1, H2.
      apply andb_true_iff. split; apply N.ltb_lt; lia. }
  unfold add_single. rewrite Hline. cbn [negb].
  destruct (m_src (mc_member m)) as [| |o] eqn:Esrc.
  - (* absent *)
    destruct (p_skip p) eqn:Esk; [now right|]. left. cbn [orb] in Hsrc.
    unfold type_decision, need_check, finish.
    destruct (p_ltype p) eqn:Elt; try discriminate.
    + eexists. reflexivity.
    + apply negb_true_iff in Hsrc. rewrite Hsrc. cbn. eexists. reflexivity.
    + apply andb_true_iff in Hlegal as [Htarg Hlegal].
      destruct (p_dev p) as [[[isc ma] mi]|] eqn:Edev; [|discriminate].
      cbn in Hlegal. apply negb_true_iff in Hlegal. rewrite Hlegal. cbn. eexists. reflexivity.
  - discriminate.
  - (* present *)
    left. apply andb_true_iff in Hobj as [Hobj Hagree].
    unfold object_ok in Hobj.
    apply andb_true_iff in Hobj as [Hobj Hlk]. apply andb_true_iff in Hobj as [Hobj Hd0].
    apply andb_true_iff in Hobj as [Hobj Hdl]. apply andb_true_iff in Hobj as [Hobj Hxn].
    apply andb_true_iff in Hobj as [Hobj Hxd]. apply andb_true_iff in Hobj as [Hobj Hxs].
    rewrite (xattrs_complete _ (xattrs_wf_of_bool _ Hxd Hxn)).
    apply negb_true_iff, N.eqb_neq in Hsrc.
    destruct (classify (st_mode (o_st o))) as [[actual pending]|] eqn:Ecl;
      [|apply classify_none in Ecl; contradiction].
    apply classify_obj in Ecl.
    assert (Hp : pending = false) by (destruct actual, pending; try contradiction; auto).
    subst pending.
    unfold type_decision, need_check.
    destruct (p_ltype p) eqn:Elt.
    + (* tbd *) cbn [negb]. unfold finish. cbn [o_st].
      apply andb_true_iff in Hlegal as [Hlegal Htarg]. apply andb_true_iff in Hlegal as [Hlegal Hnodev].
      destruct (p_dev p) eqn:Edev; [discriminate|].
      destruct actual; try contradiction; try (eexists; reflexivity).
      * rewrite Htarg, readlink_complete. eexists. reflexivity.
      * destruct Ecl as [[_ Ef]|[_ Ef]]; rewrite Ef; cbn; eexists; reflexivity.
    + eexists. reflexivity.
    + apply N.eqb_eq in Hagree.
      assert (actual = LFile) as -> by (destruct actual; try contradiction; try reflexivity;
        try (rewrite Ecl in Hagree; discriminate); destruct Ecl as [[E _]|[E _]]; rewrite E in Hagree; discriminate).
      destruct (negb (p_hassrc p)); cbn; eexists; reflexivity.
    + apply N.eqb_eq in Hagree.
      assert (actual = LSym) as -> by (destruct actual; try contradiction; try reflexivity;
        try (rewrite Ecl in Hagree; discriminate); destruct Ecl as [[E _]|[E _]]; rewrite E in Hagree; discriminate).
      unfold finish. rewrite readlink_complete.
      destruct (is_nil (p_target p)) eqn:Htg; cbn; eexists; reflexivity.
    + discriminate.
    + assert (actual = LDev) as ->.
      { apply orb_true_iff in Hagree. destruct actual; try contradiction; try reflexivity;
          rewrite Ecl in Hagree; destruct Hagree; discriminate. }
      assert (Etd : (if p_hassrc p || negb (has (p_dev p))
                     then if true && negb (ltype_eqb LDev LDev) then None else Some LDev
                     else Some LDev) = Some LDev) by (destruct (p_hassrc p || negb (has (p_dev p))); reflexivity).
      cbn [andb negb] in Etd |- *. rewrite Etd. unfold finish. cbn [o_st].
      destruct (p_dev p) as [[[isc ma] mi]|]; [eexists; reflexivity|].
      destruct Ecl as [[_ Ef]|[_ Ef]]; rewrite Ef; cbn; eexists; reflexivity.
Qed.

(* ---------- the whole run ---------- *)
Lemma finish_not_skip p t ob mt xa g u pm : finish p t ob mt xa g u pm <> RSkip.
Proof.
  unfold finish. destruct t; try discriminate.
  - destruct ob; discriminate.
  - destruct (is_nil (p_target p)); [|discriminate]. destruct ob; [|discriminate].
    destruct (fs_readlink (o_link o)); discriminate.
  - destruct (p_dev p) as [[[? ?] ?]|]; [discriminate|]. destruct ob; [|discriminate].
    destruct (N.land (st_mode (o_st o)) S_IFMT =? S_IFCHR); [discriminate|].
    destruct (N.land (st_mode (o_st o)) S_IFMT =? S_IFBLK); discriminate.
Qed.

Lemma skip_inv p s now : add_single p s now = RSkip -> s = SAbsent /\ p_skip p = true.
Proof.
  unfold add_single. destruct (negb (line_ok p)); [discriminate|]. destruct s as [| |o].
  - destruct (p_skip p); [auto|]. destruct (type_decision p false LNone false); [|discriminate].
    intros H. now apply finish_not_skip in H.
  - discriminate.
  - destruct (classify (st_mode (o_st o))) as [[a b]|]; [|discriminate].
    destruct (type_decision p true a b); [|discriminate].
    destruct (get_xattrs (o_xattrs o)); try discriminate.
    intros H. now apply finish_not_skip in H.
Qed.

Lemma add_all_not_skip ms : add_all ms <> RSkip.
Proof.
  induction ms as [|m r IH]; [discriminate|]. cbn [add_all].
  destruct (add_single (m_opts m) (m_src m) (m_now m)), (add_all r); try discriminate; congruence.
Qed.

Lemma add_all_ok_inv m r es : add_all (m :: r) = ROk es ->
  exists l, add_all r = ROk l /\
    ((exists e, add_single (m_opts m) (m_src m) (m_now m) = ROk e /\ es = Some e :: l)
     \/ (add_single (m_opts m) (m_src m) (m_now m) = RSkip /\ es = None :: l)).
Proof.
  cbn [add_all]. destruct (add_single (m_opts m) (m_src m) (m_now m)) eqn:E1, (add_all r) eqn:E2;
    try discriminate; intros H; injection H as <-; eexists; split; eauto.
Qed.

Lemma add_all_err_inv ms : add_all ms = RErr -> exists m, In m ms /\ add_single (m_opts m) (m_src m) (m_now m) = RErr.
Proof.
  induction ms as [|m r IH]; [discriminate|]. cbn [add_all].
  destruct (add_single (m_opts m) (m_src m) (m_now m)) eqn:E1.
  - destruct (add_all r) eqn:E2; try discriminate; intros _.
    + now apply add_all_not_skip in E2.
    + destruct (IH eq_refl) as (x & Hx & Ex). exists x. split; [now right|assumption].
  - destruct (add_all r) eqn:E2; try discriminate; intros _.
    + now apply add_all_not_skip in E2.
    + destruct (IH eq_refl) as (x & Hx & Ex). exists x. split; [now right|assumption].
  - intros _. exists m. split; [now left|assumption].
  - discriminate.
Qed.

Lemma add_all_div_inv ms : add_all ms = RDiverge ->
  exists m, In m ms /\ add_single (m_opts m) (m_src m) (m_now m) = RDiverge.
Proof.
  induction ms as [|m r IH]; [discriminate|]. cbn [add_all].
  destruct (add_single (m_opts m) (m_src m) (m_now m)) eqn:E1.
  - destruct (add_all r) eqn:E2; try discriminate; intros _.
    destruct (IH eq_refl) as (x & Hx & Ex). exists x. split; [now right|assumption].
  - destruct (add_all r) eqn:E2; try discriminate; intros _.
    destruct (IH eq_refl) as (x & Hx & Ex). exists x. split; [now right|assumption].
  - destruct (add_all r) eqn:E2; try discriminate; intros _.
    destruct (IH eq_refl) as (x & Hx & Ex). exists x. split; [now right|assumption].
  - intros _. exists m. split; [now left|assumption].
Qed.

(* no well-formed member makes the buffer loops run out of fuel *)
Lemma wf_no_diverge m now : member_wf m = true ->
  add_single (m_opts (mc_member m)) (m_src (mc_member m)) now <> RDiverge.
Proof.
  intros Hwf. unfold add_single. destruct (negb (line_ok _)); [discriminate|].
  destruct (m_src (mc_member m)) as [| |o] eqn:Esrc.
  - destruct (p_skip _); [discriminate|]. destruct (type_decision _ false LNone false) as [t|]; [|discriminate].
    unfold finish. destruct t; try discriminate.
    + destruct (is_nil _); discriminate.
    + destruct (p_dev _) as [[[? ?] ?]|]; discriminate.
  - discriminate.
  - unfold member_wf in Hwf. rewrite Esrc in Hwf. apply andb_true_iff in Hwf as [_ Hobj].
    apply andb_true_iff in Hobj as [Hobj _]. unfold object_ok in Hobj.
    apply andb_true_iff in Hobj as [Hobj _]. apply andb_true_iff in Hobj as [Hobj _].
    apply andb_true_iff in Hobj as [Hobj _]. apply andb_true_iff in Hobj as [Hobj Hxn].
    apply andb_true_iff in Hobj as [Hobj Hxd].
    rewrite (xattrs_complete _ (xattrs_wf_of_bool _ Hxd Hxn)).
    destruct (classify _) as [[a b]|]; [|discriminate]. destruct (type_decision _ true a b) as [t|]; [|discriminate].
    unfold finish. rewrite readlink_complete. destruct t; try discriminate.
    + destruct (is_nil _); discriminate.
    + destruct (p_dev _) as [[[? ?] ?]|]; [discriminate|].
      destruct (_ =? S_IFCHR); [discriminate|]. destruct (_ =? S_IFBLK); discriminate.
Qed.

(* the hard-link table of fixHardlinks against the members already written *)
Local Open Scope list_scope.
Definition inv (seen : list (N * bytes)) (prev : list (mcase * header)) : Prop :=
  forall g n, In (g, n) seen ->
    starts_with_slash n = true /\
    exists m h o, In (m, h) prev /\ h_name h = dot :: n /\ h_type h = TypeReg
      /\ m_src (mc_member m) = SPresent o /\ st_id (o_st o) = g
      /\ p_hassrc (m_opts (mc_member m)) = false /\ (1 <? st_nlink (o_st o)) = true
      /\ member_wf m = true
      /\ common_fields_ok m o h = true /\ h_size h = st_size (o_st o) /\ h_data h = o_data o.

Lemma inv_mono seen prev x : inv seen prev -> inv seen (prev ++ [x]).
Proof.
  intros H g n Hin. destruct (H g n Hin) as (Hs & m & h & o & Hp & R). split; [assumption|].
  exists m, h, o. split; [apply in_or_app; now left|assumption].
Qed.

Lemma group_first_in g seen tg : group_first g seen = Some tg -> In (g, tg) seen.
Proof.
  induction seen as [|[g' n] r IH]; [discriminate|]. cbn [group_first].
  destruct (g' =? g) eqn:E.
  - intros H. injection H as <-. apply N.eqb_eq in E. subst. now left.
  - intros H. right. now apply IH.
Qed.

Lemma stat_beq_true a b : stat_beq a b = true -> a = b.
Proof.
  destruct a, b. unfold stat_beq. cbn. intros H.
  repeat (apply andb_true_iff in H as [H ?]).
  repeat match goal with
         | E : (_ =? _) = true |- _ => apply N.eqb_eq in E
         | E : Z.eqb _ _ = true |- _ => apply Z.eqb_eq in E
         end.
  subst. reflexivity.
Qed.

(* a member without mod= has the trivial mod specification *)
Lemma no_mod_MNone m : member_wf m = true -> p_mod (m_opts (mc_member m)) = None -> mc_mod m = MNone.
Proof.
  intros Hwf Hmod. unfold member_wf in Hwf. apply andb_true_iff in Hwf as [W _]. apply andb_true_iff in W as [W _].
  apply andb_true_iff in W as [W _]. apply andb_true_iff in W as [W _]. apply andb_true_iff in W as [W _].
  apply andb_true_iff in W as [W _]. apply andb_true_iff in W as [_ W].
  apply opt_beq_bytes_true in W. rewrite Hmod in W. destruct (mc_mod m); [reflexivity|discriminate|discriminate].
Qed.

Lemma no_override_fields m : has_override m = false ->
  p_mod (m_opts (mc_member m)) = None /\ p_uid (m_opts (mc_member m)) = None /\ p_gid (m_opts (mc_member m)) = None.
Proof.
  unfold has_override. intros H. apply orb_false_iff in H as [H H3]. apply orb_false_iff in H as [H1 H2].
  destruct (p_mod _), (p_uid _), (p_gid _); try discriminate; auto.
Qed.

(* two names of one inode, neither carrying an override: the header written for the first
   name is exactly what the second name calls for *)
Lemma link_fields_ok m o m' o' h' :
  member_wf m = true -> member_wf m' = true ->
  m_src (mc_member m) = SPresent o -> m_src (mc_member m') = SPresent o' ->
  st_id (o_st o') = st_id (o_st o) ->
  p_hassrc (m_opts (mc_member m)) = false -> p_hassrc (m_opts (mc_member m')) = false ->
  (1 <? st_nlink (o_st o)) = true -> (1 <? st_nlink (o_st o')) = true ->
  inode_consistent m' m = true -> no_link_override m' m = true ->
  common_fields_ok m' o' h' = true -> h_size h' = st_size (o_st o') -> h_data h' = o_data o' ->
  common_fields_ok m o h' = true /\ (h_size h' =? st_size (o_st o)) = true /\ beq (h_data h') (o_data o) = true.
Proof.
  intros Hwf Hwf' Hs Hs' Hid Hsrc Hsrc' Hnl Hnl' Hcons Hno Hco Hsz Hdt.
  unfold inode_consistent in Hcons. rewrite Hs, Hs' in Hcons. rewrite Hid, N.eqb_refl in Hcons. cbn [negb orb] in Hcons.
  apply andb_true_iff in Hcons as [Hcons Hd]. apply andb_true_iff in Hcons as [Hst Hx].
  apply stat_beq_true in Hst. apply (list_beq_true xattr_beq xattr_beq_true) in Hx. apply beq_true in Hd.
  unfold no_link_override, same_inode, linkable in Hno. rewrite Hs, Hs', Hid, N.eqb_refl, Hsrc, Hsrc', Hnl, Hnl' in Hno.
  cbn [negb andb] in Hno. apply negb_true_iff in Hno. apply orb_false_iff in Hno as [Ho' Ho].
  destruct (no_override_fields _ Ho) as (M1 & U1 & G1). destruct (no_override_fields _ Ho') as (M2 & U2 & G2).
  pose proof (no_mod_MNone _ Hwf M1) as N1. pose proof (no_mod_MNone _ Hwf' M2) as N2.
  split; [|split].
  - unfold common_fields_ok in *. rewrite N1, U1, G1. rewrite N2, U2, G2 in Hco. rewrite <- Hst, <- Hx. exact Hco.
  - rewrite Hsz, Hst. apply N.eqb_refl.
  - rewrite Hdt, Hd. apply beq_refl.
Qed.

Lemma mk_header_hardlink e tg : starts_with_slash tg = true ->
  mk_header (as_hardlink e tg) =
  TOk (MkHdr (dot :: e_name e) TypeLink (e_perms e) (e_uid e) (e_gid e) (e_mtime e) (e_fsize e)
             (dot :: tg) 0 0 (match e_xattrs e with Some l => l | None => [] end) []).
Proof.
  intros H. unfold mk_header, as_hardlink. cbn. destruct tg as [|c r]; [discriminate|].
  cbn in H. now rewrite H.
Qed.

Definition member_pre (c : case) (m : mcase) : Prop :=
  member_wf m = true /\ Z.leb (c_t0 c) (m_now (mc_member m)) = true /\ Z.leb (m_now (mc_member m)) (c_t1 c) = true.

Definition pair_ok (a b : mcase) : Prop := inode_consistent a b = true /\ no_link_override a b = true.

Lemma pairwise_cons {A} (f : A -> A -> bool) a r :
  pairwise f (a :: r) = true -> (forall b, In b r -> f a b = true) /\ pairwise f r = true.
Proof. cbn [pairwise]. intros H. apply andb_true_iff in H as [H1 H2]. rewrite forallb_forall in H1. auto. Qed.

Lemma run_members_ok c : forall ms es seen prev,
  Forall (member_pre c) ms ->
  pairwise inode_consistent ms = true -> pairwise no_link_override ms = true ->
  (forall m' h' m, In (m', h') prev -> In m ms -> pair_ok m' m) ->
  add_all (map mc_member ms) = ROk es ->
  inv seen prev ->
  exists hs, headers (fix_hardlinks seen es) = Some hs /\ members_ok c prev ms hs = true.
Proof.
  induction ms as [|m ms IH]; intros es seen prev Hpre Hpc Hpn Hprev Hadd Hinv.
  - cbn in Hadd. injection Hadd as <-. exists []. split; reflexivity.
  - inversion Hpre as [|? ? [Hwf [Ht0 Ht1]] Hpre']; subst.
    apply pairwise_cons in Hpc as [Hc1 Hpc]. apply pairwise_cons in Hpn as [Hn1 Hpn].
    assert (Hprev' : forall hx m'0 h'0 m0, In (m'0, h'0) (prev ++ [(m, hx)]) -> In m0 ms -> pair_ok m'0 m0).
    { intros hx m'0 h'0 m0 Hin Hm0. apply in_app_or in Hin as [Hin|[Hin|[]]].
      - apply (Hprev m'0 h'0 m0 Hin). now right.
      - injection Hin as <- <-. split; [now apply Hc1|now apply Hn1]. }
    cbn [map] in Hadd. apply add_all_ok_inv in Hadd as (l & Hl & [(e & He & ->)|(Hsk & ->)]).
    + (* the entry is written *)
      destruct (m_src (mc_member m)) as [| |o] eqn:Esrc.
      * (* synthesised *)
        destruct (absent_member c m _ e Hwf Esrc Ht0 Ht1 He) as (h & Hh & Hn & Hok & Hdi & _ & Hns).
        cbn [fix_hardlinks]. rewrite Hdi.
        destruct (IH l seen (prev ++ [(m, h)]) Hpre' Hpc Hpn (Hprev' h) Hl (inv_mono _ _ _ Hinv)) as (hs & Hhs & Hms).
        exists (Some h :: hs). split; [cbn [headers]; now rewrite Hh, Hhs|].
        cbn [members_ok]. rewrite Hms, andb_true_r.
        unfold may_skip. rewrite Hns. cbn [andb negb].
        unfold member_ok. rewrite Esrc, Hok, andb_true_r.
        destruct (mk_header_fields _ _ Hh) as (Hname & _). rewrite Hname, Hn. apply beq_refl.
      * (* lstat failed: the entry is refused *)
        exfalso. unfold add_single in He. destruct (negb (line_ok _)); discriminate.
      * (* taken from an object *)
        destruct (present_member m o _ e Hwf Esrc He) as (h & Hh & Hn & Hty & Hco & Hki & Hnh & Hdev).
        destruct (mk_header_fields _ _ Hh) as (Hname & Hmode & Huid & Hgid & Hmt & Hxa & Hsz).
        assert (Hskip : may_skip m = false) by (unfold may_skip; rewrite Esrc; apply andb_false_r).
        assert (Hslash : starts_with_slash (p_name (m_opts (mc_member m))) = true).
        { pose proof Hwf as W. unfold member_wf in W.
          apply andb_true_iff in W as [W _]. apply andb_true_iff in W as [W _].
          apply andb_true_iff in W as [W _]. apply andb_true_iff in W as [W _].
          now apply andb_true_iff in W as [_ W]. }
        cbn [fix_hardlinks]. destruct (e_devino e) as [g|] eqn:Edi.
        -- destruct (Hdev g eq_refl) as (Hg & Hnl & Hreg & Hsrc). subst g.
           destruct (group_first (st_id (o_st o)) seen) as [tg|] eqn:Egf.
           ++ (* a later member of an inode group: hard link to the first *)
              pose proof (group_first_in _ _ _ Egf) as Hin.
              destruct (Hinv _ _ Hin) as (Hsl & m' & h' & o' & Hp' & Hn' & Ht' & Hs' & Hid' & Hsrc' & Hnl' & Hwf' & Hco' & Hsz' & Hdt').
              destruct (Hprev m' h' m Hp' (or_introl eq_refl)) as [Pc Pn].
              destruct (link_fields_ok m o m' o' h' Hwf Hwf' Esrc Hs' Hid' Hsrc Hsrc' Hnl Hnl' Pc Pn Hco' Hsz' Hdt')
                as (L1 & L2 & L3).
              set (hl := MkHdr (dot :: e_name e) TypeLink (e_perms e) (e_uid e) (e_gid e) (e_mtime e) (e_fsize e)
                               (dot :: tg) 0 0 (match e_xattrs e with Some l0 => l0 | None => [] end) []).
              destruct (IH l seen (prev ++ [(m, hl)]) Hpre' Hpc Hpn (Hprev' hl) Hl (inv_mono _ _ _ Hinv)) as (hs & Hhs & Hms).
              exists (Some hl :: hs). split.
              { cbn [headers]. rewrite (mk_header_hardlink e tg Hsl). fold hl. now rewrite Hhs. }
              cbn [members_ok]. rewrite Hms, Hskip, andb_true_r. cbn [negb andb].
              unfold member_ok. rewrite Esrc. apply andb_true_iff. split; [cbn; rewrite Hn; apply beq_refl|].
              apply andb_true_iff. split.
              ** unfold type_ok. rewrite <- Hty, Hreg, Hnl. cbn [h_type h_link hl].
                 assert (Lk : linked_ok prev m o (dot :: tg) = true).
                 { unfold linked_ok. apply existsb_exists. exists (m', h'). split; [assumption|].
                   rewrite Hn', Ht', Hs', Hid', Hsrc', L1, L2, L3, beq_refl, !N.eqb_refl. reflexivity. }
                 rewrite Lk. reflexivity.
              ** unfold present_fields_ok. rewrite (kind_ok_link _ o hl eq_refl), andb_true_r.
                 rewrite (common_ok_ext m o h hl); [assumption|cbn; congruence..].
           ++ (* the first member of its inode group *)
              assert (Hkd : h_size h = st_size (o_st o) /\ h_data h = o_data o).
              { unfold kind_fields_ok in Hki. rewrite Hreg in Hki. cbn in Hki.
                apply andb_true_iff in Hki as [Hki _]. apply andb_true_iff in Hki as [Hki _].
                apply andb_true_iff in Hki as [K1 K2]. apply N.eqb_eq in K1. apply beq_true in K2. auto. }
              assert (Hinv' : inv (seen ++ [(st_id (o_st o), e_name e)]) (prev ++ [(m, h)])).
              { intros g n Hin. apply in_app_or in Hin as [Hin|[Hin|[]]].
                - exact (inv_mono seen prev (m, h) Hinv g n Hin).
                - injection Hin as <- <-. split; [now rewrite Hn|].
                  exists m, h, o. split; [apply in_or_app; right; now left|]. destruct Hkd. repeat split; auto. }
              destruct (IH l _ _ Hpre' Hpc Hpn (Hprev' h) Hl Hinv') as (hs & Hhs & Hms).
              exists (Some h :: hs). split; [cbn [headers]; now rewrite Hh, Hhs|].
              cbn [members_ok]. rewrite Hms, Hskip, andb_true_r. cbn [negb andb].
              unfold member_ok. rewrite Esrc, Hname, Hn, beq_refl. cbn [andb].
              unfold type_ok, present_fields_ok. rewrite Hty, N.eqb_refl, Hco, Hki. reflexivity.
        -- destruct (IH l seen (prev ++ [(m, h)]) Hpre' Hpc Hpn (Hprev' h) Hl (inv_mono _ _ _ Hinv)) as (hs & Hhs & Hms).
           exists (Some h :: hs). split; [cbn [headers]; now rewrite Hh, Hhs|].
           cbn [members_ok]. rewrite Hms, Hskip, andb_true_r. cbn [negb andb].
           unfold member_ok. rewrite Esrc, Hname, Hn, beq_refl. cbn [andb].
           unfold type_ok, present_fields_ok. rewrite Hty, N.eqb_refl, Hco, Hki. reflexivity.
    + (* the entry is skipped *)
      apply skip_inv in Hsk as [Hs Hp].
      destruct (IH l seen prev Hpre' Hpc Hpn) as (hs & Hhs & Hms); try assumption.
      { intros m' h' m0 Hin Hm0. apply (Hprev m' h' m0 Hin). now right. }
      exists (None :: hs). split; [cbn [fix_hardlinks headers]; now rewrite Hhs|].
      cbn [members_ok]. rewrite Hms, andb_true_r. unfold may_skip.
      cbn [mc_member] in *. rewrite Hp, Hs. reflexivity.
Qed.

Lemma wf_members_pre c : wf c = true ->
  Forall (member_pre c) (c_members c) /\ pairwise inode_consistent (c_members c) = true.
Proof.
  unfold wf. intros H. apply andb_true_iff in H as [H _]. apply andb_true_iff in H as [H Hpw]. split; [|assumption].
  apply andb_true_iff in H as [H _]. apply andb_true_iff in H as [H Hwin].
  apply andb_true_iff in H as [H _]. apply andb_true_iff in H as [Hm _].
  apply Forall_forall. intros m Hin. rewrite forallb_forall in Hm, Hwin.
  specialize (Hm m Hin). specialize (Hwin m Hin). apply andb_true_iff in Hwin as [W0 W1].
  now repeat split.
Qed.

Theorem C07_holds_proof : forall c, wf c = true -> kf c = 0 -> spec c (model c) = true.
Proof.
  intros c Hwf Hkf. destruct (wf_members_pre c Hwf) as [Hpre Hpc].
  assert (Hpn : pairwise no_link_override (c_members c) = true).
  { unfold kf in Hkf. destruct (pairwise no_link_override (c_members c)); [reflexivity|discriminate]. }
  unfold spec, model, o_run, o_comp, o_ext, o_out. cbn [fst snd].
  apply andb_true_iff. split; [apply andb_true_iff; split; [apply andb_true_iff; split; [apply andb_true_iff; split;
    [apply andb_true_iff; split; [apply andb_true_iff; split|]|]|]|]|].
  - unfold run. destruct (add_all (map mc_member (c_members c))) as [es| | |] eqn:Ea.
    + destruct (run_members_ok c (c_members c) es [] [] Hpre Hpc Hpn) as (hs & Hhs & Hms);
        [intros ? ? ? []|assumption|intros g n []|].
      now rewrite Hhs.
    + now apply add_all_not_skip in Ea.
    + (* refused: some member is not acceptable *)
      apply add_all_err_inv in Ea as (x & Hx & Ex). apply in_map_iff in Hx as (m & <- & Hm).
      apply negb_true_iff. destruct (forallb acceptable (c_members c)) eqn:Ef; [|reflexivity].
      rewrite forallb_forall in Ef. specialize (Ef m Hm).
      rewrite Forall_forall in Hpre. destruct (Hpre m Hm) as [Hw _].
      destruct (accept_ok m (m_now (mc_member m)) Hw Ef) as [[e He]|He]; congruence.
    + apply add_all_div_inv in Ea as (x & Hx & Ex). apply in_map_iff in Hx as (m & <- & Hm).
      rewrite Forall_forall in Hpre. destruct (Hpre m Hm) as [Hw _].
      now apply wf_no_diverge in Ex.
  - clear. induction (c_comp c) as [|x r IH]; [reflexivity|]. cbn. assumption.
  - clear. induction (c_comp c) as [|x r IH]; [reflexivity|]. cbn. now rewrite N.eqb_refl.
  - clear. induction (c_ext c) as [|x r IH]; [reflexivity|]. cbn. assumption.
  - rewrite map_length. apply Nat.eqb_refl.
  - (* the -o file: exactly the bytes written, whatever the path held before *)
    clear. induction (c_out c) as [|x r IH]; [reflexivity|]. cbn [map forallb]. rewrite IH, andb_true_r.
    unfold out_ok, model_out. cbn [oo_whole oo_same oo_len oo_method oo_fresh].
    rewrite out_len_exact, N.eqb_refl. now destruct (oo_method x =? 0).
  - clear. induction (c_out c) as [|x r IH]; [reflexivity|]. cbn [map list_beq]. rewrite IH, andb_true_r.
    unfold out_key_beq, model_out, optN_beq. cbn [oo_method oo_prior oo_fresh].
    rewrite !N.eqb_refl. destruct (oo_prior x); cbn [opt_beq andb]; [now rewrite N.eqb_refl|reflexivity].
Qed.

(* ---------- each option changes exactly its field ---------- *)
Definition set_uid (p : opts) (u : option N) : opts :=
  MkOpts (p_ltype p) (p_name p) (p_hassrc p) (p_target p) (p_mod p) u (p_gid p) (p_dev p) (p_skip p).
Definition set_gid (p : opts) (g : option N) : opts :=
  MkOpts (p_ltype p) (p_name p) (p_hassrc p) (p_target p) (p_mod p) (p_uid p) g (p_dev p) (p_skip p).
Definition set_mod (p : opts) (s : option bytes) : opts :=
  MkOpts (p_ltype p) (p_name p) (p_hassrc p) (p_target p) s (p_uid p) (p_gid p) (p_dev p) (p_skip p).
Definition e_with_uid (e : entry) (u : N) : entry :=
  MkEntry (e_ltype e) (e_name e) (e_target e) (e_fsize e) (e_mtime e) (e_xattrs e) (e_gid e) u (e_perms e)
          (e_devino e) (e_ischar e) (e_major e) (e_minor e) (e_dlen e) (e_data e).
Definition e_with_gid (e : entry) (g : N) : entry :=
  MkEntry (e_ltype e) (e_name e) (e_target e) (e_fsize e) (e_mtime e) (e_xattrs e) g (e_uid e) (e_perms e)
          (e_devino e) (e_ischar e) (e_major e) (e_minor e) (e_dlen e) (e_data e).
Definition e_with_perms (e : entry) (pm : N) : entry :=
  MkEntry (e_ltype e) (e_name e) (e_target e) (e_fsize e) (e_mtime e) (e_xattrs e) (e_gid e) (e_uid e) pm
          (e_devino e) (e_ischar e) (e_major e) (e_minor e) (e_dlen e) (e_data e).

Definition retouch (g u pm : N) (e : entry) : entry :=
  MkEntry (e_ltype e) (e_name e) (e_target e) (e_fsize e) (e_mtime e) (e_xattrs e) g u pm
          (e_devino e) (e_ischar e) (e_major e) (e_minor e) (e_dlen e) (e_data e).
Definition res_map (f : entry -> entry) (r : res entry) : res entry :=
  match r with ROk e => ROk (f e) | RSkip => RSkip | RErr => RErr | RDiverge => RDiverge end.

(* owner and permission bits pass through the final switch untouched *)
Lemma finish_retouch p p' t ob mt xa g u pm g' u' pm' :
  p_name p' = p_name p -> p_target p' = p_target p -> p_hassrc p' = p_hassrc p -> p_dev p' = p_dev p ->
  finish p' t ob mt xa g' u' pm' = res_map (retouch g' u' pm') (finish p t ob mt xa g u pm).
Proof.
  intros H1 H2 H3 H4. unfold finish. rewrite H1, H2, H3, H4. destruct t; try reflexivity.
  - destruct ob; reflexivity.
  - destruct (is_nil (p_target p)); [|reflexivity]. destruct ob; [|reflexivity].
    destruct (fs_readlink (o_link o)); reflexivity.
  - destruct (p_dev p) as [[[? ?] ?]|]; [reflexivity|]. destruct ob; [|reflexivity].
    destruct (_ =? S_IFCHR); [reflexivity|]. destruct (_ =? S_IFBLK); reflexivity.
Qed.

Lemma finish_fields p t ob mt xa g u pm e :
  finish p t ob mt xa g u pm = ROk e -> e_gid e = g /\ e_uid e = u /\ e_perms e = pm /\ e_ltype e = t.
Proof.
  unfold finish. destruct t; try discriminate.
  - intros H. injection H as <-. auto.
  - destruct ob; [|discriminate]. intros H. injection H as <-. auto.
  - destruct (is_nil (p_target p)).
    + destruct ob; [|discriminate]. destruct (fs_readlink (o_link o)); try discriminate.
      intros H. injection H as <-. auto.
    + intros H. injection H as <-. auto.
  - destruct (p_dev p) as [[[? ?] ?]|].
    + intros H. injection H as <-. auto.
    + destruct ob; [|discriminate].
      destruct (_ =? S_IFCHR); [intros H; injection H as <-; auto|].
      destruct (_ =? S_IFBLK); [intros H; injection H as <-; auto|discriminate].
Qed.

Lemma retouch_uid e u : retouch (e_gid e) u (e_perms e) e = e_with_uid e u.
Proof. reflexivity. Qed.
Lemma retouch_gid e g : retouch g (e_uid e) (e_perms e) e = e_with_gid e g.
Proof. reflexivity. Qed.
Lemma retouch_perms e pm : retouch (e_gid e) (e_uid e) pm e = e_with_perms e pm.
Proof. reflexivity. Qed.

(* add_single up to the three pass-through fields *)
Lemma add_single_retouch p p' s now :
  p_ltype p' = p_ltype p -> p_name p' = p_name p -> p_hassrc p' = p_hassrc p -> p_target p' = p_target p ->
  p_dev p' = p_dev p -> p_skip p' = p_skip p -> line_ok p' = line_ok p ->
  forall e0, add_single p s now = ROk e0 ->
  let ex := match s with SPresent _ => true | _ => false end in
  let st := match s with SPresent o => o_st o | _ => zero_stat end in
  add_single p' s now =
    ROk (retouch (gid_of p' ex st) (uid_of p' ex st) (perms_of p' ex (st_mode st) (e_ltype e0)) e0).
Proof.
  intros H1 H2 H3 H4 H5 H6 HL e0. unfold add_single. rewrite HL.
  destruct (negb (line_ok p)); [discriminate|].
  assert (Htd : forall ex a b, type_decision p' ex a b = type_decision p ex a b).
  { intros. unfold type_decision, need_check. now rewrite H1, H3, H4, H5. }
  destruct s as [| |o].
  - rewrite H6. destruct (p_skip p); [discriminate|]. rewrite Htd.
    destruct (type_decision p false LNone false) as [t|]; [|discriminate].
    intros He. cbv zeta.
    rewrite (finish_retouch p p' t None now None (gid_of p false zero_stat) (uid_of p false zero_stat)
               (perms_of p false 0 t)) by assumption.
    rewrite He. cbn [res_map]. destruct (finish_fields _ _ _ _ _ _ _ _ _ He) as (_ & _ & _ & ->). reflexivity.
  - discriminate.
  - destruct (classify _) as [[a b]|]; [|discriminate]. rewrite Htd.
    destruct (type_decision p true a b) as [t|]; [|discriminate].
    destruct (get_xattrs _) as [xa| |]; try discriminate.
    intros He. cbv zeta.
    rewrite (finish_retouch p p' t (Some o) (st_mtime (o_st o)) xa (gid_of p true (o_st o)) (uid_of p true (o_st o))
               (perms_of p true (st_mode (o_st o)) t)) by assumption.
    rewrite He. cbn [res_map]. destruct (finish_fields _ _ _ _ _ _ _ _ _ He) as (_ & _ & _ & ->). reflexivity.
Qed.

Lemma add_single_fields p s now e :
  add_single p s now = ROk e ->
  let ex := match s with SPresent _ => true | _ => false end in
  let st := match s with SPresent o => o_st o | _ => zero_stat end in
  e_gid e = gid_of p ex st /\ e_uid e = uid_of p ex st /\ e_perms e = perms_of p ex (st_mode st) (e_ltype e).
Proof.
  unfold add_single. destruct (negb (line_ok p)); [discriminate|]. destruct s as [| |o].
  - destruct (p_skip p); [discriminate|]. destruct (type_decision p false LNone false) as [t|]; [|discriminate].
    intros He. destruct (finish_fields _ _ _ _ _ _ _ _ _ He) as (-> & -> & -> & ->). auto.
  - discriminate.
  - destruct (classify _) as [[a b]|]; [|discriminate].
    destruct (type_decision p true a b) as [t|]; [|discriminate].
    destruct (get_xattrs _) as [xa| |]; try discriminate.
    intros He. destruct (finish_fields _ _ _ _ _ _ _ _ _ He) as (-> & -> & -> & ->). auto.
Qed.

(* uid= sets the owner and nothing else *)
Theorem override_uid p s now e0 u : u < 2147483648 ->
  add_single (set_uid p None) s now = ROk e0 ->
  add_single (set_uid p (Some u)) s now = ROk (e_with_uid e0 u).
Proof.
  intros Hu He.
  rewrite (add_single_retouch (set_uid p None) (set_uid p (Some u)) s now) with (e0 := e0); try reflexivity; try assumption.
  - destruct (add_single_fields _ _ _ _ He) as (Hg & _ & Hp). cbv zeta in Hg, Hp.
    rewrite <- retouch_uid. f_equal. f_equal; [symmetry; exact Hg|symmetry; exact Hp].
  - unfold line_ok, opt_masks. cbn. apply N.ltb_lt in Hu. now rewrite Hu.
Qed.

(* gid= sets the group and nothing else *)
Theorem override_gid p s now e0 g : g < 2147483648 ->
  add_single (set_gid p None) s now = ROk e0 ->
  add_single (set_gid p (Some g)) s now = ROk (e_with_gid e0 g).
Proof.
  intros Hu He.
  rewrite (add_single_retouch (set_gid p None) (set_gid p (Some g)) s now) with (e0 := e0); try reflexivity; try assumption.
  - destruct (add_single_fields _ _ _ _ He) as (_ & Hg & Hp). cbv zeta in Hg, Hp.
    rewrite <- retouch_gid. f_equal. f_equal; [symmetry; exact Hg|symmetry; exact Hp].
  - unfold line_ok, opt_masks. cbn. apply N.ltb_lt in Hu. rewrite Hu. now rewrite andb_true_r.
Qed.

(* mod= sets the permission bits -- to the octal value, or to what chmod makes of the bits
   the entry would have had -- and nothing else *)
Theorem override_mod p s now e0 ms :
  modspec_ok ms = true ->
  add_single (set_mod p None) s now = ROk e0 ->
  exists pm, add_single (set_mod p (render_mod ms)) s now = ROk (e_with_perms e0 pm)
    /\ N.land pm 4095 = apply_mod ms (N.land (e_perms e0) 4095).
Proof.
  intros Hok He.
  assert (Hr : opt_bytes_beq (render_mod ms) (p_mod (set_mod p (render_mod ms))) = true).
  { cbn. destruct (render_mod ms); cbn; [apply beq_refl|reflexivity]. }
  destruct (mod_facts ms (set_mod p (render_mod ms)) Hok Hr) as [Hm Hp].
  destruct (add_single_fields _ _ _ _ He) as (Hg & Hu & Hpm). cbv zeta in Hg, Hu, Hpm.
  eexists. split.
  - rewrite (add_single_retouch (set_mod p None) (set_mod p (render_mod ms)) s now) with (e0 := e0);
      try reflexivity; try assumption.
    + rewrite <- retouch_perms. f_equal. f_equal; symmetry; assumption.
    + unfold line_ok. cbn [p_uid p_gid p_dev set_mod p_mod]. unfold opt_masks at 2. cbn [p_mod set_mod has negb andb].
      destruct (has (render_mod ms)) eqn:E; [|reflexivity]. cbn in Hm. now rewrite (Hm E).
  - rewrite Hp. f_equal. rewrite Hpm. unfold perms_of. cbn [p_mod set_mod]. 
    destruct s as [| |o]; reflexivity.
Qed.

Definition set_dev (p : opts) (d : option (bool * N * N)) : opts :=
  MkOpts (p_ltype p) (p_name p) (p_hassrc p) (p_target p) (p_mod p) (p_uid p) (p_gid p) d (p_skip p).
Definition set_targ (p : opts) (t : bytes) : opts :=
  MkOpts (p_ltype p) (p_name p) (p_hassrc p) t (p_mod p) (p_uid p) (p_gid p) (p_dev p) (p_skip p).
Definition set_src (p : opts) (b : bool) : opts :=
  MkOpts (p_ltype p) (p_name p) b (p_target p) (p_mod p) (p_uid p) (p_gid p) (p_dev p) (p_skip p).
Definition e_with_dev (e : entry) (isc : bool) (ma mi : N) : entry :=
  MkEntry (e_ltype e) (e_name e) (e_target e) (e_fsize e) (e_mtime e) (e_xattrs e) (e_gid e) (e_uid e) (e_perms e)
          (e_devino e) isc ma mi (e_dlen e) (e_data e).
Definition e_with_target (e : entry) (t : bytes) : entry :=
  MkEntry (e_ltype e) (e_name e) t (e_fsize e) (e_mtime e) (e_xattrs e) (e_gid e) (e_uid e) (e_perms e)
          (e_devino e) (e_ischar e) (e_major e) (e_minor e) (e_dlen e) (e_data e).
Definition e_with_devino (e : entry) (d : option N) : entry :=
  MkEntry (e_ltype e) (e_name e) (e_target e) (e_fsize e) (e_mtime e) (e_xattrs e) (e_gid e) (e_uid e) (e_perms e)
          d (e_ischar e) (e_major e) (e_minor e) (e_dlen e) (e_data e).

(* dev= on a node entry replaces the device type and numbers read from the node, nothing else *)
Theorem override_dev p o now e0 isc ma mi :
  p_ltype p = LDev -> p_hassrc p = false -> ma < 4294967296 -> mi < 4294967296 ->
  add_single (set_dev p None) (SPresent o) now = ROk e0 ->
  add_single (set_dev p (Some (isc, ma, mi))) (SPresent o) now = ROk (e_with_dev e0 isc ma mi).
Proof.
  intros Hl Hs Hma Hmi. unfold add_single.
  assert (L : line_ok (set_dev p (Some (isc, ma, mi))) = line_ok (set_dev p None)).
  { unfold line_ok, opt_masks, dev_ok. cbn. apply N.ltb_lt in Hma, Hmi. now rewrite Hma, Hmi. }
  rewrite L. destruct (negb (line_ok (set_dev p None))); [discriminate|].
  destruct (classify _) as [[a b]|]; [|discriminate].
  unfold type_decision, need_check. cbn [p_ltype p_hassrc p_dev set_dev has negb orb]. rewrite Hl, Hs. cbn [orb].
  destruct b; [discriminate|]. destruct (true && negb (ltype_eqb LDev a)); [discriminate|].
  destruct (get_xattrs _) as [xa| |]; try discriminate.
  unfold finish. cbn [p_dev set_dev p_name p_target].
  destruct (_ =? S_IFCHR); [intros H; injection H as <-; reflexivity|].
  destruct (_ =? S_IFBLK); [intros H; injection H as <-; reflexivity|discriminate].
Qed.

(* targ= on a symlink entry replaces the target read from the link, nothing else *)
Theorem override_targ p o now e0 tg :
  p_ltype p = LSym -> tg <> [] ->
  add_single (set_targ p []) (SPresent o) now = ROk e0 ->
  add_single (set_targ p tg) (SPresent o) now = ROk (e_with_target e0 tg).
Proof.
  intros Hl Ht. unfold add_single.
  change (line_ok (set_targ p tg)) with (line_ok (set_targ p [])).
  destruct (negb (line_ok (set_targ p []))); [discriminate|].
  destruct (classify _) as [[a b]|]; [|discriminate].
  unfold type_decision, need_check. cbn [p_ltype p_target set_targ is_nil]. rewrite Hl.
  destruct tg as [|c tg]; [congruence|]. cbn [is_nil].
  destruct b; [discriminate|]. destruct (true && negb (ltype_eqb LSym a)); [discriminate|].
  destruct (get_xattrs _) as [xa| |]; try discriminate.
  unfold finish. cbn [p_target set_targ is_nil p_name].
  destruct (fs_readlink _); try discriminate. intros H. injection H as <-. reflexivity.
Qed.

(* src= makes the entry a copy of another object: every field is taken from the object lstat
   found at the source path exactly as it would be from the named path; only the hard-link
   bookkeeping (which is by name) is switched off *)
Theorem override_src p s now e0 :
  p_ltype p = LFile \/ p_ltype p = LDir \/ (p_ltype p = LDev /\ p_dev p = None) ->
  add_single (set_src p false) s now = ROk e0 ->
  add_single (set_src p true) s now = ROk (e_with_devino e0 None).
Proof.
  intros Hl. unfold add_single.
  change (line_ok (set_src p true)) with (line_ok (set_src p false)).
  destruct (negb (line_ok (set_src p false))); [discriminate|].
  destruct s as [| |o].
  - cbn [p_skip set_src]. destruct (p_skip p); [discriminate|].
    unfold type_decision, need_check. cbn [p_ltype p_hassrc p_dev set_src].
    destruct Hl as [Hl|[Hl|[Hl Hd]]]; rewrite Hl.
    + cbn. discriminate.
    + cbn. intros H. injection H as <-. reflexivity.
    + rewrite Hd. cbn. unfold finish. cbn [p_dev set_src]. rewrite Hd. discriminate.
  - discriminate.
  - destruct (classify _) as [[a b]|]; [|discriminate].
    unfold type_decision, need_check. cbn [p_ltype p_hassrc p_dev set_src].
    destruct Hl as [Hl|[Hl|[Hl Hd]]]; rewrite Hl; try rewrite Hd; cbn [negb orb has].
    + destruct b; [discriminate|]. destruct (true && negb (ltype_eqb LFile a)); [discriminate|].
      destruct (get_xattrs _) as [xa| |]; try discriminate.
      unfold finish. cbn. intros H. injection H as <-. reflexivity.
    + destruct (get_xattrs _) as [xa| |]; try discriminate.
      unfold finish. cbn. intros H. injection H as <-. reflexivity.
    + destruct b; [discriminate|]. destruct (true && negb (ltype_eqb LDev a)); [discriminate|].
      destruct (get_xattrs _) as [xa| |]; try discriminate.
      unfold finish. cbn [p_dev set_src p_name p_target]. rewrite Hd.
      destruct (_ =? S_IFCHR); [intros H; injection H as <-; reflexivity|].
      destruct (_ =? S_IFBLK); [intros H; injection H as <-; reflexivity|discriminate].
Qed.

(* ---------- members synthesised for absent paths ---------- *)
Theorem absent_defaults p now e :
  add_single p SAbsent now = ROk e ->
  e_uid e = optN (p_uid p) 0 /\ e_gid e = optN (p_gid p) 0 /\ e_mtime e = now /\ e_xattrs e = None
  /\ e_fsize e = 0 /\ e_devino e = None
  /\ (p_mod p = None ->
      e_perms e = match e_ltype e with LDir => 493 | LSym => 511 | _ => 420 end
      /\ usable_outside 0 (match e_ltype e with LDir => TypeDir | LSym => TypeSymlink | _ => TypeChar end)
                        (e_perms e) = true).
Proof.
  unfold add_single. destruct (negb (line_ok p)); [discriminate|].
  destruct (p_skip p); [discriminate|].
  destruct (type_decision p false LNone false) as [t|]; [|discriminate].
  assert (Hu : uid_of p false zero_stat = optN (p_uid p) 0) by (unfold uid_of, optN; now destruct (p_uid p)).
  assert (Hg : gid_of p false zero_stat = optN (p_gid p) 0) by (unfold gid_of, optN; now destruct (p_gid p)).
  assert (Hp : p_mod p = None -> perms_of p false 0 t = default_perms t) by (intros H; unfold perms_of; now rewrite H).
  unfold finish. destruct t; try discriminate.
  - intros H. injection H as <-. cbn. rewrite Hu, Hg. repeat split; auto. all: rewrite Hp by assumption; reflexivity.
  - destruct (is_nil (p_target p)); [discriminate|]. intros H. injection H as <-. cbn. rewrite Hu, Hg.
    repeat split; auto. all: rewrite Hp by assumption; reflexivity.
  - destruct (p_dev p) as [[[? ?] ?]|]; [|discriminate]. intros H. injection H as <-. cbn. rewrite Hu, Hg.
    repeat split; auto. all: rewrite Hp by assumption; reflexivity.
Qed.

(* ---------- the buffer loops never run out of fuel, whatever the attribute list ---------- *)
Lemma assoc_vsum k xs v : assoc k xs = Some v -> (length v <= vsum xs)%nat.
Proof.
  induction xs as [|[n w] r IH]; [discriminate|]. cbn [assoc].
  destruct (beq n k).
  - intros H. injection H as <-. cbn. lia.
  - intros H. apply IH in H. cbn. unfold vsum in H. cbn in H. lia.
Qed.

Lemma values_loop_total xs f : (vsum xs <= f)%nat -> forall names cap, 0 < cap ->
  exists l, values_loop (S f) xs names cap = LDone l.
Proof.
  intros Hf. induction names as [|n r IH]; intros cap Hc; [now exists []|].
  cbn [values_loop]. destruct (is_nil n); [now apply IH|].
  rewrite get_loop_S. unfold sys_lgetxattr. destruct (assoc n xs) as [v|] eqn:Ea.
  - destruct (get_loop_done xs n v Ea f cap Hc) as (cap' & Hg & Hc').
    { pose proof (assoc_vsum _ _ _ Ea). pose proof (pow2_gt (N.of_nat f)). unfold blen. nia. }
    rewrite get_loop_S in Hg. unfold sys_lgetxattr in Hg. rewrite Ea in Hg. rewrite Hg.
    destruct (IH cap' Hc') as (l & ->). now eexists.
  - apply IH. assumption.
Qed.

Theorem get_xattrs_total xs : exists r, get_xattrs xs = LDone r.
Proof.
  unfold get_xattrs, xattr_fuel. rewrite list_loop_done.
  - fold (vsum xs). destruct (values_loop_total xs (length (name_buf xs) + vsum xs) ltac:(lia)
                                (split NUL (name_buf xs)) 1024 ltac:(lia)) as (l & ->). now eexists.
  - lia.
  - fold (vsum xs). unfold blen. pose proof (pow2_gt (N.of_nat (length (name_buf xs) + vsum xs))). lia.
Qed.

Theorem add_single_terminates p s now : add_single p s now <> RDiverge.
Proof.
  unfold add_single. destruct (negb (line_ok p)); [discriminate|]. destruct s as [| |o].
  - destruct (p_skip p); [discriminate|]. destruct (type_decision p false LNone false) as [t|]; [|discriminate].
    unfold finish. destruct t; try discriminate.
    + destruct (is_nil _); discriminate.
    + destruct (p_dev _) as [[[? ?] ?]|]; discriminate.
  - discriminate.
  - destruct (classify _) as [[a b]|]; [|discriminate]. destruct (type_decision p true a b) as [t|]; [|discriminate].
    destruct (get_xattrs_total (o_xattrs o)) as (r & ->).
    unfold finish. rewrite readlink_complete. destruct t; try discriminate.
    + destruct (is_nil _); discriminate.
    + destruct (p_dev _) as [[[? ?] ?]|]; [discriminate|].
      destruct (_ =? S_IFCHR); [discriminate|]. destruct (_ =? S_IFBLK); discriminate.
Qed.

Theorem run_terminates ms : run ms <> RDiverged.
Proof.
  unfold run. destruct (add_all ms) eqn:E; try discriminate.
  - destruct (headers _); discriminate.
  - apply add_all_div_inv in E as (m & _ & Hm). now apply add_single_terminates in Hm.
Qed.

(* ---------- header_faithful, spelled out field by field ---------- *)
Theorem header_faithful m o now e :
  member_wf m = true -> m_src (mc_member m) = SPresent o ->
  p_mod (m_opts (mc_member m)) = None -> p_uid (m_opts (mc_member m)) = None ->
  p_gid (m_opts (mc_member m)) = None -> p_dev (m_opts (mc_member m)) = None ->
  p_target (m_opts (mc_member m)) = [] ->
  add_single (m_opts (mc_member m)) (SPresent o) now = ROk e ->
  exists h, mk_header e = TOk h
    /\ h_name h = dot :: p_name (m_opts (mc_member m))
    /\ h_type h = obj_type (st_mode (o_st o))
    /\ N.land (h_mode h) 4095 = N.land (st_mode (o_st o)) 4095
    /\ h_uid h = st_uid (o_st o) /\ h_gid h = st_gid (o_st o)
    /\ h_mtime h = st_mtime (o_st o)
    /\ h_xattrs h = o_xattrs o
    /\ (h_type h = TypeReg -> h_size h = st_size (o_st o) /\ h_data h = o_data o)
    /\ (h_type h = TypeSymlink -> h_link h = o_link o)
    /\ (h_type h = TypeChar \/ h_type h = TypeBlock ->
         h_major h = ref_major (st_rdev (o_st o)) /\ h_minor h = ref_minor (st_rdev (o_st o))).
Proof.
  intros Hwf Hsrc Hmod Hu Hg Hd Ht He.
  destruct (present_member m o now e Hwf Hsrc He) as (h & Hh & Hn & Hty & Hco & Hki & _ & _).
  exists h. split; [assumption|].
  destruct (mk_header_fields _ _ Hh) as (Hname & _). rewrite Hname, Hn. split; [reflexivity|].
  unfold expected_type in Hty. rewrite Hd, Ht in Hty. cbn [is_nil] in Hty. split; [assumption|].
  assert (Hms : mc_mod m = MNone).
  { unfold member_wf in Hwf. apply andb_true_iff in Hwf as [W _]. apply andb_true_iff in W as [W _].
    apply andb_true_iff in W as [W _]. apply andb_true_iff in W as [W _]. apply andb_true_iff in W as [W _].
    apply andb_true_iff in W as [W _]. apply andb_true_iff in W as [_ W].
    apply opt_beq_bytes_true in W. rewrite Hmod in W. destruct (mc_mod m); [reflexivity|discriminate|discriminate]. }
  unfold common_fields_ok in Hco. rewrite Hms, Hu, Hg in Hco. cbn [apply_mod optN] in Hco.
  apply andb_true_iff in Hco as [Hco Hx]. apply andb_true_iff in Hco as [Hco Hmt].
  apply andb_true_iff in Hco as [Hco Hgid]. apply andb_true_iff in Hco as [Hmode Huid].
  apply N.eqb_eq in Hmode, Huid, Hgid. apply Z.eqb_eq in Hmt.
  apply (list_beq_true xattr_beq xattr_beq_true) in Hx.
  repeat (split; [assumption|]).
  unfold kind_fields_ok in Hki. rewrite Hd, Ht in Hki. cbn [is_nil] in Hki.
  apply andb_true_iff in Hki as [Hki Hdv]. apply andb_true_iff in Hki as [Hsz Hlk].
  split; [|split].
  - intros E. rewrite E in Hsz. cbn in Hsz. apply andb_true_iff in Hsz as [S1 S2].
    apply N.eqb_eq in S1. apply beq_true in S2. auto.
  - intros E. rewrite E in Hlk. cbn in Hlk. now apply beq_true in Hlk.
  - intros E. assert (B : (h_type h =? TypeChar) || (h_type h =? TypeBlock) = true)
      by (destruct E as [-> | ->]; reflexivity).
    rewrite B in Hdv. apply andb_true_iff in Hdv as [D1 D2]. apply N.eqb_eq in D1, D2. auto.
Qed.

(* ---------- a non-trivial case inside the domain ---------- *)
Definition example_obj_blk : object :=
  MkObj (MkStat 25008 0 6 1700000000%Z 0 (makedev 8 300) 1 1) [] [(bs "trusted.k", bs "v")] 0 [].
Definition example_obj_lnk : object :=
  MkObj (MkStat 41471 1000 1000 (-5)%Z 300 0 1 2) (repeat (nb 120) 300) [] 0 [].
Definition example_case : case :=
  MkCase
    [ MkM (MkMember (MkOpts LDir (bs "/opt/new") false [] (Some (bs "g+w,o-x")) None (Some 7) None false) SAbsent 100%Z)
          (MSym [(2, true, 1); (3, false, 2)]);
      MkM (MkMember (MkOpts LNone (bs "/opt/t/blk") false [] None None None None true) (SPresent example_obj_blk) 100%Z) MNone;
      MkM (MkMember (MkOpts LSym (bs "/opt/t/lnk") false [] None None None None false) (SPresent example_obj_lnk) 100%Z) MNone ]
    100%Z 101%Z [(1, true)] [true]
    [MkOut 0 (Some 3048448) 47104 47104 true true; MkOut 3 (Some 9000) 5120 5120 true true; MkOut 1 None 700 700 true true]
    RFailed.
Example example_wf : wf example_case = true /\ kf example_case = 0
  /\ (exists hs, o_run (model example_case) = ROutput hs /\ length hs = 3%nat).
Proof. vm_compute. repeat split. eexists. split; reflexivity. Qed.

Lemma dev_decode d : dev_major d = ref_major d /\ dev_minor d = ref_minor d.
Proof. split; [exact (dev_major_arith d)|exact (dev_minor_arith d)]. Qed.

(* ---------- known finding 1: an override on one name of a hard-linked inode ---------- *)
Definition refute1_obj : object := MkObj (MkStat 33197 0 0 5%Z 3 0 2 1) [] [] 3 (bs "abc").
Definition refute1_case : case :=
  MkCase
    [ MkM (MkMember (MkOpts LFile (bs "/a") false [] (Some (bs "o-r")) None None None false) (SPresent refute1_obj) 0%Z)
          (MSym [(3, false, 0)]);
      MkM (MkMember (MkOpts LNone (bs "/b") false [] None None None None true) (SPresent refute1_obj) 0%Z) MNone ]
    0%Z 0%Z [] [] [] RFailed.
Lemma refuted_1 : exists c, wf c = true /\ kf c = 1 /\ spec c (model c) = false.
Proof. exists refute1_case. vm_compute. auto. Qed.

(* ---------- the file named by -o (Model/OutFile.v) ---------- *)
Lemma output_compress_same : forall (filter unfilter : N -> bytes -> bytes),
  (forall m b, unfilter m (filter m b) = b) ->
  forall (p : prior) m archive, m <> 0 ->
    unfilter m (out_file p [write_tar_file filter m archive]) = out_file None [write_tar_file filter 0 archive].
Proof.
  intros filter unfilter Hlaw p m archive Hm. rewrite !out_file_exact. cbn [concat]. rewrite !app_nil_r.
  exact (compress_same filter unfilter Hlaw m archive Hm).
Qed.

Lemma output_needs_trunc : forall (old : bytes) (chunks : list bytes),
  write_out OCreateKeep (Some old) chunks = concat chunks ++ skipn (length (concat chunks)) old
  /\ (write_out OCreateKeep (Some old) chunks = concat chunks <-> (length old <= length (concat chunks))%nat).
Proof. intros old chunks. split; [exact (keep_stale_tail old chunks)|exact (keep_exact_iff old chunks)]. Qed.

Lemma output_len : forall (p : prior) (chunks : list bytes),
  N.of_nat (length (out_file p chunks)) = out_len (plen p) (N.of_nat (length (concat chunks)))
  /\ out_len (plen p) (N.of_nat (length (concat chunks))) = N.of_nat (length (concat chunks)).
Proof. intros p chunks. split; [exact (out_len_spec p chunks)|exact (out_len_exact _ _)]. Qed.
