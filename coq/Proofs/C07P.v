(* Proofs of the C07 theorems: what the model computes satisfies the specification predicate. *)
From LC Require Import Lib.Bytes Lib.Lex Lib.Fields Gen.Consts Model.TarMeta Proofs.TarMetaP Cases.C07.
From Coq Require Import ZArith Lia Bool.
Import C07.
Open Scope N_scope.

(* ---------- mod=: the and/or masks computed from the rendered clauses act as chmod does ---------- *)
Definition gm (w : N) : N := match w with 1 => 2496 | 2 => 1080 | 3 => 7 | _ => 4095 end.
Definition reset (A Om : N) : mst := MkMst 0%Z 0 0 A Om false.

Lemma small_cases (w : N) : w <= 4 -> w = 0 \/ w = 1 \/ w = 2 \/ w = 3 \/ w = 4.
Proof. lia. Qed.

Lemma clause_mask_model w a p : clause_ok (w, a, p) = true -> N.land (perm_mask p) (gm w) = clause_mask (w, a, p).
Proof.
  unfold clause_ok. intros H. apply andb_true_iff in H as [H H3]. apply andb_true_iff in H as [H1 H2].
  apply N.leb_le in H1, H2.
  destruct (small_cases w H1) as [->|[->|[->|[->| ->]]]];
  destruct (small_cases p H2) as [->|[->|[->|[->| ->]]]]; try reflexivity; discriminate.
Qed.

Lemma clause_fold w a p A Om : w <= 4 -> p <= 4 ->
  fold_left mod_step (render_clause (w, a, p)) (reset A Om) =
  let sm := N.land (perm_mask p) (gm w) in
  if a then MkMst 1%Z (gm w) sm A (N.lor Om sm) false
  else MkMst (-1)%Z (gm w) sm (N.land A (N.lxor PermBits sm)) (N.ldiff Om sm) false.
Proof.
  intros H1 H2.
  destruct (small_cases w H1) as [->|[->|[->|[->| ->]]]];
  destruct (small_cases p H2) as [->|[->|[->|[->| ->]]]]; destruct a; reflexivity.
Qed.

Definition clause_step (st : N * N) (cl : N * bool * N) : N * N :=
  let '(A, Om) := st in
  let sm := clause_mask cl in
  if snd (fst cl) then (A, N.lor Om sm) else (N.land A (N.lxor PermBits sm), N.ldiff Om sm).

Lemma comma_step s : ms_err s = false -> mod_step s c_comma = reset (ms_and s) (ms_or s).
Proof. intros H. unfold mod_step. rewrite H. reflexivity. Qed.

Lemma clauses_fold cs : forallb clause_ok cs = true -> cs <> [] -> forall A Om,
  let r := fold_left mod_step (join (nb 44) (map render_clause cs)) (reset A Om) in
  ms_err r = false /\ (ms_and r, ms_or r) = fold_left clause_step cs (A, Om).
Proof.
  induction cs as [|[[w a] p] cs IH]; intros Hok Hne A Om; [congruence|].
  cbn [forallb] in Hok. apply andb_true_iff in Hok as [Hc Hok].
  pose proof Hc as Hc'. unfold clause_ok in Hc'.
  apply andb_true_iff in Hc' as [Hc' _]. apply andb_true_iff in Hc' as [H1 H2]. apply N.leb_le in H1, H2.
  pose proof (clause_mask_model w a p Hc) as Hm.
  destruct cs as [|cl2 cs'].
  - cbn [map join]. cbv zeta. rewrite clause_fold by assumption. cbv zeta. rewrite Hm.
    cbn [fold_left clause_step fst snd]. destruct a; cbn; auto.
  - change (join (nb 44) (map render_clause ((w, a, p) :: cl2 :: cs')))
      with ((render_clause (w, a, p) ++ nb 44 :: join (nb 44) (map render_clause (cl2 :: cs')))%list).
    cbv zeta. rewrite fold_left_app. rewrite clause_fold by assumption. cbv zeta. rewrite Hm.
    cbn [fold_left]. change (nb 44) with c_comma at 1.
    rewrite comma_step by (destruct a; reflexivity).
    specialize (IH Hok ltac:(discriminate)).
    destruct a; cbn [ms_and ms_or]; cbn [clause_step fst snd];
      match goal with |- context [reset ?X ?Y] => specialize (IH X Y) end; cbv zeta in IH; exact IH.
Qed.

Definition sub12 (x : N) : Prop := N.land x 4095 = x.
Lemma sub12_bits x : sub12 x -> forall i, N.testbit x i = true -> N.testbit 4095 i = true.
Proof. intros H i Hi. rewrite <- H, N.land_spec in Hi. now apply andb_true_iff in Hi. Qed.
Lemma sub12_land_l x y : sub12 x -> sub12 (N.land x y).
Proof.
  unfold sub12. intros H. rewrite <- N.land_assoc, (N.land_comm y), N.land_assoc, H. reflexivity.
Qed.
Lemma sub12_land_r x y : sub12 y -> sub12 (N.land x y).
Proof. rewrite N.land_comm. apply sub12_land_l. Qed.
Lemma sub12_lor x y : sub12 x -> sub12 y -> sub12 (N.lor x y).
Proof. unfold sub12. intros Hx Hy. now rewrite N.land_lor_distr_l, Hx, Hy. Qed.
Lemma sub12_ldiff x y : sub12 x -> sub12 (N.ldiff x y).
Proof.
  unfold sub12. intros H. apply N.bits_inj. intros i.
  rewrite N.land_spec, !N.ldiff_spec.
  destruct (N.testbit x i) eqn:E; [|reflexivity]. rewrite (sub12_bits x H i E). now rewrite andb_true_r.
Qed.

Lemma remove_sem p A Om m : sub12 A ->
  N.lor (N.land p (N.land A (N.lxor PermBits m))) (N.ldiff Om m) = N.ldiff (N.lor (N.land p A) Om) m.
Proof.
  intros HA. apply N.bits_inj. intros i.
  rewrite !N.lor_spec, !N.land_spec, !N.ldiff_spec, N.lor_spec, N.land_spec, N.lxor_spec.
  destruct (N.testbit A i) eqn:EA.
  - change PermBits with 4095. rewrite (sub12_bits A HA i EA).
    destruct (N.testbit p i), (N.testbit m i), (N.testbit Om i); reflexivity.
  - destruct (N.testbit p i), (N.testbit m i), (N.testbit Om i), (N.testbit PermBits i); reflexivity.
Qed.

Lemma clause_mask_sub12 cl : clause_ok cl = true -> sub12 (clause_mask cl).
Proof.
  destruct cl as [[w a] p]. unfold clause_ok. intros H.
  apply andb_true_iff in H as [H _]. apply andb_true_iff in H as [_ H2]. apply N.leb_le in H2.
  unfold clause_mask. apply sub12_land_l.
  destruct (small_cases p H2) as [->|[->|[->|[->| ->]]]]; reflexivity.
Qed.

Lemma clauses_sem cs : forallb clause_ok cs = true -> forall A Om, sub12 A -> sub12 Om ->
  sub12 (fst (fold_left clause_step cs (A, Om))) /\ sub12 (snd (fold_left clause_step cs (A, Om))) /\
  forall p, N.lor (N.land p (fst (fold_left clause_step cs (A, Om)))) (snd (fold_left clause_step cs (A, Om)))
            = chmod_ref cs (N.lor (N.land p A) Om).
Proof.
  induction cs as [|cl cs IH]; intros Hok A Om HA HO.
  - cbn. auto.
  - cbn [forallb] in Hok. apply andb_true_iff in Hok as [Hc Hok].
    pose proof (clause_mask_sub12 cl Hc) as Hm.
    cbn [fold_left]. unfold chmod_ref. cbn [fold_left]. fold (chmod_ref cs).
    assert (Es : clause_step (A, Om) cl = if snd (fst cl) then (A, N.lor Om (clause_mask cl))
                 else (N.land A (N.lxor PermBits (clause_mask cl)), N.ldiff Om (clause_mask cl))) by reflexivity.
    rewrite Es. clear Es. destruct (snd (fst cl)).
    + destruct (IH Hok A (N.lor Om (clause_mask cl)) HA (sub12_lor _ _ HO Hm)) as (I1 & I2 & I3).
      split; [exact I1|]. split; [exact I2|]. intros p. rewrite I3. now rewrite N.lor_assoc.
    + destruct (IH Hok (N.land A (N.lxor PermBits (clause_mask cl))) (N.ldiff Om (clause_mask cl))
                  (sub12_land_l _ _ HA) (sub12_ldiff _ _ HO)) as (I1 & I2 & I3).
      split; [exact I1|]. split; [exact I2|]. intros p. rewrite I3. now rewrite remove_sem.
Qed.

Lemma first_not_octal cs : cs <> [] -> forallb clause_ok cs = true ->
  forallb is_octal_digit (join (nb 44) (map render_clause cs)) = false.
Proof.
  destruct cs as [|[[w a] p] cs]; [congruence|]. intros _ Hok.
  cbn [forallb] in Hok. apply andb_true_iff in Hok as [Hc _].
  unfold clause_ok in Hc. apply andb_true_iff in Hc as [Hc _]. apply andb_true_iff in Hc as [H1 _].
  apply N.leb_le in H1.
  assert (E : exists c r, (join (nb 44) (map render_clause ((w, a, p) :: cs))) = c :: r /\ is_octal_digit c = false).
  { destruct cs as [|cl2 cs'].
    - cbn [map join]. destruct (small_cases w H1) as [->|[->|[->|[->| ->]]]]; destruct a; cbn; eauto.
    - change (join (nb 44) (map render_clause ((w, a, p) :: cl2 :: cs')))
        with ((render_clause (w, a, p) ++ nb 44 :: join (nb 44) (map render_clause (cl2 :: cs')))%list).
      destruct (small_cases w H1) as [->|[->|[->|[->| ->]]]]; destruct a; cbn; eauto. }
  destruct E as (c & r & -> & Hc'). cbn [forallb]. now rewrite Hc'.
Qed.

Theorem parse_mod_chmod cs : cs <> [] -> forallb clause_ok cs = true ->
  exists A Om, parse_mod (join (nb 44) (map render_clause cs)) = Some (A, Om)
    /\ sub12 A /\ sub12 Om /\ forall p, N.lor (N.land p A) Om = chmod_ref cs (N.land p 4095).
Proof.
  intros Hne Hok. unfold parse_mod. rewrite first_not_octal by assumption.
  destruct (clauses_fold cs Hok Hne PermBits 0) as [He Hr]. cbv zeta in He, Hr.
  change (MkMst 0%Z 0 0 PermBits 0 false) with (reset PermBits 0). rewrite He.
  destruct (clauses_sem cs Hok PermBits 0 eq_refl eq_refl) as (I1 & I2 & I3).
  rewrite <- Hr in I1, I2, I3. cbn [fst snd] in I1, I2, I3.
  eexists _, _. split; [reflexivity|]. split; [exact I1|]. split; [exact I2|].
  intros p. rewrite I3. now rewrite N.lor_0_r.
Qed.

(* ---------- octal mod= ---------- *)
Lemma octal_value_ref d : octal_value d = octal_ref d.
Proof.
  unfold octal_value, octal_ref. generalize 0. induction d as [|c d IH]; intros a; cbn [fold_left]; [reflexivity|].
  rewrite (N.mul_comm a 8). apply IH.
Qed.

Lemma le_sub12 x : x <= 4095 -> sub12 x.
Proof.
  intros H. unfold sub12. change 4095 with (N.ones 12). rewrite N.land_ones. apply N.mod_small.
  change (2 ^ 12) with 4096. lia.
Qed.

(* ---------- lstat type bits: classify (model) against obj_type (specification) ---------- *)
Lemma ifmt_arith mode : N.land mode S_IFMT = ((mode / 4096) mod 16) * 4096.
Proof. change S_IFMT with (N.shiftl (N.ones 4) 12). now rewrite land_mask. Qed.

Definition cls (k : N) : option (ltype * bool) :=
  let t := k * 4096 in
  if t =? S_IFSOCK then Some (LNone, true)
  else if t =? S_IFLNK then Some (LSym, false)
  else if t =? S_IFREG then Some (LFile, false)
  else if (t =? S_IFBLK) || (t =? S_IFCHR) then Some (LDev, false)
  else if t =? S_IFDIR then Some (LDir, false)
  else if t =? S_IFIFO then Some (LNone, true)
  else None.
Definition oty (k : N) : N :=
  match k with
  | 8 => TypeReg | 4 => TypeDir | 10 => TypeSymlink | 2 => TypeChar | 6 => TypeBlock | _ => 0
  end.
Lemma classify_k mode : classify mode = cls ((mode / 4096) mod 16).
Proof. unfold classify, cls. now rewrite ifmt_arith. Qed.
Lemma obj_type_k mode : obj_type mode = oty ((mode / 4096) mod 16).
Proof. reflexivity. Qed.

(* the table, one row per value of the four type bits *)
Definition tyrow (k : N) : bool :=
  match cls k with
  | Some (LFile, false) => oty k =? TypeReg
  | Some (LDir, false) => oty k =? TypeDir
  | Some (LSym, false) => oty k =? TypeSymlink
  | Some (LDev, false) => ((oty k =? TypeChar) && (k * 4096 =? S_IFCHR)) || ((oty k =? TypeBlock) && (k * 4096 =? S_IFBLK))
  | Some (LNone, true) => oty k =? 0
  | Some _ => false
  | None => oty k =? 0
  end.
Lemma tyrow_all k : k < 16 -> tyrow k = true.
Proof.
  intros H.
  assert (E : k = 0 \/ k = 1 \/ k = 2 \/ k = 3 \/ k = 4 \/ k = 5 \/ k = 6 \/ k = 7 \/ k = 8 \/ k = 9 \/ k = 10
              \/ k = 11 \/ k = 12 \/ k = 13 \/ k = 14 \/ k = 15) by lia.
  repeat (destruct E as [->|E]; [reflexivity|]). subst. reflexivity.
Qed.
Lemma tyrow_mode mode : tyrow ((mode / 4096) mod 16) = true.
Proof. apply tyrow_all. apply N.mod_lt. discriminate. Qed.

(* ---------- boolean well-formedness to propositions ---------- *)
Lemma nodupb_NoDup l : nodupb l = true -> NoDup l.
Proof.
  induction l as [|a r IH]; intros H; [constructor|].
  cbn [nodupb] in H. apply andb_true_iff in H as [H1 H2]. constructor; [|now apply IH].
  intros Hin. apply negb_true_iff in H1.
  assert (existsb (beq a) r = true) by (apply existsb_exists; exists a; split; [assumption|apply beq_refl]).
  congruence.
Qed.

Lemma xattrs_wf_of_bool xs :
  nodupb (map fst xs) = true ->
  forallb (fun x : xattr => negb (is_nil (fst x)) && no_nul (fst x)) xs = true -> xattrs_wf xs.
Proof.
  intros H1 H2. split; [|now apply nodupb_NoDup].
  apply Forall_forall. intros x Hx. rewrite forallb_forall in H2. specialize (H2 x Hx).
  apply andb_true_iff in H2 as [Ha Hb]. split.
  - destruct (fst x); [discriminate|discriminate].
  - now apply nosepb_spec.
Qed.

(* ---------- the mod= option: what perms_of computes is what the specification expects ---------- *)
Lemma opt_beq_bytes_true a b : opt_bytes_beq a b = true -> a = b.
Proof.
  destruct a, b; cbn; intros H; try discriminate; [|reflexivity]. apply beq_true in H. now subst.
Qed.

Lemma mod_facts (ms : modspec) (p : opts) :
  modspec_ok ms = true -> opt_bytes_beq (render_mod ms) (p_mod p) = true ->
  (has (p_mod p) = true -> has (opt_masks p) = true) /\
  forall ex mode t,
    N.land (perms_of p ex mode t) 4095
    = apply_mod ms (N.land (if ex then mode else default_perms t) 4095).
Proof.
  intros Hok Hr. apply opt_beq_bytes_true in Hr. unfold opt_masks, perms_of, opt_masks. rewrite <- Hr.
  destruct ms as [|d|cs]; cbn [render_mod apply_mod].
  - split; [discriminate|]. reflexivity.
  - cbn [modspec_ok] in Hok. apply andb_true_iff in Hok as [Hok H4]. apply andb_true_iff in Hok as [Hok H3].
    apply andb_true_iff in Hok as [H1 H2]. apply N.leb_le in H3.
    assert (E : parse_mod d = Some (0, octal_ref d)).
    { unfold parse_mod. rewrite H2. destruct d; [discriminate|]. cbn [is_nil].
      rewrite octal_value_ref. assert (L : octal_ref (a :: d) <? 2147483648 = true) by (apply N.ltb_lt; lia).
      now rewrite L. }
    rewrite E. split; [reflexivity|]. intros ex mode t. cbn. apply le_sub12. assumption.
  - cbn [modspec_ok] in Hok. apply andb_true_iff in Hok as [H1 H2].
    destruct (parse_mod_chmod cs) as (A & Om & E & HA & HO & Hs); [now destruct cs|assumption|].
    rewrite E. split; [reflexivity|]. intros ex mode t.
    set (q := if ex then mode else default_perms t).
    assert (Eq : (if 0 <? A then N.lor (N.land q A) Om else Om) = N.lor (N.land q A) Om).
    { destruct (0 <? A) eqn:E0; [reflexivity|]. apply N.ltb_ge in E0. assert (A = 0) by lia. subst A.
      now rewrite N.land_0_r, N.lor_0_l. }
    rewrite Eq. rewrite <- Hs. apply sub12_lor; [now apply sub12_land_r|assumption].
Qed.

(* ---------- a member whose source object exists ---------- *)
Lemma xattr_list_refl xs : list_beq xattr_beq xs xs = true.
Proof.
  induction xs as [|x r IH]; [reflexivity|]. cbn [list_beq]. unfold xattr_beq at 1. now rewrite !beq_refl, IH.
Qed.

Lemma common_ok m o h t :
  modspec_ok (mc_mod m) = true ->
  opt_bytes_beq (render_mod (mc_mod m)) (p_mod (m_opts (mc_member m))) = true ->
  h_mode h = perms_of (m_opts (mc_member m)) true (st_mode (o_st o)) t ->
  h_uid h = uid_of (m_opts (mc_member m)) true (o_st o) ->
  h_gid h = gid_of (m_opts (mc_member m)) true (o_st o) ->
  h_mtime h = st_mtime (o_st o) -> h_xattrs h = o_xattrs o ->
  common_fields_ok m o h = true.
Proof.
  intros Hok Hr Hm Hu Hg Ht Hx. unfold common_fields_ok. rewrite Hm, Hu, Hg, Ht, Hx.
  destruct (mod_facts _ _ Hok Hr) as [_ Hp]. rewrite (Hp true (st_mode (o_st o)) t). cbn [andb].
  rewrite N.eqb_refl, Z.eqb_refl, xattr_list_refl.
  unfold uid_of, gid_of, optN.
  destruct (p_uid (m_opts (mc_member m))), (p_gid (m_opts (mc_member m))); now rewrite !N.eqb_refl.
Qed.

(* what the classification of the lstat mode says about the specification's obj_type *)
Lemma classify_obj mode actual pending :
  classify mode = Some (actual, pending) ->
  match actual, pending with
  | LFile, false => obj_type mode = TypeReg
  | LDir, false => obj_type mode = TypeDir
  | LSym, false => obj_type mode = TypeSymlink
  | LDev, false => (obj_type mode = TypeChar /\ N.land mode S_IFMT = S_IFCHR)
                   \/ (obj_type mode = TypeBlock /\ N.land mode S_IFMT = S_IFBLK)
  | LNone, true => obj_type mode = 0
  | _, _ => False
  end.
Proof.
  rewrite classify_k, obj_type_k, ifmt_arith. pose proof (tyrow_mode mode) as T. unfold tyrow in T.
  intros E. rewrite E in T.
  destruct actual, pending; try discriminate; try (now apply N.eqb_eq in T).
  apply orb_true_iff in T as [T|T]; apply andb_true_iff in T as [T1 T2]; apply N.eqb_eq in T1, T2; auto.
Qed.

Lemma mk_header_fields e h : mk_header e = TOk h ->
  h_name h = dot :: e_name e /\ h_mode h = e_perms e /\ h_uid h = e_uid e /\ h_gid h = e_gid e
  /\ h_mtime h = e_mtime e /\ h_xattrs h = (match e_xattrs e with Some l => l | None => [] end)
  /\ h_size h = e_fsize e.
Proof.
  unfold mk_header. destruct (e_ltype e); try (intros H; injection H as <-; cbn; tauto).
  destruct (0 <? e_fsize e); [destruct (e_dlen e =? e_fsize e)|]; intros H; try discriminate;
    injection H as <-; cbn; tauto.
Qed.

Lemma common_ok_ext m o h h' :
  h_mode h' = h_mode h -> h_uid h' = h_uid h -> h_gid h' = h_gid h -> h_mtime h' = h_mtime h ->
  h_xattrs h' = h_xattrs h -> common_fields_ok m o h' = common_fields_ok m o h.
Proof. intros H1 H2 H3 H4 H5. unfold common_fields_ok. now rewrite H1, H2, H3, H4, H5. Qed.

Lemma kind_ok_link p o h : h_type h = TypeLink -> kind_fields_ok p o h = true.
Proof. intros H. unfold kind_fields_ok. rewrite H. reflexivity. Qed.

Ltac split_and H :=
  repeat match type of H with
         | (_ && _) = true => let H' := fresh H in apply andb_true_iff in H as [H H']
         end.

Lemma present_member m o now e :
  member_wf m = true -> m_src (mc_member m) = SPresent o ->
  add_single (m_opts (mc_member m)) (SPresent o) now = ROk e ->
  exists h, mk_header e = TOk h
    /\ e_name e = p_name (m_opts (mc_member m))
    /\ h_type h = expected_type (m_opts (mc_member m)) (st_mode (o_st o))
    /\ common_fields_ok m o h = true
    /\ kind_fields_ok (m_opts (mc_member m)) o h = true
    /\ e_ltype e <> LHard
    /\ (forall g, e_devino e = Some g ->
          g = st_id (o_st o) /\ (1 <? st_nlink (o_st o)) = true /\ h_type h = TypeReg
          /\ p_hassrc (m_opts (mc_member m)) = false).
Proof.
  intros Hwf Hsrc Hadd. set (p := m_opts (mc_member m)) in *.
  unfold member_wf in Hwf. fold p in Hwf. rewrite Hsrc in Hwf.
  apply andb_true_iff in Hwf as [Hwf Hobj]. apply andb_true_iff in Hwf as [Hwf Hdevr].
  apply andb_true_iff in Hwf as [Hwf Hlegal].
  apply andb_true_iff in Hwf as [Hwf Hnt]. apply andb_true_iff in Hwf as [Hwf Hsl].
  apply andb_true_iff in Hwf as [Hwf Hnn]. apply andb_true_iff in Hwf as [Hmok Hmr].
  apply andb_true_iff in Hobj as [Hobj Hagree].
  unfold object_ok in Hobj.
  apply andb_true_iff in Hobj as [Hobj Hlk]. apply andb_true_iff in Hobj as [Hobj Hd0].
  apply andb_true_iff in Hobj as [Hobj Hdl]. apply andb_true_iff in Hobj as [Hobj Hxn].
  apply andb_true_iff in Hobj as [Hobj Hxd]. apply andb_true_iff in Hobj as [Hobj Hxs].
  pose proof (xattrs_complete _ (xattrs_wf_of_bool _ Hxd Hxn)) as Hxa.
  unfold add_single in Hadd.
  destruct (negb (line_ok p)); [discriminate|].
  destruct (classify (st_mode (o_st o))) as [[actual pending]|] eqn:Ecl; [|discriminate].
  apply classify_obj in Ecl.
  destruct (type_decision p true actual pending) as [t|] eqn:Etd; [|discriminate].
  rewrite Hxa in Hadd.
  assert (Hcommon : forall h, h_mode h = perms_of p true (st_mode (o_st o)) t ->
            h_uid h = uid_of p true (o_st o) -> h_gid h = gid_of p true (o_st o) ->
            h_mtime h = st_mtime (o_st o) -> h_xattrs h = o_xattrs o -> common_fields_ok m o h = true).
  { intros h. apply common_ok; assumption. }
  unfold type_decision in Etd. unfold expected_type. fold p.
  destruct (p_ltype p) eqn:Elt.
  - (* tbd *)
    cbn [negb] in Etd. destruct pending; [discriminate|]. injection Etd as <-.
    apply andb_true_iff in Hlegal as [Hlegal Htarg]. apply andb_true_iff in Hlegal as [Hlegal Hnodev].
    destruct (p_dev p) eqn:Edev; [discriminate|]. rewrite Htarg.
    destruct actual; try contradiction; unfold finish in Hadd; cbn [o_st] in Hadd.
    + (* directory *) injection Hadd as <-. eexists. split; [reflexivity|]. cbn.
      split; [reflexivity|]. split; [now symmetry|]. split; [apply Hcommon; reflexivity|].
      split; [reflexivity|]. split; [discriminate|]. intros g Hg. discriminate.
    + (* regular file *)
      injection Hadd as <-. rewrite Ecl in Hdl. apply N.eqb_eq in Hdl.
      unfold mk_header. cbn [e_ltype e_fsize e_dlen]. rewrite Hdl, N.eqb_refl.
      assert (Hdev : forall g, (if negb (p_hassrc p) && (1 <? st_nlink (o_st o)) then Some (st_id (o_st o)) else None) = Some g ->
                g = st_id (o_st o) /\ (1 <? st_nlink (o_st o)) = true /\ TypeReg = TypeReg /\ p_hassrc p = false).
      { intros g Hg. destruct (p_hassrc p), (1 <? st_nlink (o_st o)); cbn in Hg; try discriminate.
        injection Hg as <-. auto. }
      destruct (0 <? st_size (o_st o)) eqn:Esz.
      * eexists. split; [reflexivity|]. cbn.
        split; [reflexivity|]. split; [now symmetry|]. split; [apply Hcommon; reflexivity|].
        split; [|split; [discriminate|exact Hdev]].
        unfold kind_fields_ok. cbn. now rewrite N.eqb_refl, beq_refl.
      * eexists. split; [reflexivity|]. cbn.
        split; [reflexivity|]. split; [now symmetry|]. split; [apply Hcommon; reflexivity|].
        split; [|split; [discriminate|exact Hdev]].
        unfold kind_fields_ok. cbn. rewrite N.eqb_refl. cbn.
        apply N.ltb_ge in Esz. assert (E0 : st_size (o_st o) = 0) by lia. rewrite E0 in Hd0. cbn in Hd0.
        destruct (o_data o); [reflexivity|discriminate].
    + (* symlink *)
      rewrite Htarg in Hadd. rewrite readlink_complete in Hadd. injection Hadd as <-.
      eexists. split; [reflexivity|]. cbn.
      split; [reflexivity|]. split; [now symmetry|]. split; [apply Hcommon; reflexivity|].
      split; [|split; [discriminate|intros g Hg; discriminate]].
      unfold kind_fields_ok. cbn. fold p. rewrite Htarg. now rewrite beq_refl.
    + (* device *)
      rewrite Edev in Hadd.
      destruct Ecl as [[Eo Ef]|[Eo Ef]]; rewrite Ef in Hadd; cbn in Hadd; injection Hadd as <-;
        (eexists; split; [reflexivity|]); cbn;
        (split; [reflexivity|]); (split; [now symmetry|]); (split; [apply Hcommon; reflexivity|]);
        (split; [|split; [discriminate|intros g Hg; discriminate]]);
        unfold kind_fields_ok; cbn; fold p; rewrite Edev;
        unfold ref_major, ref_minor; now rewrite <- dev_major_arith, <- dev_minor_arith, !N.eqb_refl.
  - (* dir *)
    cbn [need_check] in Etd. unfold need_check in Etd. rewrite Elt in Etd. injection Etd as <-.
    apply andb_true_iff in Hlegal as [Hnodev Htarg].
    destruct (p_dev p) eqn:Edev; [discriminate|]. rewrite Htarg.
    apply N.eqb_eq in Hagree.
    unfold finish in Hadd. injection Hadd as <-. eexists. split; [reflexivity|]. cbn.
    split; [reflexivity|]. split; [now symmetry|]. split; [apply Hcommon; reflexivity|].
    split; [reflexivity|]. split; [discriminate|]. intros g Hg. discriminate.
  - (* file *)
    assert (t = LFile) as ->.
    { unfold need_check in Etd. rewrite Elt in Etd.
      destruct (negb (p_hassrc p)); [|congruence]. destruct pending; [discriminate|].
      destruct (true && negb (ltype_eqb LFile actual)); congruence. }
    apply andb_true_iff in Hlegal as [Hnodev Htarg].
    destruct (p_dev p) eqn:Edev; [discriminate|]. rewrite Htarg.
    apply N.eqb_eq in Hagree. clear Ecl. rename Hagree into Ecl.
    unfold finish in Hadd. cbn [o_st] in Hadd.
    injection Hadd as <-. rewrite Ecl in Hdl. apply N.eqb_eq in Hdl.
    unfold mk_header. cbn [e_ltype e_fsize e_dlen]. rewrite Hdl, N.eqb_refl.
    assert (Hdev : forall g, (if negb (p_hassrc p) && (1 <? st_nlink (o_st o)) then Some (st_id (o_st o)) else None) = Some g ->
              g = st_id (o_st o) /\ (1 <? st_nlink (o_st o)) = true /\ TypeReg = TypeReg /\ p_hassrc p = false).
    { intros g Hg. destruct (p_hassrc p), (1 <? st_nlink (o_st o)); cbn in Hg; try discriminate.
      injection Hg as <-. auto. }
    destruct (0 <? st_size (o_st o)) eqn:Esz.
    + eexists. split; [reflexivity|]. cbn.
      split; [reflexivity|]. split; [now symmetry|]. split; [apply Hcommon; reflexivity|].
      split; [|split; [discriminate|exact Hdev]].
      unfold kind_fields_ok. cbn. now rewrite N.eqb_refl, beq_refl.
    + eexists. split; [reflexivity|]. cbn.
      split; [reflexivity|]. split; [now symmetry|]. split; [apply Hcommon; reflexivity|].
      split; [|split; [discriminate|exact Hdev]].
      unfold kind_fields_ok. cbn. rewrite N.eqb_refl. cbn.
      apply N.ltb_ge in Esz. assert (E0 : st_size (o_st o) = 0) by lia. rewrite E0 in Hd0. cbn in Hd0.
      destruct (o_data o); [reflexivity|discriminate].
  - (* symlink *)
    assert (t = LSym) as ->.
    { unfold need_check in Etd. rewrite Elt in Etd.
      destruct (is_nil (p_target p)); [|congruence]. destruct pending; [discriminate|].
      destruct (true && negb (ltype_eqb LSym actual)); congruence. }
    apply andb_true_iff in Hlegal as [Hlegal Hnodev].
    destruct (p_dev p) eqn:Edev; [discriminate|].
    apply N.eqb_eq in Hagree.
    unfold finish in Hadd. destruct (is_nil (p_target p)) eqn:Htarg.
    + rewrite readlink_complete in Hadd. injection Hadd as <-.
      eexists. split; [reflexivity|]. cbn.
      split; [reflexivity|]. split; [now symmetry|]. split; [apply Hcommon; reflexivity|].
      split; [|split; [discriminate|intros g Hg; discriminate]].
      unfold kind_fields_ok. cbn. fold p. rewrite Htarg. now rewrite beq_refl.
    + injection Hadd as <-.
      eexists. split; [reflexivity|]. cbn.
      split; [reflexivity|]. split; [reflexivity|]. split; [apply Hcommon; reflexivity|].
      split; [|split; [discriminate|intros g Hg; discriminate]].
      unfold kind_fields_ok. cbn. fold p. rewrite Htarg. now rewrite beq_refl.
  - (* hard link: not an entry type *) discriminate.
  - (* node *)
    assert (t = LDev) as ->.
    { unfold need_check in Etd. rewrite Elt in Etd.
      destruct (p_hassrc p || negb (has (p_dev p))); [|congruence]. destruct pending; [discriminate|].
      destruct (true && negb (ltype_eqb LDev actual)); congruence. }
    apply andb_true_iff in Hlegal as [Htarg Hlegal]. rewrite Htarg.
    unfold finish in Hadd. destruct (p_dev p) as [[[isc ma] mi]|] eqn:Edev.
    + injection Hadd as <-. eexists. split; [reflexivity|]. cbn.
      split; [reflexivity|]. split; [now destruct isc|]. split; [apply Hcommon; reflexivity|].
      split; [|split; [discriminate|intros g Hg; discriminate]].
      unfold kind_fields_ok. cbn. fold p. rewrite Edev. destruct isc; cbn; now rewrite !N.eqb_refl.
    + assert (Ef : (obj_type (st_mode (o_st o)) = TypeChar /\ N.land (st_mode (o_st o)) S_IFMT = S_IFCHR)
                   \/ (obj_type (st_mode (o_st o)) = TypeBlock /\ N.land (st_mode (o_st o)) S_IFMT = S_IFBLK)).
      { destruct actual, pending; try contradiction; try assumption;
          rewrite Ecl in Hagree; discriminate. }
      cbn [o_st] in Hadd.
      destruct Ef as [[Eo Ef]|[Eo Ef]]; rewrite Ef in Hadd; cbn in Hadd; injection Hadd as <-;
        (eexists; split; [reflexivity|]); cbn;
        (split; [reflexivity|]); (split; [now symmetry|]); (split; [apply Hcommon; reflexivity|]);
        (split; [|split; [discriminate|intros g Hg; discriminate]]);
        unfold kind_fields_ok; cbn; fold p; rewrite Edev;
        unfold ref_major, ref_minor; now rewrite <- dev_major_arith, <- dev_minor_arith, !N.eqb_refl.
Qed.
