(* C07 -- constants of Gen/Consts.v (rewritten from the source of /repo by tools/genconsts on
   every run) compared with literals.  Used by: the predicate C07.spec ("usable default permissions": nothing the declared umask forbids) and Model/TarMeta.v (members synthesised for absent paths).
   A changed constant makes this file fail to build; the check then reports
   "proof obligation no longer checks" for Properties/C07.v (C07_constants_pinned) instead of
   letting model, predicate and code move together unnoticed. *)
From LC Require Import Lib.Bytes Gen.Consts.
Local Open Scope string_scope.

Lemma c07_constants_pinned :
  (* frozen from the reviewed tree: 0022 octal (no manual text; fix 84bb1a7 in KNOWN_FINDINGS is about this value) *)
  D_Umask = 18%N /\
  (* property text: "members synthesised for absent paths get root ownership" *)
  D_StageFileUID = 0%N /\
  (* property text: root ownership *)
  D_StageFileGID = 0%N.
Proof. repeat split; vm_compute; reflexivity. Qed.
