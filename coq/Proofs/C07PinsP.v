(* C07 -- constants of Gen/Consts.v (rewritten from the source of /repo by tools/genconsts on
   every run) compared with literals, one lemma per constant so that the failing line names it.
   Used by: the predicate C07.spec ("usable default permissions": nothing the declared umask forbids) and Model/TarMeta.v (members synthesised for absent paths).
   A changed constant makes this file fail to build; the check then reports
   "proof obligation no longer checks" for Properties/C07.v (C07_constants_pinned) instead of
   letting model, predicate and code move together unnoticed.  The literals are repeated, with
   their sources, in the statement of C07_constants_pinned. *)
From LC Require Import Lib.Bytes Gen.Consts.
Local Open Scope string_scope.

Lemma pin_D_Umask :
  D_Umask = 18%N.
Proof. (vm_compute; reflexivity) || fail "D_Umask of the source tree differs from the reviewed literal (C07_constants_pinned)". Qed.

Lemma pin_D_StageFileUID :
  D_StageFileUID = 0%N.
Proof. (vm_compute; reflexivity) || fail "D_StageFileUID of the source tree differs from the reviewed literal (C07_constants_pinned)". Qed.

Lemma pin_D_StageFileGID :
  D_StageFileGID = 0%N.
Proof. (vm_compute; reflexivity) || fail "D_StageFileGID of the source tree differs from the reviewed literal (C07_constants_pinned)". Qed.

Definition c07_constants_pinned := conj pin_D_Umask (conj pin_D_StageFileUID pin_D_StageFileGID).
