(* C08 (b), the per-layer core: the state ProbeAllLayerstate computes for one layer is the
   documented state [C08.doc_state_one], given that the parent's state has been related. *)
From LC Require Import Lib.Bytes Lib.Lex Lib.Fields Lib.PathM Gen.Consts
  Model.MountInfo Model.FsTree Model.Kernel Model.Layers Cases.Verdict Cases.LC Cases.C08
  Proofs.LayerMapP Proofs.LayerStateP Proofs.StateForestP Proofs.ViewP Proofs.C08FoldP.
From Coq Require Import ZifyBool ZifyNat ZifyN.
Open Scope N_scope.
Import LC LCS.

(* ------------------------------------------------------------------ the specification, named parts *)
Definition doc_continue (c : cfgT) (f : fsT) (tab : list kline) (um : users_map)
  (ch : list layer) (x : layer) : N :=
  let bld := build_path c x in
  let derived := match l_base x with [] => false | _ => true end in
  let exp := expected_mounts c ch x in
  let imports := filter (fun em => negb (em_overlay em)) exp in
  if negb (forallb (fun d => is_dir f (pathjoin [bld; d])) C08.fhs_dirs) then st_complete else
  let wrong := existsb (fun em =>
     exists_ f (em_target em) &&
     match top_at tab (em_target em) with
     | Some k => negb (shows_source tab k (em_source em) (em_fstype em))
     | None => false end) imports in
  let exports_wrong :=
    match expand_config_exports c x with
    | None => true
    | Some es => existsb (fun e =>
        (negb (is_descendant bld (x_source e)) && negb (beq bld (x_source e)))
        || (exists_ f (x_source e) &&
            match readlink f (x_mount e) with Some t => negb (beq t (x_source e)) | None => false end)) es
    end in
  let unresolved := negb (length imports =? length (l_mounts x))%nat in
  if unresolved then st_inhabited else
  if wrong || exports_wrong then st_error else
  let missing :=
    existsb (fun em => negb (exists_ f (em_target em))
                       || (is_abs (em_source em) && negb (exists_ f (em_source em))
                           && negb (at_or_under (c_layers c) (em_source em)))) imports
    || match expand_config_exports c x with
       | Some es => existsb (fun e => negb (exists_ f (x_source e))) es
       | None => false end in
  if missing then st_inhabited else
  let n_imports := length (filter (fun em => mounted_at tab (em_target em)) imports) in
  let n_all := (n_imports + (if derived then 1 else 0))%nat in
  let needed := (length imports + (if derived then 1 else 0))%nat in
  if (n_all =? 0)%nat then st_mountable
  else if (n_all <? needed)%nat then st_partial
  else if existsb (in_mount_dirs c) (users_of um (l_name x)) || overlain_by_mount c tab x
       then st_mounted_busy else st_mounted.

Lemma doc_state_one_eq c f tab um m ch ps x :
  C08.doc_state_one c f tab um m ch ps x =
  if l_state x =? st_error then st_error else
  if negb (is_dir f (build_path c x))
     || ((match l_base x with [] => false | _ => true end)
         && (negb (is_dir f (work_path c x)) || negb (is_dir f (upper_path c x))))
  then st_incomplete else
  if match l_base x with [] => false | _ => true end then
    match ps with
    | None => st_complete
    | Some p =>
      if p <? st_mountable then st_complete else
      match top_at tab (build_path c x) with
      | None => st_mountable
      | Some k => if is_right_overlay c m x k then doc_continue c f tab um ch x else st_error
      end
    end
  else doc_continue c f tab um ch x.
Proof. reflexivity. Qed.

(* ------------------------------------------------------------------ hypotheses on one import *)
(* the probed record of a line with the shadow flag off: MountSourceIsExpected does not read it *)
Definition mount_of_k (k : kline) : mount :=
  let ov := beq (k_fstype k) overlay in
  MkMount (if ov then last_opt (bs "lowerdir") (k_sopts k) [] else []) (k_mp k)
          (if ov then last_opt (bs "upperdir") (k_sopts k) [] else [])
          (if ov then last_opt (bs "workdir") (k_sopts k) [] else [])
          (k_fstype k) (k_opts k) false (k_dev k) (k_root k).

Lemma source_is_expected_mrel ds k mnt t : mrel k mnt ->
  source_is_expected ds mnt t = source_is_expected ds (mount_of_k k) t.
Proof.
  intros (H1 & H2 & H3 & H4 & H5 & _). unfold source_is_expected, mount_sources, mount_of_k.
  cbn [m_dev m_source m_root m_mp]. now rewrite H1, H3, H4, H5.
Qed.

(* what findLayerstate accepts as the configured thing on an import mountpoint: the source is
   among GetMountSources and, for other than bind imports, the file-system type is the
   configured one -- exactly when the kernel identity shows it *)
Definition model_right (tab : list kline) (k : kline) (em : emount) : bool :=
  source_is_expected (devs_of tab []) (mount_of_k k) (em_source em)
  && (is_bind_type (em_fstype em) || beq (k_fstype k) (em_fstype em)).
Definition src_agree_one (tab : list kline) (em : emount) : bool :=
  match top_at tab (em_target em) with
  | Some k => Bool.eqb (model_right tab k em) (shows_source tab k (em_source em) (em_fstype em))
  | None => true
  end.
(* inAnyLayerDirectory (64 path.Dir steps in the model) is the prefix test *)
Definition dir_test_one (c : cfgT) (em : emount) : bool :=
  Bool.eqb (in_any_layer_dir 64 (c_layers c) (em_source em)) (at_or_under (c_layers c) (em_source em)).
(* no mount that the kernel table shows to be the configured source on a mountpoint whose host
   source directory is (now) missing: layercake calls any mount there incorrect *)
Definition no_shown_one (c : cfgT) (f : fsT) (tab : list kline) (em : emount) : bool :=
  negb (exists_ f (em_target em)
        && (is_abs (em_source em) && negb (exists_ f (em_source em))
            && negb (at_or_under (c_layers c) (em_source em)))
        && match top_at tab (em_target em) with
           | Some k => shows_source tab k (em_source em) (em_fstype em)
           | None => false end).

Definition import_ok (c : cfgT) (f : fsT) (tab : list kline) (em : emount) : bool :=
  src_agree_one tab em && dir_test_one c em && no_shown_one c f tab em.

(* the three relative directory settings do not end in a slash *)
Definition no_trailing_slash (d : bytes) : bool :=
  negb (match rev d with ch :: _ => Ascii.eqb ch sl | [] => false end).
Definition cfg_dirs_ok (c : cfgT) : bool :=
  forallb no_trailing_slash [c_buildroot c; c_work c; c_upper c].

(* ------------------------------------------------------------------ busy users *)
Lemma same_dir_eq d : forall p,
  (prefixb d p && ((length p =? length d)%nat
                   || match skipn (length d) p with ch :: _ => Ascii.eqb ch sl | [] => false end))
  = (beq p d || prefixb (d ++ [sl]) p).
Proof.
  induction d as [|a d IH]; intros p.
  - destruct p as [|ch r]; [reflexivity|]. cbn. rewrite andb_true_r. apply Ascii.eqb_sym.
  - destruct p as [|b p']; [reflexivity|]. cbn [prefixb length skipn beq app].
    rewrite (Ascii.eqb_sym b a). destruct (Ascii.eqb a b); cbn [andb]; [|reflexivity].
    change (S (length p') =? S (length d))%nat with (length p' =? length d)%nat. apply IH.
Qed.

Lemma same_dir_or_desc_eq p d : no_trailing_slash d = true ->
  same_dir_or_desc p d = (beq p d || prefixb (d ++ [sl]) p).
Proof.
  intros H. unfold same_dir_or_desc. rewrite <- same_dir_eq. unfold no_trailing_slash in H.
  apply negb_true_iff in H. rewrite H. reflexivity.
Qed.

Lemma existsb_ext_in {A} (P Q : A -> bool) l : (forall x, In x l -> P x = Q x) -> existsb P l = existsb Q l.
Proof.
  induction l as [|a r IH]; intros H; cbn [existsb]; [reflexivity|].
  rewrite (H a (or_introl eq_refl)), IH; [reflexivity|]. intros x Hx. apply H. now right.
Qed.

Lemma classify_mbusy c l us : cfg_dirs_ok c = true ->
  l_mbusy (classify_users c l us) = existsb (in_mount_dirs c) us.
Proof.
  intros H. unfold classify_users, set_busy. cbn [l_mbusy]. apply existsb_ext_in. intros u _.
  unfold in_mount_dirs. apply existsb_ext_in. intros d Hd.
  apply same_dir_or_desc_eq. unfold cfg_dirs_ok in H. rewrite forallb_forall in H. now apply H.
Qed.

(* ------------------------------------------------------------------ small list facts *)
Lemma existsb_map {A B} (P : B -> bool) (g : A -> B) l : existsb P (map g l) = existsb (fun a => P (g a)) l.
Proof. induction l as [|a r IH]; cbn [map existsb]; [reflexivity|]. now rewrite IH. Qed.
Lemma filter_map_length {A B} (P : B -> bool) (g : A -> B) l :
  length (filter P (map g l)) = length (filter (fun a => P (g a)) l).
Proof. induction l as [|a r IH]; cbn [map filter]; [reflexivity|]. destruct (P (g a)); cbn [length]; now rewrite IH. Qed.
Lemma filter_ext_in_len {A} (P Q : A -> bool) l : (forall x, In x l -> P x = Q x) ->
  length (filter P l) = length (filter Q l).
Proof.
  induction l as [|a r IH]; intros H; cbn [filter]; [reflexivity|].
  rewrite (H a (or_introl eq_refl)). destruct (Q a); cbn [length]; rewrite IH; auto; intros x Hx; apply H; now right.
Qed.
Lemma existsb_false_all {A} (P : A -> bool) l : existsb P l = false -> forall x, In x l -> P x = false.
Proof.
  intros H x Hx. destruct (P x) eqn:E; [|reflexivity].
  assert (existsb P l = true) by (apply existsb_exists; eauto). congruence.
Qed.

Lemma minimal_dirs_fhs f b : minimal_dirs_present f b = forallb (fun d => is_dir f (pathjoin [b; d])) C08.fhs_dirs.
Proof. reflexivity. Qed.

Lemma count_derived cnt len :
  (1 + N.of_nat cnt =? 0) = false /\ ((cnt + 1 =? 0)%nat) = false
  /\ (1 + N.of_nat cnt <? N.of_nat len + 1) = ((cnt + 1 <? len + 1)%nat).
Proof. lia. Qed.
Lemma count_base cnt len :
  (0 + N.of_nat cnt =? 0) = ((cnt + 0 =? 0)%nat)
  /\ (0 + N.of_nat cnt <? N.of_nat len + 0) = ((cnt + 0 <? len + 0)%nat).
Proof. lia. Qed.
Lemma neq_of_lt a b : (a < b)%nat -> (a =? b)%nat = false.
Proof. lia. Qed.

(* ------------------------------------------------------------------ one layer *)
Section Layer.
Variables (c : cfgT) (f : fsT) (tab : list kline) (um : users_map).
Hypothesis Hci : check_inheritance (read_layer_files c f) = true.
Hypothesis Hdirs : cfg_dirs_ok c = true.
Variables (ld : ldefs) (ms : list mount).
Hypothesis Hmap : msim (read_layer_files c f) (ld_map ld).
Hypothesis Hprobe : ld_probe ld = POk ms (devs_of tab []).
Hypothesis Hms : Forall2 mrel tab ms.
Variables (n : bytes) (x : layer).
Hypothesis Hx : lm_get (read_layer_files c f) n = Some x.
Hypothesis Hn : n <> [].
Hypothesis Himp : forallb (import_ok c f tab) (imports_of c (chain c f n) x) = true.

Lemma x_mounted_top x0 : x_mounted ms x0 = mounted_at tab (x_mount x0).
Proof.
  unfold x_mounted, mounted_at. pose proof (get_mount_top tab ms (x_mount x0) Hms) as G.
  destruct (top_at tab (x_mount x0)), (get_mount ms (x_mount x0)); try contradiction; reflexivity.
Qed.

Lemma x_wrong_top x0 : src_agree_one tab (em_of_x x0) = true ->
  x_wrong ms (devs_of tab []) x0 =
  match top_at tab (x_mount x0) with
  | Some k => negb (shows_source tab k (x_source x0) (x_fstype x0))
  | None => false end.
Proof.
  unfold src_agree_one, model_right, x_wrong, x_is_bind. cbn [em_of_x em_target em_source em_fstype].
  pose proof (get_mount_top tab ms (x_mount x0) Hms) as G.
  destruct (top_at tab (x_mount x0)) as [k|], (get_mount ms (x_mount x0)) as [mnt|]; try contradiction; [|reflexivity].
  intros H. apply eqb_prop in H. rewrite <- H. rewrite (source_is_expected_mrel _ k mnt _ G).
  pose proof G as (_ & G2 & _). rewrite G2. unfold is_bind_type.
  destruct (source_is_expected _ _ _), (beq (x_fstype x0) (bs "bind") || beq (x_fstype x0) (bs "rbind")),
           (beq (k_fstype k) (x_fstype x0)); reflexivity.
Qed.

(* the part of findLayerstate after the overlay test, against the documented continuation *)
Lemma tail_doc l' : lsim x l' ->
  l_mbusy l' = existsb (in_mount_dirs c) (users_of um (l_name x)) ->
  l_overlain l' = overlain_by_mount c tab x ->
  fls_tail c f ld l' (if match l_base x with [] => false | _ => true end then 1 else 0)
  = doc_continue c f tab um (chain c f n) x.
Proof.
  intros Hl Hmb Hov. unfold fls_tail, doc_continue.
  rewrite <- (lsim_build c x l' Hl). rewrite minimal_dirs_fhs.
  destruct (negb (forallb _ C08.fhs_dirs)); [reflexivity|].
  fold (imports_of c (chain c f n) x).
  pose proof (expand_mounts_imports c f n x (ld_map ld) l' Hci Hx Hn Hmap Hl) as HE.
  destruct (expand_config_mounts c (ld_map ld) l') as [xs|].
  2:{ rewrite (neq_of_lt _ _ HE). reflexivity. }
  destruct HE as [Eimp Elen].
  assert (E : (length (imports_of c (chain c f n) x) =? length (l_mounts x))%nat = true)
    by (rewrite Eimp, map_length, Elen; apply Nat.eqb_refl).
  rewrite E. cbn [negb]. clear E.
  rewrite Eimp in Himp |- *. rewrite forallb_forall in Himp.
  assert (Hok : forall x0, In x0 xs -> import_ok c f tab (em_of_x x0) = true)
    by (intros x0 Hx0; apply Himp, in_map, Hx0).
  clear Himp.
  rewrite Hprobe. cbn [pr_mounts pr_devs]. rewrite fold_fl_step. cbn [orb].
  rewrite <- (expand_config_exports_lsim c x l' Hl).
  rewrite !existsb_map, filter_map_length, map_length. cbn [em_of_x em_target em_source em_fstype].
  (* pointwise agreement on the imports *)
  assert (Emiss : existsb (x_miss c f) xs =
                  existsb (fun a => negb (exists_ f (x_mount a))
                                    || (is_abs (x_source a) && negb (exists_ f (x_source a))
                                        && negb (at_or_under (c_layers c) (x_source a)))) xs).
  { apply existsb_ext_in. intros x0 Hx0. specialize (Hok x0 Hx0). unfold import_ok in Hok.
    rewrite !andb_true_iff in Hok. destruct Hok as [[_ Hd] _]. unfold dir_test_one in Hd.
    apply eqb_prop in Hd. cbn [em_of_x em_source] in Hd. unfold x_miss, src_missing. now rewrite Hd. }
  assert (Ewrong : existsb (x_bad c f ms (devs_of tab [])) xs =
                   existsb (fun a => exists_ f (x_mount a) &&
                                     match top_at tab (x_mount a) with
                                     | Some k => negb (shows_source tab k (x_source a) (x_fstype a))
                                     | None => false end) xs).
  { apply existsb_ext_in. intros x0 Hx0. specialize (Hok x0 Hx0). unfold import_ok in Hok.
    rewrite !andb_true_iff in Hok. destruct Hok as [[Hs Hd] Hf].
    unfold x_bad. rewrite (x_wrong_top x0 Hs), x_mounted_top. unfold mounted_at.
    unfold dir_test_one in Hd. apply eqb_prop in Hd.
    unfold no_shown_one in Hf. cbn [em_of_x em_source em_target em_fstype] in Hd, Hf.
    unfold src_missing. rewrite Hd.
    destruct (exists_ f (x_mount x0)); cbn [negb orb andb] in *; [|reflexivity].
    destruct (is_abs (x_source x0) && negb (exists_ f (x_source x0))
              && negb (at_or_under (c_layers c) (x_source x0))); cbn [negb andb] in *; [|reflexivity].
    apply negb_true_iff in Hf. destruct (top_at tab (x_mount x0)); [now rewrite Hf|reflexivity]. }
  rewrite Emiss, Ewrong.
  set (wrong := existsb (fun a => exists_ f (x_mount a) && _) xs).
  set (miss_i := existsb (fun a => negb (exists_ f (x_mount a)) || _) xs).
  destruct (expand_config_exports c x) as [es|].
  2:{ rewrite orb_true_r. reflexivity. }
  rewrite fold_fl_estep.
  change (existsb (fun e => (negb (is_descendant (build_path c x) (x_source e)) && negb (beq (build_path c x) (x_source e)))
                            || (exists_ f (x_source e) && match readlink f (x_mount e) with
                                                          | Some t => negb (beq t (x_source e)) | None => false end)) es)
    with (existsb (fun e => e_notdesc (build_path c x) e || e_link_wrong f e) es).
  destruct (wrong || existsb (fun e => e_notdesc (build_path c x) e || e_link_wrong f e) es) eqn:Ebad; [reflexivity|].
  apply orb_false_iff in Ebad as [_ Eex].
  assert (Em2 : existsb (fun e => negb (e_notdesc (build_path c x) e) && negb (exists_ f (x_source e))) es
                = existsb (fun e => negb (exists_ f (x_source e))) es).
  { apply existsb_ext_in. intros e He. pose proof (existsb_false_all _ _ Eex e He) as H0.
    apply orb_false_iff in H0 as [H0 _]. now rewrite H0. }
  rewrite Em2.
  destruct (miss_i || existsb (fun e => negb (exists_ f (x_source e))) es) eqn:Emis; [reflexivity|].
  apply orb_false_iff in Emis as [Emi _]. unfold miss_i in Emi. rewrite <- Emiss in Emi.
  assert (Ecount : length (filter (fun x0 => negb (x_miss c f x0) && x_mounted ms x0) xs)
                   = length (filter (fun a => mounted_at tab (x_mount a)) xs)).
  { apply filter_ext_in_len. intros x0 Hx0. rewrite (existsb_false_all _ _ Emi x0 Hx0). cbn [negb andb].
    apply x_mounted_top. }
  rewrite Ecount. destruct Hl as (_ & _ & Hmts & _). rewrite <- Hmts, <- Elen, Hmb, Hov.
  set (cnt := length (filter (fun a => mounted_at tab (x_mount a)) xs)).
  set (busy := existsb (in_mount_dirs c) (users_of um (l_name x)) || overlain_by_mount c tab x).
  destruct (match l_base x with [] => false | _ => true end).
  - destruct (count_derived cnt (length xs)) as (E1 & E2 & E3). rewrite E1, E2, E3. reflexivity.
  - destruct (count_base cnt (length xs)) as (E1 & E3). rewrite E1, E3. reflexivity.
Qed.
End Layer.

(* how the parent's documented state (None = not yet known) is seen in the model's map *)
Definition parent_rel (ld : ldefs) (b : bytes) (ps : option N) : Prop :=
  match ps with
  | Some p => exists bl, lm_get (ld_map ld) b = Some bl /\ l_state bl = p
  | None => match lm_get (ld_map ld) b with
            | None => True
            | Some bl => (l_state bl <? st_mountable) = true
            end
  end.

Lemma sopt_eq k key : sopt k key = last_opt key (k_sopts k) [].
Proof. reflexivity. Qed.

Lemma probed_state_doc c f tab um ld ms n x l ps :
  check_inheritance (read_layer_files c f) = true -> cfg_dirs_ok c = true ->
  msim (read_layer_files c f) (ld_map ld) ->
  ld_probe ld = POk ms (devs_of tab []) -> Forall2 mrel tab ms ->
  lm_get (read_layer_files c f) n = Some x -> n <> [] ->
  forallb (import_ok c f tab) (imports_of c (chain c f n) x) = true ->
  lsim x l -> l_overlain l = overlain_by_mount c tab x ->
  (l_base x <> [] -> parent_rel ld (l_base x) ps) ->
  l_state l = l_state x -> (l_state x =? st_error) = false ->
  l_state (probed c f um ld l) = C08.doc_state_one c f tab um (read_layer_files c f) (chain c f n) ps x.
Proof.
  intros Hci Hdirs Hmap Hprobe Hms Hx Hn Himp Hl Hov Hps Hls Hne.
  rewrite doc_state_one_eq, Hne. unfold probed. rewrite Hls, Hne.
  rewrite <- (lsim_build c x l Hl), <- (lsim_work c x l Hl), <- (lsim_upper c x l Hl).
  pose proof Hl as (Hname & Hbase & _). rewrite <- Hbase, <- Hname.
  set (l1 := set_kmounts (classify_users c l (users_of um (l_name x))) _).
  destruct (is_dir f (build_path c x)); cbn [negb orb]; [|reflexivity].
  destruct (match l_base x with [] => false | _ => true end
            && (negb (is_dir f (work_path c x)) || negb (is_dir f (upper_path c x)))); [reflexivity|].
  rewrite find_layerstate_state.
  assert (Hl1 : lsim x (set_state l1 st_complete)) by (destruct Hl as (?&?&?&?&?); repeat split; assumption).
  assert (Hmb : l_mbusy (set_state l1 st_complete) = existsb (in_mount_dirs c) (users_of um (l_name x)))
    by (apply (classify_mbusy c l _ Hdirs)).
  assert (Hov1 : l_overlain (set_state l1 st_complete) = overlain_by_mount c tab x) by exact Hov.
  pose proof (tail_doc c f tab um Hci ld ms Hmap Hprobe Hms n x Hx Hn Himp _ Hl1 Hmb Hov1) as Htail.
  unfold fls_state. change (l_state (set_state l1 st_complete)) with st_complete.
  change (st_complete <? st_complete) with false. cbv beta iota.
  change (l_base (set_state l1 st_complete)) with (l_base l). rewrite <- Hbase.
  destruct (l_base x) as [|b0 br] eqn:Eb; [exact Htail|].
  specialize (Hps ltac:(discriminate)). unfold parent_rel in Hps.
  destruct ps as [p|].
  2:{ destruct (lm_get (ld_map ld) (b0 :: br)) as [bl|]; [|reflexivity]. now rewrite Hps. }
  destruct Hps as (bl & Ebl & <-). rewrite Ebl.
  destruct (l_state bl <? st_mountable); [reflexivity|].
  rewrite Hprobe. cbn [pr_mounts].
  rewrite <- (lsim_build c x _ Hl1), <- (lsim_work c x _ Hl1), <- (lsim_upper c x _ Hl1).
  pose proof (get_mount_top tab ms (build_path c x) Hms) as G.
  destruct (top_at tab (build_path c x)) as [k|], (get_mount ms (build_path c x)) as [mnt|];
    try contradiction; [|reflexivity].
  destruct G as (_ & G2 & _ & _ & G5 & G6 & G7). unfold is_right_overlay. rewrite G2, Eb.
  destruct (beq (k_fstype k) overlay) eqn:Eov; cbn [negb andb]; [|reflexivity].
  rewrite ?Eov in G5, G6, G7. rewrite G5, G6, G7, !sopt_eq.
  pose proof (msim_get _ _ (b0 :: br) Hmap) as Gp. rewrite Ebl in Gp.
  destruct (lm_get (read_layer_files c f) (b0 :: br)) as [pl|]; [|contradiction].
  rewrite (lsim_build c pl bl Gp).
  destruct (beq (last_opt (bs "lowerdir") (k_sopts k) []) (build_path c bl)),
           (beq (last_opt (bs "upperdir") (k_sopts k) []) (upper_path c x)),
           (beq (last_opt (bs "workdir") (k_sopts k) []) (work_path c x)); cbn [negb orb andb]; try reflexivity.
  exact Htail.
Qed.
