(* C08: the hypotheses of the theorems are satisfiable by a non-trivial world, and each of them
   is needed: for every hypothesis a closed world in which only that hypothesis fails and the
   property predicate is false of the model's own step. *)
From LC Require Import Lib.Bytes Lib.Lex Lib.Fields Lib.PathM Gen.Consts
  Model.MountInfo Model.FsTree Model.Kernel Model.Layers Cases.Verdict Cases.LC Cases.C08
  Proofs.C08DocP Proofs.C08P Proofs.C08ProbeP Proofs.C08MountedP.
Open Scope N_scope.
Import LC LCS.

Definition ex_cfg : cfgT :=
  MkCfg (bs "/b") (bs "/b/layers") (bs "build") (bs "packages") (bs "generated")
        (bs "overlayfs/workdir") (bs "overlayfs/upperdir") (bs "/b/export") (bs "packages") (bs "generated").
Definition ex_env : env := MkEnv false NoFault false false [].
Definition dirs (l : list string) : fsT := map (fun s => (bs s, Dir)) l.
Definition fhs (p : string) : list string :=
  map (fun d => (p ++ "/" ++ d)%string) ["bin"; "etc"; "lib"; "opt"; "root"; "sbin"; "usr"; "mnt"]%string.
Definition root_line : kline :=
  MkK (bs "1") (bs "0") (bs "8:1") (bs "/") (bs "/") (bs "rw,relatime") [] (bs "ext4") (bs "/dev/sda1") [(bs "rw", None)].

(* ------------------------------------------------------------------ a world with a mounted stack *)
(* base layer "base" and derived layer "dev", each importing /host/src on /mnt *)
Definition ex_fs : fsT :=
  dirs (["/"; "/b"; "/b/layers"; "/b/export"; "/host"; "/host/src";
         "/b/layers/base"; "/b/layers/base/build"]%string ++ fhs "/b/layers/base/build"
        ++ ["/b/layers/dev"; "/b/layers/dev/build"; "/b/layers/dev/overlayfs";
            "/b/layers/dev/overlayfs/workdir"; "/b/layers/dev/overlayfs/upperdir"]%string
        ++ fhs "/b/layers/dev/build")
  ++ [(bs "/b/default_layerconfig.skel", File []);
      (bs "/b/layers/base/layerconfig", File (bs "import bind /host/src /mnt" ++ [nl]));
      (bs "/b/layers/dev/layerconfig", File (bs "base base" ++ [nl; nl] ++ bs "import bind /host/src /mnt" ++ [nl]))].
Definition ex_w0 : wobs := MkWO ex_fs (MkKS [root_line] 2 1).
(* the world after the model's own `layercake mount dev` *)
Definition ex_w1 : wobs := v_after (view_of_model ex_cfg ex_w0 ex_env (CMount (bs "dev")) []).

Definition states (c : cfgT) (w : wobs) (um : users_map) : option (list (bytes * N)) :=
  option_map (map (fun lo => (lo_name lo, lo_state lo))) (v_layers (view_of_model c w ex_env CProbe um)).

(* all hypotheses of the four theorems hold in the mounted world, in which `status` reports
   "mounted (busy: overlain)" for base and "mounted" for dev *)
Example C08_hyps_nontrivial :
  v_res (view_of_model ex_cfg ex_w0 ex_env (CMount (bs "dev")) []) = ROk
  /\ length (ks_tab (wo_ks ex_w1)) = 4%nat
  /\ states ex_cfg ex_w1 [] = Some [(bs "base", st_mounted_busy); (bs "dev", st_mounted)]
  /\ wf_cfg ex_cfg = true /\ is_dir (wo_fs ex_w1) [sl] = true
  /\ wf_table (ks_tab (wo_ks ex_w1)) = true /\ cfg_dirs_ok ex_cfg = true
  /\ layer_names_distinct ex_cfg ex_w1 = true /\ sources_agree ex_cfg ex_w1 = true
  /\ dir_test_agrees ex_cfg ex_w1 = true /\ no_shown_on_missing_source ex_cfg ex_w1 = true.
Proof. vm_compute. repeat split; reflexivity. Qed.

(* mkdirs on a derived layer whose overlayfs directories are gone does create them *)
Definition ex_w_incomplete : wobs :=
  MkWO (filter (fun e => negb (prefixb (bs "/b/layers/dev/overlayfs") (fst e))) ex_fs) (MkKS [root_line] 2 1).
Example C08_mkdirs_nontrivial :
  v_res (view_of_model ex_cfg ex_w_incomplete ex_env (CMkdirs (bs "dev")) []) = ROk
  /\ length (v_log (view_of_model ex_cfg ex_w_incomplete ex_env (CMkdirs (bs "dev")) [])) = 2%nat
  /\ wf_cfg ex_cfg = true /\ is_dir (wo_fs ex_w_incomplete) [sl] = true.
Proof. vm_compute. repeat split; reflexivity. Qed.

(* (round 2) `mount dev` on the same world: Makedirs lifts the layer from incomplete to complete
   after creating the directories, so the first mount succeeds (it failed with "not yet
   mountable" before the repair) *)
Example C08_mount_after_mkdirs :
  v_res (view_of_model ex_cfg ex_w_incomplete ex_env (CMount (bs "dev")) []) = ROk
  /\ option_map (map (fun lo => (lo_name lo, lo_state lo)))
        (v_layers (view_of_model ex_cfg ex_w_incomplete ex_env (CMount (bs "dev")) []))
     = Some [(bs "base", st_mounted); (bs "dev", st_mounted)].
Proof. vm_compute. split; reflexivity. Qed.

(* ------------------------------------------------------------------ each hypothesis of (b) is needed *)
Definition base_fs (importline : bytes) : fsT :=
  dirs (["/"; "/b"; "/b/layers"; "/b/export"; "/host"; "/host/src";
         "/b/layers/base"; "/b/layers/base/build"]%string ++ fhs "/b/layers/base/build")
  ++ [(bs "/b/default_layerconfig.skel", File []);
      (bs "/b/layers/base/layerconfig", File (importline ++ [nl]))].
Definition hyps (c : cfgT) (w : wobs) : list bool :=
  [wf_table (ks_tab (wo_ks w)); cfg_dirs_ok c; layer_names_distinct c w; sources_agree c w;
   dir_test_agrees c w; no_shown_on_missing_source c w].
Definition probe_spec (c : cfgT) (w : wobs) (um : users_map) : bool :=
  C08.step_spec c w (view_of_model c w ex_env CProbe um).

(* 1. (round 1: refuted; repaired in round 2) a foreign mount (tmpfs) on an import mountpoint
      whose host source directory is missing: layercake now reports "error", the documented state *)
Definition tmpfs_line : kline :=
  MkK (bs "2") (bs "1") (bs "0:30") (bs "/") (bs "/b/layers/base/build/mnt") (bs "rw,relatime") []
      (bs "tmpfs") (bs "tmpfs") [(bs "rw", None)].
Definition w_foreign : wobs :=
  MkWO (base_fs (bs "import bind /nonexistent /mnt")) (MkKS [root_line; tmpfs_line] 3 31).
Example C08_foreign_on_missing_source_is_error :
  hyps ex_cfg w_foreign = [true; true; true; true; true; true]
  /\ states ex_cfg w_foreign [] = Some [(bs "base", st_error)]
  /\ C08.doc_states ex_cfg (wo_fs w_foreign) (ks_tab (wo_ks w_foreign)) [] = [(bs "base", st_error)]
  /\ probe_spec ex_cfg w_foreign [] = true.
Proof. vm_compute. repeat split; reflexivity. Qed.

(* 2. a relative directory setting with a trailing slash: SameDirectoryOrDescendant("build/x",
      "build/") is true, the documented test (file is the directory or below it) is not *)
Definition cfg_slash : cfgT :=
  MkCfg (bs "/b") (bs "/b/layers") (bs "build/") (bs "packages") (bs "generated")
        (bs "overlayfs/workdir") (bs "overlayfs/upperdir") (bs "/b/export") (bs "packages") (bs "generated").
Definition bind_line : kline :=
  MkK (bs "2") (bs "1") (bs "8:1") (bs "/host/src") (bs "/b/layers/base/build/mnt") (bs "rw,relatime") []
      (bs "ext4") (bs "/dev/sda1") [(bs "rw", None)].
Definition w_mounted : wobs := MkWO (base_fs (bs "import bind /host/src /mnt")) (MkKS [root_line; bind_line] 3 1).
Definition um_slash : users_map := [(bs "base", [MkU false (bs "build/x")])].
Example C08_refuted_trailing_slash :
  hyps cfg_slash w_mounted = [true; false; true; true; true; true]
  /\ states cfg_slash w_mounted um_slash = Some [(bs "base", st_mounted_busy)]
  /\ C08.doc_states cfg_slash (wo_fs w_mounted) (ks_tab (wo_ks w_mounted)) um_slash = [(bs "base", st_mounted)]
  /\ probe_spec cfg_slash w_mounted um_slash = false
  /\ probe_spec ex_cfg w_mounted um_slash = true.
Proof. vm_compute. repeat split; reflexivity. Qed.

(* 3. an import source more than 64 levels below the layers directory: the model's
      inAnyLayerDirectory runs out of its 64 path.Dir steps (Go's loop is unbounded) *)
Fixpoint deep (n : nat) : bytes := match n with O => [] | S k => bs "/a" ++ deep k end.
Definition w_deep : wobs :=
  MkWO (base_fs (bs "import bind /b/layers/base" ++ deep 70 ++ bs " /mnt")) (MkKS [root_line] 2 1).
Example C08_refuted_deep_source :
  hyps ex_cfg w_deep = [true; true; true; true; false; true]
  /\ states ex_cfg w_deep [] = Some [(bs "base", st_inhabited)]
  /\ C08.doc_states ex_cfg (wo_fs w_deep) (ks_tab (wo_ks w_deep)) [] = [(bs "base", st_mountable)]
  /\ probe_spec ex_cfg w_deep [] = false.
Proof. vm_compute. repeat split; reflexivity. Qed.

(* 4. two entries of the file tree that denote the same child of the layers directory *)
Definition w_dup : wobs :=
  MkWO (base_fs (bs "import bind /host/src /mnt") ++ [(bs "/b/layers//base", Dir)]) (MkKS [root_line] 2 1).
Example C08_refuted_duplicate_names :
  hyps ex_cfg w_dup = [true; true; false; true; true; true]
  /\ states ex_cfg w_dup [] = Some [(bs "base", st_mountable); (bs "base", st_empty)]
  /\ probe_spec ex_cfg w_dup [] = false.
Proof. vm_compute. repeat split; reflexivity. Qed.

(* 5. (round 1: refuted; repaired in round 2) a tmpfs whose source string is "/proc" on the
      mountpoint of `import proc /proc /mnt`: the type is compared now, the layer is in error *)
Definition tmpfs_named : kline :=
  MkK (bs "2") (bs "1") (bs "0:30") (bs "/") (bs "/b/layers/base/build/mnt") (bs "rw,relatime") []
      (bs "tmpfs") (bs "/proc") [(bs "rw", None)].
Definition w_type : wobs :=
  MkWO (base_fs (bs "import proc /proc /mnt") ++ dirs ["/proc"%string]) (MkKS [root_line; tmpfs_named] 3 31).
Example C08_right_name_wrong_type_is_error :
  hyps ex_cfg w_type = [true; true; true; true; true; true]
  /\ states ex_cfg w_type [] = Some [(bs "base", st_error)]
  /\ C08.doc_states ex_cfg (wo_fs w_type) (ks_tab (wo_ks w_type)) [] = [(bs "base", st_error)]
  /\ probe_spec ex_cfg w_type [] = true.
Proof. vm_compute. repeat split; reflexivity. Qed.

(* 7. (new in round 2) layercake's own bind mount whose host source directory has been removed
      afterwards (the bind keeps the directory alive in the kernel): every mount over a missing
      source is now "incorrect", so layercake says "error"; the kernel table still shows the
      configured source, so the documented state is "inhabited" (missing host directory) *)
Definition w_gone : wobs :=
  MkWO (filter (fun e => negb (beq (fst e) (bs "/host/src"))) (wo_fs w_mounted)) (wo_ks w_mounted).
Example C08_refuted_shown_on_missing_source :
  hyps ex_cfg w_gone = [true; true; true; true; true; false]
  /\ states ex_cfg w_gone [] = Some [(bs "base", st_error)]
  /\ C08.doc_states ex_cfg (wo_fs w_gone) (ks_tab (wo_ks w_gone)) [] = [(bs "base", st_inhabited)]
  /\ probe_spec ex_cfg w_gone [] = false.
Proof. vm_compute. repeat split; reflexivity. Qed.

(* ------------------------------------------------------------------ each hypothesis of (a) is needed *)
(* a build-root setting that climbs to "/" in a file tree without an entry for "/" *)
Definition cfg_up : cfgT :=
  MkCfg (bs "/b") (bs "/b/layers") (bs "../../..") (bs "packages") (bs "generated")
        (bs "overlayfs/workdir") (bs "overlayfs/upperdir") (bs "/b/export") (bs "packages") (bs "generated").
Definition w_noroot : wobs :=
  MkWO (dirs ["/b"; "/b/layers"; "/b/export"; "/b/layers/base"]%string
        ++ [(bs "/b/default_layerconfig.skel", File []); (bs "/b/layers/base/layerconfig", File [])])
       (MkKS [root_line] 2 1).
Example C08_refuted_no_root_entry :
  wf_cfg cfg_up = true /\ is_dir (wo_fs w_noroot) [sl] = false
  /\ v_res (view_of_model cfg_up w_noroot ex_env (CMkdirs (bs "base")) []) = ROk
  /\ C08.step_spec cfg_up w_noroot (view_of_model cfg_up w_noroot ex_env (CMkdirs (bs "base")) []) = false.
Proof. vm_compute. repeat split; reflexivity. Qed.

(* a relative layers directory: MkdirAll works on absolute keys *)
Definition cfg_rel : cfgT :=
  MkCfg (bs "/b") (bs "b/layers") (bs "build") (bs "packages") (bs "generated")
        (bs "overlayfs/workdir") (bs "overlayfs/upperdir") (bs "/b/export") (bs "packages") (bs "generated").
Definition w_rel : wobs :=
  MkWO (dirs ["/"; "/b"; "b/layers"; "/b/export"; "b/layers/base"]%string
        ++ [(bs "/b/default_layerconfig.skel", File []); (bs "b/layers/base/layerconfig", File [])])
       (MkKS [root_line] 2 1).
Example C08_refuted_relative_layers_dir :
  wf_cfg cfg_rel = false /\ is_dir (wo_fs w_rel) [sl] = true
  /\ v_res (view_of_model cfg_rel w_rel ex_env (CMkdirs (bs "base")) []) = ROk
  /\ C08.step_spec cfg_rel w_rel (view_of_model cfg_rel w_rel ex_env (CMkdirs (bs "base")) []) = false.
Proof. vm_compute. repeat split; reflexivity. Qed.
