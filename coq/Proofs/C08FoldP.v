(* Closed forms of the two loops of findLayerstate (imports, exports) and the relation between
   expandConfigMounts and the specification's expected imports. *)
From LC Require Import Lib.Bytes Lib.Lex Lib.Fields Lib.PathM Gen.Consts
  Model.MountInfo Model.FsTree Model.Kernel Model.Layers Cases.Verdict Cases.LC Cases.C08
  Proofs.LayerMapP Proofs.LayerStateP Proofs.StateForestP.
From Coq Require Import ZifyBool ZifyNat ZifyN.
Open Scope N_scope.
Import LC LCS.

(* ------------------------------------------------------------------ the import loop *)
Definition src_missing (c : cfgT) (f : fsT) (x : xmount) : bool :=
  is_abs (x_source x) && negb (exists_ f (x_source x))
  && negb (in_any_layer_dir 64 (c_layers c) (x_source x)).
Definition x_miss (c : cfgT) (f : fsT) (x : xmount) : bool :=
  negb (exists_ f (x_mount x)) || src_missing c f x.
Definition x_mounted (ms : list mount) (x : xmount) : bool :=
  match get_mount ms (x_mount x) with Some _ => true | None => false end.
Definition x_is_bind (x : xmount) : bool := beq (x_fstype x) (bs "bind") || beq (x_fstype x) (bs "rbind").
(* what is mounted is not the configured thing: source not among GetMountSources, or (other
   than binds) a different file-system type *)
Definition x_wrong (ms : list mount) (ds : list device) (x : xmount) : bool :=
  match get_mount ms (x_mount x) with
  | Some mnt => negb (source_is_expected ds mnt (x_source x))
                || (negb (x_is_bind x) && negb (beq (m_fstype mnt) (x_fstype x)))
  | None => false
  end.
(* counted as incorrect: any mount over a missing host source, a wrong mount otherwise *)
Definition x_bad (c : cfgT) (f : fsT) (ms : list mount) (ds : list device) (x : xmount) : bool :=
  exists_ f (x_mount x) && (if src_missing c f x then x_mounted ms x else x_wrong ms ds x).

Lemma fl_step_eq c f ms ds num bad missing x :
  fl_step c f ms ds (num, bad, missing) x =
  if negb (exists_ f (x_mount x)) then (num, bad, true)
  else if src_missing c f x then (num, bad || x_mounted ms x, true)
  else (if x_mounted ms x then num + 1 else num, bad || x_wrong ms ds x, missing).
Proof.
  unfold fl_step, src_missing, x_mounted, x_wrong, x_is_bind.
  destruct (negb (exists_ f (x_mount x))); [reflexivity|].
  destruct (is_abs (x_source x) && negb (exists_ f (x_source x))
            && negb (in_any_layer_dir 64 (c_layers c) (x_source x))); [reflexivity|].
  destruct (get_mount ms (x_mount x)); [now rewrite orb_assoc|now rewrite orb_false_r].
Qed.

Lemma fold_fl_step c f ms ds xs : forall num bad missing,
  fold_left (fl_step c f ms ds) xs (num, bad, missing) =
  (num + N.of_nat (length (filter (fun x => negb (x_miss c f x) && x_mounted ms x) xs)),
   bad || existsb (x_bad c f ms ds) xs,
   missing || existsb (x_miss c f) xs).
Proof.
  induction xs as [|x r IH]; intros num bad missing; cbn [fold_left filter existsb length].
  - rewrite N.add_0_r, !orb_false_r. reflexivity.
  - rewrite fl_step_eq.
    assert (Em : x_miss c f x = negb (exists_ f (x_mount x)) || src_missing c f x) by reflexivity.
    assert (Eb : x_bad c f ms ds x = exists_ f (x_mount x) && (if src_missing c f x then x_mounted ms x else x_wrong ms ds x)) by reflexivity.
    rewrite Em, Eb. clear Em Eb.
    destruct (exists_ f (x_mount x)); cbn [negb andb orb].
    2:{ rewrite IH. now rewrite !orb_true_r. }
    destruct (src_missing c f x); cbn [negb andb orb].
    + rewrite IH. now rewrite !orb_true_r, orb_assoc.
    + rewrite IH. destruct (x_mounted ms x); cbn [length].
      * rewrite orb_assoc. rewrite Nat2N.inj_succ. rewrite <- N.add_1_l, N.add_assoc. reflexivity.
      * rewrite orb_assoc. reflexivity.
Qed.

(* ------------------------------------------------------------------ the export loop *)
Definition e_notdesc (bld : bytes) (e : xmount) : bool :=
  negb (is_descendant bld (x_source e)) && negb (beq bld (x_source e)).
Definition e_link_wrong (f : fsT) (e : xmount) : bool :=
  exists_ f (x_source e)
  && match readlink f (x_mount e) with Some t => negb (beq t (x_source e)) | None => false end.

Lemma symlink_readlink f p (X : bytes -> bool) :
  (if is_symlink f p then match readlink f p with Some t => X t | None => true end else false)
  = match readlink f p with Some t => X t | None => false end.
Proof. unfold is_symlink, readlink. destruct (lstat f p) as [[| |]|]; reflexivity. Qed.

Lemma fl_estep_eq f bld bad missing e :
  fl_estep f bld (bad, missing) e =
  if e_notdesc bld e then (true, missing)
  else if negb (exists_ f (x_source e)) then (bad, true)
  else (bad || e_link_wrong f e, missing).
Proof.
  unfold fl_estep. fold (e_notdesc bld e). destruct (e_notdesc bld e); [reflexivity|].
  unfold e_link_wrong. destruct (exists_ f (x_source e)); cbn [negb andb]; [|reflexivity].
  unfold is_symlink, readlink. destruct (lstat f (x_mount e)) as [[| |t]|]; rewrite ?orb_false_r; try reflexivity.
  now rewrite (beq_sym (x_source e) t).
Qed.

Lemma fold_fl_estep f bld es : forall bad missing,
  fold_left (fl_estep f bld) es (bad, missing) =
  (bad || existsb (fun e => e_notdesc bld e || e_link_wrong f e) es,
   missing || existsb (fun e => negb (e_notdesc bld e) && negb (exists_ f (x_source e))) es).
Proof.
  induction es as [|e r IH]; intros bad missing; cbn [fold_left existsb].
  - now rewrite !orb_false_r.
  - rewrite fl_estep_eq. destruct (e_notdesc bld e); cbn [negb andb orb].
    + rewrite IH. now rewrite !orb_true_r.
    + destruct (exists_ f (x_source e)) eqn:E; cbn [negb]; rewrite IH.
      * now rewrite orb_assoc.
      * assert (W : e_link_wrong f e = false) by (unfold e_link_wrong; now rewrite E).
        rewrite W. cbn [orb]. now rewrite !orb_true_r.
Qed.

(* ------------------------------------------------------------------ map_opt against flat_map *)
Lemma map_opt_flat {A B C} (g : A -> option B) (h : B -> C) l :
  match map_opt g l with
  | Some ys => flat_map (fun a => match g a with Some y => [h y] | None => [] end) l = map h ys
               /\ length ys = length l
  | None => (length (flat_map (fun a => match g a with Some y => [h y] | None => [] end) l) < length l)%nat
  end.
Proof.
  induction l as [|a r IH]; cbn [map_opt flat_map]; [split; reflexivity|].
  destruct (g a) as [y|].
  - destruct (map_opt g r) as [ys|].
    + destruct IH as [IH1 IH2]. cbn [app map length]. split; congruence.
    + cbn [app length]. lia.
  - cbn [app length]. destruct (map_opt g r) as [ys|].
    + destruct IH as [IH1 IH2]. rewrite IH1, map_length. lia.
    + lia.
Qed.

(* ------------------------------------------------------------------ resolving $$base / $$self *)
Lemma adjust_prefixed_ext p cb cb' : (forall n, cb n = cb' n) -> adjust_prefixed p cb = adjust_prefixed p cb'.
Proof.
  intros H. unfold adjust_prefixed. destruct p; [reflexivity|].
  destruct (span_while is_sigil _) as [sigil rest].
  destruct (span_while _ rest) as [name tail]. now rewrite H.
Qed.

Definition em_of_x (x : xmount) : emount := MkEM (x_mount x) (x_source x) (x_fstype x) false.

Definition imports_of (c : cfgT) (ch : list layer) (x : layer) : list emount :=
  filter (fun em => negb (em_overlay em)) (expected_mounts c ch x).

Lemma imports_of_eq c ch x :
  imports_of c ch x =
  flat_map (fun nm => match resolve_source c ch x (nm_source nm) with
                      | Some s => [MkEM (pathjoin [build_path c x; nm_mount nm]) s (nm_fstype nm) false]
                      | None => [] end) (l_mounts x).
Proof.
  unfold imports_of, expected_mounts. rewrite filter_app.
  assert (E : filter (fun em => negb (em_overlay em))
                (match l_base x with [] => [] | _ => [MkEM (build_path c x) overlay overlay true] end) = [])
    by (destruct (l_base x); reflexivity).
  rewrite E. cbn [app]. induction (l_mounts x) as [|nm r IH]; [reflexivity|]. cbn [flat_map].
  rewrite filter_app, IH. destruct (resolve_source c ch x (nm_source nm)); reflexivity.
Qed.

(* the chain the specifications use, for a layer of a map that passed checkInheritance *)
Lemma chain_root c f n x : check_inheritance (read_layer_files c f) = true ->
  lm_get (read_layer_files c f) n = Some x -> n <> [] ->
  exists u, chain c f n = rev u ++ [x]
            /\ find_layer_base (S (length (read_layer_files c f))) (read_layer_files c f) x = Some (last u x).
Proof.
  intros Hc Hg Hn. destruct (check_inheritance_up _ _ _ Hc Hg Hn) as (u & Hu1 & Hu2). exists u. split.
  - unfold chain, layers_on_disk. rewrite ancestors_up, Hu2. cbn [option_map rev]. now rewrite app_nil_r.
  - rewrite find_layer_base_up. rewrite (up_more _ _ _ _ Hu1 (S (length (read_layer_files c f)))); [reflexivity|].
    pose proof (up_length _ _ _ _ Hu1). lia.
Qed.

Lemma expand_mounts_imports c f n x m' l :
  check_inheritance (read_layer_files c f) = true ->
  lm_get (read_layer_files c f) n = Some x -> n <> [] ->
  msim (read_layer_files c f) m' -> lsim x l ->
  match expand_config_mounts c m' l with
  | Some xs => imports_of c (chain c f n) x = map em_of_x xs /\ length xs = length (l_mounts x)
  | None => (length (imports_of c (chain c f n) x) < length (l_mounts x))%nat
  end.
Proof.
  intros Hc Hg Hn Hm Hl. rewrite imports_of_eq.
  destruct (chain_root c f n x Hc Hg Hn) as (u & Hch & Hfb).
  pose proof (find_layer_base_msim _ _ _ _ Hm Hl) as Hfb'. rewrite Hfb in Hfb'. cbn [option_map] in Hfb'.
  pose proof (lsim_build c _ _ Hl) as Hbp. destruct Hl as (_ & _ & Hmts & _ & Hp).
  unfold expand_config_mounts. rewrite <- Hmts.
  set (cb := fun name : bytes => if beq name (bs "base") then _ else _).
  set (g := fun nm => match adjust_prefixed (nm_source nm) cb with Some src => Some _ | None => None end).
  pose proof (map_opt_flat g em_of_x (l_mounts x)) as MF.
  assert (Eq : forall nm,
    match resolve_source c (chain c f n) x (nm_source nm) with
    | Some s => [MkEM (pathjoin [build_path c x; nm_mount nm]) s (nm_fstype nm) false]
    | None => [] end
    = match g nm with Some y => [em_of_x y] | None => [] end).
  { intros nm. unfold g, resolve_source.
    rewrite (adjust_prefixed_ext (nm_source nm) _ cb).
    - destruct (adjust_prefixed (nm_source nm) cb); [|reflexivity].
      unfold em_of_x. cbn [x_mount x_source x_fstype]. now rewrite Hbp.
    - intros name. unfold cb. destruct (beq name (bs "base")).
      + rewrite Hch. replace (root_base (rev u ++ [x]) x) with (last u x)
          by (rewrite <- (hd_rev_last u x x); unfold root_base; destruct (rev u ++ [x]); reflexivity).
        destruct (find_layer_base _ m' l) as [b0|]; [|discriminate].
        cbn [option_map] in Hfb'. congruence.
      + now rewrite Hp. }
  rewrite (flat_map_ext _ _ Eq). exact MF.
Qed.
