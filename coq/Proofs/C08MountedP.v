(* C08 (c): a layer reported mounted (or mounted-busy) has every expected mount in the kernel
   table and none of its configured directories missing. *)
From LC Require Import Lib.Bytes Lib.Lex Lib.Fields Lib.PathM Gen.Consts
  Model.MountInfo Model.FsTree Model.Kernel Model.Layers Cases.Verdict Cases.LC Cases.C08
  Proofs.MountInfoP Proofs.PlainRunP Proofs.LayerMapP Proofs.LayerStateP
  Proofs.StateForestP Proofs.ViewP Proofs.C08FoldP Proofs.C08DocP Proofs.C08P Proofs.C08ProbeP Proofs.LayerNamesP.
From Coq Require Import ZifyBool ZifyNat ZifyN.
Open Scope N_scope.
Import LC LCS.

(* ------------------------------------------------------------------ the statement *)
Definition complete_mounted (c : cfgT) (f : fsT) (tab : list kline) (x : layer) : bool :=
  let ch := chain c f (l_name x) in
  let imports := imports_of c ch x in
  forallb (fun em => mounted_at tab (em_target em)) (expected_mounts c ch x)
  && (length imports =? length (l_mounts x))%nat
  && dirs_ok c f x
  && forallb (fun d => is_dir f (pathjoin [build_path c x; d])) C08.fhs_dirs
  && forallb (fun em => exists_ f (em_target em)
                        && (negb (is_abs (em_source em)) || exists_ f (em_source em)
                            || at_or_under (c_layers c) (em_source em))) imports
  && match expand_config_exports c x with
     | Some es => forallb (fun e => exists_ f (x_source e)) es
     | None => false
     end.

Definition mounted_complete_spec (c : cfgT) (w : wobs) (v : sview) : bool :=
  if negb (plain_env (v_env v)) then true else
  match v_cmd v, v_res v, v_layers v with
  | CProbe, ROk, Some los =>
    forallb (fun lo =>
      if st_mounted <=? lo_state lo then
        match layer_named c (wo_fs w) (lo_name lo) with
        | Some x => complete_mounted c (wo_fs w) (ks_tab (wo_ks w)) x
        | None => false
        end
      else true) los
  | _, _, _ => true
  end.

(* ------------------------------------------------------------------ list facts *)
Lemma filter_length_le {A} (P : A -> bool) l : (length (filter P l) <= length l)%nat.
Proof. induction l as [|a r IH]; cbn [filter length]; [lia|]. destruct (P a); cbn [length]; lia. Qed.
Lemma filter_length_all {A} (P : A -> bool) l : length (filter P l) = length l -> forall x, In x l -> P x = true.
Proof.
  induction l as [|a r IH]; cbn [filter length]; [intros _ x []|].
  destruct (P a) eqn:E; cbn [length].
  - intros H x [<-|Hx]; [exact E|]. apply IH; [lia|exact Hx].
  - pose proof (filter_length_le P r). lia.
Qed.
Lemma map_opt_length {A B} (g : A -> option B) l ys : map_opt g l = Some ys -> length ys = length l.
Proof.
  revert ys. induction l as [|a r IH]; intros ys; cbn [map_opt].
  - intros H. injection H as <-. reflexivity.
  - destruct (g a); [|discriminate]. destruct (map_opt g r) as [ys'|]; [|discriminate].
    intros H. injection H as <-. cbn [length]. now rewrite (IH ys' eq_refl).
Qed.
Lemma expand_mounts_length c m l xs : expand_config_mounts c m l = Some xs -> length xs = length (l_mounts l).
Proof. apply map_opt_length. Qed.

Lemma num_full num0 cnt len : (cnt <= len)%nat ->
  (num0 + N.of_nat cnt <? N.of_nat len + num0) = false -> cnt = len.
Proof. lia. Qed.

(* ------------------------------------------------------------------ what "mounted" implies in findLayerstate *)
Definition tail_ok (c : cfgT) (f : fsT) (ld : ldefs) (l : layer) : Prop :=
  minimal_dirs_present f (build_path c l) = true
  /\ exists xs, expand_config_mounts c (ld_map ld) l = Some xs
     /\ (forall x0, In x0 xs -> x_miss c f x0 = false /\ x_mounted (pr_mounts (ld_probe ld)) x0 = true)
     /\ exists es, expand_config_exports c l = Some es
        /\ forall e0, In e0 es -> exists_ f (x_source e0) = true.

Lemma fls_tail_mounted c f ld l num0 :
  (st_mounted <=? fls_tail c f ld l num0) = true -> tail_ok c f ld l.
Proof.
  unfold fls_tail, tail_ok.
  destruct (minimal_dirs_present f (build_path c l)); cbn [negb]; [|discriminate].
  destruct (expand_config_mounts c (ld_map ld) l) as [xs|] eqn:Exs; [|discriminate].
  rewrite fold_fl_step. cbn [orb].
  destruct (expand_config_exports c l) as [es|]; [|discriminate].
  rewrite fold_fl_estep.
  set (bad := _ || existsb (fun e => e_notdesc (build_path c l) e || e_link_wrong f e) es).
  destruct bad eqn:Ebad; [discriminate|]. unfold bad in Ebad. clear bad.
  apply orb_false_iff in Ebad as [_ Eex].
  destruct (existsb (x_miss c f) xs || _) eqn:Emis; [discriminate|].
  apply orb_false_iff in Emis as [Emi Eme].
  set (cnt := length (filter (fun x => negb (x_miss c f x) && x_mounted (pr_mounts (ld_probe ld)) x) xs)).
  destruct (num0 + N.of_nat cnt =? 0); [discriminate|].
  destruct (num0 + N.of_nat cnt <? N.of_nat (length (l_mounts l)) + num0) eqn:Elt; [discriminate|].
  intros _. split; [reflexivity|]. exists xs. split; [reflexivity|]. split.
  - rewrite <- (expand_mounts_length _ _ _ _ Exs) in Elt.
    pose proof (num_full num0 cnt (length xs) (filter_length_le _ xs) Elt) as Hall.
    intros x0 Hx0. pose proof (filter_length_all _ _ Hall x0 Hx0) as H. cbv beta in H.
    apply andb_true_iff in H as [H1 H2]. apply negb_true_iff in H1. auto.
  - exists es. split; [reflexivity|]. intros e0 He0.
    pose proof (existsb_false_all _ _ Eex e0 He0) as H1. apply orb_false_iff in H1 as [H1 _].
    pose proof (existsb_false_all _ _ Eme e0 He0) as H2. cbv beta in H2. rewrite H1 in H2.
    cbn [negb andb] in H2. now apply negb_false_iff in H2.
Qed.

Lemma fls_state_mounted c f ld l : l_state l = st_complete ->
  (st_mounted <=? fls_state c f ld l) = true ->
  tail_ok c f ld l
  /\ (l_base l <> [] -> get_mount (pr_mounts (ld_probe ld)) (build_path c l) <> None).
Proof.
  intros Hst. unfold fls_state. rewrite Hst. change (st_complete <? st_complete) with false. cbv iota.
  destruct (l_base l) as [|b0 br].
  - intros H. split; [now apply (fls_tail_mounted c f ld l 0)|congruence].
  - destruct (lm_get (ld_map ld) (b0 :: br)) as [bl|]; [|discriminate].
    destruct (l_state bl <? st_mountable); [discriminate|].
    destruct (get_mount (pr_mounts (ld_probe ld)) (build_path c l)) as [mnt|]; [|discriminate].
    destruct (negb (beq (m_fstype mnt) overlay)); [discriminate|].
    destruct (_ || _ || _); [discriminate|].
    intros H. split; [now apply (fls_tail_mounted c f ld l 1)|discriminate].
Qed.

Lemma probed_mounted c f um ld l : (st_mounted <=? l_state (probed c f um ld l)) = true ->
  dirs_ok c f l = true
  /\ exists l', lsim l l' /\ tail_ok c f ld l'
     /\ (l_base l <> [] -> get_mount (pr_mounts (ld_probe ld)) (build_path c l) <> None).
Proof.
  unfold probed. set (l1 := set_kmounts _ _).
  destruct (l_state l =? st_error) eqn:Ee.
  { change (l_state l1) with (l_state l). apply N.eqb_eq in Ee. rewrite Ee. discriminate. }
  destruct (is_dir f (build_path c l)) eqn:E1; cbn [negb]; [|discriminate].
  destruct (match l_base l with [] => false | _ => true end
            && (negb (is_dir f (work_path c l)) || negb (is_dir f (upper_path c l)))) eqn:E2; [discriminate|].
  rewrite find_layerstate_state. intros H.
  apply fls_state_mounted in H as [Ht Hg]; [|reflexivity]. split.
  - unfold dirs_ok. rewrite E1. cbn [andb]. destruct (l_base l); [reflexivity|]. cbn [andb] in E2.
    apply orb_false_iff in E2 as [E2 E3]. apply negb_false_iff in E2, E3. now rewrite E2, E3.
  - exists (set_state l1 st_complete). split; [repeat split|]. split; [exact Ht|exact Hg].
Qed.

(* an invariant of the layers under an invariant of the whole structure *)
Lemma fold_probe_inv2 c f um (J : ldefs -> Prop) (P : layer -> Prop) :
  (forall ld n, J ld -> J (probe_layer c f um ld n)) ->
  (forall ld n l, J ld -> lm_get (ld_map ld) n = Some l -> P (probed c f um ld l)) ->
  forall ns ld, J ld -> (forall l, In l (ld_map ld) -> P l) ->
  forall l, In l (ld_map (fold_left (probe_layer c f um) ns ld)) -> P l.
Proof.
  intros HJ HP. induction ns as [|n r IH]; intros ld Hj H; cbn [fold_left]; [exact H|].
  apply IH; [now apply HJ|]. intros l. rewrite probe_layer_eq.
  destruct (lm_get (ld_map ld) n) as [l0|] eqn:E; [|apply H]. cbn [ld_map].
  intros Hin. apply lm_set_in in Hin as [->|Hin]; [|now apply H].
  now apply (HP ld n).
Qed.

Lemma expected_mounts_split c ch x :
  expected_mounts c ch x =
  (match l_base x with [] => [] | _ => [MkEM (build_path c x) overlay overlay true] end) ++ imports_of c ch x.
Proof. rewrite imports_of_eq. reflexivity. Qed.

Lemma forallb_map {A B} (P : B -> bool) (g : A -> B) l : forallb P (map g l) = forallb (fun a => P (g a)) l.
Proof. induction l as [|a r IH]; cbn [map forallb]; [reflexivity|]. now rewrite IH. Qed.

Section Mounted.
Variables (c : cfgT) (f : fsT) (tab : list kline) (um : users_map) (ms : list mount).
Let m := read_layer_files c f.
Hypothesis Hci : check_inheritance m = true.
Hypothesis Hms : Forall2 mrel tab ms.
Hypothesis Hne : forall x, In x m -> l_name x <> [].
Hypothesis Hdt : forall x, In x m -> forallb (dir_test_one c) (imports_of c (chain c f (l_name x)) x) = true.

Definition Jm (ld : ldefs) : Prop := ld_probe ld = POk ms (devs_of tab []) /\ msim m (ld_map ld).

Definition Pm (l : layer) : Prop :=
  (st_mounted <=? l_state l) = true ->
  exists x, lm_get m (l_name l) = Some x /\ complete_mounted c f tab x = true.

Lemma Jm_step ld n : Jm ld -> Jm (probe_layer c f um ld n).
Proof.
  intros [H1 H2]. split; [now rewrite probe_layer_probe|].
  eapply msim_trans; [exact H2|apply probe_layer_msim].
Qed.

Lemma probed_Pm ld n l : Jm ld -> lm_get (ld_map ld) n = Some l -> Pm (probed c f um ld l).
Proof.
  intros [Hp Hmap] El Hmt.
  apply probed_mounted in Hmt as (Hdirs & l' & Hll' & (Hfhs & xs & Exs & Hxs & es & Ees & Hes) & Hov).
  pose proof (msim_get _ _ n Hmap) as G. rewrite El in G.
  destruct (lm_get m n) as [x|] eqn:Ex; [|contradiction].
  pose proof (lm_get_name _ _ _ El) as Hln. pose proof (lm_get_name _ _ _ Ex) as Hxn.
  pose proof (lm_get_in _ _ _ Ex) as Hxin.
  destruct (probed_lsim c f um ld l) as (Hpn & _). rewrite <- Hpn, Hln.
  exists x. split; [exact Ex|].
  assert (Hxl' : lsim x l') by (eapply lsim_trans; eassumption).
  assert (Hn : n <> []) by (rewrite <- Hxn; now apply Hne).
  pose proof (expand_mounts_imports c f n x (ld_map ld) l' Hci Ex Hn Hmap Hxl') as HE.
  rewrite Exs in HE. destruct HE as [Eimp Elen].
  rewrite Hp in Hxs, Hov. cbn [pr_mounts] in Hxs, Hov.
  unfold complete_mounted. rewrite Hxn. rewrite expected_mounts_split, forallb_app, Eimp.
  rewrite !andb_true_iff. repeat split.
  - pose proof G as (_ & Hb & _). destruct (l_base x) as [|b0 br] eqn:Eb; [reflexivity|].
    cbn [forallb em_target]. rewrite andb_true_r. unfold mounted_at.
    rewrite (lsim_build c x l G).
    pose proof (get_mount_top tab ms (build_path c l) Hms) as GT.
    destruct (top_at tab (build_path c l)); [reflexivity|].
    destruct (get_mount ms (build_path c l)); [contradiction|]. exfalso. apply Hov; [congruence|reflexivity].
  - rewrite forallb_map. apply forallb_forall. intros x0 Hx0. cbn [em_of_x em_target].
    rewrite <- (x_mounted_top tab ms Hms). now apply Hxs.
  - rewrite map_length, Elen. apply Nat.eqb_refl.
  - now rewrite (dirs_ok_lsim c f x l G).
  - rewrite <- minimal_dirs_fhs, (lsim_build c x l' Hxl'). exact Hfhs.
  - rewrite forallb_map. apply forallb_forall. intros x0 Hx0. cbn [em_of_x em_target em_source].
    destruct (Hxs x0 Hx0) as [Hmiss _]. unfold x_miss in Hmiss. apply orb_false_iff in Hmiss as [M1 M2].
    apply negb_false_iff in M1. rewrite M1. cbn [andb]. unfold src_missing in M2.
    specialize (Hdt x Hxin). rewrite Hxn, Eimp, forallb_map in Hdt. rewrite forallb_forall in Hdt.
    specialize (Hdt x0 Hx0). unfold dir_test_one in Hdt. cbn [em_of_x em_source] in Hdt.
    apply eqb_prop in Hdt. rewrite <- Hdt.
    destruct (is_abs (x_source x0)), (exists_ f (x_source x0)), (in_any_layer_dir 64 (c_layers c) (x_source x0));
      cbn in M2 |- *; congruence.
  - rewrite (expand_config_exports_lsim c x l' Hxl'), Ees. apply forallb_forall. exact Hes.
Qed.
End Mounted.

(* ------------------------------------------------------------------ (c) *)
Theorem mounted_means_complete cfg w e um :
  wf_table (ks_tab (wo_ks w)) = true ->
  dir_test_agrees cfg w = true ->
  mounted_complete_spec cfg w (view_of_model cfg w e CProbe um) = true.
Proof.
  intros Hwt Hdt. unfold view_of_model.
  destruct (run e cfg um CProbe (world_of w)) as [o st] eqn:Erun.
  unfold mounted_complete_spec. cbn [v_env v_cmd v_res v_layers v_after wo_fs v_users].
  destruct (plain_env e) eqn:Epl; [|reflexivity]. cbn [negb].
  destruct o as [r| | | |]; try reflexivity. cbn [rclass_of].
  destruct r as [ld'|]; [|reflexivity].
  unfold run, run_command in Erun.
  apply bind_inv in Erun as (f0 & s1 & H1 & Erun). apply get_fs_inv in H1 as [-> ->].
  apply bind_inv in Erun as (u2 & s2 & H2 & Erun). apply guard_inv in H2 as [_ ->].
  apply bind_inv in Erun as (ld & s3 & H3 & Erun).
  apply get_layers_inv in H3 as [-> (ld0 & ld1 & H0 & Hr & ->)].
  apply bind_inv in Erun as (ld2 & s4 & H4 & Erun). apply ret_inv in H4 as [-> ->].
  apply ret_inv in Erun as [E ->]. injection E as ->.
  apply find_layers_inv in H0 as (_ & _ & Hci & o & Ho & ->).
  apply refresh_mounts_inv in Hr as (_ & ms & ds & Hp & ->).
  cbn [s_w world_of w_fs w_ks ld_map ld_order] in *.
  set (f := wo_fs w) in *. set (tab := ks_tab (wo_ks w)) in *.
  set (m := read_layer_files cfg f) in *.
  unfold probe_of in Hp. fold tab in Hp. rewrite (probe_render tab Hwt) in Hp.
  destruct (view_spec tab) as (ms' & Hv & Hms). rewrite Hv in Hp. injection Hp as <- <-.
  assert (Hne' : forall x, In x m -> l_name x <> []) by (intros x Hx; now apply (read_layer_files_names cfg f)).
  unfold dir_test_agrees, all_imports, layers_on_disk in Hdt. fold f m in Hdt. rewrite forallb_forall in Hdt.
  rewrite forallb_sort_lobs, forallb_map. apply forallb_forall. intros l Hl.
  cbn [lobs_of lo_state lo_name].
  assert (HP : Pm cfg f tab l).
  { revert l Hl.
    apply (fold_probe_inv2 cfg f um (Jm cfg f tab ms') (Pm cfg f tab)
             (Jm_step cfg f tab um ms')
             (probed_Pm cfg f tab um ms' Hci Hms Hne' Hdt)).
    - split; [reflexivity|]. cbn [ld_map]. apply msim_map_overlain.
    - cbn [ld_map]. intros l Hin Hmt. exfalso.
      apply in_map_iff in Hin as (l0 & <- & Hin). cbn [set_overlain l_state] in Hmt.
      destruct (read_layer_files_facts cfg f l0 Hin) as [Hlt _].
      unfold st_mounted, st_complete in *. lia. }
  destruct (st_mounted <=? l_state l) eqn:Emt; [|reflexivity].
  destruct (HP Emt) as (x & Ex & Hx). unfold layer_named, layers_on_disk.
  change (read_layer_files cfg (wo_fs w)) with m. now rewrite Ex.
Qed.
