(* C08: a layer's reported state is the documented function of disk and mount table.
   Part 1: mkdirs recreates what is missing; after a successful mount no layer of the chain is
   reported in error. *)
From LC Require Import Lib.Bytes Lib.Lex Lib.Fields Lib.PathM Gen.Consts
  Model.MountInfo Model.FsTree Model.Kernel Model.Layers Cases.Verdict Cases.LC Cases.C08
  Proofs.PathP Proofs.FsGrowP Proofs.PlainRunP Proofs.LayerMapP Proofs.LayerStateP.
Open Scope N_scope.
Import LC LCS.

(* ------------------------------------------------------------------ paths of a layer *)
(* the result of path.Clean on a rooted string *)
Definition good_dir (d : bytes) : Prop := exists X, is_rooted X = true /\ d = clean X.

Lemma pathjoin_abs a rest : is_abs a = true -> good_dir (pathjoin (a :: rest)).
Proof.
  intros Ha. destruct a as [|ch a']; [discriminate|]. unfold pathjoin. cbn [filter beq negb].
  set (fr := filter (fun e => negb (beq e [])) rest).
  exists (pjoin ((ch :: a') :: fr)). split; [|reflexivity].
  unfold pjoin. destruct fr; cbn [join app]; exact Ha.
Qed.

Lemma good_dir_abs d : good_dir d -> is_abs d = true.
Proof. intros (X & HX & ->). now apply clean_rooted. Qed.

Lemma read_layer_files_facts c f l : In l (read_layer_files c f) ->
  (l_state l <? st_complete) = true /\ l_path l = layer_path c (l_name l).
Proof.
  unfold read_layer_files. induction (Lex.sort (children f (c_layers c))) as [|n r IH]; cbn [fold_right]; [intros []|].
  destruct (legal_name n); [|exact IH].
  destruct (load_layer c f n) as [l0|] eqn:E; [|exact IH].
  intros [<-|Hin]; [|now apply IH].
  unfold load_layer in E. destruct (if is_file f _ then _ else None); [|discriminate].
  injection E as <-. cbn [l_state l_path l_name]. split; [|reflexivity].
  destruct (lf_errors _); reflexivity.
Qed.

Section Paths.
Variable c : cfgT.
Hypothesis Hcfg : wf_cfg c = true.

Lemma layers_abs : is_abs (c_layers c) = true.
Proof.
  unfold wf_cfg in Hcfg. rewrite !andb_true_iff in Hcfg. tauto.
Qed.

Lemma layer_path_good n : good_dir (layer_path c n).
Proof. apply pathjoin_abs, layers_abs. Qed.

Lemma layer_dirs_good l : l_path l = layer_path c (l_name l) ->
  good_dir (build_path c l) /\ good_dir (work_path c l) /\ good_dir (upper_path c l).
Proof.
  intros Hp. pose proof (good_dir_abs _ (layer_path_good (l_name l))) as Ha. rewrite <- Hp in Ha.
  unfold build_path, work_path, upper_path. repeat split; now apply pathjoin_abs.
Qed.
End Paths.

(* ------------------------------------------------------------------ the three directories *)
Definition dirs_ok (c : cfgT) (f : fsT) (l : layer) : bool :=
  is_dir f (build_path c l)
  && match l_base l with [] => true | _ => is_dir f (work_path c l) && is_dir f (upper_path c l) end.

Lemma dirs_ok_lsim c f a b : lsim a b -> dirs_ok c f a = dirs_ok c f b.
Proof.
  intros H. unfold dirs_ok. rewrite (lsim_build c a b H), (lsim_work c a b H), (lsim_upper c a b H).
  destruct H as (_ & -> & _). reflexivity.
Qed.

Lemma dirs_ok_grows c f f' l : grows f f' -> dirs_ok c f l = true -> dirs_ok c f' l = true.
Proof.
  intros G. unfold dirs_ok. rewrite !andb_true_iff. intros [H1 H2]. split; [now apply (is_dir_grows f)|].
  destruct (l_base l); [reflexivity|]. apply andb_true_iff in H2 as [H2 H3].
  apply andb_true_iff. split; now apply (is_dir_grows f).
Qed.

(* incomplete (or not yet probed, or in error), or the directories are there *)
Definition Pdirs (c : cfgT) (f : fsT) (l : layer) : Prop :=
  (l_state l <? st_complete) = true \/ dirs_ok c f l = true.

Lemma probed_Pdirs c f um ld l : Pdirs c f (probed c f um ld l).
Proof.
  unfold probed. set (l1 := set_kmounts _ _).
  destruct (l_state l =? st_error) eqn:Ee.
  { left. apply N.eqb_eq in Ee. change (l_state l1) with (l_state l). now rewrite Ee. }
  destruct (is_dir f (build_path c l)) eqn:E1; cbn [negb]; [|left; reflexivity].
  destruct (match l_base l with [] => false | _ => true end
            && (negb (is_dir f (work_path c l)) || negb (is_dir f (upper_path c l)))) eqn:E2;
    [left; reflexivity|].
  right. rewrite <- (dirs_ok_lsim c f l).
  - unfold dirs_ok. rewrite E1. cbn [andb]. destruct (l_base l); [reflexivity|].
    cbn [andb] in E2. apply orb_false_iff in E2 as [E2 E3].
    apply negb_false_iff in E2, E3. now rewrite E2, E3.
  - eapply lsim_trans; [|apply find_layerstate_lsim]. repeat split.
Qed.

(* what FindLayers + ProbeAllLayerstate return, relative to the layers on disk *)
Lemma get_layers_facts c um s ld s' : get_layers c um s = (Ret ld, s') ->
  s' = s
  /\ msim (read_layer_files c (w_fs (s_w s))) (ld_map ld)
  /\ (forall l, In l (ld_map ld) -> Pdirs c (w_fs (s_w s)) l).
Proof.
  intros H. apply get_layers_inv in H as [-> (ld0 & ld1 & H0 & H1 & ->)].
  apply find_layers_inv in H0 as (_ & _ & _ & o & Ho & ->).
  apply refresh_mounts_inv in H1 as (_ & ms & ds & Hp & ->). cbn [ld_map ld_order].
  split; [reflexivity|]. split.
  - eapply msim_trans; [|apply fold_probe_msim]. cbn [ld_map]. apply msim_map_overlain.
  - apply fold_probe_inv; [intros ? ? _; apply probed_Pdirs|]. cbn [ld_map]. intros l Hin.
    apply in_map_iff in Hin as (l0 & <- & Hin). left.
    apply read_layer_files_facts in Hin as [Hs _]. exact Hs.
Qed.

(* ------------------------------------------------------------------ mkdir runs *)
Lemma mapM_mkdir_inv e ds : plain_e e -> forall s u s',
  is_dir (w_fs (s_w s)) [sl] = true -> (forall d, In d ds -> good_dir d) ->
  mapM_ (fs_mkdir e) ds s = (Ret u, s') ->
  grows (w_fs (s_w s)) (w_fs (s_w s')) /\ w_ks (s_w s') = w_ks (s_w s)
  /\ forall d, In d ds -> is_dir (w_fs (s_w s')) d = true.
Proof.
  intros He. induction ds as [|d r IH]; intros s u s' Hroot Hg H; cbn [mapM_] in H.
  - apply ret_inv in H as [_ ->]. split; [apply grows_refl|]. split; [reflexivity|]. intros d [].
  - apply bind_inv in H as (u1 & s1 & H1 & H).
    apply (fs_mkdir_inv e d s u1 s1 He) in H1 as (f1 & Hm & Hw).
    assert (G1 : grows (w_fs (s_w s)) f1) by now apply (mkdir_all_grows _ d).
    assert (Hf1 : w_fs (s_w s1) = f1) by now rewrite Hw.
    assert (Hk1 : w_ks (s_w s1) = w_ks (s_w s)) by now rewrite Hw.
    destruct (IH s1 u s') as (G2 & K2 & D2).
    + rewrite Hf1. now apply (is_dir_grows (w_fs (s_w s))).
    + intros d' Hd'. apply Hg. now right.
    + exact H.
    + rewrite Hf1 in G2. split; [eapply grows_trans; eassumption|]. split; [congruence|].
      intros d' [<-|Hd']; [|now apply D2].
      apply (is_dir_grows f1); [exact G2|].
      destruct (Hg d (or_introl eq_refl)) as (X & HX & ->).
      now apply (mkdir_all_is_dir (w_fs (s_w s))).
Qed.

Lemma in_filter_or {A} (g : A -> bool) l x : In x l -> In x (filter g l) \/ g x = false.
Proof. intros H. destruct (g x) eqn:E; [left; apply filter_In; auto|now right]. Qed.

(* Makedirs: the directories of the named layer exist afterwards *)
Lemma makedirs_dirs e c ld n s ld' s' : plain_e e -> wf_cfg c = true ->
  is_dir (w_fs (s_w s)) [sl] = true ->
  (forall l, In l (ld_map ld) -> Pdirs c (w_fs (s_w s)) l) ->
  (forall l, In l (ld_map ld) -> l_path l = layer_path c (l_name l)) ->
  makedirs e c ld n s = (Ret ld', s') ->
  grows (w_fs (s_w s)) (w_fs (s_w s')) /\ w_ks (s_w s') = w_ks (s_w s)
  /\ exists l, lm_get (ld_map ld) n = Some l /\ dirs_ok c (w_fs (s_w s')) l = true.
Proof.
  intros He Hcfg Hroot HP Hpath H. unfold makedirs in H.
  apply bind_inv in H as (u0 & s0 & H0 & H). apply guard_inv in H0 as [_ ->].
  destruct (lm_get (ld_map ld) n) as [l|] eqn:El; [|discriminate].
  apply bind_inv in H as (u1 & s1 & H1 & H). apply guard_inv in H1 as [Hne ->].
  pose proof (lm_get_in _ _ _ El) as Hin.
  destruct (l_state l <? st_complete) eqn:Est.
  - apply bind_inv in H as (f & s2 & H2 & H). apply get_fs_inv in H2 as [-> ->].
    apply bind_inv in H as (u3 & s3 & H3 & H).
    apply bind_inv in H as (f' & s4 & H4 & H). apply get_fs_inv in H4 as [-> ->].
    apply ret_inv in H as [_ ->].
    destruct (layer_dirs_good c Hcfg l (Hpath l Hin)) as (Gb & Gw & Gu).
    apply (mapM_mkdir_inv e _ He) in H3 as (G & K & D); [| exact Hroot |].
    2:{ intros d Hd. apply filter_In in Hd as [Hd _]. destruct Hd as [<-|Hd]; [exact Gb|].
        destruct (l_base l); [destruct Hd|]. destruct Hd as [<-|[<-|[]]]; assumption. }
    split; [exact G|]. split; [exact K|]. exists l. split; [reflexivity|].
    assert (HD : forall d, In d ([build_path c l] ++ match l_base l with [] => [] | _ => [work_path c l; upper_path c l] end)
                 -> is_dir (w_fs (s_w s3)) d = true).
    { intros d Hd. apply (in_filter_or (fun d => negb (is_dir (w_fs (s_w s)) d))) in Hd as [Hd|Hd].
      - now apply D.
      - apply negb_false_iff in Hd. now apply (is_dir_grows (w_fs (s_w s))). }
    unfold dirs_ok. rewrite (HD (build_path c l)) by (left; reflexivity). cbn [andb].
    destruct (l_base l); [reflexivity|].
    rewrite (HD (work_path c l)) by (right; left; reflexivity).
    rewrite (HD (upper_path c l)) by (right; right; left; reflexivity). reflexivity.
  - apply ret_inv in H as [_ ->]. split; [apply grows_refl|]. split; [reflexivity|].
    exists l. split; [reflexivity|]. destruct (HP l Hin) as [Hs|Hd]; [congruence|exact Hd].
Qed.

Lemma msim_in_r m m' l : msim m m' -> In l m' -> exists x, In x m /\ lsim x l.
Proof.
  induction 1 as [|x y a b Hxy _ IH]; intros Hin; [destruct Hin|].
  destruct Hin as [<-|Hin]; [exists x; split; [now left|exact Hxy]|].
  destruct (IH Hin) as (x' & H1 & H2). exists x'. split; [now right|exact H2].
Qed.

Lemma msim_paths c f m' : msim (read_layer_files c f) m' ->
  forall l, In l m' -> l_path l = layer_path c (l_name l).
Proof.
  intros H l Hin. destruct (msim_in_r _ _ _ H Hin) as (x & Hx & (H1 & _ & _ & _ & H5)).
  apply read_layer_files_facts in Hx as [_ Hp]. congruence.
Qed.

(* ------------------------------------------------------------------ (a) mkdirs recreates *)
Theorem mkdirs_recreates cfg w e n um :
  wf_cfg cfg = true -> is_dir (wo_fs w) [sl] = true ->
  C08.step_spec cfg w (view_of_model cfg w e (CMkdirs n) um) = true.
Proof.
  intros Hcfg Hroot. unfold view_of_model.
  destruct (run e cfg um (CMkdirs n) (world_of w)) as [o st] eqn:Erun.
  unfold C08.step_spec. cbn [v_env v_cmd v_res v_layers v_after wo_fs].
  destruct (plain_env e) eqn:Epl; [|reflexivity]. cbn [negb].
  apply plain_env_spec in Epl.
  destruct o as [r| | | |]; try reflexivity. cbn [rclass_of].
  destruct (layer_named cfg (wo_fs w) n) as [x|] eqn:Ex; [|reflexivity].
  unfold run, run_command in Erun.
  apply bind_inv in Erun as (f & s1 & H1 & Erun). apply get_fs_inv in H1 as [-> ->].
  apply bind_inv in Erun as (u2 & s2 & H2 & Erun). apply guard_inv in H2 as [_ ->].
  apply bind_inv in Erun as (ld & s3 & H3 & Erun).
  apply get_layers_facts in H3 as (-> & Hsim & HP).
  apply bind_inv in Erun as (ld' & s4 & H4 & Erun). apply ret_inv in Erun as [_ ->].
  cbn [s_w world_of w_fs] in *.
  apply (makedirs_dirs e cfg ld n _ ld' s4 Epl Hcfg) in H4 as (_ & _ & l & El & Hd);
    [| exact Hroot | exact HP | now apply (msim_paths cfg (wo_fs w)) ].
  unfold layer_named, layers_on_disk in Ex.
  destruct (msim_get_some _ _ _ _ Hsim Ex) as (l' & El' & Hs). rewrite El in El'. injection El' as <-.
  rewrite <- (dirs_ok_lsim cfg _ x l Hs) in Hd. exact Hd.
Qed.

(* ------------------------------------------------------------------ (d) own mounts never error *)
Lemma refresh_mounts_msim_st c ld s ld' s' : refresh_mounts c ld s = (Ret ld', s') ->
  s' = s /\ msim_st (ld_map ld) (ld_map ld') /\ ld_order ld' = ld_order ld
  /\ ld_probe ld' = probe_of (w_ks (s_w s)).
Proof.
  intros H. apply refresh_mounts_inv in H as (-> & ms & ds & Hp & ->). cbn [ld_map ld_order ld_probe].
  split; [reflexivity|]. split; [apply msim_st_map_overlain|]. split; [reflexivity|now rewrite Hp].
Qed.

(* the import loop of mount_one, named (convertible to the model's local fix) *)
Definition mount_loop e (c : cfgT) : list xmount -> ldefs -> M ldefs :=
  fix go (xs : list xmount) (ld : ldefs) : M ldefs :=
    match xs with
    | [] => ret ld
    | x :: r =>
      match get_mount (pr_mounts (ld_probe ld)) (x_mount x) with
      | Some mnt =>
        if source_is_expected (pr_devs (ld_probe ld)) mnt (x_source x) then go r ld else fail
      | None =>
        f <- get_fs ;;
        (if exists_ f (x_source x) then ret tt
         else if in_any_layer_dir 64 (c_layers c) (x_source x) then fs_mkdir e (x_source x)
         else fail) ;;;
        fs_mount e (x_source x) (x_mount x) (x_fstype x) [] ;;;
        ld' <- refresh_mounts c ld ;;
        go r ld'
      end
    end.

Lemma mount_loop_msim_st e c xs : forall ld s ld' s',
  mount_loop e c xs ld s = (Ret ld', s') -> msim_st (ld_map ld) (ld_map ld').
Proof.
  induction xs as [|x r IH]; intros ld s ld' s' H; cbn [mount_loop] in H.
  - apply ret_inv in H as [-> _]. apply msim_st_refl.
  - destruct (get_mount (pr_mounts (ld_probe ld)) (x_mount x)) as [mnt|].
    + destruct (source_is_expected _ mnt (x_source x)); [now apply (IH _ _ _ _ H)|discriminate].
    + apply bind_inv in H as (f & s1 & H1 & H). apply bind_inv in H as (u2 & s2 & H2 & H).
      apply bind_inv in H as (u3 & s3 & H3 & H). apply bind_inv in H as (ld1 & s4 & H4 & H).
      apply refresh_mounts_msim_st in H4 as (_ & Hm & _).
      eapply msim_st_trans; [exact Hm|now apply (IH _ _ _ _ H)].
Qed.

Lemma mount_one_inv e c ld name s ld' s' : mount_one e c ld name s = (Ret ld', s') ->
  exists ld1 l1, msim_st (ld_map ld) (ld_map ld1) /\ lm_get (ld_map ld1) name = Some l1
  /\ ld_probe ld1 = probe_of (w_ks (s_w s'))
  /\ (l_state (find_layerstate c (w_fs (s_w s')) ld1 l1) =? st_error) = false
  /\ ld' = set_layer ld1 (find_layerstate c (w_fs (s_w s')) ld1 l1).
Proof.
  unfold mount_one. destruct (lm_get (ld_map ld) name) as [l|]; [|discriminate].
  intros H. apply bind_inv in H as (u0 & s0 & H0 & H). apply bind_inv in H as (lda & s1 & H1 & H).
  assert (Ha : msim_st (ld_map ld) (ld_map lda)).
  { destruct (l_base l) as [|b0 br]; [apply ret_inv in H1 as [-> _]; apply msim_st_refl|].
    destruct (get_mount _ (build_path c l)); [apply ret_inv in H1 as [-> _]; apply msim_st_refl|].
    destruct (lm_get (ld_map ld) (b0 :: br)); [|discriminate].
    apply bind_inv in H1 as (u & sx & _ & H1). now apply refresh_mounts_msim_st in H1 as (_ & Hm & _). }
  destruct (expand_config_mounts c (ld_map lda) l) as [xs|]; [|discriminate].
  apply bind_inv in H as (ld0 & s2 & H2 & H).
  change (mount_loop e c xs lda s1 = (Ret ld0, s2)) in H2. apply mount_loop_msim_st in H2.
  apply bind_inv in H as (ld1 & s3 & H3 & H). apply refresh_mounts_msim_st in H3 as (-> & Hm & _ & Hp).
  apply bind_inv in H as (f & s4 & H4 & H). apply get_fs_inv in H4 as [-> ->].
  destruct (lm_get (ld_map ld1) name) as [l1|] eqn:E1; [|discriminate].
  apply bind_inv in H as (u5 & s5 & H5 & H). apply guard_inv in H5 as [Hg ->].
  apply ret_inv in H as [-> ->]. exists ld1, l1.
  split; [eapply msim_st_trans; [exact Ha|eapply msim_st_trans; eassumption]|]. split; [exact E1|]. split; [exact Hp|].
  split; [now apply negb_true_iff in Hg|reflexivity].
Qed.

(* the layer found under [nm] is not in error *)
Definition not_error (ld : ldefs) (nm : bytes) : Prop :=
  exists l, lm_get (ld_map ld) nm = Some l /\ (l_state l =? st_error) = false.

Lemma mount_one_not_error e c ld name s ld' s' : mount_one e c ld name s = (Ret ld', s') ->
  not_error ld' name /\ forall nm, not_error ld nm -> not_error ld' nm.
Proof.
  intros H. apply mount_one_inv in H as (ld1 & l1 & Hm & E1 & _ & Hne & ->).
  set (l2 := find_layerstate c (w_fs (s_w s')) ld1 l1) in *.
  assert (Hn2 : l_name l2 = name).
  { destruct (find_layerstate_lsim c (w_fs (s_w s')) ld1 l1) as (Hn & _). fold l2 in Hn.
    rewrite <- Hn. now apply (lm_get_name (ld_map ld1)). }
  assert (Hsame : not_error (set_layer ld1 l2) name).
  { exists l2. cbn [set_layer ld_map]. rewrite <- Hn2 at 1. split; [apply lm_get_set_same|exact Hne]. }
  split; [exact Hsame|]. intros nm (l & El & Hl).
  destruct (beq name nm) eqn:E; [apply beq_true in E; subst nm; exact Hsame|].
  apply beq_false in E. destruct (msim_st_get_some _ _ _ _ Hm El) as (l' & El' & (_ & Hst)).
  exists l'. cbn [set_layer ld_map]. rewrite lm_get_set_other by congruence. split; [exact El'|congruence].
Qed.

Lemma foldM_mount_one_not_error e c chain : forall ld s ld' s',
  foldM (fun ld x => mount_one e c ld (l_name x)) chain ld s = (Ret ld', s') ->
  (forall x, In x chain -> not_error ld' (l_name x)) /\ forall nm, not_error ld nm -> not_error ld' nm.
Proof.
  induction chain as [|y r IH]; intros ld s ld' s' H; cbn [foldM] in H.
  - apply ret_inv in H as [-> _]. split; [intros x []|auto].
  - apply bind_inv in H as (ld1 & s1 & H1 & H). apply mount_one_not_error in H1 as [Hy Hk].
    apply IH in H as [Hr Hk2]. split; [|auto]. intros x [<-|Hx]; [auto|now apply Hr].
Qed.

Lemma existsb_ins_lobs g x l : existsb g (ins_lobs x l) = g x || existsb g l.
Proof.
  induction l as [|y r IH]; cbn [ins_lobs existsb]; [reflexivity|].
  destruct (ltb (lo_name y) (lo_name x)); cbn [existsb]; [|reflexivity].
  rewrite IH. destruct (g x), (g y); reflexivity.
Qed.
Lemma existsb_sort_lobs g l : existsb g (sort_lobs l) = existsb g l.
Proof.
  unfold sort_lobs. induction l as [|x r IH]; cbn [fold_right existsb]; [reflexivity|].
  now rewrite existsb_ins_lobs, IH.
Qed.

Lemma Forall2_in_l {A B} (R : A -> B -> Prop) l l' x : Forall2 R l l' -> In x l -> exists y, In y l' /\ R x y.
Proof.
  induction 1 as [|a b r r' Hab _ IH]; intros Hin; [destruct Hin|].
  destruct Hin as [<-|Hin]; [exists b; split; [now left|exact Hab]|].
  destruct (IH Hin) as (y & H1 & H2). exists y. split; [now right|exact H2].
Qed.

Lemma mount_layer_not_error e c ld name s ld' s' chain :
  mount_layer e c ld name s = (Ret ld', s') ->
  ancestors_and_self (S (length (ld_map ld))) (ld_map ld) name [] = Some chain ->
  forall x, In x chain -> not_error ld' (l_name x).
Proof.
  unfold mount_layer. intros H Hc.
  apply bind_inv in H as (u0 & s0 & H0 & H).
  destruct (lm_get (ld_map ld) name) as [l|]; [|discriminate].
  apply bind_inv in H as (u1 & s1 & H1 & H). rewrite Hc in H.
  apply bind_inv in H as (ld1 & s2 & H2 & H). apply bind_inv in H as (ld2 & s3 & H3 & H).
  apply bind_inv in H as (u4 & s4 & H4 & H). apply ret_inv in H as [-> _].
  apply foldM_mount_one_not_error in H3 as [H3 _]. exact H3.
Qed.

Theorem own_mounts_never_error cfg w e n um :
  C08.step_spec cfg w (view_of_model cfg w e (CMount n) um) = true.
Proof.
  unfold view_of_model.
  destruct (run e cfg um (CMount n) (world_of w)) as [o st] eqn:Erun.
  unfold C08.step_spec. cbn [v_env v_cmd v_res v_layers v_after wo_fs].
  destruct (plain_env e) eqn:Epl; [|reflexivity]. cbn [negb].
  destruct o as [r| | | |]; try reflexivity. cbn [rclass_of].
  destruct r as [ld'|]; [|reflexivity].
  unfold run, run_command in Erun.
  apply bind_inv in Erun as (f & s1 & H1 & Erun). apply get_fs_inv in H1 as [-> ->].
  apply bind_inv in Erun as (u2 & s2 & H2 & Erun). apply guard_inv in H2 as [_ ->].
  apply bind_inv in Erun as (ld & s3 & H3 & Erun).
  apply get_layers_facts in H3 as (-> & Hsim & _).
  apply bind_inv in Erun as (ld2 & s4 & H4 & Erun). apply ret_inv in Erun as [E ->].
  injection E as ->. cbn [s_w world_of w_fs] in *.
  apply forallb_forall. intros x Hx.
  unfold chain, layers_on_disk in Hx.
  pose proof (msim_ancestors _ _ Hsim (S (length (read_layer_files cfg (wo_fs w)))) n [] [] (Forall2_nil _)) as Ha.
  destruct (ancestors_and_self (S (length (read_layer_files cfg (wo_fs w)))) (read_layer_files cfg (wo_fs w)) n [])
    as [ch|] eqn:Ech; [|destruct Hx].
  rewrite (msim_length _ _ Hsim) in Ha.
  destruct (ancestors_and_self (S (length (ld_map ld))) (ld_map ld) n []) as [ch'|] eqn:Ech'; [|contradiction].
  destruct (Forall2_in_l _ _ _ _ Ha Hx) as (y & Hy & (Hn & _)).
  destruct (mount_layer_not_error _ _ _ _ _ _ _ _ H4 Ech' y Hy) as (l & El & Hl).
  rewrite existsb_sort_lobs. apply existsb_exists. exists (lobs_of l). split.
  - apply in_map. now apply (lm_get_in _ (l_name y)).
  - cbn [lobs_of lo_name lo_state]. rewrite (lm_get_name _ _ _ El), Hn, beq_refl, Hl. reflexivity.
Qed.
