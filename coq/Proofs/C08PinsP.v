(* C08 -- constants of Gen/Consts.v (rewritten from the source of /repo by tools/genconsts on
   every run) compared with literals, one lemma per constant so that the failing line names it.
   Used by: the predicate C08.spec (layerconfig) and the state classification of Model/Layers.v / Model/MountInfo.v.
   A changed constant makes this file fail to build; the check then reports
   "proof obligation no longer checks" for Properties/C08.v (C08_constants_pinned) instead of
   letting model, predicate and code move together unnoticed.  The literals are repeated, with
   their sources, in the statement of C08_constants_pinned. *)
From LC Require Import Lib.Bytes Gen.Consts.
Local Open Scope string_scope.

Lemma pin_D_LayerconfigFile :
  D_LayerconfigFile = bs "layerconfig".
Proof. (vm_compute; reflexivity) || fail "D_LayerconfigFile of the source tree differs from the reviewed literal (C08_constants_pinned)". Qed.

Lemma pin_D_MinimalBuildDirs :
  D_MinimalBuildDirs = bs "bin etc lib opt root sbin usr".
Proof. (vm_compute; reflexivity) || fail "D_MinimalBuildDirs of the source tree differs from the reviewed literal (C08_constants_pinned)". Qed.

Lemma pin_D_ShadowingFsTypes :
  D_ShadowingFsTypes = bs "devtmpfs sysfs".
Proof. (vm_compute; reflexivity) || fail "D_ShadowingFsTypes of the source tree differs from the reviewed literal (C08_constants_pinned)". Qed.

Definition c08_constants_pinned := conj pin_D_LayerconfigFile (conj pin_D_MinimalBuildDirs pin_D_ShadowingFsTypes).
