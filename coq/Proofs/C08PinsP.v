(* C08 -- constants of Gen/Consts.v (rewritten from the source of /repo by tools/genconsts on
   every run) compared with literals.  Used by: the predicate C08.spec (layerconfig) and the state classification of Model/Layers.v / Model/MountInfo.v.
   A changed constant makes this file fail to build; the check then reports
   "proof obligation no longer checks" for Properties/C08.v (C08_constants_pinned) instead of
   letting model, predicate and code move together unnoticed. *)
From LC Require Import Lib.Bytes Gen.Consts.
Local Open Scope string_scope.

Lemma c08_constants_pinned :
  (* doc/layercake_directories.adoc, manual page LAYER DIRECTORY: "layerconfig" *)
  D_LayerconfigFile = bs "layerconfig" /\
  (* manual page, status, "not yet populated": bin, etc, lib, opt, root, sbin, usr *)
  D_MinimalBuildDirs = bs "bin etc lib opt root sbin usr" /\
  (* frozen from the reviewed tree; property C12 text: "mounts below a /dev or /sys style tree are recognised as shadowed submounts" *)
  D_ShadowingFsTypes = bs "devtmpfs sysfs".
Proof. repeat split; vm_compute; reflexivity. Qed.
