(* C08 (b): ProbeAllLayerstate, layer by layer in normalized order, computes the documented
   states [C08.doc_states]; the CProbe clause of C08.step_spec holds of the model. *)
From LC Require Import Lib.Bytes Lib.Lex Lib.Fields Lib.PathM Gen.Consts
  Model.MountInfo Model.FsTree Model.Kernel Model.Layers Cases.Verdict Cases.LC Cases.C08
  Proofs.MountInfoP Proofs.PlainRunP Proofs.LayerMapP Proofs.LayerStateP
  Proofs.StateForestP Proofs.ViewP Proofs.C08FoldP Proofs.C08DocP Proofs.C08P Proofs.LayerNamesP.
From Coq Require Import Sorting.Permutation.
Open Scope N_scope.
Import LC LCS.

(* ------------------------------------------------------------------ normalizeOrder permutes the names *)
Lemma keyed_insert_perm x l : Permutation (keyed_insert x l) (x :: l).
Proof.
  induction l as [|y r IH]; cbn [keyed_insert]; [apply Permutation_refl|].
  destruct (ltb (fst y) (fst x)); [|apply Permutation_refl].
  eapply Permutation_trans; [apply perm_skip, IH|apply perm_swap].
Qed.
Lemma keyed_sort_perm l : Permutation (fold_right keyed_insert [] l) l.
Proof.
  induction l as [|x r IH]; cbn [fold_right]; [constructor|].
  eapply Permutation_trans; [apply keyed_insert_perm|now apply perm_skip].
Qed.

Lemma keyed_names (key : layer -> option (bytes * bytes)) (l : list layer) :
  (forall x kv, key x = Some kv -> snd kv = l_name x) ->
  forallb (fun x => match x with Some _ => true | None => false end) (map key l) = true ->
  map snd (flat_map (fun x => match x with Some kv => [kv] | None => [] end) (map key l)) = map l_name l.
Proof.
  intros Hk. induction l as [|a r IH]; [reflexivity|]. cbn [map flat_map forallb].
  intros E. apply andb_true_iff in E as [E1 E2]. rewrite map_app, (IH E2).
  destruct (key a) as [kv|] eqn:Ea; [|discriminate]. cbn [map app]. now rewrite (Hk _ _ Ea).
Qed.

Lemma normalize_order_perm m o : normalize_order m = Some o -> Permutation o (map l_name m).
Proof.
  unfold normalize_order.
  set (key := fun l => match sort_key (S (length m)) m l (l_name l) with
                       | Some k => Some (k, l_name l) | None => None end).
  destruct (forallb _ (map key m)) eqn:E; [|discriminate]. intros H. injection H as <-.
  eapply Permutation_trans; [apply Permutation_map, keyed_sort_perm|].
  rewrite (keyed_names key m); [apply Permutation_refl| |exact E].
  intros x kv. unfold key. destruct (sort_key _ _ x (l_name x)); [|discriminate].
  intros H. injection H as <-. reflexivity.
Qed.

(* ------------------------------------------------------------------ association lists of states *)
Lemma assoc_app_some acc r k v : C08.assoc_state acc k = Some v -> C08.assoc_state (acc ++ r) k = Some v.
Proof.
  induction acc as [|[k0 v0] a IH]; cbn [C08.assoc_state app]; [discriminate|].
  destruct (beq k0 k); [auto|exact IH].
Qed.
Lemma assoc_app_none acc r k : C08.assoc_state acc k = None -> C08.assoc_state (acc ++ r) k = C08.assoc_state r k.
Proof.
  induction acc as [|[k0 v0] a IH]; cbn [C08.assoc_state app]; [reflexivity|].
  destruct (beq k0 k); [discriminate|exact IH].
Qed.

(* ------------------------------------------------------------------ updating paired maps *)
Lemma lm_set_same m n l : lm_get m n = Some l -> lm_set m l = m.
Proof.
  intros H. pose proof (lm_get_name _ _ _ H) as Hn. revert H.
  induction m as [|y r IH]; cbn [lm_get lm_set]; [discriminate|]. rewrite Hn.
  destruct (beq (l_name y) n); [intros E; now injection E as ->|]. intros E. now rewrite (IH E).
Qed.

Lemma F2_get (R : layer -> layer -> Prop) m m' n x :
  (forall a b, R a b -> l_name a = l_name b) ->
  Forall2 R m m' -> lm_get m n = Some x -> exists l, lm_get m' n = Some l /\ R x l.
Proof.
  intros HR. induction 1 as [|a b r r' Hab _ IH]; cbn [lm_get]; [discriminate|].
  rewrite <- (HR _ _ Hab). destruct (beq (l_name a) n); [|exact IH].
  intros E. injection E as <-. eauto.
Qed.

Lemma F2_impl_in {A B} (R R' : A -> B -> Prop) l l' :
  Forall2 R l l' -> (forall a b, In a l -> R a b -> R' a b) -> Forall2 R' l l'.
Proof.
  induction 1 as [|a b r r' Hab _ IH]; intros H; constructor.
  - apply H; [now left|exact Hab].
  - apply IH. intros a' b' Hin. apply H. now right.
Qed.

Lemma F2_set (R R' : layer -> layer -> Prop) m m' n x l'' :
  (forall a b, R a b -> l_name a = l_name b) ->
  NoDup (map l_name m) -> Forall2 R m m' -> lm_get m n = Some x -> l_name l'' = n ->
  (forall a b, R a b -> l_name a <> n -> R' a b) -> R' x l'' ->
  Forall2 R' m (lm_set m' l'').
Proof.
  intros HR Hnd HF Hx Hn Hoth Hnew. revert Hnd Hx.
  induction HF as [|a b r r' Hab Hrest IH]; cbn [lm_get lm_set map]; [discriminate|].
  intros Hnd Hx. inversion Hnd as [|? ? Hnotin Hnd']; subst.
  rewrite <- (HR _ _ Hab). destruct (beq (l_name a) (l_name l'')) eqn:E.
  - injection Hx as ->. constructor; [exact Hnew|]. apply beq_true in E.
    apply (F2_impl_in R R' _ _ Hrest). intros a' b' Hin Hab'. apply Hoth; [exact Hab'|].
    intros Heq. apply Hnotin. rewrite E, <- Heq. now apply in_map.
  - constructor; [|now apply IH]. apply Hoth; [exact Hab|]. now apply beq_false in E.
Qed.

Lemma Forall2_in_r {A B} (R : A -> B -> Prop) l l' y : Forall2 R l l' -> In y l' -> exists x, In x l /\ R x y.
Proof.
  induction 1 as [|a b r r' Hab _ IH]; intros Hin; [destruct Hin|].
  destruct Hin as [<-|Hin]; [exists a; split; [now left|exact Hab]|].
  destruct (IH Hin) as (x & H1 & H2). exists x. split; [now right|exact H2].
Qed.

Lemma forallb_ins_lobs g x l : forallb g (ins_lobs x l) = g x && forallb g l.
Proof.
  induction l as [|y r IH]; cbn [ins_lobs forallb]; [reflexivity|].
  destruct (ltb (lo_name y) (lo_name x)); cbn [forallb]; [|reflexivity].
  rewrite IH. destruct (g x), (g y); reflexivity.
Qed.
Lemma forallb_sort_lobs g l : forallb g (sort_lobs l) = forallb g l.
Proof.
  unfold sort_lobs. induction l as [|x r IH]; cbn [fold_right forallb]; [reflexivity|].
  now rewrite forallb_ins_lobs, IH.
Qed.
Lemma length_ins_lobs x l : length (ins_lobs x l) = S (length l).
Proof. induction l as [|y r IH]; cbn [ins_lobs length]; [reflexivity|]. destruct (ltb _ _); cbn [length]; congruence. Qed.
Lemma length_sort_lobs l : length (sort_lobs l) = length l.
Proof. unfold sort_lobs. induction l as [|x r IH]; cbn [fold_right length]; [reflexivity|]. now rewrite length_ins_lobs, IH. Qed.

Lemma probed_overlain c f um ld l : l_overlain (probed c f um ld l) = l_overlain l.
Proof.
  unfold probed. destruct (l_state l =? st_error); [reflexivity|].
  destruct (negb (is_dir f (build_path c l))); [reflexivity|].
  destruct (match l_base l with [] => false | _ => true end
            && (negb (is_dir f (work_path c l)) || negb (is_dir f (upper_path c l)))); [reflexivity|].
  destruct (find_layerstate_flags c f ld
              (set_state (set_kmounts (classify_users c l (users_of um (l_name l)))
                                      (mounts_at_or_below (ld_probe ld) (build_path c l))) st_complete))
    as (_ & _ & H & _).
  exact H.
Qed.

(* ------------------------------------------------------------------ hypotheses of the theorem *)
Definition all_imports (P : emount -> bool) (c : cfgT) (f : fsT) : bool :=
  forallb (fun x => forallb P (imports_of c (chain c f (l_name x)) x)) (layers_on_disk c f).

(* GetMountSources (the model) and the kernel identity of a mount (the specification) agree on
   every mount that sits on a configured import mountpoint *)
Definition sources_agree (c : cfgT) (w : wobs) : bool :=
  all_imports (src_agree_one (ks_tab (wo_ks w))) c (wo_fs w).
(* the 64 path.Dir steps of the model's inAnyLayerDirectory are enough *)
Definition dir_test_agrees (c : cfgT) (w : wobs) : bool :=
  all_imports (dir_test_one c) c (wo_fs w).
(* no import mountpoint with a missing host source directory that still carries the configured
   mount (layercake calls ANY mount there incorrect, the documented state is "inhabited") *)
Definition no_shown_on_missing_source (c : cfgT) (w : wobs) : bool :=
  all_imports (no_shown_one c (wo_fs w) (ks_tab (wo_ks w))) c (wo_fs w).
(* no two layer directories with the same name *)
Definition layer_names_distinct (c : cfgT) (w : wobs) : bool :=
  nodup_paths (map l_name (layers_on_disk c (wo_fs w))).

Lemma nodup_paths_NoDup l : nodup_paths l = true -> NoDup l.
Proof.
  induction l as [|x r IH]; cbn [nodup_paths]; [constructor|]. intros H.
  apply andb_true_iff in H as [H1 H2]. constructor; [|now apply IH].
  apply negb_true_iff in H1. unfold memb in H1. intros Hin.
  assert (existsb (beq x) r = true) by (apply existsb_exists; exists x; split; [exact Hin|apply beq_refl]).
  congruence.
Qed.

(* ------------------------------------------------------------------ the simulation *)
Section Sim.
Variables (c : cfgT) (f : fsT) (tab : list kline) (um : users_map) (ms : list mount).
Let m := read_layer_files c f.
Hypothesis Hci : check_inheritance m = true.
Hypothesis Hdirs : cfg_dirs_ok c = true.
Hypothesis Hms : Forall2 mrel tab ms.
Hypothesis Hnd : NoDup (map l_name m).
Hypothesis Hne : forall x, In x m -> l_name x <> [].
Hypothesis Himp : forall x, In x m -> forallb (import_ok c f tab) (imports_of c (chain c f (l_name x)) x) = true.

Definition pairrel (acc : list (bytes * N)) (x l : layer) : Prop :=
  lsim x l /\ l_overlain l = overlain_by_mount c tab x
  /\ match C08.assoc_state acc (l_name x) with Some d => l_state l = d | None => l_state l = l_state x end.

Definition Inv (acc : list (bytes * N)) (ld : ldefs) : Prop :=
  ld_probe ld = POk ms (devs_of tab [])
  /\ Forall2 (pairrel acc) m (ld_map ld)
  /\ forall n', lm_get m n' = None -> C08.assoc_state acc n' = None.

Definition dstep (acc : list (bytes * N)) (n : bytes) : list (bytes * N) :=
  match lm_get m n with
  | None => acc
  | Some x =>
    let ps := match l_base x with [] => None | b0 => C08.assoc_state acc b0 end in
    acc ++ [(n, C08.doc_state_one c f tab um m (chain c f n) ps x)]
  end.

Lemma pairrel_name acc a b : pairrel acc a b -> l_name a = l_name b.
Proof. intros ((H & _) & _). exact H. Qed.

Lemma Inv_msim acc ld : Inv acc ld -> msim m (ld_map ld).
Proof. intros (_ & H & _). apply (F2_impl_in _ _ _ _ H). intros a b _ (Hs & _). exact Hs. Qed.

Lemma step_Inv acc ld n x : Inv acc ld -> lm_get m n = Some x -> C08.assoc_state acc n = None ->
  Inv (dstep acc n) (probe_layer c f um ld n)
  /\ exists d, dstep acc n = acc ++ [(n, d)].
Proof.
  intros HI Hx Hacc. pose proof (Inv_msim _ _ HI) as Hmsim. destruct HI as (Hp & HF & Hout).
  pose proof (lm_get_name _ _ _ Hx) as Hxn. pose proof (lm_get_in _ _ _ Hx) as Hxin.
  destruct (F2_get _ _ _ _ _ (pairrel_name acc) HF Hx) as (l & El & (Hl & Hov & Hst)).
  rewrite Hxn, Hacc in Hst.
  unfold dstep. rewrite Hx.
  set (ps := match l_base x with [] => None | b0 => C08.assoc_state acc b0 end).
  set (d := C08.doc_state_one c f tab um m (chain c f n) ps x).
  split; [|exists d; reflexivity].
  assert (Hassoc_n : C08.assoc_state (acc ++ [(n, d)]) n = Some d).
  { rewrite assoc_app_none by assumption. cbn [C08.assoc_state]. now rewrite beq_refl. }
  assert (Hassoc_o : forall n', n' <> n -> C08.assoc_state (acc ++ [(n, d)]) n' = C08.assoc_state acc n').
  { intros n' Hn'. destruct (C08.assoc_state acc n') eqn:E.
    - now apply assoc_app_some.
    - rewrite assoc_app_none by assumption. cbn [C08.assoc_state].
      assert (beq n n' = false) by (apply beq_false; congruence). now rewrite H. }
  assert (Hoth : forall a b, pairrel acc a b -> l_name a <> n -> pairrel (acc ++ [(n, d)]) a b).
  { intros a b (Ha1 & Ha2 & Ha3) Hna. split; [exact Ha1|]. split; [exact Ha2|]. now rewrite Hassoc_o. }
  assert (Hout' : forall n', lm_get m n' = None -> C08.assoc_state (acc ++ [(n, d)]) n' = None).
  { intros n' Hn'. rewrite Hassoc_o; [now apply Hout|]. intros ->. congruence. }
  rewrite probe_layer_eq, El. cbn [ld_probe ld_map]. split; [exact Hp|]. split; [|exact Hout'].
  apply (F2_set (pairrel acc) (pairrel (acc ++ [(n, d)])) m (ld_map ld) n x _ (pairrel_name acc) Hnd HF Hx).
  - destruct (probed_lsim c f um ld l) as (Hpn & _). rewrite <- Hpn. now apply (lm_get_name _ _ _ El).
  - exact Hoth.
  - split; [eapply lsim_trans; [exact Hl|apply probed_lsim]|].
    split; [now rewrite probed_overlain|]. rewrite Hxn, Hassoc_n.
    destruct (l_state x =? st_error) eqn:Eerr.
    + (* the layerconfig did not load cleanly: users and mounts are recorded, the state stays *)
      unfold d. rewrite doc_state_one_eq, Eerr. unfold probed. rewrite Hst, Eerr.
      cbn [set_kmounts classify_users set_busy l_state]. rewrite Hst. now apply N.eqb_eq.
    + unfold d.
      apply (probed_state_doc c f tab um ld ms n x l ps Hci Hdirs Hmsim Hp Hms Hx).
      * rewrite <- Hxn. now apply Hne.
      * rewrite <- Hxn. now apply Himp.
      * exact Hl.
      * exact Hov.
      * intros Hb. unfold ps, parent_rel. destruct (l_base x) as [|b0 br] eqn:Eb; [congruence|].
        destruct (C08.assoc_state acc (b0 :: br)) as [p|] eqn:Ep.
        -- destruct (lm_get m (b0 :: br)) as [xb|] eqn:Exb; [|rewrite (Hout _ Exb) in Ep; discriminate].
           destruct (F2_get _ _ _ _ _ (pairrel_name acc) HF Exb) as (bl & Ebl & (_ & _ & Hbst)).
           rewrite (lm_get_name _ _ _ Exb), Ep in Hbst. eauto.
        -- destruct (lm_get (ld_map ld) (b0 :: br)) as [bl|] eqn:Ebl; [|exact I].
           pose proof (msim_get _ _ (b0 :: br) Hmsim) as G. rewrite Ebl in G.
           destruct (lm_get m (b0 :: br)) as [xb|] eqn:Exb; [|contradiction].
           destruct (F2_get _ _ _ _ _ (pairrel_name acc) HF Exb) as (bl' & Ebl' & (_ & _ & Hbst)).
           rewrite Ebl in Ebl'. injection Ebl' as <-.
           rewrite (lm_get_name _ _ _ Exb), Ep in Hbst. rewrite Hbst.
           destruct (read_layer_files_facts c f xb (lm_get_in _ _ _ Exb)) as [Hlt _].
           unfold st_complete, st_mountable in *. lia.
      * exact Hst.
      * exact Eerr.
Qed.

Lemma fold_Inv ns : NoDup ns -> (forall n, In n ns -> In n (map l_name m)) ->
  forall acc ld, Inv acc ld -> (forall n, In n ns -> C08.assoc_state acc n = None) ->
  Inv (fold_left dstep ns acc) (fold_left (probe_layer c f um) ns ld)
  /\ (forall n, In n ns -> C08.assoc_state (fold_left dstep ns acc) n <> None)
  /\ (forall n, C08.assoc_state acc n <> None -> C08.assoc_state (fold_left dstep ns acc) n <> None)
  /\ length (fold_left dstep ns acc) = (length acc + length ns)%nat.
Proof.
  induction 1 as [|n r Hnotin Hndr IH]; intros Hin acc ld HI Hfresh; cbn [fold_left].
  - split; [exact HI|]. split; [intros n []|]. split; [auto|]. cbn [length]. lia.
  - assert (Hn : In n (map l_name m)) by (apply Hin; now left).
    apply in_map_iff in Hn as (x0 & Hx0n & Hx0).
    destruct (lm_get m n) as [x|] eqn:Ex.
    2:{ exfalso. clear -Ex Hx0 Hx0n. induction m as [|y q IHq]; [destruct Hx0|]. cbn [lm_get] in Ex.
        destruct (beq (l_name y) n) eqn:E; [discriminate|]. destruct Hx0 as [->|Hx0]; [|now apply IHq].
        rewrite Hx0n, beq_refl in E. discriminate. }
    destruct (step_Inv acc ld n x HI Ex (Hfresh n (or_introl eq_refl))) as (HI' & d & Hd).
    destruct (IH (fun n' H' => Hin n' (or_intror H')) _ _ HI') as (G1 & G2 & G3 & G4).
    + intros n' Hn'. rewrite Hd. rewrite assoc_app_none by (apply Hfresh; now right).
      cbn [C08.assoc_state]. assert (beq n n' = false) by (apply beq_false; intros ->; contradiction).
      now rewrite H.
    + split; [exact G1|]. split; [|split].
      * intros n' [<-|Hn']; [|now apply G2]. apply G3. rewrite Hd.
        rewrite assoc_app_none by (apply Hfresh; now left). cbn [C08.assoc_state]. rewrite beq_refl. discriminate.
      * intros n' Hn'. apply G3. rewrite Hd. destruct (C08.assoc_state acc n') eqn:E; [|congruence].
        rewrite (assoc_app_some _ _ _ _ E). discriminate.
      * rewrite G4, Hd, app_length. cbn [length]. lia.
Qed.
End Sim.

Lemma F2_length {A B} (R : A -> B -> Prop) l l' : Forall2 R l l' -> length l = length l'.
Proof. induction 1; cbn [length]; congruence. Qed.

Lemma Forall2_map_r {A} (R : A -> A -> Prop) (g : A -> A) l : (forall x, R x (g x)) -> Forall2 R l (map g l).
Proof. intros H. induction l; cbn [map]; constructor; auto. Qed.

Lemma all_imports_and P Q R c f :
  all_imports P c f = true -> all_imports Q c f = true -> all_imports R c f = true ->
  forall x, In x (layers_on_disk c f) ->
  forallb (fun em => P em && Q em && R em) (imports_of c (chain c f (l_name x)) x) = true.
Proof.
  unfold all_imports. rewrite !forallb_forall. intros HP HQ HR x Hx.
  specialize (HP x Hx). specialize (HQ x Hx). specialize (HR x Hx).
  rewrite forallb_forall in *. intros em Hem. now rewrite (HP em Hem), (HQ em Hem), (HR em Hem).
Qed.

(* ------------------------------------------------------------------ (b) the state is the documented one *)
Theorem state_is_documented_partial cfg w e um :
  wf_table (ks_tab (wo_ks w)) = true ->
  cfg_dirs_ok cfg = true ->
  layer_names_distinct cfg w = true ->
  sources_agree cfg w = true ->
  dir_test_agrees cfg w = true ->
  no_shown_on_missing_source cfg w = true ->
  C08.step_spec cfg w (view_of_model cfg w e CProbe um) = true.
Proof.
  intros Hwt Hdirs Hnames Hsrc Hdt Hnf. unfold view_of_model.
  destruct (run e cfg um CProbe (world_of w)) as [o st] eqn:Erun.
  unfold C08.step_spec. cbn [v_env v_cmd v_res v_layers v_after wo_fs v_users].
  destruct (plain_env e) eqn:Epl; [|reflexivity]. cbn [negb].
  destruct o as [r| | | |]; try reflexivity. cbn [rclass_of].
  destruct r as [ld'|]; [|reflexivity].
  unfold run, run_command in Erun.
  apply bind_inv in Erun as (f0 & s1 & H1 & Erun). apply get_fs_inv in H1 as [-> ->].
  apply bind_inv in Erun as (u2 & s2 & H2 & Erun). apply guard_inv in H2 as [_ ->].
  apply bind_inv in Erun as (ld & s3 & H3 & Erun).
  apply get_layers_inv in H3 as [-> (ld0 & ld1 & H0 & Hr & ->)].
  apply bind_inv in Erun as (ld2 & s4 & H4 & Erun). apply ret_inv in H4 as [-> ->].
  apply ret_inv in Erun as [E ->]. injection E as ->.
  apply find_layers_inv in H0 as (_ & _ & Hci & o & Ho & ->).
  apply refresh_mounts_inv in Hr as (_ & ms & ds & Hp & ->).
  cbn [s_w world_of w_fs w_ks ld_map ld_order] in *.
  set (f := wo_fs w) in *. set (tab := ks_tab (wo_ks w)) in *.
  set (m := read_layer_files cfg f) in *.
  (* the probed table is the view of the structured one *)
  unfold probe_of in Hp. fold tab in Hp. rewrite (probe_render tab Hwt) in Hp.
  destruct (view_spec tab) as (ms' & Hv & Hms). rewrite Hv in Hp. injection Hp as <- <-.
  (* names *)
  unfold layer_names_distinct, layers_on_disk in Hnames. fold f m in Hnames.
  pose proof (nodup_paths_NoDup _ Hnames) as Hnd.
  assert (Hne' : forall x, In x m -> l_name x <> []) by (intros x Hx; now apply (read_layer_files_names cfg f)).
  pose proof (all_imports_and _ _ _ cfg f Hsrc Hdt Hnf) as Himp. unfold layers_on_disk in Himp. fold m in Himp.
  pose proof (normalize_order_perm m o Ho) as Hperm.
  set (ld1 := MkLD (map (fun l => set_overlain l (memb (build_path cfg l)
                      (map m_source (filter (fun m0 => beq (m_fstype m0) overlay) ms')))) m) o
                   (POk ms' (devs_of tab []))).
  assert (HI0 : Inv cfg f tab ms' [] ld1).
  { split; [reflexivity|]. split; [|reflexivity]. cbn [ld_map ld1].
    apply Forall2_map_r. intros x. split; [apply lsim_set_overlain|]. split; [|reflexivity].
    cbn [set_overlain l_overlain]. exact (lows_overlain tab ms' (build_path cfg x) Hms). }
  destruct (fold_Inv cfg f tab um ms' Hci Hdirs Hms Hnd Hne' Himp o) with (acc := @nil (bytes * N)) (ld := ld1)
    as (HI & Hall & _ & Hlen).
  - eapply Permutation_NoDup; [apply Permutation_sym, Hperm|exact Hnd].
  - intros n Hn. eapply Permutation_in; [exact Hperm|exact Hn].
  - exact HI0.
  - reflexivity.
  - change (C08.doc_states cfg f tab um) with
      (match normalize_order m with
       | None => []
       | Some order => fold_left (dstep cfg f tab um) order []
       end).
    rewrite Ho. set (dsl := fold_left (dstep cfg f tab um) o []) in *.
    set (ldf := fold_left (probe_layer cfg f um) o ld1) in *.
    destruct HI as (_ & HF & _).
    apply andb_true_iff. split.
    + rewrite forallb_sort_lobs. apply forallb_forall. intros lo Hlo.
      apply in_map_iff in Hlo as (l & <- & Hl).
      destruct (Forall2_in_r _ _ _ _ HF Hl) as (x & Hx & ((Hn & _) & _ & Hst)).
      cbn [lobs_of lo_name lo_state]. rewrite <- Hn.
      assert (Hin : In (l_name x) o).
      { eapply Permutation_in; [apply Permutation_sym, Hperm|]. now apply in_map. }
      specialize (Hall _ Hin). destruct (C08.assoc_state dsl (l_name x)) as [d|]; [|congruence].
      rewrite Hst. apply N.eqb_refl.
    + rewrite length_sort_lobs, map_length, Hlen. cbn [length].
      rewrite <- (F2_length _ _ _ HF), (Permutation_length Hperm), map_length. apply Nat.eqb_refl.
Qed.
