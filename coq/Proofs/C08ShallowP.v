(* C08: the hypothesis [dir_test_agrees] follows from a purely syntactic one -- every resolved
   import source has at most 64 components -- for a configuration with clean absolute paths. *)
From LC Require Import Lib.Bytes Lib.Lex Lib.Fields Lib.PathM Gen.Consts
  Model.MountInfo Model.FsTree Model.Kernel Model.Layers Cases.Verdict Cases.LC Cases.C08
  Proofs.PathP Proofs.StageWildP Proofs.FsGrowP Proofs.LayerDirP
  Proofs.C08FoldP Proofs.C08DocP Proofs.C08P Proofs.C08ProbeP Proofs.C08MountedP.
Open Scope N_scope.
Import LC LCS.

(* ------------------------------------------------------------------ sources are "" or cleaned rooted paths *)
Definition cleaned (p : bytes) : Prop := exists Z, p = clean Z.
Definition src_shape (s : bytes) : Prop := s = [] \/ exists Y, is_rooted Y = true /\ s = clean Y.

Lemma rooted_clean_arg Z : is_rooted (clean Z) = true -> is_rooted Z = true.
Proof. intros H. destruct (is_rooted Z) eqn:E; [reflexivity|]. now rewrite clean_unrooted in H. Qed.

Lemma adjust_prefixed_shape p cb s : (p = [] \/ cleaned p) -> adjust_prefixed p cb = Some s -> src_shape s.
Proof.
  intros Hp. unfold adjust_prefixed. destruct p as [|a p']; [intros H; injection H as <-; now left|].
  destruct Hp as [Hp|(Z & HZ)]; [discriminate|].
  destruct (span_while is_sigil (a :: p')) as [sigil rest].
  destruct (span_while _ rest) as [name tail].
  set (np := match sigil with [] => Some (a :: p') | _ => _ end).
  assert (Hnp : forall q, np = Some q -> q = [] \/ cleaned q).
  { unfold np. destruct sigil as [|s0 sr].
    - intros q H. injection H as <-. right. now exists Z.
    - destruct (beq (s0 :: sr) (bs "$$")); [|discriminate]. destruct (cb name) as [pre|]; [|discriminate].
      intros q H. injection H as <-. unfold pathjoin. destruct (filter _ [pre; tail]); [now left|right; eexists; reflexivity]. }
  destruct np as [[|ch r]|]; [intros H; injection H as <-; now left| |discriminate].
  destruct (Ascii.eqb ch sl) eqn:E; [|discriminate]. intros H. injection H as <-.
  destruct (Hnp _ eq_refl) as [H|(Z' & HZ')]; [discriminate|]. right. exists Z'. split; [|exact HZ'].
  apply rooted_clean_arg. rewrite <- HZ'. cbn. exact E.
Qed.

Lemma lf_step_cleaned st line : Forall (fun nm => cleaned (nm_source nm)) (lf_mounts st) ->
  Forall (fun nm => cleaned (nm_source nm)) (lf_mounts (lf_step st line)).
Proof.
  intros H. unfold lf_step. destruct (is_comment (trim line)); [exact H|].
  destruct (fields (trim line)) as [|kw args]; [exact H|].
  destruct (beq kw (bs "base")).
  { destruct args as [|b0 ?]; [exact H|]. destruct (lf_base st); [exact H|]. destruct (beq _ b0); exact H. }
  destruct (beq kw (bs "import")).
  { destruct args as [|ty [|src [|mnt ?]]]; try exact H. cbn [lf_mounts]. apply Forall_app. split; [exact H|].
    constructor; [|constructor]. cbn [nm_source]. eexists. reflexivity. }
  destruct (beq kw (bs "export")).
  { destruct args as [|ty [|src [|mnt ?]]]; exact H. }
  exact H.
Qed.

Lemma read_layerfile_cleaned content : Forall (fun nm => cleaned (nm_source nm)) (lf_mounts (read_layerfile content)).
Proof.
  unfold read_layerfile.
  assert (G : forall ls st, Forall (fun nm => cleaned (nm_source nm)) (lf_mounts st) ->
                            Forall (fun nm => cleaned (nm_source nm)) (lf_mounts (fold_left lf_step ls st))).
  { induction ls as [|l r IH]; intros st H; cbn [fold_left]; [exact H|]. apply IH. now apply lf_step_cleaned. }
  apply G. constructor.
Qed.

Lemma read_layer_files_cleaned c f l : In l (read_layer_files c f) ->
  Forall (fun nm => cleaned (nm_source nm)) (l_mounts l).
Proof.
  unfold read_layer_files. induction (Lex.sort (children f (c_layers c))) as [|n r IH]; cbn [fold_right]; [intros []|].
  destruct (legal_name n); [|exact IH]. destruct (load_layer c f n) as [l0|] eqn:E; [|exact IH].
  intros [<-|Hin]; [|now apply IH]. unfold load_layer in E.
  destruct (if is_file f _ then _ else None) as [content|]; [|discriminate]. injection E as <-.
  cbn [l_mounts]. apply read_layerfile_cleaned.
Qed.

Lemma imports_shape c f x ch em : In x (read_layer_files c f) -> In em (imports_of c ch x) -> src_shape (em_source em).
Proof.
  intros Hx Hem. rewrite imports_of_eq in Hem. apply in_flat_map in Hem as (nm & Hnm & Hem).
  pose proof (read_layer_files_cleaned c f x Hx) as HF. rewrite Forall_forall in HF. specialize (HF nm Hnm).
  destruct (resolve_source c ch x (nm_source nm)) as [s|] eqn:E; [|destruct Hem].
  destruct Hem as [<-|[]]. cbn [em_source]. unfold resolve_source in E.
  eapply adjust_prefixed_shape; [right; exact HF|exact E].
Qed.

Lemma at_or_under_nil L : L <> [] -> at_or_under L [] = false.
Proof.
  intros H. unfold at_or_under, under. destruct L as [|a L']; [congruence|].
  change (beq [] (a :: L')) with false. cbn [orb]. destruct (beq (a :: L') root); reflexivity.
Qed.

(* ------------------------------------------------------------------ the syntactic hypothesis *)
Definition shallow_one (em : emount) : bool := (slashes (em_source em) <=? 64)%nat.
Definition sources_shallow (c : cfgT) (w : wobs) : bool := all_imports shallow_one c (wo_fs w).

Lemma dir_test_of_shallow c f x ch em : wf_cfg c = true ->
  In x (read_layer_files c f) -> In em (imports_of c ch x) -> shallow_one em = true -> dir_test_one c em = true.
Proof.
  intros Hcfg Hx Hem Hsh. unfold wf_cfg in Hcfg. rewrite !andb_true_iff in Hcfg.
  destruct Hcfg as [[[[[_ _] HLa] HLc] _] _]. unfold dir_test_one. apply eqb_true_iff.
  destruct (imports_shape c f x ch em Hx Hem) as [E|(Y & HY & E)]; rewrite E.
  - (* unresolved to the empty path *)
    rewrite in_any_eq. destruct (c_layers c) as [|a L'] eqn:EL; [discriminate|]. cbn [length Nat.ltb Nat.leb].
    symmetry. apply at_or_under_nil. discriminate.
  - apply dir_test_clean; [exact HLc|exact HLa|exact HY|].
    unfold shallow_one in Hsh. rewrite E in Hsh. now apply Nat.leb_le in Hsh.
Qed.

Theorem dir_test_agrees_of_shallow c w : wf_cfg c = true -> sources_shallow c w = true -> dir_test_agrees c w = true.
Proof.
  intros Hcfg H. unfold sources_shallow, dir_test_agrees, all_imports in *. rewrite forallb_forall in *.
  intros x Hx. specialize (H x Hx). rewrite forallb_forall in *. intros em Hem.
  eapply dir_test_of_shallow; eauto.
Qed.
