(* C08 (b), second part: the hypothesis [sources_agree] holds whenever what sits on the import
   mountpoints is, by the kernel table, the configured source (layercake's own mounts are:
   Proofs/SourcesP.kmount_bind_shown) and is of a kind GetMountSources can reconstruct.
   The other direction (GetMountSources accepts, the kernel table does not show the source) is the
   documented gap: see the refutation at the end. *)
From LC Require Import Lib.Bytes Lib.Lex Lib.Fields Lib.PathM Gen.Consts
  Model.MountInfo Model.FsTree Model.Kernel Model.Layers Cases.Verdict Cases.LC Cases.C08
  Proofs.ViewP Proofs.C08FoldP Proofs.C08DocP Proofs.C08P Proofs.C08ProbeP Proofs.C08MountedP
  Proofs.SourcesP Proofs.C08ExamplesP.
Open Scope N_scope.
Import LC LCS.

Definition own_mounts_shown (c : cfgT) (w : wobs) : bool :=
  all_imports (import_shown (ks_tab (wo_ks w))) c (wo_fs w).

Theorem sources_agree_of_shown c w :
  regular_table (ks_tab (wo_ks w)) = true -> own_mounts_shown c w = true -> sources_agree c w = true.
Proof.
  intros Hreg H. unfold own_mounts_shown, sources_agree, all_imports in *.
  rewrite forallb_forall in *. intros x Hx. specialize (H x Hx). rewrite forallb_forall in *.
  intros em Hem. apply import_shown_agrees; [exact Hreg|now apply H].
Qed.

(* (b) with [sources_agree] replaced by its sufficient condition *)
Theorem state_is_documented_shown cfg w e um :
  wf_table (ks_tab (wo_ks w)) = true -> regular_table (ks_tab (wo_ks w)) = true ->
  cfg_dirs_ok cfg = true -> layer_names_distinct cfg w = true ->
  own_mounts_shown cfg w = true ->
  dir_test_agrees cfg w = true -> no_shown_on_missing_source cfg w = true ->
  C08.step_spec cfg w (view_of_model cfg w e CProbe um) = true.
Proof.
  intros H1 H2 H3 H4 H5 H6 H7. apply state_is_documented_partial; try assumption.
  now apply sources_agree_of_shown.
Qed.

(* the mounted two-layer stack of Proofs/C08ExamplesP, made by the model's own mount command *)
Example C08_shown_nontrivial :
  regular_table (ks_tab (wo_ks ex_w1)) = true /\ own_mounts_shown ex_cfg ex_w1 = true.
Proof. vm_compute. split; reflexivity. Qed.

(* the same stack with the base path on a bind mount (root /data/b): the imports are binds of
   directories inside a mount of a subtree -- recognised through the subroots of the device *)
Definition bindbase_line : kline :=
  MkK (bs "2") (bs "1") (bs "8:1") (bs "/data/b") (bs "/b") (bs "rw,relatime") [] (bs "ext4") (bs "/dev/sda1") [(bs "rw", None)].
Definition ex_fs_sub : fsT :=
  ex_fs ++ dirs ["/b/host"; "/b/host/src"]%string.
Definition relayer (s : bytes) : node := File (s ++ [nl]).
Definition ex_fs_sub' : fsT :=
  fs_set (fs_set ex_fs_sub (bs "/b/layers/base/layerconfig") (relayer (bs "import bind /b/host/src /mnt")))
         (bs "/b/layers/dev/layerconfig")
         (File (bs "base base" ++ [nl; nl] ++ bs "import bind /b/host/src /mnt" ++ [nl])).
Definition ex_ws0 : wobs := MkWO ex_fs_sub' (MkKS [root_line; bindbase_line] 3 1).
Definition ex_ws1 : wobs := v_after (view_of_model ex_cfg ex_ws0 ex_env (CMount (bs "dev")) []).
Example C08_shown_subroot :
  v_res (view_of_model ex_cfg ex_ws0 ex_env (CMount (bs "dev")) []) = ROk
  /\ map k_root (ks_tab (wo_ks ex_ws1))
     = [bs "/"; bs "/data/b"; bs "/data/b/host/src"; bs "/"; bs "/data/b/host/src"]
  /\ regular_table (ks_tab (wo_ks ex_ws1)) = true /\ own_mounts_shown ex_cfg ex_ws1 = true
  /\ states ex_cfg ex_ws1 [] = Some [(bs "base", st_mounted_busy); (bs "dev", st_mounted)]
  /\ probe_spec ex_cfg ex_ws1 [] = true.
Proof. vm_compute. repeat split; reflexivity. Qed.

(* ------------------------------------------------------------------ binds out of an overlay *)
(* 6. (round 1: refuted, probable defect; repaired in round 2) derived layer "dev" imports a
      directory of its own build root.  The bind is taken out of the overlay mount, so its
      mountinfo line has type overlay and the overlay's options, with root /opt; GetMountSources
      now takes the lower directory as source only for root "/" and reconstructs the bind through
      the device's roots.  `mount dev` succeeds, status reports mounted, the table (built only by
      the kernel model) satisfies own_mounts_shown. *)
Definition fs_ovl : fsT :=
  fs_set ex_fs (bs "/b/layers/dev/layerconfig")
         (File (bs "base base" ++ [nl; nl] ++ bs "import bind /b/layers/dev/build/opt /mnt" ++ [nl])).
Definition w_ovl0 : wobs := MkWO fs_ovl (MkKS [root_line] 2 1).
Definition w_ovl1 : wobs := v_after (view_of_model ex_cfg w_ovl0 ex_env (CMount (bs "dev")) []).
Example C08_bind_out_of_overlay_is_mounted :
  v_res (view_of_model ex_cfg w_ovl0 ex_env (CMount (bs "dev")) []) = ROk
  /\ map (fun k => (k_mp k, k_fstype k, k_root k)) (ks_tab (wo_ks w_ovl1))
     = [(bs "/", bs "ext4", bs "/"); (bs "/b/layers/base/build/mnt", bs "ext4", bs "/host/src");
        (bs "/b/layers/dev/build", bs "overlay", bs "/"); (bs "/b/layers/dev/build/mnt", bs "overlay", bs "/opt")]
  /\ hyps ex_cfg w_ovl1 = [true; true; true; true; true; true]
  /\ regular_table (ks_tab (wo_ks w_ovl1)) = true /\ own_mounts_shown ex_cfg w_ovl1 = true
  /\ states ex_cfg w_ovl1 [] = Some [(bs "base", st_mounted_busy); (bs "dev", st_mounted)]
  /\ probe_spec ex_cfg w_ovl1 [] = true.
Proof. vm_compute. repeat split; reflexivity. Qed.

(* ------------------------------------------------------------------ the gap *)
(* GetMountSources accepts more than the kernel identity shows: the source string of the device
   is a candidate for every mount that shows the root of its file system, and for bind imports
   the type is not compared.  `import bind /host/src /mnt` with `mount -t tmpfs /host/src <mnt>`
   made by hand: layercake says mounted, but that mount is no bind of /host/src (documented: error). *)
Definition tmpfs_as_src : kline :=
  MkK (bs "2") (bs "1") (bs "0:30") (bs "/") (bs "/b/layers/base/build/mnt") (bs "rw,relatime") []
      (bs "tmpfs") (bs "/host/src") [(bs "rw", None)].
Definition w_devname : wobs :=
  MkWO (base_fs (bs "import bind /host/src /mnt")) (MkKS [root_line; tmpfs_as_src] 3 31).
Example C08_refuted_device_name :
  hyps ex_cfg w_devname = [true; true; true; false; true; true]
  /\ own_mounts_shown ex_cfg w_devname = false
  /\ states ex_cfg w_devname [] = Some [(bs "base", st_mounted)]
  /\ C08.doc_states ex_cfg (wo_fs w_devname) (ks_tab (wo_ks w_devname)) [] = [(bs "base", st_error)]
  /\ probe_spec ex_cfg w_devname [] = false.
Proof. vm_compute. repeat split; reflexivity. Qed.
