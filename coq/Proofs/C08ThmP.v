(* C08: the clauses together, and the statements with the derived hypotheses replaced by their
   syntactic sufficient conditions (Proofs/C08ShallowP.v, Proofs/C08SourcesP.v). *)
From LC Require Import Lib.Bytes Lib.Lex Lib.Fields Lib.PathM Gen.Consts
  Model.MountInfo Model.FsTree Model.Kernel Model.Layers Cases.Verdict Cases.LC Cases.C08
  Proofs.C08DocP Proofs.C08P Proofs.C08ProbeP Proofs.C08MountedP Proofs.C08ShallowP
  Proofs.SourcesP Proofs.C08SourcesP Proofs.C08ExamplesP Proofs.LayerNamesDistinctP.
Open Scope N_scope.
Import LC LCS.

Theorem model_step_partial cfg w e cmd um :
  wf_cfg cfg = true -> is_dir (wo_fs w) [sl] = true ->
  wf_table (ks_tab (wo_ks w)) = true -> cfg_dirs_ok cfg = true -> layer_names_distinct cfg w = true ->
  sources_agree cfg w = true -> dir_test_agrees cfg w = true -> no_shown_on_missing_source cfg w = true ->
  C08.step_spec cfg w (view_of_model cfg w e cmd um) = true.
Proof.
  intros H1 H2 H3 H4 H5 H6 H7 H8.
  destruct cmd; try (unfold view_of_model; destruct (run _ _ _ _ _) as [o st];
                     unfold C08.step_spec; cbn [v_env v_cmd]; destruct (negb _); reflexivity).
  - now apply mkdirs_recreates.
  - apply own_mounts_never_error.
  - now apply state_is_documented_partial.
Qed.

(* (c) without the model's fuel in the hypotheses *)
Theorem mounted_means_complete_shallow cfg w e um :
  wf_cfg cfg = true -> wf_table (ks_tab (wo_ks w)) = true -> sources_shallow cfg w = true ->
  mounted_complete_spec cfg w (view_of_model cfg w e CProbe um) = true.
Proof. intros H1 H2 H3. apply mounted_means_complete; [exact H2|now apply dir_test_agrees_of_shallow]. Qed.

(* (b) with syntactic hypotheses where there are any: what remains semantic is
   [own_mounts_shown] (the mounts on import mountpoints are the configured ones, of a kind
   GetMountSources reconstructs) and [no_shown_on_missing_source] *)
Theorem state_is_documented_syntactic cfg w e um :
  wf_cfg cfg = true -> cfg_dirs_ok cfg = true ->
  wf_table (ks_tab (wo_ks w)) = true -> regular_table (ks_tab (wo_ks w)) = true ->
  fs_paths_ok (wo_fs w) = true -> sources_shallow cfg w = true ->
  own_mounts_shown cfg w = true -> no_shown_on_missing_source cfg w = true ->
  C08.step_spec cfg w (view_of_model cfg w e CProbe um) = true.
Proof.
  intros H1 H2 H3 H4 H5 H6 H7 H8. apply state_is_documented_partial; try assumption.
  - apply layer_names_distinct_of_paths; [|exact H5]. unfold wf_cfg in H1. rewrite !andb_true_iff in H1. tauto.
  - now apply sources_agree_of_shown.
  - now apply dir_test_agrees_of_shallow.
Qed.

Example C08_syntactic_hyps_nontrivial :
  wf_cfg ex_cfg = true /\ cfg_dirs_ok ex_cfg = true
  /\ wf_table (ks_tab (wo_ks ex_w1)) = true /\ regular_table (ks_tab (wo_ks ex_w1)) = true
  /\ fs_paths_ok (wo_fs ex_w1) = true /\ sources_shallow ex_cfg ex_w1 = true
  /\ own_mounts_shown ex_cfg ex_w1 = true /\ no_shown_on_missing_source ex_cfg ex_w1 = true
  /\ sources_shallow ex_cfg w_deep = false /\ fs_paths_ok (wo_fs w_dup) = false.
Proof. vm_compute. repeat split; reflexivity. Qed.
