(* C08: the three clauses together -- the model's own step satisfies C08.step_spec for every
   command, world, environment and users map, under the collected hypotheses. *)
From LC Require Import Lib.Bytes Lib.Lex Lib.Fields Lib.PathM Gen.Consts
  Model.MountInfo Model.FsTree Model.Kernel Model.Layers Cases.Verdict Cases.LC Cases.C08
  Proofs.C08DocP Proofs.C08P Proofs.C08ProbeP Proofs.C08MountedP.
Open Scope N_scope.
Import LC LCS.

Theorem model_step_partial cfg w e cmd um :
  wf_cfg cfg = true -> is_dir (wo_fs w) [sl] = true ->
  wf_table (ks_tab (wo_ks w)) = true -> cfg_dirs_ok cfg = true -> layer_names_distinct cfg w = true ->
  sources_agree cfg w = true -> dir_test_agrees cfg w = true -> no_foreign_on_missing_source cfg w = true ->
  C08.step_spec cfg w (view_of_model cfg w e cmd um) = true.
Proof.
  intros H1 H2 H3 H4 H5 H6 H7 H8.
  destruct cmd; try (unfold view_of_model; destruct (run _ _ _ _ _) as [o st];
                     unfold C08.step_spec; cbn [v_env v_cmd]; destruct (negb _); reflexivity).
  - now apply mkdirs_recreates.
  - apply own_mounts_never_error.
  - now apply state_is_documented_partial.
Qed.
