(* C09: remove without -files never destroys user data.  The model's run of `remove n` is
   followed through: removal of the export links (outside the layer directory), then either
   deletion of a pristine tree, or the rename to <dir>~removed, or failure. *)
From LC Require Import Lib.Bytes Lib.Lex Lib.Fields Lib.PathM Gen.Consts
  Model.MountInfo Model.FsTree Model.Kernel Model.Layers Cases.Verdict Cases.LC Cases.C09
  Proofs.PathP Proofs.PathBaseP Proofs.CleanP Proofs.PathDirP Proofs.FsxMonadP Proofs.FsP Proofs.LayersP.
Import LC LCS.
Close Scope string_scope.
Open Scope list_scope.

(* ------------------------------------------------------------------ association lists *)
Lemma memb_in x l : memb x l = true <-> In x l.
Proof.
  induction l as [|y r IH]; cbn; [split; [discriminate|tauto]|].
  rewrite orb_true_iff, IH. split; intros [H|H]; auto.
  - left. apply beq_true in H. congruence.
  - left. apply beq_true. congruence.
Qed.
Lemma nodup_paths_NoDup l : nodup_paths l = true -> NoDup l.
Proof.
  induction l as [|x r IH]; cbn; [constructor|]. intros H. apply andb_true_iff in H as [H1 H2].
  constructor; [|now apply IH]. intros Hin. apply memb_in in Hin. rewrite Hin in H1. discriminate.
Qed.
Lemma nodup_get g p n : NoDup (map fst g) -> In (p, n) g -> fs_get g p = Some n.
Proof.
  induction g as [|[q m] r IH]; cbn; [tauto|]. intros ND [H|H].
  - injection H as -> ->. now rewrite beq_refl.
  - inversion ND as [|? ? Hn ND']; subst. destruct (beq q p) eqn:E.
    + apply beq_true in E. subst q. exfalso. apply Hn. apply in_map_iff. now exists (p, n).
    + now apply IH.
Qed.
Lemma NoDup_map_filter {A B} (f : A -> B) P l : NoDup (map f l) -> NoDup (map f (filter P l)).
Proof.
  induction l as [|x r IH]; cbn; [auto|]. intros ND. inversion ND as [|? ? Hn ND']; subst.
  destruct (P x); cbn; [constructor|]; auto.
  intros Hin. apply Hn. apply in_map_iff in Hin as (y & Hy & Hin). apply in_map_iff. exists y.
  split; [exact Hy|]. now apply filter_In in Hin as [? _].
Qed.
Lemma node_beq_refl n : node_beq n n = true.
Proof. destruct n; cbn; auto using beq_refl. Qed.

(* ------------------------------------------------------------------ paths below a directory *)
Lemma at_or_under_join d q : beq d root = false -> at_or_under d q = true -> q = d ++ rel_suffix d q.
Proof.
  intros Hd H. destruct (at_or_under_cases d q H) as [[-> Hr]|(a' & r & -> & Hr & [->|[-> _]])].
  - now rewrite Hr, app_nil_r.
  - now rewrite Hr.
  - rewrite beq_refl in Hd. discriminate.
Qed.
Lemma not_under_sibling d ch s : beq d root = false -> ch <> sl -> at_or_under d (d ++ ch :: s) = false.
Proof.
  intros Hd Hch. unfold at_or_under, under. rewrite Hd. apply orb_false_iff. split.
  - apply beq_false. intros H. apply (f_equal (@length _)) in H. rewrite app_length in H. cbn in H. lia.
  - destruct (prefixb (d ++ [sl]) (d ++ ch :: s)) eqn:E; [|reflexivity]. exfalso.
    apply prefixb_spec in E as [r E]. rewrite <- app_assoc in E. apply app_inv_head in E.
    change ([sl] ++ r) with (sl :: r) in E. injection E as E1 _. congruence.
Qed.

Lemma rename_fresh g a b g' : rename g a b = FOk g' -> lstat g b = None -> at_or_under a b = false ->
  g' = map (move_entry a b) g /\ exists na, In (a, na) g.
Proof.
  unfold rename. destruct (lstat g a) as [na|] eqn:Ea; [|discriminate].
  destruct (negb (is_dir g (pathdir b)) || negb (names_fit b)); [discriminate|]. intros H Hb Hab. rewrite Hab, Hb in H.
  injection H as <-. split; [reflexivity|]. exists na. now apply fs_get_in.
Qed.

(* ------------------------------------------------------------------ hypotheses (decidable) *)
Definition removed_of (x : layer) : bytes := l_path x ++ D_RemovedLayerSuffix.
Definition region (x : layer) (q : bytes) : bool := at_or_under (l_path x) q || at_or_under (removed_of x) q.
(* the export links of the layer lie apart from its directory and from <dir>~removed: no entry
   of the tree is at/below one of the links and at/below one of the two directories *)
Definition links_apart (c : cfgT) (f : fsT) (x : layer) : bool :=
  forallb (fun lt => forallb (fun en => negb (at_or_under (fst lt) (fst en) && region x (fst en))) f)
          (automated_exports c x).
(* parents exist, as far as <dir>~removed is concerned *)
Definition removed_closed (f : fsT) (x : layer) : bool :=
  negb (has_children f (removed_of x)) || exists_ f (removed_of x).
Definition wf_remove (c : cfgT) (f : fsT) (n : bytes) : bool :=
  is_abs (c_layers c) && nodup_paths (map fst f)
  && match layer_named c f n with
     | None => true
     | Some x => links_apart c f x && removed_closed f x
     end.

(* a clean absolute path other than "/" is the last of its own prefixes *)
Lemma pjoin_concat cs : cs <> [] -> sl :: pjoin cs = concat (map (cons sl) cs).
Proof.
  induction cs as [|c0 r IH]; [congruence|]. intros _. destruct r as [|c1 r'].
  - cbn. now rewrite app_nil_r.
  - change (pjoin (c0 :: c1 :: r')) with (c0 ++ sl :: pjoin (c1 :: r')). rewrite IH by discriminate.
    cbn [map concat]. reflexivity.
Qed.
Lemma prefixes_acc_last cs : forall cur, cs <> [] -> In (cur ++ concat (map (cons sl) cs)) (prefixes_acc cur cs).
Proof.
  induction cs as [|c0 r IH]; intros cur Hne; [congruence|]. cbn [prefixes_acc map concat].
  destruct r as [|c1 r'].
  - left. cbn. now rewrite app_nil_r.
  - right. specialize (IH (cur ++ sl :: c0)). rewrite <- app_assoc in IH. cbn [app] in IH.
    change (sl :: c0 ++ concat (map (cons sl) (c1 :: r'))) with ((sl :: c0) ++ concat (map (cons sl) (c1 :: r'))).
    apply IH. discriminate.
Qed.
Lemma filter_plain_id cs : Forall plain cs -> filter (fun c0 => negb (beq c0 [])) cs = cs.
Proof.
  induction 1 as [|c0 r (Hne & _) _ IH]; [reflexivity|]. cbn [filter].
  assert (E : beq c0 [] = false) by now apply beq_false. rewrite E. cbn [negb]. now rewrite IH.
Qed.
Lemma prefixes_self X : is_rooted X = true -> clean X = X -> beq X root = false -> In X (prefixes X).
Proof.
  intros Hr Hc Hb. destruct (clean_abs_shape X Hr Hc) as [E HP].
  remember (cstack X) as cs eqn:Ecs. clear Ecs Hr Hc.
  assert (Hne : cs <> []).
  { intros ->. subst X. unfold root in Hb. cbn [pjoin join] in Hb. rewrite beq_refl in Hb. discriminate. }
  unfold prefixes. assert (S : psplit X = [] :: cs).
  { rewrite E. unfold psplit, split. cbn [split_acc]. rewrite Ascii.eqb_refl. cbn [rev]. f_equal.
    apply split_join; [exact Hne|]. eapply Forall_impl; [|exact HP]. intros a (_ & _ & _ & H). exact H. }
  rewrite S. cbn [filter beq negb]. rewrite (filter_plain_id cs HP).
  rewrite E at 1. rewrite (pjoin_concat cs Hne). apply (prefixes_acc_last cs [] Hne).
Qed.
Lemma pathjoin2_rooted_clean a b : is_rooted a = true ->
  is_rooted (pathjoin [a; b]) = true /\ clean (pathjoin [a; b]) = pathjoin [a; b].
Proof.
  intros Hr. assert (Ha : a <> []) by (destruct a; [discriminate|discriminate]).
  assert (G : forall y, is_rooted y = true -> is_rooted (clean y) = true /\ clean (clean y) = clean y).
  { intros y Hy. split; [now apply clean_rooted|apply clean_idem]. }
  unfold pathjoin. cbn [filter]. assert (Ea : beq a [] = false) by now apply beq_false. rewrite Ea. cbn [negb].
  destruct (beq b []) eqn:Eb; cbn [negb].
  - cbn [pjoin join]. now apply G.
  - apply G. cbn [pjoin join]. destruct a; [congruence|exact Hr].
Qed.

(* ------------------------------------------------------------------ the run *)
Section Remove.
Variable c : cfgT.
Variable f : fsT.
Variable x : layer.
Variable e : env.
Hypothesis Hreal : e_pretend e = false.
Hypothesis Hnd : NoDup (map fst f).
Hypothesis Hapart : links_apart c f x = true.
Hypothesis Hclosed : removed_closed f x = true.

Let d := l_path x.
Let removed := removed_of x.

Definition user_entry (en : bytes * node) : Prop :=
  at_or_under d (fst en) = true /\ C09.created_by_add c x (fst en) (snd en) = false.

(* intermediate states: only entries outside the two directories are gone *)
Definition A (g : fsT) : Prop :=
  (forall en, In en f -> region x (fst en) = true -> In en g) /\ incl g f /\ NoDup (map fst g).
Definition C1 (g : fsT) : Prop :=
  forall en, In en f -> user_entry en -> snd en <> Dir ->
    fs_get g (fst en) = Some (snd en) \/ fs_get g (removed ++ rel_suffix d (fst en)) = Some (snd en).
Definition C2 (g : fsT) : Prop := (exists en, In en f /\ user_entry en) -> exists_ g removed = true.
Definition C3 (g : fsT) : Prop :=
  forall en, In en f -> at_or_under removed (fst en) = true -> fs_get g (fst en) = Some (snd en).
Definition Eg (g : fsT) : Prop := C1 g /\ C3 g.
Definition Qg (g : fsT) : Prop := C1 g /\ C2 g /\ C3 g.

Lemma A_f : A f.
Proof. repeat split; auto. apply incl_refl. Qed.
Lemma A_get g en : A g -> In en f -> region x (fst en) = true -> fs_get g (fst en) = Some (snd en).
Proof. intros (H1 & _ & H3) Hin Hr. apply nodup_get; [exact H3|]. destruct en. now apply H1. Qed.
Lemma A_E g : A g -> Eg g.
Proof.
  intros HA. split.
  - intros en Hin [Hu _] _. left. apply A_get; auto. unfold region. fold d. now rewrite Hu.
  - intros en Hin Hu. apply A_get; auto. unfold region. fold removed. rewrite Hu. apply orb_true_r.
Qed.
Lemma Q_E g : Qg g -> Eg g.
Proof. intros (H1 & _ & H3). now split. Qed.

(* removing an export link *)
Lemma A_remove_link g lt g' : In lt (automated_exports c x) -> A g -> remove_all g (fst lt) = FOk g' -> A g'.
Proof.
  intros Hlt (H1 & H2 & H3). unfold remove_all. destruct (beq (fst lt) root); [discriminate|].
  intros H. injection H as <-. repeat split.
  - intros en Hin Hr. apply filter_In. split; [now apply H1|].
    unfold links_apart in Hapart. rewrite forallb_forall in Hapart. specialize (Hapart lt Hlt).
    rewrite forallb_forall in Hapart. specialize (Hapart en Hin). rewrite Hr, andb_true_r in Hapart. exact Hapart.
  - intros en Hen. apply filter_In in Hen as [Hen _]. now apply H2.
  - now apply NoDup_map_filter.
Qed.

Lemma p_links : pres A A (remove_export_links e c x).
Proof.
  assert (AA : forall g, A g -> A g) by auto.
  unfold remove_export_links. apply (p_mapM A A). intros lt Hlt.
  apply (p_bind A A); [apply (p_get_fs A A)|]. intros g0.
  destruct (negb (exists_ g0 (fst lt))); [apply (p_ret A A)|].
  destruct (negb (is_symlink g0 (fst lt))); [apply (p_fail A A AA)|].
  unfold fs_remove, do_op. apply h_mutate; auto. unfold apply_op.
  eapply h_bind; [apply h_get_fs|]. intros g. eapply h_bind; [apply h_get_ks|]. intros k.
  apply h_on_fres; [now intros g1 [Hg _]|]. intros g1 g' [Hg ->] Hr. eapply A_remove_link; eauto.
Qed.

(* ------------------------------------------------------------------ the two endings *)
Hypothesis Hroot : beq d root = false.
Hypothesis Hbuild : at_or_under d (build_path c x) = true -> In (build_path c x) (prefixes (build_path c x)).

Lemma removed_not_under_d s : at_or_under d (removed ++ s) = false.
Proof.
  unfold removed, removed_of. fold d. rewrite <- app_assoc.
  change (D_RemovedLayerSuffix ++ s) with (nb 126 :: (bs "removed" ++ s)).
  apply not_under_sibling; [exact Hroot|]. intros H. apply (f_equal bn) in H. vm_compute in H. discriminate.
Qed.
Lemma under_removed_not_d q : at_or_under removed q = true -> at_or_under d q = false.
Proof.
  intros H. assert (Hr : beq removed root = false).
  { apply beq_false. intros E. apply (f_equal (@length _)) in E. unfold removed, removed_of in E.
    rewrite app_length in E. cbn in E. lia. }
  rewrite (at_or_under_join removed q Hr H). apply removed_not_under_d.
Qed.

Lemma pristine_no_user g : A g -> pristine_tree c g x = true -> forall en, In en f -> user_entry en -> False.
Proof.
  intros HA Hp en Hin [Hu Hc]. unfold pristine_tree in Hp. rewrite forallb_forall in Hp.
  assert (Hg : In en g). { destruct HA as (H1 & _). apply H1; [exact Hin|]. unfold region. fold d. now rewrite Hu. }
  specialize (Hp en Hg). fold d in Hp. rewrite Hu in Hp.
  unfold C09.created_by_add in Hc. destruct (snd en) as [|y|t].
  - assert (G : memb (fst en) (l_path x :: filter (at_or_under (l_path x))
                 (prefixes (build_path c x) ++
                  match l_base x with
                  | [] => [pathjoin [build_path c x; bs "root"]]
                  | _ :: _ => prefixes (work_path c x) ++ prefixes (upper_path c x)
                  end)) = true); [|rewrite G in Hc; discriminate].
    apply memb_in.
    assert (K : forall l, In (fst en) l -> In (fst en) (filter (at_or_under (l_path x)) l)).
    { intros l Hl. apply filter_In. split; [exact Hl|exact Hu]. }
    apply orb_true_iff in Hp as [Hp|Hp]; apply memb_in in Hp.
    + apply in_app_or in Hp as [[Hp|[Hp|[]]]|Hp].
      * now left.
      * right. apply K. apply in_or_app. left. rewrite <- Hp. apply Hbuild. fold d. rewrite Hp. exact Hu.
      * right. apply K. apply in_or_app. now right.
    + right. apply K. apply in_or_app. now left.
  - unfold layerconfig_path in Hp. fold d in Hp, Hc.
    change (bs "layerconfig"%string) with D_LayerconfigFile in Hc.   (* the predicate spells the name out; Properties/C09.v C09_constants_pinned *)
    rewrite Hp in Hc. discriminate.
  - discriminate.
Qed.

Lemma end_delete g g' : A g -> pristine_tree c g x = true -> remove_all g d = FOk g' -> Qg g'.
Proof.
  intros HA Hp. unfold remove_all. rewrite Hroot. intros H. injection H as <-.
  repeat split.
  - intros en Hin Hu _. exfalso. eapply pristine_no_user; eauto.
  - intros (en & Hin & Hu). exfalso. eapply pristine_no_user; eauto.
  - intros en Hin Hu. destruct HA as (H1 & H2 & H3). apply nodup_get; [now apply NoDup_map_filter|].
    destruct en as [q m]. apply filter_In. cbn [fst snd] in *. split.
    + apply H1; [exact Hin|]. unfold region. fold removed. cbn [fst]. rewrite Hu. apply orb_true_r.
    + now rewrite under_removed_not_d.
Qed.

Lemma no_removed g : A g -> exists_ g removed = false -> forall en, In en g -> at_or_under removed (fst en) = false.
Proof.
  intros (H1 & H2 & H3) Hex en Hen. destruct (at_or_under removed (fst en)) eqn:Hu; [|reflexivity]. exfalso.
  assert (Hf : exists_ f removed = true).
  { unfold at_or_under in Hu. apply orb_true_iff in Hu as [Hu|Hu].
    - apply beq_true in Hu. destruct en as [q m]. cbn in Hu. subst q. apply H2 in Hen.
      unfold exists_, lstat. destruct (in_fs_get _ _ _ Hen) as (m' & ->). reflexivity.
    - unfold removed_closed in Hclosed. fold removed in Hclosed. apply orb_true_iff in Hclosed as [Hc|Hc]; [|exact Hc].
      apply negb_true_iff in Hc. exfalso. assert (has_children f removed = true); [|congruence].
      unfold has_children. apply existsb_exists. exists en. split; [now apply H2|exact Hu]. }
  unfold exists_, lstat in Hf. destruct (fs_get f removed) as [m|] eqn:Eg0; [|discriminate].
  apply fs_get_in in Eg0. assert (Hg : In (removed, m) g).
  { apply H1; [exact Eg0|]. unfold region. fold removed. cbn [fst]. rewrite at_or_under_refl. apply orb_true_r. }
  unfold exists_, lstat in Hex. destruct (in_fs_get _ _ _ Hg) as (m' & Em). rewrite Em in Hex. discriminate.
Qed.

Lemma move_key_inj g : (forall en, In en g -> at_or_under removed (fst en) = false) ->
  NoDup (map fst g) -> NoDup (map fst (map (move_entry d removed) g)).
Proof.
  intros Hno ND. induction g as [|[q m] r IH]; cbn [map]; [constructor|].
  inversion ND as [|? ? Hn ND']; subst. constructor; [|apply IH; auto; intros en Hen; apply Hno; now right].
  intros Hin. rewrite map_map in Hin. apply in_map_iff in Hin as ([q1 m1] & E & Hin1).
  unfold move_entry in E. cbn [fst snd] in E.
  assert (Hq1 : at_or_under removed q1 = false) by (apply (Hno (q1, m1)); now right).
  assert (Hq : at_or_under removed q = false) by (apply (Hno (q, m)); now left).
  destruct (at_or_under d q1) eqn:U1, (at_or_under d q) eqn:U; cbn [fst] in E.
  - apply app_inv_head in E. apply Hn. apply in_map_iff. exists (q1, m1). split; [|exact Hin1]. cbn [fst].
    rewrite (at_or_under_join d q1 Hroot U1), (at_or_under_join d q Hroot U). now rewrite E.
  - subst q. destruct (at_or_under_cases d q1 U1) as [[_ Hr]|(a' & r0 & _ & Hr & _)]; rewrite Hr in Hq.
    + rewrite app_nil_r, at_or_under_refl in Hq. discriminate.
    + assert (at_or_under removed (removed ++ sl :: r0) = true); [|congruence].
      unfold at_or_under, under. apply orb_true_iff. right.
      assert (Hr' : beq removed root = false).
      { apply beq_false. intros E0. apply (f_equal (@length _)) in E0. unfold removed, removed_of in E0.
        rewrite app_length in E0. cbn in E0. lia. }
      rewrite Hr'. apply prefixb_spec. exists r0. now rewrite <- app_assoc.
  - subst q1. destruct (at_or_under_cases d q U) as [[_ Hr]|(a' & r0 & _ & Hr & _)]; rewrite Hr in Hq1.
    + rewrite app_nil_r, at_or_under_refl in Hq1. discriminate.
    + assert (at_or_under removed (removed ++ sl :: r0) = true); [|congruence].
      unfold at_or_under, under. apply orb_true_iff. right.
      assert (Hr' : beq removed root = false).
      { apply beq_false. intros E0. apply (f_equal (@length _)) in E0. unfold removed, removed_of in E0.
        rewrite app_length in E0. cbn in E0. lia. }
      rewrite Hr'. apply prefixb_spec. exists r0. now rewrite <- app_assoc.
  - subst q1. apply Hn. apply in_map_iff. now exists (q, m1).
Qed.

Lemma end_rename g g' : A g -> exists_ g removed = false -> rename g d removed = FOk g' -> Qg g'.
Proof.
  intros HA Hex Hr. pose proof (no_removed g HA Hex) as Hno.
  assert (Hl : lstat g removed = None).
  { unfold exists_ in Hex. destruct (lstat g removed); [discriminate|reflexivity]. }
  assert (Hab : at_or_under d removed = false).
  { rewrite <- (app_nil_r removed). apply removed_not_under_d. }
  destruct (rename_fresh _ _ _ _ Hr Hl Hab) as (-> & na & Hna).
  destruct HA as (H1 & H2 & H3).
  pose proof (move_key_inj g Hno H3) as ND.
  repeat split.
  - intros en Hin [Hu _] _. right. apply nodup_get; [exact ND|].
    apply in_map_iff. exists en. split.
    + unfold move_entry. rewrite Hu. reflexivity.
    + apply H1; [exact Hin|]. unfold region. fold d. now rewrite Hu.
  - intros _. unfold exists_, lstat.
    assert (Hm : In (removed, na) (map (move_entry d removed) g)).
    { apply in_map_iff. exists (d, na). split; [|exact Hna]. unfold move_entry. cbn [fst snd].
      rewrite at_or_under_refl, rel_suffix_self, app_nil_r. reflexivity. }
    destruct (in_fs_get _ _ _ Hm) as (m' & ->). reflexivity.
  - intros en Hin Hu. exfalso. assert (Hg : In en g).
    { apply H1; [exact Hin|]. unfold region. fold removed. rewrite Hu. apply orb_true_r. }
    rewrite (Hno en Hg) in Hu. discriminate.
Qed.


(* ------------------------------------------------------------------ the command *)
Lemma static_automated l : static l = static x -> automated_exports c l = automated_exports c x.
Proof. intros H. unfold automated_exports. now rewrite (static_name _ _ H), (static_path _ _ H). Qed.
Lemma static_pristine g l : static l = static x -> pristine_tree c g l = pristine_tree c g x.
Proof.
  intros H. unfold pristine_tree, layerconfig_path, build_path, work_path, upper_path.
  now rewrite (static_path _ _ H), (static_base _ _ H).
Qed.

Lemma p_renorm_Q ld : pres Qg Eg (renormalize ld).
Proof.
  unfold renormalize. destruct (normalize_order (ld_map ld)); [apply (p_ret Qg Eg)|apply (p_diverge Qg Eg Q_E)].
Qed.

Lemma remove_layer_run ld n l : lm_get (ld_map ld) n = Some l -> static l = static x ->
  hoare A (remove_layer e c ld n false) (fun _ => Qg) Eg.
Proof.
  intros Hl Hst. unfold remove_layer.
  apply h_guard_then; [exact A_E|]. intros G. rewrite Hl.
  apply h_bind with (Q := fun _ => A); [apply (p_guard A Eg A_E)|]. intros u1.
  apply h_bind with (Q := fun _ => A); [apply (p_guard A Eg A_E)|]. intros u2.
  apply h_bind with (Q := fun _ => A); [apply (p_guard A Eg A_E)|]. intros u3.
  apply h_bind with (Q := fun _ => A).
  { unfold remove_export_links. rewrite (static_automated l Hst).
    eapply h_conseq; [apply p_links|auto|auto|exact A_E]. }
  intros u4. eapply h_bind; [apply h_get_fs|]. intros g. cbn [orb].
  apply h_bind with (Q := fun _ => Qg); [|intros u5; apply p_renorm_Q].
  rewrite (static_pristine g l Hst), (static_path _ _ Hst). fold d.
  destruct (pristine_tree c g x) eqn:Ep.
  - apply h_fs_remove; [exact Hreal|now intros g1 [Hg _]; apply A_E|].
    intros g1 g' [Hg <-] Hr. eapply end_delete; eauto.
  - change (d ++ D_RemovedLayerSuffix) with removed.
    destruct (exists_ g removed) eqn:Ex; [apply h_fail; now intros g1 [Hg _]; apply A_E|].
    apply h_fs_rename; [exact Hreal|now intros g1 [Hg _]; apply A_E|].
    intros g1 g' [Hg <-] Hr. eapply end_rename; eauto.
Qed.

End Remove.

(* ------------------------------------------------------------------ assembling the property *)
Lemma root_not_ends_ok : ends_ok root = false.
Proof. reflexivity. Qed.

Lemma layer_path_not_root c n : legal_name n = true -> n <> [] -> beq (layer_path c n) root = false.
Proof.
  intros Hl Hn. apply beq_false. intros E. pose proof (legal_plain n Hl Hn) as Hp.
  unfold layer_path in E. destruct (pathjoin2_shape (c_layers c) n Hp) as (pre & E1 & _).
  destruct Hp as (_ & _ & _ & Hs). pose proof (ends_ok_comp pre n Hn Hs) as H.
  rewrite <- E1, E in H. discriminate.
Qed.

Lemma test_name_need m n : test_name m n NNeed = true -> n <> [] /\ legal_name n = true.
Proof.
  unfold test_name. destruct n; [discriminate|]. intros H. apply andb_true_iff in H as [H _]. split; [discriminate|exact H].
Qed.

Theorem C09_model_proof c w e um n : plain_env e = true -> wf_remove c (wo_fs w) n = true ->
  C09.step_spec c w (view_of_model c w e (CRemove n false) um) = true.
Proof.
  intros Hpe Hwf. set (f := wo_fs w).
  assert (Hreal : e_pretend e = false).
  { unfold plain_env in Hpe. apply andb_true_iff in Hpe as [H _]. now apply negb_true_iff in H. }
  unfold C09.step_spec. unfold view_of_model. unfold run.
  (* the predicate spells the suffix out; the model takes it from the regenerated constant
     (equal by computation as long as Properties/C09.v C09_constants_pinned holds) *)
  change (bs "~removed"%string) with D_RemovedLayerSuffix.
  destruct (run_command e c um (CRemove n false) (MkSt (world_of w) 0 [])) as [o st] eqn:ER.
  cbn [v_cmd v_env v_after v_res wo_fs]. rewrite Hpe. cbn [negb]. fold f.
  destruct (layer_named c f n) as [x|] eqn:Ex; [|reflexivity].
  unfold wf_remove in Hwf. fold f in Hwf. rewrite Ex in Hwf.
  apply andb_true_iff in Hwf as [Hnd Hwf]. apply andb_true_iff in Hnd as [Habs Hnd]. apply andb_true_iff in Hwf as [Hapart Hclosed].
  apply nodup_paths_NoDup in Hnd.
  unfold layer_named, layers_on_disk in Ex.
  destruct (lm_get_in _ _ _ Ex) as [Hxin Hxn].
  pose proof (loaded_path c f) as HLP. rewrite Forall_forall in HLP. specialize (HLP x Hxin). rewrite Hxn in HLP.
  assert (Hbuild : beq (l_path x) root = false -> at_or_under (l_path x) (build_path c x) = true ->
                   In (build_path c x) (prefixes (build_path c x))).
  { intros Hd Hu. assert (Rd : is_rooted (l_path x) = true).
    { rewrite HLP. unfold layer_path. now apply pathjoin2_rooted_clean. }
    destruct (pathjoin2_rooted_clean (l_path x) (c_buildroot c) Rd) as [Rb Cb]. fold (build_path c x) in Rb, Cb.
    apply prefixes_self; auto. apply beq_false. intros E. rewrite E in Hu.
    unfold at_or_under, under in Hu. rewrite Hd in Hu. apply orb_true_iff in Hu as [Hu|Hu].
    - apply beq_true in Hu. rewrite <- Hu in Hd. now rewrite beq_refl in Hd.
    - apply prefixb_spec in Hu as [r Hu]. destruct (l_path x); [discriminate|]. cbn in Hu. injection Hu as _ Hu.
      destruct l; discriminate. }
  (* the run *)
  assert (HR : hoare (fun g => g = f) (run_command e c um (CRemove n false))
                     (fun _ => Qg c f x) (Eg c f x)).
  { unfold run_command. apply h_get_fs_eq.
    apply h_guard_then; [intros g ->; apply A_E, A_f; assumption|]. intros _.
    eapply h_bind; [eapply h_conseq; [apply (get_layers_spec c um f)|auto|intros ld g Hq; exact Hq|]|].
    - intros g ->. apply A_E, A_f; assumption.
    - intros ld. cbn beta. apply h_pure. intros Est.
      pose proof (lm_get_static _ _ n Est) as Hs. rewrite Ex in Hs.
      destruct (lm_get (ld_map ld) n) as [l|] eqn:El; [|contradiction].
      eapply h_bind; [|intros ld'; apply (p_ret (Qg c f x) (Eg c f x))].
      destruct (test_name (ld_map ld) n NNeed) eqn:Et.
      + destruct (test_name_need _ _ Et) as [Hne Hleg].
        assert (Hd : beq (l_path x) root = false) by (rewrite HLP; now apply layer_path_not_root).
        eapply h_pre; [eapply remove_layer_run; eauto|].
        intros g ->. now apply A_f.
      + unfold remove_layer. rewrite Et. intros s Hs0. cbn. rewrite Hs0. apply A_E, A_f; assumption. }
  pose proof (HR (MkSt (world_of w) 0 []) eq_refl) as HR'. rewrite ER in HR'.
  set (f' := w_fs (s_w st)) in *. change (fs_of st) with f' in HR'.
  assert (HE : Eg c f x f') by (destruct o; auto; now apply Q_E).
  destruct HE as [H1 H3].
  apply andb_true_iff. split; [apply andb_true_iff; split|].
  - apply forallb_forall. intros en Hen. apply filter_In in Hen as [Hin Hu]. apply andb_true_iff in Hu as [Hu Hc].
    apply negb_true_iff in Hc. destruct (snd en) as [|y|t] eqn:En; [reflexivity| |].
    + destruct (H1 en Hin) as [H|H]; [split; [exact Hu|now rewrite En]|rewrite En; discriminate| |];
        rewrite En in H; unfold removed_of in H; rewrite H; cbn [opt_beq]; rewrite node_beq_refl; auto using orb_true_r.
    + destruct (H1 en Hin) as [H|H]; [split; [exact Hu|now rewrite En]|rewrite En; discriminate| |];
        rewrite En in H; unfold removed_of in H; rewrite H; cbn [opt_beq]; rewrite node_beq_refl; auto using orb_true_r.
  - destruct o; cbn [rclass_of]; try reflexivity.
    destruct (filter _ f) as [|en r] eqn:Ef; [reflexivity|].
    destruct HR' as (_ & H2 & _). apply H2. exists en.
    assert (Hen : In en (filter (fun e0 => at_or_under (l_path x) (fst e0) && negb (C09.created_by_add c x (fst e0) (snd e0))) f))
      by (rewrite Ef; now left).
    apply filter_In in Hen as [Hin Hu]. apply andb_true_iff in Hu as [Hu Hc]. apply negb_true_iff in Hc.
    split; [exact Hin|]. now split.
  - apply forallb_forall. intros en Hin. destruct (at_or_under (l_path x ++ D_RemovedLayerSuffix) (fst en)) eqn:Hu; [|reflexivity].
    rewrite (H3 en Hin Hu). cbn [opt_beq]. apply node_beq_refl.
Qed.

(* ------------------------------------------------------------------ disjointness from the configuration *)
(* two directories that both contain q are nested *)
Definition tail_ok (rest : bytes) : Prop := rest = [] \/ exists r, rest = sl :: r.
Lemma at_or_under_ext a q : beq a root = false -> at_or_under a q = true -> exists rest, q = a ++ rest /\ tail_ok rest.
Proof.
  intros Hr H. destruct (at_or_under_cases a q H) as [[-> _]|(a' & r & -> & _ & [->|[-> _]])].
  - exists []. rewrite app_nil_r. split; [reflexivity|now left].
  - exists (sl :: r). split; [reflexivity|right; now exists r].
  - rewrite beq_refl in Hr. discriminate.
Qed.
Lemma at_or_under_intro a rest : beq a root = false -> tail_ok rest -> at_or_under a (a ++ rest) = true.
Proof.
  intros Hr [->|[r ->]]; [rewrite app_nil_r; apply at_or_under_refl|].
  unfold at_or_under, under. rewrite Hr. apply orb_true_iff. right. apply prefixb_spec. exists r. now rewrite <- app_assoc.
Qed.
Lemma tail_ok_prefix l t ta : ta = l ++ t -> tail_ok ta -> tail_ok l.
Proof.
  intros E [->|[r ->]].
  - destruct l; [now left|discriminate].
  - destruct l as [|ch l']; [now left|]. injection E as <- _. right. now exists l'.
Qed.
Lemma nested a b q : beq a root = false -> beq b root = false ->
  at_or_under a q = true -> at_or_under b q = true -> at_or_under a b = true \/ at_or_under b a = true.
Proof.
  intros Ha Hb Ua Ub. destruct (at_or_under_ext a q Ha Ua) as (ta & -> & Hta).
  destruct (at_or_under_ext b _ Hb Ub) as (tb & E & Htb).
  apply app_eq_app in E as (l & [[-> E]|[-> E]]).
  - right. apply at_or_under_intro; [exact Hb|]. now apply (tail_ok_prefix l ta tb).
  - left. apply at_or_under_intro; [exact Ha|]. now apply (tail_ok_prefix l tb ta).
Qed.

(* the export links of layer n are neither inside nor above its directory or <dir>~removed *)
Definition cfg_apart (c : cfgT) (n : bytes) : bool :=
  let dd := layer_path c n in let rr := dd ++ D_RemovedLayerSuffix in
  forallb (fun lk => negb (beq lk root) && negb (at_or_under lk dd) && negb (at_or_under dd lk)
                     && negb (at_or_under lk rr) && negb (at_or_under rr lk))
          [pathjoin [c_exports c; c_exp_binpkg c; n]; pathjoin [c_exports c; c_exp_gen c; n]].

Lemma links_apart_of_config c f x : legal_name (l_name x) = true -> l_name x <> [] ->
  l_path x = layer_path c (l_name x) -> cfg_apart c (l_name x) = true -> links_apart c f x = true.
Proof.
  intros Hl Hne Hp Hc. unfold links_apart. apply forallb_forall. intros lt Hlt. apply forallb_forall. intros en Hen.
  apply negb_true_iff. destruct (at_or_under (fst lt) (fst en)) eqn:U1; [|reflexivity]. cbn [andb].
  unfold cfg_apart in Hc. rewrite forallb_forall in Hc.
  assert (Hin : In (fst lt) [pathjoin [c_exports c; c_exp_binpkg c; l_name x]; pathjoin [c_exports c; c_exp_gen c; l_name x]]).
  { unfold automated_exports in Hlt. destruct Hlt as [<-|[<-|[]]]; cbn [fst]; auto using in_eq, in_cons. }
  specialize (Hc _ Hin). cbv zeta in Hc. rewrite <- Hp in Hc.
  repeat (apply andb_true_iff in Hc as [Hc ?]).
  repeat match goal with H : negb _ = true |- _ => apply negb_true_iff in H end.
  assert (Hd : beq (l_path x) root = false) by (rewrite Hp; now apply layer_path_not_root).
  assert (Hr : beq (removed_of x) root = false).
  { apply beq_false. intros E. apply (f_equal (@length _)) in E. unfold removed_of in E. rewrite app_length in E. cbn in E. lia. }
  unfold region. apply orb_false_iff. split.
  - destruct (at_or_under (l_path x) (fst en)) eqn:U2; [|reflexivity]. exfalso.
    destruct (nested _ _ _ Hc Hd U1 U2); congruence.
  - destruct (at_or_under (removed_of x) (fst en)) eqn:U2; [|reflexivity]. exfalso. fold (removed_of x) in *.
    destruct (nested _ _ _ Hc Hr U1 U2); congruence.
Qed.

(* the same theorem with the disjointness stated on the configuration *)
Definition wf_remove_cfg (c : cfgT) (f : fsT) (n : bytes) : bool :=
  is_abs (c_layers c) && nodup_paths (map fst f)
  && match layer_named c f n with
     | None => true
     | Some x => cfg_apart c n && removed_closed f x
     end.
