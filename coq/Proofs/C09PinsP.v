(* C09 -- constants of Gen/Consts.v (rewritten from the source of /repo by tools/genconsts on
   every run) compared with literals, one lemma per constant so that the failing line names it.
   Used by: what `add` itself creates (C09.created_by_add) and the remove branch of Model/Layers.v; the predicate spells "layerconfig" and "~removed" out itself.
   A changed constant makes this file fail to build; the check then reports
   "proof obligation no longer checks" for Properties/C09.v (C09_constants_pinned) instead of
   letting model, predicate and code move together unnoticed.  The literals are repeated, with
   their sources, in the statement of C09_constants_pinned. *)
From LC Require Import Lib.Bytes Gen.Consts.
Local Open Scope string_scope.

Lemma pin_D_RemovedLayerSuffix :
  D_RemovedLayerSuffix = bs "~removed".
Proof. (vm_compute; reflexivity) || fail "D_RemovedLayerSuffix of the source tree differs from the reviewed literal (C09_constants_pinned)". Qed.

Lemma pin_D_LayerconfigFile :
  D_LayerconfigFile = bs "layerconfig".
Proof. (vm_compute; reflexivity) || fail "D_LayerconfigFile of the source tree differs from the reviewed literal (C09_constants_pinned)". Qed.

Lemma pin_D_BaseLayerRootBashrc :
  D_BaseLayerRootBashrc = bs "#!/bin/bash

source /etc/profile
msg=chroot
if [ -n ""$LAYERCAKE_LAYER"" ]; then
        msg=""chroot $LAYERCAKE_LAYER""
fi
export PS1=""($msg) \[\033]0;\u@\h:\w\007\]\[\033[01;31m\]\h\[\033[01;34m\] \w \$\[\033[00m\] ""

".
Proof. (vm_compute; reflexivity) || fail "D_BaseLayerRootBashrc of the source tree differs from the reviewed literal (C09_constants_pinned)". Qed.

Definition c09_constants_pinned := conj pin_D_RemovedLayerSuffix (conj pin_D_LayerconfigFile pin_D_BaseLayerRootBashrc).
