(* C09 -- constants of Gen/Consts.v (rewritten from the source of /repo by tools/genconsts on
   every run) compared with literals.  Used by: what `add` itself creates (C09.created_by_add) and the remove branch of Model/Layers.v; the predicate spells "layerconfig" and "~removed" out itself.
   A changed constant makes this file fail to build; the check then reports
   "proof obligation no longer checks" for Properties/C09.v (C09_constants_pinned) instead of
   letting model, predicate and code move together unnoticed. *)
From LC Require Import Lib.Bytes Gen.Consts.
Local Open Scope string_scope.

Lemma c09_constants_pinned :
  (* property C09 text "<name>~removed"; manual page, remove: "append ~removed to the layer name" *)
  D_RemovedLayerSuffix = bs "~removed" /\
  (* doc/layercake_directories.adoc, manual page LAYER DIRECTORY: "layerconfig" *)
  D_LayerconfigFile = bs "layerconfig" /\
  (* frozen from the reviewed tree (what `add` writes to build/root/.bashrc of a base layer; not documented) *)
  D_BaseLayerRootBashrc = bs "#!/bin/bash

source /etc/profile
msg=chroot
if [ -n ""$LAYERCAKE_LAYER"" ]; then
        msg=""chroot $LAYERCAKE_LAYER""
fi
export PS1=""($msg) \[\033]0;\u@\h:\w\007\]\[\033[01;31m\]\h\[\033[01;34m\] \w \$\[\033[00m\] ""

".
Proof. repeat split; vm_compute; reflexivity. Qed.
