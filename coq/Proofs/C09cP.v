(* C09 with the disjointness of export links and layer directory stated on the configuration *)
From LC Require Import Lib.Bytes Lib.Lex Lib.Fields Lib.PathM Gen.Consts
  Model.MountInfo Model.FsTree Model.Kernel Model.Layers Cases.Verdict Cases.LC Cases.C09
  Proofs.PathP Proofs.PathBaseP Proofs.PathDirP Proofs.FsxMonadP Proofs.FsP Proofs.LayersP Proofs.RewriteP Proofs.C09P.
Import LC LCS.
Close Scope string_scope.
Open Scope list_scope.

Lemma wf_remove_of_cfg c f n : wf_remove_cfg c f n = true -> wf_remove c f n = true.
Proof.
  unfold wf_remove_cfg, wf_remove. intros H. apply andb_true_iff in H as [H1 H2]. rewrite H1. cbn [andb].
  destruct (layer_named c f n) as [x|] eqn:Ex; [|reflexivity].
  apply andb_true_iff in H2 as [H3 H4]. rewrite H4, !andb_true_r.
  apply (proj1 (layer_named_some c f n x)) in Ex as (Hch & Hlg & Hld).
  pose proof (load_layer_name _ _ _ _ Hld) as Hn.
  apply links_apart_of_config.
  - now rewrite Hn.
  - rewrite Hn. apply children_in in Hch as (q & nd & _ & _ & _ & <-). apply pathbase_nonempty.
  - unfold load_layer in Hld.
    match type of Hld with match ?t with _ => _ end = _ => destruct t end; [|discriminate].
    injection Hld as <-. reflexivity.
  - now rewrite Hn.
Qed.

Theorem C09_model_cfg_proof c w e um n : plain_env e = true -> wf_remove_cfg c (wo_fs w) n = true ->
  C09.step_spec c w (view_of_model c w e (CRemove n false) um) = true.
Proof. intros Hp H. apply C09_model_proof; [exact Hp|now apply wf_remove_of_cfg]. Qed.
