(* C10: with the fault plan "the k-th mutating operation fails" a command that reaches the k-th
   operation does not report success; a reported success means the run is the fault-free run.
   Crash plan: the log of the crashed run is the first k operations of the fault-free run.
   All three are instances of Proofs/MonadP.R_run_command. *)
From LC Require Import Lib.Bytes Lib.Lex Lib.Fields Lib.PathM Gen.Consts
  Model.MountInfo Model.FsTree Model.Kernel Model.Layers Cases.Verdict Cases.LC Cases.C10
  Proofs.MonadP Proofs.C15P.

Definition nofault (e : env) : env :=
  MkEnv (e_pretend e) NoFault (e_force e) (e_verbose e) (e_order e).

(* ------------------------------------------------------------------ counter = length of the log *)
(* a program only pushes operations on the log, and counts exactly those *)
Definition wfm {A} (m : M A) : Prop :=
  forall s, exists l, s_log (snd (m s)) = l ++ s_log s /\ s_n (snd (m s)) = (length l + s_n s)%nat.

Lemma wfm_ext {A} (m m' : M A) : (forall s, m s = m' s) -> wfm m' -> wfm m.
Proof. intros E H s. rewrite E. apply H. Qed.

Lemma wfm_quiet {A} (m : M A) : quiet m -> wfm m.
Proof. intros H s. exists []. destruct (H s) as [Hn Hl]. split; [exact Hl | exact Hn]. Qed.

Lemma wfm_bind {A B} (m : M A) (f : A -> M B) :
  wfm m -> (forall a, wfm (f a)) -> wfm (bind m f).
Proof.
  intros Hm Hf s. unfold bind. destruct (Hm s) as [l1 [Hl1 Hn1]].
  destruct (m s) as [o s1]. cbn [snd] in Hl1, Hn1.
  destruct o as [a| | | |]; try (exists l1; split; assumption).
  destruct (Hf a s1) as [l2 [Hl2 Hn2]]. exists (l2 ++ l1). split.
  - rewrite Hl2, Hl1. apply app_assoc.
  - rewrite Hn2, Hn1, app_length. lia.
Qed.

Lemma act_after_push {A} (act : M A) w n o lg :
  quiet act ->
  s_log (snd (act (MkSt w (S n) (o :: lg)))) = [o] ++ lg
  /\ s_n (snd (act (MkSt w (S n) (o :: lg)))) = (length [o] + n)%nat.
Proof. intros Hq. destruct (Hq (MkSt w (S n) (o :: lg))) as [Hn Hl]. split; assumption. Qed.

Lemma wfm_mutate e o act : quiet act -> wfm (mutate e o act).
Proof.
  intros Hq s. unfold mutate.
  destruct (e_pretend e); [exists []; split; reflexivity|].
  destruct (e_fault e) as [|k|k].
  - exists [o]. apply act_after_push, Hq.
  - destruct (Nat.eqb (s_n s) k).
    + exists [o]. split; reflexivity.
    + exists [o]. apply act_after_push, Hq.
  - destruct (Nat.eqb (s_n s) k).
    + exists []. split; reflexivity.
    + exists [o]. apply act_after_push, Hq.
Qed.

Lemma wfm_try_cleanup {A} (m : M A) h : wfm m -> quiet h -> wfm (try_cleanup m h).
Proof.
  intros Hm Hh s. unfold try_cleanup. destruct (Hm s) as [l [Hl Hn]].
  destruct (m s) as [o s1]. cbn [snd] in Hl, Hn. exists l.
  destruct o; cbn [snd]; try (split; assumption).
  destruct (Hh s1) as [Hn2 Hl2]. split; congruence.
Qed.

Lemma wfm_do_op e o : wfm (do_op e o).
Proof. apply wfm_mutate, quiet_apply_op. Qed.

Lemma wfm_cursor_writes e tmp chunks : wfm (cursor_writes e tmp chunks).
Proof.
  induction chunks as [|x r IH]; cbn [cursor_writes]; [apply wfm_quiet, quiet_ret|].
  apply wfm_bind; [apply wfm_mutate, quiet_append_act | intros _; exact IH].
Qed.

Lemma wfm_wfa e p chunks : wfm (write_file_atomically e p chunks).
Proof.
  apply (wfm_ext _ (wfa_body e p chunks)); [apply wfa_eq|]. unfold wfa_body.
  apply wfm_bind; [apply wfm_do_op | intros _].
  apply wfm_try_cleanup; [|apply quiet_drop_tmp].
  apply wfm_bind; [apply wfm_cursor_writes | intros _; apply wfm_do_op].
Qed.

Lemma wfm_run_command e c um cmd : wfm (run_command e c um cmd).
Proof.
  destruct (is_manual cmd) eqn:Hm; [apply wfm_quiet, quiet_manual, Hm|].
  apply (R_run_command e e (fun A m1 _ => wfm m1)); try reflexivity; try exact Hm.
  - intros A a. apply wfm_quiet, quiet_ret.
  - intros A. apply wfm_quiet, quiet_fail.
  - intros A. apply wfm_quiet, quiet_diverge.
  - intros A. apply wfm_quiet, quiet_panic.
  - intros A B m1 m2 f1 f2 H1 H2. apply wfm_bind; assumption.
  - apply wfm_quiet, quiet_get_fs.
  - apply wfm_quiet, quiet_get_ks.
  - intros o act Hq. apply wfm_mutate, Hq.
  - intros p chunks. apply wfm_wfa.
Qed.

(* the counter of a whole run is the length of its log, whatever the outcome *)
Theorem count_is_length e c um cmd w :
  s_n (snd (run e c um cmd w)) = length (s_log (snd (run e c um cmd w))).
Proof.
  unfold run. destruct (wfm_run_command e c um cmd (MkSt w 0 [])) as [l [Hl Hn]].
  rewrite Hl, Hn. cbn [s_log s_n]. rewrite app_nil_r. lia.
Qed.

(* ------------------------------------------------------------------ FailAt k against NoFault *)
(* from a state that has not reached the k-th operation: if the faulty run returns normally
   then the fault-free run returns the same value in the same state, and the k-th operation
   has still not been reached *)
Definition sim (k : nat) {A} (m1 m2 : M A) : Prop :=
  forall s, (s_n s <= k)%nat -> forall a s', m1 s = (Ret a, s') ->
    m2 s = (Ret a, s') /\ (s_n s' <= k)%nat.

Lemma sim_ext k {A} (m1 m1' m2 m2' : M A) :
  (forall s, m1 s = m1' s) -> (forall s, m2 s = m2' s) -> sim k m1' m2' -> sim k m1 m2.
Proof. intros E1 E2 H s Hk a s' Hr. rewrite E1 in Hr. rewrite E2. apply (H s Hk a s' Hr). Qed.

Lemma sim_quiet k {A} (m : M A) : quiet m -> sim k m m.
Proof.
  intros Hq s Hk a s' Hr. split; [exact Hr|].
  destruct (Hq s) as [Hn _]. rewrite Hr in Hn. cbn [snd] in Hn. lia.
Qed.

Lemma sim_bind k {A B} (m1 m2 : M A) (f1 f2 : A -> M B) :
  sim k m1 m2 -> (forall a, sim k (f1 a) (f2 a)) -> sim k (bind m1 f1) (bind m2 f2).
Proof.
  intros Hm Hf s Hk b s2 Hr. unfold bind in *.
  destruct (m1 s) as [o s1] eqn:E1. destruct o as [a| | | |]; try discriminate Hr.
  destruct (Hm s Hk a s1 E1) as [E2 Hk1]. rewrite E2. apply (Hf a s1 Hk1 b s2 Hr).
Qed.

Lemma sim_try_cleanup k {A} (m1 m2 : M A) h :
  sim k m1 m2 -> sim k (try_cleanup m1 h) (try_cleanup m2 h).
Proof.
  intros Hm s Hk a s' Hr. unfold try_cleanup in *.
  destruct (m1 s) as [o s1] eqn:E1. destruct o as [a1| | | |]; try discriminate Hr.
  injection Hr as -> ->. destruct (Hm s Hk a s' E1) as [E2 Hk1]. rewrite E2. split; [reflexivity|exact Hk1].
Qed.

Section FailSim.
Variables (e1 e2 : env) (k : nat).
Hypothesis Hp : e_pretend e1 = e_pretend e2.
Hypothesis Hf1 : e_fault e1 = FailAt k.
Hypothesis Hf2 : e_fault e2 = NoFault.
Hypothesis Ho : e_order e1 = e_order e2.
Hypothesis Hfo : e_force e1 = e_force e2.

Lemma sim_mutate o act : quiet act -> sim k (mutate e1 o act) (mutate e2 o act).
Proof.
  intros Hq s Hk a s' Hr. unfold mutate in *. rewrite <- Hp, Hf2.
  destruct (e_pretend e1).
  - injection Hr as -> ->. split; [reflexivity|exact Hk].
  - rewrite Hf1 in Hr. destruct (Nat.eqb (s_n s) k) eqn:E; [discriminate Hr|].
    split; [exact Hr|]. apply Nat.eqb_neq in E.
    destruct (Hq (MkSt (s_w s) (S (s_n s)) (o :: s_log s))) as [Hn _].
    rewrite Hr in Hn. cbn [snd s_n] in Hn. lia.
Qed.

Lemma sim_cursor_writes tmp chunks :
  sim k (cursor_writes e1 tmp chunks) (cursor_writes e2 tmp chunks).
Proof.
  induction chunks as [|x r IH]; cbn [cursor_writes]; [apply sim_quiet, quiet_ret|].
  apply sim_bind; [apply sim_mutate, quiet_append_act | intros _; exact IH].
Qed.

Lemma sim_wfa p chunks :
  sim k (write_file_atomically e1 p chunks) (write_file_atomically e2 p chunks).
Proof.
  apply (sim_ext k _ (wfa_body e1 p chunks) _ (wfa_body e2 p chunks)); try apply wfa_eq.
  unfold wfa_body. apply sim_bind; [apply sim_mutate, quiet_apply_op | intros _].
  apply sim_try_cleanup.
  apply sim_bind; [apply sim_cursor_writes | intros _; apply sim_mutate, quiet_apply_op].
Qed.

Lemma sim_run_command_nm c um cmd :
  is_manual cmd = false -> sim k (run_command e1 c um cmd) (run_command e2 c um cmd).
Proof.
  intros Hm.
  apply (R_run_command e1 e2 (fun A m1 m2 => sim k m1 m2)); try assumption.
  - intros A a. apply sim_quiet, quiet_ret.
  - intros A. apply sim_quiet, quiet_fail.
  - intros A. apply sim_quiet, quiet_diverge.
  - intros A. apply sim_quiet, quiet_panic.
  - intros A B m1 m2 f1 f2 H1 H2. apply sim_bind; assumption.
  - apply sim_quiet, quiet_get_fs.
  - apply sim_quiet, quiet_get_ks.
  - intros o act Hq. apply sim_mutate, Hq.
  - intros p chunks. apply sim_wfa.
Qed.
End FailSim.

Lemma run_command_manual_env e e' c um cmd :
  is_manual cmd = true -> run_command e c um cmd = run_command e' c um cmd.
Proof. destruct cmd; cbn [is_manual]; try discriminate; reflexivity. Qed.

Theorem fail_sim e k c um cmd :
  e_fault e = FailAt k -> sim k (run_command e c um cmd) (run_command (nofault e) c um cmd).
Proof.
  intros Hf. destruct (is_manual cmd) eqn:Hm.
  - rewrite (run_command_manual_env (nofault e) e) by exact Hm.
    apply sim_quiet, quiet_manual, Hm.
  - apply sim_run_command_nm; try reflexivity; assumption.
Qed.

(* model-level core of C10 *)
Theorem fault_reported e k c um cmd w :
  e_fault e = FailAt k ->
  (k < length (s_log (snd (run e c um cmd w))))%nat ->
  rclass_of (fst (run e c um cmd w)) <> ROk.
Proof.
  intros Hf Hlt Hok. rewrite <- count_is_length in Hlt. unfold run in *.
  destruct (run_command e c um cmd (MkSt w 0 [])) as [o st] eqn:Hr. cbn [fst snd] in *.
  destruct o as [a| | | |]; try discriminate Hok.
  destruct (fail_sim e k c um cmd Hf (MkSt w 0 []) (Nat.le_0_l k) a st Hr) as [_ Hle]. lia.
Qed.

Theorem ok_means_all_applied e k c um cmd w :
  e_fault e = FailAt k ->
  rclass_of (fst (run e c um cmd w)) = ROk ->
  run e c um cmd w = run (nofault e) c um cmd w.
Proof.
  intros Hf Hok. unfold run in *.
  destruct (run_command e c um cmd (MkSt w 0 [])) as [o st] eqn:Hr. cbn [fst] in Hok.
  destruct o as [a| | | |]; try discriminate Hok.
  destruct (fail_sim e k c um cmd Hf (MkSt w 0 []) (Nat.le_0_l k) a st Hr) as [E _].
  symmetry. exact E.
Qed.

(* the form of DESIGN section 6: the fault-free run performs more than k operations *)
Theorem fault_reported_nofault e k c um cmd w :
  e_fault e = FailAt k ->
  (k < length (s_log (snd (run (nofault e) c um cmd w))))%nat ->
  rclass_of (fst (run e c um cmd w)) <> ROk.
Proof.
  intros Hf Hlt Hok. pose proof (ok_means_all_applied e k c um cmd w Hf Hok) as E.
  rewrite <- E in Hlt. exact (fault_reported e k c um cmd w Hf Hlt Hok).
Qed.

(* ------------------------------------------------------------------ the views *)
Lemma view_env c w e cmd um : LC.v_env (LC.view_of_model c w e cmd um) = e.
Proof. unfold LC.view_of_model. destruct (run e c um cmd (LC.world_of w)). reflexivity. Qed.
Lemma view_res c w e cmd um :
  LC.v_res (LC.view_of_model c w e cmd um) = rclass_of (fst (run e c um cmd (LC.world_of w))).
Proof. unfold LC.view_of_model. destruct (run e c um cmd (LC.world_of w)). reflexivity. Qed.
Lemma view_log c w e cmd um :
  LC.v_log (LC.view_of_model c w e cmd um) = rev (s_log (snd (run e c um cmd (LC.world_of w)))).
Proof. unfold LC.view_of_model. destruct (run e c um cmd (LC.world_of w)). reflexivity. Qed.
Lemma view_after c w e cmd um :
  LC.v_after (LC.view_of_model c w e cmd um)
  = LC.MkWO (w_fs (s_w (snd (run e c um cmd (LC.world_of w)))))
            (w_ks (s_w (snd (run e c um cmd (LC.world_of w))))).
Proof. unfold LC.view_of_model. destruct (run e c um cmd (LC.world_of w)). reflexivity. Qed.
Lemma view_layers c w e cmd um :
  LC.v_layers (LC.view_of_model c w e cmd um)
  = match fst (run e c um cmd (LC.world_of w)) with
    | Ret (Some ld) => Some (LC.sort_lobs (map LC.lobs_of (ld_map ld)))
    | _ => None
    end.
Proof. unfold LC.view_of_model. destruct (run e c um cmd (LC.world_of w)). reflexivity. Qed.

Theorem C10_model_proof cfg w e cmd um :
  C10.step_spec cfg w (LC.view_of_model cfg w e cmd um) = true.
Proof.
  unfold C10.step_spec. rewrite view_env, view_res, view_log.
  destruct (e_fault e) as [|k|k] eqn:Hf; try reflexivity.
  rewrite rev_length.
  destruct (Nat.ltb k (length (s_log (snd (run e cfg um cmd (LC.world_of w)))))) eqn:Hlt;
    [|reflexivity].
  apply Nat.ltb_lt in Hlt. pose proof (fault_reported e k cfg um cmd _ Hf Hlt) as Hne.
  destruct (rclass_of (fst (run e cfg um cmd (LC.world_of w)))); try reflexivity.
  exfalso. apply Hne. reflexivity.
Qed.

Theorem C10_ok_means_all_applied_proof cfg w e k cmd um :
  e_fault e = FailAt k ->
  LC.v_res (LC.view_of_model cfg w e cmd um) = ROk ->
  LC.v_log (LC.view_of_model cfg w e cmd um) = LC.v_log (LC.view_of_model cfg w (nofault e) cmd um)
  /\ LC.v_after (LC.view_of_model cfg w e cmd um) = LC.v_after (LC.view_of_model cfg w (nofault e) cmd um)
  /\ LC.v_layers (LC.view_of_model cfg w e cmd um) = LC.v_layers (LC.view_of_model cfg w (nofault e) cmd um)
  /\ LC.v_res (LC.view_of_model cfg w (nofault e) cmd um) = ROk.
Proof.
  intros Hf Hok. rewrite view_res in Hok.
  pose proof (ok_means_all_applied e k cfg um cmd _ Hf Hok) as E.
  rewrite !view_log, !view_after, !view_layers, !view_res, <- E. repeat split. exact Hok.
Qed.

(* ------------------------------------------------------------------ CrashAt k against NoFault *)
Definition crel (k : nat) {A} (m1 m2 : M A) : Prop :=
  wfm m2 /\
  forall s, (s_n s <= k)%nat ->
    (m1 s = m2 s /\ (s_n (snd (m1 s)) <= k)%nat)
    \/ (exists s1, m1 s = (Crashed, s1) /\ s_n s1 = k
                   /\ exists l, s_log (snd (m2 s)) = l ++ s_log s1).

Lemma crel_ext k {A} (m1 m1' m2 m2' : M A) :
  (forall s, m1 s = m1' s) -> (forall s, m2 s = m2' s) -> crel k m1' m2' -> crel k m1 m2.
Proof.
  intros E1 E2 [Hw H]. split; [apply (wfm_ext _ m2'); assumption|].
  intros s Hk. rewrite E1, E2. apply H, Hk.
Qed.

Lemma crel_quiet k {A} (m : M A) : quiet m -> crel k m m.
Proof.
  intros Hq. split; [apply wfm_quiet, Hq|]. intros s Hk. left. split; [reflexivity|].
  destruct (Hq s) as [Hn _]. lia.
Qed.

Lemma crel_bind k {A B} (m1 m2 : M A) (f1 f2 : A -> M B) :
  crel k m1 m2 -> (forall a, crel k (f1 a) (f2 a)) -> crel k (bind m1 f1) (bind m2 f2).
Proof.
  intros [Hw Hm] Hf. split.
  - apply wfm_bind; [exact Hw | intros a; apply (Hf a)].
  - intros s Hk. unfold bind. destruct (Hm s Hk) as [[E Hk1] | [s1 [E1 [Hn1 [l Hl]]]]].
    + rewrite <- E. destruct (m1 s) as [o s1]. cbn [snd] in Hk1.
      destruct o as [a| | | |]; try (left; split; [reflexivity | exact Hk1]).
      destruct (Hf a) as [_ Hfa]. apply Hfa, Hk1.
    + right. exists s1. rewrite E1. split; [reflexivity|]. split; [exact Hn1|].
      destruct (m2 s) as [o2 s2]. cbn [snd] in Hl.
      destruct o2 as [a| | | |]; try (exists l; exact Hl).
      destruct (Hf a) as [Hwa _]. destruct (Hwa s2) as [l2 [Hl2 _]].
      exists (l2 ++ l). rewrite Hl2, Hl. apply app_assoc.
Qed.

Lemma crel_try_cleanup k {A} (m1 m2 : M A) h :
  quiet h -> crel k m1 m2 -> crel k (try_cleanup m1 h) (try_cleanup m2 h).
Proof.
  intros Hq [Hw Hm]. split; [apply wfm_try_cleanup; assumption|].
  intros s Hk. unfold try_cleanup. destruct (Hm s Hk) as [[E Hk1] | [s1 [E1 [Hn1 [l Hl]]]]].
  - left. rewrite <- E. split; [reflexivity|]. destruct (m1 s) as [o s1]. cbn [snd] in Hk1.
    destruct o; cbn [snd]; try exact Hk1. destruct (Hq s1) as [Hn _]. lia.
  - right. exists s1. rewrite E1. split; [reflexivity|]. split; [exact Hn1|]. exists l.
    destruct (m2 s) as [o2 s2]. cbn [snd] in Hl.
    destruct o2; cbn [snd]; try exact Hl. destruct (Hq s2) as [_ Hl2]. congruence.
Qed.

Section CrashRel.
Variables (e1 e2 : env) (k : nat).
Hypothesis Hp : e_pretend e1 = e_pretend e2.
Hypothesis Hf1 : e_fault e1 = CrashAt k.
Hypothesis Hf2 : e_fault e2 = NoFault.
Hypothesis Ho : e_order e1 = e_order e2.
Hypothesis Hfo : e_force e1 = e_force e2.

Lemma crel_mutate o act : quiet act -> crel k (mutate e1 o act) (mutate e2 o act).
Proof.
  intros Hq. split; [apply wfm_mutate, Hq|]. intros s Hk. unfold mutate.
  rewrite <- Hp, Hf1, Hf2. destruct (e_pretend e1).
  - left. split; [reflexivity | exact Hk].
  - destruct (Hq (MkSt (s_w s) (S (s_n s)) (o :: s_log s))) as [Hn Hl].
    destruct (Nat.eqb (s_n s) k) eqn:E.
    + right. exists s. apply Nat.eqb_eq in E. split; [reflexivity|]. split; [exact E|].
      exists [o]. exact Hl.
    + left. split; [reflexivity|]. apply Nat.eqb_neq in E. rewrite Hn. cbn [s_n]. lia.
Qed.

Lemma crel_cursor_writes tmp chunks :
  crel k (cursor_writes e1 tmp chunks) (cursor_writes e2 tmp chunks).
Proof.
  induction chunks as [|x r IH]; cbn [cursor_writes]; [apply crel_quiet, quiet_ret|].
  apply crel_bind; [apply crel_mutate, quiet_append_act | intros _; exact IH].
Qed.

Lemma crel_wfa p chunks :
  crel k (write_file_atomically e1 p chunks) (write_file_atomically e2 p chunks).
Proof.
  apply (crel_ext k _ (wfa_body e1 p chunks) _ (wfa_body e2 p chunks)); try apply wfa_eq.
  unfold wfa_body. apply crel_bind; [apply crel_mutate, quiet_apply_op | intros _].
  apply crel_try_cleanup; [apply quiet_drop_tmp|].
  apply crel_bind; [apply crel_cursor_writes | intros _; apply crel_mutate, quiet_apply_op].
Qed.

Lemma crel_run_command_nm c um cmd :
  is_manual cmd = false -> crel k (run_command e1 c um cmd) (run_command e2 c um cmd).
Proof.
  intros Hm.
  apply (R_run_command e1 e2 (fun A m1 m2 => crel k m1 m2)); try assumption.
  - intros A a. apply crel_quiet, quiet_ret.
  - intros A. apply crel_quiet, quiet_fail.
  - intros A. apply crel_quiet, quiet_diverge.
  - intros A. apply crel_quiet, quiet_panic.
  - intros A B m1 m2 f1 f2 H1 H2. apply crel_bind; assumption.
  - apply crel_quiet, quiet_get_fs.
  - apply crel_quiet, quiet_get_ks.
  - intros o act Hq. apply crel_mutate, Hq.
  - intros p chunks. apply crel_wfa.
Qed.
End CrashRel.

Theorem crash_rel e k c um cmd :
  e_fault e = CrashAt k -> crel k (run_command e c um cmd) (run_command (nofault e) c um cmd).
Proof.
  intros Hf. destruct (is_manual cmd) eqn:Hm.
  - rewrite (run_command_manual_env (nofault e) e) by exact Hm.
    apply crel_quiet, quiet_manual, Hm.
  - apply crel_run_command_nm; try reflexivity; assumption.
Qed.

(* the crashed run's log (in execution order) is the first k operations of the fault-free run *)
Theorem crash_prefix e k c um cmd w :
  e_fault e = CrashAt k ->
  rev (s_log (snd (run e c um cmd w))) = firstn k (rev (s_log (snd (run (nofault e) c um cmd w)))).
Proof.
  intros Hf. pose proof (count_is_length e c um cmd w) as Hc. unfold run in *.
  destruct (crash_rel e k c um cmd Hf) as [_ H].
  destruct (H (MkSt w 0 []) (Nat.le_0_l k)) as [[E Hk1] | [s1 [E1 [Hn1 [l Hl]]]]].
  - rewrite <- E. rewrite firstn_all2; [reflexivity|]. rewrite rev_length. lia.
  - rewrite Hl, E1 in *. cbn [snd] in *. rewrite rev_app_distr, firstn_app.
    assert (Hlen : length (rev (s_log s1)) = k) by (rewrite rev_length; lia).
    rewrite firstn_all2 by lia. rewrite Hlen, Nat.sub_diag. cbn [firstn]. symmetry. apply app_nil_r.
Qed.

(* and a run that does not crash under CrashAt k is the fault-free run *)
Theorem no_crash_means_same e k c um cmd w :
  e_fault e = CrashAt k ->
  rclass_of (fst (run e c um cmd w)) <> RCrash ->
  run e c um cmd w = run (nofault e) c um cmd w.
Proof.
  intros Hf Hnc. unfold run in *. destruct (crash_rel e k c um cmd Hf) as [_ H].
  destruct (H (MkSt w 0 []) (Nat.le_0_l k)) as [[E _] | [s1 [E1 _]]]; [exact E|].
  rewrite E1 in Hnc. exfalso. apply Hnc. reflexivity.
Qed.

Theorem C10_crash_prefix_proof cfg w e k cmd um :
  e_fault e = CrashAt k ->
  LC.v_log (LC.view_of_model cfg w e cmd um)
  = firstn k (LC.v_log (LC.view_of_model cfg w (nofault e) cmd um)).
Proof. intros Hf. rewrite !view_log. apply crash_prefix, Hf. Qed.

(* ------------------------------------------------------------------ the hypotheses are satisfiable *)
(* the world after `layercake init` on an empty root; `add a` there performs 12 operations, the
   2nd to 9th inside write_file_atomically *)
Definition ex_world2 : LC.wobs :=
  LC.v_after (LC.view_of_model ex_cfg ex_world (ex_env false NoFault) CInit []).
Definition ex_add (f : fault) : LC.sview :=
  LC.view_of_model ex_cfg ex_world2 (ex_env false f) (CAdd (bs "a") [] []) [].

Example C10_fault_hit_nontrivial :
  length (LC.v_log (ex_add NoFault)) = 12%nat /\ LC.v_res (ex_add NoFault) = ROk
  /\ LC.v_res (ex_add (FailAt 4)) = RFail /\ length (LC.v_log (ex_add (FailAt 4))) = 5%nat.
Proof. vm_compute. repeat split. Qed.

Example C10_ok_hyps_nontrivial :
  e_fault (ex_env false (FailAt 12)) = FailAt 12 /\ LC.v_res (ex_add (FailAt 12)) = ROk
  /\ length (LC.v_log (ex_add (FailAt 12))) = 12%nat.
Proof. vm_compute. repeat split. Qed.

Example C10_crash_hyps_nontrivial :
  e_fault (ex_env false (CrashAt 5)) = CrashAt 5 /\ LC.v_res (ex_add (CrashAt 5)) = RCrash
  /\ length (LC.v_log (ex_add (CrashAt 5))) = 5%nat.
Proof. vm_compute. repeat split. Qed.
