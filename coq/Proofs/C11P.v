(* C11 (b): no prefix of any command's operation sequence leaves a layerconfig that is not a
   complete version.  Invariant J on the file tree, preserved by every primitive as the
   commands use them; the temporary-file protocol of write_file_atomically restores it. *)
From LC Require Import Lib.Bytes Lib.Lex Lib.Fields Lib.PathM Gen.Consts
  Model.MountInfo Model.FsTree Model.Kernel Model.Layers Cases.Verdict Cases.LC Cases.C11
  Proofs.PathP Proofs.PathBaseP Proofs.CleanP Proofs.FsxMonadP Proofs.FsP Proofs.LayersP Proofs.LayerFileP.
Import LC LCS.
Close Scope string_scope.
Open Scope list_scope.

Definition LCF : bytes := D_LayerconfigFile.
Definition LCT : bytes := LCF ++ tmp_suffix.

(* ------------------------------------------------------------------ what the reader produces *)
Definition lfw (st : lfile) : Prop :=
  base_ok (lf_base st) = true /\ forallb nm_ok_import (lf_mounts st) = true
  /\ forallb nm_ok_export (lf_exports st) = true.

Lemma tok_okb_of t : tok_ok t -> tok_okb t = true.
Proof. apply tok_okb_spec. Qed.
Lemma base_ok_tok b : tok_ok b -> base_ok b = true.
Proof. intros H. destruct b; [reflexivity|]. now apply tok_okb_of. Qed.

Lemma lf_step_wf st line : lfw st -> lfw (lf_step st line).
Proof.
  intros (Hb & Hm & He). unfold lf_step. destruct (is_comment (trim line)); [now repeat split|].
  pose proof (fields_tok (trim line)) as HT. destruct (fields (trim line)) as [|kw args]; [now repeat split|].
  inversion HT as [|? ? Hkw Hargs]; subst.
  destruct (beq kw (bs "base")).
  { destruct args as [|b0 r]; [now repeat split|]. inversion Hargs as [|? ? Hb0 _]; subst.
    destruct (lf_base st) as [|c0 r0] eqn:EB.
    - repeat split; cbn [lf_base lf_mounts lf_exports]; auto. now apply base_ok_tok.
    - destruct (beq (c0 :: r0) b0); repeat split; cbn [lf_base lf_mounts lf_exports]; auto; now rewrite EB. }
  destruct (beq kw (bs "import")).
  { destruct args as [|ty [|src [|mnt r]]]; try now repeat split.
    inversion Hargs as [|? ? Hty H1]; subst. inversion H1 as [|? ? Hsrc H2]; subst. inversion H2 as [|? ? Hmnt _]; subst.
    repeat split; cbn [lf_base lf_mounts lf_exports]; auto.
    rewrite forallb_app, Hm. cbn [forallb andb]. rewrite andb_true_r.
    unfold nm_ok_import. cbn [nm_fstype nm_source nm_mount].
    rewrite (tok_okb_of _ Hty), (tok_okb_of _ (clean_tok _ Hsrc)), (tok_okb_of _ (clean_reroot_tok _ Hmnt)).
    rewrite clean_reroot_idem, clean_idem, !beq_refl. reflexivity. }
  destruct (beq kw (bs "export")).
  { destruct args as [|ty [|src [|mnt r]]]; try now repeat split.
    inversion Hargs as [|? ? Hty H1]; subst. inversion H1 as [|? ? Hsrc H2]; subst. inversion H2 as [|? ? Hmnt _]; subst.
    repeat split; cbn [lf_base lf_mounts lf_exports]; auto.
    rewrite forallb_app, He. cbn [forallb andb]. rewrite andb_true_r.
    unfold nm_ok_export. cbn [nm_fstype nm_source nm_mount].
    rewrite (tok_okb_of _ Hty), (tok_okb_of _ (clean_tok _ Hsrc)), (tok_okb_of _ (clean_tok _ Hmnt)).
    rewrite !clean_idem, !beq_refl. reflexivity. }
  now repeat split.
Qed.
Lemma read_layerfile_wf content : lfw (read_layerfile content).
Proof.
  unfold read_layerfile. generalize (scan_lines content). intros ls.
  assert (H0 : lfw (MkLF [] [] [] 0)) by (repeat split).
  revert H0. generalize (MkLF [] [] [] 0). induction ls as [|l r IH]; intros st H; cbn [fold_left]; auto.
  apply IH. now apply lf_step_wf.
Qed.

(* ------------------------------------------------------------------ complete versions *)
Definition olds (c : cfgT) (f : fsT) : list bytes :=
  flat_map (fun e => match snd e with
                     | File o => if beq (pathbase (fst e)) D_LayerconfigFile
                                    || beq (pathdir (fst e)) (c_base c) then [o] else []
                     | _ => [] end) f.
Definition derives (cmd : command) (x o : bytes) : bool :=
  let lo := read_layerfile o in let lx := read_layerfile x in
  list_beq nmount_beq (lf_mounts lo) (lf_mounts lx)
  && list_beq nmount_beq (lf_exports lo) (lf_exports lx)
  && (beq (lf_base lo) (lf_base lx)
      || match cmd with
         | CRename _ n => beq (lf_base lx) n
         | CRebase _ b0 => beq (lf_base lx) b0
         | CAdd _ b0 _ => beq (lf_base lx) b0
         | _ => false end).
Lemma complete_version_eq c f cmd p x :
  C11.complete_version c f cmd p x =
  existsb (fun o => beq o x) (olds c f) || (C11.loads_clean x && existsb (derives cmd x) (olds c f)).
Proof. reflexivity. Qed.

Lemma in_olds c f q o : In (q, File o) f -> pathbase q = LCF -> In o (olds c f).
Proof.
  intros Hin Hb. unfold olds. apply in_flat_map. exists (q, File o). split; [exact Hin|].
  cbn [fst snd]. rewrite Hb. unfold LCF. rewrite beq_refl. now left.
Qed.

(* the base a command intends for the files it rewrites *)
Definition intends (cmd : command) (b : bytes) : Prop :=
  match cmd with
  | CRename _ n => b = n
  | CRebase _ b0 => b = b0
  | CAdd _ b0 _ => b = b0
  | _ => False
  end.

(* ------------------------------------------------------------------ hypotheses on the world *)
(* regular files have proper names (no trailing slash) and none is a stale temporary of a
   layerconfig rewrite *)
Definition files_ok (f : fsT) : bool :=
  forallb (fun en => match snd en with
                     | File _ => ends_ok (fst en) && negb (beq (pathbase (fst en)) LCT)
                     | _ => true end) f.
(* the layerconfig of a layer directory is not a symbolic link *)
Definition lc_regular (c : cfgT) (f : fsT) : bool :=
  forallb (fun n => negb (is_symlink f (pathjoin [layer_path c n; LCF]))) (children f (c_layers c)).
(* `add` from a configuration file: the file is one the property knows (a file directly in
   the base directory, e.g. the skeleton, or a layerconfig) *)
Definition add_basis_ok (c : cfgT) (f : fsT) (cf : bytes) : bool :=
  match default_layerinfo c f cf with
  | None => true
  | Some lf => existsb (fun o => list_beq nmount_beq (lf_mounts (read_layerfile o)) (lf_mounts lf)
                                 && list_beq nmount_beq (lf_exports (read_layerfile o)) (lf_exports lf)) (olds c f)
  end.
Definition cmd_ok (c : cfgT) (f : fsT) (cmd : command) : bool :=
  match cmd with
  | CRename _ n => negb (beq n LCF)
  | CAdd _ base cf => if negb (beq cf []) || beq base [] then add_basis_ok c f cf else true
  (* a file overwritten by hand (not a layercake command): not a layerconfig nor its temporary *)
  | CEdit p _ => ends_ok p && negb (beq (pathbase p) LCF) && negb (beq (pathbase p) LCT)
  | _ => true
  end.
Definition wf_world (c : cfgT) (f : fsT) (cmd : command) : bool :=
  files_ok f && lc_regular c f && cmd_ok c f cmd.

Lemma stat_nolink fs p : (forall t, fs_get fs p <> Some (Link t)) -> stat fs p = fs_get fs p.
Proof.
  intros H. unfold stat. generalize 8%nat. intros n.
  destruct n; cbn [stat_fuel]; destruct (fs_get fs p) as [[|x|t]|] eqn:E; try reflexivity; exfalso; eapply H; eauto.
Qed.

Lemma default_layerinfo_read c f cf lf : default_layerinfo c f cf = Some lf -> exists content, lf = read_layerfile content.
Proof.
  unfold default_layerinfo. cbv zeta.
  match goal with |- match ?x with _ => _ end = _ -> _ => destruct x as [content|] end; [|discriminate].
  destruct (lf_errors (read_layerfile content)); [|discriminate]. intros H. injection H as <-. now exists content.
Qed.

Section Inv.
Variable c : cfgT.
Variable f0 : fsT.
Variable cmd : command.
(* strict: regular files named layerconfig.tmp are excluded as well (no stale temporaries) *)
Variable strict : bool.

Definition good (x : bytes) : Prop := C11.complete_version c f0 cmd [] x = true.

Lemma good_old o : In o (olds c f0) -> good o.
Proof.
  intros H. unfold good. rewrite complete_version_eq. apply orb_true_iff. left.
  apply existsb_exists. exists o. split; [exact H|apply beq_refl].
Qed.

(* a configuration that is well formed and derives from an old file is a complete version *)
Definition from_old (base : bytes) (ms es : list nmount) : Prop :=
  exists o, In o (olds c f0) /\ lf_mounts (read_layerfile o) = ms /\ lf_exports (read_layerfile o) = es
            /\ (lf_base (read_layerfile o) = base \/ intends cmd base).

Lemma good_rewrite base ms es : lf_wf base ms es = true -> from_old base ms es ->
  good (concat (layerfile_chunks base ms es)).
Proof.
  intros Hwf (o & Ho & Hm & He & Hb). unfold good. rewrite complete_version_eq.
  apply orb_true_iff. right. unfold C11.loads_clean. rewrite (layerfile_roundtrip _ _ _ Hwf).
  cbn [lf_errors andb]. apply existsb_exists. exists o. split; [exact Ho|].
  unfold derives. rewrite (layerfile_roundtrip _ _ _ Hwf). cbn [lf_base lf_mounts lf_exports].
  rewrite Hm, He, !nmounts_beq_refl. cbn [andb].
  destruct Hb as [->|Hb]; [now rewrite beq_refl|].
  apply orb_true_iff. right. destruct cmd; cbn in Hb; try contradiction; subst; apply beq_refl.
Qed.

(* ------------------------------------------------------------------ the invariant *)
Definition Phi (q y : bytes) : Prop :=
  ends_ok q = true /\ (strict = true -> pathbase q <> LCT) /\ (pathbase q = LCF -> good y).
Definition J : fsT -> Prop := FJ Phi.
(* what the property asks of the final tree *)
Definition Sf (g : fsT) : Prop := forall q y, In (q, File y) g -> pathbase q = LCF -> good y.

Lemma J_Sf g : J g -> Sf g.
Proof. intros H q y Hq. now apply (H q y Hq). Qed.

Lemma ends_ok_under_inv b r : ends_ok (b ++ sl :: r) = true -> ends_ok r = true.
Proof.
  unfold ends_ok. rewrite rev_app_distr. cbn [rev]. rewrite <- app_assoc.
  destruct (rev r) as [|ch t]; [|auto]. cbn. discriminate.
Qed.
Lemma Phi_stable : move_stable Phi.
Proof.
  intros a' b r y (H1 & H2 & H3). apply ends_ok_under_inv in H1.
  unfold Phi. rewrite (pathbase_under b a' r H1). repeat split; auto. now apply ends_ok_under.
Qed.

(* a path whose last element is a fixed name other than the two special ones is harmless *)
Lemma Phi_other pre n y : dirpre pre -> n <> [] -> noslash n -> n <> LCF -> n <> LCT -> Phi (pre ++ n) y.
Proof.
  intros Hp Hn Hs H1 H2. unfold Phi. rewrite (pathbase_comp pre n Hn Hs Hp).
  repeat split; [now apply ends_ok_comp|intros _; exact H2|contradiction].
Qed.

(* ------------------------------------------------------------------ the temporary-file protocol *)
Variable e : env.
Hypothesis Hreal : e_pretend e = false.

Lemma len_LCF : length LCF = 11%nat.
Proof. reflexivity. Qed.
Lemma len_tmp : length tmp_suffix = 4%nat.
Proof. reflexivity. Qed.
Lemma LCF_neq_LCT : LCF <> LCT.
Proof. intros H. apply (f_equal (@length _)) in H. unfold LCT in H. rewrite app_length, len_LCF, len_tmp in H. discriminate. Qed.
Lemma LCF_nonempty : LCF <> [].
Proof. discriminate. Qed.
Lemma LCF_noslash : noslash LCF.
Proof. apply nosepb_spec. reflexivity. Qed.
Lemma LCT_nonempty : LCT <> [].
Proof. discriminate. Qed.
Lemma LCT_noslash : noslash LCT.
Proof. apply nosepb_spec. reflexivity. Qed.
Lemma LCF_plain : plain LCF.
Proof. apply plainb_spec. reflexivity. Qed.

(* while the temporary file t is being written: it is the last entry, the rest satisfies J *)
Definition Jw (t x : bytes) (g : fsT) : Prop :=
  exists g0, g = g0 ++ [(t, File x)] /\ fs_get g0 t = None /\ J g0.

Lemma Jw_Sf t x g : pathbase t = LCT -> Jw t x g -> Sf g.
Proof.
  intros Ht (g0 & -> & _ & HJ) q y Hq Hb. apply in_app_or in Hq as [Hq|[Hq|[]]].
  - now apply (HJ q y Hq).
  - injection Hq as <- <-. rewrite Ht in Hb. symmetry in Hb. now apply LCF_neq_LCT in Hb.
Qed.

Lemma open_tmp t : strict = true -> pathbase t = LCT -> hoare J (do_op e (OOpen t)) (fun _ => Jw t []) J.
Proof.
  intros Hst Ht. unfold do_op. apply h_mutate_real; [exact Hreal|auto|]. unfold apply_op.
  eapply h_bind; [apply h_get_fs|]. intros f. eapply h_bind; [apply h_get_ks|]. intros k.
  apply h_on_fres; [now intros g [Hg _]|]. intros g f' [Hg ->] Hr.
  unfold open_trunc in Hr. destruct (lstat g t) as [[|old|lt]|] eqn:El; try discriminate.
  - exfalso. apply fs_get_in in El. destruct (Hg _ _ El) as (_ & H2 & _). now apply (H2 Hst).
  - destruct (is_dir g (pathdir t) && names_fit t); [|discriminate]. injection Hr as <-. exists g. auto.
Qed.

Lemma append_tmp t x c0 g : Jw t x g -> Jw t (x ++ c0) (append_file g t c0).
Proof.
  intros (g0 & -> & Hn & HJ). unfold append_file, lstat. rewrite (fs_get_app_none _ _ _ Hn).
  cbn [fs_get]. rewrite beq_refl. rewrite (fs_set_app_none _ _ _ _ _ Hn). exists g0. auto.
Qed.

Lemma cursor_J t chunks : forall x,
  hoare (Jw t x) (cursor_writes e t chunks) (fun _ => Jw t (x ++ concat chunks)) (fun g => exists x', Jw t x' g).
Proof.
  induction chunks as [|c0 r IH]; intros x; cbn [cursor_writes concat].
  - apply h_ret. intros g Hg. now rewrite app_nil_r.
  - apply h_bind with (Q := fun _ => Jw t (x ++ c0)).
    + apply h_mutate_real; [exact Hreal|intros g Hg; now exists x|].
      eapply h_bind; [apply h_get_fs|]. intros f. apply h_put_fs. intros g [Hg ->]. now apply append_tmp.
    + intros u. rewrite app_assoc. apply IH.
Qed.

Lemma drop_tmp_J t x g : Jw t x g -> J (filter (fun en => negb (beq (fst en) t)) g).
Proof.
  intros (g0 & -> & _ & HJ). rewrite filter_app. cbn [filter fst]. rewrite beq_refl. cbn [negb].
  rewrite app_nil_r. now apply FJ_filter.
Qed.

Lemma rename_tmp pre X g g' : dirpre pre -> good X ->
  Jw ((pre ++ LCF) ++ tmp_suffix) X g -> rename g ((pre ++ LCF) ++ tmp_suffix) (pre ++ LCF) = FOk g' -> J g'.
Proof.
  intros Hpre HX (g0 & -> & Hn & HJ) Hr.
  set (p := pre ++ LCF) in *. set (t := p ++ tmp_suffix) in *.
  assert (Lt : length t = (length pre + 15)%nat).
  { unfold t, p. rewrite !app_length, len_LCF, len_tmp. lia. }
  destruct (rename_shape _ _ _ _ Hr) as [[_ E]|(g'' & Hinc & ->)].
  { exfalso. apply (f_equal (@length _)) in E. unfold t in E. rewrite app_length, len_tmp in E. lia. }
  intros q' y Hq'. apply in_map_iff in Hq' as ([q m] & Hm & Hq). apply Hinc in Hq.
  apply in_app_or in Hq as [Hq|[Hq|[]]].
  - assert (Hqt : q <> t) by (intros ->; now apply (fs_get_none _ _ Hn m)).
    destruct (move_entry_cases t p q m) as [[_ E]|[(-> & E)|(a' & r & -> & E & _)]]; rewrite E in Hm.
    + injection Hm as <- ->. now apply (HJ _ _ Hq).
    + congruence.
    + injection Hm as <- ->. eapply Phi_stable. apply (HJ _ _ Hq).
  - injection Hq as <- <-.
    destruct (move_entry_cases t p t (File X)) as [[E _]|[(_ & E)|(a' & r & E0 & E & Ha)]].
    + rewrite at_or_under_refl in E. discriminate.
    + rewrite E in Hm. injection Hm as <- <-. unfold p. unfold Phi.
      rewrite (pathbase_comp pre LCF LCF_nonempty LCF_noslash Hpre).
      repeat split; [apply ends_ok_comp; [apply LCF_nonempty|apply LCF_noslash]|intros _; apply LCF_neq_LCT|auto].
    + exfalso. apply (f_equal (@length _)) in E0. destruct Ha as [->|[Hroot ->]].
      * rewrite app_length in E0. cbn [length] in E0. lia.
      * apply (f_equal (@length _)) in Hroot. rewrite Lt in Hroot. cbn in Hroot. lia.
Qed.

Lemma rename_tmp_op pre X : dirpre pre -> good X ->
  hoare (Jw ((pre ++ LCF) ++ tmp_suffix) X) (do_op e (ORename ((pre ++ LCF) ++ tmp_suffix) (pre ++ LCF)))
        (fun _ => J) (Jw ((pre ++ LCF) ++ tmp_suffix) X).
Proof.
  intros Hpre HX. unfold do_op. apply h_mutate_real; [exact Hreal|auto|]. unfold apply_op.
  eapply h_bind; [apply h_get_fs|]. intros f. eapply h_bind; [apply h_get_ks|]. intros k.
  apply h_on_fres; [now intros g [Hg _]|]. intros g f' [Hg ->] Hr. eapply rename_tmp; eauto.
Qed.

Lemma tmp_base pre : dirpre pre -> pathbase ((pre ++ LCF) ++ tmp_suffix) = LCT.
Proof.
  intros Hpre. rewrite <- app_assoc. fold LCT. apply pathbase_comp; [apply LCT_nonempty|apply LCT_noslash|exact Hpre].
Qed.

Lemma wfa_J pre chunks : strict = true -> dirpre pre -> good (concat chunks) ->
  hoare J (write_file_atomically e (pre ++ LCF) chunks) (fun _ => J) Sf.
Proof.
  intros Hst Hpre HX s Hs. unfold write_file_atomically.
  set (p := pre ++ LCF). set (t := p ++ tmp_suffix).
  assert (Ht : pathbase t = LCT) by (apply tmp_base; exact Hpre).
  pose proof (open_tmp t Hst Ht s Hs) as H1.
  destruct (do_op e (OOpen t) s) as [[[]| | | |] s1]; try (now apply J_Sf).
  pose proof (cursor_J t chunks [] s1 H1) as H2. cbn [app] in H2.
  destruct (cursor_writes e t chunks s1) as [[[]| | | |] s2].
  - pose proof (rename_tmp_op pre (concat chunks) Hpre HX s2 H2) as H3. fold p t in H3.
    destruct (do_op e (ORename t p) s2) as [[[]| | | |] s3]; try (now apply (Jw_Sf t (concat chunks))).
    + exact H3.
    + cbn. apply J_Sf. eapply drop_tmp_J. exact H3.
  - destruct H2 as [x' H2]. cbn. apply J_Sf. eapply drop_tmp_J. exact H2.
  - destruct H2 as [x' H2]. now apply (Jw_Sf t x').
  - destruct H2 as [x' H2]. now apply (Jw_Sf t x').
  - destruct H2 as [x' H2]. now apply (Jw_Sf t x').
Qed.


(* ------------------------------------------------------------------ the boring primitives *)
Lemma JE : forall g, J g -> Sf g.
Proof. exact J_Sf. Qed.

Lemma p_do_op o : plain_op o = true -> pres J Sf (do_op e o).
Proof. intros Ho. apply (FJ_do_op Phi e o Sf Ho JE). Qed.
Lemma p_apply_op o : plain_op o = true -> pres J Sf (apply_op o).
Proof. intros Ho. apply (FJ_apply_op Phi o Sf Ho JE). Qed.
Lemma p_fs_mkdir p : pres J Sf (fs_mkdir e p).
Proof. now apply p_do_op. Qed.
Lemma p_fs_remove p : pres J Sf (fs_remove e p).
Proof. now apply p_do_op. Qed.
Lemma p_fs_symlink l t : pres J Sf (fs_symlink e l t).
Proof. now apply p_do_op. Qed.
Lemma p_fs_unmount t : pres J Sf (fs_unmount e t).
Proof. now apply p_do_op. Qed.
Lemma p_fs_mount s t ty d : pres J Sf (fs_mount e s t ty d).
Proof.
  unfold fs_mount. apply p_bind; [now apply p_do_op|]. intros u.
  destruct (memb s propagation_sources); [now apply p_do_op|apply (p_ret J Sf)].
Qed.
Lemma p_fs_write_text p x : (forall y, Phi p y) -> pres J Sf (fs_write_text e p x).
Proof. intros Hp. apply (FJ_fs_write_text Phi e p x Sf Hp JE). Qed.

Lemma p_rename_op a b : (forall y, Phi b y) -> pres J Sf (fs_rename e a b).
Proof.
  intros Hb. unfold fs_rename, do_op. apply h_mutate; [exact JE|auto|]. unfold apply_op.
  eapply h_bind; [apply h_get_fs|]. intros f. eapply h_bind; [apply h_get_ks|]. intros k.
  apply h_on_fres; [intros g [Hg _]; now apply JE|]. intros g f' [Hg ->] Hr.
  eapply FJ_rename; eauto using Phi_stable.
Qed.

Lemma p_refresh_mounts ld : pres J Sf (refresh_mounts c ld).
Proof. unfold refresh_mounts. repeat (pres_step J Sf JE). Qed.

Ltac pleaf := first [apply p_fs_mkdir|apply p_fs_remove|apply p_fs_symlink|apply p_fs_unmount
                    |apply p_fs_mount|apply p_refresh_mounts].
Ltac pj := repeat (first [pleaf | pres_step J Sf JE]).

Lemma p_make_symlink_in_dir src tgt : pres J Sf (make_symlink_in_dir e src tgt).
Proof. unfold make_symlink_in_dir. pj. Qed.

Lemma p_make_export_symlinks l : pres J Sf (make_export_symlinks e c l).
Proof.
  unfold make_export_symlinks. destruct (expand_config_exports c l); [|apply (p_fail J Sf JE)].
  apply (p_bind J Sf); [apply (p_mapM J Sf); intros x _; apply p_make_symlink_in_dir|]. intros u.
  apply (p_mapM J Sf). intros lt _. pj.
Qed.

Lemma p_remove_export_links l : pres J Sf (remove_export_links e c l).
Proof. unfold remove_export_links. apply (p_mapM J Sf). intros lt _. pj. Qed.

Lemma p_makedirs ld name : pres J Sf (makedirs e c ld name).
Proof. unfold makedirs. pj. apply (p_mapM J Sf). intros d _. pj. Qed.


Lemma p_mount_one ld name : pres J Sf (mount_one e c ld name).
Proof.
  unfold mount_one. pj.
  match goal with |- pres _ _ (?F ?xs ?ld0) => generalize ld0; induction xs as [|x r IH]; intros ld1 end.
  - pj.
  - pj. apply IH. apply IH.
Qed.


Lemma p_mount_layer ld name : pres J Sf (mount_layer e c ld name).
Proof.
  unfold mount_layer. pj.
  - apply (p_foldM J Sf). intros ld0 x _. apply p_makedirs.
  - apply (p_foldM J Sf). intros ld0 x _. apply p_mount_one.
  - apply (p_mapM J Sf). intros x _. apply p_make_export_symlinks.
Qed.

Lemma p_unmount_layer ld name : pres J Sf (unmount_layer e c ld name).
Proof.
  unfold unmount_layer. pj. apply (p_mapM J Sf). intros x _. pj.
Qed.

Lemma p_unmount_loop names : forall ld busy, pres J Sf
  ((fix go (names : list bytes) (ld : ldefs) (busy : bool) : M (bool * ldefs) :=
      match names with
      | [] => ret (busy, ld)
      | n :: rest =>
        r <- unmount_layer e c ld n ;;
        go rest (snd r) (busy || match fst r with UBusy => true | _ => false end)
      end) names ld busy).
Proof.
  induction names as [|n r IH]; intros ld busy.
  - apply (p_ret J Sf).
  - apply (p_bind J Sf); [apply p_unmount_layer|]. intros a. apply IH.
Qed.
Lemma p_unmount ld name all : pres J Sf (unmount e c ld name all).
Proof.
  unfold unmount. pj; try apply p_unmount_layer. apply p_unmount_loop.
Qed.

Lemma p_shake ld : pres J Sf (shake e c ld).
Proof. unfold shake. pj. apply (p_mapM J Sf). intros n _. pj. Qed.

Lemma p_chroot ld name : pres J Sf (chroot_prepare e c ld name).
Proof.
  unfold chroot_prepare. apply (p_bind J Sf); [apply (p_guard J Sf JE)|]. intros u.
  destruct (lm_get (ld_map ld) name) as [l|]; [|apply (p_panic J Sf JE)].
  destruct (l_state l <? st_mounted)%N; [apply p_mount_layer|apply (p_ret J Sf)].
Qed.


(* ------------------------------------------------------------------ harmless file names *)
Lemma Phi_join2 d n y : plain n -> n <> LCF -> n <> LCT -> Phi (pathjoin [d; n]) y.
Proof.
  intros Hn H1 H2. destruct (pathjoin2_shape d n Hn) as (pre & -> & Hpre).
  destruct Hn as (Hne & _ & _ & Hs). now apply Phi_other.
Qed.

Lemma has_dot_LCT : In (nb 46) LCT.
Proof. vm_compute. tauto. Qed.
Lemma legal_not_special n : legal_name n = true -> n <> LCT.
Proof. intros Hl ->. apply (legal_nodot _ Hl). exact has_dot_LCT. Qed.

Lemma rev_removed : rev D_RemovedLayerSuffix = nb 100 :: rev (bs "~remove").
Proof. reflexivity. Qed.
Lemma removed_not_special n : n ++ D_RemovedLayerSuffix <> LCF /\ n ++ D_RemovedLayerSuffix <> LCT.
Proof.
  split; intros H; apply (f_equal (@rev _)) in H; rewrite rev_app_distr, rev_removed in H;
    vm_compute in H; discriminate H.
Qed.
Lemma removed_noslash : noslash D_RemovedLayerSuffix.
Proof. apply nosepb_spec. reflexivity. Qed.

Lemma Phi_removed d n y : legal_name n = true -> n <> [] -> Phi (pathjoin [d; n] ++ D_RemovedLayerSuffix) y.
Proof.
  intros Hl Hne. pose proof (legal_plain n Hl Hne) as Hp.
  destruct (pathjoin2_shape d n Hp) as (pre & -> & Hpre). rewrite <- app_assoc.
  destruct (removed_not_special n) as [H1 H2]. destruct Hp as (_ & _ & _ & Hs).
  apply Phi_other; auto.
  - destruct n; [congruence|discriminate].
  - now apply nosep_app; [|apply removed_noslash].
Qed.

(* ------------------------------------------------------------------ init *)
Lemma p_init_base : pres J Sf (init_base e c).
Proof.
  unfold init_base. apply (p_bind J Sf); [apply (p_get_fs J Sf)|]. intros f. cbv zeta.
  apply (p_bind J Sf); [pj|]. intros u.
  apply (p_bind J Sf); [apply (p_mapM J Sf); intros d _; apply p_fs_mkdir|]. intros u1.
  apply (p_bind J Sf).
  - apply (p_mapM J Sf). intros pc Hpc. apply filter_In in Hpc as [Hpc _].
    apply p_fs_write_text. intros y.
    destruct Hpc as [<-|[<-|[]]]; cbn [fst]; apply Phi_join2;
      try (apply plainb_spec; reflexivity); intros H; apply (f_equal (@length _)) in H; vm_compute in H; discriminate.
  - intros u2. pj.
Qed.

(* ------------------------------------------------------------------ layers as loaded *)
Definition Lok (l : layer) : Prop :=
  l_path l = layer_path c (l_name l)
  /\ lf_wf (l_base l) (l_mounts l) (l_exports l) = true
  /\ exists o, In o (olds c f0) /\ lf_mounts (read_layerfile o) = l_mounts l
               /\ lf_exports (read_layerfile o) = l_exports l /\ lf_base (read_layerfile o) = l_base l.
Definition ML (ld : ldefs) : Prop := Forall Lok (ld_map ld).

Lemma Lok_static l l' : static l = static l' -> Lok l -> Lok l'.
Proof.
  intros H. unfold Lok. rewrite (static_name _ _ H), (static_base _ _ H), (static_mounts _ _ H),
    (static_exports _ _ H), (static_path _ _ H). auto.
Qed.
Lemma Forall_Lok_static m : forall m', map static m = map static m' -> Forall Lok m' -> Forall Lok m.
Proof.
  induction m as [|x r IH]; intros [|x' r'] H HF; cbn in H; try discriminate; [constructor|].
  assert (Hx : static x = static x') by congruence. assert (Hr : map static r = map static r') by congruence.
  inversion HF; subst. constructor; [eapply Lok_static; [symmetry; exact Hx|assumption]|eapply IH; eauto].
Qed.

Lemma lf_wf_parts b ms es : lf_wf b ms es = true <->
  base_ok b = true /\ forallb nm_ok_import ms = true /\ forallb nm_ok_export es = true.
Proof. unfold lf_wf. rewrite !andb_true_iff. tauto. Qed.

Lemma p_write_layerfile l : strict = true -> lf_wf (l_base l) (l_mounts l) (l_exports l) = true ->
  from_old (l_base l) (l_mounts l) (l_exports l) -> pres J Sf (write_layerfile e l).
Proof.
  intros Hst Hwf Hold. unfold write_layerfile, layerconfig_path.
  destruct (pathjoin2_shape (l_path l) LCF LCF_plain) as (pre & E & Hpre).
  change D_LayerconfigFile with LCF. rewrite E. apply wfa_J; [exact Hst|exact Hpre|now apply good_rewrite].
Qed.

Lemma test_name_need m n : test_name m n NNeed = true -> n <> [] /\ legal_name n = true.
Proof.
  unfold test_name. destruct n; [discriminate|]. intros H. apply andb_true_iff in H as [H _]. split; [discriminate|exact H].
Qed.
Lemma test_name_free m n : test_name m n NFree = true -> n <> [] /\ legal_name n = true.
Proof.
  unfold test_name. destruct n; [discriminate|]. intros H. apply andb_true_iff in H as [H _]. split; [discriminate|exact H].
Qed.
Lemma test_name_opt m n : test_name m n NOptNeed = true -> base_ok n = true.
Proof.
  unfold test_name. destruct n as [|ch r]; [reflexivity|]. intros H. apply andb_true_iff in H as [H _].
  apply base_ok_tok. apply legal_tok; [exact H|discriminate].
Qed.

Lemma p_renormalize ld : pres J Sf (renormalize ld).
Proof. unfold renormalize. pj. Qed.

Lemma ML_get ld n l : ML ld -> lm_get (ld_map ld) n = Some l -> Lok l /\ l_name l = n.
Proof.
  intros H E. destruct (lm_get_in _ _ _ E) as [Hin Hn]. split; [|exact Hn].
  unfold ML in H. rewrite Forall_forall in H. now apply H.
Qed.

(* ------------------------------------------------------------------ rebase *)
Lemma p_rebase ld name newbase : strict = true -> ML ld -> cmd = CRebase name newbase ->
  pres J Sf (rebase_layer e c ld name newbase).
Proof.
  intros Hst HML Hcmd. unfold rebase_layer. apply (p_guard_then J Sf JE). intros G1.
  apply andb_true_iff in G1 as [_ G1]. apply test_name_opt in G1.
  destruct (lm_get (ld_map ld) name) as [l|] eqn:El; [|apply (p_panic J Sf JE)].
  destruct (ML_get _ _ _ HML El) as [(Hp & Hwf & o & Ho & Hm & Hx & Hb) Hn].
  apply (p_bind J Sf); [apply (p_guard J Sf JE)|]. intros u1.
  apply (p_bind J Sf); [apply (p_guard J Sf JE)|]. intros u2. cbv zeta.
  apply (p_bind J Sf); [apply (p_guard J Sf JE)|]. intros u3.
  apply (p_bind J Sf); [apply (p_guard J Sf JE)|]. intros u4.
  apply (p_bind J Sf); [apply p_renormalize|]. intros ld'.
  apply (p_bind J Sf); [|intros u5; apply (p_ret J Sf)].
  apply p_write_layerfile; [exact Hst| |]; cbn [set_base l_base l_mounts l_exports].
  - apply lf_wf_parts in Hwf as (_ & H2 & H3). apply lf_wf_parts. auto.
  - exists o. repeat split; auto. right. rewrite Hcmd. reflexivity.
Qed.

(* ------------------------------------------------------------------ rename *)
Lemma kids_in m name k : In k (children_in_order e m name) -> In k m.
Proof.
  unfold children_in_order. intros H. apply in_app_or in H as [H|H].
  - apply in_flat_map in H as (n & _ & H). destruct (lm_get (filter _ m) n) as [l|] eqn:E; [|contradiction].
    destruct H as [<-|[]]. apply lm_get_in in E as [E _]. now apply filter_In in E as [E _].
  - apply filter_In in H as [H _]. now apply filter_In in H as [H _].
Qed.

Lemma p_rename ld oldname newname : strict = true -> ML ld -> cmd = CRename oldname newname -> newname <> LCF ->
  pres J Sf (rename_layer e c ld oldname newname).
Proof.
  intros Hst HML Hcmd Hnew. unfold rename_layer. apply (p_guard_then J Sf JE). intros G1.
  apply andb_true_iff in G1 as [_ G1]. apply test_name_free in G1 as [Hne Hleg].
  destruct (lm_get (ld_map ld) oldname) as [l|] eqn:El; [|apply (p_panic J Sf JE)].
  destruct (ML_get _ _ _ HML El) as [(Hp & Hwf & o & Ho & Hm & Hx & Hb) Hn].
  apply (p_bind J Sf); [apply (p_guard J Sf JE)|]. intros u1.
  apply (p_bind J Sf); [apply (p_guard J Sf JE)|]. intros u2. cbv zeta.
  apply (p_bind J Sf); [apply (p_guard J Sf JE)|]. intros u3.
  apply (p_bind J Sf); [apply p_remove_export_links|]. intros u4.
  apply (p_bind J Sf).
  { apply p_rename_op. intros y. unfold layer_path. apply Phi_join2;
      [now apply legal_plain|exact Hnew|now apply legal_not_special]. }
  intros u5. apply (p_bind J Sf).
  { apply (p_mapM J Sf). intros k Hk. apply kids_in in Hk.
    unfold ML in HML. rewrite Forall_forall in HML. destruct (HML k Hk) as (_ & Hkwf & ok & Hok & Hkm & Hkx & _).
    apply p_write_layerfile; [exact Hst| |]; cbn [set_base l_base l_mounts l_exports].
    - apply lf_wf_parts in Hkwf as (_ & H2 & H3). apply lf_wf_parts. repeat split; auto.
      apply base_ok_tok. now apply legal_tok.
    - exists ok. repeat split; auto. right. rewrite Hcmd. reflexivity. }
  intros u6. apply (p_bind J Sf); [apply p_renormalize|]. intros ld'.
  apply (p_bind J Sf); [|intros u7; apply (p_ret J Sf)].
  apply p_write_layerfile; [exact Hst| |]; cbn [set_name_path l_base l_mounts l_exports]; [exact Hwf|].
  exists o. repeat split; auto.
Qed.

(* ------------------------------------------------------------------ remove *)
Lemma p_remove ld name files : ML ld -> pres J Sf (remove_layer e c ld name files).
Proof.
  intros HML. unfold remove_layer. apply (p_guard_then J Sf JE). intros G1.
  apply test_name_need in G1 as [Hne Hleg].
  destruct (lm_get (ld_map ld) name) as [l|] eqn:El; [|apply (p_panic J Sf JE)].
  destruct (ML_get _ _ _ HML El) as [(Hp & _) Hn].
  apply (p_bind J Sf); [apply (p_guard J Sf JE)|]. intros u1.
  apply (p_bind J Sf); [apply (p_guard J Sf JE)|]. intros u2.
  apply (p_bind J Sf); [apply (p_guard J Sf JE)|]. intros u3.
  apply (p_bind J Sf); [apply p_remove_export_links|]. intros u4.
  apply (p_bind J Sf); [apply (p_get_fs J Sf)|]. intros f.
  apply (p_bind J Sf); [|intros u5; apply p_renormalize].
  destruct (files || pristine_tree c f l); [apply p_fs_remove|]. cbv zeta.
  destruct (exists_ f (l_path l ++ D_RemovedLayerSuffix)); [apply (p_fail J Sf JE)|].
  apply p_rename_op. intros y. rewrite Hp, Hn. unfold layer_path. now apply Phi_removed.
Qed.


(* ------------------------------------------------------------------ add *)
Lemma P0_J : J f0 -> forall g, g = f0 -> J g.
Proof. intros H g ->. exact H. Qed.
Lemma P0_Sf : J f0 -> forall g, g = f0 -> Sf g.
Proof. intros H g ->. now apply JE. Qed.

Lemma p_add ld name base cf : strict = true -> J f0 -> ML ld -> cmd = CAdd name base cf -> cmd_ok c f0 cmd = true ->
  hoare (fun g => g = f0) (add_layer e c ld name base cf) (fun _ => J) Sf.
Proof.
  intros Hst HJ0 HML Hcmd Hok. unfold add_layer.
  apply h_guard_then; [now apply P0_Sf|]. intros G1. apply andb_true_iff in G1 as [Gn Gb].
  apply test_name_free in Gn as [Hne Hleg]. apply test_name_opt in Gb.
  apply h_guard_then; [now apply P0_Sf|]. intros G2.
  apply h_get_fs_eq. cbv zeta.
  match goal with |- hoare _ (match ?x with _ => _ end) _ _ => destruct x as [[ms es]|] eqn:EB end;
    [|apply h_fail; now apply P0_Sf].
  assert (K : lf_wf base ms es = true /\ from_old base ms es).
  { rewrite Hcmd in Hok. cbn [cmd_ok] in Hok.
    destruct (negb (beq cf []) || beq base []).
    - destruct (default_layerinfo c f0 cf) as [lf|] eqn:ED; [|discriminate]. injection EB as <- <-.
      destruct (default_layerinfo_read _ _ _ _ ED) as (content & ->).
      destruct (read_layerfile_wf content) as (_ & W2 & W3).
      split; [apply lf_wf_parts; auto|].
      unfold add_basis_ok in Hok. rewrite ED in Hok. apply existsb_exists in Hok as (o & Ho & Hq).
      apply andb_true_iff in Hq as [Hq1 Hq2].
      apply (list_beq_true nmount_beq nmount_beq_true) in Hq1, Hq2.
      exists o. repeat split; auto. right. rewrite Hcmd. reflexivity.
    - destruct base as [|b0 br]; [discriminate|].
      destruct (lm_get (ld_map ld) (b0 :: br)) as [pl|] eqn:EP; [|discriminate]. injection EB as <- <-.
      destruct (ML_get _ _ _ HML EP) as [(_ & Hwf & o & Ho & Hm & Hx & _) _].
      apply lf_wf_parts in Hwf as (_ & W2 & W3). split; [apply lf_wf_parts; auto|].
      exists o. repeat split; auto. right. rewrite Hcmd. reflexivity. }
  destruct K as [Kwf Kold].
  eapply h_pre; [|apply (P0_J HJ0)].
  apply (p_bind J Sf); [apply p_fs_mkdir|]. intros u1.
  apply (p_bind J Sf); [apply p_write_layerfile; [exact Hst| |]; assumption|]. intros u2.
  apply (p_bind J Sf); [apply p_fs_mkdir|]. intros u3.
  apply (p_bind J Sf); [|intros u4; apply p_renormalize].
  destruct base.
  - apply (p_bind J Sf); [apply p_fs_mkdir|]. intros u5.
    apply p_fs_write_text. intros y. apply Phi_join2; [apply plainb_spec; reflexivity| |];
      intros H; apply (f_equal (@length _)) in H; vm_compute in H; discriminate.
  - apply (p_bind J Sf); [apply p_fs_mkdir|]. intros u5. apply p_fs_mkdir.
Qed.

(* ------------------------------------------------------------------ loading *)
Lemma load_Lok n l : is_symlink f0 (pathjoin [layer_path c n; LCF]) = false -> load_layer c f0 n = Some l -> Lok l.
Proof.
  intros Hs. unfold load_layer. change D_LayerconfigFile with LCF.
  set (P := pathjoin [layer_path c n; LCF]) in *.
  destruct (is_file f0 P); [|discriminate]. destruct (read_file f0 P) as [content|] eqn:ER; [|discriminate].
  intros H. injection H as <-. unfold Lok. cbn [l_path l_name l_base l_mounts l_exports].
  split; [reflexivity|]. destruct (read_layerfile_wf content) as (W1 & W2 & W3).
  split; [apply lf_wf_parts; auto|]. exists content. split; [|auto].
  apply (in_olds c f0 P).
  - unfold read_file in ER. rewrite stat_nolink in ER.
    + destruct (fs_get f0 P) as [[|x|t]|] eqn:EG; try discriminate. injection ER as ->. now apply fs_get_in.
    + intros t Ht. unfold is_symlink, lstat in Hs. rewrite Ht in Hs. discriminate.
  - unfold P. destruct (pathjoin2_shape (layer_path c n) LCF LCF_plain) as (pre & -> & Hpre).
    apply pathbase_comp; [apply LCF_nonempty|apply LCF_noslash|exact Hpre].
Qed.

Lemma loaded_Lok : lc_regular c f0 = true -> Forall Lok (read_layer_files c f0).
Proof.
  intros H. unfold read_layer_files. unfold lc_regular in H. rewrite forallb_forall in H.
  assert (K : forall n, In n (Lex.sort (children f0 (c_layers c))) ->
                        is_symlink f0 (pathjoin [layer_path c n; LCF]) = false).
  { intros n Hn. apply (proj1 (sort_in _ _)) in Hn. apply H in Hn. now apply negb_true_iff in Hn. }
  revert K. generalize (Lex.sort (children f0 (c_layers c))). intros names.
  induction names as [|n r IH]; intros K; cbn [fold_right]; [constructor|].
  assert (IH' : Forall Lok (fold_right (fun n acc => if legal_name n then match load_layer c f0 n with Some l => l :: acc | None => acc end else acc) [] r)).
  { apply IH. intros m Hm. apply K. now right. }
  destruct (legal_name n); [|exact IH'].
  destruct (load_layer c f0 n) as [l|] eqn:EL; [|exact IH'].
  constructor; [|exact IH']. eapply load_Lok; [apply K; now left|exact EL].
Qed.

(* ------------------------------------------------------------------ one invocation *)
Lemma run_command_J um : strict = true -> J f0 -> Forall Lok (read_layer_files c f0) -> cmd_ok c f0 cmd = true ->
  hoare (fun g => g = f0) (run_command e c um cmd) (fun _ => J) Sf.
Proof.
  intros Hst HJ0 HL Hok. remember cmd as cm eqn:Ecm in |- *.
  assert (Gen : forall (body : ldefs -> M ldefs),
    (forall ld, ML ld -> hoare (fun g => g = f0) (body ld) (fun _ => J) Sf) ->
    hoare (fun g => g = f0)
      (f <- get_fs ;; guard (base_set_up c f) ;;; ld <- get_layers c um ;; ld' <- body ld ;; ret (Some ld'))
      (fun _ => J) Sf).
  { intros body Hbody. apply h_get_fs_eq. apply h_guard_then; [now apply P0_Sf|]. intros _.
    eapply h_bind; [eapply h_conseq; [apply (get_layers_spec c um f0)| | |]|].
    - auto.
    - intros ld g Hq. exact Hq.
    - intros g ->. now apply P0_Sf.
    - intros ld. cbn beta. apply h_pure. intros Est.
      assert (HML : ML ld) by (eapply Forall_Lok_static; eauto).
      eapply h_bind; [apply (Hbody ld HML)|]. intros ld'. apply (p_ret J Sf). }
  assert (PJ : forall A (m : M A), pres J Sf m -> hoare (fun g => g = f0) m (fun _ => J) Sf).
  { intros A m Hm. eapply h_pre; [exact Hm|apply (P0_J HJ0)]. }
  destruct cm; unfold run_command.
  - apply PJ. apply (p_bind J Sf); [apply p_init_base|intros u; apply (p_ret J Sf)].
  - apply Gen. intros ld HML. apply p_add; auto.
  - apply Gen. intros ld HML. apply PJ. now apply p_remove.
  - apply Gen. intros ld HML. apply PJ. apply p_rename; auto.
    rewrite <- Ecm in Hok. cbn [cmd_ok] in Hok. apply negb_true_iff in Hok. now apply beq_false in Hok.
  - apply Gen. intros ld HML. apply PJ. now apply p_rebase.
  - apply Gen. intros ld HML. apply PJ. apply p_makedirs.
  - apply Gen. intros ld HML. apply PJ. apply p_mount_layer.
  - apply Gen. intros ld HML. apply PJ. apply p_unmount.
  - apply Gen. intros ld HML. apply PJ. apply p_shake.
  - apply Gen. intros ld HML. apply PJ. apply p_chroot.
  - apply Gen. intros ld HML. apply PJ. apply (p_ret J Sf).
  - apply PJ. apply (p_bind J Sf); [now apply p_apply_op|intros u; apply (p_ret J Sf)].
  - apply PJ. apply (p_bind J Sf); [now apply p_apply_op|intros u; apply (p_ret J Sf)].
  - apply PJ. rewrite <- Ecm in Hok. cbn [cmd_ok] in Hok.
    apply andb_true_iff in Hok as [Hok H3]. apply andb_true_iff in Hok as [H1 H2].
    apply negb_true_iff in H2, H3. apply beq_false in H2, H3.
    assert (Hphi : forall y, Phi p y) by (intros y; repeat split; auto; contradiction).
    apply h_bind with (Q := fun f g => J g /\ f = g); [apply h_get_fs|]. intros f.
    destruct (open_trunc f p) as [f'|] eqn:Eo; [|apply h_fail; intros g [Hg _]; now apply JE].
    apply h_bind with (Q := fun _ => J); [|intros u; apply (p_ret J Sf)].
    apply h_put_fs. intros g [Hg ->]. apply FJ_append; [exact Hphi|].
    eapply FJ_open_trunc; [exact Eo|apply Hphi|exact Hg].
Qed.

End Inv.

(* ------------------------------------------------------------------ the property's conjuncts *)
Definition conj1 (c : cfgT) (w : wobs) (v : sview) : bool :=
  forallb (fun e => match snd e with
                    | File x => if beq (pathbase (fst e)) D_LayerconfigFile && under (c_layers c) (fst e)
                                then C11.complete_version c (wo_fs w) (v_cmd v) (fst e) x else true
                    | _ => true end) (wo_fs (v_after v)).
Definition conj2 (c : cfgT) (w : wobs) (v : sview) : bool :=
  let f := wo_fs w in let f' := wo_fs (v_after v) in
  match v_res v, e_fault (v_env v) with
  | ROk, NoFault =>
    forallb (fun x =>
      if (l_state x =? st_error)%N then true else
      let newname := match v_cmd v with CRename a n => if beq a (l_name x) then n else l_name x | _ => l_name x end in
      match v_cmd v with
      | CRemove a _ => true
      | _ =>
        match layer_named c f' newname with
        | None => false
        | Some y =>
          list_beq nmount_beq (l_mounts x) (l_mounts y) && list_beq nmount_beq (l_exports x) (l_exports y)
          && beq (l_base y)
                 (match v_cmd v with
                  | CRename a n => if beq (l_base x) a then n else l_base x
                  | CRebase a b0 => if beq a (l_name x) then b0 else l_base x
                  | _ => l_base x end)
        end
      end) (layers_on_disk c f)
  | _, _ => true
  end.
Lemma step_spec_eq c w v :
  C11.step_spec c w v = if e_pretend (v_env v) then true else conj1 c w v && conj2 c w v.
Proof. reflexivity. Qed.

Lemma files_ok_J c f cmd : files_ok f = true -> J c f cmd true f.
Proof.
  intros H q y Hq. unfold files_ok in H. rewrite forallb_forall in H. specialize (H _ Hq). cbn [fst snd] in H.
  apply andb_true_iff in H as [H1 H2]. apply negb_true_iff in H2. apply beq_false in H2.
  split; [exact H1|]. split; [intros _; exact H2|]. intros Hb. apply good_old. eapply in_olds; eauto.
Qed.

Lemma view_of_model_fields c w e cmd um :
  v_cmd (view_of_model c w e cmd um) = cmd /\ v_env (view_of_model c w e cmd um) = e
  /\ wo_fs (v_after (view_of_model c w e cmd um)) = fs_of (snd (run e c um cmd (world_of w)))
  /\ v_res (view_of_model c w e cmd um) = rclass_of (fst (run e c um cmd (world_of w))).
Proof. unfold view_of_model. destruct (run e c um cmd (world_of w)) as [o st]. cbn. auto. Qed.

(* every layerconfig below the layers directory is a complete version after any prefix of the
   command's operations: whatever the fault plan (none, failure at k, crash at k) *)
Theorem crash_atomic_gen c w e cmd um : e_pretend e = false -> wf_world c (wo_fs w) cmd = true ->
  conj1 c w (view_of_model c w e cmd um) = true.
Proof.
  intros Hp Hwf. unfold wf_world in Hwf. apply andb_true_iff in Hwf as [Hwf H3]. apply andb_true_iff in Hwf as [H1 H2].
  set (f0 := wo_fs w) in *.
  pose proof (files_ok_J c f0 cmd H1) as HJ0.
  pose proof (loaded_Lok c f0 H2) as HL.
  pose proof (run_command_J c f0 cmd true e Hp um eq_refl HJ0 HL H3 (MkSt (world_of w) 0 []) eq_refl) as HR.
  destruct (view_of_model_fields c w e cmd um) as (E1 & _ & E3 & _).
  unfold conj1. rewrite E1, E3. unfold run. fold f0.
  assert (HS : Sf c f0 cmd (fs_of (snd (run_command e c um cmd (MkSt (world_of w) 0 []))))).
  { destruct (run_command e c um cmd (MkSt (world_of w) 0 [])) as [[a| | | |] st]; cbn [snd]; try exact HR.
    now apply (J_Sf c f0 cmd true). }
  apply forallb_forall. intros [q n] Hq. cbn [fst snd]. destruct n as [|x|t]; try reflexivity.
  destruct (beq (pathbase q) D_LayerconfigFile) eqn:Eb; [|reflexivity]. apply beq_true in Eb.
  destruct (under (c_layers c) q); [|reflexivity]. cbn [andb].
  apply (HS q x Hq Eb).
Qed.
