(* C11 (b): no prefix of any command's operation sequence leaves a layerconfig that is not a
   complete version.  Invariant J on the file tree, preserved by every primitive as the
   commands use them; the temporary-file protocol of write_file_atomically restores it. *)
From LC Require Import Lib.Bytes Lib.Lex Lib.Fields Lib.PathM Gen.Consts
  Model.MountInfo Model.FsTree Model.Kernel Model.Layers Cases.Verdict Cases.LC Cases.C11
  Proofs.PathP Proofs.PathBaseP Proofs.CleanP Proofs.MonadP Proofs.FsP Proofs.LayersP Proofs.LayerFileP.
Import LC LCS.
Close Scope string_scope.
Open Scope list_scope.

Definition LCF : bytes := D_LayerconfigFile.
Definition LCT : bytes := LCF ++ tmp_suffix.

(* ------------------------------------------------------------------ what the reader produces *)
Definition lfw (st : lfile) : Prop :=
  base_ok (lf_base st) = true /\ forallb nm_ok_import (lf_mounts st) = true
  /\ forallb nm_ok_export (lf_exports st) = true.

Lemma tok_okb_of t : tok_ok t -> tok_okb t = true.
Proof. apply tok_okb_spec. Qed.
Lemma base_ok_tok b : tok_ok b -> base_ok b = true.
Proof. intros H. destruct b; [reflexivity|]. now apply tok_okb_of. Qed.

Lemma lf_step_wf st line : lfw st -> lfw (lf_step st line).
Proof.
  intros (Hb & Hm & He). unfold lf_step. destruct (is_comment (trim line)); [now repeat split|].
  pose proof (fields_tok (trim line)) as HT. destruct (fields (trim line)) as [|kw args]; [now repeat split|].
  inversion HT as [|? ? Hkw Hargs]; subst.
  destruct (beq kw (bs "base")).
  { destruct args as [|b0 r]; [now repeat split|]. inversion Hargs as [|? ? Hb0 _]; subst.
    destruct (lf_base st) as [|c0 r0] eqn:EB.
    - repeat split; cbn [lf_base lf_mounts lf_exports]; auto. now apply base_ok_tok.
    - destruct (beq (c0 :: r0) b0); repeat split; cbn [lf_base lf_mounts lf_exports]; auto; now rewrite EB. }
  destruct (beq kw (bs "import")).
  { destruct args as [|ty [|src [|mnt r]]]; try now repeat split.
    inversion Hargs as [|? ? Hty H1]; subst. inversion H1 as [|? ? Hsrc H2]; subst. inversion H2 as [|? ? Hmnt _]; subst.
    repeat split; cbn [lf_base lf_mounts lf_exports]; auto.
    rewrite forallb_app, Hm. cbn [forallb andb]. rewrite andb_true_r.
    unfold nm_ok_import. cbn [nm_fstype nm_source nm_mount].
    rewrite (tok_okb_of _ Hty), (tok_okb_of _ (clean_tok _ Hsrc)), (tok_okb_of _ (clean_reroot_tok _ Hmnt)).
    rewrite clean_reroot_idem, clean_idem, !beq_refl. reflexivity. }
  destruct (beq kw (bs "export")).
  { destruct args as [|ty [|src [|mnt r]]]; try now repeat split.
    inversion Hargs as [|? ? Hty H1]; subst. inversion H1 as [|? ? Hsrc H2]; subst. inversion H2 as [|? ? Hmnt _]; subst.
    repeat split; cbn [lf_base lf_mounts lf_exports]; auto.
    rewrite forallb_app, He. cbn [forallb andb]. rewrite andb_true_r.
    unfold nm_ok_export. cbn [nm_fstype nm_source nm_mount].
    rewrite (tok_okb_of _ Hty), (tok_okb_of _ (clean_tok _ Hsrc)), (tok_okb_of _ (clean_tok _ Hmnt)).
    rewrite !clean_idem, !beq_refl. reflexivity. }
  now repeat split.
Qed.
Lemma read_layerfile_wf content : lfw (read_layerfile content).
Proof.
  unfold read_layerfile. generalize (scan_lines content). intros ls.
  assert (H0 : lfw (MkLF [] [] [] 0)) by (repeat split).
  revert H0. generalize (MkLF [] [] [] 0). induction ls as [|l r IH]; intros st H; cbn [fold_left]; auto.
  apply IH. now apply lf_step_wf.
Qed.

(* ------------------------------------------------------------------ complete versions *)
Definition olds (c : cfgT) (f : fsT) : list bytes :=
  flat_map (fun e => match snd e with
                     | File o => if beq (pathbase (fst e)) D_LayerconfigFile
                                    || beq (pathdir (fst e)) (c_base c) then [o] else []
                     | _ => [] end) f.
Definition derives (cmd : command) (x o : bytes) : bool :=
  let lo := read_layerfile o in let lx := read_layerfile x in
  list_beq nmount_beq (lf_mounts lo) (lf_mounts lx)
  && list_beq nmount_beq (lf_exports lo) (lf_exports lx)
  && (beq (lf_base lo) (lf_base lx)
      || match cmd with
         | CRename _ n => beq (lf_base lx) n
         | CRebase _ b0 => beq (lf_base lx) b0
         | CAdd _ b0 _ => beq (lf_base lx) b0
         | _ => false end).
Lemma complete_version_eq c f cmd p x :
  C11.complete_version c f cmd p x =
  existsb (fun o => beq o x) (olds c f) || (C11.loads_clean x && existsb (derives cmd x) (olds c f)).
Proof. reflexivity. Qed.

Lemma in_olds c f q o : In (q, File o) f -> pathbase q = LCF -> In o (olds c f).
Proof.
  intros Hin Hb. unfold olds. apply in_flat_map. exists (q, File o). split; [exact Hin|].
  cbn [fst snd]. rewrite Hb. unfold LCF. rewrite beq_refl. now left.
Qed.

(* the base a command intends for the files it rewrites *)
Definition intends (cmd : command) (b : bytes) : Prop :=
  match cmd with
  | CRename _ n => b = n
  | CRebase _ b0 => b = b0
  | CAdd _ b0 _ => b = b0
  | _ => False
  end.

Section Inv.
Variable c : cfgT.
Variable f0 : fsT.
Variable cmd : command.

Definition good (x : bytes) : Prop := C11.complete_version c f0 cmd [] x = true.

Lemma good_old o : In o (olds c f0) -> good o.
Proof.
  intros H. unfold good. rewrite complete_version_eq. apply orb_true_iff. left.
  apply existsb_exists. exists o. split; [exact H|apply beq_refl].
Qed.

(* a configuration that is well formed and derives from an old file is a complete version *)
Definition from_old (base : bytes) (ms es : list nmount) : Prop :=
  exists o, In o (olds c f0) /\ lf_mounts (read_layerfile o) = ms /\ lf_exports (read_layerfile o) = es
            /\ (lf_base (read_layerfile o) = base \/ intends cmd base).

Lemma good_rewrite base ms es : lf_wf base ms es = true -> from_old base ms es ->
  good (concat (layerfile_chunks base ms es)).
Proof.
  intros Hwf (o & Ho & Hm & He & Hb). unfold good. rewrite complete_version_eq.
  apply orb_true_iff. right. unfold C11.loads_clean. rewrite (layerfile_roundtrip _ _ _ Hwf).
  cbn [lf_errors andb]. apply existsb_exists. exists o. split; [exact Ho|].
  unfold derives. rewrite (layerfile_roundtrip _ _ _ Hwf). cbn [lf_base lf_mounts lf_exports].
  rewrite Hm, He, !nmounts_beq_refl. cbn [andb].
  destruct Hb as [->|Hb]; [now rewrite beq_refl|].
  apply orb_true_iff. right. destruct cmd; cbn in Hb; try contradiction; subst; apply beq_refl.
Qed.

(* ------------------------------------------------------------------ the invariant *)
Definition Phi (q y : bytes) : Prop :=
  ends_ok q = true /\ pathbase q <> LCT /\ (pathbase q = LCF -> good y).
Definition J : fsT -> Prop := FJ Phi.
(* what the property asks of the final tree *)
Definition Sf (g : fsT) : Prop := forall q y, In (q, File y) g -> pathbase q = LCF -> good y.

Lemma J_Sf g : J g -> Sf g.
Proof. intros H q y Hq. now apply (H q y Hq). Qed.

Lemma ends_ok_under_inv b r : ends_ok (b ++ sl :: r) = true -> ends_ok r = true.
Proof.
  unfold ends_ok. rewrite rev_app_distr. cbn [rev]. rewrite <- app_assoc.
  destruct (rev r) as [|ch t]; [|auto]. cbn. discriminate.
Qed.
Lemma Phi_stable : move_stable Phi.
Proof.
  intros a' b r y (H1 & H2 & H3). apply ends_ok_under_inv in H1.
  unfold Phi. rewrite (pathbase_under b a' r H1). repeat split; auto. now apply ends_ok_under.
Qed.

(* a path whose last element is a fixed name other than the two special ones is harmless *)
Lemma Phi_other pre n y : dirpre pre -> n <> [] -> noslash n -> n <> LCF -> n <> LCT -> Phi (pre ++ n) y.
Proof.
  intros Hp Hn Hs H1 H2. unfold Phi. rewrite (pathbase_comp pre n Hn Hs Hp).
  repeat split; [now apply ends_ok_comp|exact H2|contradiction].
Qed.

(* ------------------------------------------------------------------ the temporary-file protocol *)
Variable e : env.
Hypothesis Hreal : e_pretend e = false.

Lemma len_LCF : length LCF = 11%nat.
Proof. reflexivity. Qed.
Lemma len_tmp : length tmp_suffix = 4%nat.
Proof. reflexivity. Qed.
Lemma LCF_neq_LCT : LCF <> LCT.
Proof. intros H. apply (f_equal (@length _)) in H. unfold LCT in H. rewrite app_length, len_LCF, len_tmp in H. discriminate. Qed.
Lemma LCF_nonempty : LCF <> [].
Proof. discriminate. Qed.
Lemma LCF_noslash : noslash LCF.
Proof. apply nosepb_spec. reflexivity. Qed.
Lemma LCT_nonempty : LCT <> [].
Proof. discriminate. Qed.
Lemma LCT_noslash : noslash LCT.
Proof. apply nosepb_spec. reflexivity. Qed.
Lemma LCF_plain : plain LCF.
Proof. apply plainb_spec. reflexivity. Qed.

(* while the temporary file t is being written: it is the last entry, the rest satisfies J *)
Definition Jw (t x : bytes) (g : fsT) : Prop :=
  exists g0, g = g0 ++ [(t, File x)] /\ fs_get g0 t = None /\ J g0.

Lemma Jw_Sf t x g : pathbase t = LCT -> Jw t x g -> Sf g.
Proof.
  intros Ht (g0 & -> & _ & HJ) q y Hq Hb. apply in_app_or in Hq as [Hq|[Hq|[]]].
  - now apply (HJ q y Hq).
  - injection Hq as <- <-. rewrite Ht in Hb. symmetry in Hb. now apply LCF_neq_LCT in Hb.
Qed.

Lemma open_tmp t : pathbase t = LCT -> hoare J (do_op e (OOpen t)) (fun _ => Jw t []) J.
Proof.
  intros Ht. unfold do_op. apply h_mutate_real; [exact Hreal|auto|]. unfold apply_op.
  eapply h_bind; [apply h_get_fs|]. intros f. eapply h_bind; [apply h_get_ks|]. intros k.
  apply h_on_fres; [now intros g [Hg _]|]. intros g f' [Hg ->] Hr.
  unfold open_trunc in Hr. destruct (lstat g t) as [[|old|lt]|] eqn:El; try discriminate.
  - exfalso. apply fs_get_in in El. destruct (Hg _ _ El) as (_ & H2 & _). now apply H2.
  - destruct (is_dir g (pathdir t)); [|discriminate]. injection Hr as <-. exists g. auto.
Qed.

Lemma append_tmp t x c0 g : Jw t x g -> Jw t (x ++ c0) (append_file g t c0).
Proof.
  intros (g0 & -> & Hn & HJ). unfold append_file, lstat. rewrite (fs_get_app_none _ _ _ Hn).
  cbn [fs_get]. rewrite beq_refl. rewrite (fs_set_app_none _ _ _ _ _ Hn). exists g0. auto.
Qed.

Lemma cursor_J t chunks : forall x,
  hoare (Jw t x) (cursor_writes e t chunks) (fun _ => Jw t (x ++ concat chunks)) (fun g => exists x', Jw t x' g).
Proof.
  induction chunks as [|c0 r IH]; intros x; cbn [cursor_writes concat].
  - apply h_ret. intros g Hg. now rewrite app_nil_r.
  - apply h_bind with (Q := fun _ => Jw t (x ++ c0)).
    + apply h_mutate_real; [exact Hreal|intros g Hg; now exists x|].
      eapply h_bind; [apply h_get_fs|]. intros f. apply h_put_fs. intros g [Hg ->]. now apply append_tmp.
    + intros u. rewrite app_assoc. apply IH.
Qed.

Lemma drop_tmp_J t x g : Jw t x g -> J (filter (fun en => negb (beq (fst en) t)) g).
Proof.
  intros (g0 & -> & _ & HJ). rewrite filter_app. cbn [filter fst]. rewrite beq_refl. cbn [negb].
  rewrite app_nil_r. now apply FJ_filter.
Qed.

Lemma rename_tmp pre X g g' : dirpre pre -> good X ->
  Jw ((pre ++ LCF) ++ tmp_suffix) X g -> rename g ((pre ++ LCF) ++ tmp_suffix) (pre ++ LCF) = FOk g' -> J g'.
Proof.
  intros Hpre HX (g0 & -> & Hn & HJ) Hr.
  set (p := pre ++ LCF) in *. set (t := p ++ tmp_suffix) in *.
  assert (Lt : length t = (length pre + 15)%nat).
  { unfold t, p. rewrite !app_length, len_LCF, len_tmp. lia. }
  destruct (rename_shape _ _ _ _ Hr) as [[_ E]|(g'' & Hinc & ->)].
  { exfalso. apply (f_equal (@length _)) in E. unfold t in E. rewrite app_length, len_tmp in E. lia. }
  intros q' y Hq'. apply in_map_iff in Hq' as ([q m] & Hm & Hq). apply Hinc in Hq.
  apply in_app_or in Hq as [Hq|[Hq|[]]].
  - assert (Hqt : q <> t) by (intros ->; now apply (fs_get_none _ _ Hn m)).
    destruct (move_entry_cases t p q m) as [[_ E]|[(-> & E)|(a' & r & -> & E & _)]]; rewrite E in Hm.
    + injection Hm as <- ->. now apply (HJ _ _ Hq).
    + congruence.
    + injection Hm as <- ->. eapply Phi_stable. apply (HJ _ _ Hq).
  - injection Hq as <- <-.
    destruct (move_entry_cases t p t (File X)) as [[E _]|[(_ & E)|(a' & r & E0 & E & Ha)]].
    + rewrite at_or_under_refl in E. discriminate.
    + rewrite E in Hm. injection Hm as <- <-. unfold p. unfold Phi.
      rewrite (pathbase_comp pre LCF LCF_nonempty LCF_noslash Hpre).
      repeat split; [apply ends_ok_comp; [apply LCF_nonempty|apply LCF_noslash]|apply LCF_neq_LCT|auto].
    + exfalso. apply (f_equal (@length _)) in E0. destruct Ha as [->|[Hroot ->]].
      * rewrite app_length in E0. cbn [length] in E0. lia.
      * apply (f_equal (@length _)) in Hroot. rewrite Lt in Hroot. cbn in Hroot. lia.
Qed.

Lemma rename_tmp_op pre X : dirpre pre -> good X ->
  hoare (Jw ((pre ++ LCF) ++ tmp_suffix) X) (do_op e (ORename ((pre ++ LCF) ++ tmp_suffix) (pre ++ LCF)))
        (fun _ => J) (Jw ((pre ++ LCF) ++ tmp_suffix) X).
Proof.
  intros Hpre HX. unfold do_op. apply h_mutate_real; [exact Hreal|auto|]. unfold apply_op.
  eapply h_bind; [apply h_get_fs|]. intros f. eapply h_bind; [apply h_get_ks|]. intros k.
  apply h_on_fres; [now intros g [Hg _]|]. intros g f' [Hg ->] Hr. eapply rename_tmp; eauto.
Qed.

Lemma tmp_base pre : dirpre pre -> pathbase ((pre ++ LCF) ++ tmp_suffix) = LCT.
Proof.
  intros Hpre. rewrite <- app_assoc. fold LCT. apply pathbase_comp; [apply LCT_nonempty|apply LCT_noslash|exact Hpre].
Qed.

Lemma wfa_J pre chunks : dirpre pre -> good (concat chunks) ->
  hoare J (write_file_atomically e (pre ++ LCF) chunks) (fun _ => J) Sf.
Proof.
  intros Hpre HX s Hs. unfold write_file_atomically.
  set (p := pre ++ LCF). set (t := p ++ tmp_suffix).
  assert (Ht : pathbase t = LCT) by (apply tmp_base; exact Hpre).
  pose proof (open_tmp t Ht s Hs) as H1.
  destruct (do_op e (OOpen t) s) as [[[]| | | |] s1]; try (now apply J_Sf).
  pose proof (cursor_J t chunks [] s1 H1) as H2. cbn [app] in H2.
  destruct (cursor_writes e t chunks s1) as [[[]| | | |] s2].
  - pose proof (rename_tmp_op pre (concat chunks) Hpre HX s2 H2) as H3. fold p t in H3.
    destruct (do_op e (ORename t p) s2) as [[[]| | | |] s3]; try (now apply (Jw_Sf t (concat chunks))).
    + exact H3.
    + cbn. apply J_Sf. eapply drop_tmp_J. exact H3.
  - destruct H2 as [x' H2]. cbn. apply J_Sf. eapply drop_tmp_J. exact H2.
  - destruct H2 as [x' H2]. now apply (Jw_Sf t x').
  - destruct H2 as [x' H2]. now apply (Jw_Sf t x').
  - destruct H2 as [x' H2]. now apply (Jw_Sf t x').
Qed.


(* ------------------------------------------------------------------ the boring primitives *)
Lemma JE : forall g, J g -> Sf g.
Proof. exact J_Sf. Qed.

Lemma p_do_op o : plain_op o = true -> pres J Sf (do_op e o).
Proof. intros Ho. apply (FJ_do_op Phi e o Sf Ho JE). Qed.
Lemma p_apply_op o : plain_op o = true -> pres J Sf (apply_op o).
Proof. intros Ho. apply (FJ_apply_op Phi o Sf Ho JE). Qed.
Lemma p_fs_mkdir p : pres J Sf (fs_mkdir e p).
Proof. now apply p_do_op. Qed.
Lemma p_fs_remove p : pres J Sf (fs_remove e p).
Proof. now apply p_do_op. Qed.
Lemma p_fs_symlink l t : pres J Sf (fs_symlink e l t).
Proof. now apply p_do_op. Qed.
Lemma p_fs_unmount t : pres J Sf (fs_unmount e t).
Proof. now apply p_do_op. Qed.
Lemma p_fs_mount s t ty d : pres J Sf (fs_mount e s t ty d).
Proof.
  unfold fs_mount. apply p_bind; [now apply p_do_op|]. intros u.
  destruct (memb s propagation_sources); [now apply p_do_op|apply (p_ret J Sf)].
Qed.
Lemma p_fs_write_text p x : (forall y, Phi p y) -> pres J Sf (fs_write_text e p x).
Proof. intros Hp. apply (FJ_fs_write_text Phi e p x Sf Hp JE). Qed.

Lemma p_rename_op a b : (forall y, Phi b y) -> pres J Sf (fs_rename e a b).
Proof.
  intros Hb. unfold fs_rename, do_op. apply h_mutate; [exact JE|auto|]. unfold apply_op.
  eapply h_bind; [apply h_get_fs|]. intros f. eapply h_bind; [apply h_get_ks|]. intros k.
  apply h_on_fres; [intros g [Hg _]; now apply JE|]. intros g f' [Hg ->] Hr.
  eapply FJ_rename; eauto using Phi_stable.
Qed.

Lemma p_refresh_mounts ld : pres J Sf (refresh_mounts c ld).
Proof. unfold refresh_mounts. repeat (pres_step J Sf JE). Qed.

Ltac pleaf := first [apply p_fs_mkdir|apply p_fs_remove|apply p_fs_symlink|apply p_fs_unmount
                    |apply p_fs_mount|apply p_refresh_mounts].
Ltac pj := repeat (first [pleaf | pres_step J Sf JE]).

Lemma p_make_symlink_in_dir src tgt : pres J Sf (make_symlink_in_dir e src tgt).
Proof. unfold make_symlink_in_dir. pj. Qed.

Lemma p_make_export_symlinks l : pres J Sf (make_export_symlinks e c l).
Proof.
  unfold make_export_symlinks. destruct (expand_config_exports c l); [|apply (p_fail J Sf JE)].
  apply (p_bind J Sf); [apply (p_mapM J Sf); intros x _; apply p_make_symlink_in_dir|]. intros u.
  apply (p_mapM J Sf). intros lt _. pj.
Qed.

Lemma p_remove_export_links l : pres J Sf (remove_export_links e c l).
Proof. unfold remove_export_links. apply (p_mapM J Sf). intros lt _. pj. Qed.

Lemma p_makedirs ld name : pres J Sf (makedirs e c ld name).
Proof. unfold makedirs. pj. apply (p_mapM J Sf). intros d _. pj. Qed.


Lemma p_mount_one ld name : pres J Sf (mount_one e c ld name).
Proof.
  unfold mount_one. pj.
  match goal with |- pres _ _ (?F ?xs ?ld0) => generalize ld0; induction xs as [|x r IH]; intros ld1 end.
  - pj.
  - pj. apply IH. apply IH.
Qed.


Lemma p_mount_layer ld name : pres J Sf (mount_layer e c ld name).
Proof.
  unfold mount_layer. pj.
  - apply (p_foldM J Sf). intros ld0 x _. apply p_makedirs.
  - apply (p_foldM J Sf). intros ld0 x _. apply p_mount_one.
  - apply (p_mapM J Sf). intros x _. apply p_make_export_symlinks.
Qed.

Lemma p_unmount_layer ld name : pres J Sf (unmount_layer e c ld name).
Proof.
  unfold unmount_layer. pj. apply (p_mapM J Sf). intros x _. pj.
Qed.

Lemma p_unmount_loop names : forall ld busy, pres J Sf
  ((fix go (names : list bytes) (ld : ldefs) (busy : bool) : M (bool * ldefs) :=
      match names with
      | [] => ret (busy, ld)
      | n :: rest =>
        r <- unmount_layer e c ld n ;;
        go rest (snd r) (busy || match fst r with UBusy => true | _ => false end)
      end) names ld busy).
Proof.
  induction names as [|n r IH]; intros ld busy.
  - apply (p_ret J Sf).
  - apply (p_bind J Sf); [apply p_unmount_layer|]. intros a. apply IH.
Qed.
Lemma p_unmount ld name all : pres J Sf (unmount e c ld name all).
Proof.
  unfold unmount. pj; try apply p_unmount_layer. apply p_unmount_loop.
Qed.

Lemma p_shake ld : pres J Sf (shake e c ld).
Proof. unfold shake. pj. apply (p_mapM J Sf). intros n _. pj. Qed.

Lemma p_chroot ld name : pres J Sf (chroot_prepare e c ld name).
Proof.
  unfold chroot_prepare. apply (p_bind J Sf); [apply (p_guard J Sf JE)|]. intros u.
  destruct (lm_get (ld_map ld) name) as [l|]; [|apply (p_panic J Sf JE)].
  destruct (l_state l <? st_mounted)%N; [apply p_mount_layer|apply (p_ret J Sf)].
Qed.

End Inv.
