(* C11 -- constants of Gen/Consts.v (rewritten from the source of /repo by tools/genconsts on
   every run) compared with literals.  Used by: the predicate C11.spec (which files are layerconfigs; it spells the name out itself and reads layers through Model/Layers.v) and the skeleton a base layer is added from.
   A changed constant makes this file fail to build; the check then reports
   "proof obligation no longer checks" for Properties/C11.v (C11_constants_pinned) instead of
   letting model, predicate and code move together unnoticed. *)
From LC Require Import Lib.Bytes Gen.Consts.
Local Open Scope string_scope.

Lemma c11_constants_pinned :
  (* doc/layercake_directories.adoc, manual page LAYER DIRECTORY: "layerconfig" *)
  D_LayerconfigFile = bs "layerconfig" /\
  (* manual page / doc/layercake_layerconfig.adoc: "default_layerconfig.skel" in the base directory *)
  D_SkeletonLayerconfigFile = bs "default_layerconfig.skel" /\
  (* doc/layercake_layerconfig.adoc prints these six lines (with {pkgdir} already replaced by the default "packages") *)
  D_SkeletonLayerconfig = bs "import rbind /dev /dev
import proc /proc /proc
import rbind /sys /sys
import rbind /var/db/repos /var/db/repos
import rbind /var/cache/distfiles /var/cache/distfiles
import rbind $$base/{pkgdir} /var/cache/binpkgs".
Proof. repeat split; vm_compute; reflexivity. Qed.
