(* C11 -- constants of Gen/Consts.v (rewritten from the source of /repo by tools/genconsts on
   every run) compared with literals, one lemma per constant so that the failing line names it.
   Used by: the predicate C11.spec (which files are layerconfigs; it spells the name out itself and reads layers through Model/Layers.v) and the skeleton a base layer is added from.
   A changed constant makes this file fail to build; the check then reports
   "proof obligation no longer checks" for Properties/C11.v (C11_constants_pinned) instead of
   letting model, predicate and code move together unnoticed.  The literals are repeated, with
   their sources, in the statement of C11_constants_pinned. *)
From LC Require Import Lib.Bytes Gen.Consts.
Local Open Scope string_scope.

Lemma pin_D_LayerconfigFile :
  D_LayerconfigFile = bs "layerconfig".
Proof. (vm_compute; reflexivity) || fail "D_LayerconfigFile of the source tree differs from the reviewed literal (C11_constants_pinned)". Qed.

Lemma pin_D_SkeletonLayerconfigFile :
  D_SkeletonLayerconfigFile = bs "default_layerconfig.skel".
Proof. (vm_compute; reflexivity) || fail "D_SkeletonLayerconfigFile of the source tree differs from the reviewed literal (C11_constants_pinned)". Qed.

Lemma pin_D_SkeletonLayerconfig :
  D_SkeletonLayerconfig = bs "import rbind /dev /dev
import proc /proc /proc
import rbind /sys /sys
import rbind /var/db/repos /var/db/repos
import rbind /var/cache/distfiles /var/cache/distfiles
import rbind $$base/{pkgdir} /var/cache/binpkgs".
Proof. (vm_compute; reflexivity) || fail "D_SkeletonLayerconfig of the source tree differs from the reviewed literal (C11_constants_pinned)". Qed.

Definition c11_constants_pinned := conj pin_D_LayerconfigFile (conj pin_D_SkeletonLayerconfigFile pin_D_SkeletonLayerconfig).
