(* C11 (c): a successful rewrite keeps base, imports and exports of every layer that loaded
   (up to the intended change of base).  Here: rebase. *)
From LC Require Import Lib.Bytes Lib.Lex Lib.Fields Lib.PathM Gen.Consts
  Model.MountInfo Model.FsTree Model.Kernel Model.Layers Cases.Verdict Cases.LC Cases.C11
  Proofs.PathP Proofs.PathBaseP Proofs.CleanP Proofs.PathDirP Proofs.FsxMonadP Proofs.FsP Proofs.LayersP
  Proofs.LayerFileP Proofs.C11P Proofs.RewriteP.
Import LC LCS.
Close Scope string_scope.
Open Scope list_scope.

(* ------------------------------------------------------------------ paths under a clean layers directory *)
Section Paths.
Variable c : cfgT.
Hypothesis Hcfg : wf_cfg c = true.
Let L := c_layers c.
Definition Lp : bytes := if beq (c_layers c) root then [] else c_layers c.

Lemma L_rooted : is_rooted L = true.
Proof.
  unfold wf_cfg in Hcfg. repeat (apply andb_true_iff in Hcfg as [Hcfg ?]). assumption.
Qed.
Lemma L_clean : clean L = L.
Proof.
  unfold wf_cfg in Hcfg. repeat (apply andb_true_iff in Hcfg as [Hcfg ?]).
  match goal with H : beq (clean (c_layers c)) (c_layers c) = true |- _ => now apply beq_true in H end.
Qed.

Lemma lpath n : plain n -> layer_path c n = Lp ++ sl :: n.
Proof. intros Hn. unfold layer_path, Lp. apply pathjoin_abs; [apply L_rooted|apply L_clean|exact Hn]. Qed.

Lemma lpath_not_root n : plain n -> beq (layer_path c n) root = false.
Proof.
  intros Hn. rewrite (lpath n Hn). apply beq_false. intros E. destruct Hn as (Hne & _).
  unfold Lp in E. destruct (beq (c_layers c) root) eqn:Er.
  - cbn in E. injection E as E. congruence.
  - apply (f_equal (@length _)) in E. rewrite app_length in E. cbn in E.
    assert (length (c_layers c) <> 0)%nat.
    { intros H0. pose proof L_rooted as R. unfold L in R. destruct (c_layers c); [discriminate|discriminate]. }
    destruct n; [congruence|]. cbn in E. lia.
Qed.

Lemma lcpath n : plain n -> pathjoin [layer_path c n; LCF] = (Lp ++ sl :: n) ++ sl :: LCF.
Proof.
  intros Hn. destruct (pathjoin_abs_clean L n L_rooted Hn) as [R C]. fold (layer_path c n) in R, C.
  rewrite (pathjoin_abs (layer_path c n) LCF R C LCF_plain), (lpath_not_root n Hn). now rewrite (lpath n Hn).
Qed.

Lemma lpath_clean n : plain n -> clean (Lp ++ sl :: n) = Lp ++ sl :: n.
Proof.
  intros Hn. rewrite <- (lpath n Hn). unfold layer_path.
  now destruct (pathjoin_abs_clean L n L_rooted Hn) as [_ C].
Qed.

Lemma pathdir_lc n : plain n -> pathdir (pathjoin [layer_path c n; LCF]) = layer_path c n.
Proof.
  intros Hn. rewrite (lcpath n Hn), (lpath n Hn).
  rewrite pathdir_comp; [apply (lpath_clean n Hn)| |apply LCF_nonempty|apply LCF_noslash].
  destruct Lp; discriminate.
Qed.

Lemma lpath_neq_L n : plain n -> layer_path c n <> L.
Proof.
  intros Hn E. rewrite (lpath n Hn) in E. destruct Hn as (Hne & _). unfold Lp, L in E.
  destruct (beq (c_layers c) root) eqn:Er.
  - apply beq_true in Er. rewrite Er in E. cbn in E. injection E as E. congruence.
  - apply (f_equal (@length _)) in E. rewrite app_length in E. cbn in E. lia.
Qed.

Lemma lcpath_inj n m : plain n -> plain m ->
  pathjoin [layer_path c n; LCF] = pathjoin [layer_path c m; LCF] -> n = m.
Proof.
  intros Hn Hm E. rewrite (lcpath n Hn), (lcpath m Hm) in E. rewrite <- !app_assoc in E.
  apply app_inv_head in E. injection E as E.
  change (n ++ sl :: LCF) with (n ++ (sl :: LCF)) in E. now apply app_inv_tail in E.
Qed.
End Paths.

(* ------------------------------------------------------------------ hypotheses *)
(* nothing at or below the name of the temporary file of the layer's layerconfig *)
Definition tmp_free (c : cfgT) (f : fsT) (name : bytes) : bool :=
  forallb (fun en => negb (at_or_under (pathjoin [layer_path c name; LCF] ++ tmp_suffix) (fst en))) f.

Definition wf_rebase (c : cfgT) (f : fsT) (name : bytes) : bool :=
  wf_cfg c && lc_regular c f && tmp_free c f name.

(* ------------------------------------------------------------------ loading from a rewritten tree *)
Lemma stat_file g k x : fs_get g k = Some (File x) -> stat g k = Some (File x).
Proof. intros H. rewrite stat_nolink; [exact H|]. intros t Ht. congruence. Qed.

Lemma load_layer_congr c g g' n : let k := pathjoin [layer_path c n; D_LayerconfigFile] in
  is_symlink g k = false -> fs_get g' k = fs_get g k -> load_layer c g' n = load_layer c g n.
Proof.
  intros k Hs E. unfold load_layer. fold k. unfold is_file, read_file.
  assert (S : stat g' k = stat g k).
  { rewrite !stat_nolink; [exact E| |]; intros t Ht.
    - unfold is_symlink, lstat in Hs. rewrite Ht in Hs. discriminate.
    - rewrite E in Ht. unfold is_symlink, lstat in Hs. rewrite Ht in Hs. discriminate. }
  now rewrite S.
Qed.

Section Rebase.
Variable c : cfgT.
Variable f : fsT.
Variable e : env.
Variable um : users_map.
Variables name newbase : bytes.
Hypothesis Hcfg : wf_cfg c = true.
Hypothesis Hreg : lc_regular c f = true.
Hypothesis Hfree : tmp_free c f name = true.
Hypothesis Hreal : e_pretend e = false.

Let P := pathjoin [layer_path c name; LCF].

(* the tree after a successful rebase *)
Definition rebased (g : fsT) : Prop :=
  exists x0, layer_named c f name = Some x0 /\ name <> [] /\ legal_name name = true /\ base_ok newbase = true
             /\ g = rewritten f P (concat (layerfile_chunks newbase (l_mounts x0) (l_exports x0))).

Lemma rebase_run : hoare (fun g => g = f) (run_command e c um (CRebase name newbase))
                         (fun _ => rebased) (fun _ => True).
Proof.
  unfold run_command. apply h_get_fs_eq. apply h_guard_then; [auto|]. intros _.
  eapply h_bind; [eapply h_conseq; [apply (get_layers_spec c um f)|auto|intros ld g Hq; exact Hq|auto]|].
  intros ld. cbn beta. apply h_pure. intros Est.
  eapply h_bind; [|intros ld'; apply h_ret; intros g Hg; exact Hg].
  unfold rebase_layer. apply h_guard_then; [auto|]. intros G1. apply andb_true_iff in G1 as [Gn Gb].
  apply test_name_need in Gn as [Hne Hleg]. apply test_name_opt in Gb.
  pose proof (lm_get_static _ _ name Est) as Hs.
  destruct (lm_get (ld_map ld) name) as [l|] eqn:El; [|apply h_panic; auto].
  destruct (lm_get (read_layer_files c f) name) as [x0|] eqn:Ex0; [|contradiction].
  assert (Hp : l_path x0 = layer_path c name).
  { destruct (lm_get_in _ _ _ Ex0) as [Hin Hn]. pose proof (loaded_path c f) as HL.
    rewrite Forall_forall in HL. rewrite <- Hn. now apply HL. }
  apply h_guard_then; [auto|]. intros _. apply h_guard_then; [auto|]. intros _. cbv zeta.
  apply h_guard_then; [auto|]. intros _. apply h_guard_then; [auto|]. intros _.
  eapply h_bind with (Q := fun _ g => g = f).
  { unfold renormalize. destruct (normalize_order _); [apply h_ret; auto|apply h_diverge; auto]. }
  intros ld'. eapply h_bind; [|intros u; apply h_ret; intros g Hg; exact Hg].
  unfold write_layerfile, layerconfig_path. cbn [set_base l_path l_base l_mounts l_exports].
  rewrite (static_path _ _ Hs), (static_mounts _ _ Hs), (static_exports _ _ Hs), Hp.
  change D_LayerconfigFile with LCF. fold P.
  eapply h_post; [apply wfa_exact; [exact Hreal|]|].
  - intros en Hen. unfold tmp_free in Hfree. rewrite forallb_forall in Hfree.
    apply Hfree in Hen. now apply negb_true_iff in Hen.
  - intros u g ->. exists x0. repeat split; auto.
Qed.
End Rebase.

(* ------------------------------------------------------------------ rebase keeps every configuration *)
Lemma loaded_static_wf c g n x : load_layer c g n = Some x ->
  forallb nm_ok_import (l_mounts x) = true /\ forallb nm_ok_export (l_exports x) = true.
Proof.
  unfold load_layer. match goal with |- match ?t with _ => _ end = _ -> _ => destruct t as [content|] end; [|discriminate].
  intros H. injection H as <-. cbn [l_mounts l_exports]. destruct (read_layerfile_wf content) as (_ & H2 & H3). auto.
Qed.

Theorem rebase_preserves c w e um name newbase :
  e_pretend e = false -> wf_rebase c (wo_fs w) name = true ->
  conj2 c w (view_of_model c w e (CRebase name newbase) um) = true.
Proof.
  intros Hreal Hwf. set (f := wo_fs w).
  unfold wf_rebase in Hwf. fold f in Hwf. apply andb_true_iff in Hwf as [Hwf Hfree]. apply andb_true_iff in Hwf as [Hcfg Hreg].
  pose proof (rebase_run c f e um name newbase Hfree Hreal (MkSt (world_of w) 0 []) eq_refl) as HR.
  unfold conj2, view_of_model, run.
  destruct (run_command e c um (CRebase name newbase) (MkSt (world_of w) 0 [])) as [o st].
  cbn [v_res v_env v_cmd v_after wo_fs]. destruct o; cbn [rclass_of]; try reflexivity.
  destruct (e_fault e); try reflexivity. fold f.
  destruct HR as (x0 & Hx0 & Hne & Hleg & Hbase & Ef'). change (fs_of st) with (w_fs (s_w st)) in Ef'.
  rewrite Ef'. clear Ef'.
  set (P := pathjoin [layer_path c name; LCF]).
  set (X := concat (layerfile_chunks newbase (l_mounts x0) (l_exports x0))).
  pose proof (legal_plain name Hleg Hne) as Hpn.
  apply (proj1 (layer_named_some c f name x0)) in Hx0 as (Hin0 & _ & Hld0).
  apply forallb_forall. intros x Hx. destruct (l_state x =? st_error)%N; [reflexivity|].
  destruct (loaded_named c f x Hx) as (Hch & Hlg & Hld).
  set (nn := l_name x) in *.
  assert (Hnn : plain nn).
  { apply legal_plain; [exact Hlg|]. apply children_in in Hch as (q & node & _ & _ & _ & <-). apply pathbase_nonempty. }
  (* nn is still a child of the layers directory *)
  assert (Hch' : In nn (children (rewritten f P X) (c_layers c))).
  { apply children_in in Hch as (q & node & Hq & Hu & Hd & Hb). apply children_in. exists q, node.
    repeat split; auto. apply (rewritten_in f P X (q, node) Hq). cbn [fst]. intros ->.
    unfold P in Hd. rewrite (pathdir_lc c Hcfg name Hpn) in Hd. now apply (lpath_neq_L c Hcfg name Hpn). }
  destruct (beq name nn) eqn:En.
  - apply beq_true in En.
    assert (Ex : x = x0) by (rewrite <- En in Hld; congruence). subst x0.
    assert (Hy : load_layer c (rewritten f P X) nn =
                 Some (MkL nn newbase (l_mounts x) (l_exports x) (layer_path c nn) st_empty false false false false [])).
    { unfold load_layer. rewrite <- En. change D_LayerconfigFile with LCF. fold P.
      unfold is_file, read_file. rewrite (stat_file _ _ _ (rewritten_get_self f P X)).
      destruct (loaded_static_wf _ _ _ _ Hld) as [W2 W3].
      assert (Hwfx : lf_wf newbase (l_mounts x) (l_exports x) = true) by (apply lf_wf_parts; auto).
      unfold X. rewrite (layerfile_roundtrip _ _ _ Hwfx). reflexivity. }
    assert (Hy' : layer_named c (rewritten f P X) nn = Some (MkL nn newbase (l_mounts x) (l_exports x) (layer_path c nn) st_empty false false false false [])).
    { apply layer_named_some. auto. }
    rewrite Hy'. cbn [l_mounts l_exports l_base]. rewrite !nmounts_beq_refl, beq_refl. reflexivity.
  - assert (Hk : pathjoin [layer_path c nn; LCF] <> P).
    { intros E. apply (lcpath_inj c Hcfg nn name Hnn Hpn) in E. subst nn. rewrite E, beq_refl in En. discriminate. }
    assert (Hy : load_layer c (rewritten f P X) nn = Some x).
    { rewrite <- Hld. apply load_layer_congr.
      - unfold lc_regular in Hreg. rewrite forallb_forall in Hreg. apply Hreg in Hch. now apply negb_true_iff in Hch.
      - now apply rewritten_get_other. }
    assert (Hy' : layer_named c (rewritten f P X) nn = Some x) by (apply layer_named_some; auto).
    rewrite Hy'. rewrite !nmounts_beq_refl, beq_refl. reflexivity.
Qed.

(* ------------------------------------------------------------------ corollaries *)
(* writing out what was read and reading it again gives the same configuration, without error *)
Theorem layerfile_reread content :
  let lf := read_layerfile content in
  read_layerfile (concat (layerfile_chunks (lf_base lf) (lf_mounts lf) (lf_exports lf)))
  = MkLF (lf_base lf) (lf_mounts lf) (lf_exports lf) 0.
Proof.
  cbv zeta. apply layerfile_roundtrip. destruct (read_layerfile_wf content) as (H1 & H2 & H3).
  unfold lf_wf. now rewrite H1, H2, H3.
Qed.

Theorem crash_atomic_crash c w e cmd um k : e_fault e = CrashAt k -> e_pretend e = false ->
  wf_world c (wo_fs w) cmd = true -> conj1 c w (view_of_model c w e cmd um) = true.
Proof. intros _. apply crash_atomic_gen. Qed.

(* the whole property predicate on the model's rebase step *)
Theorem rebase_step_spec c w e um name newbase :
  wf_world c (wo_fs w) (CRebase name newbase) = true -> wf_rebase c (wo_fs w) name = true ->
  C11.step_spec c w (view_of_model c w e (CRebase name newbase) um) = true.
Proof.
  intros H1 H2. rewrite step_spec_eq.
  destruct (view_of_model_fields c w e (CRebase name newbase) um) as (_ & -> & _ & _).
  destruct (e_pretend e) eqn:Ep; [reflexivity|].
  rewrite (crash_atomic_gen c w e _ um Ep H1), (rebase_preserves c w e um name newbase Ep H2). reflexivity.
Qed.
