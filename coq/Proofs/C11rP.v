(* C11 (c) for rename: after a successful rename every layer that loaded is found again
   (the renamed one under its new name) with the same imports and exports and the base the
   command intends. *)
From LC Require Import Lib.Bytes Lib.Lex Lib.Fields Lib.PathM Gen.Consts
  Model.MountInfo Model.FsTree Model.Kernel Model.Layers Cases.Verdict Cases.LC Cases.C11
  Proofs.PathP Proofs.PathBaseP Proofs.CleanP Proofs.PathDirP Proofs.MonadP Proofs.FsP Proofs.LayersP
  Proofs.LayerFileP Proofs.C11P Proofs.RewriteP Proofs.C09P Proofs.C11cP.
Import LC LCS.
Close Scope string_scope.
Open Scope list_scope.

(* ------------------------------------------------------------------ prefixes, concretely *)
Definition tail_ok (rest : bytes) : Prop := rest = [] \/ exists r, rest = sl :: r.

Lemma noslash_split a : forall b x y, noslash a -> noslash b -> a ++ sl :: x = b ++ sl :: y -> a = b /\ x = y.
Proof.
  induction a as [|ch a IH]; intros [|dh b] x y Ha Hb E; cbn in E.
  - injection E as ->. auto.
  - injection E as <- _. exfalso. apply Hb. now left.
  - injection E as -> _. exfalso. apply Ha. now left.
  - injection E as -> E. destruct (IH b x y) as [-> ->]; auto.
    + intros H. apply Ha. now right.
    + intros H. apply Hb. now right.
Qed.
Lemma noslash_tail a b r : noslash a -> a <> b ++ sl :: r.
Proof. intros Ha ->. apply Ha. apply in_or_app. right. now left. Qed.

Lemma at_or_under_ext a q : beq a root = false -> at_or_under a q = true -> exists rest, q = a ++ rest /\ tail_ok rest.
Proof.
  intros Hr H. destruct (at_or_under_cases a q H) as [[-> _]|(a' & r & -> & _ & [->|[-> _]])].
  - exists []. rewrite app_nil_r. split; [reflexivity|now left].
  - exists (sl :: r). split; [reflexivity|right; now exists r].
  - rewrite beq_refl in Hr. discriminate.
Qed.
Lemma at_or_under_intro a rest : beq a root = false -> tail_ok rest -> at_or_under a (a ++ rest) = true.
Proof.
  intros Hr [->|[r ->]]; [rewrite app_nil_r; apply at_or_under_refl|].
  unfold at_or_under, under. rewrite Hr. apply orb_true_iff. right. apply prefixb_spec. exists r. now rewrite <- app_assoc.
Qed.
Lemma tail_ok_app r1 r2 : tail_ok r1 -> tail_ok r2 -> tail_ok (r1 ++ r2).
Proof. intros [->|[r ->]] H2; [exact H2|]. right. now exists (r ++ r2). Qed.

Lemma at_or_under_moved a b q : at_or_under a q = true -> at_or_under b (b ++ rel_suffix a q) = true.
Proof.
  intros H. destruct (at_or_under_cases a q H) as [[_ ->]|(a' & r & _ & -> & _)].
  - rewrite app_nil_r. apply at_or_under_refl.
  - unfold at_or_under, under. apply orb_true_iff. right. destruct (beq b root) eqn:Er.
    + apply beq_true in Er. subst b. reflexivity.
    + apply prefixb_spec. exists r. now rewrite <- app_assoc.
Qed.

(* ------------------------------------------------------------------ looking up through a move / a filter *)
Lemma fs_get_map_move g a b k : at_or_under a k = false -> at_or_under b k = false ->
  fs_get (map (move_entry a b) g) k = fs_get g k.
Proof.
  intros Ha Hb. induction g as [|[q n] r IH]; [reflexivity|]. cbn [map]. unfold move_entry at 1. cbn [fst snd].
  destruct (at_or_under a q) eqn:Eq; cbn [fs_get].
  - assert (E1 : beq (b ++ rel_suffix a q) k = false).
    { apply beq_false. intros <-. rewrite (at_or_under_moved a b q Eq) in Hb. discriminate. }
    assert (E2 : beq q k = false) by (apply beq_false; intros <-; congruence).
    now rewrite E1, E2.
  - destruct (beq q k); [reflexivity|exact IH].
Qed.

Lemma fs_get_filter_key (P : bytes -> bool) g k : (fs_get g k <> None -> P k = true) ->
  fs_get (filter (fun en => P (fst en)) g) k = fs_get g k.
Proof.
  induction g as [|[q n] r IH]; [reflexivity|]. cbn [filter fs_get fst]. destruct (beq q k) eqn:E.
  - apply beq_true in E. subst q. intros H. rewrite H by discriminate. cbn [fs_get]. now rewrite beq_refl.
  - intros H. destruct (P q); [cbn [fs_get]; rewrite E|]; apply IH; exact H.
Qed.

(* ------------------------------------------------------------------ layer paths, concretely *)
Section Paths2.
Variable c : cfgT.
Hypothesis Hcfg : wf_cfg c = true.
Let L := c_layers c.
Let Lq := Lp c.

Definition LP (n : bytes) : bytes := Lq ++ sl :: n.           (* <layers>/<n> *)
Definition PC (n : bytes) : bytes := LP n ++ sl :: LCF.        (* its layerconfig *)
Definition TC (n : bytes) : bytes := PC n ++ tmp_suffix.       (* the temporary file for it *)

Lemma LP_eq n : plain n -> layer_path c n = LP n.
Proof. apply (lpath c Hcfg). Qed.
Lemma PC_eq n : plain n -> pathjoin [layer_path c n; LCF] = PC n.
Proof. apply (lcpath c Hcfg). Qed.
Lemma LP_not_root n : plain n -> beq (LP n) root = false.
Proof. intros Hn. rewrite <- (LP_eq n Hn). now apply (lpath_not_root c Hcfg). Qed.
Lemma long_not_root a x : x <> [] -> beq ((a ++ sl :: x)) root = false.
Proof.
  intros Hx. apply beq_false. intros E. apply (f_equal (@length _)) in E. rewrite app_length in E. cbn in E.
  destruct x; [congruence|cbn in E; lia].
Qed.
Lemma PC_not_root n : beq (PC n) root = false.
Proof. unfold PC. apply long_not_root. discriminate. Qed.
Lemma TC_not_root n : beq (TC n) root = false.
Proof. unfold TC, PC. rewrite <- app_assoc. cbn [app]. apply long_not_root. discriminate. Qed.

Lemma LP_under_inj n m q rest : plain n -> plain m -> at_or_under (LP n) q = true ->
  q = LP m ++ rest -> tail_ok rest -> n = m.
Proof.
  intros Hn Hm Hu -> Ht. destruct (at_or_under_ext _ _ (LP_not_root n Hn) Hu) as (rest' & E & Ht').
  unfold LP in E. rewrite <- !app_assoc in E. apply app_inv_head in E. cbn [app] in E. injection E as E.
  destruct Hn as (_ & _ & _ & Sn). destruct Hm as (_ & _ & _ & Sm).
  destruct Ht as [->|[r ->]], Ht' as [->|[r' ->]].
  - now rewrite !app_nil_r in E.
  - rewrite app_nil_r in E. exfalso. now apply (noslash_tail m n r' Sm).
  - rewrite app_nil_r in E. exfalso. symmetry in E. now apply (noslash_tail n m r Sn).
  - symmetry. now destruct (noslash_split m n r r' Sm Sn E).
Qed.

(* something at or below the temporary file of n, written as a path below <layers>/<m> *)
Lemma TC_under n m q rest : plain n -> plain m -> at_or_under (TC n) q = true ->
  q = LP m ++ rest -> tail_ok rest -> n = m /\ exists rest2, rest = sl :: LCT ++ rest2 /\ tail_ok rest2.
Proof.
  intros Hn Hm Hu -> Ht. destruct (at_or_under_ext _ _ (TC_not_root n) Hu) as (rest2 & E & Ht2).
  unfold TC, PC, LP in E. rewrite <- !app_assoc in E. apply app_inv_head in E. cbn [app] in E. injection E as E.
  destruct Hn as (_ & _ & _ & Sn). destruct Hm as (_ & _ & _ & Sm).
  destruct Ht as [->|[r ->]].
  - rewrite app_nil_r in E. exfalso. now apply (noslash_tail m n _ Sm E).
  - destruct (noslash_split m n _ _ Sm Sn E) as [<- Er]. split; [reflexivity|].
    exists rest2. split; [|exact Ht2]. rewrite Er. unfold LCT. now rewrite <- app_assoc.
Qed.

Lemma PC_inj n m : plain n -> plain m -> PC n = PC m -> n = m.
Proof. intros Hn Hm E. rewrite <- !PC_eq in E by assumption. now apply (lcpath_inj c Hcfg). Qed.

Lemma TC_not_over_PC n m : plain n -> plain m -> at_or_under (TC n) (PC m) = false.
Proof.
  intros Hn Hm. destruct (at_or_under (TC n) (PC m)) eqn:E; [|reflexivity]. exfalso.
  destruct (TC_under n m (PC m) (sl :: LCF) Hn Hm E eq_refl) as (_ & rest2 & E2 & _); [right; now exists LCF|].
  apply (f_equal (@length _)) in E2. cbn [length] in E2. unfold LCT in E2. rewrite !app_length in E2.
  rewrite len_LCF, len_tmp in E2. lia.
Qed.

Lemma pathdir_PC n : plain n -> pathdir (PC n) = LP n.
Proof. intros Hn. rewrite <- (PC_eq n Hn), <- (LP_eq n Hn). now apply (pathdir_lc c Hcfg). Qed.
Lemma LP_neq_L n : plain n -> LP n <> L.
Proof. intros Hn. rewrite <- (LP_eq n Hn). now apply (lpath_neq_L c Hcfg). Qed.

Lemma Lq_L : Lq = [] /\ L = root \/ Lq = L /\ beq L root = false.
Proof.
  unfold Lq, Lp, L. destruct (beq (c_layers c) root) eqn:E; [left|right; auto].
  apply beq_true in E. auto.
Qed.
Lemma LP_child n : plain n -> under L (LP n) = true /\ pathdir (LP n) = L /\ pathbase (LP n) = n.
Proof.
  intros Hn. destruct Hn as (Hne & _ & _ & Hs). unfold LP. repeat split.
  - destruct Lq_L as [[-> E]|[-> E]].
    + rewrite E. unfold under. rewrite beq_refl. cbn [app is_abs is_rooted].
      rewrite Ascii.eqb_refl. cbn [andb]. apply negb_true_iff. apply beq_false. intros H. injection H as H. congruence.
    + unfold under. rewrite E. apply prefixb_spec. exists n. now rewrite <- app_assoc.
  - destruct Lq_L as [[-> E]|[-> E]].
    + cbn [app]. rewrite E. now apply pathdir_top.
    + rewrite pathdir_comp; auto; [apply (L_clean c Hcfg)|].
      pose proof (L_rooted c Hcfg) as R. unfold L in *. destruct (c_layers c); discriminate.
  - change (Lq ++ sl :: n) with (Lq ++ [sl] ++ n). rewrite app_assoc. apply pathbase_comp; auto.
    right. now exists Lq.
Qed.
Lemma LP_under_L n rest : plain n -> tail_ok rest -> at_or_under L (LP n ++ rest) = true.
Proof.
  intros Hn Ht. unfold LP. destruct Lq_L as [[-> E]|[-> E]].
  - rewrite E. unfold at_or_under, under. cbn [app]. apply orb_true_iff. right.
    rewrite beq_refl. cbn [is_abs is_rooted]. rewrite Ascii.eqb_refl. cbn [andb]. apply negb_true_iff. apply beq_false.
    destruct Hn as (Hne & _). intros H. injection H as H. destruct n; [congruence|discriminate].
  - rewrite <- app_assoc. cbn [app]. apply at_or_under_intro; [exact E|]. right. now exists (n ++ rest).
Qed.
End Paths2.
