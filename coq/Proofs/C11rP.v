(* C11 (c) for rename: after a successful rename every layer that loaded is found again
   (the renamed one under its new name) with the same imports and exports and the base the
   command intends. *)
From LC Require Import Lib.Bytes Lib.Lex Lib.Fields Lib.PathM Gen.Consts
  Model.MountInfo Model.FsTree Model.Kernel Model.Layers Cases.Verdict Cases.LC Cases.C11
  Proofs.PathP Proofs.PathBaseP Proofs.CleanP Proofs.PathDirP Proofs.FsxMonadP Proofs.FsP Proofs.LayersP
  Proofs.LayerFileP Proofs.C11P Proofs.RewriteP Proofs.C09P Proofs.C11cP.
Import LC LCS.
Close Scope string_scope.
Open Scope list_scope.

(* ------------------------------------------------------------------ prefixes, concretely *)
Lemma noslash_split a : forall b x y, noslash a -> noslash b -> a ++ sl :: x = b ++ sl :: y -> a = b /\ x = y.
Proof.
  induction a as [|ch a IH]; intros [|dh b] x y Ha Hb E; cbn in E.
  - injection E as ->. auto.
  - injection E as <- _. exfalso. apply Hb. now left.
  - injection E as -> _. exfalso. apply Ha. now left.
  - injection E as -> E. destruct (IH b x y) as [-> ->]; auto.
    + intros H. apply Ha. now right.
    + intros H. apply Hb. now right.
Qed.
Lemma noslash_tail a b r : noslash a -> a <> b ++ sl :: r.
Proof. intros Ha ->. apply Ha. apply in_or_app. right. now left. Qed.

Lemma tail_ok_app r1 r2 : tail_ok r1 -> tail_ok r2 -> tail_ok (r1 ++ r2).
Proof. intros [->|[r ->]] H2; [exact H2|]. right. now exists (r ++ r2). Qed.

Lemma at_or_under_moved a b q : at_or_under a q = true -> at_or_under b (b ++ rel_suffix a q) = true.
Proof.
  intros H. destruct (at_or_under_cases a q H) as [[_ ->]|(a' & r & _ & -> & _)].
  - rewrite app_nil_r. apply at_or_under_refl.
  - unfold at_or_under, under. apply orb_true_iff. right. destruct (beq b root) eqn:Er.
    + apply beq_true in Er. subst b. reflexivity.
    + apply prefixb_spec. exists r. now rewrite <- app_assoc.
Qed.

(* ------------------------------------------------------------------ looking up through a move / a filter *)
Lemma fs_get_map_move g a b k : at_or_under a k = false -> at_or_under b k = false ->
  fs_get (map (move_entry a b) g) k = fs_get g k.
Proof.
  intros Ha Hb. induction g as [|[q n] r IH]; [reflexivity|]. cbn [map]. unfold move_entry at 1. cbn [fst snd].
  destruct (at_or_under a q) eqn:Eq; cbn [fs_get].
  - assert (E1 : beq (b ++ rel_suffix a q) k = false).
    { apply beq_false. intros <-. rewrite (at_or_under_moved a b q Eq) in Hb. discriminate. }
    assert (E2 : beq q k = false) by (apply beq_false; intros <-; congruence).
    now rewrite E1, E2.
  - destruct (beq q k); [reflexivity|exact IH].
Qed.

Lemma fs_get_filter_key (P : bytes -> bool) g k : (fs_get g k <> None -> P k = true) ->
  fs_get (filter (fun en => P (fst en)) g) k = fs_get g k.
Proof.
  induction g as [|[q n] r IH]; [reflexivity|]. cbn [filter fs_get fst]. destruct (beq q k) eqn:E.
  - apply beq_true in E. subst q. intros H. rewrite H by discriminate. cbn [fs_get]. now rewrite beq_refl.
  - intros H. destruct (P q); [cbn [fs_get]; rewrite E|]; apply IH; exact H.
Qed.

(* ------------------------------------------------------------------ layer paths, concretely *)
Section Paths2.
Variable c : cfgT.
Hypothesis Hcfg : wf_cfg c = true.
Let L := c_layers c.
Let Lq := Lp c.

Definition LP (n : bytes) : bytes := Lq ++ sl :: n.           (* <layers>/<n> *)
Definition PC (n : bytes) : bytes := LP n ++ sl :: LCF.        (* its layerconfig *)
Definition TC (n : bytes) : bytes := PC n ++ tmp_suffix.       (* the temporary file for it *)

Lemma LP_eq n : plain n -> layer_path c n = LP n.
Proof. apply (lpath c Hcfg). Qed.
Lemma PC_eq n : plain n -> pathjoin [layer_path c n; LCF] = PC n.
Proof. apply (lcpath c Hcfg). Qed.
Lemma LP_not_root n : plain n -> beq (LP n) root = false.
Proof. intros Hn. rewrite <- (LP_eq n Hn). now apply (lpath_not_root c Hcfg). Qed.
Lemma long_not_root a x : x <> [] -> beq ((a ++ sl :: x)) root = false.
Proof.
  intros Hx. apply beq_false. intros E. apply (f_equal (@length _)) in E. rewrite app_length in E. cbn in E.
  destruct x; [congruence|cbn in E; lia].
Qed.
Lemma PC_not_root n : beq (PC n) root = false.
Proof. unfold PC. apply long_not_root. discriminate. Qed.
Lemma TC_not_root n : beq (TC n) root = false.
Proof. unfold TC, PC. rewrite <- app_assoc. cbn [app]. apply long_not_root. discriminate. Qed.

Lemma LP_under_inj n m q rest : plain n -> plain m -> at_or_under (LP n) q = true ->
  q = LP m ++ rest -> tail_ok rest -> n = m.
Proof.
  intros Hn Hm Hu -> Ht. destruct (at_or_under_ext _ _ (LP_not_root n Hn) Hu) as (rest' & E & Ht').
  unfold LP in E. rewrite <- !app_assoc in E. apply app_inv_head in E. cbn [app] in E. injection E as E.
  destruct Hn as (_ & _ & _ & Sn). destruct Hm as (_ & _ & _ & Sm).
  destruct Ht as [->|[r ->]], Ht' as [->|[r' ->]].
  - now rewrite !app_nil_r in E.
  - rewrite app_nil_r in E. exfalso. now apply (noslash_tail m n r' Sm).
  - rewrite app_nil_r in E. exfalso. symmetry in E. now apply (noslash_tail n m r Sn).
  - symmetry. now destruct (noslash_split m n r r' Sm Sn E).
Qed.

(* something at or below the temporary file of n, written as a path below <layers>/<m> *)
Lemma TC_under n m q rest : plain n -> plain m -> at_or_under (TC n) q = true ->
  q = LP m ++ rest -> tail_ok rest -> n = m /\ exists rest2, rest = sl :: LCT ++ rest2 /\ tail_ok rest2.
Proof.
  intros Hn Hm Hu -> Ht. destruct (at_or_under_ext _ _ (TC_not_root n) Hu) as (rest2 & E & Ht2).
  unfold TC, PC, LP in E. rewrite <- !app_assoc in E. apply app_inv_head in E. cbn [app] in E. injection E as E.
  destruct Hn as (_ & _ & _ & Sn). destruct Hm as (_ & _ & _ & Sm).
  destruct Ht as [->|[r ->]].
  - rewrite app_nil_r in E. exfalso. now apply (noslash_tail m n _ Sm E).
  - destruct (noslash_split m n _ _ Sm Sn E) as [<- Er]. split; [reflexivity|].
    exists rest2. split; [|exact Ht2]. rewrite Er. unfold LCT. now rewrite <- app_assoc.
Qed.

Lemma PC_inj n m : plain n -> plain m -> PC n = PC m -> n = m.
Proof. intros Hn Hm E. rewrite <- !PC_eq in E by assumption. now apply (lcpath_inj c Hcfg). Qed.

Lemma TC_not_over_PC n m : plain n -> plain m -> at_or_under (TC n) (PC m) = false.
Proof.
  intros Hn Hm. destruct (at_or_under (TC n) (PC m)) eqn:E; [|reflexivity]. exfalso.
  destruct (TC_under n m (PC m) (sl :: LCF) Hn Hm E eq_refl) as (_ & rest2 & E2 & _); [right; now exists LCF|].
  apply (f_equal (@length _)) in E2. cbn [length] in E2. unfold LCT in E2. rewrite !app_length in E2.
  rewrite len_LCF, len_tmp in E2. lia.
Qed.

Lemma pathdir_PC n : plain n -> pathdir (PC n) = LP n.
Proof. intros Hn. rewrite <- (PC_eq n Hn), <- (LP_eq n Hn). now apply (pathdir_lc c Hcfg). Qed.
Lemma LP_neq_L n : plain n -> LP n <> L.
Proof. intros Hn. rewrite <- (LP_eq n Hn). now apply (lpath_neq_L c Hcfg). Qed.

Lemma Lq_L : Lq = [] /\ L = root \/ Lq = L /\ beq L root = false.
Proof.
  unfold Lq, Lp, L. destruct (beq (c_layers c) root) eqn:E; [left|right; auto].
  apply beq_true in E. auto.
Qed.
Lemma LP_child n : plain n -> under L (LP n) = true /\ pathdir (LP n) = L /\ pathbase (LP n) = n.
Proof.
  intros Hn. destruct Hn as (Hne & _ & _ & Hs). unfold LP. repeat split.
  - destruct Lq_L as [[-> E]|[-> E]].
    + rewrite E. unfold under. rewrite beq_refl. cbn [app is_abs is_rooted].
      rewrite Ascii.eqb_refl. cbn [andb]. apply negb_true_iff. apply beq_false. intros H. injection H as H. congruence.
    + unfold under. rewrite E. apply prefixb_spec. exists n. now rewrite <- app_assoc.
  - destruct Lq_L as [[-> E]|[-> E]].
    + cbn [app]. rewrite E. now apply pathdir_top.
    + rewrite pathdir_comp; auto; [apply (L_clean c Hcfg)|].
      pose proof (L_rooted c Hcfg) as R. unfold L in *. destruct (c_layers c); discriminate.
  - change (Lq ++ sl :: n) with (Lq ++ [sl] ++ n). rewrite app_assoc. apply pathbase_comp; auto.
    right. now exists Lq.
Qed.
Lemma LP_under_L n rest : plain n -> tail_ok rest -> at_or_under L (LP n ++ rest) = true.
Proof.
  intros Hn Ht. unfold LP. destruct Lq_L as [[-> E]|[-> E]].
  - rewrite E. unfold at_or_under, under. cbn [app]. apply orb_true_iff. right.
    rewrite beq_refl. cbn [is_abs is_rooted]. rewrite Ascii.eqb_refl. cbn [andb]. apply negb_true_iff. apply beq_false.
    destruct Hn as (Hne & _). intros H. injection H as H. destruct n; [congruence|discriminate].
  - rewrite <- app_assoc. cbn [app]. apply at_or_under_intro; [exact E|]. right. now exists (n ++ rest).
Qed.
End Paths2.

(* ------------------------------------------------------------------ hypotheses (decidable) *)
Definition links (c : cfgT) (n : bytes) : list bytes :=
  [pathjoin [c_exports c; c_exp_binpkg c; n]; pathjoin [c_exports c; c_exp_gen c; n]].
Lemma automated_links c l : map fst (automated_exports c l) = links c (l_name l).
Proof. reflexivity. Qed.

Definition rename_ok (c : cfgT) (f : fsT) (oldname newname : bytes) : bool :=
  (* the export links of the layer lie apart from the layers directory *)
  forallb (fun lk => forallb (fun en => negb (at_or_under lk (fst en) && at_or_under (c_layers c) (fst en))) f)
          (links c oldname)
  (* the new directory name is free on disk *)
  && forallb (fun en => negb (at_or_under (layer_path c newname) (fst en))) f
  (* no stale temporary (nor anything below its name) for any layer directory, nor for the new name *)
  && forallb (fun nn => tmp_free c f nn) (children f (c_layers c))
  && tmp_free c f newname
  (* nothing strictly below the layer directory claims the layers directory as its parent *)
  && forallb (fun en => negb (under (layer_path c oldname) (fst en) && beq (pathdir (fst en)) (c_layers c))) f.
Definition wf_rename (c : cfgT) (f : fsT) (oldname newname : bytes) : bool :=
  wf_cfg c && lc_regular c f && rename_ok c f oldname newname.

Section Rename.
Variable c : cfgT.
Variable f : fsT.
Variable e : env.
Variable um : users_map.
Variables oldname newname : bytes.
Hypothesis Hcfg : wf_cfg c = true.
Hypothesis Hreal : e_pretend e = false.
Hypothesis R3 : forall lk en, In lk (links c oldname) -> In en f -> at_or_under lk (fst en) = true ->
                              at_or_under (c_layers c) (fst en) = false.
Hypothesis R4 : forall en, In en f -> at_or_under (layer_path c newname) (fst en) = false.
Hypothesis R5 : forall nn en, In nn (children f (c_layers c)) \/ nn = newname -> In en f ->
                              at_or_under (pathjoin [layer_path c nn; LCF] ++ tmp_suffix) (fst en) = false.

Local Notation L := (c_layers c).
Local Notation m0 := (read_layer_files c f).

(* intermediate trees: f with entries outside the layers directory removed *)
Definition SubL (g : fsT) : Prop :=
  incl g f /\ (forall en, In en f -> at_or_under L (fst en) = true -> In en g)
  /\ (forall k, at_or_under L k = true -> fs_get g k = fs_get f k).
Lemma SubL_refl : SubL f.
Proof. repeat split; auto. apply incl_refl. Qed.

Lemma SubL_remove g lk g' : In lk (links c oldname) -> SubL g -> remove_all g lk = FOk g' -> SubL g'.
Proof.
  intros Hlk (H1 & H2 & H3). unfold remove_all. destruct (beq lk root); [discriminate|]. intros H. injection H as <-.
  repeat split.
  - intros en Hen. apply filter_In in Hen as [Hen _]. now apply H1.
  - intros en Hen Hu. apply filter_In. split; [now apply H2|]. apply negb_true_iff.
    destruct (at_or_under lk (fst en)) eqn:E; [|reflexivity]. rewrite (R3 lk en Hlk Hen E) in Hu. discriminate.
  - intros k Hk. rewrite <- (H3 k Hk).
    apply (fs_get_filter_key (fun q => negb (at_or_under lk q))). intros Hne.
    destruct (fs_get g k) as [n|] eqn:Eg; [|congruence]. apply fs_get_in in Eg. apply H1 in Eg.
    apply negb_true_iff. destruct (at_or_under lk k) eqn:E; [|reflexivity].
    pose proof (R3 lk (k, n) Hlk Eg E) as C. cbn [fst] in C. congruence.
Qed.

Definition TT (g : fsT) : Prop := True.
Lemma p_links_SubL x : l_name x = oldname -> pres SubL TT (remove_export_links e c x).
Proof.
  intros Hx. assert (HE : forall g, SubL g -> TT g) by (intros; exact I).
  unfold remove_export_links. apply (p_mapM SubL TT). intros lt Hlt.
  assert (Hlk : In (fst lt) (links c oldname)).
  { rewrite <- Hx, <- automated_links. now apply in_map. }
  apply (p_bind SubL TT); [apply (p_get_fs SubL TT)|]. intros g0.
  destruct (negb (exists_ g0 (fst lt))); [apply (p_ret SubL TT)|].
  destruct (negb (is_symlink g0 (fst lt))); [apply (p_fail SubL TT HE)|].
  apply h_fs_remove; [exact Hreal|exact HE|]. intros g g' Hg Hr. eapply SubL_remove; eauto.
Qed.

(* ------------------------------------------------------------------ the rewrites after the move *)
Definition Xk (k : layer) : bytes := concat (layerfile_chunks newname (l_mounts k) (l_exports k)).
Definition step (g : fsT) (k : layer) : fsT := rewritten g (PC c (l_name k)) (Xk k).

Variable NS : list bytes.
Hypothesis NS_plain : forall n, In n NS -> plain n.
Definition TF (g : fsT) : Prop := forall n, In n NS -> forall en, In en g -> at_or_under (TC c n) (fst en) = false.

Lemma TF_rewritten g m x : plain m -> TF g -> TF (rewritten g (PC c m) x).
Proof.
  intros Hm HT n Hn en Hen. unfold rewritten in Hen. apply in_app_or in Hen as [Hen|[<-|[]]].
  - apply filter_In in Hen as [Hen _]. now apply (HT n Hn).
  - cbn [fst]. apply (TC_not_over_PC c Hcfg); auto.
Qed.

Definition Kok (k : layer) : Prop := l_path k = layer_path c (l_name k) /\ plain (l_name k) /\ In (l_name k) NS.

Lemma W_exact g0 k : Kok k -> TF g0 ->
  hoare (fun g => g = g0) (write_layerfile e (set_base k newname)) (fun _ g => g = step g0 k) TT.
Proof.
  intros (Hp & Hn & Hin) HT. unfold write_layerfile, layerconfig_path. cbn [set_base l_path l_base l_mounts l_exports].
  rewrite Hp. change D_LayerconfigFile with LCF. rewrite (PC_eq c Hcfg _ Hn).
  eapply h_conseq; [apply (wfa_exact e Hreal g0); intros en Hen; apply (HT _ Hin en Hen)|auto| |auto].
  intros u g ->. reflexivity.
Qed.

Lemma mapM_exact KS : forall g0, (forall k, In k KS -> Kok k) -> TF g0 ->
  hoare (fun g => g = g0) (mapM_ (fun k => write_layerfile e (set_base k newname)) KS)
        (fun _ g => g = fold_left step KS g0 /\ TF g) TT.
Proof.
  induction KS as [|k r IH]; intros g0 HK HT; cbn [mapM_ fold_left].
  - apply h_ret. intros g ->. auto.
  - eapply h_bind; [apply W_exact; [apply HK; now left|exact HT]|]. intros u.
    apply IH; [intros k' Hk'; apply HK; now right|].
    destruct (HK k (or_introl eq_refl)) as (_ & Hn & _). now apply TF_rewritten.
Qed.
End Rename.

(* ------------------------------------------------------------------ the layer map and its kids *)
Lemma in_map_static m m' k : map static m = map static m' -> In k m -> exists x, In x m' /\ static k = static x.
Proof.
  intros E Hk. assert (H : In (static k) (map static m')) by (rewrite <- E; now apply in_map).
  apply in_map_iff in H as (x & Hx & Hin). exists x. auto.
Qed.

Lemma loaded_same_name c g x y : In x (read_layer_files c g) -> In y (read_layer_files c g) ->
  l_name x = l_name y -> x = y.
Proof.
  intros Hx Hy E. destruct (loaded_named c g x Hx) as (_ & _ & H1). destruct (loaded_named c g y Hy) as (_ & _ & H2).
  rewrite E in H1. congruence.
Qed.

Lemma lm_get_of_in m k : In k m -> exists k1, lm_get m (l_name k) = Some k1.
Proof.
  induction m as [|x r IH]; [intros []|]. intros [->|H]; cbn [lm_get].
  - rewrite beq_refl. now exists k.
  - destruct (beq (l_name x) (l_name k)); [now exists x|now apply IH].
Qed.

Lemma kids_sound e m name k : In k (children_in_order e m name) -> In k m /\ l_base k = name.
Proof.
  unfold children_in_order. intros H. apply in_app_or in H as [H|H].
  - apply in_flat_map in H as (n & _ & H). destruct (lm_get (filter _ m) n) as [l|] eqn:E; [|contradiction].
    destruct H as [<-|[]]. apply lm_get_in in E as [E _]. apply filter_In in E as [E1 E2]. apply beq_true in E2. auto.
  - apply filter_In in H as [H _]. apply filter_In in H as [E1 E2]. apply beq_true in E2. auto.
Qed.
Lemma kids_complete e m name k0 : In k0 m -> l_base k0 = name ->
  exists k, In k (children_in_order e m name) /\ l_name k = l_name k0.
Proof.
  intros Hin Hb. unfold children_in_order.
  assert (Hk : In k0 (filter (fun l => beq (l_base l) name) m)).
  { apply filter_In. split; [exact Hin|]. rewrite Hb. apply beq_refl. }
  destruct (memb (l_name k0) (e_order e)) eqn:Em.
  - apply memb_in in Em. destruct (lm_get_of_in _ _ Hk) as (k1 & E1). exists k1. split.
    + apply in_or_app. left. apply in_flat_map. exists (l_name k0). split; [exact Em|]. rewrite E1. now left.
    + now apply lm_get_in in E1 as [_ E1].
  - exists k0. split; [|reflexivity]. apply in_or_app. right. apply filter_In. split; [exact Hk|]. now rewrite Em.
Qed.

Lemma test_name_free_none m n : test_name m n NFree = true -> lm_get m n = None.
Proof.
  unfold test_name. destruct n; [discriminate|]. intros H. apply andb_true_iff in H as [_ H].
  destruct (lm_get m (a :: n)); [discriminate|reflexivity].
Qed.

Lemma h_pure_eq {A} (R : Prop) (X : fsT) (m : M A) (Q : A -> fsT -> Prop) (E : fsT -> Prop) :
  (R -> hoare (fun g => g = X) m Q E) -> hoare (fun g => R /\ g = X) m Q E.
Proof. intros H s [Hr Hs]. apply (H Hr s Hs). Qed.

Lemma rel_suffix_tail a q : at_or_under a q = true -> tail_ok (rel_suffix a q).
Proof.
  intros H. destruct (at_or_under_cases a q H) as [[_ ->]|(a' & r & _ & -> & _)]; [now left|right; now exists r].
Qed.

Section RenameRun.
Variable c : cfgT.
Variable f : fsT.
Variable e : env.
Variable um : users_map.
Variables oldname newname : bytes.
Hypothesis Hcfg : wf_cfg c = true.
Hypothesis Hreal : e_pretend e = false.
Hypothesis R3 : forall lk en, In lk (links c oldname) -> In en f -> at_or_under lk (fst en) = true ->
                              at_or_under (c_layers c) (fst en) = false.
Hypothesis R4 : forall en, In en f -> at_or_under (layer_path c newname) (fst en) = false.
Hypothesis R5 : forall nn en, In nn (children f (c_layers c)) \/ nn = newname -> In en f ->
                              at_or_under (pathjoin [layer_path c nn; LCF] ++ tmp_suffix) (fst en) = false.

Local Notation m0 := (read_layer_files c f).
Local Notation d := (LP c oldname).
Local Notation d' := (LP c newname).

Lemma TF_moved NS g1 : (forall n, In n NS -> plain n) -> plain oldname -> plain newname -> incl g1 f ->
  (forall n en, In n NS -> In en f -> at_or_under (TC c n) (fst en) = false) ->
  (forall en, In en f -> at_or_under (TC c oldname) (fst en) = false) ->
  TF c NS (map (move_entry d d') g1).
Proof.
  intros HNS Ho Hn Hinc HF Hold n Hin en Hen. apply in_map_iff in Hen as ([q nd] & <- & Hq). apply Hinc in Hq.
  unfold move_entry. cbn [fst snd]. destruct (at_or_under d q) eqn:Eu; cbn [fst].
  - destruct (at_or_under (TC c n) (d' ++ rel_suffix d q)) eqn:Et; [|reflexivity]. exfalso.
    destruct (TC_under c Hcfg n newname _ _ (HNS n Hin) Hn Et eq_refl (rel_suffix_tail _ _ Eu)) as (_ & rest2 & Er & Ht2).
    pose proof (at_or_under_join d q (LP_not_root c Hcfg oldname Ho) Eu) as Eq. rewrite Er in Eq.
    assert (Hu : at_or_under (TC c oldname) q = true).
    { rewrite Eq. replace (d ++ sl :: LCT ++ rest2) with (TC c oldname ++ rest2).
      - apply at_or_under_intro; [now apply TC_not_root|exact Ht2].
      - unfold TC, PC, LCT. rewrite <- !app_assoc. reflexivity. }
    pose proof (Hold (q, nd) Hq) as Hc. cbn [fst] in Hc. congruence.
  - apply (HF n (q, nd) Hin Hq).
Qed.

(* the tree after a successful rename *)
Definition renamed (g' : fsT) : Prop := exists x0 g1 na KS,
  lm_get m0 oldname = Some x0 /\ plain oldname /\ (plain newname /\ legal_name newname = true) /\ lm_get m0 newname = None
  /\ check_inheritance m0 = true
  /\ SubL c f g1 /\ In (d, na) g1
  /\ (forall k, In k KS -> exists x, In x m0 /\ static k = static x /\ l_base x = oldname)
  /\ (forall x, In x m0 -> l_base x = oldname -> exists k, In k KS /\ static k = static x)
  /\ g' = rewritten (fold_left (step c newname) KS (map (move_entry d d') g1)) (PC c newname)
                    (concat (layerfile_chunks (l_base x0) (l_mounts x0) (l_exports x0))).

Lemma rename_run : hoare (fun g => g = f) (run_command e c um (CRename oldname newname)) (fun _ => renamed) TT.
Proof.
  assert (HT : forall (P : fsT -> Prop) g, P g -> TT g) by (intros; exact I).
  unfold run_command. apply h_get_fs_eq. apply h_guard_then; [apply HT|]. intros _.
  eapply h_bind; [eapply h_conseq; [apply (get_layers_spec_ci c um f)|auto|intros ld g Hq; exact Hq|apply HT]|].
  intros ld. cbn beta. apply h_pure. intros [Est Hci].
  eapply h_bind; [|intros ld'; apply h_ret; intros g Hg; exact Hg].
  unfold rename_layer. apply h_guard_then; [apply HT|]. intros G1. apply andb_true_iff in G1 as [Gold Gnew].
  apply test_name_need in Gold as [Hne_o Hleg_o]. pose proof (test_name_free_none _ _ Gnew) as Hnone.
  apply test_name_free in Gnew as [Hne_n Hleg_n].
  pose proof (legal_plain _ Hleg_o Hne_o) as Hpo. pose proof (legal_plain _ Hleg_n Hne_n) as Hpn.
  pose proof (lm_get_static _ _ oldname Est) as Hs.
  destruct (lm_get (ld_map ld) oldname) as [l|] eqn:El; [|apply h_panic; apply HT].
  destruct (lm_get m0 oldname) as [x0|] eqn:Ex0; [|contradiction].
  pose proof (lm_get_static _ _ newname Est) as Hs2. rewrite Hnone in Hs2.
  destruct (lm_get m0 newname) as [xn|] eqn:Exn; [contradiction|]. clear Hs2.
  destruct (lm_get_in _ _ _ Ex0) as [Hx0in Hx0n]. destruct (lm_get_in _ _ _ El) as [Hlin Hln].
  pose proof (loaded_path c f) as HLP. rewrite Forall_forall in HLP.
  assert (Hlp : l_path l = d).
  { rewrite (static_path _ _ Hs), (HLP x0 Hx0in), Hx0n. now apply (LP_eq c Hcfg). }
  apply h_guard_then; [apply HT|]. intros _. apply h_guard_then; [apply HT|]. intros _. cbv zeta.
  apply h_guard_then; [apply HT|]. intros _.
  set (KS := children_in_order e (ld_map ld) oldname).
  (* facts about the kids *)
  assert (KSs : forall k, In k KS -> exists x, In x m0 /\ static k = static x /\ l_base x = oldname).
  { intros k Hk. apply kids_sound in Hk as [Hk Hb]. destruct (in_map_static _ _ k Est Hk) as (x & Hx & Hst).
    exists x. repeat split; auto. now rewrite <- (static_base _ _ Hst). }
  assert (KSc : forall x, In x m0 -> l_base x = oldname -> exists k, In k KS /\ static k = static x).
  { intros x Hx Hb. symmetry in Est. destruct (in_map_static _ _ x Est Hx) as (k0 & Hk0 & Hst0).
    assert (Hb0 : l_base k0 = oldname) by now rewrite <- (static_base _ _ Hst0).
    destruct (kids_complete e _ _ k0 Hk0 Hb0) as (k & Hk & Hn). exists k. split; [exact Hk|].
    apply kids_sound in Hk as [Hk _]. symmetry in Est.
    destruct (in_map_static _ _ k Est Hk) as (y & Hy & Hsty). rewrite Hsty.
    assert (y = x); [|now subst].
    apply (loaded_same_name c f y x Hy Hx). rewrite <- (static_name _ _ Hsty), Hn, <- (static_name _ _ Hst0). reflexivity. }
  assert (KSn : forall k, In k KS -> l_path k = layer_path c (l_name k) /\ plain (l_name k)
                                      /\ In (l_name k) (children f (c_layers c))).
  { intros k Hk. destruct (KSs k Hk) as (x & Hx & Hst & _).
    destruct (loaded_named c f x Hx) as (Hch & Hlg & _).
    rewrite (static_path _ _ Hst), (static_name _ _ Hst). split; [now apply HLP|split; [|exact Hch]].
    apply legal_plain; [exact Hlg|]. apply children_in in Hch as (q & nd & _ & _ & _ & <-). apply pathbase_nonempty. }
  set (NS := newname :: map l_name KS).
  assert (HNS : forall n, In n NS -> plain n).
  { intros n [<-|Hn]; [exact Hpn|]. apply in_map_iff in Hn as (k & <- & Hk). now destruct (KSn k Hk) as (_ & H & _). }
  assert (HF : forall n en, In n NS -> In en f -> at_or_under (TC c n) (fst en) = false).
  { intros n en Hn Hen. unfold TC. rewrite <- (PC_eq c Hcfg n (HNS n Hn)). apply R5; [|exact Hen].
    destruct Hn as [<-|Hn]; [now right|left]. apply in_map_iff in Hn as (k & <- & Hk). now destruct (KSn k Hk) as (_ & _ & H). }
  assert (Hold : forall en, In en f -> at_or_under (TC c oldname) (fst en) = false).
  { intros en Hen. unfold TC. rewrite <- (PC_eq c Hcfg oldname Hpo). apply R5; [left|exact Hen].
    destruct (loaded_named c f x0 Hx0in) as (Hch & _). now rewrite Hx0n in Hch. }
  (* the export links *)
  apply h_bind with (Q := fun _ => SubL c f).
  { eapply h_pre; [apply (p_links_SubL c f e oldname Hreal R3 l Hln)|]. intros g ->. apply SubL_refl. }
  intros u1.
  (* the directory *)
  apply h_bind with (Q := fun _ g => exists g1 na, (SubL c f g1 /\ In (d, na) g1) /\ g = map (move_entry d d') g1).
  { rewrite Hlp, (LP_eq c Hcfg newname Hpn). apply h_fs_rename; [exact Hreal|apply HT|].
    intros g g' Hg Hr.
    assert (Hl : lstat g d' = None).
    { unfold lstat. destruct (fs_get g d') as [nd|] eqn:Eg; [|reflexivity]. apply fs_get_in in Eg.
      destruct Hg as (Hinc & _). apply Hinc in Eg. apply R4 in Eg. cbn [fst] in Eg.
      rewrite (LP_eq c Hcfg newname Hpn), at_or_under_refl in Eg. discriminate. }
    assert (Hab : at_or_under d d' = false).
    { destruct (at_or_under d d') eqn:Eu; [|reflexivity]. exfalso.
      assert (oldname = newname).
      { apply (LP_under_inj c Hcfg oldname newname d' [] Hpo Hpn Eu); [now rewrite app_nil_r|now left]. }
      subst newname. congruence. }
    destruct (rename_fresh _ _ _ _ Hr Hl Hab) as (-> & na & Hna). exists g, na. auto. }
  intros u2. apply h_ex. intros g1. apply h_ex. intros na. apply h_pure_eq. intros [HS Hna].
  set (g2 := map (move_entry d d') g1).
  assert (HT2 : TF c NS g2).
  { apply TF_moved; auto. now destruct HS as (Hinc & _). }
  (* the kids *)
  eapply h_bind.
  { apply (mapM_exact c e newname Hcfg Hreal NS HNS KS g2); [|exact HT2].
    intros k Hk. destruct (KSn k Hk) as (H1 & H2 & _). split; [exact H1|split; [exact H2|]].
    unfold NS. right. now apply in_map. }
  intros u3. cbn beta.
  apply h_bind with (Q := fun _ g => TF c NS (fold_left (step c newname) KS g2) /\ g = fold_left (step c newname) KS g2).
  { unfold renormalize. destruct (normalize_order _); [apply h_ret; intros g [-> Ht]; auto|apply h_diverge; apply HT]. }
  intros ld'. apply h_pure_eq. intros HT3.
  eapply h_bind; [|intros u4; apply h_ret; intros g Hg; exact Hg].
  unfold write_layerfile, layerconfig_path. cbn [set_name_path l_path l_base l_mounts l_exports].
  change D_LayerconfigFile with LCF. rewrite (PC_eq c Hcfg newname Hpn).
  rewrite (static_base _ _ Hs), (static_mounts _ _ Hs), (static_exports _ _ Hs).
  eapply h_conseq; [apply (wfa_exact e Hreal (fold_left (step c newname) KS g2))|auto| |apply HT].
  - intros en Hen. apply (HT3 newname (or_introl eq_refl) en Hen).
  - cbn beta. intros u g ->. exists x0, g1, na, KS.
    exact (conj Ex0 (conj Hpo (conj (conj Hpn Hleg_n) (conj Exn (conj Hci (conj HS (conj Hna (conj KSs (conj KSc eq_refl))))))))).
Qed.
End RenameRun.

(* ------------------------------------------------------------------ looking into the rewritten tree *)
Section Fold.
Variable c : cfgT.
Variable newname : bytes.
Local Notation stp := (step c newname).
Local Notation P k := (PC c (l_name k)).

Lemma fold_in KS : forall g en, In en g -> (forall k, In k KS -> fst en <> P k) -> In en (fold_left stp KS g).
Proof.
  induction KS as [|k r IH]; intros g en Hen Hne; cbn [fold_left]; [exact Hen|].
  apply IH; [|intros k' Hk'; apply Hne; now right]. apply rewritten_in; [exact Hen|apply Hne; now left].
Qed.
Lemma fold_get_miss KS key : forall g, (forall k, In k KS -> key <> P k) -> fs_get (fold_left stp KS g) key = fs_get g key.
Proof.
  induction KS as [|k r IH]; intros g Hne; cbn [fold_left]; [reflexivity|].
  rewrite IH by (intros k' Hk'; apply Hne; now right). apply rewritten_get_other. apply Hne. now left.
Qed.
Lemma fold_get_keep KS key x : forall g, fs_get g key = Some (File x) ->
  (forall k, In k KS -> P k = key -> Xk newname k = x) -> fs_get (fold_left stp KS g) key = Some (File x).
Proof.
  induction KS as [|k r IH]; intros g Hg Hc; cbn [fold_left]; [exact Hg|].
  apply IH; [|intros k' Hk'; apply Hc; now right]. unfold step.
  destruct (beq (P k) key) eqn:E.
  - apply beq_true in E. rewrite <- E at 1. rewrite rewritten_get_self. rewrite (Hc k (or_introl eq_refl) E). reflexivity.
  - apply beq_false in E. rewrite rewritten_get_other by congruence. exact Hg.
Qed.
Lemma fold_get_hit KS k : forall g, In k KS ->
  (forall k1, In k1 KS -> P k1 = P k -> Xk newname k1 = Xk newname k) ->
  fs_get (fold_left stp KS g) (P k) = Some (File (Xk newname k)).
Proof.
  induction KS as [|k0 r IH]; intros g Hin Hc; [destruct Hin|]. cbn [fold_left].
  destruct Hin as [->|Hin].
  - apply fold_get_keep; [unfold step; apply rewritten_get_self|]. intros k1 Hk1. apply Hc. now right.
  - apply IH; [exact Hin|]. intros k1 Hk1. apply Hc. now right.
Qed.
End Fold.

(* ------------------------------------------------------------------ small facts *)
Lemma no_self_base m x : check_inheritance m = true -> In x m -> l_name x <> [] -> l_base x <> l_name x.
Proof.
  intros Hci Hx Hne E. unfold check_inheritance in Hci. rewrite forallb_forall in Hci. specialize (Hci x Hx).
  rewrite E in Hci. cbn [chain_ok] in Hci. destruct (l_name x) as [|ch r] eqn:En; [congruence|].
  rewrite <- En in Hci. destruct (lm_get_of_in m x Hx) as (k1 & E1). rewrite E1 in Hci.
  destruct (lm_get_in _ _ _ E1) as [_ Hn1]. rewrite Hn1 in Hci. unfold memb in Hci. cbn [existsb] in Hci. rewrite beq_refl in Hci. discriminate.
Qed.

Lemma loaded_wf c g n x : load_layer c g n = Some x -> lf_wf (l_base x) (l_mounts x) (l_exports x) = true.
Proof.
  unfold load_layer. match goal with |- match ?t with _ => _ end = _ -> _ => destruct t as [content|] end; [|discriminate].
  intros H. injection H as <-. cbn [l_base l_mounts l_exports]. destruct (read_layerfile_wf content) as (H1 & H2 & H3).
  apply lf_wf_parts. auto.
Qed.

Lemma load_from_content c g n X b ms es : plain n -> wf_cfg c = true ->
  fs_get g (PC c n) = Some (File X) -> read_layerfile X = MkLF b ms es 0 ->
  load_layer c g n = Some (MkL n b ms es (layer_path c n) st_empty false false false false []).
Proof.
  intros Hn Hcfg Hg Hr. unfold load_layer. change D_LayerconfigFile with LCF. rewrite (PC_eq c Hcfg n Hn).
  unfold is_file, read_file. rewrite (stat_file _ _ _ Hg), Hr. reflexivity.
Qed.

Theorem rename_preserves c w e um oldname newname :
  e_pretend e = false -> wf_rename c (wo_fs w) oldname newname = true ->
  conj2 c w (view_of_model c w e (CRename oldname newname) um) = true.
Proof.
  intros Hreal Hwf. set (f := wo_fs w).
  unfold wf_rename in Hwf. fold f in Hwf. apply andb_true_iff in Hwf as [Hwf Hok]. apply andb_true_iff in Hwf as [Hcfg Hreg].
  unfold rename_ok in Hok. apply andb_true_iff in Hok as [Hok H6]. apply andb_true_iff in Hok as [Hok H5b].
  apply andb_true_iff in Hok as [Hok H5a]. apply andb_true_iff in Hok as [H3 H4].
  assert (R3 : forall lk en, In lk (links c oldname) -> In en f -> at_or_under lk (fst en) = true ->
                             at_or_under (c_layers c) (fst en) = false).
  { intros lk en Hlk Hen Hu. rewrite forallb_forall in H3. specialize (H3 lk Hlk). rewrite forallb_forall in H3.
    specialize (H3 en Hen). rewrite Hu in H3. cbn [andb] in H3. now apply negb_true_iff in H3. }
  assert (R4 : forall en, In en f -> at_or_under (layer_path c newname) (fst en) = false).
  { intros en Hen. rewrite forallb_forall in H4. apply H4 in Hen. now apply negb_true_iff in Hen. }
  assert (R5 : forall nn en, In nn (children f (c_layers c)) \/ nn = newname -> In en f ->
                             at_or_under (pathjoin [layer_path c nn; LCF] ++ tmp_suffix) (fst en) = false).
  { intros nn en Hnn Hen. assert (T : tmp_free c f nn = true).
    { destruct Hnn as [Hnn| ->]; [|exact H5b]. rewrite forallb_forall in H5a. now apply H5a. }
    unfold tmp_free in T. rewrite forallb_forall in T. apply T in Hen. now apply negb_true_iff in Hen. }
  pose proof (rename_run c f e um oldname newname Hcfg Hreal R3 R4 R5 (MkSt (world_of w) 0 []) eq_refl) as HR.
  unfold conj2, view_of_model, run.
  destruct (run_command e c um (CRename oldname newname) (MkSt (world_of w) 0 [])) as [o st].
  cbn [v_res v_env v_cmd v_after wo_fs]. destruct o; cbn [rclass_of]; try reflexivity.
  destruct (e_fault e); try reflexivity. fold f.
  destruct HR as (x0 & g1 & na & KS & Ex0 & Hpo & [Hpn Hlegn] & Exn & Hci & HS & Hna & KSs & KSc & Ef').
  change (fs_of st) with (w_fs (s_w st)) in Ef'. rewrite Ef'. clear Ef'.
  set (d := LP c oldname) in *. set (d' := LP c newname) in *.
  set (g2 := map (move_entry d d') g1).
  set (G := fold_left (step c newname) KS g2).
  set (X' := concat (layerfile_chunks (l_base x0) (l_mounts x0) (l_exports x0))).
  set (F' := rewritten G (PC c newname) X').
  destruct (lm_get_in _ _ _ Ex0) as [Hx0in Hx0n].
  destruct HS as (Hinc & Hkeep & Hget).
  (* names of the kids *)
  assert (KSp : forall k, In k KS -> plain (l_name k)).
  { intros k Hk. destruct (KSs k Hk) as (x & Hx & Hst & _). rewrite (static_name _ _ Hst).
    destruct (loaded_named c f x Hx) as (Hch & Hlg & _). apply legal_plain; [exact Hlg|].
    apply children_in in Hch as (q & nd & _ & _ & _ & <-). apply pathbase_nonempty. }
  (* an entry whose parent is the layers directory is no layerconfig *)
  assert (NotPC : forall q n, plain n -> pathdir q = c_layers c -> q <> PC c n).
  { intros q n Hn Hd ->. rewrite (pathdir_PC c Hcfg n Hn) in Hd. now apply (LP_neq_L c Hcfg n Hn). }
  assert (InF' : forall q nd, In (q, nd) g2 -> pathdir q = c_layers c -> In (q, nd) F').
  { intros q nd Hq Hd. apply (rewritten_in G _ X' (q, nd)); [|cbn [fst]; now apply NotPC].
    apply fold_in; [exact Hq|]. intros k Hk. cbn [fst]. apply NotPC; [now apply KSp|exact Hd]. }
  apply forallb_forall. intros x Hx. destruct (l_state x =? st_error)%N; [reflexivity|].
  destruct (loaded_named c f x Hx) as (Hch & Hlg & Hld). unfold layers_on_disk in Hx.
  assert (Hnn : plain (l_name x)).
  { apply legal_plain; [exact Hlg|]. apply children_in in Hch as (q & nd & _ & _ & _ & <-). apply pathbase_nonempty. }
  assert (Hnew : l_name x <> newname).
  { intros E. destruct (lm_get_of_in _ _ Hx) as (k1 & E1). rewrite E in E1. congruence. }
  assert (Hself : l_base x <> l_name x).
  { apply (no_self_base _ _ Hci Hx). now destruct Hnn. }
  destruct (beq oldname (l_name x)) eqn:Eo.
  - (* the renamed layer *)
    apply beq_true in Eo. assert (x = x0) by (apply (loaded_same_name c f); auto; congruence). subst x0.
    assert (Hy : layer_named c F' newname =
                 Some (MkL newname (l_base x) (l_mounts x) (l_exports x) (layer_path c newname) st_empty false false false false [])).
    { apply layer_named_some. split; [|split].
      - apply children_in. exists d', na. destruct (LP_child c Hcfg newname Hpn) as (U & D & B).
        repeat split; auto. apply InF'; [|exact D]. apply in_map_iff. exists (d, na). split; [|exact Hna].
        unfold move_entry. cbn [fst snd]. now rewrite at_or_under_refl, rel_suffix_self, app_nil_r.
      - exact Hlegn.
      - apply (load_from_content c F' newname X'); auto; [apply rewritten_get_self|].
        unfold X'. apply layerfile_roundtrip. apply (loaded_wf c f _ _ Hld). }
    rewrite Hy. cbn [l_mounts l_exports l_base]. rewrite !nmounts_beq_refl. cbn [andb].
    destruct (beq (l_base x) oldname) eqn:Eb; [apply beq_true in Eb; congruence|apply beq_refl].
  - apply beq_false in Eo.
    (* still a child of the layers directory *)
    assert (Hch' : In (l_name x) (children F' (c_layers c))).
    { apply children_in in Hch as (q & nd & Hq & Hu & Hd & Hb). apply children_in. exists q, nd.
      repeat split; auto. apply InF'; [|exact Hd]. apply in_map_iff. exists (q, nd). split.
      - unfold move_entry. cbn [fst snd]. destruct (at_or_under d q) eqn:Eu; [|reflexivity]. exfalso.
        unfold at_or_under in Eu. apply orb_true_iff in Eu as [Eu|Eu].
        + apply beq_true in Eu. subst q. destruct (LP_child c Hcfg oldname Hpo) as (_ & _ & B). fold d in B. congruence.
        + rewrite forallb_forall in H6. specialize (H6 (q, nd) Hq). cbn [fst] in H6.
          rewrite (LP_eq c Hcfg oldname Hpo) in H6. fold d in H6. rewrite Eu, Hd, beq_refl in H6. discriminate.
      - apply Hkeep; [exact Hq|]. cbn [fst]. unfold at_or_under. rewrite Hu. apply orb_true_r. }
    destruct (beq (l_base x) oldname) eqn:Eb.
    + (* a child of the renamed layer: its layerconfig was rewritten *)
      apply beq_true in Eb. destruct (KSc x Hx Eb) as (k & Hk & Hst).
      assert (Hkn : l_name k = l_name x) by now apply static_name.
      assert (HgG : fs_get G (PC c (l_name k)) = Some (File (Xk newname k))).
      { apply fold_get_hit; [exact Hk|]. intros k1 Hk1 E1.
        apply (PC_inj c Hcfg _ _ (KSp k1 Hk1) (KSp k Hk)) in E1.
        destruct (KSs k1 Hk1) as (x1 & Hx1 & Hst1 & _).
        assert (x1 = x). { apply (loaded_same_name c f); auto. rewrite <- (static_name _ _ Hst1), E1. exact Hkn. }
        subst x1. unfold Xk. now rewrite (static_mounts _ _ Hst1), (static_exports _ _ Hst1),
          (static_mounts _ _ Hst), (static_exports _ _ Hst). }
      assert (HgF : fs_get F' (PC c (l_name x)) = Some (File (Xk newname k))).
      { unfold F'. rewrite rewritten_get_other; [now rewrite <- Hkn|].
        intros E. apply (PC_inj c Hcfg _ _ Hnn Hpn) in E. contradiction. }
      assert (Hy : layer_named c F' (l_name x) =
                   Some (MkL (l_name x) newname (l_mounts x) (l_exports x) (layer_path c (l_name x)) st_empty false false false false [])).
      { apply layer_named_some. split; [exact Hch'|split; [exact Hlg|]].
        apply (load_from_content c F' (l_name x) (Xk newname k)); auto.
        unfold Xk. rewrite (static_mounts _ _ Hst), (static_exports _ _ Hst). apply layerfile_roundtrip.
        pose proof (loaded_wf c f _ _ Hld) as W. apply lf_wf_parts in W as (_ & W2 & W3). apply lf_wf_parts.
        repeat split; auto. apply base_ok_tok. apply legal_tok; [exact Hlegn|now destruct Hpn]. }
      rewrite Hy. cbn [l_mounts l_exports l_base]. rewrite !nmounts_beq_refl. apply beq_refl.
    + (* untouched *)
      apply beq_false in Eb.
      assert (HgF : fs_get F' (PC c (l_name x)) = fs_get f (PC c (l_name x))).
      { unfold F'. rewrite rewritten_get_other by (intros E; apply (PC_inj c Hcfg _ _ Hnn Hpn) in E; contradiction).
        unfold G. rewrite fold_get_miss.
        - unfold g2. rewrite fs_get_map_move.
          + apply Hget. unfold PC. apply (LP_under_L c); [exact Hnn|right; now exists LCF].
          + destruct (at_or_under d (PC c (l_name x))) eqn:Eu; [|reflexivity]. exfalso. apply Eo.
            apply (LP_under_inj c Hcfg oldname (l_name x) _ (sl :: LCF) Hpo Hnn Eu eq_refl). right. now exists LCF.
          + destruct (at_or_under d' (PC c (l_name x))) eqn:Eu; [|reflexivity]. exfalso. apply Hnew. symmetry.
            apply (LP_under_inj c Hcfg newname (l_name x) _ (sl :: LCF) Hpn Hnn Eu eq_refl). right. now exists LCF.
        - intros k Hk E. apply (PC_inj c Hcfg _ _ Hnn (KSp k Hk)) in E.
          destruct (KSs k Hk) as (x1 & Hx1 & Hst1 & Hb1).
          assert (x1 = x). { apply (loaded_same_name c f); auto. now rewrite <- (static_name _ _ Hst1). }
          subst x1. contradiction. }
      assert (Hy : layer_named c F' (l_name x) = Some x).
      { apply layer_named_some. split; [exact Hch'|split; [exact Hlg|]]. rewrite <- Hld. apply load_layer_congr.
        - change D_LayerconfigFile with LCF. unfold lc_regular in Hreg. rewrite forallb_forall in Hreg.
          apply Hreg in Hch. now apply negb_true_iff in Hch.
        - change D_LayerconfigFile with LCF. rewrite (PC_eq c Hcfg _ Hnn). exact HgF. }
      rewrite Hy. rewrite !nmounts_beq_refl. apply beq_refl.
Qed.

(* the whole property predicate on the model's rename step *)
Theorem rename_step_spec c w e um oldname newname :
  wf_world c (wo_fs w) (CRename oldname newname) = true -> wf_rename c (wo_fs w) oldname newname = true ->
  C11.step_spec c w (view_of_model c w e (CRename oldname newname) um) = true.
Proof.
  intros H1 H2. rewrite step_spec_eq.
  destruct (view_of_model_fields c w e (CRename oldname newname) um) as (_ & -> & _ & _).
  destruct (e_pretend e) eqn:Ep; [reflexivity|].
  rewrite (crash_atomic_gen c w e _ um Ep H1), (rename_preserves c w e um oldname newname Ep H2). reflexivity.
Qed.

(* ------------------------------------------------------------------ rebase and rename together *)
Definition wf_rewrite (c : cfgT) (f : fsT) (cmd : command) : bool :=
  match cmd with
  | CRebase a _ => wf_rebase c f a
  | CRename a b0 => wf_rename c f a b0
  | _ => false
  end.
Theorem rewrite_preserves c w e cmd um : e_pretend e = false -> wf_rewrite c (wo_fs w) cmd = true ->
  conj2 c w (view_of_model c w e cmd um) = true.
Proof.
  intros Hp H. destruct cmd; try discriminate H; cbn [wf_rewrite] in H.
  - now apply rename_preserves.
  - now apply rebase_preserves.
Qed.
