(* C11 (b) from worlds that contain stale layerconfig.tmp files (crash after crash): the
   tree has unique paths, nothing lies below the name of a temporary file; the invariant for
   the three rewriting commands carries uniqueness of paths along. *)
From Coq Require Import Permutation.
From LC Require Import Lib.Bytes Lib.Lex Lib.Fields Lib.PathM Gen.Consts
  Model.MountInfo Model.FsTree Model.Kernel Model.Layers Cases.Verdict Cases.LC Cases.C11
  Proofs.PathP Proofs.PathBaseP Proofs.CleanP Proofs.PathDirP Proofs.FsxMonadP Proofs.FsP Proofs.LayersP
  Proofs.LayerFileP Proofs.C11P Proofs.RewriteP Proofs.C09P Proofs.C11cP Proofs.C11rP.
Import LC LCS.
Close Scope string_scope.
Open Scope list_scope.

(* ------------------------------------------------------------------ lists of entries *)
Lemma notin_keys_get (g : fsT) k : ~ In k (map fst g) -> fs_get g k = None.
Proof.
  intros H. destruct (fs_get g k) as [n|] eqn:E; [|reflexivity]. exfalso. apply H.
  apply fs_get_in in E. apply in_map_iff. now exists (k, n).
Qed.
Lemma filter_key_id (g : fsT) k : ~ In k (map fst g) -> filter (fun en => negb (beq (fst en) k)) g = g.
Proof. intros H. apply filter_key_absent. now apply notin_keys_get. Qed.

Lemma NoDup_keys_insert (l1 l2 : fsT) k nd : NoDup (map fst (l1 ++ l2)) -> ~ In k (map fst (l1 ++ l2)) ->
  NoDup (map fst (l1 ++ (k, nd) :: l2)).
Proof.
  intros ND Hk. rewrite map_app in *. cbn [map fst].
  apply (Permutation_NoDup (l := k :: map fst l1 ++ map fst l2)); [apply Permutation_middle|].
  now constructor.
Qed.
Lemma NoDup_keys_remove (l1 l2 : fsT) k nd : NoDup (map fst (l1 ++ (k, nd) :: l2)) ->
  NoDup (map fst (l1 ++ l2)) /\ ~ In k (map fst (l1 ++ l2)).
Proof.
  rewrite !map_app. cbn [map fst]. intros ND. split; [now apply NoDup_remove_1 in ND|now apply NoDup_remove_2 in ND].
Qed.

Lemma rename_file_shape g a b x g' : lstat g a = Some (File x) -> a <> b -> rename g a b = FOk g' ->
  g' = map (move_entry a b) (filter (fun en => negb (beq (fst en) b)) g).
Proof.
  intros Ha Hab. unfold rename. rewrite Ha. destruct (negb (is_dir g (pathdir b)) || negb (names_fit b)); [discriminate|].
  destruct (at_or_under a b).
  { destruct (beq a b) eqn:E; [apply beq_true in E; contradiction|discriminate]. }
  destruct (lstat g b) as [[|y|t]|] eqn:Eb; try discriminate.
  - intros H. now injection H as <-.
  - intros H. now injection H as <-.
  - intros H. injection H as <-. unfold lstat in Eb. now rewrite (filter_key_absent _ _ Eb).
Qed.

Lemma under_ext a q : beq a root = false -> under a q = true -> exists r, q = a ++ sl :: r.
Proof.
  intros Hr H. destruct (under_shape a q H) as (a' & r & -> & _ & [->|[-> _]]); [now exists r|].
  rewrite beq_refl in Hr. discriminate.
Qed.
Lemma under_intro a r : beq a root = false -> under a (a ++ sl :: r) = true.
Proof. intros Hr. unfold under. rewrite Hr. apply prefixb_spec. exists r. now rewrite <- app_assoc. Qed.
Lemma under_at a q : under a q = true -> at_or_under a q = true.
Proof. intros H. unfold at_or_under. rewrite H. apply orb_true_r. Qed.
Lemma not_at_not_under a q : at_or_under a q = false -> under a q = false.
Proof. unfold at_or_under. intros H. now apply orb_false_iff in H as [_ H]. Qed.

Section Stale.
Variable c : cfgT.
Variable f0 : fsT.
Variable cmd : command.
Variable e : env.
Hypothesis Hcfg : wf_cfg c = true.
Hypothesis Hreal : e_pretend e = false.

Local Notation J := (C11P.J c f0 cmd false).
Local Notation Sf := (C11P.Sf c f0 cmd).
Local Notation Phi := (C11P.Phi c f0 cmd false).
Local Notation good := (C11P.good c f0 cmd).

Variable NS : list bytes.
Hypothesis NS_plain : forall n, In n NS -> plain n.

(* nothing strictly below the name of the temporary file of any of the names NS *)
Definition TFu (g : fsT) : Prop := forall n, In n NS -> forall en, In en g -> under (TC c n) (fst en) = false.
Definition K (g : fsT) : Prop := J g /\ NoDup (map fst g) /\ TFu g.

Lemma K_J g : K g -> J g.
Proof. now intros (H & _). Qed.
Lemma K_incl g g' : incl g' g -> NoDup (map fst g') -> K g -> K g'.
Proof.
  intros Hi ND (H1 & _ & H3). split; [eapply FJ_incl; eauto|split; [exact ND|]].
  intros n Hn en Hen. apply (H3 n Hn). now apply Hi.
Qed.
Lemma K_filter P g : K g -> K (filter P g).
Proof.
  intros HK. apply (K_incl g); [intros x Hx; now apply filter_In in Hx as [? _]| |exact HK].
  destruct HK as (_ & ND & _). now apply NoDup_map_filter.
Qed.

Lemma TC_base n : plain n -> pathbase (TC c n) = LCT.
Proof.
  intros Hn. unfold TC, PC. rewrite <- app_assoc. cbn [app].
  change (LP c n ++ sl :: LCF ++ tmp_suffix) with (LP c n ++ [sl] ++ LCT). rewrite app_assoc.
  apply pathbase_comp; [apply LCT_nonempty|apply LCT_noslash|right; now exists (LP c n)].
Qed.
Lemma PC_Phi n x : good x -> Phi (PC c n) x.
Proof.
  intros Hx. unfold PC. change (LP c n ++ sl :: LCF) with (LP c n ++ [sl] ++ LCF). rewrite app_assoc.
  unfold C11P.Phi. rewrite pathbase_comp; [|apply LCF_nonempty|apply LCF_noslash|right; now exists (LP c n)].
  repeat split; [apply ends_ok_comp; [apply LCF_nonempty|apply LCF_noslash]|discriminate|auto].
Qed.
Lemma TC_neq_PC n : TC c n <> PC c n.
Proof. unfold TC. intros H. apply (f_equal (@length _)) in H. rewrite app_length in H. cbn in H. lia. Qed.

(* while the temporary file of n is being written *)
Definition Kw (n x : bytes) (g : fsT) : Prop :=
  exists g1 g2, g = g1 ++ (TC c n, File x) :: g2 /\ K (g1 ++ g2) /\ ~ In (TC c n) (map fst (g1 ++ g2)).

Lemma Kw_Sf n x g : plain n -> Kw n x g -> Sf g.
Proof.
  intros Hn (g1 & g2 & -> & HK & _) q y Hq Hb.
  apply in_app_or in Hq as [Hq|[Hq|Hq]].
  - apply (K_J _ HK q y); [apply in_or_app; now left|exact Hb].
  - injection Hq as <- <-. rewrite (TC_base n Hn) in Hb. symmetry in Hb. now apply LCF_neq_LCT in Hb.
  - apply (K_J _ HK q y); [apply in_or_app; now right|exact Hb].
Qed.

Lemma split_keys (g1 : fsT) k (nd : node) (g2 : fsT) : ~ In k (map fst (g1 ++ g2)) -> fs_get g1 k = None.
Proof. intros H. apply notin_keys_get. intros Hin. apply H. rewrite map_app. apply in_or_app. now left. Qed.

Lemma open_K n : plain n -> In n NS -> hoare K (do_op e (OOpen (TC c n))) (fun _ => Kw n []) K.
Proof.
  intros Hn Hin. unfold do_op. apply h_mutate_real; [exact Hreal|auto|]. unfold apply_op.
  eapply h_bind; [apply h_get_fs|]. intros f. eapply h_bind; [apply h_get_ks|]. intros k.
  apply h_on_fres; [now intros g [Hg _]|]. intros g f' [Hg ->] Hr.
  unfold open_trunc in Hr. destruct (lstat g (TC c n)) as [[|old|lt]|] eqn:El; try discriminate.
  - injection Hr as <-. apply fs_get_in in El. destruct (in_split _ _ El) as (g1 & g2 & ->).
    destruct Hg as (HJ & ND & HT). destruct (NoDup_keys_remove _ _ _ _ ND) as [ND' Hk].
    rewrite (fs_set_app_none g1 _ _ _ g2 (split_keys g1 _ (File old) g2 Hk)).
    exists g1, g2. split; [reflexivity|]. split; [|exact Hk].
    apply (K_incl (g1 ++ (TC c n, File old) :: g2)); [|exact ND'|exact (conj HJ (conj ND HT))].
    intros x Hx. apply in_app_or in Hx as [Hx|Hx]; apply in_or_app; [now left|right; now right].
  - destruct (is_dir g (pathdir (TC c n)) && names_fit (TC c n)); [|discriminate]. injection Hr as <-.
    exists g, []. rewrite app_nil_r. split; [reflexivity|]. split; [exact Hg|].
    intros Hk. apply in_map_iff in Hk as ([q nd] & E & Hq). cbn in E. subst q.
    unfold lstat in El. now apply (fs_get_none _ _ El nd).
Qed.

Lemma append_K n x c0 g : Kw n x g -> Kw n (x ++ c0) (append_file g (TC c n) c0).
Proof.
  intros (g1 & g2 & -> & HK & Hk). pose proof (split_keys g1 _ (File x) g2 Hk) as Hn1.
  unfold append_file, lstat. rewrite (fs_get_app_none _ _ _ Hn1). cbn [fs_get]. rewrite beq_refl.
  rewrite (fs_set_app_none _ _ _ _ _ Hn1). exists g1, g2. auto.
Qed.

Lemma cursor_K n chunks : forall x,
  hoare (Kw n x) (cursor_writes e (TC c n) chunks) (fun _ => Kw n (x ++ concat chunks)) (fun g => exists x', Kw n x' g).
Proof.
  induction chunks as [|c0 r IH]; intros x; cbn [cursor_writes concat].
  - apply h_ret. intros g Hg. now rewrite app_nil_r.
  - apply h_bind with (Q := fun _ => Kw n (x ++ c0)).
    + apply h_mutate_real; [exact Hreal|intros g Hg; now exists x|].
      eapply h_bind; [apply h_get_fs|]. intros f. apply h_put_fs. intros g [Hg ->]. now apply append_K.
    + intros u. rewrite app_assoc. apply IH.
Qed.

Lemma unmoved n g l : plain n -> In n NS -> K g -> ~ In (TC c n) (map fst g) -> incl l g ->
  map (move_entry (TC c n) (PC c n)) l = l.
Proof.
  intros Hn Hin (_ & _ & HT) Hk Hl. rewrite <- (map_id l) at 2. apply map_ext_in. intros [q nd] Hq. apply Hl in Hq.
  unfold move_entry. cbn [fst snd]. unfold at_or_under.
  assert (E1 : beq q (TC c n) = false).
  { apply beq_false. intros ->. apply Hk. apply in_map_iff. now exists (TC c n, nd). }
  pose proof (HT n Hin (q, nd) Hq) as E2. cbn [fst] in E2. rewrite E1, E2. reflexivity.
Qed.

Lemma rename_K n X g g' : plain n -> In n NS -> good X -> Kw n X g ->
  rename g (TC c n) (PC c n) = FOk g' -> K g'.
Proof.
  intros Hn Hin HX (g1 & g2 & -> & HK & Hk) Hr.
  pose proof (split_keys g1 _ (File X) g2 Hk) as Hn1.
  assert (Hl : lstat (g1 ++ (TC c n, File X) :: g2) (TC c n) = Some (File X)).
  { unfold lstat. rewrite (fs_get_app_none _ _ _ Hn1). cbn [fs_get]. now rewrite beq_refl. }
  rewrite (rename_file_shape _ _ _ _ _ Hl (TC_neq_PC n) Hr).
  set (P := PC c n). set (flt := fun en : bytes * node => negb (beq (fst en) P)).
  rewrite filter_app. cbn [filter]. unfold flt at 2. cbn [fst].
  assert (E : beq (TC c n) P = false) by (apply beq_false; apply TC_neq_PC). rewrite E. cbn [negb].
  rewrite map_app. cbn [map].
  pose proof (K_filter flt _ HK) as HKf. rewrite filter_app in HKf.
  assert (Hkf : ~ In (TC c n) (map fst (filter flt g1 ++ filter flt g2))).
  { intros H. apply Hk. rewrite <- filter_app in H. apply in_map_iff in H as (en & E1 & H).
    apply filter_In in H as [H _]. apply in_map_iff. now exists en. }
  assert (M1 : map (move_entry (TC c n) P) (filter flt g1) = filter flt g1).
  { apply (unmoved n _ (filter flt g1) Hn Hin HKf Hkf). intros x Hx; apply in_or_app; now left. }
  assert (M2 : map (move_entry (TC c n) P) (filter flt g2) = filter flt g2).
  { apply (unmoved n _ (filter flt g2) Hn Hin HKf Hkf). intros x Hx; apply in_or_app; now right. }
  rewrite M1, M2.
  assert (Em : move_entry (TC c n) P (TC c n, File X) = (P, File X)).
  { unfold move_entry. cbn [fst snd]. now rewrite at_or_under_refl, rel_suffix_self, app_nil_r. }
  rewrite Em. destruct HKf as (HJ & ND & HT).
  assert (HP : ~ In P (map fst (filter flt g1 ++ filter flt g2))).
  { rewrite <- filter_app. intros H. apply in_map_iff in H as ([q nd] & E1 & H). cbn in E1. subst q.
    apply filter_In in H as [_ H]. unfold flt in H. cbn [fst] in H. rewrite beq_refl in H. discriminate. }
  split; [|split].
  - intros q y Hq. apply in_app_or in Hq as [Hq|[Hq|Hq]].
    + apply HJ. apply in_or_app. now left.
    + injection Hq as <- <-. now apply PC_Phi.
    + apply HJ. apply in_or_app. now right.
  - now apply NoDup_keys_insert.
  - intros m Hm en Hen. apply in_app_or in Hen as [Hen|[<-|Hen]].
    + apply (HT m Hm). apply in_or_app. now left.
    + cbn [fst]. apply not_at_not_under. apply (TC_not_over_PC c Hcfg); auto.
    + apply (HT m Hm). apply in_or_app. now right.
Qed.

Lemma drop_K n x g : Kw n x g -> K (filter (fun en => negb (beq (fst en) (TC c n))) g).
Proof.
  intros (g1 & g2 & -> & HK & Hk). rewrite filter_app. cbn [filter fst]. rewrite beq_refl. cbn [negb].
  rewrite <- filter_app. now rewrite filter_key_id.
Qed.

Lemma rename_op_K n X : plain n -> In n NS -> good X ->
  hoare (Kw n X) (do_op e (ORename (TC c n) (PC c n))) (fun _ => K) (Kw n X).
Proof.
  intros Hn Hin HX. unfold do_op. apply h_mutate_real; [exact Hreal|auto|]. unfold apply_op.
  eapply h_bind; [apply h_get_fs|]. intros f. eapply h_bind; [apply h_get_ks|]. intros k.
  apply h_on_fres; [now intros g [Hg _]|]. intros g f' [Hg ->] Hr. eapply rename_K; eauto.
Qed.

Lemma wfa_K n chunks : plain n -> In n NS -> good (concat chunks) ->
  hoare K (write_file_atomically e (PC c n) chunks) (fun _ => K) Sf.
Proof.
  intros Hn Hin HX s Hs. unfold write_file_atomically. fold (TC c n).
  assert (KS : forall g, K g -> Sf g) by (intros g Hg; apply (J_Sf c f0 cmd false); now apply K_J).
  pose proof (open_K n Hn Hin s Hs) as H1.
  destruct (do_op e (OOpen (TC c n)) s) as [[[]| | | |] s1]; try (now apply KS).
  pose proof (cursor_K n chunks [] s1 H1) as H2. cbn [app] in H2.
  destruct (cursor_writes e (TC c n) chunks s1) as [[[]| | | |] s2].
  - pose proof (rename_op_K n (concat chunks) Hn Hin HX s2 H2) as H3.
    destruct (do_op e (ORename (TC c n) (PC c n)) s2) as [[[]| | | |] s3]; try (now apply (Kw_Sf n (concat chunks))).
    + exact H3.
    + cbn. apply KS. eapply drop_K. exact H3.
  - destruct H2 as [x' H2]. cbn. apply KS. eapply drop_K. exact H2.
  - destruct H2 as [x' H2]. now apply (Kw_Sf n x').
  - destruct H2 as [x' H2]. now apply (Kw_Sf n x').
  - destruct H2 as [x' H2]. now apply (Kw_Sf n x').
Qed.

End Stale.

(* ------------------------------------------------------------------ prefixes of a canonical path *)
Lemma prefixes_acc_prefix cs : forall cur q, In q (prefixes_acc cur cs) ->
  exists rest, cur ++ concat (map (cons sl) cs) = q ++ rest.
Proof.
  induction cs as [|c0 r IH]; intros cur q Hq; [destruct Hq|]. cbn [prefixes_acc] in Hq. cbn [map concat].
  destruct Hq as [<-|Hq].
  - exists (concat (map (cons sl) r)). rewrite <- app_assoc. reflexivity.
  - destruct (IH _ _ Hq) as (rest & E). exists rest. rewrite <- E, <- app_assoc. reflexivity.
Qed.
Lemma prefixes_prefix X q : is_rooted X = true -> clean X = X -> In q (prefixes X) -> exists rest, X = q ++ rest.
Proof.
  intros Hr Hc Hq. destruct (clean_abs_shape X Hr Hc) as [E HP].
  remember (cstack X) as cs eqn:Ecs. clear Ecs Hr Hc.
  assert (Hc : cs = [] \/ cs <> []) by (destruct cs; [now left|right; discriminate]).
  destruct Hc as [->|Hne].
  { subst X. cbn in Hq. destruct Hq. }
  unfold prefixes in Hq. assert (S : psplit X = [] :: cs).
  { rewrite E. unfold psplit, split. cbn [split_acc]. rewrite Ascii.eqb_refl. cbn [rev]. f_equal.
    apply split_join; [exact Hne|]. eapply Forall_impl; [|exact HP]. intros a (_ & _ & _ & H). exact H. }
  rewrite S in Hq. cbn [filter beq negb] in Hq. rewrite (filter_plain_id _ HP) in Hq.
  destruct (prefixes_acc_prefix _ _ _ Hq) as (rest & Er). exists rest. rewrite <- Er. cbn [app].
  rewrite E. apply pjoin_concat. exact Hne.
Qed.

Lemma move_keys_nodup g a b : beq a root = false -> beq b root = false ->
  (forall en, In en g -> at_or_under b (fst en) = false) ->
  NoDup (map fst g) -> NoDup (map fst (map (move_entry a b) g)).
Proof.
  intros Ha Hb Hno ND. induction g as [|[q m] r IH]; cbn [map]; [constructor|].
  inversion ND as [|? ? Hn ND']; subst. constructor; [|apply IH; auto; intros en Hen; apply Hno; now right].
  intros Hin. rewrite map_map in Hin. apply in_map_iff in Hin as ([q1 m1] & E & Hin1).
  unfold move_entry in E. cbn [fst snd] in E.
  assert (Hq1 : at_or_under b q1 = false) by (apply (Hno (q1, m1)); now right).
  assert (Hq : at_or_under b q = false) by (apply (Hno (q, m)); now left).
  destruct (at_or_under a q1) eqn:U1, (at_or_under a q) eqn:U; cbn [fst] in E.
  - apply app_inv_head in E. apply Hn. apply in_map_iff. exists (q1, m1). split; [|exact Hin1]. cbn [fst].
    rewrite (at_or_under_join a q1 Ha U1), (at_or_under_join a q Ha U). now rewrite E.
  - subst q. rewrite (at_or_under_intro b _ Hb (rel_suffix_tail _ _ U1)) in Hq. discriminate.
  - subst q1. rewrite (at_or_under_intro b _ Hb (rel_suffix_tail _ _ U)) in Hq1. discriminate.
  - subst q1. apply Hn. apply in_map_iff. now exists (q, m1).
Qed.

Section Stale2.
Variable c : cfgT.
Variable f0 : fsT.
Variable cmd : command.
Variable e : env.
Hypothesis Hcfg : wf_cfg c = true.
Hypothesis Hreal : e_pretend e = false.
Variable NS : list bytes.
Hypothesis NS_plain : forall n, In n NS -> plain n.

Local Notation J := (C11P.J c f0 cmd false).
Local Notation Sf := (C11P.Sf c f0 cmd).
Local Notation Phi := (C11P.Phi c f0 cmd false).
Local Notation K := (K c f0 cmd NS).
Local Notation TFu := (TFu c NS).

Lemma KSf g : K g -> Sf g.
Proof. intros Hg. apply (J_Sf c f0 cmd false). now apply (K_J c f0 cmd NS). Qed.

Lemma K_mkdir_prefixes ps : forall g g', mkdir_prefixes g ps = FOk g' -> K g ->
  (forall q n, In q ps -> In n NS -> under (TC c n) q = false) -> K g'.
Proof.
  induction ps as [|q r IH]; intros g g' H HK Hps; cbn [mkdir_prefixes] in H.
  - now injection H as <-.
  - assert (Hr : forall q0 n, In q0 r -> In n NS -> under (TC c n) q0 = false) by (intros; apply Hps; auto; now right).
    destruct (stat g q) as [[|x|t]|]; try discriminate.
    + eapply IH; eauto.
    + destruct (lstat g q) eqn:El; [discriminate|]. eapply IH; [exact H| |exact Hr].
      destruct HK as (HJ & ND & HT). split; [|split].
      * apply FJ_app; [exact HJ|]. intros q0 y [Hq|[]]. discriminate.
      * rewrite <- (app_nil_r (g ++ [(q, Dir)])), <- app_assoc. cbn [app].
        apply NoDup_keys_insert; rewrite app_nil_r; [exact ND|].
        intros Hin. apply in_map_iff in Hin as ([q0 nd] & E & Hin). cbn in E. subst q0.
        unfold lstat in El. now apply (fs_get_none _ _ El nd).
      * intros n Hn en Hen. apply in_app_or in Hen as [Hen|[<-|[]]]; [now apply (HT n Hn)|].
        cbn [fst]. apply Hps; [now left|exact Hn].
Qed.

(* creating the directory of layer name *)
Lemma K_mkdir_layer name : plain name -> hoare K (fs_mkdir e (layer_path c name)) (fun _ => K) Sf.
Proof.
  intros Hn. unfold fs_mkdir, do_op. apply h_mutate_real; [exact Hreal|exact KSf|]. unfold apply_op.
  eapply h_bind; [apply h_get_fs|]. intros f. eapply h_bind; [apply h_get_ks|]. intros k.
  apply h_on_fres; [intros g1 [Hg _]; now apply KSf|]. intros g1 f' [Hg ->] Hr. unfold mkdir_all in Hr.
  destruct (is_dir g1 (layer_path c name)); [now injection Hr as <-|]. destruct (names_fit (layer_path c name)); [|discriminate].
  eapply K_mkdir_prefixes; [exact Hr|exact Hg|]. intros q n Hq Hin.
  destruct (under (TC c n) q) eqn:Eu; [|reflexivity]. exfalso.
  destruct (pathjoin_abs_clean (c_layers c) name (L_rooted c Hcfg) Hn) as [R C]. fold (layer_path c name) in R, C.
  destruct (prefixes_prefix _ _ R C Hq) as (rest & E).
  destruct (under_ext _ _ (TC_not_root c Hcfg n) Eu) as (r & Eq). rewrite Eq in E.
  rewrite (LP_eq c Hcfg name Hn) in E. unfold TC, PC, LP in E. rewrite <- !app_assoc in E.
  apply app_inv_head in E. cbn [app] in E. injection E as E.
  destruct Hn as (_ & _ & _ & Sn). now apply (noslash_tail name n _ Sn E).
Qed.

(* moving the directory of layer old to the free name new *)
Lemma K_dir_rename old new g g' : plain old -> plain new -> old <> new -> In old NS ->
  K g -> (forall en, In en g -> at_or_under (LP c new) (fst en) = false) -> (forall y, Phi (LP c new) y) ->
  rename g (LP c old) (LP c new) = FOk g' -> K g'.
Proof.
  intros Ho Hn Hne Hin (HJ & ND & HT) Hfree Hphi Hr.
  assert (Hl : lstat g (LP c new) = None).
  { unfold lstat. destruct (fs_get g (LP c new)) as [nd|] eqn:Eg; [|reflexivity]. apply fs_get_in in Eg.
    apply Hfree in Eg. cbn [fst] in Eg. rewrite at_or_under_refl in Eg. discriminate. }
  assert (Hab : at_or_under (LP c old) (LP c new) = false).
  { destruct (at_or_under (LP c old) (LP c new)) eqn:Eu; [|reflexivity]. exfalso. apply Hne.
    apply (LP_under_inj c Hcfg old new (LP c new) [] Ho Hn Eu); [now rewrite app_nil_r|now left]. }
  pose proof Hr as Hr0. destruct (rename_fresh _ _ _ _ Hr Hl Hab) as (-> & _).
  split; [|split].
  - eapply FJ_rename; [exact Hr0|apply Phi_stable|intros y _; apply Hphi|exact HJ].
  - apply move_keys_nodup; auto; now apply (LP_not_root c Hcfg).
  - intros n Hn0 en Hen. apply in_map_iff in Hen as ([q nd] & <- & Hq).
    unfold move_entry. cbn [fst snd]. destruct (at_or_under (LP c old) q) eqn:Eu; cbn [fst]; [|apply (HT n Hn0 (q, nd) Hq)].
    destruct (under (TC c n) (LP c new ++ rel_suffix (LP c old) q)) eqn:Et; [|reflexivity]. exfalso.
    destruct (TC_under c Hcfg n new _ _ (NS_plain n Hn0) Hn (under_at _ _ Et) eq_refl (rel_suffix_tail _ _ Eu))
      as (-> & rest2 & Er & Ht2).
    pose proof (at_or_under_join _ q (LP_not_root c Hcfg old Ho) Eu) as Eq. rewrite Er in Eq.
    destruct Ht2 as [->|[r2 ->]].
    + (* the moved entry would be the temporary file itself, not strictly below it *)
      rewrite Er, app_nil_r in Et. replace (LP c new ++ sl :: LCT) with (TC c new) in Et.
      * unfold under in Et. rewrite (TC_not_root c Hcfg new) in Et. apply prefixb_spec in Et as [r Et].
        apply (f_equal (@length _)) in Et. rewrite !app_length in Et. cbn in Et. lia.
      * unfold TC, PC, LCT. now rewrite <- !app_assoc.
    + assert (Hu : under (TC c old) q = true).
      { rewrite Eq. replace (LP c old ++ sl :: LCT ++ sl :: r2) with (TC c old ++ sl :: r2).
        - apply under_intro. now apply TC_not_root.
        - unfold TC, PC, LCT. now rewrite <- !app_assoc. }
      pose proof (HT old Hin (q, nd) Hq) as Hc. cbn [fst] in Hc. congruence.
Qed.
End Stale2.

(* ------------------------------------------------------------------ the three rewriting commands *)
Section Stale3.
Variable c : cfgT.
Variable f0 : fsT.
Variable cmd : command.
Variable e : env.
Hypothesis Hcfg : wf_cfg c = true.
Hypothesis Hreal : e_pretend e = false.

Local Notation J := (C11P.J c f0 cmd false).
Local Notation Sf := (C11P.Sf c f0 cmd).
Local Notation Phi := (C11P.Phi c f0 cmd false).
Local Notation K := (K c f0 cmd).
Local Notation JE := (JE c f0 cmd false).

Lemma KJ NS g : K NS g -> J g.
Proof. apply K_J. Qed.
Lemma KS NS g : K NS g -> Sf g.
Proof. apply KSf. Qed.

Lemma s_write_layerfile NS l n : (forall m, In m NS -> plain m) -> l_path l = layer_path c n -> plain n -> In n NS ->
  lf_wf (l_base l) (l_mounts l) (l_exports l) = true -> from_old c f0 cmd (l_base l) (l_mounts l) (l_exports l) ->
  hoare (K NS) (write_layerfile e l) (fun _ => K NS) Sf.
Proof.
  intros HNS Hp Hn Hin Hwf Hold. unfold write_layerfile, layerconfig_path. rewrite Hp.
  change D_LayerconfigFile with LCF. rewrite (PC_eq c Hcfg n Hn).
  apply (wfa_K c f0 cmd e Hcfg Hreal NS HNS n); auto. now apply good_rewrite.
Qed.

Lemma one_plain n : plain n -> forall m, In m [n] -> plain m.
Proof. intros Hn m [<-|[]]. exact Hn. Qed.

Lemma s_rebase ld name newbase : ML c f0 ld -> cmd = CRebase name newbase ->
  hoare (K [name]) (rebase_layer e c ld name newbase) (fun _ => J) Sf.
Proof.
  intros HML Hcmd. unfold rebase_layer. apply h_guard_then; [apply KS|]. intros G1.
  apply andb_true_iff in G1 as [Gn Gb]. apply test_name_need in Gn as [Hne Hleg]. apply test_name_opt in Gb.
  pose proof (legal_plain _ Hleg Hne) as Hpn.
  destruct (lm_get (ld_map ld) name) as [l|] eqn:El; [|apply h_panic; apply KS].
  destruct (ML_get _ _ _ _ _ HML El) as [(Hp & Hwf & o & Ho & Hm & Hx & Hb) Hn].
  assert (PG : forall b, hoare (K [name]) (guard b) (fun _ => K [name]) Sf) by (intros b; apply (p_guard _ _ (KS [name]))).
  eapply h_bind; [apply PG|]. intros u1. eapply h_bind; [apply PG|]. intros u2. cbv zeta.
  eapply h_bind; [apply PG|]. intros u3. eapply h_bind; [apply PG|]. intros u4.
  apply h_bind with (Q := fun _ => K [name]).
  { unfold renormalize. destruct (normalize_order _); [apply h_ret; auto|apply h_diverge; apply KS]. }
  intros ld'. eapply h_bind; [|intros u5; apply h_ret; intros g Hg; exact Hg].
  eapply h_post; [apply (s_write_layerfile [name] _ name (one_plain name Hpn))|intros u g; apply KJ].
  - cbn [set_base l_path]. now rewrite Hp, Hn.
  - exact Hpn.
  - now left.
  - cbn [set_base l_base l_mounts l_exports]. apply lf_wf_parts in Hwf as (_ & H2 & H3). apply lf_wf_parts. auto.
  - cbn [set_base l_base l_mounts l_exports]. exists o. repeat split; auto. right. rewrite Hcmd. reflexivity.
Qed.

Lemma s_add ld name base cf : ML c f0 ld -> cmd = CAdd name base cf -> cmd_ok c f0 cmd = true -> K [name] f0 ->
  hoare (fun g => g = f0) (add_layer e c ld name base cf) (fun _ => J) Sf.
Proof.
  intros HML Hcmd Hok HK0. unfold add_layer.
  assert (P0S : forall g, g = f0 -> Sf g) by (intros g ->; now apply (KS [name])).
  apply h_guard_then; [exact P0S|]. intros G1. apply andb_true_iff in G1 as [Gn Gb].
  apply test_name_free in Gn as [Hne Hleg]. apply test_name_opt in Gb. pose proof (legal_plain _ Hleg Hne) as Hpn.
  apply h_guard_then; [exact P0S|]. intros G2.
  apply h_get_fs_eq. cbv zeta.
  match goal with |- hoare _ (match ?x with _ => _ end) _ _ => destruct x as [[ms es]|] eqn:EB end;
    [|apply h_fail; exact P0S].
  assert (Kk : lf_wf base ms es = true /\ from_old c f0 cmd base ms es).
  { rewrite Hcmd in Hok. cbn [cmd_ok] in Hok.
    destruct (negb (beq cf []) || beq base []).
    - destruct (default_layerinfo c f0 cf) as [lf|] eqn:ED; [|discriminate]. injection EB as <- <-.
      destruct (default_layerinfo_read _ _ _ _ ED) as (content & ->).
      destruct (read_layerfile_wf content) as (_ & W2 & W3).
      split; [apply lf_wf_parts; auto|].
      unfold add_basis_ok in Hok. rewrite ED in Hok. apply existsb_exists in Hok as (o & Ho & Hq).
      apply andb_true_iff in Hq as [Hq1 Hq2].
      apply (list_beq_true nmount_beq nmount_beq_true) in Hq1, Hq2.
      exists o. repeat split; auto. right. rewrite Hcmd. reflexivity.
    - destruct base as [|b0 br]; [discriminate|].
      destruct (lm_get (ld_map ld) (b0 :: br)) as [pl|] eqn:EP; [|discriminate]. injection EB as <- <-.
      destruct (ML_get _ _ _ _ _ HML EP) as [(_ & Hwf & o & Ho & Hm & Hx & _) _].
      apply lf_wf_parts in Hwf as (_ & W2 & W3). split; [apply lf_wf_parts; auto|].
      exists o. repeat split; auto. right. rewrite Hcmd. reflexivity. }
  destruct Kk as [Kwf Kold].
  eapply h_pre; [|intros g ->; exact HK0].
  eapply h_bind; [apply (K_mkdir_layer c f0 cmd e Hcfg Hreal [name] name Hpn)|]. intros u1.
  eapply h_bind.
  { eapply h_post; [apply (s_write_layerfile [name] _ name (one_plain name Hpn)); auto; now left|intros u g; apply KJ]. }
  intros u2. cbn beta.
  apply (p_bind J Sf); [apply p_fs_mkdir|]. intros u3.
  apply (p_bind J Sf); [|intros u4; apply p_renormalize].
  destruct base.
  - apply (p_bind J Sf); [apply p_fs_mkdir|]. intros u5.
    apply p_fs_write_text. intros y. apply Phi_join2; [apply plainb_spec; reflexivity| |];
      intros H; apply (f_equal (@length _)) in H; vm_compute in H; discriminate.
  - apply (p_bind J Sf); [apply p_fs_mkdir|]. intros u5. apply p_fs_mkdir.
Qed.

(* removing export links keeps K and only removes entries *)
Lemma p_links_K NS l : pres (fun g => K NS g /\ incl g f0) Sf (remove_export_links e c l).
Proof.
  assert (HE : forall g, K NS g /\ incl g f0 -> Sf g) by (intros g [Hg _]; now apply (KS NS)).
  unfold remove_export_links. apply (p_mapM _ Sf). intros lt _.
  apply (p_bind _ Sf); [apply (p_get_fs _ Sf)|]. intros g0.
  destruct (negb (exists_ g0 (fst lt))); [apply (p_ret _ Sf)|].
  destruct (negb (is_symlink g0 (fst lt))); [apply (p_fail _ Sf HE)|].
  apply h_fs_remove; [exact Hreal|exact HE|]. intros g g' [Hg Hi] Hr.
  unfold remove_all in Hr. destruct (beq (fst lt) root); [discriminate|]. injection Hr as <-.
  split; [now apply K_filter|]. intros x Hx. apply filter_In in Hx as [Hx _]. now apply Hi.
Qed.

Lemma s_rename ld old new : ML c f0 ld -> cmd = CRename old new -> new <> LCF ->
  (forall k, In k (ld_map ld) -> plain (l_name k) /\ In (l_name k) (children f0 (c_layers c))) ->
  J f0 -> NoDup (map fst f0) ->
  (forall nn en, In nn (children f0 (c_layers c)) \/ nn = new -> In en f0 -> under (TC c nn) (fst en) = false) ->
  (forall en, In en f0 -> at_or_under (layer_path c new) (fst en) = false) ->
  hoare (fun g => g = f0) (rename_layer e c ld old new) (fun _ => J) Sf.
Proof.
  intros HML Hcmd Hnew HN HJ0 ND0 HU R4. unfold rename_layer.
  assert (P0S : forall g, g = f0 -> Sf g) by (intros g ->; now apply (J_Sf c f0 cmd false)).
  apply h_guard_then; [exact P0S|]. intros G1. apply andb_true_iff in G1 as [Gold Gnew].
  apply test_name_need in Gold as [Hne_o Hleg_o]. pose proof (test_name_free_none _ _ Gnew) as Hnone.
  apply test_name_free in Gnew as [Hne_n Hleg_n].
  pose proof (legal_plain _ Hleg_o Hne_o) as Hpo. pose proof (legal_plain _ Hleg_n Hne_n) as Hpn.
  destruct (lm_get (ld_map ld) old) as [l|] eqn:El; [|apply h_panic; exact P0S].
  destruct (ML_get _ _ _ _ _ HML El) as [(Hp & Hwf & o & Ho & Hm & Hx & Hb) Hn].
  destruct (lm_get_in _ _ _ El) as [Hlin _].
  assert (Hon : old <> new) by (intros ->; congruence).
  set (KS0 := children_in_order e (ld_map ld) old).
  set (NS := new :: old :: map l_name KS0).
  assert (HNS : forall n, In n NS -> plain n).
  { intros n [<-|[<-|Hn0]]; auto. apply in_map_iff in Hn0 as (k & <- & Hk). apply kids_sound in Hk as [Hk _]. now apply HN. }
  assert (HK0 : K NS f0).
  { split; [exact HJ0|split; [exact ND0|]]. intros n Hn0 en Hen. apply HU; [|exact Hen].
    destruct Hn0 as [<-|[<-|Hn0]]; [now right|left|left].
    - rewrite <- Hn. now apply HN.
    - apply in_map_iff in Hn0 as (k & <- & Hk). apply kids_sound in Hk as [Hk _]. now apply HN. }
  eapply h_pre with (P := fun g => K NS g /\ incl g f0); [|intros g ->; split; [exact HK0|apply incl_refl]].
  assert (HE : forall g, K NS g /\ incl g f0 -> Sf g) by (intros g [Hg _]; now apply (KS NS)).
  apply h_guard_then; [exact HE|]. intros _. apply h_guard_then; [exact HE|]. intros _. cbv zeta.
  apply h_guard_then; [exact HE|]. intros _.
  eapply h_bind; [apply p_links_K|]. intros u1.
  (* the directory *)
  apply h_bind with (Q := fun _ => K NS).
  { rewrite Hp, Hn, (LP_eq c Hcfg old Hpo), (LP_eq c Hcfg new Hpn).
    apply h_fs_rename; [exact Hreal|exact HE|]. intros g g' [Hg Hi] Hr.
    apply (K_dir_rename c f0 cmd e Hcfg Hreal NS HNS old new g g'); auto.
    - right. now left.
    - intros en Hen. rewrite <- (LP_eq c Hcfg new Hpn). apply R4. now apply Hi.
    - intros y. rewrite <- (LP_eq c Hcfg new Hpn). unfold layer_path. apply Phi_join2; auto. now apply legal_not_special. }
  intros u2.
  (* the children *)
  apply h_bind with (Q := fun _ => K NS).
  { apply (h_mapM (K NS) Sf). intros k Hk. pose proof Hk as Hk0. apply kids_sound in Hk as [Hk _].
    unfold ML in HML. rewrite Forall_forall in HML. destruct (HML k Hk) as (Hkp & Hkwf & ok & Hok & Hkm & Hkx & _).
    destruct (HN k Hk) as [Hkn _].
    apply (s_write_layerfile NS _ (l_name k) HNS); cbn [set_base l_path l_base l_mounts l_exports]; auto.
    - right. right. now apply in_map.
    - apply lf_wf_parts in Hkwf as (_ & H2 & H3). apply lf_wf_parts. repeat split; auto.
      apply base_ok_tok. now apply legal_tok.
    - exists ok. repeat split; auto. right. rewrite Hcmd. reflexivity. }
  intros u3.
  apply h_bind with (Q := fun _ => K NS).
  { unfold renormalize. destruct (normalize_order _); [apply h_ret; auto|apply h_diverge; apply (KS NS)]. }
  intros ld'. eapply h_bind; [|intros u5; apply h_ret; intros g Hg; exact Hg].
  eapply h_post; [apply (s_write_layerfile NS _ new HNS)|intros u g; apply KJ]; cbn [set_name_path l_path l_base l_mounts l_exports]; auto.
  - now left.
  - exists o. repeat split; auto.
Qed.
End Stale3.

(* ------------------------------------------------------------------ hypotheses (decidable) *)
(* regular files have proper names (no trailing slash); stale layerconfig.tmp files are allowed *)
Definition files_ok2 (f : fsT) : bool :=
  forallb (fun en => match snd en with File _ => ends_ok (fst en) | _ => true end) f.
(* nothing strictly below <layers>/<n>/layerconfig.tmp *)
Definition ubelow (c : cfgT) (f : fsT) (n : bytes) : bool :=
  forallb (fun en => negb (under (TC c n) (fst en))) f.
Definition tmp_ok (c : cfgT) (f : fsT) (cmd : command) : bool :=
  match cmd with
  | CRebase a _ => ubelow c f a
  | CAdd n _ _ => ubelow c f n
  | CRename a b0 =>
    forallb (ubelow c f) (children f (c_layers c)) && ubelow c f b0
    && forallb (fun en => negb (at_or_under (layer_path c b0) (fst en))) f      (* the new name is free on disk *)
  | _ => true
  end.
Definition wf_world2 (c : cfgT) (f : fsT) (cmd : command) : bool :=
  wf_cfg c && files_ok2 f && lc_regular c f && cmd_ok c f cmd && nodup_paths (map fst f) && tmp_ok c f cmd.

Lemma files_ok2_J c f cmd : files_ok2 f = true -> C11P.J c f cmd false f.
Proof.
  intros H q y Hq. unfold files_ok2 in H. rewrite forallb_forall in H. specialize (H _ Hq). cbn [fst snd] in H.
  split; [exact H|]. split; [discriminate|]. intros Hb. apply good_old. eapply in_olds; eauto.
Qed.
Lemma ubelow_spec c f n : ubelow c f n = true -> forall en, In en f -> under (TC c n) (fst en) = false.
Proof. intros H en Hen. unfold ubelow in H. rewrite forallb_forall in H. apply H in Hen. now apply negb_true_iff in Hen. Qed.

Section Stale4.
Variable c : cfgT.
Variable f0 : fsT.
Variable cmd : command.
Variable e : env.
Hypothesis Hcfg : wf_cfg c = true.
Hypothesis Hreal : e_pretend e = false.
Local Notation J := (C11P.J c f0 cmd false).
Local Notation Sf := (C11P.Sf c f0 cmd).

Lemma run_command_S um : J f0 -> NoDup (map fst f0) -> Forall (Lok c f0) (read_layer_files c f0) ->
  cmd_ok c f0 cmd = true -> tmp_ok c f0 cmd = true ->
  hoare (fun g => g = f0) (run_command e c um cmd) (fun _ => J) Sf.
Proof.
  intros HJ0 ND0 HL Hok Htmp.
  cut (forall cm, cm = cmd -> hoare (fun g => g = f0) (run_command e c um cm) (fun _ => J) Sf); [intros H; now apply H|].
  intros cm Ecm.
  assert (P0J : forall g, g = f0 -> J g) by (intros g ->; exact HJ0).
  assert (P0S : forall g, g = f0 -> Sf g) by (intros g ->; now apply (J_Sf c f0 cmd false)).
  assert (Gen : forall (body : ldefs -> M ldefs),
    (forall ld, ML c f0 ld ->
       (forall k, In k (ld_map ld) -> plain (l_name k) /\ In (l_name k) (children f0 (c_layers c))) ->
       hoare (fun g => g = f0) (body ld) (fun _ => J) Sf) ->
    hoare (fun g => g = f0)
      (f <- get_fs ;; guard (base_set_up c f) ;;; ld <- get_layers c um ;; ld' <- body ld ;; ret (Some ld'))
      (fun _ => J) Sf).
  { intros body Hbody. apply h_get_fs_eq. apply h_guard_then; [exact P0S|]. intros _.
    eapply h_bind; [eapply h_conseq; [apply (get_layers_spec c um f0)| | |]|].
    - auto.
    - intros ld g Hq. exact Hq.
    - exact P0S.
    - intros ld. cbn beta. apply h_pure. intros Est.
      assert (HML : ML c f0 ld) by (eapply Forall_Lok_static; eauto).
      assert (HN : forall k, In k (ld_map ld) -> plain (l_name k) /\ In (l_name k) (children f0 (c_layers c))).
      { intros k Hk. destruct (in_map_static _ _ k Est Hk) as (x & Hx & Hst). rewrite (static_name _ _ Hst).
        destruct (loaded_named c f0 x Hx) as (Hch & Hlg & _). split; [|exact Hch].
        apply legal_plain; [exact Hlg|]. apply children_in in Hch as (q & nd & _ & _ & _ & <-). apply pathbase_nonempty. }
      eapply h_bind; [apply (Hbody ld HML HN)|]. intros ld'. apply (p_ret J Sf). }
  assert (PJ : forall A (m : M A), pres J Sf m -> hoare (fun g => g = f0) m (fun _ => J) Sf).
  { intros A m Hm. eapply h_pre; [exact Hm|exact P0J]. }
  destruct cm; unfold run_command.
  - apply PJ. apply (p_bind J Sf); [apply p_init_base|intros u; apply (p_ret J Sf)].
  - apply Gen. intros ld HML HN. apply s_add; auto.
    split; [exact HJ0|split; [exact ND0|]]. rewrite <- Ecm in Htmp. cbn [tmp_ok] in Htmp.
    intros n [<-|[]] en Hen. now apply (ubelow_spec c f0 name).
  - apply Gen. intros ld HML HN. apply PJ. now apply p_remove.
  - apply Gen. intros ld HML HN. rewrite <- Ecm in Htmp, Hok. cbn [tmp_ok cmd_ok] in Htmp, Hok.
    apply andb_true_iff in Htmp as [Htmp H4]. apply andb_true_iff in Htmp as [H5a H5b].
    apply s_rename; auto.
    + apply negb_true_iff in Hok. now apply beq_false in Hok.
    + intros nn en [Hnn| ->] Hen.
      * rewrite forallb_forall in H5a. now apply (ubelow_spec c f0 nn (H5a nn Hnn)).
      * now apply (ubelow_spec c f0 b0).
    + intros en Hen. rewrite forallb_forall in H4. apply H4 in Hen. now apply negb_true_iff in Hen.
  - apply Gen. intros ld HML HN. eapply h_pre; [apply s_rebase; auto|].
    intros g ->. split; [exact HJ0|split; [exact ND0|]]. rewrite <- Ecm in Htmp. cbn [tmp_ok] in Htmp.
    intros n [<-|[]] en Hen. now apply (ubelow_spec c f0 a).
  - apply Gen. intros ld HML HN. apply PJ. apply p_makedirs.
  - apply Gen. intros ld HML HN. apply PJ. apply p_mount_layer.
  - apply Gen. intros ld HML HN. apply PJ. apply p_unmount.
  - apply Gen. intros ld HML HN. apply PJ. apply p_shake.
  - apply Gen. intros ld HML HN. apply PJ. apply p_chroot.
  - apply Gen. intros ld HML HN. apply PJ. apply (p_ret J Sf).
  - apply PJ. apply (p_bind J Sf); [now apply p_apply_op|intros u; apply (p_ret J Sf)].
  - apply PJ. apply (p_bind J Sf); [now apply p_apply_op|intros u; apply (p_ret J Sf)].
  - apply PJ. rewrite <- Ecm in Hok. cbn [cmd_ok] in Hok.
    apply andb_true_iff in Hok as [Hok H3]. apply andb_true_iff in Hok as [H1 H2].
    apply negb_true_iff in H2, H3. apply beq_false in H2, H3.
    assert (Hphi : forall y, C11P.Phi c f0 cmd false p y) by (intros y; repeat split; auto; contradiction).
    apply h_bind with (Q := fun f g => J g /\ f = g); [apply h_get_fs|]. intros f.
    destruct (open_trunc f p) as [f'|] eqn:Eo; [|apply h_fail; intros g [Hg _]; now apply (J_Sf c f0 cmd false)].
    apply h_bind with (Q := fun _ => J); [|intros u; apply (p_ret J Sf)].
    apply h_put_fs. intros g [Hg ->]. apply FJ_append; [exact Hphi|].
    eapply FJ_open_trunc; [exact Eo|apply Hphi|exact Hg].
Qed.
End Stale4.

(* every layerconfig below the layers directory is a complete version after any prefix of any
   command's operations, also from a world with stale temporaries left by earlier crashes *)
Theorem crash_atomic_stale c w e cmd um : e_pretend e = false -> wf_world2 c (wo_fs w) cmd = true ->
  conj1 c w (view_of_model c w e cmd um) = true.
Proof.
  intros Hp Hwf. unfold wf_world2 in Hwf. set (f0 := wo_fs w) in *.
  apply andb_true_iff in Hwf as [Hwf H6]. apply andb_true_iff in Hwf as [Hwf H5]. apply andb_true_iff in Hwf as [Hwf H4].
  apply andb_true_iff in Hwf as [Hwf H3]. apply andb_true_iff in Hwf as [H1 H2].
  pose proof (files_ok2_J c f0 cmd H2) as HJ0. pose proof (loaded_Lok c f0 H3) as HL.
  apply nodup_paths_NoDup in H5.
  pose proof (run_command_S c f0 cmd e H1 Hp um HJ0 H5 HL H4 H6 (MkSt (world_of w) 0 []) eq_refl) as HR.
  destruct (view_of_model_fields c w e cmd um) as (E1 & _ & E3 & _).
  unfold conj1. rewrite E1, E3. unfold run. fold f0.
  assert (HS : C11P.Sf c f0 cmd (fs_of (snd (run_command e c um cmd (MkSt (world_of w) 0 []))))).
  { destruct (run_command e c um cmd (MkSt (world_of w) 0 [])) as [[a| | | |] st]; cbn [snd]; try exact HR.
    now apply (J_Sf c f0 cmd false). }
  apply forallb_forall. intros [q n] Hq. cbn [fst snd]. destruct n as [|x|t]; try reflexivity.
  destruct (beq (pathbase q) D_LayerconfigFile) eqn:Eb; [|reflexivity]. apply beq_true in Eb.
  destruct (under (c_layers c) q); [|reflexivity]. cbn [andb].
  apply (HS q x Hq Eb).
Qed.

Theorem crash_atomic_stale_crash c w e cmd um k : e_fault e = CrashAt k -> e_pretend e = false ->
  wf_world2 c (wo_fs w) cmd = true -> conj1 c w (view_of_model c w e cmd um) = true.
Proof. intros _. apply crash_atomic_stale. Qed.
