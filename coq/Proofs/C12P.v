From LC Require Import Lib.Bytes Lib.Lex Lib.Fields Lib.PathM Gen.Consts Model.MountInfo
  Proofs.MountInfoP Cases.C12.
Import C12.

Lemma mount_beq_refl m : mount_beq m m = true.
Proof. unfold mount_beq. rewrite !beq_refl. now destruct (m_shadow m). Qed.
Lemma list_beq_refl {A} (eq : A -> A -> bool) : (forall x, eq x x = true) -> forall l, list_beq eq l l = true.
Proof. intros H. induction l; cbn; auto. now rewrite H, IHl. Qed.
Lemma device_beq_refl d : device_beq d d = true.
Proof.
  unfold device_beq. rewrite !beq_refl. cbn. rewrite (list_beq_refl beq beq_refl). cbn.
  apply list_beq_refl. intros x. now rewrite !beq_refl.
Qed.
Lemma probe_res_beq_refl p : probe_res_beq p p = true.
Proof. destruct p; cbn; auto. rewrite !list_beq_refl; auto using mount_beq_refl, device_beq_refl. Qed.
Lemma src_res_beq_refl s : src_res_beq s s = true.
Proof. destruct s; cbn; auto. apply list_beq_refl, beq_refl. Qed.
Lemma qres_beq_refl q : qres_beq q q = true.
Proof.
  unfold qres_beq. destruct q as [[m|] subs [s|]]; cbn;
  rewrite ?mount_beq_refl, ?src_res_beq_refl, ?list_beq_refl; auto using beq_refl.
Qed.
Lemma obs_beq_refl o : obs_beq o o = true.
Proof.
  unfold obs_beq. rewrite probe_res_beq_refl. cbn.
  rewrite !list_beq_refl; auto using beq_refl, qres_beq_refl.
Qed.

Theorem C12_holds_proof : forall c, wf c = true -> kf c = 0%N -> spec c (model c) = true.
Proof.
  intros c Hwf _. unfold wf, spec, model in *. destruct (c_tbl c) as [T|]; [|reflexivity].
  apply andb_true_iff in Hwf as [HT HL].
  apply (list_beq_true beq beq_true) in HL. rewrite <- HL.
  rewrite probe_render by assumption. apply obs_beq_refl.
Qed.
