(* C12 -- constants of Gen/Consts.v (rewritten from the source of /repo by tools/genconsts on
   every run) compared with literals.  Used by: the shadowing file-system types of Model/MountInfo.v (C12.spec / C12.model: shadowed submounts).
   A changed constant makes this file fail to build; the check then reports
   "proof obligation no longer checks" for Properties/C12.v (C12_constants_pinned) instead of
   letting model, predicate and code move together unnoticed. *)
From LC Require Import Lib.Bytes Gen.Consts.
Local Open Scope string_scope.

Lemma c12_constants_pinned :
  (* frozen from the reviewed tree; property C12 text: "mounts below a /dev or /sys style tree are recognised as shadowed submounts" *)
  D_ShadowingFsTypes = bs "devtmpfs sysfs".
Proof. repeat split; vm_compute; reflexivity. Qed.
