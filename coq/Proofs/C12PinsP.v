(* C12 -- constants of Gen/Consts.v (rewritten from the source of /repo by tools/genconsts on
   every run) compared with literals, one lemma per constant so that the failing line names it.
   Used by: the shadowing file-system types of Model/MountInfo.v (C12.spec / C12.model: shadowed submounts).
   A changed constant makes this file fail to build; the check then reports
   "proof obligation no longer checks" for Properties/C12.v (C12_constants_pinned) instead of
   letting model, predicate and code move together unnoticed.  The literals are repeated, with
   their sources, in the statement of C12_constants_pinned. *)
From LC Require Import Lib.Bytes Gen.Consts.
Local Open Scope string_scope.

Lemma pin_D_ShadowingFsTypes :
  D_ShadowingFsTypes = bs "devtmpfs sysfs".
Proof. (vm_compute; reflexivity) || fail "D_ShadowingFsTypes of the source tree differs from the reviewed literal (C12_constants_pinned)". Qed.

Definition c12_constants_pinned := pin_D_ShadowingFsTypes.
