(* C13: the two range operators against PMS, and the per-case theorem for every operator. *)
From LC Require Import Lib.Bytes Lib.Lex Lib.Fields Model.PMS Model.AtomMatch Cases.C13 Proofs.C13Lex Proofs.AtomMatchP Proofs.C13P Proofs.C13Range.
From Coq Require Import ZifyBool ZifyNat ZifyN.
Import PMS C13.
Open Scope N_scope.

(* ================= the comparison string of a range atom ================= *)
Definition enc_range (a : ver) : bytes :=
  encnums (v_nums a) ++ enc_letter (v_letter a) ++
  match v_sufs a with
  | [] => []
  | _ => sp :: flat_map enc_suf (v_sufs a) ++ match v_rev a with None => [] | Some _ => sp :: enc_rev (v_rev a) end
  end.

Theorem comp_ver_range v : wf_ver v = true ->
  comp_ver Relop_range (basever_of v) (suffix_of v) (revision_of v) = enc_range v.
Proof.
  intros Hwf. unfold comp_ver. change (Relop_range =? Relop_range) with true. cbn [negb andb].
  rewrite base_comparable_enc by assumption. unfold enc_range.
  destruct (v_sufs v) as [|s r] eqn:E.
  - assert (E2 : suffix_of v = []) by (apply suffix_of_nil; exact E). rewrite E2. cbn [andb].
    destruct (revision_of v); cbv beta iota; rewrite app_nil_r; reflexivity.
  - destruct (suffix_of v) eqn:E2; [apply suffix_of_nil in E2; congruence|]. rewrite <- E2.
    assert (Es : suffix_norm (suffix_of v) = flat_map enc_suf (s :: r)).
    { unfold suffix_of. rewrite E. apply (suffix_norm_enc (s :: r)). rewrite <- E. now apply wf_ver_sufs. }
    rewrite Es. destruct (v_rev v) as [d|] eqn:Er.
    + rewrite <- Er. rewrite <- revision_enc by (auto; congruence). unfold revision_of. rewrite Er.
      cbn [andb]. now rewrite <- !app_assoc.
    + unfold revision_of. rewrite Er. cbn [andb]. now rewrite app_nil_r, <- !app_assoc.
Qed.

(* ================= MakeNextVer on each shape ================= *)
Lemma encnums_jn ns : encnums ns = jn (map pad_seg ns).
Proof. unfold encnums. destruct ns as [|x xs]; [reflexivity|]. cbn [map]. apply join_dotted. Qed.

Lemma blk_pad d : digs d -> blk (pad_seg d).
Proof. intros H. split; [apply pad_nonempty|apply pad_dig, H]. Qed.

Lemma next_s1 x xs : Forall digs (x :: xs) ->
  make_next_ver (encnums (x :: xs))
  = Val (match nx (map pad_seg (x :: xs)) with Some us => jn us | None => max_alpha end).
Proof.
  intros HF. rewrite make_next_ver_nv, encnums_jn. apply nv_blocks; [discriminate|].
  apply Forall_forall. intros b Hb. apply in_map_iff in Hb as (d & <- & Hd). apply blk_pad.
  rewrite Forall_forall in HF. auto.
Qed.

Lemma next_s2 N l : is_lower l = true ->
  make_next_ver (N ++ [sp; l]) = Val (N ++ (if bn l <? 122 then [sp; nb (bn l + 1)] else [nb 33])).
Proof.
  intros Hl. pose proof (lower_bounds l Hl) as B. rewrite make_next_ver_nv, rev_app_distr. cbn [rev app].
  rewrite nv_unfold. cbn [trim_dots].
  assert (E1 : (bn l =? 46) || (bn l =? 45) = false) by lia. rewrite E1.
  assert (E2 : AtomMatch.is_digit l = false) by (unfold AtomMatch.is_digit; lia). rewrite E2.
  cbn [strip_z]. assert (E3 : (bn l =? 45) || (bn l =? 95) || (bn l =? 46) = false) by lia. rewrite E3.
  destruct (bn l <? 122) eqn:E4.
  - assert (E5 : (bn l =? 90) = false) by lia. rewrite E5. cbn [rev]. rewrite rev_involutive, <- app_assoc. reflexivity.
  - change (AtomMatch.is_digit sp) with false. cbn. now rewrite rev_involutive.
Qed.

Lemma kletter_facts k : (bn (kletter k) =? 46) || (bn (kletter k) =? 45) = false
  /\ AtomMatch.is_digit (kletter k) = false
  /\ (bn (kletter k) =? 45) || (bn (kletter k) =? 95) || (bn (kletter k) =? 46) = false
  /\ (bn (kletter k) <? 122) = true /\ (bn (kletter k) =? 90) = false.
Proof. destruct k; repeat split; reflexivity. Qed.

Lemma nv_kletter k rB : nv (kletter k :: usc :: sp :: rB) = Val (rev rB ++ [sp; usc; next_k k]).
Proof.
  destruct (kletter_facts k) as (F1 & F2 & F3 & F4 & F5).
  rewrite nv_unfold. cbn [trim_dots]. rewrite F1, F2. cbn [strip_z]. rewrite F3, F4, F5.
  cbn [rev]. now rewrite <- !app_assoc.
Qed.

Lemma rev_nonempty {A} (l : list A) : l <> [] -> rev l <> [].
Proof. intros H E. apply (f_equal (@rev _)) in E. rewrite rev_involutive in E. now cbn in E. Qed.

Lemma next_s3 B k p : digs p ->
  make_next_ver (B ++ sp :: usc :: kletter k :: pad_seg p)
  = Val (B ++ sp :: match incr (pad_seg p) with
                     | Some D' => usc :: kletter k :: D'
                     | None => [usc; next_k k] end).
Proof.
  intros Hp. destruct (blk_pad p Hp) as [Pn Pd]. rewrite make_next_ver_nv.
  replace (rev (B ++ sp :: usc :: kletter k :: pad_seg p)) with (rev (pad_seg p) ++ kletter k :: usc :: sp :: rev B)
    by (rewrite rev_app_distr; cbn [rev]; now rewrite <- !app_assoc).
  rewrite nv_block; auto using rev_dig, rev_nonempty; [|destruct k; reflexivity].
  unfold incr. destruct (incr_rev (rev (pad_seg p))) as [r'|].
  - cbn [rev]. rewrite rev_involutive, <- !app_assoc. reflexivity.
  - now rewrite nv_kletter, rev_involutive.
Qed.

Lemma next_s3b B k : make_next_ver (B ++ [sp; usc; kletter k]) = Val (B ++ [sp; usc; next_k k]).
Proof.
  rewrite make_next_ver_nv, rev_app_distr. cbn [rev app]. now rewrite nv_kletter, rev_involutive.
Qed.

Lemma next_s4 B r : digs r ->
  make_next_ver (B ++ sp :: nb 114 :: pad_seg r)
  = Val (B ++ match incr (pad_seg r) with Some D' => sp :: nb 114 :: D' | None => [sp; nb 115] end).
Proof.
  intros Hr. destruct (blk_pad r Hr) as [Pn Pd]. rewrite make_next_ver_nv.
  replace (rev (B ++ sp :: nb 114 :: pad_seg r)) with (rev (pad_seg r) ++ nb 114 :: sp :: rev B)
    by (rewrite rev_app_distr; cbn [rev]; now rewrite <- !app_assoc).
  rewrite nv_block; auto using rev_dig, rev_nonempty; [|reflexivity].
  unfold incr. destruct (incr_rev (rev (pad_seg r))) as [r'|].
  - cbn [rev]. rewrite rev_involutive, <- !app_assoc. reflexivity.
  - rewrite nv_unfold. cbn [trim_dots]. change ((bn (nb 114) =? 46) || (bn (nb 114) =? 45)) with false.
    change (AtomMatch.is_digit (nb 114)) with false. cbn [strip_z].
    change ((bn (nb 114) =? 45) || (bn (nb 114) =? 95) || (bn (nb 114) =? 46)) with false.
    change (bn (nb 114) <? 122) with true. change (bn (nb 114) =? 90) with false.
    cbn [rev]. rewrite rev_involutive, <- !app_assoc. reflexivity.
Qed.
(* ================= PMS-side facts ================= *)
Lemma vercmp_thn a v : vercmp a v =
  nums_cmp (v_nums a) (v_nums v) ;; letter_cmp (v_letter a) (v_letter v) ;;
  sufs_cmp (v_sufs a) (v_sufs v) ;; rev_cmp (v_rev a) (v_rev v).
Proof.
  unfold vercmp. destruct (nums_cmp _ _); auto. destruct (letter_cmp _ _); auto. destruct (sufs_cmp _ _); auto.
Qed.

Lemma rest_cmp_prefix a : forall v, rest_cmp a v = Eq -> rest_prefix a v = true.
Proof.
  induction a as [|x a IH]; intros [|y v]; cbn; try discriminate; auto.
  destruct (comp_cmp x y); try discriminate. cbn. apply IH.
Qed.
Lemma nums_cmp_prefix a v : nums_cmp a v = Eq -> nums_prefix a v = true.
Proof.
  destruct a as [|x a], v as [|y v]; cbn; try discriminate; auto.
  destruct (ncmp x y); try discriminate. cbn. apply rest_cmp_prefix.
Qed.
Lemma sufs_cmp_prefix a : forall v, sufs_cmp a v = Eq -> sufs_prefix a v = true.
Proof.
  induction a as [|x a IH]; intros [|y v]; cbn; auto.
  - destruct (is_p (fst x)); discriminate.
  - destruct (suf_cmp x y); try discriminate. cbn. apply IH.
Qed.

Lemma norev_id a : v_rev a = None -> norev a = a.
Proof. destruct a as [n l s r]. cbn. now intros ->. Qed.

(* "~" implies the prefix relation *)
Lemma tilde_glob a v : v_rev a = None -> ver_match OpTilde a v = true -> glob_match a v = true.
Proof.
  intros Hr. cbn [ver_match]. rewrite vercmp_thn. cbn [norev v_nums v_letter v_sufs v_rev].
  unfold glob_match. rewrite Hr.
  destruct (nums_cmp (v_nums a) (v_nums v)) eqn:En; try discriminate. cbn [thn].
  destruct (letter_cmp (v_letter a) (v_letter v)) eqn:El; try discriminate. cbn [thn].
  destruct (sufs_cmp (v_sufs a) (v_sufs v)) eqn:Es; try discriminate. intros _.
  destruct (v_sufs a) as [|s r] eqn:Ea.
  - destruct (v_letter a); cbn [is_eq andb]; auto. now apply nums_cmp_prefix.
  - cbn [is_eq andb]. now apply sufs_cmp_prefix.
Qed.

(* ================= connecting the block level with PMS ================= *)
Lemma prefixB_rest xs : forall ys, Forall digs xs -> Forall digs ys -> aligned_ok xs ys = true ->
  existsb lead0 xs = false -> existsb lead0 ys = false ->
  prefixB (map pad_seg xs) (map pad_seg ys) = rest_prefix xs ys.
Proof.
  induction xs as [|x xs IH]; intros [|y ys] Fx Fy Al Lx Ly; cbn [map prefixB rest_prefix]; auto.
  inversion Fx; inversion Fy; subst. cbn [aligned_ok existsb] in *.
  apply andb_true_iff in Al as [A1 A2]. apply orb_false_iff in Lx as [Lx1 Lx2]. apply orb_false_iff in Ly as [Ly1 Ly2].
  rewrite ncmp_pad by (auto using padlen_len). rewrite comp_cmp_ncmp by assumption. now rewrite IH.
Qed.
Lemma prefixB_nums x xs y ys : Forall digs (x :: xs) -> Forall digs (y :: ys) ->
  aligned_ok (x :: xs) (y :: ys) = true -> existsb lead0 xs = false -> existsb lead0 ys = false ->
  prefixB (map pad_seg (x :: xs)) (map pad_seg (y :: ys)) = nums_prefix (x :: xs) (y :: ys).
Proof.
  intros Fx Fy Al Lx Ly. inversion Fx; inversion Fy; subst. cbn [aligned_ok] in Al. apply andb_true_iff in Al as [A1 A2].
  cbn [map prefixB nums_prefix]. rewrite ncmp_pad by (auto using padlen_len). now rewrite prefixB_rest.
Qed.

Lemma aligned_blocks_pad xs : forall ys, aligned_ok xs ys = true -> aligned_blocks (map pad_seg xs) (map pad_seg ys).
Proof.
  induction xs as [|x xs IH]; intros [|y ys] H; cbn; auto. cbn in H. apply andb_true_iff in H as [H1 H2].
  split; [now apply padlen_len|now apply IH].
Qed.

Lemma nx_nonempty bl us : nx bl = Some us -> us <> [].
Proof.
  destruct bl as [|x xs]; cbn; [discriminate|]. destruct (nx xs); [intros H; injection H as <-; discriminate|].
  destruct (incr x); [intros H; injection H as <-; discriminate|discriminate].
Qed.
Lemma dotted_jn bl : bl <> [] -> dotted bl = dotc :: jn bl.
Proof. destruct bl; [congruence|reflexivity]. Qed.

(* shape 1: number part only *)
Lemma range_s1 x xs y ys T' : Forall digs (x :: xs) -> Forall digs (y :: ys) ->
  aligned_ok (x :: xs) (y :: ys) = true -> existsb lead0 xs = false -> existsb lead0 ys = false ->
  ver_compare Relop_range (encnums (x :: xs)) (encnums (y :: ys) ++ sp :: T')
  = Val (nums_prefix (x :: xs) (y :: ys)).
Proof.
  intros Fx Fy Al Lx Ly. rewrite (range_compare _ _ _ (next_s1 x xs Fx)).
  f_equal. rewrite <- prefixB_nums by assumption.
  assert (Bx : Forall blk (map pad_seg (x :: xs))).
  { apply Forall_forall. intros b Hb. apply in_map_iff in Hb as (d & <- & Hd). apply blk_pad. rewrite Forall_forall in Fx. auto. }
  assert (By : Forall blk (map pad_seg (y :: ys))).
  { apply Forall_forall. intros b Hb. apply in_map_iff in Hb as (d & <- & Hd). apply blk_pad. rewrite Forall_forall in Fy. auto. }
  pose proof (interval_blocks T' _ _ Bx By (aligned_blocks_pad _ _ Al)) as IB.
  unfold inr. rewrite !encnums_jn.
  assert (E : forall bl, bl <> [] -> lcmp (jn bl) (jn (map pad_seg (y :: ys)) ++ sp :: T')
                          = lcmp (dotted bl) (dotted (map pad_seg (y :: ys)) ++ sp :: T')).
  { intros bl Hb. rewrite (dotted_jn bl Hb), (dotted_jn (map pad_seg (y :: ys))) by discriminate.
    cbn [app]. now rewrite lcmp_cons. }
  rewrite E by discriminate.
  destruct (nx (map pad_seg (x :: xs))) as [us|] eqn:En.
  - rewrite E by (eapply nx_nonempty; eauto). exact IB.
  - rewrite <- IB. assert (G : lcmp max_alpha (jn (map pad_seg (y :: ys)) ++ sp :: T') = Gt).
    { cbn [map jn]. inversion Fy; subst. destruct (pad_head_dig y) as (c & r & Ec & Hc); auto.
      rewrite Ec. cbn [app]. unfold max_alpha. cbn [repeat lcmp].
      assert (Hc2 : bn c <= 57).
      { pose proof (pad_dig y) as PD. rewrite Ec in PD. cbn [forallb] in PD.
        assert (D : is_dig c && forallb is_dig r = true) by (apply PD; apply H1). unfold is_dig in D. lia. }
      change (bn c_z) with 122. assert (G : (122 ?= bn c) = Gt) by (apply N.compare_gt_iff; lia). now rewrite G. }
    rewrite G. cbn [is_gt]. now rewrite andb_true_r.
Qed.
Lemma low_sp_cons l T : low (l ++ sp :: T) -> True. Proof. auto. Qed.
Lemma low_sp T : low (sp :: T). Proof. cbn. change (bn sp) with 32. lia. Qed.
Lemma low_bang : low [nb 33]. Proof. cbn. change (bn (nb 33)) with 33. lia. Qed.

(* shape 2: number part and letter *)
Lemma range_s2 x xs l y ys lv Sv : Forall digs (x :: xs) -> Forall digs (y :: ys) ->
  aligned_ok (x :: xs) (y :: ys) = true -> existsb lead0 xs = false -> existsb lead0 ys = false ->
  is_lower l = true -> (match lv with Some c => is_lower c = true | None => True end) ->
  (exists r, Sv = usc :: r) ->
  ver_compare Relop_range (encnums (x :: xs) ++ [sp; l]) (encnums (y :: ys) ++ enc_letter lv ++ sp :: Sv)
  = Val (is_eq (nums_cmp (x :: xs) (y :: ys)) && is_eq (letter_cmp (Some l) lv)).
Proof.
  intros Fx Fy Al Lx Ly Hl Hlv HS. rewrite (range_compare _ _ _ (next_s2 _ l Hl)). f_equal.
  rewrite peel_nums; auto using low_letter, low_sp.
  - now rewrite l_g2.
  - destruct (bn l <? 122); [apply low_sp|apply low_bang].
Qed.

Lemma us_cons_ex a r : exists r', usc :: a :: r = usc :: r'. Proof. now eexists. Qed.

(* shape 3: ... and a numbered suffix *)
Lemma range_s3 x xs la k p y ys lv sv Rv : Forall digs (x :: xs) -> Forall digs (y :: ys) ->
  aligned_ok (x :: xs) (y :: ys) = true -> existsb lead0 xs = false -> existsb lead0 ys = false ->
  (match la with Some c => is_lower c = true | None => True end) ->
  (match lv with Some c => is_lower c = true | None => True end) ->
  digs p -> sufs_ok sv -> (length sv <= 1)%nat -> sufs_aligned_ok [(k, Some p)] sv = true ->
  ver_compare Relop_range (encnums (x :: xs) ++ enc_letter la ++ sp :: usc :: kletter k :: pad_seg p)
    (encnums (y :: ys) ++ enc_letter lv ++ sp :: enc_sufs sv ++ sp :: Rv)
  = Val (is_eq (nums_cmp (x :: xs) (y :: ys)) && (is_eq (letter_cmp la lv) &&
         match sv with
         | (k2, Some q) :: _ => is_eq (kcmp k k2) && is_eq (lcmp (pad_seg p) (pad_seg q))
         | _ => false end)).
Proof.
  intros Fx Fy Al Lx Ly Hla Hlv Hp Hs Hl Als.
  pose proof (next_s3 (encnums (x :: xs) ++ enc_letter la) k p Hp) as NX. rewrite <- !app_assoc in NX.
  rewrite (range_compare _ _ _ NX). f_equal.
  rewrite peel_nums; auto using low_letter. f_equal.
  rewrite peel_letter; auto using us_enc_sufs.
  - f_equal. now apply s_g3_num.
  - apply us_cons_ex.
  - destruct (incr (pad_seg p)); apply us_cons_ex.
Qed.

(* shape 3b: ... and a bare suffix ("~" only) *)
Lemma range_s3b x xs la k y ys lv sv Rv : Forall digs (x :: xs) -> Forall digs (y :: ys) ->
  aligned_ok (x :: xs) (y :: ys) = true -> existsb lead0 xs = false -> existsb lead0 ys = false ->
  (match la with Some c => is_lower c = true | None => True end) ->
  (match lv with Some c => is_lower c = true | None => True end) ->
  (length sv <= 1)%nat ->
  ver_compare Relop_range (encnums (x :: xs) ++ enc_letter la ++ [sp; usc; kletter k])
    (encnums (y :: ys) ++ enc_letter lv ++ sp :: enc_sufs sv ++ sp :: Rv)
  = Val (is_eq (nums_cmp (x :: xs) (y :: ys)) && (is_eq (letter_cmp la lv) &&
         match sv with (k2, _) :: _ => is_eq (kcmp k k2) | [] => false end)).
Proof.
  intros Fx Fy Al Lx Ly Hla Hlv Hl.
  pose proof (next_s3b (encnums (x :: xs) ++ enc_letter la) k) as NX. rewrite <- !app_assoc in NX.
  rewrite (range_compare _ _ _ NX). f_equal.
  rewrite peel_nums; auto using low_letter. f_equal.
  rewrite peel_letter; auto using us_enc_sufs, us_cons_ex.
  f_equal. now apply s_g3_bare.
Qed.

(* shape 4: ... suffix and revision *)
Lemma range_s4 x xs la k p r y ys lv sv rv : Forall digs (x :: xs) -> Forall digs (y :: ys) ->
  aligned_ok (x :: xs) (y :: ys) = true -> existsb lead0 xs = false -> existsb lead0 ys = false ->
  (match la with Some c => is_lower c = true | None => True end) ->
  (match lv with Some c => is_lower c = true | None => True end) ->
  digs p -> digs r -> sufs_ok sv -> numok rv -> (length sv <= 1)%nat ->
  sufs_aligned_ok [(k, Some p)] sv = true -> Nat.eqb (optlen (Some r)) (optlen rv) = true ->
  ver_compare Relop_range
    (encnums (x :: xs) ++ enc_letter la ++ sp :: usc :: kletter k :: pad_seg p ++ sp :: nb 114 :: pad_seg r)
    (encnums (y :: ys) ++ enc_letter lv ++ sp :: enc_sufs sv ++ sp :: enc_rev rv)
  = Val (is_eq (nums_cmp (x :: xs) (y :: ys)) && (is_eq (letter_cmp la lv) &&
         match sv with
         | (k2, Some q) :: _ =>
             is_eq (kcmp k k2) && (is_eq (lcmp (pad_seg p) (pad_seg q))
             && is_eq (lcmp (pad_seg r) (pad_seg (match rv with Some d => d | None => [zero] end))))
         | _ => false end)).
Proof.
  intros Fx Fy Al Lx Ly Hla Hlv Hp Hr Hs Hrv Hl Als Alr.
  pose proof (next_s4 (encnums (x :: xs) ++ enc_letter la ++ sp :: usc :: kletter k :: pad_seg p) r Hr) as NX.
  rewrite <- !app_assoc in NX. cbn [app] in NX. rewrite <- ?app_assoc in NX.
  rewrite (range_compare _ _ _ NX). f_equal.
  rewrite peel_nums; auto using low_letter. f_equal.
  replace (enc_letter la ++ sp :: usc :: kletter k :: pad_seg p ++
           match incr (pad_seg r) with Some D' => sp :: nb 114 :: D' | None => [sp; nb 115] end)
    with (enc_letter la ++ sp :: match incr (pad_seg r) with
       | Some D' => usc :: kletter k :: pad_seg p ++ sp :: nb 114 :: D'
       | None => usc :: kletter k :: pad_seg p ++ [sp; nb 115] end) by (destruct (incr (pad_seg r)); reflexivity).
  rewrite peel_letter; auto using us_enc_sufs, us_cons_ex.
  - f_equal. now apply s_g4.
  - destruct (incr (pad_seg r)); apply us_cons_ex.
Qed.
(* ================= the two range operators against PMS ================= *)
Lemma suf_elem k p k2 n2 : digs p -> numok n2 ->
  sufs_aligned_ok [(k, Some p)] [(k2, n2)] = true -> kf_sufzero [(k, Some p)] [(k2, n2)] = false ->
  is_eq (suf_cmp (k, Some p) (k2, n2))
  = match n2 with Some q => is_eq (kcmp k k2) && is_eq (lcmp (pad_seg p) (pad_seg q)) | None => false end.
Proof.
  intros Hp Hn Al Z. unfold suf_cmp, kcmp. cbn [fst snd optval]. rewrite thn_alt, is_eq_thn, kletter_cmp.
  cbn [sufs_aligned_ok snd] in Al. rewrite andb_true_r in Al.
  cbn [kf_sufzero fst snd] in Z. rewrite orb_false_r in Z.
  destruct n2 as [q|]; cbn [optval].
  - rewrite ncmp_pad by (auto using padlen_len). reflexivity.
  - destruct (krank k ?= krank k2); cbn [is_eq andb] in *; auto. rewrite cmp_eq_iff. exact Z.
Qed.

Record domfacts (a v : ver) : Prop := {
  df_al : aligned_ok (v_nums a) (v_nums v) = true;
  df_sal : sufs_aligned_ok (v_sufs a) (v_sufs v) = true;
  df_ral : Nat.eqb (optlen (v_rev a)) (optlen (v_rev v)) = true;
  df_la : existsb lead0 (tl (v_nums a)) = false;
  df_lv : existsb lead0 (tl (v_nums v)) = false;
  df_ma : (length (v_sufs a) <= 1)%nat;
  df_mv : (length (v_sufs v) <= 1)%nat;
  df_z : kf_sufzero (v_sufs a) (v_sufs v) = false }.

Lemma dom2_facts a v : in_domain a v = true -> domfacts a v.
Proof.
  intros D. unfold in_domain in D. repeat (apply andb_true_iff in D as [D ?]).
  repeat match goal with H : negb _ = true |- _ => apply negb_true_iff in H end.
  unfold kf_long in D. apply negb_false_iff in D. repeat (apply andb_true_iff in D as [D ?]).
  unfold kf_lead0, kf_multisuf in *.
  constructor; auto; apply Nat.ltb_ge; assumption.
Qed.

Lemma enc_split v : exists T', enc_letter (v_letter v) ++ sp :: enc_sufs (v_sufs v) ++ sp :: enc_rev (v_rev v) = sp :: T'.
Proof. destruct (v_letter v); cbn; eexists; reflexivity. Qed.

Theorem glob_range a v : wf_ver a = true -> wf_ver v = true -> in_domain a v = true ->
  last_suffix_numbered a = true ->
  match v_rev a, v_sufs a with Some _, [] => true | _, _ => false end = false ->
  ver_compare Relop_range (enc_range a) (enc v) = Val (glob_match a v).
Proof.
  intros Wa Wv D LS K8. destruct (dom2_facts a v D) as [Al Sal Ral La Lv Ma Mv Z].
  destruct (wf_ver_nums a Wa) as (x & xs & Ea & Fa). destruct (wf_ver_nums v Wv) as (y & ys & Ev & Fv).
  pose proof (wf_ver_letter a Wa) as Hla. pose proof (wf_ver_letter v Wv) as Hlv.
  pose proof (wf_ver_sufs a Wa) as Osa. pose proof (wf_ver_sufs v Wv) as Osv.
  pose proof (wf_ver_rev a Wa) as Ora. pose proof (wf_ver_rev v Wv) as Orv.
  unfold enc_range, enc, glob_match. rewrite Ea, Ev in *. cbn [tl] in La, Lv.
  destruct (v_sufs a) as [|[k n] [|? ?]] eqn:Esa; cbn [length] in Ma; [| |exfalso; clear - Ma; lia].
  - (* no suffix *)
    destruct (v_rev a) as [r|]; [discriminate|]. rewrite app_nil_r.
    destruct (v_letter a) as [l|] eqn:Ela.
    + cbn [enc_letter]. rewrite range_s2; auto using us_enc_sufs.
    + cbn [enc_letter]. rewrite app_nil_r. destruct (enc_split v) as [T' ->]. now apply range_s1.
  - (* one suffix *)
    unfold last_suffix_numbered in LS. rewrite Esa in LS. cbn [rev app] in LS.
    destruct n as [p|]; [|discriminate]. inversion Osa as [|? ? Hp _]; subst. cbn [snd] in Hp.
    cbn [flat_map]. rewrite app_nil_r. unfold enc_suf at 1. cbn [fst snd].
    destruct (v_rev a) as [r|] eqn:Era.
    + (* suffix and revision *)
      unfold enc_rev at 1. cbn [app]. rewrite range_s4; auto. f_equal.
      rewrite vercmp_thn, !is_eq_thn, Ea, Ev, Esa, Era. f_equal. f_equal.
      destruct (v_sufs v) as [|[k2 n2] [|? ?]] eqn:Esv; cbn [length] in Mv; [| |exfalso; clear - Mv; lia].
      * cbn [sufs_cmp fst]. now destruct (is_p k).
      * inversion Osv as [|? ? Hn2 _]; subst. cbn [snd] in Hn2.
        cbn [sufs_cmp]. rewrite thn_alt, thn_eq_r. rewrite suf_elem by assumption.
        destruct n2 as [q|]; [|reflexivity]. rewrite <- andb_assoc. do 2 f_equal.
        unfold rev_cmp. cbn [optval].
        assert (Z0 : digs [zero]) by (split; [discriminate|reflexivity]).
        rewrite ncmp_pad; auto.
        -- unfold ncmp. now destruct (v_rev v).
        -- destruct (v_rev v); auto.
        -- apply Nat.eqb_eq in Ral. rewrite !pad_len. destruct (v_rev v); exact Ral.
    + (* suffix only *)
      rewrite app_nil_r. rewrite range_s3; auto. f_equal. rewrite <- andb_assoc. do 2 f_equal.
      destruct (v_sufs v) as [|[k2 n2] [|? ?]] eqn:Esv; cbn [length] in Mv; [reflexivity| |exfalso; clear - Mv; lia].
      inversion Osv as [|? ? Hn2 _]; subst. cbn [snd] in Hn2.
      cbn [sufs_prefix]. rewrite andb_true_r. symmetry. now apply suf_elem.
Qed.
Theorem tilde_range a v : wf_ver a = true -> wf_ver v = true -> in_domain a v = true -> v_rev a = None ->
  exists R, ver_compare Relop_range (enc_range a) (enc v) = Val R
    /\ (R = true -> continues a v = true) /\ (ver_match OpTilde a v = true -> R = true).
Proof.
  intros Wa Wv D Hr. destruct (last_suffix_numbered a) eqn:LS.
  - exists (glob_match a v). split; [|split].
    + apply glob_range; auto. now rewrite Hr.
    + intros G. unfold continues. rewrite (norev_id a Hr), G. reflexivity.
    + now apply tilde_glob.
  - destruct (dom2_facts a v D) as [Al Sal Ral La Lv Ma Mv Z].
    destruct (wf_ver_nums a Wa) as (x & xs & Ea & Fa). destruct (wf_ver_nums v Wv) as (y & ys & Ev & Fv).
    pose proof (wf_ver_letter a Wa) as Hla. pose proof (wf_ver_letter v Wv) as Hlv.
    unfold last_suffix_numbered in LS.
    destruct (v_sufs a) as [|[k n] [|? ?]] eqn:Esa; cbn [length] in Ma; [discriminate| |exfalso; clear - Ma; lia].
    cbn [rev app] in LS. destruct n as [p|]; [discriminate|].
    eexists. split; [|split].
    + unfold enc_range, enc. rewrite Ea, Ev, Esa, Hr in *. cbn [tl] in La, Lv. cbn [flat_map]. unfold enc_suf. cbn [fst snd app].
      apply range_s3b; auto.
    + intros R. apply andb_true_iff in R as [R1 R]. apply andb_true_iff in R as [R2 R3].
      unfold continues. rewrite (norev_id a Hr). unfold glob_match. rewrite Hr, Esa. rewrite Ea, Ev in *.
      destruct (v_sufs v) as [|[k2 n2] [|? ?]] eqn:Esv; cbn [length] in Mv; [discriminate| |exfalso; clear - Mv; lia].
      unfold kcmp in R3. rewrite kletter_cmp in R3. rewrite R1, R2. cbn [andb].
      destruct n2 as [q|]; [now rewrite R3, orb_true_r|].
      cbn [sufs_prefix]. unfold suf_cmp. cbn [fst snd optval]. destruct (krank k ?= krank k2); try discriminate. reflexivity.
    + cbn [ver_match]. rewrite vercmp_thn. cbn [norev v_nums v_letter v_sufs v_rev]. rewrite Ea, Ev, Esa.
      destruct (nums_cmp (x :: xs) (y :: ys)); try discriminate. cbn [thn].
      destruct (letter_cmp (v_letter a) (v_letter v)); try discriminate. cbn [thn is_eq andb].
      destruct (v_sufs v) as [|[k2 n2] sv'].
      * cbn [sufs_cmp fst]. destruct (is_p k); discriminate.
      * cbn [sufs_cmp]. unfold suf_cmp, kcmp. cbn [fst snd]. rewrite kletter_cmp.
        destruct (krank k ?= krank k2); try discriminate. reflexivity.
Qed.

(* the version part of the decision, for every operator *)
Lemma ver_part c d op v : wf c = true -> a_ver (c_atom c) = Some (op, v) ->
  kf_ver op v (p_ver (c_pkg c)) = 0 ->
  (forall t, ver_compare (pa_verrelop (parse_atom (c_atom c))) (pa_compver (parse_atom (c_atom c))) t = Val (da_ver d t)) ->
  da_ver d (pa_compver (parse_pkg (c_pkg c))) = ver_match op v (p_ver (c_pkg c)).
Proof.
  intros W E K Hd. destruct (kf_ver_zero _ _ _ K) as (D & K5 & K8).
  destruct (plain_op op) eqn:P; [now apply (ver_part_plain c d op v)|].
  destruct (wf_parts c W) as (Wa & Wp & Wv). pose proof (wf_atom_ver _ _ _ Wa E) as Wav.
  specialize (Hd (pa_compver (parse_pkg (c_pkg c)))).
  destruct (parse_atom_ver (c_atom c)) as (E1 & E2 & _). rewrite E in E1, E2. rewrite E1, E2 in Hd.
  destruct (parse_pkg_fields _ Wp) as [E3 _]. rewrite E3 in *.
  assert (ER : eff_relop op = Relop_range) by (destruct op; try discriminate; reflexivity).
  rewrite ER, comp_ver_range in Hd by assumption.
  unfold wf_atom in Wa. rewrite E in Wa. do 2 (apply andb_true_iff in Wa as [Wa _]). apply andb_true_iff in Wa as [_ Wop].
  destruct op; try discriminate.
  - (* ~ *)
    assert (Hr : v_rev v = None) by (destruct (v_rev v); [discriminate|reflexivity]).
    destruct (tilde_range v (p_ver (c_pkg c)) Wav Wv D Hr) as (R & ER' & R1 & R2).
    rewrite ER' in Hd. injection Hd as <-.
    destruct R.
    + specialize (R1 eq_refl). rewrite R1 in K5. cbn [andb] in K5. apply negb_false_iff in K5. now rewrite K5.
    + destruct (ver_match OpTilde v (p_ver (c_pkg c))); auto.
  - (* =...* *)
    rewrite glob_range in Hd; auto. now injection Hd.
Qed.

Theorem holds c : wf c = true -> kf c = 0 -> spec c (model c) = true.
Proof.
  intros W K. destruct (kf_zero c K) as (Kv & K6 & K9 & K7).
  destruct (make_da_val (parse_atom (c_atom c))) as (d & Ed & _ & _ & _ & Eu & Hv & Hs).
  destruct (parse_atom_ver (c_atom c)) as (E1 & E2 & E3).
  apply (spec_of_parts c d Ed); [now rewrite Eu| |now apply use_part].
  unfold version_and_slot_match, spec_vs. rewrite (slot_part c d W K6 K9 Hs). rewrite andb_comm. f_equal.
  destruct (a_ver (c_atom c)) as [[op v]|] eqn:Ev.
  - now apply (ver_part c d op v).
  - specialize (Hv (pa_compver (parse_pkg (c_pkg c)))). rewrite E2 in Hv. cbn in Hv. now injection Hv.
Qed.
