(* Three-valued lexicographic comparison of byte strings, its relation to Go's [<] (Lex.ltb),
   and the numeric reading of equal-length digit strings (DESIGN Appendix E, Pad.v). *)
From LC Require Import Lib.Bytes Lib.Lex.
From Coq Require Import ZifyBool ZifyNat ZifyN.
Open Scope N_scope.

Fixpoint lcmp (a b : bytes) : comparison :=
  match a, b with
  | [], [] => Eq
  | [], _ :: _ => Lt
  | _ :: _, [] => Gt
  | x :: a', y :: b' => match (bn x ?= bn y) with Eq => lcmp a' b' | c => c end
  end.

(* sequencing of comparisons *)
Definition thn (c d : comparison) : comparison := match c with Eq => d | _ => c end.
Notation "c ;; d" := (thn c d) (at level 61, right associativity).

Lemma thn_assoc a b c : (a ;; b) ;; c = a ;; (b ;; c).
Proof. now destruct a. Qed.
Lemma thn_eq_r c : c ;; Eq = c.
Proof. now destruct c. Qed.

Lemma lcmp_refl a : lcmp a a = Eq.
Proof. induction a as [|x a IH]; cbn; auto. now rewrite N.compare_refl. Qed.

Lemma lcmp_eq a : forall b, lcmp a b = Eq -> a = b.
Proof.
  induction a as [|x a IH]; intros [|y b]; cbn; try congruence.
  destruct (bn x ?= bn y) eqn:E; try congruence.
  apply N.compare_eq in E. apply bn_inj in E. subst. intros H. f_equal. now apply IH.
Qed.

Lemma lcmp_eq_iff a b : lcmp a b = Eq <-> a = b.
Proof. split; [apply lcmp_eq|intros ->; apply lcmp_refl]. Qed.

Lemma lcmp_opp a : forall b, lcmp b a = CompOpp (lcmp a b).
Proof.
  induction a as [|x a IH]; intros [|y b]; cbn; auto.
  rewrite (N.compare_antisym (bn x) (bn y)). destruct (bn x ?= bn y); cbn; auto.
Qed.

Lemma ltb_lcmp a : forall b, ltb a b = match lcmp a b with Lt => true | _ => false end.
Proof.
  induction a as [|x a IH]; intros [|y b]; cbn; auto.
  destruct (bn x ?= bn y) eqn:E.
  - apply N.compare_eq in E. rewrite E, N.ltb_irrefl. apply IH.
  - rewrite N.compare_lt_iff in E. apply N.ltb_lt in E. now rewrite E.
  - rewrite N.compare_gt_iff in E. assert (H : (bn x <? bn y) = false) by (apply N.ltb_ge; lia).
    rewrite H. apply N.ltb_lt in E. now rewrite E.
Qed.

Lemma beq_lcmp a b : beq a b = match lcmp a b with Eq => true | _ => false end.
Proof.
  destruct (lcmp a b) eqn:E.
  - apply lcmp_eq in E. subst. apply beq_refl.
  - apply beq_false. intros ->. now rewrite lcmp_refl in E.
  - apply beq_false. intros ->. now rewrite lcmp_refl in E.
Qed.

Lemma lcmp_cons x a b : lcmp (x :: a) (x :: b) = lcmp a b.
Proof. cbn. now rewrite N.compare_refl. Qed.

Lemma lcmp_app_same p : forall a b, lcmp (p ++ a) (p ++ b) = lcmp a b.
Proof. induction p as [|x p IH]; intros a b; cbn [app]; auto. now rewrite lcmp_cons. Qed.

(* equal-length heads decide first *)
Lemma lcmp_app x : forall y r1 r2, length x = length y ->
  lcmp (x ++ r1) (y ++ r2) = lcmp x y ;; lcmp r1 r2.
Proof.
  induction x as [|c x IH]; intros [|d y] r1 r2 HL; try discriminate; cbn [app].
  - reflexivity.
  - cbn [lcmp]. destruct (bn c ?= bn d); cbn [thn]; try reflexivity. apply IH. now injection HL.
Qed.

Lemma lcmp_app_nil_r x y r : length x = length y -> lcmp (x ++ r) y = lcmp x y ;; lcmp r [].
Proof. intros H. rewrite <- (app_nil_r y) at 1. now apply lcmp_app. Qed.
Lemma lcmp_app_nil_l x y r : length x = length y -> lcmp x (y ++ r) = lcmp x y ;; lcmp [] r.
Proof. intros H. rewrite <- (app_nil_r x) at 1. now apply lcmp_app. Qed.

(* ---- digit strings ---- *)
Definition is_dig (c : ascii) : bool := (48 <=? bn c) && (bn c <=? 57).
Definition dval (c : ascii) : N := bn c - 48.
Fixpoint nval_acc (acc : N) (ds : bytes) : N :=
  match ds with [] => acc | d :: r => nval_acc (acc * 10 + dval d) r end.
Definition nval (ds : bytes) : N := nval_acc 0 ds.

Lemma nval_acc_lin ds : forall acc, nval_acc acc ds = acc * 10 ^ N.of_nat (length ds) + nval_acc 0 ds.
Proof.
  induction ds as [|d r IH]; intros acc; cbn [nval_acc length].
  - cbn. lia.
  - rewrite IH. rewrite (IH (0 * 10 + dval d)). rewrite Nat2N.inj_succ, N.pow_succ_r'. lia.
Qed.

Lemma nval_bound ds : forallb is_dig ds = true -> nval ds < 10 ^ N.of_nat (length ds).
Proof.
  unfold nval. induction ds as [|d r IH]; cbn [forallb nval_acc length]; intros H.
  - cbn. lia.
  - apply andb_true_iff in H as [Hd Hr]. rewrite nval_acc_lin. specialize (IH Hr).
    unfold is_dig in Hd. apply andb_true_iff in Hd as [H1 H2]. apply N.leb_le in H1, H2.
    rewrite Nat2N.inj_succ, N.pow_succ_r'. unfold dval. nia.
Qed.

Lemma nval_cons d r : nval (d :: r) = dval d * 10 ^ N.of_nat (length r) + nval r.
Proof. unfold nval. cbn [nval_acc]. rewrite nval_acc_lin. lia. Qed.

Lemma nval_app a : forall b, nval (a ++ b) = nval a * 10 ^ N.of_nat (length b) + nval b.
Proof.
  induction a as [|d a IH]; intros b.
  - cbn [app]. change (nval []) with 0. lia.
  - cbn [app]. rewrite !nval_cons, IH, app_length, Nat2N.inj_add, N.pow_add_r. lia.
Qed.

(* equal-length digit strings compare as numbers *)
Theorem lex_numeric a : forall b, length a = length b ->
  forallb is_dig a = true -> forallb is_dig b = true -> lcmp a b = (nval a ?= nval b).
Proof.
  induction a as [|x a IH]; intros [|y b] HL Ha Hb; try discriminate; [reflexivity|].
  cbn [length] in HL. injection HL as HL. cbn [forallb] in Ha, Hb.
  apply andb_true_iff in Ha as [Hx Ha]. apply andb_true_iff in Hb as [Hy Hb].
  cbn [lcmp]. rewrite !nval_cons. rewrite <- HL.
  pose proof (nval_bound a Ha) as Ba. pose proof (nval_bound b Hb) as Bb. rewrite <- HL in Bb.
  set (P := 10 ^ N.of_nat (length a)) in *.
  unfold is_dig in Hx, Hy. apply andb_true_iff in Hx as [X1 X2]. apply andb_true_iff in Hy as [Y1 Y2].
  apply N.leb_le in X1, X2, Y1, Y2. unfold dval.
  destruct (bn x ?= bn y) eqn:E.
  - apply N.compare_eq in E. rewrite E. rewrite (IH b HL Ha Hb).
    destruct (nval a ?= nval b) eqn:E2; symmetry.
    + apply N.compare_eq in E2. apply N.compare_eq_iff. now rewrite E2.
    + rewrite N.compare_lt_iff in E2. apply N.compare_lt_iff. now apply N.add_lt_mono_l.
    + rewrite N.compare_gt_iff in E2. apply N.compare_gt_iff. now apply N.add_lt_mono_l.
  - rewrite N.compare_lt_iff in E. symmetry. apply N.compare_lt_iff.
    assert (H : (bn x - 48 + 1) * P <= (bn y - 48) * P) by (apply N.mul_le_mono_r; lia).
    rewrite N.mul_add_distr_r, N.mul_1_l in H. lia.
  - rewrite N.compare_gt_iff in E. symmetry. apply N.compare_gt_iff.
    assert (H : (bn y - 48 + 1) * P <= (bn x - 48) * P) by (apply N.mul_le_mono_r; lia).
    rewrite N.mul_add_distr_r, N.mul_1_l in H. lia.
Qed.

Lemma nval_repeat0 n s : nval (repeat (nb 48) n ++ s) = nval s.
Proof.
  induction n as [|n IH]; cbn [repeat app]; [reflexivity|].
  rewrite nval_cons. unfold dval. rewrite bn_nb by lia. rewrite IH. lia.
Qed.

Lemma forallb_repeat {A} (f : A -> bool) x n : f x = true -> forallb f (repeat x n) = true.
Proof. intros H. induction n; cbn; auto. now rewrite H. Qed.
