From LC Require Import Lib.Bytes Lib.Lex Lib.Fields Model.PMS Model.AtomMatch Cases.C13 Proofs.C13Lex Proofs.AtomMatchP.
From Coq Require Import ZifyBool ZifyNat ZifyN.
Import PMS C13.
Open Scope N_scope.

(* ================= MakeNextVer terminates ================= *)
Lemma trim_dots_len r : (length (trim_dots r) <= length r)%nat.
Proof. induction r as [|c r IH]; cbn; auto. destruct (_ || _); cbn; lia. Qed.
Lemma span_digits_len r : forall run rest, span_digits r = (run, rest) -> (length run + length rest = length r)%nat.
Proof.
  induction r as [|c r IH]; cbn; intros run rest H.
  - injection H as <- <-. reflexivity.
  - destruct (AtomMatch.is_digit c).
    + destruct (span_digits r) as [d rs]. injection H as <- <-. cbn. specialize (IH d rs eq_refl). lia.
    + injection H as <- <-. reflexivity.
Qed.
Lemma strip_z_cont r : forall n rest, strip_z r n = ICont rest -> (length rest < length r)%nat.
Proof.
  induction r as [|c r IH]; cbn; intros n rest H; [discriminate|].
  destruct (_ || _).
  - injection H as <-. lia.
  - destruct (bn c <? 122); [discriminate|].
    destruct r as [|d r']; [discriminate|]. destruct (AtomMatch.is_digit d); [discriminate|].
    apply IH in H. cbn in *. lia.
Qed.
Lemma next_rev_total f : forall r, (length r < f)%nat -> exists u, next_rev f r = Val u.
Proof.
  induction f as [|f IH]; intros r H; [lia|]. cbn [next_rev].
  pose proof (trim_dots_len r) as T. destruct (trim_dots r) as [|c r1] eqn:E; [now eexists|].
  destruct (AtomMatch.is_digit c) eqn:Dc.
  - destruct (span_digits (c :: r1)) as [run rest] eqn:Es.
    pose proof (span_digits_len _ _ _ Es) as L. cbn [span_digits] in Es. rewrite Dc in Es.
    destruct (span_digits r1) as [d rs]. injection Es as <- <-.
    destruct (incr_rev (c :: d)); [now eexists|]. apply IH. cbn in *. lia.
  - destruct (strip_z (c :: r1) 0) eqn:Ez; [now eexists|].
    apply strip_z_cont in Ez. apply IH. cbn in *. lia.
Qed.
Theorem next_ver_total s : exists u, make_next_ver s = Val u.
Proof. unfold make_next_ver. apply next_rev_total. rewrite rev_length. lia. Qed.

Lemma ver_compare_total relop cmp t : exists b, ver_compare relop cmp t = Val b.
Proof.
  unfold ver_compare. repeat (destruct (_ =? _); [now eexists|]). destruct (relop =? Relop_range); [|now eexists].
  destruct (next_ver_total cmp) as [u ->]. now eexists.
Qed.

Lemma make_da_val p : exists d, make_da p = Val d /\
  da_compver d = pa_compver p /\ da_slot d = pa_slot p /\ da_subslot d = pa_subslot p /\
  da_usedeps d = pa_usedeps p /\
  (forall t, ver_compare (pa_verrelop p) (pa_compver p) t = Val (da_ver d t)) /\
  (forall t, da_slotc d t = if pa_anyslot p then true else
             match ver_compare (pa_slotrelop p) (pa_slot p) t with Val b => b | Diverge => false end).
Proof.
  unfold make_da.
  destruct (ver_compare_total (pa_verrelop p) (pa_compver p) []) as [b ->].
  assert (E : exists b2, (if pa_anyslot p then Val true else ver_compare (pa_slotrelop p) (pa_slot p) []) = Val b2).
  { destruct (pa_anyslot p); [now eexists|apply ver_compare_total]. }
  destruct E as [b2 ->]. eexists. split; [reflexivity|]. cbn. repeat split; auto.
  intros t. destruct (ver_compare_total (pa_verrelop p) (pa_compver p) t) as [bt ->]. reflexivity.
Qed.
(* ================= operators < <= = >= > ================= *)
Lemma aligned_ok_sym a : forall b, aligned_ok a b = aligned_ok b a.
Proof. induction a as [|x a IH]; intros [|y b]; cbn; auto. now rewrite Nat.eqb_sym, IH. Qed.
Lemma sufs_aligned_ok_sym a : forall b, sufs_aligned_ok a b = sufs_aligned_ok b a.
Proof.
  induction a as [|x a IH]; intros [|y b]; cbn; auto. rewrite IH. f_equal.
  destruct (snd x), (snd y); auto. apply Nat.eqb_sym.
Qed.
Lemma kf_sufzero_sym a : forall b, kf_sufzero a b = kf_sufzero b a.
Proof.
  induction a as [|x a IH]; intros [|y b]; cbn; auto. rewrite IH. f_equal.
  rewrite (N.compare_antisym (krank (fst x)) (krank (fst y))).
  destruct (krank (fst x) ?= krank (fst y)); cbn; auto. destruct (snd x), (snd y); auto.
Qed.
Lemma dom2_sym a v : in_domain a v = in_domain v a.
Proof.
  unfold in_domain, kf_long. rewrite (aligned_ok_sym (v_nums a)), (sufs_aligned_ok_sym (v_sufs a)),
    (Nat.eqb_sym (optlen (v_rev a))), (kf_sufzero_sym (v_sufs a)).
  destruct (negb _), (kf_lead0 a), (kf_lead0 v), (kf_multisuf a), (kf_multisuf v); reflexivity.
Qed.

Definition plain_op (op : vop) : bool := match op with OpTilde | OpGlob => false | _ => true end.

Theorem operators op a v : wf_ver a = true -> wf_ver v = true -> in_domain a v = true -> plain_op op = true ->
  ver_compare (relop_of op) (enc a) (enc v) = Val (ver_match op a v).
Proof.
  intros Wa Wv D P. assert (O : lcmp (enc v) (enc a) = vercmp v a) by (apply version_order; auto; now rewrite dom2_sym).
  pose proof (lcmp_opp (enc v) (enc a)) as O2. rewrite O in O2.
  unfold ver_compare, AtomMatch.leb. rewrite !ltb_lcmp, beq_lcmp, O, O2.
  destruct op; try discriminate; cbn; destruct (vercmp v a); reflexivity.
Qed.

(* ================= slots ================= *)
Lemma wf_slotname_nonempty s : wf_slotname s = true -> s <> [].
Proof. destruct s; [discriminate|discriminate]. Qed.

(* ================= USE dependencies ================= *)
(* the finite table: 6 forms x 3 defaults x candidate {on, off, absent} x parent {on, off};
   the two refuted rows are those of [!flag?] with the candidate's flag (effectively) on *)
Definition all_forms := [UEnabled; UDisabled; USame; UOpposite; UIf; UIfNot].
Definition all_defs := [DNone; DPlus; DMinus].
Definition all_cand := [Some true; Some false; None].
Definition eff_on (d : udefault) (st : option bool) : bool :=
  match st with Some s => s | None => match d with DPlus => true | _ => false end end.
Definition table_row (f : uform) (d : udefault) (st : option bool) (ctx : bool) : bool :=
  match f with UIfNot => eff_on d st | _ => false end
  || match dep_eval (form_type f) (def_code d) st ctx, use_dep_ok f d st ctx with
     | Some x, Some y => Bool.eqb x y | None, None => true | _, _ => false end.

Theorem use_dep_table :
  forallb (fun f => forallb (fun d => forallb (fun st => forallb (fun ctx => table_row f d st ctx)
     [true; false]) all_cand) all_defs) all_forms = true.
Proof. vm_compute. reflexivity. Qed.

Lemma dep_table f d st ctx : match f with UIfNot => eff_on d st | _ => false end = false ->
  dep_eval (form_type f) (def_code d) st ctx = use_dep_ok f d st ctx.
Proof. destruct f, d, st as [[|]|], ctx; cbn; intros H; try reflexivity; discriminate. Qed.

Theorem use_dep_refuted : exists f d st ctx,
  match dep_eval (form_type f) (def_code d) st ctx, use_dep_ok f d st ctx with
  | Some x, Some y => x <> y | _, _ => False end.
Proof. exists UIfNot, DNone, (Some true), true. cbn. discriminate. Qed.
(* ---- the IUSE / USE lines ---- *)
Lemma flagchar_nosp c :
  (is_alnum c || (bn c =? 95) || (bn c =? 43) || (bn c =? 64) || (bn c =? 45)) = true ->
  is_sp c = false /\ bn c <> 32.
Proof. unfold is_alnum, is_sp. lia. Qed.
Lemma alnum_facts c : is_alnum c = true -> is_sp c = false /\ bn c <> 32 /\ (bn c =? 43) || (bn c =? 45) = false.
Proof. unfold is_alnum, is_sp. lia. Qed.

Lemma wf_flagname_facts s : wf_flagname s = true ->
  s <> [] /\ ~ In sp s /\ forallb (fun c => negb (is_sp c)) s = true /\ strip_pm s = s.
Proof.
  destruct s as [|c r]; [discriminate|]. cbn [wf_flagname]. intros H. apply andb_true_iff in H as [Hc Hr].
  destruct (alnum_facts c Hc) as (C1 & C2 & C3).
  rewrite forallb_forall in Hr. repeat split.
  - discriminate.
  - intros [E|Hin].
    + apply C2. rewrite E. reflexivity.
    + destruct (flagchar_nosp _ (Hr _ Hin)) as (_ & N). apply N. reflexivity.
  - cbn [forallb]. rewrite C1. cbn [negb andb]. apply forallb_forall. intros x Hx.
    destruct (flagchar_nosp _ (Hr _ Hx)) as (S & _). now rewrite S.
  - cbn [strip_pm]. now rewrite C3.
Qed.

Lemma join_unwords c l : join c l = unwords [c] l.
Proof.
  induction l as [|x l IH]; [reflexivity|]. destruct l as [|y l]; [reflexivity|].
  change (join c (x :: y :: l)) with (x ++ c :: join c (y :: l)).
  change (unwords [c] (x :: y :: l)) with (x ++ [c] ++ unwords [c] (y :: l)). now rewrite IH.
Qed.

Lemma iuse_tok_facts t : (fst t <=? 2) && wf_flagname (snd t) = true ->
  iuse_tok t <> [] /\ nosep sp (iuse_tok t) /\ strip_pm (iuse_tok t) = snd t.
Proof.
  destruct t as [p n]. cbn [fst snd]. intros H. apply andb_true_iff in H as [Hp Hn].
  destruct (wf_flagname_facts n Hn) as (N1 & N2 & _ & N4). unfold iuse_tok, nosep. cbn [fst snd].
  destruct (p =? 1) eqn:E1; [|destruct (p =? 2) eqn:E2]; cbn [app].
  - split; [discriminate|split; [|reflexivity]]. intros [E|Hin]; [discriminate|auto].
  - split; [discriminate|split; [|reflexivity]]. intros [E|Hin]; [discriminate|auto].
  - split; [|split]; auto.
Qed.

Definition dedup_step (f : flagset) (n : bytes) : flagset := if has_flag n f then f else f ++ [(n, false)].

Lemma iuse_fold toks : forallb (fun t => (fst t <=? 2) && wf_flagname (snd t)) toks = true ->
  forall f, fold_left (fun f tok =>
    match tok with
    | [] => f
    | _ => let n := strip_pm tok in if has_flag n f then f else f ++ [(n, false)]
    end) (map iuse_tok toks) f = fold_left dedup_step (map snd toks) f.
Proof.
  induction toks as [|t l IH]; intros H f; [reflexivity|]. cbn [forallb] in H. apply andb_true_iff in H as [Ht H].
  destruct (iuse_tok_facts t Ht) as (T1 & _ & T3). cbn [map fold_left].
  destruct (iuse_tok t) as [|c0 r0] eqn:E; [congruence|]. cbv zeta. rewrite T3. apply IH, H.
Qed.

Lemma new_from_iuse_toks toks : forallb (fun t => (fst t <=? 2) && wf_flagname (snd t)) toks = true ->
  new_from_iuse (join sp (map iuse_tok toks)) = fold_left dedup_step (map snd toks) [].
Proof.
  intros H. unfold new_from_iuse. destruct toks as [|t0 ts]; [reflexivity|].
  rewrite split_join.
  - now apply iuse_fold.
  - discriminate.
  - apply Forall_forall. intros x Hx. apply in_map_iff in Hx as (t & <- & Ht).
    rewrite forallb_forall in H. now destruct (iuse_tok_facts t (H t Ht)) as (_ & T2 & _).
Qed.

Lemma set_from_use_toks f use : forallb wf_flagname use = true ->
  set_from_use f (join sp use) = fold_left (fun f n => set_first n f) use f.
Proof.
  intros H. unfold set_from_use. rewrite join_unwords, fields_unwords.
  - revert f. induction use as [|n use IH]; intros f; [reflexivity|]. cbn [forallb] in H. apply andb_true_iff in H as [Hn H].
    cbn [fold_left]. destruct (wf_flagname_facts n Hn) as (_ & _ & _ & ->). now apply IH.
  - discriminate.
  - reflexivity.
  - apply Forall_forall. intros x Hx. rewrite forallb_forall in H.
    destruct (wf_flagname_facts x (H x Hx)) as (X1 & _ & X3 & _). now split.
Qed.

(* flag_state through the two folds *)
Lemma flag_state_none n f : flag_state n f = None <-> has_flag n f = false.
Proof.
  induction f as [|[k b] f IH]; cbn; [tauto|]. destruct (beq n k); cbn; [split; discriminate|exact IH].
Qed.
Lemma flag_state_app n f g : flag_state n (f ++ g) = match flag_state n f with Some b => Some b | None => flag_state n g end.
Proof. induction f as [|[k b] f IH]; cbn; auto. destruct (beq n k); auto. Qed.

Lemma flag_state_dedup names : forall f n,
  flag_state n (fold_left dedup_step names f) =
  match flag_state n f with Some b => Some b | None => if memb n names then Some false else None end.
Proof.
  induction names as [|m names IH]; intros f n; cbn [fold_left memb existsb].
  - now destruct (flag_state n f).
  - rewrite IH. unfold dedup_step. destruct (has_flag m f) eqn:Hm.
    + destruct (flag_state n f) eqn:E; auto. destruct (beq n m) eqn:Enm; auto.
      apply beq_true in Enm. subst. apply flag_state_none in E. congruence.
    + rewrite flag_state_app. destruct (flag_state n f); auto. cbn [flag_state].
      unfold memb. destruct (beq n m); reflexivity.
Qed.

Lemma flag_state_set_first m n f :
  flag_state m (set_first n f) =
  if beq m n then match flag_state m f with Some _ => Some true | None => None end else flag_state m f.
Proof.
  induction f as [|[k b] f IH]; cbn [set_first flag_state]; [now destruct (beq m n)|].
  destruct (beq n k) eqn:Enk.
  - apply beq_true in Enk. subst k. cbn [flag_state]. destruct (beq m n); reflexivity.
  - cbn [flag_state]. destruct (beq m k) eqn:Emk.
    + destruct (beq m n) eqn:Emn; auto. apply beq_true in Emk, Emn. subst. rewrite beq_refl in Enk. discriminate.
    + exact IH.
Qed.

Lemma flag_state_use use : forall f m,
  flag_state m (fold_left (fun f n => set_first n f) use f) =
  match flag_state m f with Some b => Some (b || memb m use) | None => None end.
Proof.
  induction use as [|n use IH]; intros f m; cbn [fold_left memb existsb].
  - destruct (flag_state m f); auto. now rewrite orb_false_r.
  - rewrite IH, flag_state_set_first. unfold memb. destruct (beq m n); cbn [orb].
    + destruct (flag_state m f); auto. cbn. now rewrite orb_true_r.
    + reflexivity.
Qed.

Lemma lookup_cand m use toks :
  lookup m (map (fun t : N * bytes => (snd t, memb (snd t) use)) toks) =
  if memb m (map snd toks) then Some (memb m use) else None.
Proof.
  induction toks as [|t toks IH]; cbn [map lookup memb existsb]; auto.
  destruct (beq m (snd t)) eqn:E; cbn [orb]; auto. apply beq_true in E. now subst.
Qed.

Theorem pkg_flags_state p m : wf_pkg p = true -> flag_state m (pkg_flags p) = lookup m (cand_flags p).
Proof.
  unfold wf_pkg. intros H. apply andb_true_iff in H as [H Hu]. apply andb_true_iff in H as [_ Hi].
  unfold pkg_flags, iuse_line, use_line, cand_flags.
  rewrite new_from_iuse_toks, set_from_use_toks by assumption.
  rewrite flag_state_use, flag_state_dedup, lookup_cand. cbn [flag_state].
  destruct (memb m (map snd (p_iuse p))); reflexivity.
Qed.

Lemma ctx_lookup_eq m l : ctx_lookup m l = match lookup m l with Some b => b | None => false end.
Proof. induction l as [|[k b] l IH]; cbn; auto. destruct (beq m k); auto. Qed.
(* ================= assembling one case ================= *)
Lemma forallb_map' {A B} (f : B -> bool) (g : A -> B) l : forallb f (map g l) = forallb (fun x => f (g x)) l.
Proof. induction l; cbn; auto. now rewrite IHl. Qed.

Lemma use_part c : wf c = true -> kf_ifnot c = false ->
  flags_match (usedeps_of (a_use (c_atom c))) (pkg_flags (c_pkg c)) (c_parent c) = spec_use c.
Proof.
  intros W K. unfold wf in W. apply andb_true_iff in W as [W _]. apply andb_true_iff in W as [_ Wp].
  unfold flags_match, spec_use, use_match, usedeps_of. rewrite forallb_map'.
  unfold kf_ifnot in K. induction (a_use (c_atom c)) as [|d l IH]; [reflexivity|].
  cbn [existsb forallb] in *. apply orb_false_iff in K as [K1 K2]. rewrite IH by assumption. f_equal.
  rewrite pkg_flags_state by assumption. rewrite ctx_lookup_eq. rewrite dep_table; [reflexivity|].
  destruct (u_form d); auto.
Qed.

Definition eff_relop (op : vop) : N := if is_glob op then Relop_range else relop_of op.

Lemma parse_atom_ver a :
  pa_compver (parse_atom a) =
    match a_ver a with
    | None => []
    | Some (op, v) => comp_ver (eff_relop op) (basever_of v) (suffix_of v) (revision_of v)
    end
  /\ pa_verrelop (parse_atom a) = match a_ver a with None => Relop_none | Some (op, _) => eff_relop op end
  /\ pa_usedeps (parse_atom a) = usedeps_of (a_use a).
Proof.
  unfold parse_atom, raw_parse, eff_relop.
  destruct (a_slot a) as [| | |s ss e]; destruct (a_ver a) as [[op v]|];
    try destruct s; try destruct e; try destruct op; cbn; auto.
Qed.

Lemma parse_atom_slot a :
  (forall s ss e, a_slot a = SSlot s ss e -> s <> []) ->
  match a_slot a with
  | SNone => pa_anyslot (parse_atom a) = false /\ pa_slotrelop (parse_atom a) = Relop_none
  | SAnyStar | SAnyEq => pa_anyslot (parse_atom a) = true
  | SSlot s ss e => pa_anyslot (parse_atom a) = false /\ pa_slotrelop (parse_atom a) = Relop_eq
                    /\ pa_slot (parse_atom a) = make_comparable s
  end.
Proof.
  intros Hs. unfold parse_atom, raw_parse.
  destruct (a_slot a) as [| | |s ss e] eqn:Es; destruct (a_ver a) as [[op v]|]; cbn; auto;
    (specialize (Hs s ss e eq_refl); destruct s as [|c s]; [congruence|]; destruct e; cbn; auto).
Qed.

Lemma parse_pkg_fields p : wf_pkg p = true ->
  pa_compver (parse_pkg p) = enc (p_ver p) /\ pa_slot (parse_pkg p) = make_comparable (p_slot p).
Proof.
  unfold wf_pkg. intros H. do 3 (apply andb_true_iff in H as [H _]). apply andb_true_iff in H as [H Hs].
  pose proof (wf_slotname_nonempty _ Hs) as Ns.
  unfold parse_pkg, raw_parse. cbn [andb]. split.
  - assert (E : forall (b : bool) (x y : parsed), pa_compver x = pa_compver y -> pa_compver (if b then x else y) = pa_compver x)
      by (intros [] ? ? ?; auto).
    rewrite E by reflexivity. cbn [pa_compver]. now apply comp_ver_full.
  - destruct (p_slot p) as [|c s] eqn:Es; [congruence|]. reflexivity.
Qed.

Lemma slot_part c d : wf c = true -> kf_subslot c = false -> kf_slotzero c = false ->
  (forall t, da_slotc d t = if pa_anyslot (parse_atom (c_atom c)) then true else
     match ver_compare (pa_slotrelop (parse_atom (c_atom c))) (pa_slot (parse_atom (c_atom c))) t with
     | Val b => b | Diverge => false end) ->
  da_slotc d (pa_slot (parse_pkg (c_pkg c))) =
  slot_match (a_slot (c_atom c)) (p_slot (c_pkg c)) (p_subslot (c_pkg c)).
Proof.
  intros W K1 K2 Hd. unfold wf in W. apply andb_true_iff in W as [W _]. apply andb_true_iff in W as [Wa Wp].
  rewrite Hd. destruct (parse_pkg_fields _ Wp) as [_ ->].
  assert (Hs : forall s ss e, a_slot (c_atom c) = SSlot s ss e -> s <> []).
  { intros s ss e E. unfold wf_atom in Wa. rewrite E in Wa. repeat (apply andb_true_iff in Wa as [Wa ?]).
    match goal with X : wf_slotname s && _ = true |- _ => apply andb_true_iff in X as [X _]; now apply wf_slotname_nonempty end. }
  pose proof (parse_atom_slot (c_atom c) Hs) as P.
  unfold kf_subslot, kf_slotzero in *.
  destruct (a_slot (c_atom c)) as [| | |s ss e].
  - destruct P as [-> ->]. reflexivity.
  - rewrite P. reflexivity.
  - rewrite P. reflexivity.
  - destruct P as (-> & -> & ->). unfold ver_compare. cbn [N.eqb Relop_eq Relop_lt Relop_le Pos.eqb].
    cbn [slot_match]. destruct (beq s (p_slot (c_pkg c))) eqn:E.
    + apply beq_true in E. subst s. rewrite beq_refl. cbn [andb negb] in *.
      destruct ss as [x|]; auto. apply negb_false_iff in K1. now rewrite K1.
    + cbn [negb andb] in K2. rewrite beq_sym, K2. now destruct ss.
Qed.
Lemma kf_ver_zero op a v : kf_ver op a v = 0 ->
  in_domain a v = true
  /\ match op with OpTilde => continues a v && negb (ver_match OpTilde a v) | _ => false end = false
  /\ match op, v_rev a, v_sufs a with OpGlob, Some _, [] => true | _, _, _ => false end = false.
Proof.
  unfold kf_ver, in_domain. intros H.
  destruct (kf_long a v); [discriminate|].
  destruct (kf_lead0 a); [discriminate|]. destruct (kf_lead0 v); [discriminate|]. cbn [orb] in H.
  destruct (kf_multisuf a); [discriminate|]. destruct (kf_multisuf v); [discriminate|]. cbn [orb] in H.
  destruct (kf_sufzero (v_sufs a) (v_sufs v)); [discriminate|].
  split; [reflexivity|].
  destruct (match op with OpTilde => _ | _ => false end); [discriminate|]. split; [reflexivity|].
  destruct (match op with OpGlob => _ | _ => _ end); [discriminate|reflexivity].
Qed.

Lemma kf_zero c : kf c = 0 ->
  match a_ver (c_atom c) with Some (op, v) => kf_ver op v (p_ver (c_pkg c)) = 0 | None => True end
  /\ kf_subslot c = false /\ kf_slotzero c = false /\ kf_ifnot c = false.
Proof.
  unfold kf. intros H.
  assert (E : (match a_ver (c_atom c) with Some (op, v) => kf_ver op v (p_ver (c_pkg c)) | None => 0 end) = 0).
  { destruct (match a_ver (c_atom c) with Some _ => _ | None => _ end); [reflexivity|discriminate]. }
  rewrite E in H. split.
  - destruct (a_ver (c_atom c)) as [[op v]|]; auto.
  - destruct (kf_subslot c); [discriminate|]. destruct (kf_slotzero c); [discriminate|].
    destruct (kf_ifnot c); [discriminate|]. auto.
Qed.

Lemma wf_parts c : wf c = true -> wf_atom (c_atom c) = true /\ wf_pkg (c_pkg c) = true /\ wf_ver (p_ver (c_pkg c)) = true.
Proof.
  unfold wf. intros W. apply andb_true_iff in W as [W _]. apply andb_true_iff in W as [Wa Wp].
  repeat split; auto. unfold wf_pkg in Wp. do 4 (apply andb_true_iff in Wp as [Wp _]). exact Wp.
Qed.
Lemma wf_atom_ver a op v : wf_atom a = true -> a_ver a = Some (op, v) -> wf_ver v = true.
Proof.
  unfold wf_atom. intros W E. rewrite E in W. do 3 (apply andb_true_iff in W as [W _]). exact W.
Qed.

(* the version part of the decision, for the five plain operators *)
Lemma ver_part_plain c d op v : wf c = true -> a_ver (c_atom c) = Some (op, v) ->
  in_domain v (p_ver (c_pkg c)) = true -> plain_op op = true ->
  (forall t, ver_compare (pa_verrelop (parse_atom (c_atom c))) (pa_compver (parse_atom (c_atom c))) t = Val (da_ver d t)) ->
  da_ver d (pa_compver (parse_pkg (c_pkg c))) = ver_match op v (p_ver (c_pkg c)).
Proof.
  intros W E D P Hd. destruct (wf_parts c W) as (Wa & Wp & Wv). pose proof (wf_atom_ver _ _ _ Wa E) as Wav.
  specialize (Hd (pa_compver (parse_pkg (c_pkg c)))).
  destruct (parse_atom_ver (c_atom c)) as (E1 & E2 & _). rewrite E in E1, E2. rewrite E1, E2 in Hd.
  destruct (parse_pkg_fields _ Wp) as [E3 _]. rewrite E3 in *.
  assert (G : is_glob op = false) by (destruct op; auto; discriminate).
  unfold eff_relop in Hd. rewrite G in Hd.
  rewrite comp_ver_full in Hd; auto; [|destruct op; auto; discriminate].
  rewrite operators in Hd by assumption. now injection Hd.
Qed.

Definition range_free (c : case) : bool :=
  match a_ver (c_atom c) with Some (op, _) => plain_op op | None => true end.

Lemma spec_of_parts c d : make_da (parse_atom (c_atom c)) = Val d ->
  da_usedeps d = usedeps_of (a_use (c_atom c)) ->
  version_and_slot_match d (pa_compver (parse_pkg (c_pkg c))) (pa_slot (parse_pkg (c_pkg c))) = spec_vs c ->
  flags_match (usedeps_of (a_use (c_atom c))) (pkg_flags (c_pkg c)) (c_parent c) = spec_use c ->
  spec c (model c) = true.
Proof.
  intros E U V F. unfold model. rewrite E. cbn [spec]. unfold filter_one. rewrite U, V, F.
  now rewrite !Bool.eqb_reflx.
Qed.

Theorem holds_partial c : wf c = true -> kf c = 0 -> range_free c = true -> spec c (model c) = true.
Proof.
  intros W K R. destruct (kf_zero c K) as (Kv & K6 & K9 & K7).
  destruct (make_da_val (parse_atom (c_atom c))) as (d & Ed & _ & _ & _ & Eu & Hv & Hs).
  destruct (parse_atom_ver (c_atom c)) as (E1 & E2 & E3).
  apply (spec_of_parts c d Ed); [now rewrite Eu| |now apply use_part].
  unfold version_and_slot_match, spec_vs. rewrite (slot_part c d W K6 K9 Hs). rewrite andb_comm. f_equal.
  unfold range_free in R. destruct (a_ver (c_atom c)) as [[op v]|] eqn:Ev.
  - destruct (kf_ver_zero _ _ _ Kv) as (D & _ & _). now apply (ver_part_plain c d op v).
  - specialize (Hv (pa_compver (parse_pkg (c_pkg c)))). rewrite E2 in Hv. cbn in Hv. now injection Hv.
Qed.

Lemma obs_beq_refl o : obs_beq o o = true.
Proof.
  destruct o; cbn; auto.
  - apply N.eqb_refl.
  - rewrite !beq_refl. cbn. now rewrite !Bool.eqb_reflx.
Qed.
