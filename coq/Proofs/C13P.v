From LC Require Import Lib.Bytes Lib.Lex Lib.Fields Model.PMS Model.AtomMatch Cases.C13.
Import PMS C13.

Lemma obs_beq_refl o : obs_beq o o = true.
Proof.
  destruct o; cbn; auto.
  - apply N.eqb_refl.
  - rewrite !beq_refl. cbn. now rewrite !Bool.eqb_reflx.
Qed.
