(* The range operators ~ and =...*: MakeNextVer, the range test on comparison strings and its
   characterisation for every shape of atom version (number part only, + letter, + suffix,
   + suffix and revision). *)
From LC Require Import Lib.Bytes Lib.Lex Lib.Fields Model.PMS Model.AtomMatch Cases.C13 Proofs.C13Lex Proofs.AtomMatchP Proofs.C13P.
From Coq Require Import ZifyBool ZifyNat ZifyN.
Import PMS C13.
Open Scope N_scope.

(* ================= MakeNextVer: fuel independence and one-step unfolding ================= *)
Lemma next_rev_stable f1 : forall f2 r, (length r < f1)%nat -> (length r < f2)%nat -> next_rev f1 r = next_rev f2 r.
Proof.
  induction f1 as [|f1 IH]; intros [|f2] r H1 H2; try lia. cbn [next_rev].
  pose proof (trim_dots_len r) as T. destruct (trim_dots r) as [|c r1] eqn:E; [reflexivity|].
  destruct (AtomMatch.is_digit c) eqn:Dc.
  - destruct (span_digits (c :: r1)) as [run rest] eqn:Es.
    pose proof (span_digits_len _ _ _ Es) as L. cbn [span_digits] in Es. rewrite Dc in Es.
    destruct (span_digits r1) as [d rs]. injection Es as <- <-.
    destruct (incr_rev (c :: d)); [reflexivity|]. apply IH; cbn in *; lia.
  - destruct (strip_z (c :: r1) 0) eqn:Ez; [reflexivity|].
    apply strip_z_cont in Ez. apply IH; cbn in *; lia.
Qed.

Definition nv (r : bytes) : outcome bytes := next_rev (S (length r)) r.
Lemma make_next_ver_nv s : make_next_ver s = nv (rev s).
Proof. unfold make_next_ver, nv. now rewrite rev_length. Qed.

Lemma nv_unfold r :
  nv r = match trim_dots r with
         | [] => Val max_alpha
         | (c :: _) as r1 =>
           if AtomMatch.is_digit c then
             let '(run, rest) := span_digits r1 in
             match incr_rev run with
             | Some run' => Val (rev rest ++ rev run')
             | None => nv rest
             end
           else match strip_z r1 0 with IVal v => Val v | ICont rest => nv rest end
         end.
Proof.
  unfold nv at 1. cbn [next_rev]. pose proof (trim_dots_len r) as T.
  destruct (trim_dots r) as [|c r1] eqn:E; [reflexivity|].
  destruct (AtomMatch.is_digit c) eqn:Dc.
  - destruct (span_digits (c :: r1)) as [run rest] eqn:Es.
    pose proof (span_digits_len _ _ _ Es) as L. cbn [span_digits] in Es. rewrite Dc in Es.
    destruct (span_digits r1) as [d rs]. injection Es as <- <-.
    destruct (incr_rev (c :: d)); [reflexivity|]. apply next_rev_stable; cbn in *; lia.
  - destruct (strip_z (c :: r1) 0) eqn:Ez; [reflexivity|].
    apply strip_z_cont in Ez. apply next_rev_stable; cbn in *; lia.
Qed.

(* a string ending in a digit block D that is preceded by a non-digit (or nothing) *)
Definition nd_head (r : bytes) : Prop := match r with [] => True | c :: _ => is_dig c = false end.
Lemma span_digits_block D : forall rK, forallb is_dig D = true -> nd_head rK ->
  span_digits (D ++ rK) = (D, rK).
Proof.
  induction D as [|d D IH]; intros rK H N; cbn [app span_digits].
  - destruct rK as [|c r]; [reflexivity|]. cbn in N. cbn [span_digits]. rewrite is_digit_dig, N. reflexivity.
  - cbn [forallb] in H. apply andb_true_iff in H as [Hd H]. rewrite is_digit_dig, Hd. now rewrite IH.
Qed.
Lemma dig_not_dot d : is_dig d = true -> (bn d =? 46) || (bn d =? 45) = false.
Proof. unfold is_dig. lia. Qed.

Lemma nv_block D rK : D <> [] -> forallb is_dig D = true -> nd_head rK ->
  nv (D ++ rK) = match incr_rev D with Some D' => Val (rev rK ++ rev D') | None => nv rK end.
Proof.
  intros Hn Hd Hk. rewrite nv_unfold. destruct D as [|d D]; [congruence|]. cbn [app trim_dots].
  cbn [forallb] in Hd. apply andb_true_iff in Hd as [Hd1 Hd2]. rewrite (dig_not_dot d Hd1).
  rewrite is_digit_dig, Hd1. change (d :: D ++ rK) with ((d :: D) ++ rK).
  rewrite span_digits_block; auto. cbn [forallb]. now rewrite Hd1.
Qed.

(* ---- incrementDecimal ---- *)
Definition all9 (r : bytes) : bool := forallb (fun c => bn c =? 57) r.
Lemma incr_rev_spec r : forallb is_dig r = true ->
  match incr_rev r with
  | Some r' => length r' = length r /\ forallb is_dig r' = true /\ nval (rev r') = nval (rev r) + 1
  | None => nval (rev r) + 1 = 10 ^ N.of_nat (length r)
  end.
Proof.
  induction r as [|c r IH]; intros H; [reflexivity|]. cbn [forallb] in H. apply andb_true_iff in H as [Hc H].
  specialize (IH H). cbn [incr_rev]. unfold is_dig in Hc. apply andb_true_iff in Hc as [C1 C2]. apply N.leb_le in C1, C2.
  destruct (bn c + 1 <=? 57) eqn:E.
  - apply N.leb_le in E. cbn [length forallb rev]. repeat split; auto.
    + rewrite H, andb_true_r. unfold is_dig. rewrite bn_nb by lia. lia.
    + rewrite !nval_app. cbn [length]. rewrite !nval_cons. cbn [length]. unfold dval. rewrite bn_nb by lia.
      change (nval []) with 0. change (N.of_nat 1) with 1. change (N.of_nat 0) with 0. rewrite N.pow_1_r, N.pow_0_r. lia.
  - apply N.leb_gt in E. assert (bn c = 57) by lia.
    destruct (incr_rev r) as [r'|].
    + destruct IH as (L & D & V). cbn [length forallb rev]. repeat split; auto.
      rewrite !nval_app, V. cbn [length]. rewrite !nval_cons. cbn [length]. unfold dval, zero. rewrite bn_nb by lia.
      change (nval []) with 0. change (N.of_nat 1) with 1. change (N.of_nat 0) with 0. rewrite N.pow_1_r, N.pow_0_r. lia.
    + cbn [rev length]. rewrite nval_app. cbn [length]. rewrite nval_cons. cbn [length]. unfold dval.
      change (nval []) with 0. change (N.of_nat 1) with 1. change (N.of_nat 0) with 0. rewrite N.pow_1_r, N.pow_0_r.
      rewrite ?rev_length. rewrite Nat2N.inj_succ, N.pow_succ_r'. lia.
Qed.
(* ================= the range test ================= *)
Definition inr (P U t : bytes) : bool := negb (is_gt (lcmp P t)) && is_gt (lcmp U t).

Lemma range_compare P U t : make_next_ver P = Val U -> ver_compare Relop_range P t = Val (inr P U t).
Proof.
  intros E. unfold ver_compare. cbn [N.eqb Relop_range Relop_lt Relop_le Relop_eq Relop_ge Relop_gt Pos.eqb].
  rewrite E. unfold inr, AtomMatch.leb. rewrite !ltb_lcmp. rewrite (lcmp_opp P t), (lcmp_opp U t).
  destruct (lcmp P t), (lcmp U t); reflexivity.
Qed.

Lemma sandwich c l u :
  negb (is_gt (c ;; l)) && is_gt (c ;; u) = is_eq c && (negb (is_gt l) && is_gt u).
Proof. destruct c; reflexivity. Qed.

(* blocks: same-length digit strings *)
Definition incr (D : bytes) : option bytes :=
  match incr_rev (rev D) with Some r => Some (rev r) | None => None end.

Lemma incr_spec D : forallb is_dig D = true ->
  match incr D with
  | Some D' => length D' = length D /\ forallb is_dig D' = true /\ nval D' = nval D + 1
  | None => nval D + 1 = 10 ^ N.of_nat (length D)
  end.
Proof.
  intros H. unfold incr. assert (Hr : forallb is_dig (rev D) = true).
  { apply forallb_forall. intros x Hx. apply in_rev in Hx. rewrite forallb_forall in H. auto. }
  pose proof (incr_rev_spec (rev D) Hr) as S. rewrite rev_involutive, rev_length in S.
  destruct (incr_rev (rev D)) as [r'|]; auto. destruct S as (L & Dg & V). rewrite rev_length. repeat split; auto.
  apply forallb_forall. intros x Hx. apply in_rev in Hx. rewrite forallb_forall in Dg. auto.
Qed.

Lemma cmp_eq_iff a b : is_eq (a ?= b) = (a =? b).
Proof. destruct (a ?= b) eqn:E; cbn; symmetry.
  - apply N.compare_eq in E. now apply N.eqb_eq.
  - rewrite N.compare_lt_iff in E. apply N.eqb_neq. lia.
  - rewrite N.compare_gt_iff in E. apply N.eqb_neq. lia.
Qed.
Lemma cmp_gt_iff a b : is_gt (a ?= b) = (b <? a).
Proof. destruct (a ?= b) eqn:E; cbn; symmetry.
  - apply N.compare_eq in E. apply N.ltb_ge. lia.
  - rewrite N.compare_lt_iff in E. apply N.ltb_ge. lia.
  - rewrite N.compare_gt_iff in E. now apply N.ltb_lt.
Qed.

(* the successor block lets through exactly the block itself *)
Lemma blk_succ D D' E : forallb is_dig D = true -> forallb is_dig E = true -> length E = length D ->
  incr D = Some D' -> negb (is_gt (lcmp D E)) && is_gt (lcmp D' E) = is_eq (lcmp D E).
Proof.
  intros HD HE L I. pose proof (incr_spec D HD) as S. rewrite I in S. destruct S as (L' & HD' & V).
  rewrite !lex_numeric by (auto; congruence). rewrite V, cmp_eq_iff, !cmp_gt_iff. lia.
Qed.
Lemma blk_max D E : forallb is_dig D = true -> forallb is_dig E = true -> length E = length D ->
  incr D = None -> negb (is_gt (lcmp D E)) = is_eq (lcmp D E).
Proof.
  intros HD HE L I. pose proof (incr_spec D HD) as S. rewrite I in S.
  pose proof (nval_bound E HE) as B. rewrite L in B.
  rewrite !lex_numeric by (auto; congruence). rewrite cmp_eq_iff, !cmp_gt_iff. lia.
Qed.

(* peeling the number part and the letter off both bounds *)
Lemma peel_nums x xs y ys TP TU Tv : Forall digs (x :: xs) -> Forall digs (y :: ys) ->
  aligned_ok (x :: xs) (y :: ys) = true -> existsb lead0 xs = false -> existsb lead0 ys = false ->
  low TP -> low TU -> low Tv ->
  inr (encnums (x :: xs) ++ TP) (encnums (x :: xs) ++ TU) (encnums (y :: ys) ++ Tv)
  = is_eq (nums_cmp (x :: xs) (y :: ys)) && inr TP TU Tv.
Proof.
  intros. unfold inr. rewrite !nums_stage by assumption. apply sandwich.
Qed.

Lemma peel_letter la lv SP SU Sv :
  (match la with Some c => is_lower c = true | None => True end) ->
  (match lv with Some c => is_lower c = true | None => True end) ->
  (exists r, SP = usc :: r) -> (exists r, SU = usc :: r) -> (exists r, Sv = usc :: r) ->
  inr (enc_letter la ++ sp :: SP) (enc_letter la ++ sp :: SU) (enc_letter lv ++ sp :: Sv)
  = is_eq (letter_cmp la lv) && inr SP SU Sv.
Proof.
  intros. unfold inr. rewrite !letter_stage by assumption. apply sandwich.
Qed.
(* ---- shape "number part + letter" ---- *)
Lemma lower_bounds l : is_lower l = true -> 97 <= bn l <= 122.
Proof. unfold is_lower. lia. Qed.

Lemma l_g2 l lv Sv : is_lower l = true ->
  (match lv with Some c => is_lower c = true | None => True end) -> (exists r, Sv = usc :: r) ->
  inr [sp; l] (if bn l <? 122 then [sp; nb (bn l + 1)] else [nb 33]) (enc_letter lv ++ sp :: Sv)
  = is_eq (letter_cmp (Some l) lv).
Proof.
  intros Hl Hv [r ->]. pose proof (lower_bounds l Hl) as B. unfold inr.
  destruct lv as [c|]; cbn [enc_letter app letter_cmp].
  - pose proof (lower_bounds c Hv) as Bc. rewrite !lcmp_cons.
    destruct (bn l <? 122) eqn:E.
    + apply N.ltb_lt in E. rewrite lcmp_cons. cbn [lcmp]. rewrite bn_nb by lia.
      destruct (bn l ?= bn c) eqn:E1; destruct (bn l + 1 ?= bn c) eqn:E2; cbn; auto;
        rewrite ?N.compare_lt_iff, ?N.compare_gt_iff in *; try apply N.compare_eq in E1; try apply N.compare_eq in E2; lia.
    + apply N.ltb_ge in E. cbn [lcmp]. change (bn (nb 33) ?= bn sp) with Gt.
      destruct (bn l ?= bn c) eqn:E1; cbn; auto. rewrite N.compare_lt_iff in E1. lia.
  - rewrite lcmp_cons. cbn [lcmp]. change (bn usc) with 95.
    assert (G : (bn l ?= 95) = Gt) by (apply N.compare_gt_iff; lia). rewrite G. reflexivity.
Qed.

(* ---- suffix level ---- *)
Lemma is_eq_thn c d : is_eq (c ;; d) = is_eq c && is_eq d.
Proof. destruct c; reflexivity. Qed.

Lemma lcmp_pad_sp p R : digs p -> lcmp (pad_seg p) (sp :: R) = Gt.
Proof.
  intros H. destruct (pad_head_dig p H) as (c & r & E & Hc). rewrite E. cbn [lcmp]. change (bn sp) with 32.
  assert (G : (bn c ?= 32) = Gt) by (apply N.compare_gt_iff; lia). now rewrite G.
Qed.

Lemma thn_alt c d : match c with Eq => d | Lt => Lt | Gt => Gt end = c ;; d.
Proof. now destruct c. Qed.

Definition next_k (k : skind) : ascii := nb (bn (kletter k) + 1).
Definition kcmp (k k2 : skind) : comparison := (bn (kletter k) ?= bn (kletter k2)).

(* the block D is followed by nothing on the bounds and by a space on the candidate *)
Lemma blk_last D U' E R : forallb is_dig D = true -> forallb is_dig E = true -> length E = length D ->
  (match incr D with Some D' => U' = D' | None => True end) ->
  negb (is_gt (lcmp D (E ++ sp :: R)))
  && (match incr D with Some _ => is_gt (lcmp U' (E ++ sp :: R)) | None => true end)
  = is_eq (lcmp D E).
Proof.
  intros HD HE L HU. rewrite lcmp_app_nil_l by congruence. cbn [lcmp].
  destruct (incr D) as [D'|] eqn:EI.
  - subst U'. pose proof (incr_spec _ HD) as S. rewrite EI in S. destruct S as (L' & _ & _).
    rewrite lcmp_app_nil_l by congruence. cbn [lcmp].
    rewrite <- (blk_succ D D' E) by auto. destruct (lcmp D E), (lcmp D' E); reflexivity.
  - rewrite andb_true_r. rewrite <- (blk_max D E) by auto. destruct (lcmp D E); reflexivity.
Qed.

Lemma s_g3_num k p sv Rv : digs p -> sufs_ok sv -> (length sv <= 1)%nat ->
  sufs_aligned_ok [(k, Some p)] sv = true ->
  inr (usc :: kletter k :: pad_seg p)
      (match incr (pad_seg p) with Some D' => usc :: kletter k :: D' | None => [usc; next_k k] end)
      (enc_sufs sv ++ sp :: Rv)
  = match sv with
    | (k2, Some q) :: _ => is_eq (kcmp k k2) && is_eq (lcmp (pad_seg p) (pad_seg q))
    | _ => false
    end.
Proof.
  intros Hp Hs Hl Al. pose proof (pad_dig p (proj2 Hp)) as DD.
  destruct sv as [|[k2 n2] [|? ?]]; cbn [length] in Hl; try lia.
  - unfold inr, enc_sufs, suffix_normal. cbn [bs of_string app]. rewrite lcmp_cons.
    destruct (incr (pad_seg p)); [rewrite lcmp_cons|unfold next_k; rewrite lcmp_cons]; destruct k; reflexivity.
  - inversion Hs as [|? ? Hn2 _]; subst. cbn [snd] in Hn2.
    cbn [enc_sufs flat_map]. rewrite app_nil_r. unfold enc_suf. cbn [fst snd app].
    cbn [sufs_aligned_ok snd] in Al. rewrite andb_true_r in Al.
    destruct n2 as [q|]; cbn [app].
    + assert (LE : length (pad_seg q) = length (pad_seg p)) by (symmetry; now apply padlen_len).
      pose proof (pad_dig q (proj2 Hn2)) as DQ.
      pose proof (blk_last (pad_seg p) (match incr (pad_seg p) with Some D' => D' | None => [] end) (pad_seg q) Rv DD DQ LE) as BL.
      unfold inr. rewrite lcmp_cons. cbn [lcmp]. fold (kcmp k k2).
      destruct (incr (pad_seg p)) as [D'|] eqn:EI.
      * rewrite lcmp_cons. cbn [lcmp]. fold (kcmp k k2).
        fold (lcmp (pad_seg p) (pad_seg q ++ sp :: Rv)). fold (lcmp D' (pad_seg q ++ sp :: Rv)).
        rewrite !thn_alt. rewrite sandwich. f_equal. now apply BL.
      * unfold next_k. rewrite lcmp_cons.
        fold (lcmp (pad_seg p) (pad_seg q ++ sp :: Rv)).
        specialize (BL I). rewrite andb_true_r in BL. rewrite <- BL.
        generalize (lcmp (pad_seg p) (pad_seg q ++ sp :: Rv)). intros X.
        destruct (pad_seg q ++ sp :: Rv) as [|c0 r0] eqn:EQ; [now destruct (pad_seg q)|].
        destruct k, k2; cbn; try reflexivity; destruct X; reflexivity.
    + unfold inr. rewrite lcmp_cons. cbn [lcmp]. fold (kcmp k k2). fold (lcmp (pad_seg p) (sp :: Rv)).
      rewrite lcmp_pad_sp by assumption.
      destruct (incr (pad_seg p)) as [D'|]; [|unfold next_k]; rewrite lcmp_cons; cbn [lcmp]; fold (kcmp k k2).
      * destruct (kcmp k k2); reflexivity.
      * unfold kcmp. destruct k, k2; reflexivity.
Qed.
Lemma s_g3_bare k sv Rv : (length sv <= 1)%nat ->
  inr [usc; kletter k] [usc; next_k k] (enc_sufs sv ++ sp :: Rv)
  = match sv with (k2, _) :: _ => is_eq (kcmp k k2) | [] => false end.
Proof.
  intros Hl. destruct sv as [|[k2 n2] [|? ?]]; cbn [length] in Hl; try lia.
  - destruct k; reflexivity.
  - cbn [enc_sufs flat_map]. rewrite app_nil_r. unfold enc_suf. cbn [fst snd app].
    unfold inr, next_k. rewrite !lcmp_cons.
    destruct ((match n2 with Some d => pad_seg d | None => [] end) ++ sp :: Rv) as [|c0 r0] eqn:EQ;
      [now destruct n2 as [d|]; [destruct (pad_seg d)|]|].
    unfold kcmp. destruct k, k2; reflexivity.
Qed.

Lemma lcmp_pad_app_sp p X R : digs p -> lcmp (pad_seg p ++ X) (sp :: R) = Gt.
Proof.
  intros H. destruct (pad_head_dig p H) as (c & r & E & Hc). rewrite E. cbn [app lcmp]. change (bn sp) with 32.
  assert (G : (bn c ?= 32) = Gt) by (apply N.compare_gt_iff; lia). now rewrite G.
Qed.

Lemma s_g4 k p r sv rv : digs p -> digs r -> sufs_ok sv -> numok rv -> (length sv <= 1)%nat ->
  sufs_aligned_ok [(k, Some p)] sv = true -> Nat.eqb (optlen (Some r)) (optlen rv) = true ->
  inr (usc :: kletter k :: pad_seg p ++ sp :: nb 114 :: pad_seg r)
      (match incr (pad_seg r) with
       | Some D' => usc :: kletter k :: pad_seg p ++ sp :: nb 114 :: D'
       | None => usc :: kletter k :: pad_seg p ++ [sp; nb 115] end)
      (enc_sufs sv ++ sp :: enc_rev rv)
  = match sv with
    | (k2, Some q) :: _ =>
        is_eq (kcmp k k2) && (is_eq (lcmp (pad_seg p) (pad_seg q))
        && is_eq (lcmp (pad_seg r) (pad_seg (match rv with Some d => d | None => [zero] end))))
    | _ => false
    end.
Proof.
  intros Hp Hr Hs Hrv Hl Al Alr. pose proof (pad_dig r (proj2 Hr)) as DR.
  set (e := match rv with Some d => d | None => [zero] end).
  assert (He : digs e) by (unfold e; destruct rv; auto; split; [discriminate|reflexivity]).
  assert (LE : length (pad_seg e) = length (pad_seg r)).
  { apply Nat.eqb_eq in Alr. rewrite !pad_len. unfold e. destruct rv; cbn [optlen] in Alr; symmetry; exact Alr. }
  pose proof (pad_dig e (proj2 He)) as DE. unfold enc_rev. fold e.
  destruct sv as [|[k2 n2] [|? ?]]; cbn [length] in Hl; try lia.
  - unfold inr, enc_sufs, suffix_normal. cbn [bs of_string app]. rewrite lcmp_cons.
    destruct (incr (pad_seg r)); rewrite lcmp_cons; destruct k; reflexivity.
  - inversion Hs as [|? ? Hn2 _]; subst. cbn [snd] in Hn2.
    cbn [enc_sufs flat_map]. rewrite app_nil_r. unfold enc_suf. cbn [fst snd app].
    cbn [sufs_aligned_ok snd] in Al. rewrite andb_true_r in Al.
    destruct n2 as [q|]; cbn [app].
    + assert (LQ : length (pad_seg p) = length (pad_seg q)) by now apply padlen_len.
      unfold inr. rewrite lcmp_cons. cbn [lcmp]. fold (kcmp k k2). rewrite thn_alt.
      fold (lcmp (pad_seg p ++ sp :: nb 114 :: pad_seg r) (pad_seg q ++ sp :: nb 114 :: pad_seg e)).
      rewrite (lcmp_app (pad_seg p) (pad_seg q)) by assumption. rewrite !lcmp_cons.
      destruct (incr (pad_seg r)) as [D'|] eqn:EI.
      * rewrite lcmp_cons. cbn [lcmp]. fold (kcmp k k2). rewrite thn_alt.
        fold (lcmp (pad_seg p ++ sp :: nb 114 :: D') (pad_seg q ++ sp :: nb 114 :: pad_seg e)).
        rewrite (lcmp_app (pad_seg p) (pad_seg q)) by assumption. rewrite !lcmp_cons.
        rewrite sandwich, sandwich. do 2 f_equal. now apply blk_succ.
      * rewrite lcmp_cons. cbn [lcmp]. fold (kcmp k k2). rewrite thn_alt.
        fold (lcmp (pad_seg p ++ [sp; nb 115]) (pad_seg q ++ sp :: nb 114 :: pad_seg e)).
        rewrite (lcmp_app (pad_seg p) (pad_seg q)) by assumption. rewrite lcmp_cons.
        cbn [lcmp]. change (bn (nb 115) ?= bn (nb 114)) with Gt.
        rewrite sandwich, sandwich. do 2 f_equal. cbn [is_gt]. rewrite andb_true_r. now apply blk_max.
    + unfold inr. rewrite lcmp_cons. cbn [lcmp]. fold (kcmp k k2). rewrite thn_alt.
      fold (lcmp (pad_seg p ++ sp :: nb 114 :: pad_seg r) (sp :: nb 114 :: pad_seg e)).
      rewrite lcmp_pad_app_sp by assumption.
      destruct (incr (pad_seg r)) as [D'|]; rewrite lcmp_cons; cbn [lcmp]; fold (kcmp k k2); rewrite thn_alt.
      * fold (lcmp (pad_seg p ++ sp :: nb 114 :: D') (sp :: nb 114 :: pad_seg e)).
        rewrite lcmp_pad_app_sp by assumption. destruct (kcmp k k2); reflexivity.
      * fold (lcmp (pad_seg p ++ [sp; nb 115]) (sp :: nb 114 :: pad_seg e)).
        rewrite lcmp_pad_app_sp by assumption. destruct (kcmp k k2); reflexivity.
Qed.
(* ---- shape "number part only": the carry may run through the components ---- *)
Definition blk (b : bytes) : Prop := b <> [] /\ forallb is_dig b = true.
Definition jn (bl : list bytes) : bytes := match bl with [] => [] | x :: xs => x ++ dotted xs end.

Fixpoint nx (bl : list bytes) : option (list bytes) :=
  match bl with
  | [] => None
  | x :: xs =>
    match nx xs with
    | Some xs' => Some (x :: xs')
    | None => match incr x with Some x' => Some [x'] | None => None end
    end
  end.

Lemma nx_snoc l : forall b, nx (l ++ [b]) = match incr b with Some b' => Some (l ++ [b']) | None => nx l end.
Proof.
  induction l as [|x l IH]; intros b; cbn [app nx].
  - now destruct (incr b).
  - rewrite IH. destruct (incr b); reflexivity.
Qed.

Lemma dotted_app a b : dotted (a ++ b) = dotted a ++ dotted b.
Proof. unfold dotted. apply flat_map_app. Qed.
Lemma jn_snoc l b : l <> [] -> jn (l ++ [b]) = jn l ++ dotc :: b.
Proof.
  destruct l as [|x l]; [congruence|]. intros _. cbn [app jn]. rewrite dotted_app. cbn [dotted flat_map].
  now rewrite app_nil_r, <- app_assoc.
Qed.

Lemma nv_nil : nv [] = Val max_alpha.
Proof. reflexivity. Qed.
Lemma nv_dot r : nv (dotc :: r) = nv r.
Proof. rewrite (nv_unfold (dotc :: r)), (nv_unfold r). reflexivity. Qed.

Lemma rev_dig b : forallb is_dig b = true -> forallb is_dig (rev b) = true.
Proof. intros H. apply forallb_forall. intros x Hx. apply in_rev in Hx. rewrite forallb_forall in H. auto. Qed.

Lemma nv_blocks bl : bl <> [] -> Forall blk bl ->
  nv (rev (jn bl)) = Val (match nx bl with Some us => jn us | None => max_alpha end).
Proof.
  induction bl as [|b l IH] using rev_ind; [congruence|]. intros _ HF.
  apply Forall_app in HF as [HFl HFb]. inversion HFb as [|? ? [Hbn Hbd] _]; subst.
  rewrite nx_snoc. destruct l as [|x l'].
  - cbn [app jn dotted flat_map]. rewrite app_nil_r. rewrite <- (app_nil_r (rev b)).
    rewrite nv_block; auto using rev_dig; [|intros E; apply (f_equal (@rev _)) in E; rewrite rev_involutive in E; now cbn in E|exact I].
    unfold incr. destruct (incr_rev (rev b)) as [r'|]; cbn [nx jn dotted flat_map app]; [now rewrite app_nil_r|reflexivity].
  - rewrite jn_snoc by discriminate. rewrite rev_app_distr. cbn [rev]. rewrite <- app_assoc. cbn [app].
    rewrite nv_block; auto using rev_dig; [|intros E; apply (f_equal (@rev _)) in E; rewrite rev_involutive in E; now cbn in E|reflexivity].
    unfold incr. destruct (incr_rev (rev b)) as [r'|].
    + cbn [rev]. rewrite rev_involutive. change (x :: l' ++ [rev r']) with ((x :: l') ++ [rev r']).
      rewrite jn_snoc by discriminate. now rewrite <- app_assoc.
    + rewrite nv_dot. apply IH; [discriminate|assumption].
Qed.

Fixpoint aligned_blocks (xs ys : list bytes) : Prop :=
  match xs, ys with
  | x :: xs', y :: ys' => length x = length y /\ aligned_blocks xs' ys'
  | _, _ => True
  end.
Fixpoint prefixB (xs ys : list bytes) : bool :=
  match xs, ys with
  | [], _ => true
  | _ :: _, [] => false
  | x :: xs', y :: ys' => is_eq (lcmp x y) && prefixB xs' ys'
  end.

Lemma lcmp_nil_dotted ys T' : lcmp [] (dotted ys ++ sp :: T') = Lt.
Proof. destruct (dotted ys); reflexivity. Qed.

Lemma interval_blocks T' xs : forall ys, Forall blk xs -> Forall blk ys -> aligned_blocks xs ys ->
  match nx xs with
  | Some us => negb (is_gt (lcmp (dotted xs) (dotted ys ++ sp :: T'))) && is_gt (lcmp (dotted us) (dotted ys ++ sp :: T'))
               = prefixB xs ys
  | None => negb (is_gt (lcmp (dotted xs) (dotted ys ++ sp :: T'))) = prefixB xs ys
  end.
Proof.
  induction xs as [|x xs IH]; intros ys Fx Fy Al.
  - cbn [nx prefixB]. change (dotted []) with (@nil ascii). now rewrite lcmp_nil_dotted.
  - inversion Fx as [|? ? [Hxn Hxd] Fx']; subst. destruct ys as [|y ys].
    + cbn [dotted flat_map app prefixB]. change (lcmp ((dotc :: x) ++ flat_map (fun y => dotc :: y) xs) (sp :: T')) with Gt.
      cbn [is_gt negb andb]. now destruct (nx (x :: xs)).
    + inversion Fy as [|? ? [Hyn Hyd] Fy']; subst. destruct Al as [L Al]. specialize (IH ys Fx' Fy' Al).
      cbn [prefixB nx].
      assert (E1 : forall zs, lcmp (dotted (x :: zs)) (dotted (y :: ys) ++ sp :: T')
                   = lcmp x y ;; lcmp (dotted zs) (dotted ys ++ sp :: T')).
      { intros zs. cbn [dotted flat_map]. rewrite <- !app_assoc. cbn [app]. rewrite lcmp_cons. now apply lcmp_app. }
      rewrite E1. destruct (nx xs) as [us'|] eqn:En.
      * rewrite E1, sandwich. now rewrite IH.
      * destruct (incr x) as [x'|] eqn:Ei.
        -- pose proof (incr_spec x Hxd) as S. rewrite Ei in S. destruct S as (Lx' & _ & _).
           assert (E2 : lcmp (dotted [x']) (dotted (y :: ys) ++ sp :: T') = lcmp x' y ;; Lt).
           { cbn [dotted flat_map]. rewrite <- !app_assoc. cbn [app]. rewrite lcmp_cons, app_nil_r.
             rewrite lcmp_app_nil_l by congruence. f_equal.
             change (flat_map (fun y0 => dotc :: y0) ys) with (dotted ys). apply lcmp_nil_dotted. }
           rewrite E2. pose proof (blk_succ x x' y Hxd Hyd (eq_sym L) Ei) as B. rewrite <- IH.
           generalize (lcmp (dotted xs) (dotted ys ++ sp :: T')). intros L'. revert B.
           generalize (lcmp x y), (lcmp x' y). intros cx cx'.
           destruct cx, cx', L'; cbn; intros B; try reflexivity; discriminate.
        -- pose proof (blk_max x y Hxd Hyd (eq_sym L) Ei) as B. rewrite <- IH.
           generalize (lcmp (dotted xs) (dotted ys ++ sp :: T')). intros L'. revert B.
           generalize (lcmp x y). intros cx. destruct cx, L'; cbn; intros B; try reflexivity; discriminate.
Qed.
