(* C13: the property theorems in the form in which Properties/C13.v states them, the
   refutation witnesses of the known-finding classes, and examples showing that the
   hypotheses of the theorems are satisfiable by non-trivial inputs. *)
From LC Require Import Lib.Bytes Lib.Lex Lib.Fields Model.PMS Model.AtomMatch Cases.C13
  Proofs.C13Lex Proofs.AtomMatchP Proofs.C13P Proofs.C13Range Proofs.C13Holds.
Import PMS C13.
Open Scope N_scope.

Lemma cmpstr_enc relop v : wf_ver v = true -> (relop =? Relop_range) = false -> cmpstr relop v = enc v.
Proof. intros. unfold cmpstr. now apply comp_ver_full. Qed.

(* Go's [<] and [==] on the comparison strings are the PMS order *)
Theorem version_order_thm : forall r1 r2 a v,
  (r1 =? Relop_range) = false -> (r2 =? Relop_range) = false ->
  wf_ver a = true -> wf_ver v = true -> in_domain a v = true ->
  (ltb (cmpstr r1 a) (cmpstr r2 v) = true <-> vercmp a v = Lt)
  /\ (cmpstr r1 a = cmpstr r2 v <-> vercmp a v = Eq)
  /\ (ltb (cmpstr r2 v) (cmpstr r1 a) = true <-> vercmp a v = Gt).
Proof.
  intros r1 r2 a v R1 R2 Wa Wv D. rewrite !cmpstr_enc by assumption.
  pose proof (version_order a v Wa Wv D) as O. pose proof (lcmp_opp (enc a) (enc v)) as O2.
  rewrite !ltb_lcmp, O2, <- lcmp_eq_iff, O. destruct (vercmp a v); cbn; repeat split; congruence.
Qed.

Theorem operators_thm : forall op a v, plain_op op = true ->
  wf_ver a = true -> wf_ver v = true -> in_domain a v = true ->
  ver_compare (relop_of op) (cmpstr (relop_of op) a) (cmpstr Relop_none v) = Val (ver_match op a v).
Proof.
  intros op a v P Wa Wv D. rewrite !cmpstr_enc; auto; [now apply operators|destruct op; auto; discriminate].
Qed.

Theorem glob_thm : forall a v, wf_ver a = true -> wf_ver v = true -> in_domain a v = true ->
  last_suffix_numbered a = true ->
  match v_rev a, v_sufs a with Some _, [] => true | _, _ => false end = false ->
  ver_compare Relop_range (cmpstr Relop_range a) (cmpstr Relop_none v) = Val (glob_match a v).
Proof.
  intros a v Wa Wv D L K. rewrite (cmpstr_enc Relop_none v) by auto. unfold cmpstr.
  rewrite comp_ver_range by assumption. now apply glob_range.
Qed.

Theorem tilde_thm : forall a v, wf_ver a = true -> wf_ver v = true -> in_domain a v = true ->
  v_rev a = None -> continues a v && negb (ver_match OpTilde a v) = false ->
  ver_compare Relop_range (cmpstr Relop_range a) (cmpstr Relop_none v) = Val (ver_match OpTilde a v).
Proof.
  intros a v Wa Wv D Hr K. rewrite (cmpstr_enc Relop_none v) by auto. unfold cmpstr.
  rewrite comp_ver_range by assumption.
  destruct (tilde_range a v Wa Wv D Hr) as (R & -> & R1 & R2). f_equal. destruct R.
  - rewrite (R1 eq_refl) in K. cbn [andb] in K. apply negb_false_iff in K. now rewrite K.
  - destruct (ver_match OpTilde a v); auto.
Qed.

Theorem slot_thm : forall c d, wf c = true -> kf_subslot c = false -> kf_slotzero c = false ->
  make_da (parse_atom (c_atom c)) = Val d ->
  da_slotc d (pa_slot (parse_pkg (c_pkg c)))
  = slot_match (a_slot (c_atom c)) (p_slot (c_pkg c)) (p_subslot (c_pkg c)).
Proof.
  intros c d W K1 K2 E. destruct (make_da_val (parse_atom (c_atom c))) as (d' & Ed & _ & _ & _ & _ & _ & Hs).
  rewrite E in Ed. injection Ed as <-. now apply slot_part.
Qed.

Theorem use_thm : forall c, wf c = true -> kf_ifnot c = false ->
  flags_match (usedeps_of (a_use (c_atom c))) (pkg_flags (c_pkg c)) (c_parent c)
  = use_match (a_use (c_atom c)) (cand_flags (c_pkg c)) (c_parent c).
Proof. exact use_part. Qed.

Theorem never_hangs : forall c, model c <> OTimeout /\ model c <> OPanic.
Proof.
  intros c. unfold model. destruct (make_da_val (parse_atom (c_atom c))) as (d & -> & _). split; discriminate.
Qed.

(* ---- examples: the hypotheses are satisfiable by non-trivial inputs ---- *)
Open Scope string_scope.
Definition V (nums : list string) l sufs r := MkVer (map bs nums) l sufs r.
Definition ex_a := V ["1"; "2"; "10"] (Some (nb 97)) [(SRc, Some (bs "3"))] None.
Definition ex_v := V ["1"; "2"; "9"; "4"] None [(SP, None)] (Some (bs "12")).
Example ex_order_hyps : wf_ver ex_a = true /\ wf_ver ex_v = true /\ in_domain ex_a ex_v = true /\ vercmp ex_a ex_v = Gt.
Proof. vm_compute. repeat split. Qed.
Definition ex_g := V ["20240131"; "99999"] None [] None.
Definition ex_gv := V ["20240131"; "99999"; "0"] (Some (nb 122)) [(SAlpha, Some (bs "1"))] (Some (bs "3")).
Example ex_glob_hyps : wf_ver ex_g = true /\ wf_ver ex_gv = true /\ in_domain ex_g ex_gv = true
  /\ last_suffix_numbered ex_g = true /\ glob_match ex_g ex_gv = true
  /\ ver_compare Relop_range (cmpstr Relop_range ex_g) (cmpstr Relop_none ex_gv) = Val true.
Proof. vm_compute. repeat split. Qed.
Definition ex_t := V ["5"; "30"] (Some (nb 97)) [(SBeta, None)] None.
Definition ex_tv := V ["5"; "30"] (Some (nb 97)) [(SBeta, None)] (Some (bs "7")).
Example ex_tilde_hyps : wf_ver ex_t = true /\ wf_ver ex_tv = true /\ in_domain ex_t ex_tv = true /\ v_rev ex_t = None
  /\ continues ex_t ex_tv && negb (ver_match OpTilde ex_t ex_tv) = false /\ ver_match OpTilde ex_t ex_tv = true.
Proof. vm_compute. repeat split. Qed.

Definition mkc op av slot use pv pslot psub iuse puse par :=
  MkCase (MkAtom (match av with Some v => Some (op, v) | None => None end) slot use)
         (MkPkg pv (bs pslot) psub iuse puse) par OTimeout.
Definition ex_case := mkc OpGe (Some (V ["3"; "7"] None [] None)) (SSlot (bs "3.7") (Some (bs "1")) true)
  [MkUD UIf (bs "ssl") DNone; MkUD UDisabled (bs "X") DMinus; MkUD UOpposite (bs "nls") DMinus]
  (V ["3"; "7"; "9"] None [(SP, Some (bs "2"))] (Some (bs "1"))) "3.7" (Some (bs "1"))
  [(1, bs "ssl"); (0, bs "threads")] [bs "ssl"; bs "amd64"] [(bs "ssl", true); (bs "nls", true)].
Example ex_case_hyps : wf ex_case = true /\ kf ex_case = 0 /\ spec_vs ex_case = true /\ spec_use ex_case = true.
Proof. vm_compute. repeat split. Qed.
Close Scope string_scope.

(* ---- refutation witnesses of the known-finding classes ---- *)
Definition refuted (k : N) : Prop := exists c, wf c = true /\ kf c = k /\ spec c (model c) = false.
Open Scope string_scope.
Definition nov := V ["1"] None [] None.
Lemma refuted_1 : refuted 1.   (* >=p-1.99999 against 1.100000 *)
Proof. exists (mkc OpGe (Some (V ["1"; "99999"] None [] None)) SNone [] (V ["1"; "100000"] None [] None) "0" None [] [] []).
  vm_compute. repeat split. Qed.
Lemma refuted_2 : refuted 2.   (* =p-1.1 against 1.01 *)
Proof. exists (mkc OpEq (Some (V ["1"; "1"] None [] None)) SNone [] (V ["1"; "01"] None [] None) "0" None [] [] []).
  vm_compute. repeat split. Qed.
Lemma refuted_3 : refuted 3.   (* <p-1_alpha1 against 1_alpha1_beta1 *)
Proof. exists (mkc OpLt (Some (V ["1"] None [(SAlpha, Some (bs "1"))] None)) SNone []
                 (V ["1"] None [(SAlpha, Some (bs "1")); (SBeta, Some (bs "1"))] None) "0" None [] [] []).
  vm_compute. repeat split. Qed.
Lemma refuted_4 : refuted 4.   (* =p-1_alpha0 against 1_alpha *)
Proof. exists (mkc OpEq (Some (V ["1"] None [(SAlpha, Some (bs "0"))] None)) SNone []
                 (V ["1"] None [(SAlpha, None)] None) "0" None [] [] []).
  vm_compute. repeat split. Qed.
Lemma refuted_5 : refuted 5.   (* ~p-1.2 against 1.2.1 *)
Proof. exists (mkc OpTilde (Some (V ["1"; "2"] None [] None)) SNone [] (V ["1"; "2"; "1"] None [] None) "0" None [] [] []).
  vm_compute. repeat split. Qed.
Lemma refuted_6 : refuted 6.   (* p:1/2 against slot 1, sub-slot 3 *)
Proof. exists (mkc OpEq None (SSlot (bs "1") (Some (bs "2")) false) [] nov "1" (Some (bs "3")) [] [] []).
  vm_compute. repeat split. Qed.
Lemma refuted_7 : refuted 7.   (* p[!f?], candidate has f on, parent has f on *)
Proof. exists (mkc OpEq None SNone [MkUD UIfNot (bs "f") DNone] nov "0" None [(0, bs "f")] [bs "f"] [(bs "f", true)]).
  vm_compute. repeat split. Qed.
Lemma refuted_8 : refuted 8.   (* =p-1.2-r1* against 1.2 *)
Proof. exists (mkc OpGlob (Some (V ["1"; "2"] None [] (Some (bs "1")))) SNone [] (V ["1"; "2"] None [] None) "0" None [] [] []).
  vm_compute. repeat split. Qed.
Lemma refuted_9 : refuted 9.   (* p:01 against slot 1 *)
Proof. exists (mkc OpEq None (SSlot (bs "01") None false) [] nov "1" None [] [] []).
  vm_compute. repeat split. Qed.
Close Scope string_scope.
