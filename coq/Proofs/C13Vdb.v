(* C13: installed packages loaded from /var/db/pkg (vdb/get_list.go setAtom) against what PMS says
   about a VDB entry: the flag set the loader builds is "declared and listed in USE", whatever
   the prefixes in IUSE; the per-case theorem for extended cases. *)
From LC Require Import Lib.Bytes Lib.Lex Lib.Fields Model.PMS Model.AtomMatch Cases.C13
  Proofs.C13Lex Proofs.AtomMatchP Proofs.C13P Proofs.C13Range Proofs.C13Holds.
From Coq Require Import ZifyBool ZifyNat ZifyN.
Import PMS C13.
Open Scope N_scope.

(* ================= the PMS reading of an entry ================= *)
Lemma mem_In x l : mem x l = true <-> In x l.
Proof.
  unfold mem. rewrite existsb_exists. split.
  - intros (y & Hy & E). apply beq_true in E. now subst.
  - intros H. exists x. split; auto. apply beq_refl.
Qed.

Definition use_words (use : option (list bytes)) : list bytes := match use with Some l => l | None => [] end.

Lemma lookup_installed f iuse eff use :
  lookup f (installed_flags iuse eff use) =
  if mem f (declared_flags iuse eff) then Some (mem f (use_words use)) else None.
Proof.
  unfold installed_flags. fold (use_words use).
  induction (declared_flags iuse eff) as [|g l IH]; cbn [map lookup mem existsb]; auto.
  destruct (beq f g) eqn:E; cbn [orb]; auto. apply beq_true in E. now subst.
Qed.

(* an installed package has a flag enabled iff the flag is declared and listed in USE;
   it has it disabled iff it is declared and not listed; it does not have it otherwise *)
Theorem installed_on f iuse eff use :
  lookup f (installed_flags iuse eff use) = Some true <->
  In f (declared_flags iuse eff) /\ In f (use_words use).
Proof.
  rewrite lookup_installed, <- !mem_In.
  destruct (mem f (declared_flags iuse eff)), (mem f (use_words use)); split; intros H;
    try discriminate; try (destruct H; discriminate); auto.
Qed.
Theorem installed_off f iuse eff use :
  lookup f (installed_flags iuse eff use) = Some false <->
  In f (declared_flags iuse eff) /\ ~ In f (use_words use).
Proof.
  rewrite lookup_installed, <- !mem_In.
  destruct (mem f (declared_flags iuse eff)), (mem f (use_words use)); intuition (try discriminate; try congruence).
Qed.
Theorem installed_absent f iuse eff use :
  lookup f (installed_flags iuse eff use) = None <-> ~ In f (declared_flags iuse eff).
Proof.
  rewrite lookup_installed, <- mem_In.
  destruct (mem f (declared_flags iuse eff)); split; intros H; try discriminate; auto.
  exfalso. now apply H.
Qed.

(* the "+" / "-" prefixes of IUSE play no part: two IUSE files naming the same flags give the same package *)
Theorem installed_prefix_independent i1 i2 eff use :
  map snd i1 = map snd i2 -> installed_flags (Some i1) eff use = installed_flags (Some i2) eff use.
Proof. intros H. unfold installed_flags, declared_flags. destruct eff; auto. now rewrite H. Qed.

(* IUSE_EFFECTIVE, when recorded, is what counts *)
Theorem installed_effective_first i1 i2 l use :
  installed_flags i1 (Some l) use = installed_flags i2 (Some l) use.
Proof. reflexivity. Qed.

(* ================= TrimSpace on the files as written ================= *)
Definition nosp_hd (s : bytes) : Prop := match s with c :: _ => is_sp c = false | [] => False end.
Definition tok_edge (s : bytes) : Prop := nosp_hd s /\ nosp_hd (rev s).

Lemma drop_sp_hd s : nosp_hd s -> drop_sp s = s.
Proof. destruct s as [|c r]; cbn; [tauto|]. now intros ->. Qed.
Lemma nosp_hd_app s r : nosp_hd s -> nosp_hd (s ++ r).
Proof. destruct s; cbn; [intros []|auto]. Qed.

Lemma trim_edges s : tok_edge s -> trim (s ++ [nl]) = s.
Proof.
  intros [H1 H2]. unfold trim. rewrite (drop_sp_hd (s ++ [nl])) by now apply nosp_hd_app.
  rewrite rev_app_distr. cbn [rev app]. change (drop_sp (nl :: rev s)) with (drop_sp (rev s)).
  rewrite (drop_sp_hd (rev s)) by assumption. apply rev_involutive.
Qed.

Lemma allnosp_edge s : s <> [] -> forallb (fun c => negb (is_sp c)) s = true -> tok_edge s.
Proof.
  intros Hn H. rewrite forallb_forall in H. split.
  - destruct s as [|c r]; [congruence|]. cbn. specialize (H c (or_introl eq_refl)). now apply negb_true_iff in H.
  - destruct (rev s) as [|c r] eqn:E.
    + apply (f_equal (@rev _)) in E. rewrite rev_involutive in E. cbn in E. congruence.
    + cbn. assert (Hin : In c s) by (apply in_rev; rewrite E; now left).
      specialize (H c Hin). now apply negb_true_iff in H.
Qed.

Lemma join_edges ts : ts <> [] -> Forall tok_edge ts -> tok_edge (join sp ts).
Proof.
  induction ts as [|t r IH]; intros Hne HF; [congruence|].
  inversion HF as [|? ? [T1 T2] HF']; subst. destruct r as [|t2 r'].
  - cbn [join]. now split.
  - change (join sp (t :: t2 :: r')) with (t ++ sp :: join sp (t2 :: r')).
    destruct (IH ltac:(discriminate) HF') as [_ J2]. split.
    + now apply nosp_hd_app.
    + rewrite rev_app_distr. cbn [rev]. rewrite <- app_assoc. now apply nosp_hd_app.
Qed.

Lemma trim_file ws : Forall tok_edge ws -> trim (file_of ws) = join sp ws.
Proof.
  intros H. unfold file_of. destruct ws as [|w r]; [reflexivity|].
  apply trim_edges, join_edges; [discriminate|assumption].
Qed.

Lemma flagname_edge n : wf_flagname n = true -> tok_edge n.
Proof. intros H. destruct (wf_flagname_facts n H) as (N1 & _ & N3 & _). now apply allnosp_edge. Qed.

Lemma iuse_tok_edge t : (fst t <=? 2) && wf_flagname (snd t) = true -> tok_edge (iuse_tok t).
Proof.
  intros H. destruct (iuse_tok_facts t H) as (T1 & _ & _). apply allnosp_edge; [assumption|].
  apply andb_true_iff in H as [_ Hn]. destruct (wf_flagname_facts _ Hn) as (_ & _ & N3 & _).
  unfold iuse_tok. rewrite forallb_app, N3, andb_true_r.
  destruct (fst t =? 1); [reflexivity|]. destruct (fst t =? 2); reflexivity.
Qed.

(* ================= the flag set setAtom builds ================= *)
(* the tokens of the file setAtom reads the declared flags from *)
Definition decl_toks (e : vdbent) : list (N * bytes) :=
  match e_eff e with
  | Some l => map (fun f => (0, f)) l
  | None => match e_iuse e with Some l => l | None => [] end
  end.

Lemma map_iuse_tok0 l : map iuse_tok (map (fun f : bytes => (0, f)) l) = l.
Proof. induction l as [|f l IH]; cbn [map]; [reflexivity|]. now rewrite IH. Qed.

Lemma decl_toks_snd e : map snd (decl_toks e) = declared_flags (e_iuse e) (e_eff e).
Proof.
  unfold decl_toks, declared_flags. destruct (e_eff e) as [l|]; [|now destruct (e_iuse e)].
  rewrite map_map. cbn [snd]. apply map_id.
Qed.

Lemma wf_ent_parts e : wf_ent e = true ->
  forallb (fun t => (fst t <=? 2) && wf_flagname (snd t)) (decl_toks e) = true
  /\ forallb wf_flagname (use_words (e_use e)) = true
  /\ match e_eff e with Some l => forallb wf_flagname l = true | None => True end
  /\ match e_iuse e with Some l => forallb (fun t => (fst t <=? 2) && wf_flagname (snd t)) l = true | None => True end.
Proof.
  unfold wf_ent, decl_toks, use_words. intros H. apply andb_true_iff in H as [H Hu]. apply andb_true_iff in H as [He Hi].
  repeat split.
  - destruct (e_eff e) as [l|].
    + rewrite forallb_map'. cbn [fst snd]. exact He.
    + destruct (e_iuse e); auto.
  - destruct (e_use e); auto.
  - destruct (e_eff e); auto.
  - destruct (e_iuse e); auto.
Qed.

Lemma ent_decl_line e : wf_ent e = true ->
  read_first [eff_file e; iuse_file e] = join sp (map iuse_tok (decl_toks e)).
Proof.
  intros W. destruct (wf_ent_parts e W) as (_ & _ & He & Hi).
  unfold eff_file, iuse_file, decl_toks.
  destruct (e_eff e) as [l|]; cbn [option_map read_first].
  - rewrite map_iuse_tok0. apply trim_file. apply Forall_forall. intros x Hx.
    rewrite forallb_forall in He. now apply flagname_edge, He.
  - destruct (e_iuse e) as [l|]; cbn [option_map read_first]; [|reflexivity].
    apply trim_file. apply Forall_forall. intros x Hx. apply in_map_iff in Hx as (t & <- & Ht).
    rewrite forallb_forall in Hi. now apply iuse_tok_edge, Hi.
Qed.

Lemma ent_use_line e : wf_ent e = true -> read_first [use_file e] = join sp (use_words (e_use e)).
Proof.
  intros W. destruct (wf_ent_parts e W) as (_ & Hu & _). unfold use_file, use_words in *.
  destruct (e_use e) as [l|]; cbn [option_map read_first]; [|reflexivity].
  apply trim_file. apply Forall_forall. intros x Hx. rewrite forallb_forall in Hu. now apply flagname_edge, Hu.
Qed.

Lemma ent_pms_toks e :
  ent_pms e = map (fun t : N * bytes => (snd t, memb (snd t) (use_words (e_use e)))) (decl_toks e).
Proof.
  unfold ent_pms, installed_flags. fold (use_words (e_use e)). rewrite <- decl_toks_snd, map_map. reflexivity.
Qed.

(* the state of every flag in the loaded flag set is its state according to PMS *)
Theorem ent_flags_state e m : wf_ent e = true -> flag_state m (ent_flags e) = lookup m (ent_pms e).
Proof.
  intros W. destruct (wf_ent_parts e W) as (Hd & Hu & _).
  unfold ent_flags, vdb_flags. rewrite ent_decl_line, ent_use_line by assumption.
  rewrite new_from_iuse_toks, set_from_use_toks by assumption.
  rewrite flag_state_use, flag_state_dedup, ent_pms_toks, lookup_cand. cbn [flag_state].
  destruct (memb m (map snd (decl_toks e))); reflexivity.
Qed.

(* ... and so is what the depending package hands to FlagsMatch as contextFlags *)
Theorem ent_ctx_lookup e m : wf_ent e = true ->
  ctx_lookup m (get_map (ent_flags e)) = ctx_lookup m (ent_pms e).
Proof.
  intros W. rewrite (ctx_lookup_eq m (ent_pms e)), <- ent_flags_state by assumption.
  unfold get_map. induction (ent_flags e) as [|[k b] f IH]; cbn [ctx_lookup flag_state]; auto.
  destruct (beq m k); auto.
Qed.

Lemma ent_parent_flags e m : wf_ent e = true ->
  ctx_lookup m (get_map (ent_flags e)) = match lookup m (ent_pms e) with Some b => b | None => false end.
Proof. intros W. rewrite <- ctx_lookup_eq. now apply ent_ctx_lookup. Qed.

(* loader + prefixes: a default-on flag that USE does not list is off, a default-off flag that USE lists is on *)
Corollary ent_flags_prefix_blind e1 e2 m : wf_ent e1 = true -> wf_ent e2 = true ->
  e_eff e1 = None -> e_eff e2 = None -> e_use e1 = e_use e2 ->
  option_map (map snd) (e_iuse e1) = option_map (map snd) (e_iuse e2) ->
  flag_state m (ent_flags e1) = flag_state m (ent_flags e2).
Proof.
  intros W1 W2 E1 E2 U I. rewrite !ent_flags_state by assumption. unfold ent_pms. rewrite E1, E2, U.
  destruct (e_iuse e1) as [i1|], (e_iuse e2) as [i2|]; try discriminate; auto.
  cbn in I. injection I as I. now rewrite (installed_prefix_independent i1 i2).
Qed.

(* ================= the slot setAtom sets ================= *)
Lemma slotchar_facts c :
  (is_alnum c || (bn c =? 95) || (bn c =? 43) || (bn c =? 46) || (bn c =? 45)) = true ->
  is_sp c = false /\ (bn c =? 47) = false.
Proof. unfold is_alnum, is_sp. lia. Qed.

Lemma wf_slotname_facts s : wf_slotname s = true ->
  s <> [] /\ forallb (fun c => negb (is_sp c)) s = true /\ forallb (fun c => negb (bn c =? 47)) s = true.
Proof.
  destruct s as [|c r]; [discriminate|]. cbn [wf_slotname]. intros H. apply andb_true_iff in H as [Hc Hr].
  assert (Hc' : (is_alnum c || (bn c =? 95) || (bn c =? 43) || (bn c =? 46) || (bn c =? 45)) = true).
  { apply orb_true_iff in Hc as [Hc|Hc]; rewrite Hc; cbn; auto. now rewrite !orb_true_r. }
  destruct (slotchar_facts c Hc') as [C1 C2]. rewrite forallb_forall in Hr.
  split; [discriminate|]. split; cbn [forallb]; [rewrite C1|rewrite C2]; cbn [negb andb];
    apply forallb_forall; intros x Hx; destruct (slotchar_facts x (Hr x Hx)) as [X1 X2]; [now rewrite X1|now rewrite X2].
Qed.

Lemma before_slash_app s r : forallb (fun c => negb (bn c =? 47)) s = true ->
  before_slash (s ++ nb 47 :: r) = s.
Proof.
  induction s as [|c s IH]; cbn [app before_slash forallb]; intros H; [reflexivity|].
  apply andb_true_iff in H as [Hc Hs]. apply negb_true_iff in Hc. rewrite Hc. now rewrite IH.
Qed.
Lemma before_slash_none s : forallb (fun c => negb (bn c =? 47)) s = true -> before_slash s = s.
Proof.
  induction s as [|c s IH]; cbn [before_slash forallb]; intros H; [reflexivity|].
  apply andb_true_iff in H as [Hc Hs]. apply negb_true_iff in Hc. rewrite Hc. now rewrite IH.
Qed.

Lemma vdb_slot_file p : wf_slotname (p_slot p) = true ->
  match p_subslot p with Some x => wf_slotname x = true | None => True end ->
  vdb_slot (slot_file p) = p_slot p.
Proof.
  intros Hs Hx. destruct (wf_slotname_facts _ Hs) as (S1 & S2 & S3).
  unfold vdb_slot, slot_file. destruct (p_subslot p) as [x|].
  - destruct (wf_slotname_facts _ Hx) as (X1 & X2 & X3).
    rewrite app_assoc. rewrite trim_edges.
    + now apply before_slash_app.
    + apply allnosp_edge; [destruct (p_slot p); [congruence|discriminate]|].
      rewrite forallb_app, S2. cbn [forallb andb]. exact X2.
  - cbn [app]. rewrite trim_edges by now apply allnosp_edge. now apply before_slash_none.
Qed.

Lemma wf_pkg_parts p : wf_pkg p = true ->
  wf_ver (p_ver p) = true /\ wf_slotname (p_slot p) = true
  /\ match p_subslot p with Some x => wf_slotname x = true | None => True end.
Proof.
  unfold wf_pkg. intros H. do 2 (apply andb_true_iff in H as [H _]). apply andb_true_iff in H as [H Hx].
  apply andb_true_iff in H as [Hv Hs]. repeat split; auto. destruct (p_subslot p); auto.
Qed.

(* the loaded package compares like the package text with its slot (the sub-slot is dropped;
   VersionAndSlotMatch never looks at it: known-finding class 6) *)
Lemma parse_vdb_pkg_fields p : wf_pkg p = true ->
  pa_compver (parse_vdb_pkg p) = enc (p_ver p) /\ pa_slot (parse_vdb_pkg p) = make_comparable (p_slot p).
Proof.
  intros W. destruct (wf_pkg_parts p W) as (Hv & Hs & Hx).
  unfold parse_vdb_pkg. rewrite vdb_slot_file by assumption.
  change (raw_parse Relop_none true (basever_of (p_ver p)) (suffix_of (p_ver p)) (revision_of (p_ver p)) false (p_slot p) [] [] [])
    with (parse_pkg (MkPkg (p_ver p) (p_slot p) None [] [])).
  apply (parse_pkg_fields (MkPkg (p_ver p) (p_slot p) None [] [])).
  unfold wf_pkg. cbn [p_ver p_slot p_subslot p_iuse p_use forallb]. now rewrite Hv, Hs.
Qed.

Lemma vdb_pkg_compares p : wf_pkg p = true ->
  pa_compver (parse_vdb_pkg p) = pa_compver (parse_pkg p) /\ pa_slot (parse_vdb_pkg p) = pa_slot (parse_pkg p).
Proof.
  intros W. destruct (parse_vdb_pkg_fields p W) as [-> ->]. destruct (parse_pkg_fields p W) as [-> ->]. now split.
Qed.

(* ================= the per-case theorem for extended cases ================= *)
Lemma flags_match_ext deps f1 c1 f2 c2 :
  (forall m, flag_state m f1 = flag_state m f2) -> (forall m, ctx_lookup m c1 = ctx_lookup m c2) ->
  flags_match deps f1 c1 = flags_match deps f2 c2.
Proof.
  intros Hf Hc. unfold flags_match. induction deps as [|[[tp def] name] l IH]; cbn [forallb]; [reflexivity|].
  now rewrite Hf, Hc, IH.
Qed.

Lemma pms_pkg_cand p e : cand_flags (pms_pkg p e) = ent_pms e.
Proof.
  unfold cand_flags, pms_pkg, ent_pms, installed_flags. cbn [p_iuse p_use]. rewrite map_map. reflexivity.
Qed.

Lemma wf_pms_pkg p e : wf_pkg p = true -> wf_ent e = true -> wf_pkg (pms_pkg p e) = true.
Proof.
  intros W We. destruct (wf_pkg_parts p W) as (Hv & Hs & Hx). destruct (wf_ent_parts e We) as (Hd & Hu & _).
  unfold wf_pkg, pms_pkg. cbn [p_ver p_slot p_subslot p_iuse p_use]. rewrite Hv, Hs. cbn [andb].
  assert (E : match p_subslot p with Some x => wf_slotname x | None => true end = true) by (destruct (p_subslot p); auto).
  rewrite E. cbn [andb]. rewrite <- decl_toks_snd, forallb_map', forallb_map'. cbn [fst snd].
  rewrite forallb_forall in Hd. apply andb_true_iff. split.
  - apply forallb_forall. intros t Ht. specialize (Hd t Ht). apply andb_true_iff in Hd as [_ Hd]. exact Hd.
  - exact Hu.
Qed.

Lemma wf_ent_pms e : wf_ent e = true -> forallb (fun en : bytes * bool => wf_flagname (fst en)) (ent_pms e) = true.
Proof.
  intros We. destruct (wf_ent_parts e We) as (Hd & _). rewrite ent_pms_toks, forallb_map'. cbn [fst].
  rewrite forallb_forall in Hd. apply forallb_forall. intros t Ht. specialize (Hd t Ht).
  apply andb_true_iff in Hd as [_ Hd]. exact Hd.
Qed.

Lemma xwf_pms x : xwf x = true -> wf (pms_case x) = true.
Proof.
  unfold xwf, wf, pms_case. intros H. apply andb_true_iff in H as [H Wp]. apply andb_true_iff in H as [H Wc].
  apply andb_true_iff in H as [H Wpar]. apply andb_true_iff in H as [Wa Wk].
  cbn [c_atom c_pkg c_parent]. rewrite Wa. cbn [andb]. apply andb_true_iff. split.
  - destruct (x_cand x) as [e|]; auto. now apply wf_pms_pkg.
  - destruct (x_par x) as [e|]; auto. now apply wf_ent_pms.
Qed.

(* the decisions of the extended model are those of the unextended model on the PMS reading of the entries *)
Lemma xmodel_decisions x : xwf x = true ->
  spec (pms_case x) (xmodel x) = spec (pms_case x) (model (pms_case x)).
Proof.
  intros W. pose proof (xwf_pms x W) as Wc.
  unfold xwf in W. apply andb_true_iff in W as [W Wp]. apply andb_true_iff in W as [W0 We].
  assert (Wk : wf_pkg (c_pkg (x_case x)) = true).
  { unfold wf in W0. apply andb_true_iff in W0 as [W0 _]. now apply andb_true_iff in W0 as [_ W0]. }
  assert (Wk' : wf_pkg (c_pkg (pms_case x)) = true).
  { unfold wf in Wc. apply andb_true_iff in Wc as [Wc _]. now apply andb_true_iff in Wc as [_ Wc]. }
  unfold xmodel, model. change (c_atom (pms_case x)) with (c_atom (x_case x)).
  destruct (make_da (parse_atom (c_atom (x_case x)))) as [d|]; [|reflexivity].
  cbn [spec]. unfold filter_one.
  set (ppx := match x_cand x with None => parse_pkg (c_pkg (x_case x)) | Some _ => parse_vdb_pkg (c_pkg (x_case x)) end).
  set (fx := match x_cand x with None => pkg_flags (c_pkg (x_case x)) | Some e => ent_flags e end).
  set (cx := match x_par x with None => c_parent (x_case x) | Some e => get_map (ent_flags e) end).
  assert (E1 : pa_compver ppx = pa_compver (parse_pkg (c_pkg (pms_case x)))
               /\ pa_slot ppx = pa_slot (parse_pkg (c_pkg (pms_case x)))).
  { destruct (parse_pkg_fields _ Wk') as [-> ->]. subst ppx. unfold pms_case. cbn [c_pkg].
    destruct (x_cand x) as [e|].
    - destruct (parse_vdb_pkg_fields _ Wk) as [-> ->]. now split.
    - destruct (parse_pkg_fields _ Wk) as [-> ->]. now split. }
  destruct E1 as [-> ->].
  assert (E2 : flags_match (da_usedeps d) fx cx
               = flags_match (da_usedeps d) (pkg_flags (c_pkg (pms_case x))) (c_parent (pms_case x))).
  { apply flags_match_ext; intros m.
    - rewrite pkg_flags_state by assumption. subst fx. unfold pms_case. cbn [c_pkg].
      destruct (x_cand x) as [e|].
      + rewrite pms_pkg_cand. now apply ent_flags_state.
      + now apply pkg_flags_state.
    - subst cx. unfold pms_case. cbn [c_parent]. destruct (x_par x) as [e|]; auto. now apply ent_ctx_lookup. }
  now rewrite E2.
Qed.

Theorem xholds x : xwf x = true -> xkf x = 0 -> xspec x (xmodel x) = true.
Proof.
  intros W K. unfold xspec. rewrite xmodel_decisions by assumption.
  apply holds; [now apply xwf_pms|exact K].
Qed.

(* an extended case without entries is the case itself *)
Lemma xcase_plain c : xmodel (MkX c None None) = model c /\ xspec (MkX c None None) = spec c
  /\ xkf (MkX c None None) = kf c /\ xwf (MkX c None None) = wf c.
Proof.
  destruct c as [a p par o]. split; [reflexivity|]. split; [reflexivity|]. split; [reflexivity|].
  unfold xwf. cbn [x_case x_cand x_par wf_oent]. now rewrite !andb_true_r.
Qed.

(* the hypotheses are satisfiable by a non-trivial input: curl built with IUSE="+ssl -gnutls nls", no
   IUSE_EFFECTIVE, USE="gnutls" (ssl switched off, gnutls switched on), asked for by
   net-misc/curl[-ssl,gnutls,nls=] from a package loaded with IUSE_EFFECTIVE="nls ssl", USE="ssl" *)
Definition ex_cand : vdbent :=
  MkVdb None (Some [(1, bs "ssl"); (2, bs "gnutls"); (0, bs "nls")]) (Some [bs "gnutls"]).
Definition ex_par : vdbent := MkVdb (Some [bs "nls"; bs "ssl"]) (Some [(1, bs "nls")]) (Some [bs "ssl"]).
Definition ex_xcase : xcase :=
  MkX (MkCase (MkAtom None SNone [MkUD UDisabled (bs "ssl") DNone; MkUD UEnabled (bs "gnutls") DNone;
                                   MkUD USame (bs "nls") DNone])
              (MkPkg (MkVer [bs "8"; bs "4"] None [] None) (bs "0") None [] []) [] OTimeout)
      (Some ex_cand) (Some ex_par).
Example ex_xcase_hyps : xwf ex_xcase = true /\ xkf ex_xcase = 0
  /\ match xmodel ex_xcase with OOk _ _ _ _ _ _ true true true => True | _ => False end.
Proof. vm_compute. auto. Qed.
