(* C14_holds: the per-case statement (what the correspondence check evaluates on implementation
   output) holds for the model on every well-formed case outside the known-finding classes.
   Plus the refutation witnesses of the two known findings and examples that the hypotheses of
   the main theorems are satisfiable by non-trivial inputs. *)
From LC Require Import Lib.Bytes Lib.Fields Gen.Consts Model.AtomParse Model.DepParse Model.PMSGrammar
  Proofs.AtomParseP Proofs.VersionP Proofs.AtomRoundtripP Proofs.DepParseP Proofs.DepRoundtripP Cases.C14.
From Coq Require Import ZifyBool ZifyNat ZifyN.
Open Scope list_scope.
Open Scope N_scope.
Import C14.

Lemma list_beq_refl {A} (eq : A -> A -> bool) : (forall x, eq x x = true) -> forall l, list_beq eq l l = true.
Proof. intros H. induction l; cbn; auto. now rewrite H, IHl. Qed.
Lemma usedep_beq_refl u : usedep_beq u u = true.
Proof. unfold usedep_beq. now rewrite !N.eqb_refl, beq_refl. Qed.
Lemma bool_eqb_refl b : Bool.eqb b b = true.
Proof. now destruct b. Qed.
Lemma parsed_beq_refl p : parsed_beq p p = true.
Proof.
  unfold parsed_beq. rewrite !beq_refl, !N.eqb_refl, !bool_eqb_refl. cbn. apply list_beq_refl. exact usedep_beq_refl.
Qed.
Lemma leaf_beq_refl a : leaf_beq a a = true.
Proof. unfold leaf_beq. rewrite !beq_refl, !bool_eqb_refl. cbn. apply list_beq_refl. exact usedep_beq_refl. Qed.
Lemma dep_beq_refl : forall d, dep_beq d d = true.
Proof.
  apply (dep_ind2 (fun d => dep_beq d d = true)).
  - intros a. cbn. apply leaf_beq_refl.
  - intros k f ds IH. cbn [dep_beq]. rewrite N.eqb_refl, beq_refl. cbn [andb].
    induction ds as [|x r IHr]; [reflexivity|]. inversion IH as [|? ? Hx Hr]; subst. rewrite Hx. cbn [andb]. now apply IHr.
Qed.

Lemma kf_zero_dep ast input o : kf (CDep ast input o) = 0 ->
  accepted input = true -> existsb ctrl_byte input = false /\ bare_use (ptokens input) = false.
Proof.
  cbn [kf]. intros H Ha. rewrite Ha in H. cbn [negb] in H.
  destruct (existsb ctrl_byte input); [discriminate|]. destruct (bare_use (ptokens input)); [discriminate|]. auto.
Qed.

Lemma raw_parse_op_written input vnr asdep p r :
  raw_parse_at input vnr asdep = (AOk p, r) -> op_written vnr input p = true.
Proof.
  unfold raw_parse_at, op_written, relop_written.
  destruct (take_prefix input) as [[[bl hb] relop] s2].
  destruct (span is_namever s2) as [namever s3].
  destruct (take_slot s3) as [[[slot sub] slotop] s4].
  destruct (take_repo s4) as [repo s5].
  destruct (use_part asdep s5) as [uses s6| |]; try (intros H; discriminate H).
  unfold finish, atom_header.
  destruct (ver_split namever) as [[pre t]|].
  - destruct (relop =? R_none) eqn:Er; destruct vnr; cbn [andb negb orb]; try reflexivity.
    intros H; discriminate H.
  - destruct (relop =? R_none) eqn:Er; [|intros H; discriminate H].
    destruct (catname_match namever) as [[cat name]|]; [|intros H; discriminate H].
    destruct (slot_fields slot sub slotop) as [[[[sl sb] slrel] anys] sames].
    intros H. injection H as <- _. cbn [p_verrelop]. rewrite N.eqb_refl. now rewrite !orb_true_r.
Qed.

Theorem C14_holds_proof : forall c, wf c = true -> kf c = 0 -> spec c (model c) = true.
Proof.
  intros [ast input vnr asdep o|ast input o] Hwf Hkf.
  - (* atoms *)
    cbn [model spec]. destruct (atom_total input vnr asdep) as [Hp Hd].
    destruct (raw_parse_at input vnr asdep) as [res r] eqn:E. cbn [fst] in *.
    destruct ast as [a|].
    + cbn [wf] in Hwf. apply andb_true_iff in Hwf as [Hwa Hpr]. apply beq_true in Hpr. subst input.
      pose proof (atom_roundtrip vnr asdep a [] Hwa ltac:(auto) (or_introl eq_refl)) as Ert. rewrite app_nil_r in Ert.
      rewrite Ert in E. injection E as <- <-. rewrite parsed_beq_refl. rewrite p_atom_denote.
      pose proof Ert as Eok. rewrite (raw_parse_op_written _ _ _ _ _ Eok), andb_true_r.
      apply raw_parse_ok in Eok as (_ & _ & _ & Hbl & Hhb & _).
      rewrite Hbl, Hhb. rewrite !bool_eqb_refl. rewrite beq_refl, orb_true_r.
      assert (Hpre : prefixb (print_atom a) (print_atom a) = true) by (apply prefixb_spec; exists []; now rewrite app_nil_r).
      now rewrite Hpre.
    + destruct res as [p| | |]; try reflexivity; try congruence.
      rewrite (raw_parse_op_written _ _ _ _ _ E), andb_true_r.
      apply raw_parse_ok in E as (Hs & _ & _ & Hbl & Hhb & Hall). rewrite Hbl, Hhb, !bool_eqb_refl.
      assert (Hpre : prefixb (p_atom p) input = true) by (apply prefixb_spec; now exists r). rewrite Hpre.
      destruct asdep; cbn [orb andb]; [reflexivity|]. rewrite (Hall eq_refl) in Hs. rewrite app_nil_r in Hs. rewrite <- Hs. now rewrite beq_refl.
  - (* dependency strings *)
    cbn [model spec]. destruct (decode_total input) as [Hp Hd].
    destruct (decode input) as [l| | |] eqn:E; try congruence.
    + assert (Hacc : accepted input = true) by (unfold accepted; now rewrite E).
      destruct (kf_zero_dep _ _ _ Hkf Hacc) as [Hnc Hnb].
      rewrite (decode_no_misparse input l Hnc Hnb E). rewrite (list_beq_refl beq beq_refl). cbn [dep_strings].
      assert (Hstr : map dep_string l = map (fun d => C14.sp_join (dep_toks d)) l).
      { pose proof (decode_ok_wt input l E) as Hwt. clear E. induction l as [|x l IH]; [reflexivity|].
        cbn in Hwt. apply andb_true_iff in Hwt as [Hx Hl]. cbn [map]. f_equal; [|now apply IH].
        now apply dep_string_toks. }
      rewrite Hstr. rewrite (list_beq_refl beq beq_refl). rewrite andb_true_r.
      destruct ast as [ts|]; [|reflexivity]. cbn [wf] in Hwf. apply andb_true_iff in Hwf as [Hwt Htok].
      apply (list_beq_true beq beq_true) in Htok. rewrite (dep_roundtrip ts input Hwt Htok) in E. injection E as <-.
      rewrite andb_true_r. apply list_beq_refl. exact dep_beq_refl.
    + destruct ast as [ts|]; [|reflexivity]. cbn [wf] in Hwf. apply andb_true_iff in Hwf as [Hwt Htok].
      apply (list_beq_true beq beq_true) in Htok. rewrite (dep_roundtrip ts input Hwt Htok) in E. discriminate.
Qed.

(* ---- the two known findings: the faithful model violates the property on these inputs ---- *)
Definition kf1_case : case := CDep None (bs "flag? cat/pkg") (ODep RErr []).
Theorem C14_refuted_1_proof : wf kf1_case = true /\ kf kf1_case = 1 /\ spec kf1_case (model kf1_case) = false.
Proof. vm_compute. repeat split. Qed.
Definition kf2_case : case := CDep None (hx "612f6201632f64") (ODep RErr []).   (* "a/b" 0x01 "c/d" *)
Theorem C14_refuted_2_proof : wf kf2_case = true /\ kf kf2_case = 2 /\ spec kf2_case (model kf2_case) = false.
Proof. vm_compute. repeat split. Qed.


(* ---- statements of Properties/C14.v that combine lemmas ---- *)
Lemma regex_pinned :
  PA_pkgVerRE = bs "^(.*?)-(\d+(?:\.\d+)*[a-z]?)((?:_(?:alpha|beta|pre|rc|p)\d*)+)?(?:-(r\d+))?(\*?)$" /\
  PA_pkgCatNameRE = bs "^(?:(\w[\w+.-]*)/)?(\w[\w+-]*)$".
Proof. split; reflexivity. Qed.
Lemma version_matcher_complete : forall v g, wf_version v = true ->
  ver_tail (print_version v ++ globtxt g) = Some (MkVT (print_ver_main v) (print_sufs v) (print_rev v) g).
Proof. intros v g H. apply ver_tail_print. now apply wf_version_wfv. Qed.
Lemma reference_version_syntax : forall v, wf_version v = true -> is_pms_version (print_version v) = true.
Proof. intros v H. apply pms_version_print. now apply wf_version_wfv. Qed.
Lemma name_version_boundary : forall a, wfcn a ->
  (forall v g, wfv v ->
     ver_split (print_catname a ++ nb 45 :: print_version v ++ globtxt g) =
     Some (print_catname a, MkVT (print_ver_main v) (print_sufs v) (print_rev v) g)) /\
  ver_split (print_catname a) = None.
Proof. intros a W. split; [intros v g Wv; now apply ver_split_version|now apply ver_split_none]. Qed.
Lemma string_prints_tree : forall s l, decode s = ROk l ->
  map dep_string l = map (fun d => DepParseP.sp_join (dep_toks d)) l.
Proof.
  intros s l E. pose proof (decode_ok_wt s l E) as Hwt. clear E. induction l as [|x l IH]; [reflexivity|].
  cbn in Hwt. apply andb_true_iff in Hwt as [Hx Hl]. cbn [map]. f_equal; [now apply dep_string_toks|now apply IH].
Qed.
Lemma refuted_1 : exists c, wf c = true /\ kf c = 1 /\ spec c (model c) = false.
Proof. exists kf1_case. exact C14_refuted_1_proof. Qed.
Lemma refuted_2 : exists c, wf c = true /\ kf c = 2 /\ spec c (model c) = false.
Proof. exists kf2_case. exact C14_refuted_2_proof. Qed.

(* ---- the hypotheses of the theorems are satisfiable by non-trivial inputs ---- *)
Definition ex_version : version_ast := MkVer [bs "1"; bs "20"; bs "003"] (Some (nb 98)) [(0, bs "1"); (4, [])] (Some (bs "2")).
Definition ex_atom : atom_ast :=
  MkA 2 4 (Some (bs "media-fonts")) (bs "font-adobe-100dpi") (Some ex_version) false
      (SSlot (bs "3.8") (Some (bs "3.8-r1")) true) (Some (bs "gentoo"))
      [MkU 33 (bs "static-libs") 2 63; MkU 45 (bs "gtk") 0 0; MkU 0 (bs "abi_x86_32") 1 61].
Example ex_atom_wf : wf_atom true true ex_atom = true.
Proof. vm_compute. reflexivity. Qed.
Example ex_atom_text : print_atom ex_atom = bs "!!>=media-fonts/font-adobe-100dpi-1.20.003b_alpha1_p-r2:3.8/3.8-r1=::gentoo[!static-libs(-)?,-gtk,abi_x86_32(+)=]".
Proof. vm_compute. reflexivity. Qed.
Example ex_atom_parse : fst (raw_parse_at (print_atom ex_atom) true true) = AOk (denote ex_atom).
Proof. vm_compute. reflexivity. Qed.
Definition ex_tree : list dast :=
  [TG 2 [] [TG 1 [] [TA ex_atom; TG 6 (bs "X") [TG 4 [] []]]; TA (MkA 0 0 (Some (bs "a")) (bs "b-1xy") None false SNone None [])];
   TG 5 (bs "ssl") [TG 3 [] [TA (MkA 1 0 None (bs "c") None false SAny None [])]]].
Example ex_tree_wf : forallb wf_dast ex_tree = true.
Proof. vm_compute. reflexivity. Qed.
Example ex_version_wf : wf_version ex_version = true.
Proof. vm_compute. reflexivity. Qed.
Example ex_unbalanced : balanced 0 (wtoks (bs "( a/b")) = false /\ balanced 0 (wtoks (bs "a/b ) c/d")) = false.
Proof. vm_compute. split; reflexivity. Qed.
Example ex_wf_case : wf (CDep (Some ex_tree) (unwords (bs "  ") (flat_map print_toks ex_tree)) (ODep RErr [])) = true
                     /\ kf (CDep (Some ex_tree) (unwords (bs "  ") (flat_map print_toks ex_tree)) (ODep RErr [])) = 0.
Proof. vm_compute. split; reflexivity. Qed.
