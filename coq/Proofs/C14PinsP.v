(* C14 -- constants of Gen/Consts.v (rewritten from the source of /repo by tools/genconsts on
   every run) compared with literals, one lemma per constant so that the failing line names it.
   Used by: Model/AtomParse.v and the reference Model/PMSGrammar.v share the comparable-version encoding and the character classes (the two regular expressions are pinned by C14_regex_pinned).
   A changed constant makes this file fail to build; the check then reports
   "proof obligation no longer checks" for Properties/C14.v (C14_constants_pinned) instead of
   letting model, predicate and code move together unnoticed.  The literals are repeated, with
   their sources, in the statement of C14_constants_pinned. *)
From LC Require Import Lib.Bytes Gen.Consts.
Local Open Scope string_scope.

Lemma pin_PP_isNameVerChar :
  PP_isNameVerChar = bs "a-zA-Z0-9/_+*.-".
Proof. (vm_compute; reflexivity) || fail "PP_isNameVerChar of the source tree differs from the reviewed literal (C14_constants_pinned)". Qed.

Lemma pin_PP_isSlotNameStartChar :
  PP_isSlotNameStartChar = bs "a-zA-Z0-9_".
Proof. (vm_compute; reflexivity) || fail "PP_isSlotNameStartChar of the source tree differs from the reviewed literal (C14_constants_pinned)". Qed.

Lemma pin_PP_isSlotNameMidChar :
  PP_isSlotNameMidChar = bs "a-zA-Z0-9+_.-".
Proof. (vm_compute; reflexivity) || fail "PP_isSlotNameMidChar of the source tree differs from the reviewed literal (C14_constants_pinned)". Qed.

Lemma pin_PP_isRepoNameChar :
  PP_isRepoNameChar = bs "a-zA-Z0-9_-".
Proof. (vm_compute; reflexivity) || fail "PP_isRepoNameChar of the source tree differs from the reviewed literal (C14_constants_pinned)". Qed.

Lemma pin_PP_isUseDepChar :
  PP_isUseDepChar = bs "a-zA-Z0-9+_@!?=(),-".
Proof. (vm_compute; reflexivity) || fail "PP_isUseDepChar of the source tree differs from the reviewed literal (C14_constants_pinned)". Qed.

Lemma pin_PP_IsUseFlagChar :
  PP_IsUseFlagChar = bs "a-zA-Z0-9+_@-".
Proof. (vm_compute; reflexivity) || fail "PP_IsUseFlagChar of the source tree differs from the reviewed literal (C14_constants_pinned)". Qed.

Lemma pin_PA_numericVersionSegmentWidth :
  PA_numericVersionSegmentWidth = 5%N.
Proof. (vm_compute; reflexivity) || fail "PA_numericVersionSegmentWidth of the source tree differs from the reviewed literal (C14_constants_pinned)". Qed.

Lemma pin_PA_releaseSuffixAlpha :
  PA_releaseSuffixAlpha = bs "_a".
Proof. (vm_compute; reflexivity) || fail "PA_releaseSuffixAlpha of the source tree differs from the reviewed literal (C14_constants_pinned)". Qed.

Lemma pin_PA_releaseSuffixBeta :
  PA_releaseSuffixBeta = bs "_b".
Proof. (vm_compute; reflexivity) || fail "PA_releaseSuffixBeta of the source tree differs from the reviewed literal (C14_constants_pinned)". Qed.

Lemma pin_PA_releaseSuffixPre :
  PA_releaseSuffixPre = bs "_c".
Proof. (vm_compute; reflexivity) || fail "PA_releaseSuffixPre of the source tree differs from the reviewed literal (C14_constants_pinned)". Qed.

Lemma pin_PA_releaseSuffixRc :
  PA_releaseSuffixRc = bs "_d".
Proof. (vm_compute; reflexivity) || fail "PA_releaseSuffixRc of the source tree differs from the reviewed literal (C14_constants_pinned)". Qed.

Lemma pin_PA_releaseSuffixNormal :
  PA_releaseSuffixNormal = bs "_n".
Proof. (vm_compute; reflexivity) || fail "PA_releaseSuffixNormal of the source tree differs from the reviewed literal (C14_constants_pinned)". Qed.

Lemma pin_PA_releaseSuffixPatch :
  PA_releaseSuffixPatch = bs "_p".
Proof. (vm_compute; reflexivity) || fail "PA_releaseSuffixPatch of the source tree differs from the reviewed literal (C14_constants_pinned)". Qed.

Lemma pin_PA_defaultRevision :
  PA_defaultRevision = bs "r00000".
Proof. (vm_compute; reflexivity) || fail "PA_defaultRevision of the source tree differs from the reviewed literal (C14_constants_pinned)". Qed.

Lemma pin_PA_maxAlphaVersion :
  PA_maxAlphaVersion = bs "zzzzz".
Proof. (vm_compute; reflexivity) || fail "PA_maxAlphaVersion of the source tree differs from the reviewed literal (C14_constants_pinned)". Qed.

Definition c14_constants_pinned := conj pin_PP_isNameVerChar (conj pin_PP_isSlotNameStartChar (conj pin_PP_isSlotNameMidChar (conj pin_PP_isRepoNameChar (conj pin_PP_isUseDepChar (conj pin_PP_IsUseFlagChar (conj pin_PA_numericVersionSegmentWidth (conj pin_PA_releaseSuffixAlpha (conj pin_PA_releaseSuffixBeta (conj pin_PA_releaseSuffixPre (conj pin_PA_releaseSuffixRc (conj pin_PA_releaseSuffixNormal (conj pin_PA_releaseSuffixPatch (conj pin_PA_defaultRevision pin_PA_maxAlphaVersion))))))))))))).
